(* C08, Start() after a restart: the state attributes segments / valid_begin / valid_end restored from the state file (possibly
   produced under a DIFFERENT definition) and what Start() makes of them (Tp/TpRoll.v tp_roll_start_on).
     - the segments after Start() do not depend on what was restored (tp_start_on_segs);
     - at every instant of [now, now + 24 h] the answer is the statement for the CURRENT definition (tp_start_on_answers), and on
       the whole window a start from scratch computes the answers are those of a start from scratch (tp_start_on_fresh_window);
     - form rw = true (valid_begin / valid_end emptied first): Start() IS the start from scratch, the rolling theorem applies as it
       stands (tp_rolling_updates_restart_reset);
     - form rw = false (today): the rolling theorem applies when the restored valid_end does not lie beyond the valid_end of a start
       from scratch (tp_rolling_updates_restart); otherwise the stretch in between is reported outside and stays so
       (tp_restart_keeps_valid_end_refuted, same witness repaired: tp_restart_resets_window_fixed);
     - keeping the restored segments while they cover the present is refuted (tp_start_keep_restored_refuted). *)
From Icv Require Import Base.Tac Tp.TpModel Tp.TpProofs Tp.TpRoll Tp.TpRollProofs.
Local Open Scope Z_scope.

(* ---------------- the same run on a state with the same segments and a wider window ---------------- *)

Section Wider.
Variable s0 : tp_st.     (* the restored state *)

Definition tp_vb_rel (o o' : option Z) : Prop :=
  match o with
  | None => o' = tp_vb s0
  | Some v => exists v', o' = Some v' /\ v' <= v
  end.
Definition tp_ve_rel (o o' : option Z) : Prop :=
  match o with
  | None => o' = tp_ve s0
  | Some v => exists v', o' = Some v' /\ v <= v' /\ (v' = v \/ tp_ve s0 = Some v')
  end.
(* s: the run from scratch, s': the run on the restored window *)
Definition tp_wider (s s' : tp_st) : Prop :=
  tp_segs s' = tp_segs s /\ tp_vb_rel (tp_vb s) (tp_vb s') /\ tp_ve_rel (tp_ve s) (tp_ve s').

Lemma tp_vb_rel_widen b o o' : tp_vb_rel o o' -> tp_vb_rel (tp_widen_b b o) (tp_widen_b b o').
Proof.
  unfold tp_vb_rel, tp_widen_b. destruct o as [v|].
  - intros (v' & -> & H). destruct (b <? v) eqn:C1, (b <? v') eqn:C2; eexists; split; try reflexivity; lia.
  - intros ->. destruct (tp_vb s0) as [x|]; [destruct (b <? x) eqn:C|]; eexists; split; try reflexivity; lia.
Qed.

Lemma tp_ve_rel_widen e o o' : tp_ve_rel o o' -> tp_ve_rel (tp_widen_e e o) (tp_widen_e e o').
Proof.
  unfold tp_ve_rel, tp_widen_e. destruct o as [v|].
  - intros (v' & -> & H1 & H2). destruct (v <? e) eqn:C1, (v' <? e) eqn:C2; eexists; (split; [reflexivity|]); (split; [lia|]);
      destruct H2 as [H2|H2]; try (left; lia); try (right; exact H2).
  - intros ->. destruct (tp_ve s0) as [x|] eqn:E; [destruct (x <? e) eqn:C|]; eexists; (split; [reflexivity|]); (split; [lia|]);
      try (left; reflexivity). right. reflexivity.
Qed.

Lemma tp_add_wider b e s s' : tp_wider s s' -> tp_wider (tp_add b e s) (tp_add b e s').
Proof.
  intros (H1 & H2 & H3). unfold tp_wider, tp_add. cbn [tp_segs tp_vb tp_ve]. rewrite H1.
  split; [reflexivity|]. split; [apply tp_vb_rel_widen|apply tp_ve_rel_widen]; assumption.
Qed.

Lemma tp_remove_wider fx b e s s' : tp_wider s s' -> tp_wider (tp_remove fx b e s) (tp_remove fx b e s').
Proof.
  intros (H1 & H2 & H3). unfold tp_wider, tp_remove. cbn [tp_segs tp_vb tp_ve]. rewrite H1.
  split; [reflexivity|]. split; [apply tp_vb_rel_widen|apply tp_ve_rel_widen]; assumption.
Qed.

Lemma tp_fold_add_wider own : forall s s', tp_wider s s' ->
  tp_wider (fold_left (fun acc sg => tp_add (fst sg) (snd sg) acc) own s) (fold_left (fun acc sg => tp_add (fst sg) (snd sg) acc) own s').
Proof. induction own as [|sg r IH]; intros s s' H; [exact H|]. cbn [fold_left]. apply IH, tp_add_wider, H. Qed.

Lemma tp_merge_wider fx o inc : forall s s', tp_wider s s' -> tp_wider (tp_merge fx o inc s) (tp_merge fx o inc s').
Proof.
  unfold tp_merge. induction o as [|sg r IH]; intros s s' H; [exact H|]. cbn [fold_left]. apply IH.
  destruct inc; [apply tp_add_wider|apply tp_remove_wider]; exact H.
Qed.

Lemma tp_merge_all_wider fx os inc : forall s s', tp_wider s s' -> tp_wider (tp_merge_all fx os inc s) (tp_merge_all fx os inc s').
Proof.
  unfold tp_merge_all. induction os as [|o r IH]; intros s s' H; [exact H|]. cbn [fold_left]. apply IH, tp_merge_wider, H.
Qed.

(* UpdateRegion(b, e, true) on the restored state against the same call on the empty state *)
Lemma tp_update_region_clear_wider fx upd prefer incs excs b e :
  tp_wider (tp_update_region fx upd prefer incs excs b e true tp_empty) (tp_update_region fx upd prefer incs excs b e true s0).
Proof.
  unfold tp_update_region. cbn [negb andb].
  apply tp_merge_all_wider, tp_merge_all_wider, tp_fold_add_wider, tp_remove_wider.
  unfold tp_wider, tp_empty, tp_vb_rel, tp_ve_rel. cbn [tp_segs tp_vb tp_ve]. repeat split; reflexivity.
Qed.
End Wider.

(* ---------------- Start() on a restored state ---------------- *)

Lemma tp_start_on_reset upd prefer r s : tp_roll_start_on true upd prefer r s = tp_roll_start upd prefer r.
Proof. reflexivity. Qed.

Lemma tp_start_on_wider (rw : bool) upd prefer r s :
  tp_wider (if rw then tp_empty else s) (tp_roll_start upd prefer r) (tp_roll_start_on rw upd prefer r s).
Proof. unfold tp_roll_start, tp_roll_start_on. apply tp_update_region_clear_wider. Qed.

(* the segment array after Start() is the one of a start from scratch: nothing of the restored segments survives *)
Theorem tp_start_on_segs rw upd prefer r s :
  tp_segs (tp_roll_start_on rw upd prefer r s) = tp_segs (tp_roll_start upd prefer r).
Proof. exact (proj1 (tp_start_on_wider rw upd prefer r s)). Qed.

(* at every instant of the 24 hours Start() computes, the answer is the statement for the definition in force - own part = what
   the update function of the NEW object returns -, whatever was restored *)
Theorem tp_start_on_answers rw upd prefer r s t :
  tp_rr_now r <= t <= tp_rr_now r + 86400 ->
  tp_is_inside (tp_roll_start_on rw upd prefer r s) t =
  tp_region_spec prefer (tp_inside_segs (upd (tp_rr_now r) (tp_rr_now r + 86400)) t)
    (tp_inside_any (tp_rr_incs r) t) (tp_inside_any (tp_rr_excs r) t).
Proof.
  intros Ht. unfold tp_roll_start_on.
  rewrite tp_update_region_is_inside; [|discriminate|exact Ht].
  unfold tp_own_after, tp_upd_begin. cbn [andb orb]. reflexivity.
Qed.

(* on the whole window of a start from scratch (it may reach beyond now + 24 h: a day's ranges are produced as a whole) the
   answers are those of a start from scratch *)
Theorem tp_start_on_fresh_window rw upd prefer r s vb ve t :
  tp_vb (tp_roll_start upd prefer r) = Some vb -> tp_ve (tp_roll_start upd prefer r) = Some ve -> vb <= t <= ve ->
  tp_is_inside (tp_roll_start_on rw upd prefer r s) t = tp_is_inside (tp_roll_start upd prefer r) t.
Proof.
  intros Hb He Ht. destruct (tp_start_on_wider rw upd prefer r s) as (H1 & H2 & H3).
  unfold tp_vb_rel in H2. unfold tp_ve_rel in H3. rewrite Hb in H2. rewrite He in H3.
  destruct H2 as (vb' & Hb' & Hvb). destruct H3 as (ve' & He' & Hve & _).
  unfold tp_is_inside. rewrite Hb, He, Hb', He', H1.
  assert (((t <? vb) || (ve <? t)) = false) as -> by lia.
  assert (((t <? vb') || (ve' <? t)) = false) as -> by lia. reflexivity.
Qed.

(* valid_end after Start(): the one of a start from scratch, or the restored one when that lies beyond it *)
Lemma tp_start_on_ve upd prefer r s ve :
  tp_ve (tp_roll_start upd prefer r) = Some ve ->
  exists ve', tp_ve (tp_roll_start_on false upd prefer r s) = Some ve' /\ ve <= ve' /\ (ve' = ve \/ tp_ve s = Some ve').
Proof.
  intros He. destruct (tp_start_on_wider false upd prefer r s) as (_ & _ & H3). unfold tp_ve_rel in H3. rewrite He in H3. exact H3.
Qed.

Lemma tp_start_on_vb upd prefer r s vb :
  tp_vb (tp_roll_start upd prefer r) = Some vb ->
  exists vb', tp_vb (tp_roll_start_on false upd prefer r s) = Some vb' /\ vb' <= vb.
Proof.
  intros Hb. destruct (tp_start_on_wider false upd prefer r s) as (_ & H2 & _). unfold tp_vb_rel in H2. rewrite Hb in H2. exact H2.
Qed.

(* ---------------- the rolling theorem after a restart ---------------- *)

Section RollingRestart.
Variable ownP : Z -> bool.
Variable upd : Z -> Z -> list tp_seg.
Variable hz : Z -> Z.
Variable prefer : bool.
Variable ma : bool.
Hypothesis Usound : forall b e t, tp_inside_segs (upd b e) t = true -> ownP t = true.
Hypothesis Ucomplete : forall b e t, b <= e -> b <= t < hz e -> tp_inside_segs (upd b e) t = ownP t.
Hypothesis Uhz : forall e, e <= hz e.
Hypothesis Uends : forall b e sg, In sg (upd b e) -> snd sg <= hz e.

(* the repaired form: Start() forgets the restored window, every run is a run from scratch *)
Theorem tp_rolling_updates_restart_reset s0 r0 rs :
  tp_round_ok hz r0 -> tp_env_ok hz r0 rs ->
  let s := fst (tp_roll_on true ma upd prefer s0 r0 rs) in
  let rl := snd (tp_roll_on true ma upd prefer s0 r0 rs) in
  forall t, Z.max (tp_rr_now r0) (tp_rr_now (last rs r0) - 3600) <= t < tp_ve_num s ->
    tp_is_inside s t =
    tp_region_spec prefer (ownP t) (tp_inside_any (tp_rr_incs rl) t) (tp_inside_any (tp_rr_excs rl) t).
Proof. exact (tp_rolling_updates ownP upd hz prefer ma Usound Ucomplete Uhz Uends r0 rs). Qed.

(* today's form: as long as the restored valid_end does not lie beyond the valid_end of a start from scratch *)
Theorem tp_rolling_updates_restart s0 r0 rs :
  tp_round_ok hz r0 -> tp_env_ok hz r0 rs ->
  tp_ve_num s0 <= tp_ve_num (tp_roll_start upd prefer r0) ->
  let s := fst (tp_roll_on false ma upd prefer s0 r0 rs) in
  let rl := snd (tp_roll_on false ma upd prefer s0 r0 rs) in
  forall t, Z.max (tp_rr_now r0) (tp_rr_now (last rs r0) - 3600) <= t < tp_ve_num s ->
    tp_is_inside s t =
    tp_region_spec prefer (ownP t) (tp_inside_any (tp_rr_incs rl) t) (tp_inside_any (tp_rr_excs rl) t).
Proof.
  intros Hok Henv Hve s rl t Ht.
  pose proof (tp_roll_inv_start ownP upd hz prefer Usound Ucomplete Uhz Uends r0 Hok) as Hfresh.
  assert (tp_roll_inv ownP prefer (tp_rr_now r0) r0 (tp_roll_start_on false upd prefer r0 s0, r0)) as Hinv.
  { destruct Hfresh as (Hg & Hsp & Hm). cbn [fst snd] in Hg, Hsp, Hm.
    destruct Hg as ((vb & Hvb & Hvbx) & (ve & Hve' & Hvem & Hends)).
    destruct (tp_start_on_vb upd prefer r0 s0 vb Hvb) as (vb' & Hvb' & Hle).
    destruct (tp_start_on_ve upd prefer r0 s0 ve Hve') as (ve' & Hve2 & Hge & Hor).
    assert (ve' = ve) as ->.
    { destruct Hor as [H|H]; [exact H|]. unfold tp_ve_num in Hve. rewrite H, Hve' in Hve. lia. }
    assert (tp_ve_num (tp_roll_start_on false upd prefer r0 s0) = tp_ve_num (tp_roll_start upd prefer r0)) as Hnum.
    { unfold tp_ve_num. rewrite Hve2, Hve'. reflexivity. }
    unfold tp_roll_inv. cbn [fst snd]. rewrite Hnum, (tp_start_on_segs false upd prefer r0 s0).
    split; [|split; [exact Hsp|exact Hm]].
    split.
    - exists vb'. split; [exact Hvb'|lia].
    - exists ve. split; [exact Hve2|]. split; [exact Hvem|]. rewrite (tp_start_on_segs false upd prefer r0 s0). exact Hends. }
  pose proof (tp_roll_inv_fold ownP upd hz prefer ma Usound Ucomplete Uhz Uends (tp_rr_now r0) rs r0 _ Hinv Henv) as (Hg & Hsp & _).
  fold (tp_roll_on false ma upd prefer s0 r0 rs) in Hg, Hsp. fold s in Hg, Hsp. fold rl in Hsp.
  rewrite (tp_rgood_is_inside _ _ s t Hg) by lia. apply Hsp. exact Ht.
Qed.
End RollingRestart.

(* ---------------- witnesses ---------------- *)

(* a day loop in miniature: one range "00:30-01:30" on each of four days (86400 s), the days up to the day of the region's end,
   kept when it ends after the region's begin (the look-back form) *)
Definition tp_wit_days : list tp_seg := [(1800, 5400); (88200, 91800); (174600, 178200); (261000, 264600)].
Definition tp_wit_upd (b e : Z) : list tp_seg :=
  filter (fun sg => (b <? snd sg) && (fst sg / 86400 <=? e / 86400)) tp_wit_days.
(* restored from a run under another definition (a range ending at 02:00 of day 2): no segment of it matters, valid_end does *)
Definition tp_wit_restored : tp_st := {| tp_segs := [(165600, 180000)]; tp_vb := Some 30000; tp_ve := Some 180000 |}.

(* today's form: restart at 10:00 of day 0, a round on day 1 - 00:53 of day 2 lies in the definition, below valid_end, and is
   reported outside, also after the round that recomputes from the restored valid_end *)
Theorem tp_restart_keeps_valid_end_refuted : forall ma : bool,
  let s := fst (tp_roll_on false ma tp_wit_upd true tp_wit_restored (36000, [], []) [(100000, [], [])]) in
  tp_inside_segs tp_wit_days 176000 = true /\ 100000 - 3600 <= 176000 < tp_ve_num s /\ tp_is_inside s 176000 = false.
Proof. intros [|]; vm_compute; repeat split; congruence. Qed.

(* the same run with the window emptied by Start(): inside *)
Theorem tp_restart_resets_window_fixed : forall ma : bool,
  let s := fst (tp_roll_on true ma tp_wit_upd true tp_wit_restored (36000, [], []) [(100000, [], [])]) in
  100000 - 3600 <= 176000 < tp_ve_num s /\ tp_is_inside s 176000 = true.
Proof. intros [|]; vm_compute; repeat split; congruence. Qed.

(* "keep the restored segments while they cover the present": the old definition (inside all of day 0 and day 1) answers for the
   new one (the four short ranges) - 12:00 of day 0, inside [now, now + 24 h], is reported inside; Start() as coded says outside *)
Definition tp_wit_old_all : tp_st := {| tp_segs := [(0, 172800)]; tp_vb := Some 0; tp_ve := Some 172800 |}.
Theorem tp_start_keep_restored_refuted :
  let r := (36000, @nil (list tp_seg), @nil (list tp_seg)) in
  tp_start_restored 36000 tp_wit_old_all = true /\
  36000 <= 43200 <= 36000 + 86400 /\
  tp_inside_segs (tp_wit_upd 36000 (36000 + 86400)) 43200 = false /\
  tp_is_inside (tp_roll_start_keep tp_wit_upd true r tp_wit_old_all) 43200 = true /\
  tp_is_inside (tp_roll_start_on false tp_wit_upd true r tp_wit_old_all) 43200 = false.
Proof. vm_compute. repeat split; congruence. Qed.
