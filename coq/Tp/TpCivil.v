(* C08, layer M2: days -> civil date -> days is the identity for ALL day numbers (all of Z).
   The algorithms split a day number into a 400-year era and a day-of-era 0 <= doe < 146097; everything
   that is not linear happens inside one era, which is a genuinely finite domain: it is checked by a
   kernel-evaluated sweep over all 146097 days of an era (bound in the statement of
   tp_civil_era_sweep) and lifted to Z by linear arithmetic on the era. *)
From Icv Require Import Base.Tac Tp.TpModel Tp.TpCal.
Local Open Scope Z_scope.

(* the era-local parts of tp_civil_from_days / tp_days_from_civil *)
Definition tp_cfd_local (doe : Z) : Z * Z * Z :=
  let yoe := (doe - doe / 1460 + doe / 36524 - doe / 146096) / 365 in
  let doy := doe - (365 * yoe + yoe / 4 - yoe / 100) in
  let mp := (5 * doy + 2) / 153 in
  let d := doy - (153 * mp + 2) / 5 + 1 in
  let m := if mp <? 10 then mp + 3 else mp - 9 in
  (yoe, m, d).

Definition tp_dfc_local (yoe m d : Z) : Z :=
  let doy := (153 * (if 2 <? m then m - 3 else m + 9) + 2) / 5 + d - 1 in
  yoe * 365 + yoe / 4 - yoe / 100 + doy.

Fixpoint tp_zrange_n (from : Z) (n : nat) : list Z :=
  match n with O => [] | S k => from :: tp_zrange_n (from + 1) k end.

Lemma tp_zrange_n_in : forall n a x, In x (tp_zrange_n a n) <-> a <= x < a + Z.of_nat n.
Proof.
  induction n as [|k IH]; intros a x; cbn [tp_zrange_n In].
  - lia.
  - rewrite IH. lia.
Qed.

Definition tp_era_ok (doe : Z) : bool :=
  let '(yoe, m, d) := tp_cfd_local doe in
  (tp_dfc_local yoe m d =? doe) && (0 <=? yoe) && (yoe <=? 399) && (1 <=? m) && (m <=? 12) && (1 <=? d) && (d <=? 31).

(* finite domain: every day of a 400-year era *)
Lemma tp_civil_era_sweep : forallb tp_era_ok (tp_zrange_n 0 (Z.to_nat 146097)) = true.
Proof. vm_compute. reflexivity. Qed.

Lemma tp_era_ok_all doe : 0 <= doe < 146097 -> tp_era_ok doe = true.
Proof.
  intros H. apply (proj1 (forallb_forall _ _) tp_civil_era_sweep).
  apply tp_zrange_n_in. rewrite Z2Nat.id by lia. lia.
Qed.

Lemma tp_civil_from_days_split z :
  let era := (z + 719468) / 146097 in
  let doe := z + 719468 - era * 146097 in
  let '(yoe, m, d) := tp_cfd_local doe in
  tp_civil_from_days z = (if m <=? 2 then yoe + era * 400 + 1 else yoe + era * 400, m, d).
Proof. reflexivity. Qed.

Lemma tp_days_from_civil_split yoe era m d :
  0 <= yoe <= 399 -> 1 <= m <= 12 ->
  tp_days_from_civil (if m <=? 2 then yoe + era * 400 + 1 else yoe + era * 400) m d =
  era * 146097 + tp_dfc_local yoe m d - 719468.
Proof.
  intros Hy Hm. unfold tp_days_from_civil, tp_dfc_local.
  assert ((m - 1) / 12 = 0) as -> by lia.
  assert ((m - 1) mod 12 + 1 = m) as -> by lia.
  rewrite Z.add_0_r.
  assert ((if m <=? 2 then (if m <=? 2 then yoe + era * 400 + 1 else yoe + era * 400) - 1
           else (if m <=? 2 then yoe + era * 400 + 1 else yoe + era * 400)) = yoe + era * 400) as ->.
  { destruct (m <=? 2); lia. }
  assert ((yoe + era * 400) / 400 = era) as -> by lia.
  replace (yoe + era * 400 - era * 400) with yoe by lia.
  cbv zeta. lia.
Qed.

(* for every day number: converting to a civil date and back is the identity, and the date is well-formed *)
Theorem tp_days_civil_days z :
  let '(y, m, d) := tp_civil_from_days z in
  tp_days_from_civil y m d = z /\ 1 <= m <= 12 /\ 1 <= d <= 31.
Proof.
  pose proof (tp_civil_from_days_split z) as Hs. cbv zeta in Hs.
  set (era := (z + 719468) / 146097) in *.
  set (doe := z + 719468 - era * 146097) in *.
  assert (0 <= doe < 146097) as Hdoe by (subst doe era; lia).
  pose proof (tp_era_ok_all doe Hdoe) as Hok. unfold tp_era_ok in Hok.
  destruct (tp_cfd_local doe) as [[yoe m] d].
  rewrite Hs.
  assert (tp_dfc_local yoe m d = doe /\ 0 <= yoe <= 399 /\ 1 <= m <= 12 /\ 1 <= d <= 31) as (H1 & H2 & H3 & H4) by lia.
  split; [|split; assumption].
  rewrite tp_days_from_civil_split by assumption. rewrite H1. subst doe. lia.
Qed.

(* consequences used when reading the model: the weekday advances by one per day, and distinct day
   numbers have distinct civil dates *)
Theorem tp_civil_from_days_inj z1 z2 : tp_civil_from_days z1 = tp_civil_from_days z2 -> z1 = z2.
Proof.
  intros H. pose proof (tp_days_civil_days z1) as H1. pose proof (tp_days_civil_days z2) as H2.
  rewrite H in H1. destruct (tp_civil_from_days z2) as [[y m] d]. lia.
Qed.

Theorem tp_wday_succ z : tp_wday (z + 1) = (tp_wday z + 1) mod 7 /\ 0 <= tp_wday z <= 6.
Proof. unfold tp_wday. lia. Qed.

(* ---------------- the other direction: civil date -> days -> civil date, for all valid dates -------- *)

Definition tp_leap (y : Z) : bool := ((y mod 4 =? 0) && negb (y mod 100 =? 0)) || (y mod 400 =? 0).

Definition tp_days_in_month (y m : Z) : Z :=
  if m =? 2 then (if tp_leap y then 29 else 28)
  else if (m =? 4) || (m =? 6) || (m =? 9) || (m =? 11) then 30 else 31.

(* year-of-era yoe (the March-based year), month, day: the civil year is yoe (+1 for January/February) *)
Definition tp_date_ok_local (yoe m d : Z) : bool :=
  (1 <=? d) && (d <=? tp_days_in_month (if m <=? 2 then yoe + 1 else yoe) m).

Definition tp_era_back_ok (yoe m d : Z) : bool :=
  if tp_date_ok_local yoe m d then
    let doe := tp_dfc_local yoe m d in
    (0 <=? doe) && (doe <? 146097) &&
    (let '(yoe', m', d') := tp_cfd_local doe in (yoe' =? yoe) && (m' =? m) && (d' =? d))
  else true.

(* finite domain: 400 years of era x 12 months x 31 days *)
Lemma tp_civil_era_back_sweep :
  forallb (fun yoe => forallb (fun m => forallb (fun d => tp_era_back_ok yoe m d) (tp_zrange_n 1 31))
                              (tp_zrange_n 1 12))
          (tp_zrange_n 0 400) = true.
Proof. vm_compute. reflexivity. Qed.

Lemma tp_era_back_ok_all yoe m d : 0 <= yoe <= 399 -> 1 <= m <= 12 -> 1 <= d <= 31 -> tp_era_back_ok yoe m d = true.
Proof.
  intros Hy Hm Hd.
  pose proof (proj1 (forallb_forall _ _) tp_civil_era_back_sweep yoe) as H1.
  cbv beta in H1. specialize (H1 ltac:(apply tp_zrange_n_in; cbn; lia)).
  pose proof (proj1 (forallb_forall _ _) H1 m) as H2. cbv beta in H2.
  specialize (H2 ltac:(apply tp_zrange_n_in; cbn; lia)).
  apply (proj1 (forallb_forall _ _) H2 d). apply tp_zrange_n_in. cbn. lia.
Qed.

Lemma tp_leap_periodic y k : tp_leap (y + k * 400) = tp_leap y.
Proof.
  unfold tp_leap.
  assert ((y + k * 400) mod 4 = y mod 4) as -> by lia.
  assert ((y + k * 400) mod 100 = y mod 100) as -> by lia.
  assert ((y + k * 400) mod 400 = y mod 400) as -> by lia.
  reflexivity.
Qed.

Theorem tp_civil_days_civil y m d :
  1 <= m <= 12 -> 1 <= d <= tp_days_in_month y m ->
  tp_civil_from_days (tp_days_from_civil y m d) = (y, m, d).
Proof.
  intros Hm Hd.
  set (y2 := if m <=? 2 then y - 1 else y).
  set (era := y2 / 400). set (yoe := y2 - era * 400).
  assert (0 <= yoe <= 399) as Hyoe by (subst yoe era; lia).
  assert (y = if m <=? 2 then yoe + era * 400 + 1 else yoe + era * 400) as Hy.
  { subst yoe y2. destruct (m <=? 2); lia. }
  assert (d <= 31) as Hd31.
  { unfold tp_days_in_month in Hd. destruct (m =? 2); [destruct (tp_leap y); lia|].
    destruct ((m =? 4) || (m =? 6) || (m =? 9) || (m =? 11)); lia. }
  pose proof (tp_era_back_ok_all yoe m d Hyoe Hm ltac:(lia)) as Hok. unfold tp_era_back_ok in Hok.
  assert (tp_date_ok_local yoe m d = true) as Hval.
  { unfold tp_date_ok_local.
    assert ((if m <=? 2 then yoe + 1 else yoe) + era * 400 = y) as Hyy by (rewrite Hy; destruct (m <=? 2); lia).
    assert (tp_days_in_month (if m <=? 2 then yoe + 1 else yoe) m = tp_days_in_month y m) as ->.
    { unfold tp_days_in_month. rewrite <- Hyy. rewrite tp_leap_periodic. reflexivity. }
    lia. }
  rewrite Hval in Hok.
  rewrite Hy at 1. rewrite tp_days_from_civil_split by assumption.
  set (doe := tp_dfc_local yoe m d) in *.
  pose proof (tp_civil_from_days_split (era * 146097 + doe - 719468)) as Hs. cbv zeta in Hs.
  assert (0 <= doe < 146097) as Hdoe by lia.
  assert ((era * 146097 + doe - 719468 + 719468) / 146097 = era) as He by lia.
  rewrite He in Hs.
  replace (era * 146097 + doe - 719468 + 719468 - era * 146097) with doe in Hs by lia.
  destruct (tp_cfd_local doe) as [[yoe' m'] d'].
  rewrite Hs.
  assert (yoe' = yoe /\ m' = m /\ d' = d) as (-> & -> & ->) by lia.
  rewrite <- Hy. reflexivity.
Qed.
