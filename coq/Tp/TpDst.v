(* C08, layer M2 for ARBITRARY local time (DST transitions, 23 h / 25 h days).
   off : Z -> Z is the UTC offset in force at a UTC instant, with the hypotheses of DESIGN section 2 C08:
     Hbound  |off t| < 24 h
     Hspace  two instants at which the offset changes are at least 2 days apart
   (on Z every function is piecewise constant; "finitely many transitions" is not needed).
   A local time L "exists exactly once" (tp_once) if exactly one instant t has t + off t = L.
   mktime enters only through the local times the day loop asks about (tp_needed_list): there it has to
   return that unique instant (tp_good).  [tp_mk_def] is mktime DEFINED as the unique instant.

   Main results: the key lemma (an exactly-once local time splits the time line exactly like its instant
   does), the day loop visits exactly the local days that meet [begin, end], IsInDayDefinition is the
   calendar statement with the stride counted in seconds/86400, a time range is the wall-clock range, and
   the produced segments are the property's statement. *)
From Icv Require Import Base.Tac Tp.TpModel Tp.TpProofs Tp.TpCal Tp.TpCalObs Tp.TpCalProofs.
Local Open Scope Z_scope.

(* the local times mktime is asked about for window [b, e]: 00:00 of every visited day (from the first day of the loop:
   begin's local day, in form lb the day before) and of the day after the last one (the loop test that fails), 00:00 of
   the first / day-after-last day of every day definition as seen from each of those days, and both boundaries of every
   time range on every visited day *)
Fixpoint tp_zlist (from : Z) (n : nat) : list Z :=
  match n with O => [] | S k => from :: tp_zlist (from + 1) k end.

Definition tp_tr_end (tr : Z * Z) : Z := if snd tr <=? fst tr then snd tr + 86400 else snd tr.

Definition tp_needed_list (off : Z -> Z) (lb : bool) (ranges : list (tp_dayrange * list (Z * Z))) (b e : Z) : list Z :=
  let d0 := tp_first_day off lb b in
  let dE := tp_local_day off e in
  let days := tp_zlist d0 (Z.to_nat (dE + 2 - d0)) in
  d0 * 86400 ::
  flat_map (fun d =>
    d * 86400 ::
    flat_map (fun kv => tp_range_begin_day (fst kv) d * 86400 :: tp_range_end_day (fst kv) d * 86400 ::
                        flat_map (fun tr => [d * 86400 + fst tr; d * 86400 + tp_tr_end tr]) (snd kv)) ranges) days.

Lemma tp_zlist_in : forall n a x, In x (tp_zlist a n) <-> a <= x < a + Z.of_nat n.
Proof.
  induction n as [|k IH]; intros a x; cbn [tp_zlist In].
  - lia.
  - rewrite IH. lia.
Qed.

Section Dst.
Variable off : Z -> Z.
Hypothesis Hbound : forall t, -86400 < off t < 86400.
Hypothesis Hspace : forall s1 s2, s1 < s2 -> off (s1 - 1) <> off s1 -> off (s2 - 1) <> off s2 -> s1 + 172800 <= s2.

Definition tp_once (L : Z) : Prop := exists t, t + off t = L /\ forall t', t' + off t' = L -> t' = t.

(* ---- around a transition the offset is constant for two days on either side ---- *)

Lemma tp_after_trans s : off (s - 1) <> off s -> forall k, 0 <= k < 172800 -> off (s + k) = off s.
Proof.
  intros Hs k [Hk0 Hk]. revert Hk. pattern k. apply natlike_ind; [| |exact Hk0].
  - intros _. f_equal. lia.
  - intros x Hx IH Hlt. rewrite <- IH by lia.
    destruct (Z.eq_dec (off (s + x)) (off (s + Z.succ x))) as [E|E]; [symmetry; exact E|].
    exfalso. assert (s + 172800 <= s + Z.succ x); [|lia].
    apply Hspace; [lia|exact Hs|]. replace (s + Z.succ x - 1) with (s + x) by lia. exact E.
Qed.

Lemma tp_before_trans s : off (s - 1) <> off s -> forall k, 0 <= k < 172800 -> off (s - 1 - k) = off (s - 1).
Proof.
  intros Hs k [Hk0 Hk]. revert Hk. pattern k. apply natlike_ind; [| |exact Hk0].
  - intros _. f_equal. lia.
  - intros x Hx IH Hlt. rewrite <- IH by lia.
    destruct (Z.eq_dec (off (s - 1 - Z.succ x)) (off (s - 1 - x))) as [E|E]; [exact E|].
    exfalso. assert (s - 1 - x + 172800 <= s); [|lia].
    apply Hspace; [lia| |exact Hs]. replace (s - 1 - x - 1) with (s - 1 - Z.succ x) by lia. exact E.
Qed.

(* ---- the key lemma ---- *)

Section Key.
Variables (L t1 : Z).
Hypothesis Hsol : t1 + off t1 = L.
Hypothesis Huniq : forall t', t' + off t' = L -> t' = t1.

Lemma tp_key_up_step t : t1 <= t -> L <= t + off t -> L <= (t + 1) + off (t + 1).
Proof.
  intros Ht Hl.
  destruct (Z.eq_dec (off t) (off (t + 1))) as [E|E]; [lia|].
  destruct (Z_lt_le_dec (t + 1 + off (t + 1)) L) as [Hlt|]; [|assumption]. exfalso.
  set (s := t + 1) in *. set (k := L - (s + off s)).
  pose proof (Hbound t) as B1. pose proof (Hbound s) as B2.
  assert (0 <= k < 172800) as Hk by (subst k s; lia).
  assert (off (s - 1) <> off s) as Hs by (replace (s - 1) with t by (subst s; lia); exact E).
  pose proof (tp_after_trans s Hs k Hk) as Hc.
  assert (s + k = t1) by (apply Huniq; rewrite Hc; subst k; lia).
  subst k s. lia.
Qed.

Lemma tp_key_up t : t1 <= t -> L <= t + off t.
Proof.
  intros Ht. replace t with (t1 + (t - t1)) by lia.
  assert (0 <= t - t1) as H0 by lia. revert H0. generalize (t - t1) as k. intros k H0.
  pattern k. apply natlike_ind; [| |exact H0].
  - rewrite Z.add_0_r. lia.
  - intros x Hx IH. replace (t1 + Z.succ x) with (t1 + x + 1) by lia. apply tp_key_up_step; [lia|exact IH].
Qed.

Lemma tp_key_down_step u : u <= t1 -> u + off u <= L -> (u - 1) + off (u - 1) < L.
Proof.
  intros Hu Hl.
  destruct (Z.eq_dec (off (u - 1)) (off u)) as [E|E]; [lia|].
  destruct (Z_lt_le_dec (u - 1 + off (u - 1)) L) as [|Hge]; [assumption|]. exfalso.
  set (k := u - 1 + off (u - 1) - L).
  pose proof (Hbound u) as B1. pose proof (Hbound (u - 1)) as B2.
  assert (0 <= k < 172800) as Hk by (subst k; lia).
  pose proof (tp_before_trans u E k Hk) as Hc.
  assert (u - 1 - k = t1) by (apply Huniq; rewrite Hc; subst k; lia).
  subst k. lia.
Qed.

Lemma tp_key_down t : t < t1 -> t + off t < L.
Proof.
  intros Ht. replace t with (t1 - 1 - (t1 - 1 - t)) by lia.
  assert (0 <= t1 - 1 - t) as H0 by lia. revert H0. generalize (t1 - 1 - t) as k. intros k H0.
  pattern k. apply natlike_ind; [| |exact H0].
  - rewrite Z.sub_0_r. apply tp_key_down_step; lia.
  - intros x Hx IH. replace (t1 - 1 - Z.succ x) with (t1 - 1 - x - 1) by lia. apply tp_key_down_step; lia.
Qed.

(* an exactly-once local time splits the time line exactly like its instant does *)
Lemma tp_key t : t1 <= t <-> L <= t + off t.
Proof.
  split; [apply tp_key_up|]. intros H. destruct (Z_lt_le_dec t t1) as [Hlt|]; [|assumption].
  pose proof (tp_key_down t Hlt). lia.
Qed.
End Key.

(* ---- mktime ---- *)

Variable mk : Z -> Z.
Variables rnd lb : bool.

Definition tp_good (L : Z) : Prop := mk L + off (mk L) = L /\ forall t', t' + off t' = L -> t' = mk L.

Lemma tp_good_le L t : tp_good L -> (mk L <= t <-> L <= t + off t).
Proof. intros [H1 H2]. apply tp_key; assumption. Qed.

Lemma tp_good_leb L t : tp_good L -> (mk L <=? t) = (L <=? t + off t).
Proof. intros H. pose proof (tp_good_le L t H). lia. Qed.

Lemma tp_good_ltb L t : tp_good L -> (t <? mk L) = (t + off t <? L).
Proof. intros H. pose proof (tp_good_le L t H). lia. Qed.

Lemma tp_good_mono L1 L2 : tp_good L1 -> tp_good L2 -> (mk L1 <= mk L2 <-> L1 <= L2).
Proof. intros H1 H2. rewrite (tp_good_le L1 (mk L2) H1). destruct H2 as [-> _]. reflexivity. Qed.

Lemma tp_midnight_le d t : tp_good (d * 86400) -> (tp_midnight mk d <= t <-> d <= tp_local_day off t).
Proof. intros H. unfold tp_midnight, tp_local_day, tp_local. rewrite (tp_good_le _ t H). lia. Qed.

(* ---- (2) the day loop visits exactly the local calendar days that meet [begin, end] ---- *)

Lemma tp_loop_days_dst e : forall fuel r0 r,
  (forall d, r0 <= d <= tp_local_day off e + 1 -> tp_good (d * 86400)) ->
  r0 <= tp_local_day off e + 1 ->
  (In r (tp_loop_days mk fuel r0 e) <-> r0 <= r < r0 + Z.of_nat fuel /\ r <= tp_local_day off e).
Proof.
  induction fuel as [|f IH]; intros r0 r Hg Hr0.
  - cbn. lia.
  - cbn [tp_loop_days].
    pose proof (tp_midnight_le r0 e (Hg r0 ltac:(lia))) as Hm.
    destruct (tp_midnight mk r0 <=? e) eqn:C.
    + cbn [In]. rewrite IH; [lia| |lia]. intros d Hd. apply Hg. lia.
    + cbn [In]. lia.
Qed.

Lemma tp_local_day_mono b e :
  tp_good (tp_local_day off b * 86400) -> b <= e -> tp_local_day off b <= tp_local_day off e.
Proof.
  intros Hg Hbe. apply (tp_midnight_le _ e Hg).
  assert (tp_midnight mk (tp_local_day off b) <= b) by (apply (tp_midnight_le _ b Hg); lia). lia.
Qed.

Lemma tp_fuel_enough b e : b <= e ->
  tp_local_day off e < tp_first_day off lb b + Z.of_nat (tp_loop_fuel b e).
Proof.
  intros Hbe. unfold tp_first_day, tp_loop_fuel, tp_local_day, tp_local. rewrite Z2Nat.id by lia.
  pose proof (Hbound b). pose proof (Hbound e).
  assert ((e + off e) / 86400 <= (b + off b) / 86400 + (e - b) / 86400 + 3); [|destruct lb; lia].
  assert (e + off e <= b + off b + (e - b) + 172800) by lia.
  lia.
Qed.

Lemma tp_first_day_le b : tp_first_day off lb b <= tp_local_day off b.
Proof. unfold tp_first_day. destruct lb; lia. Qed.

(* the loop of ScriptFunc(begin, end) visits day r iff some instant of [begin, end] has local day r - and, in form
   lb, the local day before begin's *)
Theorem tp_day_loop_days b e r :
  b <= e ->
  tp_good (tp_local_day off b * 86400) ->
  (forall d, tp_first_day off lb b <= d <= tp_local_day off e + 1 -> tp_good (d * 86400)) ->
  (In r (tp_loop_days mk (tp_loop_fuel b e) (tp_first_day off lb b) e) <->
   (lb = true /\ r = tp_local_day off b - 1) \/ exists t, b <= t <= e /\ tp_local_day off t = r).
Proof.
  intros Hbe Hg0 Hg.
  pose proof (tp_first_day_le b) as Hfd.
  pose proof (tp_local_day_mono b e Hg0 Hbe) as Hmono.
  rewrite tp_loop_days_dst; [|exact Hg|lia].
  pose proof (tp_fuel_enough b e Hbe) as Hf.
  split.
  - intros [[H1 _] H2].
    destruct (Z_lt_le_dec r (tp_local_day off b)) as [Hlt|Hge].
    { left. unfold tp_first_day in H1. destruct lb; [split; [reflexivity|lia]|lia]. }
    right.
    destruct (Z.eq_dec r (tp_local_day off b)) as [->|Hne].
    + exists b. split; [lia|reflexivity].
    + assert (tp_good (r * 86400)) as Hgr by (apply Hg; lia).
      exists (mk (r * 86400)). destruct Hgr as [Hs Hu].
      split; [split|].
      * assert (tp_midnight mk (tp_local_day off b + 1) <= mk (r * 86400)) as Hx.
        { unfold tp_midnight. apply tp_good_mono; [apply Hg; lia|split; assumption|lia]. }
        assert (b < tp_midnight mk (tp_local_day off b + 1)); [|lia].
        destruct (Z_lt_le_dec b (tp_midnight mk (tp_local_day off b + 1))) as [|Hc]; [assumption|].
        apply (tp_midnight_le _ b (Hg (tp_local_day off b + 1) ltac:(lia))) in Hc. lia.
      * apply (tp_midnight_le r e (conj Hs Hu)). exact H2.
      * unfold tp_local_day, tp_local. rewrite Hs. apply Z.div_mul. lia.
  - intros [[Hlb ->]|(t & Ht & <-)].
    { unfold tp_first_day in *. rewrite Hlb in *. lia. }
    assert (tp_local_day off b <= tp_local_day off t) as A.
    { apply (tp_midnight_le _ t Hg0).
      assert (tp_midnight mk (tp_local_day off b) <= b) by (apply (tp_midnight_le _ b Hg0); lia). lia. }
    assert (tp_local_day off t <= tp_local_day off e) as B.
    { destruct (Z_lt_le_dec (tp_local_day off e) (tp_local_day off t)) as [Hc|]; [|lia]. exfalso.
      pose proof (Hg (tp_local_day off e + 1) ltac:(lia)) as Hg1.
      assert (tp_midnight mk (tp_local_day off e + 1) <= t) by (apply (tp_midnight_le _ t Hg1); lia).
      assert (tp_midnight mk (tp_local_day off e + 1) <= e) as Hc2 by lia.
      apply (tp_midnight_le _ e Hg1) in Hc2. lia. }
    lia.
Qed.

(* ---- IsInDayDefinition = the calendar statement, stride counted in seconds / 86400 ---- *)

Lemma tp_in_day_def_dst dd r :
  tp_good (r * 86400) -> tp_good (tp_range_begin_day dd r * 86400) -> tp_good (tp_range_end_day dd r * 86400) ->
  tp_in_day_def mk false dd r = tp_day_matches_secs mk dd r.
Proof.
  intros Hr Hb He. unfold tp_in_day_def, tp_day_matches_secs, tp_midnight.
  set (bd := tp_range_begin_day dd r) in *. set (ed := tp_range_end_day dd r) in *. set (s := tp_dr_stride dd).
  rewrite (tp_good_ltb _ (mk (r * 86400)) Hb), (tp_good_leb _ (mk (r * 86400)) He).
  destruct Hr as [Hrs _]. rewrite Hrs.
  generalize ((mk (r * 86400) - mk (bd * 86400)) / 86400) as dn. intros dn.
  destruct ((r * 86400 <? bd * 86400) || (ed * 86400 <=? r * 86400)) eqn:C1.
  { destruct (bd <=? r) eqn:C2, (r <? ed) eqn:C3; cbn; try reflexivity; lia. }
  assert ((bd <=? r) = true) as -> by lia. assert ((r <? ed) = true) as -> by lia. cbn [andb].
  destruct (1 <? s) eqn:C4.
  - assert ((s <=? 1) = false) as -> by lia. cbn [andb orb].
    pose proof (Z.mod_pos_bound dn s ltac:(lia)) as Hm.
    destruct (dn mod s =? 0) eqn:C5.
    + assert ((0 <? dn mod s) = false) as -> by lia. reflexivity.
    + assert ((0 <? dn mod s) = true) as -> by lia. reflexivity.
  - assert ((s <=? 1) = true) as -> by lia. reflexivity.
Qed.

(* form rnd = true (day number rounded to the nearest day): IsInDayDefinition IS the calendar statement, in every zone
   whose offsets at the two midnights differ by less than 12 h - spring forward, fall back, 30-minute shifts alike *)
Lemma tp_in_day_def_round dd r :
  tp_good (r * 86400) -> tp_good (tp_range_begin_day dd r * 86400) -> tp_good (tp_range_end_day dd r * 86400) ->
  -43200 < off (tp_midnight mk r) - off (tp_midnight mk (tp_range_begin_day dd r)) < 43200 ->
  tp_in_day_def mk true dd r = tp_day_matches dd r.
Proof.
  intros Hr Hb He Hd. unfold tp_in_day_def, tp_day_matches, tp_midnight in *.
  set (bd := tp_range_begin_day dd r) in *. set (ed := tp_range_end_day dd r) in *. set (s := tp_dr_stride dd).
  rewrite (tp_good_ltb _ (mk (r * 86400)) Hb), (tp_good_leb _ (mk (r * 86400)) He).
  destruct Hr as [Hrs _]. destruct Hb as [Hbs _]. rewrite Hrs.
  destruct ((r * 86400 <? bd * 86400) || (ed * 86400 <=? r * 86400)) eqn:C1.
  { destruct (bd <=? r) eqn:C2, (r <? ed) eqn:C3; cbn; try reflexivity; lia. }
  assert ((mk (r * 86400) - mk (bd * 86400) + 43200) / 86400 = r - bd) as ->.
  { set (dl := off (mk (r * 86400)) - off (mk (bd * 86400))) in *.
    replace (mk (r * 86400) - mk (bd * 86400) + 43200) with ((r - bd) * 86400 + (43200 - dl)) by (subst dl; lia).
    rewrite Z.div_add_l by lia. rewrite (Z.div_small (43200 - dl)) by lia. lia. }
  assert ((bd <=? r) = true) as -> by lia. assert ((r <? ed) = true) as -> by lia. cbn [andb].
  destruct (1 <? s) eqn:C4.
  - assert ((s <=? 1) = false) as -> by lia. cbn [andb orb].
    pose proof (Z.mod_pos_bound (r - bd) s ltac:(lia)) as Hm.
    destruct ((r - bd) mod s =? 0) eqn:C5.
    + assert ((0 <? (r - bd) mod s) = false) as -> by lia. reflexivity.
    + assert ((0 <? (r - bd) mod s) = true) as -> by lia. reflexivity.
  - assert ((s <=? 1) = true) as -> by lia. reflexivity.
Qed.

(* both forms at once: the pinned form counts the stride in seconds / 86400, the rounded form in calendar days *)
Lemma tp_in_day_def_form dd r :
  tp_good (r * 86400) -> tp_good (tp_range_begin_day dd r * 86400) -> tp_good (tp_range_end_day dd r * 86400) ->
  (rnd = true -> forall t t', off t - off t' < 43200) ->
  tp_in_day_def mk rnd dd r = if negb rnd then tp_day_matches_secs mk dd r else tp_day_matches dd r.
Proof.
  intros Hr Hb He Hs. destruct rnd; cbn [negb].
  - apply tp_in_day_def_round; try assumption.
    pose proof (Hs eq_refl (tp_midnight mk r) (tp_midnight mk (tp_range_begin_day dd r))).
    pose proof (Hs eq_refl (tp_midnight mk (tp_range_begin_day dd r)) (tp_midnight mk r)). lia.
  - apply tp_in_day_def_dst; assumption.
Qed.

(* the stride agrees with the calendar-day stride when the offset is the same at both midnights
   (no transition, or transitions that cancel, between the first day of the range and the day) *)
Lemma tp_stride_same_offset dd r :
  tp_good (r * 86400) -> tp_good (tp_range_begin_day dd r * 86400) ->
  off (tp_midnight mk r) = off (tp_midnight mk (tp_range_begin_day dd r)) ->
  tp_day_matches_secs mk dd r = tp_day_matches dd r.
Proof.
  intros [Hr _] [Hb _] Ho. unfold tp_day_matches_secs, tp_day_matches, tp_midnight in *.
  set (bd := tp_range_begin_day dd r) in *.
  replace (mk (r * 86400) - mk (bd * 86400)) with ((r - bd) * 86400) by lia.
  rewrite Z.div_mul by lia. reflexivity.
Qed.

Lemma tp_stride_one dd r : tp_dr_stride dd <= 1 -> tp_day_matches_secs mk dd r = tp_day_matches dd r.
Proof.
  intros H. unfold tp_day_matches_secs, tp_day_matches.
  assert ((tp_dr_stride dd <=? 1) = true) as -> by lia. reflexivity.
Qed.

(* ---- a time range is the wall-clock range ---- *)

Lemma tp_in_time_range_dst r tr t :
  tp_good (r * 86400 + fst tr) -> tp_good (r * 86400 + tp_tr_end tr) ->
  tp_in_time_range_mk mk r tr t = tp_in_time_range off r tr t.
Proof.
  intros H1 H2. destruct tr as [tb te]. unfold tp_in_time_range_mk, tp_in_time_range, tp_tr_end, tp_local in *.
  cbn [fst snd] in *. rewrite (tp_good_leb _ t H1), (tp_good_ltb _ t H2). reflexivity.
Qed.

Lemma tp_day_covers_reach_gen secs ranges d t :
  tp_ranges_bounded ranges -> tp_day_covers off mk secs ranges d t = true ->
  d * 86400 <= tp_local off t < (d + 4) * 86400.
Proof.
  intros Hb H. unfold tp_day_covers in H. apply existsb_exists in H. destruct H as (kv & Hkv & H).
  apply andb_prop in H. destruct H as [_ H]. apply existsb_exists in H. destruct H as (tr & Htr & H).
  destruct (Hb kv tr Hkv Htr) as [H1 H2]. destruct tr as [tb te]. cbn [fst snd] in *.
  unfold tp_in_time_range in H. destruct (te <=? tb) eqn:C; lia.
Qed.

(* ---- membership in the list of local times mktime is asked about ---- *)

Lemma tp_needed_in ranges b e d :
  tp_first_day off lb b <= d <= tp_local_day off e + 1 ->
  In (d * 86400) (tp_needed_list off lb ranges b e) /\
  forall kv, In kv ranges ->
    In (tp_range_begin_day (fst kv) d * 86400) (tp_needed_list off lb ranges b e) /\
    In (tp_range_end_day (fst kv) d * 86400) (tp_needed_list off lb ranges b e) /\
    forall tr, In tr (snd kv) ->
      In (d * 86400 + fst tr) (tp_needed_list off lb ranges b e) /\
      In (d * 86400 + tp_tr_end tr) (tp_needed_list off lb ranges b e).
Proof.
  intros Hd. unfold tp_needed_list.
  set (days := tp_zlist (tp_first_day off lb b) (Z.to_nat (tp_local_day off e + 2 - tp_first_day off lb b))).
  assert (In d days) as Hin by (apply tp_zlist_in; rewrite Z2Nat.id by lia; lia).
  split.
  - right. apply in_flat_map. exists d. split; [exact Hin|]. left. reflexivity.
  - intros kv Hkv. split; [|split].
    + right. apply in_flat_map. exists d. split; [exact Hin|]. right.
      apply in_flat_map. exists kv. split; [exact Hkv|]. left. reflexivity.
    + right. apply in_flat_map. exists d. split; [exact Hin|]. right.
      apply in_flat_map. exists kv. split; [exact Hkv|]. right. left. reflexivity.
    + intros tr Htr. split.
      * right. apply in_flat_map. exists d. split; [exact Hin|]. right.
        apply in_flat_map. exists kv. split; [exact Hkv|]. right. right.
        apply in_flat_map. exists tr. split; [exact Htr|]. left. reflexivity.
      * right. apply in_flat_map. exists d. split; [exact Hin|]. right.
        apply in_flat_map. exists kv. split; [exact Hkv|]. right. right.
        apply in_flat_map. exists tr. split; [exact Htr|]. right. left. reflexivity.
Qed.

(* ---- (1) the produced segments, for any such local time and either form of the source ---- *)

(* the local day of begin is visited and needed in either form *)
Lemma tp_needed_day0 ranges b e :
  tp_local_day off b <= tp_local_day off e + 1 -> In (tp_local_day off b * 86400) (tp_needed_list off lb ranges b e).
Proof. intros H. apply tp_needed_in. pose proof (tp_first_day_le b). lia. Qed.

Theorem tp_script_func_dst ranges b e t :
  b <= t <= e -> tp_ranges_bounded ranges ->
  (forall L, In L (tp_needed_list off lb ranges b e) -> tp_good L) ->
  tp_good (tp_local_day off b * 86400) ->
  (rnd = true -> forall t t', off t - off t' < 43200) ->
  tp_inside_segs (tp_script_func off mk rnd lb ranges b e) t =
  tp_spec_inside off mk (negb rnd) (Some (tp_first_day off lb b)) tp_back ranges t.
Proof.
  intros Ht Hb Hneed Hg0 Hspan.
  pose proof (tp_first_day_le b) as Hfd.
  assert (forall d, tp_first_day off lb b <= d <= tp_local_day off e + 1 -> tp_good (d * 86400)) as Hmid
    by (intros d Hd; apply Hneed; apply (tp_needed_in ranges b e d Hd)).
  assert (tp_local_day off b <= tp_local_day off e) as Hmono by (apply tp_local_day_mono; [exact Hg0|lia]).
  assert (forall d, In d (tp_loop_days mk (tp_loop_fuel b e) (tp_first_day off lb b) e) <->
                    tp_first_day off lb b <= d <= tp_local_day off e) as Hloop.
  { intros d. rewrite tp_loop_days_dst; [|exact Hmid|lia].
    pose proof (tp_fuel_enough b e ltac:(lia)). lia. }
  rewrite tp_script_func_general by (right; lia).
  rewrite (tp_existsb_ext _ (fun d => tp_day_covers off mk (negb rnd) ranges d t)).
  2: { intros d Hd. apply Hloop in Hd.
       destruct (tp_needed_in ranges b e d ltac:(lia)) as [_ Hkv].
       unfold tp_day_covers. apply tp_existsb_ext. intros kv Hk.
       destruct (Hkv kv Hk) as (HB & HE & Htr).
       rewrite tp_in_day_def_form; [|apply Hmid; lia|apply Hneed; exact HB|apply Hneed; exact HE|exact Hspan].
       destruct (if negb rnd then tp_day_matches_secs mk (fst kv) d else tp_day_matches (fst kv) d); [|reflexivity].
       cbn [andb].
       apply tp_existsb_ext. intros tr Hin. destruct (Htr tr Hin) as [H1 H2].
       apply tp_in_time_range_dst; apply Hneed; assumption. }
  unfold tp_spec_inside.
  assert (tp_local_day off t <= tp_local_day off e) as HdtE.
  { destruct (Z_lt_le_dec (tp_local_day off e) (tp_local_day off t)) as [Hc|]; [|assumption]. exfalso.
    pose proof (Hmid (tp_local_day off e + 1) ltac:(lia)) as Hg1.
    assert (tp_midnight mk (tp_local_day off e + 1) <= t) by (apply (tp_midnight_le _ t Hg1); lia).
    assert (tp_midnight mk (tp_local_day off e + 1) <= e) as Hc2 by lia.
    apply (tp_midnight_le _ e Hg1) in Hc2. lia. }
  apply Bool.eq_true_iff_eq. rewrite !existsb_exists. split.
  - intros (d & Hin & Hc). exists d. apply Hloop in Hin.
    pose proof (tp_day_covers_reach_gen (negb rnd) ranges d t Hb Hc) as Hr.
    assert (tp_local_day off t = tp_local off t / 86400) as Hdt by reflexivity.
    split; [apply (tp_days_back_in 0); unfold tp_back; lia|].
    rewrite Hc. assert ((tp_first_day off lb b <=? d) = true) as -> by lia. reflexivity.
  - intros (d & Hin & Hc). apply andb_prop in Hc. destruct Hc as [Hd Hc]. exists d.
    apply (tp_days_back_in 0) in Hin. split; [|exact Hc]. apply Hloop. lia.
Qed.

(* the property's statement.  What is asked of the stride and of the days before the loop's first day depends on the
   form of the source:
     pinned day number (rnd = false):  stride counted in seconds = calendar stride   (negated signature of stride-dst)
     rounded day number (rnd = true):  the zone's offsets differ by less than 12 h
   and, for either loop, no range of a day before the loop's FIRST day reaches t - with the pinned loop (lb = false) that
   is the negated signature of wrap-first-day; with the loop that starts a day early it holds for every set of ranges
   that end at most 48 h after 00:00 of their day (tp_ranges_lookback_dst below) *)
Theorem tp_ranges_dst ranges b e t :
  b <= t <= e -> tp_ranges_bounded ranges ->
  (forall L, In L (tp_needed_list off lb ranges b e) -> tp_good L) ->
  tp_good (tp_local_day off b * 86400) ->
  (if rnd then forall t t', off t - off t' < 43200
   else forall d kv, tp_first_day off lb b <= d <= tp_local_day off e -> In kv ranges ->
                     tp_day_matches_secs mk (fst kv) d = tp_day_matches (fst kv) d) ->
  (forall d, d < tp_first_day off lb b -> tp_day_covers off mk false ranges d t = false) ->
  tp_inside_segs (tp_script_func off mk rnd lb ranges b e) t = tp_spec_inside off mk false None tp_back ranges t.
Proof.
  intros Ht Hb Hneed Hg0 Hstride Hwrap.
  rewrite tp_script_func_dst; try assumption.
  2: { intros ->. exact Hstride. }
  pose proof (tp_first_day_le b) as Hfd.
  assert (forall d, tp_first_day off lb b <= d <= tp_local_day off e + 1 -> tp_good (d * 86400)) as Hmid
    by (intros d Hd; apply Hneed; apply (tp_needed_in ranges b e d Hd)).
  assert (tp_local_day off t <= tp_local_day off e) as HdtE.
  { destruct (Z_lt_le_dec (tp_local_day off e) (tp_local_day off t)) as [Hc|]; [|assumption]. exfalso.
    pose proof (tp_local_day_mono b e Hg0 ltac:(lia)) as Hmono.
    pose proof (Hmid (tp_local_day off e + 1) ltac:(lia)) as Hg1.
    assert (tp_midnight mk (tp_local_day off e + 1) <= t) by (apply (tp_midnight_le _ t Hg1); lia).
    assert (tp_midnight mk (tp_local_day off e + 1) <= e) as Hc2 by lia.
    apply (tp_midnight_le _ e Hg1) in Hc2. lia. }
  unfold tp_spec_inside. apply tp_existsb_ext. intros d Hin. apply (tp_days_back_in 0) in Hin.
  destruct (tp_first_day off lb b <=? d) eqn:C.
  - cbn [andb]. unfold tp_day_covers. apply tp_existsb_ext. intros kv Hkv.
    destruct rnd; cbn [negb]; [reflexivity|].
    rewrite (Hstride d kv ltac:(lia) Hkv). reflexivity.
  - cbn [andb]. symmetry. apply Hwrap. lia.
Qed.

(* with the loop started a day early nothing of wrap-first-day is left for ranges ending at most 48 h after 00:00 of
   their day (24:00 ends and ranges wrapping past midnight do) *)
Theorem tp_ranges_lookback_dst ranges b e t :
  lb = true ->
  b <= t <= e -> tp_ranges_bounded ranges -> tp_ranges_reach1 ranges ->
  (forall L, In L (tp_needed_list off lb ranges b e) -> tp_good L) ->
  tp_good (tp_local_day off b * 86400) ->
  (if rnd then forall t t', off t - off t' < 43200
   else forall d kv, tp_first_day off lb b <= d <= tp_local_day off e -> In kv ranges ->
                     tp_day_matches_secs mk (fst kv) d = tp_day_matches (fst kv) d) ->
  tp_inside_segs (tp_script_func off mk rnd lb ranges b e) t = tp_spec_inside off mk false None tp_back ranges t.
Proof.
  intros Hlb Ht Hb Hr Hneed Hg0 Hstride. apply tp_ranges_dst; try assumption.
  intros d Hd. apply tp_reach1_no_earlier_day; [exact Hr|].
  unfold tp_first_day in Hd. rewrite Hlb in Hd.
  assert (tp_local_day off b <= tp_local_day off t); [|lia].
  apply (tp_midnight_le _ t Hg0).
  assert (tp_midnight mk (tp_local_day off b) <= b) by (apply (tp_midnight_le _ b Hg0); lia). lia.
Qed.

End Dst.
