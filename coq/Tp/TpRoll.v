(* C08, rolling updates: what the daemon does with a TimePeriod over time (lib/icinga/timeperiod.cpp).
     Start()                 UpdateRegion(now, now + 24 h, true)
     UpdateTimerHandler()    every 5 minutes, for every period in turn:
                               PurgeSegments(now - 3600); UpdateRegion(valid_end, now + 24 h, false)
   A round of ONE period is described by what it sees: the clock and the segment arrays the periods named in
   includes / excludes have at that moment (they are computed by the same handler, before or after this period, so
   they may lag behind or be ahead).  No proofs in this file. *)
From Icv Require Import Base.Tac Tp.TpModel Tp.TpProofs.
Local Open Scope Z_scope.

(* (now, segment arrays of the included periods, of the excluded periods) *)
Definition tp_rround := (Z * list (list tp_seg) * list (list tp_seg))%type.
Definition tp_rr_now (r : tp_rround) : Z := fst (fst r).
Definition tp_rr_incs (r : tp_rround) : list (list tp_seg) := snd (fst r).
Definition tp_rr_excs (r : tp_rround) : list (list tp_seg) := snd r.

Definition tp_roll_start (upd : Z -> Z -> list tp_seg) (prefer : bool) (r : tp_rround) : tp_st :=
  tp_update_region true upd prefer (tp_rr_incs r) (tp_rr_excs r) (tp_rr_now r) (tp_rr_now r + 86400) true tp_empty.

(* Start() as an operation on the state it FINDS.  After a restart of the daemon that is not the empty state: segments, valid_begin
   and valid_end are state attributes, ConfigObject::RestoreObjects puts the values of the previous run into the new object
   (Deserialize(.., FAState)) before it is activated - and the new object may have been built from an edited definition.
   As coded: UpdateRegion(now, now + 24 h, true), clearExisting = true unconditionally - the restored segments are dropped
   ("SetSegments(new Array())"), valid_begin / valid_end are NOT.
   [rw] = the form with repo_patches/C08-start-resets-window.diff: valid_begin / valid_end are emptied first, so what Start() works on
   is the empty state whatever was restored. *)
Definition tp_roll_start_on (rw : bool) (upd : Z -> Z -> list tp_seg) (prefer : bool) (r : tp_rround) (s : tp_st) : tp_st :=
  tp_update_region true upd prefer (tp_rr_incs r) (tp_rr_excs r) (tp_rr_now r) (tp_rr_now r + 86400) true (if rw then tp_empty else s).

(* NOT the code - the tempting variant "segments restored from the state file already have everything applied; while they still cover
   the present they are only extended": clearExisting = false when valid_begin <= now < valid_end was restored *)
Definition tp_start_restored (now : Z) (s : tp_st) : bool :=
  match tp_vb s, tp_ve s with
  | Some vb, Some ve => (vb <=? now) && (now <? ve)
  | _, _ => false
  end.
Definition tp_roll_start_keep (upd : Z -> Z -> list tp_seg) (prefer : bool) (r : tp_rround) (s : tp_st) : tp_st :=
  tp_update_region true upd prefer (tp_rr_incs r) (tp_rr_excs r) (tp_rr_now r) (tp_rr_now r + 86400)
    (negb (tp_start_restored (tp_rr_now r) s)) s.

(* [ma]: the form of UpdateRegion (Tp/TpModel.v tp_update_region_ma) *)
Definition tp_roll_round (ma : bool) (upd : Z -> Z -> list tp_seg) (prefer : bool) (r : tp_rround) (s : tp_st) : tp_st :=
  let s1 := tp_purge (tp_rr_now r - 3600) s in
  tp_update_region_ma true ma upd prefer (tp_rr_incs r) (tp_rr_excs r) (tp_ve_num s1) (tp_rr_now r + 86400) false s1.

(* UpdateRegion has no stretch of the period's own to compute ("end < GetValidEnd()") when a segment reaching past
   now + 24 h has moved valid_end there; the round then only purges (ma = false: early return) or purges and merges the
   referenced periods again below valid_end (ma = true) *)
Definition tp_roll_effective (r : tp_rround) (s : tp_st) : bool := negb (tp_rr_now r + 86400 <? tp_ve_num s).

(* the state and the round whose view of the referenced periods was merged last *)
Definition tp_roll_acc := (tp_st * tp_rround)%type.

Definition tp_roll_step (ma : bool) (upd : Z -> Z -> list tp_seg) (prefer : bool) (acc : tp_roll_acc) (r : tp_rround) : tp_roll_acc :=
  (tp_roll_round ma upd prefer r (fst acc), if ma || tp_roll_effective r (fst acc) then r else snd acc).

Definition tp_roll (ma : bool) (upd : Z -> Z -> list tp_seg) (prefer : bool) (r0 : tp_rround) (rs : list tp_rround) : tp_roll_acc :=
  fold_left (tp_roll_step ma upd prefer) rs (tp_roll_start upd prefer r0, r0).

(* the run after a restart: Start() on the restored state [s], then timer rounds *)
Definition tp_roll_on (rw ma : bool) (upd : Z -> Z -> list tp_seg) (prefer : bool) (s : tp_st) (r0 : tp_rround) (rs : list tp_rround) : tp_roll_acc :=
  fold_left (tp_roll_step ma upd prefer) rs (tp_roll_start_on rw upd prefer r0 s, r0).

(* ---------------- what is asked of the surroundings ---------------- *)

(* every segment of a referenced period begins no later than the instant up to which this period's own update
   function has answered completely for a region ending at now + 24 h ([hz]: for the calendar function the end of
   the last local day the day loop visits) *)
Definition tp_round_ok (hz : Z -> Z) (r : tp_rround) : Prop :=
  forall sg, In sg (concat (tp_rr_incs r) ++ concat (tp_rr_excs r)) -> fst sg <= hz (tp_rr_now r + 86400).

(* time moves forward, and from one hour before the round on the referenced periods only gain instants between one
   round and the next (they are extended and purged, never recomputed) *)
Definition tp_round_mono (prev r : tp_rround) : Prop :=
  tp_rr_now prev <= tp_rr_now r /\
  forall t, tp_rr_now r - 3600 <= t ->
    (tp_inside_any (tp_rr_incs prev) t = true -> tp_inside_any (tp_rr_incs r) t = true) /\
    (tp_inside_any (tp_rr_excs prev) t = true -> tp_inside_any (tp_rr_excs r) t = true).

Fixpoint tp_env_ok (hz : Z -> Z) (prev : tp_rround) (rs : list tp_rround) : Prop :=
  match rs with
  | [] => True
  | r :: rest => tp_round_ok hz r /\ tp_round_mono prev r /\ tp_env_ok hz r rest
  end.

(* ---------------- the oracle for one observed round ----------------
   answers: (probe instant, observed IsInside, what the period's own definition says at that instant, whether an
   included / an excluded period's observed segments contain it); judged: every probe from [lo] up to the observed
   valid_end (exclusive). *)
Definition tp_roll_answers_ok (prefer : bool) (lo ve : Z) (answers : list (Z * (bool * bool) * (bool * bool))) : option Z :=
  match find (fun a => let '(t, (o, own), (i, x)) := a in
                       (lo <=? t) && (t <? ve) && negb (Bool.eqb o (tp_region_spec prefer own i x))) answers with
  | Some (t, _, _) => Some t
  | None => None
  end.
