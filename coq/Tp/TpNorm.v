(* C08, layer M2: mktime's FIELD NORMALISATION in the two day-by-day loops of legacytimeperiod.cpp.
   The model (Tp/TpCal.v) walks civil day numbers: the day loop of ScriptFunc goes r, r + 1, ..., FindNthWeekday is
   a closed form (proved equal to the civil-day loop in Tp/TpNth.v).  The code walks a struct tm: it sets tm_mday +-= 1,
   tm_hour = tm_min = tm_sec = 0, tm_isdst = -1 and calls mktime, which REWRITES the fields to the local time of the
   instant it returns - across a transition that could be another day or hour.  Here the loops are transcribed with
   that normalisation ([tp_norm_day]: the civil day of the local time of mk (day * 86400)) and proved equal to the
   civil-day versions whenever the local midnights they ask about exist exactly once (tp_good) - 23 h and 25 h days,
   30-minute shifts alike; only "mktime keeps the civil day" is used.  What stays compared only: zones in which a
   local midnight of a visited day does not exist or exists twice (none of the zones of the run). *)
From Icv Require Import Base.Tac Tp.TpModel Tp.TpProofs Tp.TpCal Tp.TpCalObs Tp.TpCalProofs Tp.TpDst Tp.TpNth.
Local Open Scope Z_scope.

Section Norm.
Variable off : Z -> Z.
Variable mk : Z -> Z.

(* the civil day in the fields of a struct tm { day, 00:00:00, isdst = -1 } after mktime *)
Definition tp_norm_day (day : Z) : Z := tp_local_day off (mk (day * 86400)).

Lemma tp_norm_day_good d : tp_good off mk (d * 86400) -> tp_norm_day d = d.
Proof. intros [H _]. unfold tp_norm_day, tp_local_day, tp_local. rewrite H. apply Z.div_mul. lia. Qed.

(* ---------------- FindNthWeekday ---------------- *)

(* for (;;) { t.tm_hour = t.tm_min = t.tm_sec = 0; t.tm_isdst = -1; mktime(&t);
              if (t.tm_wday == wday) { seen++; if (seen == n) break; } t.tm_mday += dir; } *)
Fixpoint tp_nth_loop_mk (fuel : nat) (wd n dir day seen : Z) : option Z :=
  match fuel with
  | O => None
  | S f =>
      let day' := tp_norm_day day in
      if tp_wday day' =? wd then
        (if seen + 1 =? n then Some day' else tp_nth_loop_mk f wd n dir (day' + dir) (seen + 1))
      else tp_nth_loop_mk f wd n dir (day' + dir) seen
  end.

Definition tp_find_nth_weekday_loop_mk (fuel : nat) (wd n y m0 : Z) : option Z :=
  if 0 <? n then tp_nth_loop_mk fuel wd n 1 (tp_days_from_civil y (m0 + 1) 1) 0
  else tp_nth_loop_mk fuel wd (- n) (-1) (tp_days_from_civil y (m0 + 2) 1 - 1) 0.

Lemma tp_nth_loop_mk_forward wd n : forall fuel day seen,
  (forall d, day <= d < day + Z.of_nat fuel -> tp_norm_day d = d) ->
  tp_nth_loop_mk fuel wd n 1 day seen = tp_nth_loop fuel wd n 1 day seen.
Proof.
  induction fuel as [|f IH]; intros day seen H; [reflexivity|].
  cbn [tp_nth_loop_mk tp_nth_loop]. rewrite (H day) by lia.
  rewrite !IH by (intros d Hd; apply H; lia). reflexivity.
Qed.

Lemma tp_nth_loop_mk_backward wd n : forall fuel day seen,
  (forall d, day - Z.of_nat fuel < d <= day -> tp_norm_day d = d) ->
  tp_nth_loop_mk fuel wd n (-1) day seen = tp_nth_loop fuel wd n (-1) day seen.
Proof.
  induction fuel as [|f IH]; intros day seen H; [reflexivity|].
  cbn [tp_nth_loop_mk tp_nth_loop]. rewrite (H day) by lia.
  rewrite !IH by (intros d Hd; apply H; lia). reflexivity.
Qed.

(* FindNthWeekday as the code runs it - mktime in every iteration - returns the closed form of the model, provided
   mktime keeps the civil day of the (at most 7 |n|) local midnights it is asked about *)
Theorem tp_find_nth_weekday_mk wd n y m0 :
  0 <= wd <= 6 -> n <> 0 ->
  let first := tp_days_from_civil y (m0 + 1) 1 in
  let last := tp_days_from_civil y (m0 + 2) 1 - 1 in
  (forall d, (if 0 <? n then first <= d < first + 7 * n else last - 7 * (- n) < d <= last) -> tp_norm_day d = d) ->
  tp_find_nth_weekday_loop_mk (Z.to_nat (7 * Z.abs n)) wd n y m0 = Some (tp_find_nth_weekday wd n y m0).
Proof.
  intros Hwd Hn first last H. unfold tp_find_nth_weekday_loop_mk.
  destruct (0 <? n) eqn:C.
  - rewrite tp_nth_loop_mk_forward.
    + pose proof (tp_find_nth_weekday_loop_forward wd n y m0 (Z.to_nat (7 * Z.abs n)) Hwd ltac:(lia)) as E.
      unfold tp_find_nth_weekday_loop in E. rewrite C in E. apply E. rewrite Z2Nat.id by lia. lia.
    + intros d Hd. apply H. rewrite Z2Nat.id in Hd by lia. fold first in Hd. lia.
  - rewrite tp_nth_loop_mk_backward.
    + pose proof (tp_find_nth_weekday_loop_backward wd n y m0 (Z.to_nat (7 * Z.abs n)) Hwd ltac:(lia)) as E.
      unfold tp_find_nth_weekday_loop in E. rewrite C in E. apply E. rewrite Z2Nat.id by lia. lia.
    + intros d Hd. apply H. rewrite Z2Nat.id in Hd by lia. fold last in Hd. lia.
Qed.

(* ---------------- the day loop of ScriptFunc ---------------- *)

Variables rnd lb : bool.

(* advance_to_next_day: t->tm_mday++; 00:00:00; isdst = -1; mktime(t) - the next reference is what mktime left *)
Fixpoint tp_day_loop_norm (fuel : nat) (ranges : list (tp_dayrange * list (Z * Z))) (b r e : Z) : list tp_seg :=
  match fuel with
  | O => []
  | S f => if tp_midnight mk r <=? e
           then filter (tp_keep lb b) (tp_day_segs mk rnd ranges r) ++ tp_day_loop_norm f ranges b (tp_norm_day (r + 1)) e
           else []
  end.

(* form lb: tm_begin.tm_mday--; ...; mktime(&tm_begin) *)
Definition tp_first_day_norm (b : Z) : Z := if lb then tp_norm_day (tp_local_day off b - 1) else tp_local_day off b.

Definition tp_script_func_norm (ranges : list (tp_dayrange * list (Z * Z))) (b e : Z) : list tp_seg :=
  tp_day_loop_norm (tp_loop_fuel b e) ranges b (tp_first_day_norm b) e.

Hypothesis Hbound : forall t, -86400 < off t < 86400.
Hypothesis Hspace : forall s1 s2, s1 < s2 -> off (s1 - 1) <> off s1 -> off (s2 - 1) <> off s2 -> s1 + 172800 <= s2.

Lemma tp_day_loop_norm_eq ranges b e : forall fuel r,
  r <= tp_local_day off e + 1 ->
  (forall d, r <= d <= tp_local_day off e + 1 -> tp_good off mk (d * 86400)) ->
  tp_day_loop_norm fuel ranges b r e = tp_day_loop mk rnd lb fuel ranges b r e.
Proof.
  induction fuel as [|f IH]; intros r Hr Hg; [reflexivity|].
  cbn [tp_day_loop_norm tp_day_loop].
  destruct (tp_midnight mk r <=? e) eqn:C; [|reflexivity].
  assert (r <= tp_local_day off e) as Hle.
  { apply (tp_midnight_le off Hbound Hspace mk r e (Hg r ltac:(lia))). lia. }
  rewrite tp_norm_day_good by (apply Hg; lia).
  rewrite IH; [reflexivity|lia|]. intros d Hd. apply Hg. lia.
Qed.

(* the day loop as the code runs it (mktime normalising the reference in every step, and the first day in form lb) produces
   exactly the segments of the civil-day loop of the model, 23 h / 25 h days included *)
Theorem tp_script_func_norm_eq ranges b e :
  b <= e ->
  tp_good off mk (tp_local_day off b * 86400) ->
  (forall d, tp_first_day off lb b <= d <= tp_local_day off e + 1 -> tp_good off mk (d * 86400)) ->
  tp_script_func_norm ranges b e = tp_script_func off mk rnd lb ranges b e.
Proof.
  intros Hbe Hg0 Hg. unfold tp_script_func_norm, tp_script_func.
  pose proof (tp_local_day_mono off Hbound Hspace mk b e Hg0 Hbe) as Hmono.
  assert (tp_first_day_norm b = tp_first_day off lb b) as ->.
  { unfold tp_first_day_norm, tp_first_day. destruct lb; [|reflexivity].
    apply tp_norm_day_good. apply Hg. unfold tp_first_day. lia. }
  apply tp_day_loop_norm_eq; [|exact Hg].
  unfold tp_first_day. destruct lb; lia.
Qed.

End Norm.
