(* C08, layer M2: the STRING side of day definitions and time ranges - transcription of the text handling in
   lib/icinga/legacytimeperiod.cpp:
     ParseTimeRange      stride after the first '/', Trim, Convert::ToLong; first - last at the first "- "; "day 1 - 15":
                         a second part that begins with a number gets the first word of the first part in front
     ParseTimeSpec       "YYYY-MM-DD" (length 10, '-' at 4 and 7, month 1..12, day 1..31); Split(" ") (adjacent blanks
                         give empty tokens, tokens after the ones used are ignored); "day N" / "<month> N";
                         "<weekday> [N [<month>]]" (N = 0 rejected)
     ProcessTimeRanges   Split(","), ProcessTimeRangeRaw: Split("-") must give two parts, ProcessTimeRaw: Split(":") must
                         give 2 or 3 parts, all numbers through Convert::ToLong, no trimming, no range check
   with String::Split = boost::algorithm::split(is_any_of), String::Trim = boost::algorithm::trim (isspace, "C" locale),
   Convert::ToLong = boost::lexical_cast<long> (optional sign, at least one digit, nothing else, range of long), and the
   narrowing of that long to the int it is stored in.  Bytes are Z (0..255).  The result is the parsed form the
   calendar model (Tp/TpCal.v) works on; None = an exception was thrown (config validation rejects the definition).
   No proofs in this file. *)
From Icv Require Import Base.Tac Tp.TpModel Tp.TpCal.
From Coq Require Import Strings.String Strings.Ascii.
Local Open Scope Z_scope.

Definition tp_bytes_of (s : string) : list Z := map (fun a => Z.of_N (N_of_ascii a)) (list_ascii_of_string s).

Fixpoint tp_beq (a b : list Z) : bool :=
  match a, b with
  | [], [] => true
  | x :: a', y :: b' => (x =? y) && tp_beq a' b'
  | _, _ => false
  end.

(* ---------------- String primitives ---------------- *)

(* isspace in the "C" locale: space, \t \n \v \f \r *)
Definition tp_isspace (c : Z) : bool := (c =? 32) || ((9 <=? c) && (c <=? 13)).

Fixpoint tp_ltrim (s : list Z) : list Z :=
  match s with
  | c :: r => if tp_isspace c then tp_ltrim r else s
  | [] => []
  end.
Definition tp_trim (s : list Z) : list Z := rev (tp_ltrim (rev (tp_ltrim s))).

(* boost::algorithm::split(result, s, is_any_of(seps)) without token compression: n separators give n + 1 tokens *)
Fixpoint tp_split (sep : Z) (s : list Z) : list (list Z) :=
  match s with
  | [] => [[]]
  | c :: r => if c =? sep then [] :: tp_split sep r
              else match tp_split sep r with
                   | t :: ts => (c :: t) :: ts
                   | [] => [[c]]
                   end
  end.

(* FindFirstOf(c): (SubStr(0, pos), SubStr(pos + 1)) *)
Fixpoint tp_break (c : Z) (s : list Z) : option (list Z * list Z) :=
  match s with
  | [] => None
  | x :: r => if x =? c then Some ([], r)
              else match tp_break c r with
                   | Some (a, b) => Some (x :: a, b)
                   | None => None
                   end
  end.

(* Find("- "): (SubStr(0, pos), SubStr(pos + 1)) - the second part still begins with the blank *)
Fixpoint tp_break_dashsp (s : list Z) : option (list Z * list Z) :=
  match s with
  | [] => None
  | x :: r => if (x =? 45) && (match r with y :: _ => y =? 32 | [] => false end) then Some ([], r)
              else match tp_break_dashsp r with
                   | Some (a, b) => Some (x :: a, b)
                   | None => None
                   end
  end.

(* ---------------- Convert::ToLong and the narrowing to int ---------------- *)

Definition tp_isdigit (c : Z) : bool := (48 <=? c) && (c <=? 57).

Fixpoint tp_dval (acc : Z) (s : list Z) : option Z :=
  match s with
  | [] => Some acc
  | c :: r => if tp_isdigit c then tp_dval (acc * 10 + (c - 48)) r else None
  end.
Definition tp_digits_val (s : list Z) : option Z := match s with [] => None | _ => tp_dval 0 s end.

(* boost::lexical_cast<long>: [+-]? digit+ and nothing else, LONG_MIN <= value <= LONG_MAX *)
Definition tp_bounded (lim : Z) (v : option Z) : option Z :=
  match v with Some x => if x <=? lim then Some x else None | None => None end.
Definition tp_to_long (s : list Z) : option Z :=
  match s with
  | c :: r =>
      if c =? 45 then option_map Z.opp (tp_bounded 9223372036854775808 (tp_digits_val r))
      else if c =? 43 then tp_bounded 9223372036854775807 (tp_digits_val r)
      else tp_bounded 9223372036854775807 (tp_digits_val s)
  | [] => None
  end.

(* "int x = Convert::ToLong(...)": two's complement narrowing *)
Definition tp_to_int (z : Z) : Z := (z + 2147483648) mod 4294967296 - 2147483648.
Definition tp_to_long_int (s : list Z) : option Z := option_map tp_to_int (tp_to_long s).

(* ---------------- names ---------------- *)

Definition tp_wday_names : list (list Z) :=
  map tp_bytes_of ["sunday"; "monday"; "tuesday"; "wednesday"; "thursday"; "friday"; "saturday"]%string.
Definition tp_month_names : list (list Z) :=
  map tp_bytes_of ["january"; "february"; "march"; "april"; "may"; "june"; "july"; "august"; "september";
                   "october"; "november"; "december"]%string.
Definition tp_kw_day : list Z := tp_bytes_of "day".

Fixpoint tp_index_of (s : list Z) (names : list (list Z)) (i : Z) : option Z :=
  match names with
  | [] => None
  | n :: r => if tp_beq s n then Some i else tp_index_of s r (i + 1)
  end.
(* WeekdayFromString / MonthFromString (None = -1) *)
Definition tp_wday_of (s : list Z) : option Z := tp_index_of s tp_wday_names 0.
Definition tp_month_of (s : list Z) : option Z := tp_index_of s tp_month_names 0.

(* ---------------- ParseTimeSpec ---------------- *)

Definition tp_sub (from len : nat) (s : list Z) : list Z := firstn len (skipn from s).

(* the part of ParseTimeSpec after Split(" ") *)
Definition tp_parse_spec_tokens (tokens : list (list Z)) : option tp_spec :=
  let t0 := hd [] tokens in
  let monday := (* tokens.size() > 1 && (tokens[0] == "day" || (mon = MonthFromString(tokens[0])) != -1) *)
    match tokens with
    | _ :: t1 :: _ =>
        if tp_beq t0 tp_kw_day then Some (None, t1)
        else match tp_month_of t0 with Some m => Some (Some m, t1) | None => None end
    | _ => None
    end in
  match monday with
  | Some (mon, t1) =>
      match tp_to_long_int t1 with
      | Some mday => Some (TpMonthDay mon mday)
      | None => None
      end
  | None =>
      match tp_wday_of t0 with
      | None => None                                        (* "Invalid time specification" *)
      | Some wd =>
          match tokens with
          | _ :: t1 :: t2 :: _ =>
              match tp_month_of t2 with
              | None => None                                (* "Invalid month in time specification" *)
              | Some m =>
                  match tp_to_long_int t1 with
                  | Some n => if n =? 0 then None else Some (TpWeekday wd (Some n) (Some m))
                  | None => None
                  end
              end
          | _ :: t1 :: [] =>
              match tp_to_long_int t1 with
              | Some n => if n =? 0 then None else Some (TpWeekday wd (Some n) None)
              | None => None
              end
          | _ => Some (TpWeekday wd None None)
          end
      end
  end.

(* "YYYY-MM-DD": timespec.GetLength() == 10 && timespec[4] == '-' && timespec[7] == '-' *)
Definition tp_is_date_form (s : list Z) : bool := (Nat.eqb (List.length s) 10) && ((nth 4 s 0 =? 45) && (nth 7 s 0 =? 45)).

Definition tp_parse_spec (s : list Z) : option tp_spec :=
  if tp_is_date_form s then
    match tp_to_long_int (tp_sub 0 4 s), tp_to_long_int (tp_sub 5 2 s), tp_to_long_int (tp_sub 8 2 s) with
    | Some y, Some m, Some d =>
        if (m <? 1) || (12 <? m) then None
        else if (d <? 1) || (31 <? d) then None
        else Some (TpDate y m d)
    | _, _, _ => None
    end
  else tp_parse_spec_tokens (tp_split 32 s).

(* ---------------- ParseTimeRange ---------------- *)

(* the part of ParseTimeRange after the stride has been cut off *)
Definition tp_parse_range (def : list Z) (stride : Z) : option tp_dayrange :=
  match tp_break_dashsp def with
  | Some (before, after) =>
      let first := tp_trim before in
      let second := tp_trim after in
      match tp_parse_spec first with
      | None => None
      | Some sp1 =>
          let fword := match tp_break 32 second with Some (w, _) => w | None => second end in
          let second' :=
            match tp_to_long fword with
            | Some _ => (match tp_break 32 first with Some (w, _) => w ++ [32] | None => [] end) ++ second
            | None => second
            end in
          match tp_parse_spec second' with
          | None => None
          | Some sp2 => Some {| tp_dr_first := sp1; tp_dr_last := Some sp2; tp_dr_stride := stride |}
          end
      end
  | None =>
      match tp_parse_spec def with
      | None => None
      | Some sp => Some {| tp_dr_first := sp; tp_dr_last := None; tp_dr_stride := stride |}
      end
  end.

Definition tp_parse_daydef (s : list Z) : option tp_dayrange :=
  match tp_break 47 s with
  | Some (def, after) =>
      match tp_to_long_int (tp_trim after) with
      | Some k => tp_parse_range def k
      | None => None
      end
  | None => tp_parse_range s 1
  end.

(* ---------------- ProcessTimeRaw / ProcessTimeRangeRaw / ProcessTimeRanges ---------------- *)

(* one "HH:MM[:SS]": seconds of the day as written, tm_hour * 3600 + tm_min * 60 + tm_sec *)
Definition tp_parse_tod (s : list Z) : option Z :=
  match tp_split 58 s with
  | [h; m] =>
      match tp_to_long_int h, tp_to_long_int m with
      | Some hh, Some mm => Some (hh * 3600 + mm * 60)
      | _, _ => None
      end
  | [h; m; sec] =>
      match tp_to_long_int sec, tp_to_long_int h, tp_to_long_int m with
      | Some ss, Some hh, Some mm => Some (hh * 3600 + mm * 60 + ss)
      | _, _, _ => None
      end
  | _ => None
  end.

Definition tp_parse_timerange (s : list Z) : option (Z * Z) :=
  match tp_split 45 s with
  | [a; b] =>
      match tp_parse_tod a, tp_parse_tod b with
      | Some tb, Some te => Some (tb, te)
      | _, _ => None
      end
  | _ => None
  end.

Fixpoint tp_all_some {A} (l : list (option A)) : option (list A) :=
  match l with
  | [] => Some []
  | Some x :: r => match tp_all_some r with Some xs => Some (x :: xs) | None => None end
  | None :: _ => None
  end.

Definition tp_parse_timeranges (s : list Z) : option (list (Z * Z)) :=
  tp_all_some (map tp_parse_timerange (tp_split 44 s)).

(* what TimePeriod::ValidateRanges decides for one ranges entry: accepted iff both parts parse *)
Definition tp_validate_entry (k v : list Z) : bool :=
  match tp_parse_daydef k, tp_parse_timeranges v with
  | Some _, Some _ => true
  | _, _ => false
  end.
