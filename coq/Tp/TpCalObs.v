(* C08, layer M2: the property oracle for UpdateRegion on a period whose update function is
   LegacyTimePeriod::ScriptFunc.  For every probe instant t inside the computed window [b', e) the
   observed "inside" must equal what the property says: prefer_includes ? (own /\ ~E) \/ I : (own \/ I) /\ ~E
   with own = "t's local wall-clock time lies in a time range of a matching calendar day (the day of t or,
   for ranges running past midnight, a day before)".  A deviation is classified:
     TpClsWrapFirstDay  the observation equals the statement with days before the window's first local
                        day left out (F-C08-b)
     TpClsStrideDst     the observation equals the statement with the stride counted in seconds/86400
                        (F-C08-c)
     TpClsWrapAndStride both at once
     TpClsOther         anything else *)
From Icv Require Import Base.Tac Tp.TpModel Tp.TpProofs Tp.TpObs Tp.TpCal.
Local Open Scope Z_scope.

Inductive tp_cls := TpClsWrapFirstDay | TpClsStrideDst | TpClsWrapAndStride | TpClsOther | TpClsIsInside | TpClsWindow.

Definition tp_class_name (c : tp_cls) : Z :=
  match c with
  | TpClsWrapFirstDay => 1 | TpClsStrideDst => 2 | TpClsWrapAndStride => 3
  | TpClsOther => 4 | TpClsIsInside => 5 | TpClsWindow => 6
  end.

(* how many days back a range can reach: the generator keeps range ends below 72:00 *)
Definition tp_back : nat := 3%nat.

Section Cal.
Variable base : Z.
Variable tab : list (Z * Z).
Let off := tp_tab_off base tab.
Let mk := tp_tab_mk base tab.

Definition tp_cal_expect (secs : bool) (from : option Z) (ranges : list (tp_dayrange * list (Z * Z)))
           (prefer : bool) (incs excs : list (list tp_seg)) (t : Z) : bool :=
  tp_region_spec prefer (tp_spec_inside off mk secs from tp_back ranges t)
                 (tp_inside_any incs t) (tp_inside_any excs t).

Definition tp_cal_classify (ranges : list (tp_dayrange * list (Z * Z))) (prefer : bool)
           (incs excs : list (list tp_seg)) (d0 t : Z) (observed : bool) : option tp_cls :=
  if Bool.eqb observed (tp_cal_expect false None ranges prefer incs excs t) then None
  else if Bool.eqb observed (tp_cal_expect false (Some d0) ranges prefer incs excs t) then Some TpClsWrapFirstDay
  else if Bool.eqb observed (tp_cal_expect true None ranges prefer incs excs t) then Some TpClsStrideDst
  else if Bool.eqb observed (tp_cal_expect true (Some d0) ranges prefer incs excs t) then Some TpClsWrapAndStride
  else Some TpClsOther.

Fixpoint tp_cal_first_bad (ranges : list (tp_dayrange * list (Z * Z))) (prefer : bool)
         (incs excs : list (list tp_seg)) (b' e d0 : Z) (post : list tp_seg) (probes : list Z) : option (Z * tp_cls) :=
  match probes with
  | [] => None
  | t :: r =>
      if (b' <=? t) && (t <? e) then
        match tp_cal_classify ranges prefer incs excs d0 t (tp_inside_segs post t) with
        | Some c => Some (t, c)
        | None => tp_cal_first_bad ranges prefer incs excs b' e d0 post r
        end
      else tp_cal_first_bad ranges prefer incs excs b' e d0 post r
  end.

Definition tp_cal_step_ok (ranges : list (tp_dayrange * list (Z * Z))) (prefer : bool)
           (incs excs : list (list tp_seg)) (b e : Z) (clear : bool) (probes : list Z)
           (pre post : tp_st) (ins : list bool) : option (Z * tp_cls) :=
  if negb (tp_ins_ok post probes ins) then Some (0, TpClsIsInside)
  else if negb clear && (e <? tp_ve_num pre) then (if tp_st_eqb pre post then None else Some (0, TpClsWindow))
  else
    let b' := tp_upd_begin b clear pre in
    if negb (tp_covers_b post b' e) then Some (0, TpClsWindow)
    else tp_cal_first_bad ranges prefer incs excs b' e (tp_local_day off b') (tp_segs post) probes.

End Cal.
