(* C08, layer M2: the property oracle for UpdateRegion on a period whose update function is
   LegacyTimePeriod::ScriptFunc.  For every probe instant t inside the computed window [b', e) the
   implementation's IsInside ANSWER must equal what the property says: prefer_includes ? (own /\ ~E) \/ I : (own \/ I) /\ ~E
   with own = "t's local wall-clock time lies in a time range of a matching calendar day (the day of t or,
   for ranges running past midnight, a day before)".

   Where the oracle looks is decided by the SPECIFICATION, not by what the implementation produced: tp_spec_bounds
   lists the instants of both boundaries of every WRITTEN time range of every period of the case, on every day that can
   reach the window; the oracle refuses to decide (TpClsProbes) unless the probes of the case contain every such boundary,
   its two neighbours, and an instant in the middle half of every gap between two consecutive boundaries
   (tp_probes_cover).  The verdict is taken on the IsInside bits; the observed segment array only has to be consistent
   with them (TpClsIsInside) and the valid window has to cover the region (TpClsWindow).

   A deviation is classified:
     TpClsWrapFirstDay  the observation equals the statement with days before the window's first local
                        day left out (F-C08-b)
     TpClsStrideDst     the observation equals the statement with the stride counted in seconds/86400
                        (F-C08-c)
     TpClsWrapAndStride both at once
     TpClsOther         anything else *)
From Icv Require Import Base.Tac Tp.TpModel Tp.TpProofs Tp.TpObs Tp.TpCal.
Local Open Scope Z_scope.

Inductive tp_cls := TpClsWrapFirstDay | TpClsStrideDst | TpClsWrapAndStride | TpClsOther | TpClsIsInside | TpClsWindow | TpClsProbes.

Definition tp_class_name (c : tp_cls) : Z :=
  match c with
  | TpClsWrapFirstDay => 1 | TpClsStrideDst => 2 | TpClsWrapAndStride => 3
  | TpClsOther => 4 | TpClsIsInside => 5 | TpClsWindow => 6 | TpClsProbes => 7
  end.

(* how many days back a range can reach: the generator keeps range ends below 72:00 *)
Definition tp_back : nat := 3%nat.

(* ---------------- where to look: instants derived from the written ranges ---------------- *)

Fixpoint tp_days_from (n : nat) (d : Z) : list Z :=
  match n with O => [] | S k => d :: tp_days_from k (d + 1) end.

Fixpoint tp_sort_insert (x : Z) (l : list Z) : list Z :=
  match l with
  | [] => [x]
  | y :: r => if x <=? y then x :: l else y :: tp_sort_insert x r
  end.
Definition tp_sort (l : list Z) : list Z := fold_right tp_sort_insert [] l.

Definition tp_mem (x : Z) (l : list Z) : bool := existsb (Z.eqb x) l.

(* every gap of at least 4 s between two consecutive boundaries is sampled in its middle half *)
Fixpoint tp_gaps_ok (probes sorted : list Z) : bool :=
  match sorted with
  | u1 :: r =>
      match r with
      | u2 :: _ =>
          (if 4 <=? u2 - u1
           then existsb (fun t => (u1 + (u2 - u1) / 4 <=? t) && (t <=? u2 - (u2 - u1) / 4)) probes
           else true) && tp_gaps_ok probes r
      | [] => true
      end
  | [] => true
  end.

Definition tp_probes_cover (probes bounds : list Z) : bool :=
  forallb (fun u => tp_mem (u - 1) probes && tp_mem u probes && tp_mem (u + 1) probes) bounds
  && tp_gaps_ok probes (tp_sort bounds).

Section Cal.
Variable base : Z.
Variable tab : list (Z * Z).
Let off := tp_tab_off base tab.
Let mk := tp_tab_mk base tab.

Definition tp_cal_expect (secs : bool) (from : option Z) (ranges : list (tp_dayrange * list (Z * Z)))
           (prefer : bool) (incs excs : list (list tp_seg)) (t : Z) : bool :=
  tp_region_spec prefer (tp_spec_inside off mk secs from tp_back ranges t)
                 (tp_inside_any incs t) (tp_inside_any excs t).

Definition tp_cal_classify (ranges : list (tp_dayrange * list (Z * Z))) (prefer : bool)
           (incs excs : list (list tp_seg)) (d0 t : Z) (observed : bool) : option tp_cls :=
  if Bool.eqb observed (tp_cal_expect false None ranges prefer incs excs t) then None
  else if Bool.eqb observed (tp_cal_expect false (Some d0) ranges prefer incs excs t) then Some TpClsWrapFirstDay
  else if Bool.eqb observed (tp_cal_expect true None ranges prefer incs excs t) then Some TpClsStrideDst
  else if Bool.eqb observed (tp_cal_expect true (Some d0) ranges prefer incs excs t) then Some TpClsWrapAndStride
  else Some TpClsOther.

(* the instants of both boundaries of every written time range (of every period of the case: [allr]) on the days
   that can reach the window [lo, hi] *)
Definition tp_range_bounds (allr : list (tp_dayrange * list (Z * Z))) (d : Z) : list Z :=
  flat_map (fun kv => flat_map (fun tr : Z * Z =>
     let te' := if snd tr <=? fst tr then snd tr + 86400 else snd tr in
     [mk (d * 86400 + fst tr); mk (d * 86400 + te')]) (snd kv)) allr.

Definition tp_spec_bounds (allr : list (tp_dayrange * list (Z * Z))) (lo hi : Z) : list Z :=
  filter (fun u => (lo <=? u) && (u <=? hi))
         (flat_map (tp_range_bounds allr)
                   (tp_days_from (Z.to_nat (tp_local_day off hi - tp_local_day off lo + 2 + Z.of_nat tp_back))
                                 (tp_local_day off lo - Z.of_nat tp_back))).

(* the verdict on the IsInside answers: (probe instant, answer) pairs *)
Fixpoint tp_cal_first_bad (ranges : list (tp_dayrange * list (Z * Z))) (prefer : bool)
         (incs excs : list (list tp_seg)) (b' e d0 : Z) (answers : list (Z * bool)) : option (Z * tp_cls) :=
  match answers with
  | [] => None
  | (t, o) :: r =>
      if (b' <=? t) && (t <? e) then
        match tp_cal_classify ranges prefer incs excs d0 t o with
        | Some c => Some (t, c)
        | None => tp_cal_first_bad ranges prefer incs excs b' e d0 r
        end
      else tp_cal_first_bad ranges prefer incs excs b' e d0 r
  end.

Definition tp_cal_step_ok (ma : bool) (allr ranges : list (tp_dayrange * list (Z * Z))) (prefer : bool)
           (incs excs : list (list tp_seg)) (b e : Z) (clear : bool) (probes : list Z)
           (pre post : tp_st) (ins : list bool) : option (Z * tp_cls) :=
  if negb (tp_ins_ok post probes ins) then Some (0, TpClsIsInside)
  else if negb clear && (e <? tp_ve_num pre) then
    (* no stretch of the period's own to compute: nothing changes / the referenced periods are merged below valid_end *)
    (if tp_noop_ok ma probes (TpOpUpdate [] prefer incs excs b e clear) pre post then None else Some (0, TpClsWindow))
  else
    let b' := tp_upd_begin b clear pre in
    if negb (tp_covers_b post b' e) then Some (0, TpClsWindow)
    else if negb (tp_probes_cover probes (tp_spec_bounds allr b' e)) then Some (0, TpClsProbes)
    else tp_cal_first_bad ranges prefer incs excs b' e (tp_local_day off b') (combine probes ins).

End Cal.
