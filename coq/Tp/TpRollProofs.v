(* C08, rolling updates: after Start() and any number of timer rounds a period answers the statement at every
   instant from one hour before the last round up to its valid_end - with the referenced periods taken as they were
   when the period last recomputed (tp_rolling_updates), under the hypotheses spelled out in Tp/TpRoll.v. *)
From Icv Require Import Base.Tac Tp.TpModel Tp.TpProofs Tp.TpRoll.
Local Open Scope Z_scope.

(* ---------------- bookkeeping preserved by AddSegment / RemoveSegment ---------------- *)

(* valid_begin is set and at most x; valid_end is set, at most M, and no segment ends after it *)
Definition tp_rgood (x M : Z) (s : tp_st) : Prop :=
  (exists vb, tp_vb s = Some vb /\ vb <= x) /\
  (exists ve, tp_ve s = Some ve /\ ve <= M /\ forall sg, In sg (tp_segs s) -> snd sg <= ve).

Lemma tp_add_merge_ends b e v : forall l l',
  tp_add_merge b e l = Some l' -> (forall sg, In sg l -> snd sg <= v) -> forall sg, In sg l' -> snd sg <= Z.max v e.
Proof.
  induction l as [|[sb se] r IH]; intros l' H Hl sg Hin; [discriminate|].
  cbn [tp_add_merge] in H.
  assert (se <= v) as Hse by (apply (Hl (sb, se)); left; reflexivity).
  assert (forall sg, In sg r -> snd sg <= Z.max v e) as Hr by (intros sg' Hs; specialize (Hl sg' (or_intror Hs)); lia).
  destruct ((sb <=? b) && (e <=? se)).
  { inv H. destruct Hin as [<-|Hin]; [cbn; lia|apply Hr, Hin]. }
  destruct ((b <=? sb) && (se <=? e)).
  { inv H. destruct Hin as [<-|Hin]; [cbn; lia|apply Hr, Hin]. }
  destruct ((b <=? se) && (se <=? e)).
  { inv H. destruct Hin as [<-|Hin]; [cbn; lia|apply Hr, Hin]. }
  destruct ((b <=? sb) && (sb <=? e)).
  { inv H. destruct Hin as [<-|Hin]; [cbn; lia|apply Hr, Hin]. }
  destruct (tp_add_merge b e r) as [r'|] eqn:E; [|discriminate].
  inv H. destruct Hin as [<-|Hin]; [cbn; lia|].
  apply (IH r' eq_refl); [intros sg' Hs; apply Hl; right; exact Hs|exact Hin].
Qed.

Lemma tp_add_segs_ends b e v l :
  (forall sg, In sg l -> snd sg <= v) -> forall sg, In sg (tp_add_segs b e l) -> snd sg <= Z.max v e.
Proof.
  intros Hl sg Hin. unfold tp_add_segs in Hin. destruct (tp_add_merge b e l) as [l'|] eqn:E.
  - exact (tp_add_merge_ends b e v l l' E Hl sg Hin).
  - apply in_app_or in Hin. destruct Hin as [Hin|[<-|[]]]; [specialize (Hl sg Hin); lia|cbn; lia].
Qed.

Lemma tp_add_rgood x M b e s : e <= M -> tp_rgood x M s -> tp_rgood x M (tp_add b e s).
Proof.
  intros He [(vb & Hvb & Hx) (ve & Hve & HM & Hs)]. unfold tp_add, tp_rgood. cbn [tp_vb tp_ve tp_segs].
  rewrite Hvb, Hve. cbn [tp_widen_b tp_widen_e]. split.
  - destruct (b <? vb) eqn:C; eexists; split; try reflexivity; lia.
  - exists (Z.max ve e). split; [destruct (ve <? e) eqn:C; f_equal; lia|]. split; [lia|].
    apply tp_add_segs_ends. exact Hs.
Qed.

Lemma tp_remove_one_ends fx b e sg sg' : In sg' (tp_remove_one fx b e sg) -> snd sg' <= snd sg.
Proof.
  destruct sg as [sb se]. unfold tp_remove_one. cbn [snd].
  destruct ((b <=? sb) && (se <=? e)); [intros []|].
  destruct ((se <? b) || (e <? sb)) eqn:C2; [intros [<-|[]]; cbn; lia|].
  destruct ((sb <? b) && (e <? se)) eqn:C3; [intros [<-|[<-|[]]]; cbn; lia|].
  intros [<-|[]]. cbn [snd].
  destruct ((b <? se) && (if fx then se <=? e else se <? e)) eqn:C; lia.
Qed.

Lemma tp_remove_rgood x M fx b e s : e <= M -> tp_rgood x M s -> tp_rgood x M (tp_remove fx b e s).
Proof.
  intros He [(vb & Hvb & Hx) (ve & Hve & HM & Hs)]. unfold tp_remove, tp_rgood. cbn [tp_vb tp_ve tp_segs].
  rewrite Hvb, Hve. cbn [tp_widen_b tp_widen_e]. split.
  - destruct (b <? vb) eqn:C; eexists; split; try reflexivity; lia.
  - exists (Z.max ve e). split; [destruct (ve <? e) eqn:C; f_equal; lia|]. split; [lia|].
    intros sg Hin. unfold tp_remove_segs in Hin. apply in_flat_map in Hin. destruct Hin as (sg0 & Hin0 & Hin).
    apply tp_remove_one_ends in Hin. specialize (Hs sg0 Hin0). lia.
Qed.

Lemma tp_merge_rgood x M fx o inc : (forall sg, In sg o -> snd sg <= M) ->
  forall s, tp_rgood x M s -> tp_rgood x M (tp_merge fx o inc s).
Proof.
  unfold tp_merge. induction o as [|sg r IH]; intros Ho s H; [exact H|]. cbn [fold_left].
  apply IH; [intros sg' Hs; apply Ho; right; exact Hs|].
  assert (snd sg <= M) by (apply Ho; left; reflexivity).
  destruct inc; [apply tp_add_rgood|apply tp_remove_rgood]; assumption.
Qed.

Lemma tp_merge_all_rgood x M fx os inc : (forall sg, In sg (concat os) -> snd sg <= M) ->
  forall s, tp_rgood x M s -> tp_rgood x M (tp_merge_all fx os inc s).
Proof.
  unfold tp_merge_all. induction os as [|o r IH]; intros Ho s H; [exact H|]. cbn [fold_left].
  apply IH; [intros sg Hs; apply Ho; cbn [concat]; apply in_or_app; right; exact Hs|].
  apply tp_merge_rgood; [intros sg Hs; apply Ho; cbn [concat]; apply in_or_app; left; exact Hs|exact H].
Qed.

Lemma tp_purge_ve p s : tp_ve (tp_purge p s) = tp_ve s.
Proof. unfold tp_purge. destruct (tp_vb s) as [v|]; [|reflexivity]. destruct (p <? v); reflexivity. Qed.

Lemma tp_purge_rgood x M p s : p <= x -> tp_rgood x M s -> tp_rgood x M (tp_purge p s).
Proof.
  intros Hp [(vb & Hvb & Hx) (ve & Hve & HM & Hs)]. unfold tp_purge. rewrite Hvb.
  destruct (p <? vb) eqn:C.
  - split; [exists vb; auto|exists ve; auto].
  - split; cbn [tp_vb tp_ve tp_segs]; [exists p; split; [reflexivity|lia]|].
    exists ve. repeat split; try assumption. intros sg Hin. apply filter_In in Hin. apply Hs, Hin.
Qed.

(* UpdateRegion as a whole: [s0] is the state the first RemoveSegment(begin, end) produces *)
Lemma tp_update_region_rgood x M upd prefer incs excs b e clear s :
  (negb clear && (e <? tp_ve_num s)) = false ->
  e <= M ->
  (forall sg, In sg (upd (tp_upd_begin b clear s) e) -> snd sg <= M) ->
  (forall sg, In sg (concat incs ++ concat excs) -> snd sg <= M) ->
  tp_rgood x M (tp_remove true (tp_upd_begin b clear s) e
                 (if clear then {| tp_segs := []; tp_vb := tp_vb s; tp_ve := tp_ve s |} else s)) ->
  tp_rgood x M (tp_update_region true upd prefer incs excs b e clear s).
Proof.
  intros Hn He Hown Hie H0. unfold tp_update_region. rewrite Hn. fold (tp_upd_begin b clear s).
  assert (forall sg, In sg (concat incs) -> snd sg <= M) as Hi by (intros sg Hs; apply Hie, in_or_app; left; exact Hs).
  assert (forall sg, In sg (concat excs) -> snd sg <= M) as Hx by (intros sg Hs; apply Hie, in_or_app; right; exact Hs).
  assert (tp_rgood x M (fold_left (fun acc sg => tp_add (fst sg) (snd sg) acc) (upd (tp_upd_begin b clear s) e)
                         (tp_remove true (tp_upd_begin b clear s) e
                            (if clear then {| tp_segs := []; tp_vb := tp_vb s; tp_ve := tp_ve s |} else s)))) as H2.
  { exact (tp_merge_rgood x M true _ true Hown _ H0). }
  destruct prefer; apply tp_merge_all_rgood; try assumption; apply tp_merge_all_rgood; assumption.
Qed.

Lemma tp_rgood_ve_num x M s : tp_rgood x M s -> tp_ve_num s <= M.
Proof. intros [_ (ve & Hve & HM & _)]. unfold tp_ve_num. rewrite Hve. exact HM. Qed.

(* a round that only merges (second form): every step is an AddSegment / RemoveSegment ending at or before valid_end *)
Lemma tp_merge_clip_rgood x M fx o inc : forall s, tp_rgood x M s -> tp_rgood x M (tp_merge_clip fx o inc s).
Proof.
  unfold tp_merge_clip. induction o as [|sg r IH]; intros s H; [exact H|]. cbn [fold_left]. apply IH.
  destruct (tp_ve_num s <=? fst sg); [exact H|].
  assert (tp_ve_num s <= M) as HM by (apply (tp_rgood_ve_num x M s H)).
  assert ((if tp_ve_num s <? snd sg then tp_ve_num s else snd sg) <= M) as He by (destruct (tp_ve_num s <? snd sg) eqn:C; lia).
  destruct inc; [apply tp_add_rgood|apply tp_remove_rgood]; assumption.
Qed.

Lemma tp_merge_only_rgood x M fx prefer incs excs s : tp_rgood x M s -> tp_rgood x M (tp_merge_only fx prefer incs excs s).
Proof.
  assert (forall os inc s0, tp_rgood x M s0 -> tp_rgood x M (tp_merge_clip_all fx os inc s0)) as Hall.
  { unfold tp_merge_clip_all. induction os as [|o r IH]; intros inc s0 H; [exact H|]. cbn [fold_left]. apply IH.
    apply tp_merge_clip_rgood. exact H. }
  intros H. unfold tp_merge_only. apply Hall, Hall. exact H.
Qed.

Lemma tp_rgood_beyond x M s t : tp_rgood x M s -> tp_ve_num s <= t -> tp_inside_segs (tp_segs s) t = false.
Proof.
  intros [_ (ve & Hve & _ & Hs)] Ht. unfold tp_ve_num in Ht. rewrite Hve in Ht.
  unfold tp_inside_segs. apply Bool.not_true_is_false. intros H. apply existsb_exists in H.
  destruct H as (sg & Hin & H). specialize (Hs sg Hin). unfold tp_in_seg in H. lia.
Qed.

Lemma tp_rgood_weaken x M x' M' s : x <= x' -> tp_rgood x M s -> (tp_ve_num s <= M') -> tp_rgood x' M' s.
Proof.
  intros Hx [(vb & Hvb & Hb) (ve & Hve & HM & Hs)] HM'. unfold tp_ve_num in HM'. rewrite Hve in HM'.
  split; [exists vb; split; [assumption|lia]|exists ve; auto].
Qed.

Lemma tp_rgood_is_inside x M s t : tp_rgood x M s -> x <= t <= tp_ve_num s ->
  tp_is_inside s t = tp_inside_segs (tp_segs s) t.
Proof.
  intros [(vb & Hvb & Hb) (ve & Hve & _ & _)] Ht. unfold tp_ve_num in Ht. rewrite Hve in Ht.
  unfold tp_is_inside. rewrite Hvb, Hve. assert (((t <? vb) || (ve <? t)) = false) as -> by lia. reflexivity.
Qed.

(* ---------------- the pointwise algebra ---------------- *)

Lemma tp_region_mono prefer P x o I0 E0 I E :
  x = tp_region_spec prefer P I0 E0 -> (o = true -> P = true) -> (I0 = true -> I = true) -> (E0 = true -> E = true) ->
  tp_region_spec prefer (x || o) I E = tp_region_spec prefer P I E.
Proof.
  intros -> Ho HI HE. unfold tp_region_spec.
  destruct prefer, P, o, I0, E0, I, E; cbn in *; try reflexivity;
    try (specialize (Ho eq_refl); discriminate); try (specialize (HI eq_refl); discriminate);
    try (specialize (HE eq_refl); discriminate).
Qed.

Lemma tp_region_cover prefer P I E : I = true \/ E = true ->
  tp_region_spec prefer false I E = tp_region_spec prefer P I E.
Proof. unfold tp_region_spec. destruct prefer, P, I, E; intros [H|H]; try discriminate; reflexivity. Qed.

Lemma tp_inside_any_concat ls t : tp_inside_any ls t = tp_inside_segs (concat ls) t.
Proof.
  induction ls as [|l r IH]; [reflexivity|]. cbn [tp_inside_any existsb concat]. rewrite tp_inside_app.
  f_equal. exact IH.
Qed.

(* the oracle check for one observed round is the statement of tp_rolling_updates at the probes *)
Theorem tp_roll_answers_ok_sound prefer lo ve answers t o own i x :
  tp_roll_answers_ok prefer lo ve answers = None ->
  In (t, (o, own), (i, x)) answers -> lo <= t < ve -> o = tp_region_spec prefer own i x.
Proof.
  unfold tp_roll_answers_ok. intros H Hin Ht.
  destruct (find _ answers) as [[[t' ?] ?]|] eqn:F; [discriminate|].
  pose proof (find_none _ _ F _ Hin) as Hf. cbn in Hf.
  assert (((lo <=? t) && (t <? ve)) = true) as Hw by lia. rewrite Hw in Hf. cbn [andb] in Hf.
  apply Bool.negb_false_iff in Hf. apply Bool.eqb_prop in Hf. exact Hf.
Qed.

Theorem tp_roll_answers_ok_complete prefer lo ve answers :
  (forall t o own i x, In (t, (o, own), (i, x)) answers -> lo <= t < ve -> o = tp_region_spec prefer own i x) ->
  tp_roll_answers_ok prefer lo ve answers = None.
Proof.
  intros H. unfold tp_roll_answers_ok.
  destruct (find _ answers) as [[[t [o own]] [i x]]|] eqn:F; [|reflexivity].
  apply find_some in F. destruct F as [Hin Hf].
  apply andb_prop in Hf. destruct Hf as [Hw Hne].
  rewrite (H t o own i x Hin ltac:(lia)) in Hne. rewrite Bool.eqb_reflx in Hne. discriminate.
Qed.

Section Rolling.
Variable ownP : Z -> bool.
Variable upd : Z -> Z -> list tp_seg.
Variable hz : Z -> Z.
Variable prefer : bool.
Variable ma : bool.
(* the update function never reports an instant the period's own definition does not contain ... *)
Hypothesis Usound : forall b e t, tp_inside_segs (upd b e) t = true -> ownP t = true.
(* ... answers completely from the region's begin up to hz e >= e, and no segment it returns ends later *)
Hypothesis Ucomplete : forall b e t, b <= e -> b <= t < hz e -> tp_inside_segs (upd b e) t = ownP t.
Hypothesis Uhz : forall e, e <= hz e.
Hypothesis Uends : forall b e sg, In sg (upd b e) -> snd sg <= hz e.

(* the freshly computed stretch: from the region's begin to the new valid_end *)
Lemma tp_region_new incs excs b e clear s x :
  (clear = true -> s = tp_empty /\ b <= x) ->
  (clear = false -> b = tp_ve_num s /\ tp_rgood x b s) ->
  b <= e ->
  (forall sg, In sg (concat incs ++ concat excs) -> fst sg <= hz e) ->
  (forall M, hz e <= M -> (forall sg, In sg (concat incs ++ concat excs) -> snd sg <= M) ->
             tp_rgood x M (tp_update_region true upd prefer incs excs b e clear s)) /\
  forall t, b <= t < tp_ve_num (tp_update_region true upd prefer incs excs b e clear s) ->
    tp_inside_segs (tp_segs (tp_update_region true upd prefer incs excs b e clear s)) t =
    tp_region_spec prefer (ownP t) (tp_inside_any incs t) (tp_inside_any excs t).
Proof.
  intros Hc1 Hc0 Hbe Hbeg. set (post := tp_update_region true upd prefer incs excs b e clear s).
  assert (tp_upd_begin b clear s = b) as Hb'.
  { unfold tp_upd_begin. destruct clear; [reflexivity|]. destruct (Hc0 eq_refl) as [-> _]. rewrite Z.ltb_irrefl. reflexivity. }
  assert ((negb clear && (e <? tp_ve_num s)) = false) as Hn.
  { destruct clear; [reflexivity|]. destruct (Hc0 eq_refl) as [Hb _]. cbn. lia. }
  assert (clear = false -> tp_ve_num s <= e) as Hwin.
  { intros Hc. destruct (Hc0 Hc) as [Hb _]. lia. }
  assert (forall M, hz e <= M -> (forall sg, In sg (concat incs ++ concat excs) -> snd sg <= M) -> tp_rgood x M post) as Hgood.
  { intros M HM Hie. pose proof (Uhz e) as Hhz. subst post. apply tp_update_region_rgood; try assumption; try lia.
    - rewrite Hb'. intros sg Hs. specialize (Uends b e sg Hs). lia.
    - rewrite Hb'. destruct clear.
      + destruct (Hc1 eq_refl) as [-> Hbx]. cbn. split; cbn [tp_vb tp_ve tp_segs].
        * exists b. split; [reflexivity|exact Hbx].
        * exists e. split; [reflexivity|]. split; [lia|]. intros sg [].
      + destruct (Hc0 eq_refl) as [Hb Hg]. apply tp_remove_rgood; [lia|].
        apply (tp_rgood_weaken x b x M s (Z.le_refl x) Hg). lia. }
  split; [exact Hgood|].
  intros t Ht. subst post. rewrite tp_update_region_spec_b by exact Hwin.
  unfold tp_own_after. rewrite Hb'.
  assert (((if clear then false else tp_inside_segs (tp_segs s) t) && negb (tp_in_range b e t)) = false) as ->.
  { destruct clear; [reflexivity|]. destruct (Hc0 eq_refl) as [Hb Hg].
    destruct (tp_in_range b e t) eqn:C; [apply andb_false_r|].
    rewrite (tp_rgood_beyond x b s t Hg); [reflexivity|]. unfold tp_in_range in C. lia. }
  cbn [orb].
  destruct (Z.lt_ge_cases t (hz e)) as [Hlt|Hge].
  - rewrite Ucomplete by lia. reflexivity.
  - (* beyond what the own definition computed: covered by the referenced segment that moved valid_end there *)
    assert (tp_inside_segs (upd b e) t = false) as ->.
    { apply Bool.not_true_is_false. intros H. unfold tp_inside_segs in H. apply existsb_exists in H.
      destruct H as (sg & Hin & H). specialize (Uends b e sg Hin). unfold tp_in_seg in H. lia. }
    apply tp_region_cover.
    destruct (existsb (fun sg => t <? snd sg) (concat incs ++ concat excs)) eqn:Ex.
    + apply existsb_exists in Ex. destruct Ex as (sg & Hin & Hsg).
      specialize (Hbeg sg Hin).
      assert (tp_in_seg t sg = true) as Hts by (unfold tp_in_seg; lia).
      rewrite !tp_inside_any_concat. apply in_app_or in Hin. destruct Hin as [Hin|Hin]; [left|right];
        unfold tp_inside_segs; apply existsb_exists; exists sg; split; assumption.
    + exfalso.
      assert (forall sg, In sg (concat incs ++ concat excs) -> snd sg <= t) as Hall.
      { intros sg Hin. destruct (Z.le_gt_cases (snd sg) t) as [H|H]; [exact H|].
        assert (existsb (fun sg => t <? snd sg) (concat incs ++ concat excs) = true); [|congruence].
        apply existsb_exists. exists sg. split; [exact Hin|lia]. }
      pose proof (tp_rgood_ve_num x t _ (Hgood t Hge Hall)). lia.
Qed.

(* ---------------- the invariant ---------------- *)

Definition tp_roll_inv (n0 : Z) (prev : tp_rround) (acc : tp_roll_acc) : Prop :=
  let s := fst acc in
  let rl := snd acc in
  let lo := Z.max n0 (tp_rr_now prev - 3600) in
  tp_rgood lo (tp_ve_num s) s /\
  (forall t, lo <= t < tp_ve_num s ->
     tp_inside_segs (tp_segs s) t =
     tp_region_spec prefer (ownP t) (tp_inside_any (tp_rr_incs rl) t) (tp_inside_any (tp_rr_excs rl) t)) /\
  (forall t, lo <= t ->
     (tp_inside_any (tp_rr_incs rl) t = true -> tp_inside_any (tp_rr_incs prev) t = true) /\
     (tp_inside_any (tp_rr_excs rl) t = true -> tp_inside_any (tp_rr_excs prev) t = true)).

Lemma tp_rgood_self x M s : tp_rgood x M s -> tp_rgood x (tp_ve_num s) s.
Proof. intros H. apply (tp_rgood_weaken x M x (tp_ve_num s) s (Z.le_refl x) H). lia. Qed.

Lemma tp_max_end_bound (l : list tp_seg) : exists M, forall sg, In sg l -> snd sg <= M.
Proof.
  induction l as [|a l [M IH]]; [exists 0; intros sg []|].
  exists (Z.max (snd a) M). intros sg [->|Hin]; [lia|]. specialize (IH sg Hin). lia.
Qed.

Lemma tp_roll_inv_start r0 : tp_round_ok hz r0 ->
  tp_roll_inv (tp_rr_now r0) r0 (tp_roll_start upd prefer r0, r0).
Proof.
  intros Hok. unfold tp_roll_inv. cbn [fst snd].
  set (n0 := tp_rr_now r0). assert (Z.max n0 (n0 - 3600) = n0) as -> by lia.
  destruct (tp_region_new (tp_rr_incs r0) (tp_rr_excs r0) n0 (n0 + 86400) true tp_empty n0) as [Hg Hsp].
  - intros _. split; [reflexivity|lia].
  - discriminate.
  - lia.
  - exact Hok.
  - fold (tp_roll_start upd prefer r0) in Hg, Hsp. split; [|split].
    + destruct (tp_max_end_bound (concat (tp_rr_incs r0) ++ concat (tp_rr_excs r0))) as [M0 HM0].
      apply (tp_rgood_self n0 (Z.max (hz (n0 + 86400)) M0)). apply Hg; [lia|].
      intros sg Hin. specialize (HM0 sg Hin). lia.
    + exact Hsp.
    + intros t _. split; auto.
Qed.

Lemma tp_roll_inv_step n0 prev acc r :
  tp_roll_inv n0 prev acc -> tp_round_ok hz r -> tp_round_mono prev r ->
  tp_roll_inv n0 r (tp_roll_step ma upd prefer acc r).
Proof.
  intros (Hg & Hsp & Hmono) Hok [Hnow Hm]. destruct acc as [s rl]. cbn [fst snd] in *.
  unfold tp_roll_inv, tp_roll_step. cbn [fst snd].
  set (lo := Z.max n0 (tp_rr_now prev - 3600)) in *.
  set (p := tp_rr_now r - 3600).
  set (lo' := Z.max n0 p).
  assert (lo <= lo') as Hlo by (subst lo lo' p; lia).
  assert (p <= lo') as Hp by (subst lo'; lia).
  set (s1 := tp_purge p s).
  assert (tp_ve_num s1 = tp_ve_num s) as Hve1 by (unfold tp_ve_num, s1; rewrite tp_purge_ve; reflexivity).
  assert (tp_rgood lo' (tp_ve_num s1) s1) as Hg1.
  { rewrite Hve1. apply tp_purge_rgood; [exact Hp|]. apply (tp_rgood_weaken lo (tp_ve_num s) lo' (tp_ve_num s) s Hlo Hg). lia. }
  assert (forall t, p <= t -> tp_inside_segs (tp_segs s1) t = tp_inside_segs (tp_segs s) t) as Hpurge.
  { intros t Ht. apply tp_purge_spec. exact Ht. }
  unfold tp_roll_round. fold p. fold s1.
  unfold tp_roll_effective.
  destruct (tp_rr_now r + 86400 <? tp_ve_num s) eqn:Heff; cbn [negb].
  - (* no stretch of the period's own: only the purge (first form) / the purge and a merge below valid_end (second form) *)
    unfold tp_update_region_ma.
    assert ((negb false && (tp_rr_now r + 86400 <? tp_ve_num s1)) = true) as -> by (cbn; lia).
    destruct ma; cbn [orb].
    + destruct Hg1 as [Hvb1 (v & Hv & HvM & Hsegs)].
      assert (tp_ve_num s1 = v) as Hv1 by (unfold tp_ve_num; rewrite Hv; reflexivity).
      destruct (tp_merge_only_spec prefer (tp_rr_incs r) (tp_rr_excs r) s1 v Hv) as [Hv' Hs'].
      set (s2 := tp_merge_only true prefer (tp_rr_incs r) (tp_rr_excs r) s1) in *.
      assert (tp_ve_num s2 = v) as Hv2 by (unfold tp_ve_num; rewrite Hv'; reflexivity).
      split; [|split].
      * rewrite Hv2. rewrite <- Hv1. apply tp_merge_only_rgood. split; [exact Hvb1|]. exists v. rewrite Hv1. repeat split; [exact Hv|lia|exact Hsegs].
      * intros t Ht. rewrite Hs'. unfold tp_below. rewrite Hv2 in Ht. assert ((t <? v) = true) as -> by lia.
        destruct (Hmono t ltac:(lia)) as [H1 H2]. destruct (Hm t ltac:(lia)) as [H3 H4].
        rewrite <- (orb_false_r (tp_inside_segs (tp_segs s1) t)).
        apply (tp_region_mono prefer (ownP t) _ _ (tp_inside_any (tp_rr_incs rl) t) (tp_inside_any (tp_rr_excs rl) t)).
        -- rewrite Hpurge by lia. apply Hsp. lia.
        -- discriminate.
        -- auto.
        -- auto.
      * intros t _. split; auto.
    + split; [exact Hg1|]. split.
      * intros t Ht. rewrite Hpurge by lia. apply Hsp. lia.
      * intros t Ht. destruct (Hmono t ltac:(lia)) as [H1 H2]. destruct (Hm t ltac:(lia)) as [H3 H4]. split; auto.
  - rewrite orb_true_r.
    rewrite (tp_update_region_ma_effective true ma upd prefer (tp_rr_incs r) (tp_rr_excs r) (tp_ve_num s1) (tp_rr_now r + 86400) false s1)
      by (intros _; lia).
    set (e := tp_rr_now r + 86400) in *.
    set (b := tp_ve_num s1).
    destruct (tp_region_new (tp_rr_incs r) (tp_rr_excs r) b e false s1 lo') as [Hgood Hnew].
    + discriminate.
    + intros _. split; [reflexivity|exact Hg1].
    + subst b. lia.
    + exact Hok.
    + set (post := tp_update_region true upd prefer (tp_rr_incs r) (tp_rr_excs r) b e false s1) in *.
      split; [|split].
      * destruct (tp_max_end_bound (concat (tp_rr_incs r) ++ concat (tp_rr_excs r))) as [M0 HM0].
        apply (tp_rgood_self lo' (Z.max (hz e) M0)). apply Hgood; [lia|]. intros sg Hin. specialize (HM0 sg Hin). lia.
      * intros t Ht. destruct (Z.lt_ge_cases t b) as [Hlt|Hge]; [|apply Hnew; lia].
        (* the part computed earlier: every segment of the referenced periods is merged again *)
        subst post. rewrite tp_update_region_spec_b by (intros _; subst b e; lia).
        unfold tp_own_after.
        assert (tp_upd_begin b false s1 = b) as -> by (unfold tp_upd_begin, b; rewrite Z.ltb_irrefl; reflexivity).
        assert (tp_in_range b e t = false) as -> by (unfold tp_in_range; lia).
        cbn [negb]. rewrite andb_true_r.
        destruct (Hmono t ltac:(lia)) as [H1 H2]. destruct (Hm t ltac:(lia)) as [H3 H4].
        apply (tp_region_mono prefer (ownP t) _ _ (tp_inside_any (tp_rr_incs rl) t) (tp_inside_any (tp_rr_excs rl) t)).
        -- rewrite Hpurge by lia. apply Hsp. subst b. lia.
        -- apply Usound.
        -- auto.
        -- auto.
      * intros t _. split; auto.
Qed.

Lemma tp_last_cons (A : Type) (r : A) rest d : last (r :: rest) d = last rest r.
Proof.
  revert r d. induction rest as [|a l IH]; intros r d; [reflexivity|].
  change (last (r :: a :: l) d) with (last (a :: l) d). rewrite (IH a d), (IH a r). reflexivity.
Qed.

Lemma tp_roll_inv_fold n0 : forall rs prev acc,
  tp_roll_inv n0 prev acc -> tp_env_ok hz prev rs ->
  tp_roll_inv n0 (last rs prev) (fold_left (tp_roll_step ma upd prefer) rs acc).
Proof.
  induction rs as [|r rest IH]; intros prev acc Hinv Henv; [exact Hinv|].
  destruct Henv as (Hok & Hmono & Hrest). cbn [fold_left].
  rewrite tp_last_cons.
  apply IH; [|exact Hrest]. apply (tp_roll_inv_step n0 prev); assumption.
Qed.

(* after Start() and any sequence of timer rounds: IsInside answers the statement at every instant from one hour
   before the last round (not before the start) up to valid_end, the referenced periods taken as they were when the
   period last recomputed (snd of tp_roll: the last round that was not UpdateRegion's early return) *)
Theorem tp_rolling_updates r0 rs :
  tp_round_ok hz r0 -> tp_env_ok hz r0 rs ->
  let s := fst (tp_roll ma upd prefer r0 rs) in
  let rl := snd (tp_roll ma upd prefer r0 rs) in
  forall t, Z.max (tp_rr_now r0) (tp_rr_now (last rs r0) - 3600) <= t < tp_ve_num s ->
    tp_is_inside s t =
    tp_region_spec prefer (ownP t) (tp_inside_any (tp_rr_incs rl) t) (tp_inside_any (tp_rr_excs rl) t).
Proof.
  intros Hok Henv s rl t Ht.
  pose proof (tp_roll_inv_fold (tp_rr_now r0) rs r0 _ (tp_roll_inv_start r0 Hok) Henv) as (Hg & Hsp & _).
  fold (tp_roll ma upd prefer r0 rs) in Hg, Hsp. fold s in Hg, Hsp. fold rl in Hsp.
  rewrite (tp_rgood_is_inside _ _ s t Hg) by lia. apply Hsp. exact Ht.
Qed.

(* the view is up to date whenever the last round recomputed: valid_end had not run ahead of now + 24 h ... *)
Theorem tp_rolling_view r0 rs r :
  tp_roll_effective r (fst (tp_roll ma upd prefer r0 rs)) = true ->
  snd (tp_roll ma upd prefer r0 (rs ++ [r])) = r.
Proof.
  intros H. unfold tp_roll. rewrite fold_left_app. cbn [fold_left]. unfold tp_roll_step at 1. cbn [snd].
  fold (tp_roll ma upd prefer r0 rs). rewrite H, orb_true_r. reflexivity.
Qed.

(* the oracle check of one round (tp_roll_answers_ok over the probes, with the observed IsInside bits) accepts what
   the model computes *)
Theorem tp_roll_oracle_accepts_model r0 rs probes :
  tp_round_ok hz r0 -> tp_env_ok hz r0 rs ->
  let s := fst (tp_roll ma upd prefer r0 rs) in
  let rl := snd (tp_roll ma upd prefer r0 rs) in
  tp_roll_answers_ok prefer (Z.max (tp_rr_now r0) (tp_rr_now (last rs r0) - 3600)) (tp_ve_num s)
    (map (fun t => (t, (tp_is_inside s t, ownP t),
                    (tp_inside_any (tp_rr_incs rl) t, tp_inside_any (tp_rr_excs rl) t))) probes) = None.
Proof.
  intros Hok Henv s rl. apply tp_roll_answers_ok_complete.
  intros t o own i x Hin Ht. apply in_map_iff in Hin. destruct Hin as (t' & Heq & _). inversion Heq; subst.
  apply (tp_rolling_updates r0 rs Hok Henv). exact Ht.
Qed.

End Rolling.


Theorem tp_roll_answers_rejects_wrong prefer lo ve answers t o own i x :
  In (t, (o, own), (i, x)) answers -> lo <= t < ve -> o <> tp_region_spec prefer own i x ->
  tp_roll_answers_ok prefer lo ve answers <> None.
Proof.
  intros Hin Ht Hne H. apply Hne. exact (tp_roll_answers_ok_sound prefer lo ve answers t o own i x H Hin Ht).
Qed.

(* ---------------- what the theorem cannot say, because the code does not do it ---------------- *)

(* (1) The statement is about the referenced periods as they were at the last round that recomputed, NOT as they are
   now: a period whose own segments reach past now + 24 h (a day's ranges are produced as a whole) returns early from
   UpdateRegion round after round and merges nothing.  Witness: own = everything, the update function returns the
   region extended by 50000 s; the excluded period is started AFTER this one (empty at Start()) and has [1000, 2000)
   from the first round on.  Every hypothesis of tp_rolling_updates holds, and three rounds later instant 1500 is still
   inside although it lies in the excluded period's segment the whole time.  (finding reference-started-later) *)
Theorem tp_rolling_current_view_refuted :
  let upd := fun b e : Z => [(b, e + 50000)] in
  let hz := fun e : Z => e + 50000 in
  let ownP := fun _ : Z => true in
  let x := [(1000, 2000)] in
  let r0 : tp_rround := (0, [], [[]]) in
  let rs : list tp_rround := [(300, [], [x]); (600, [], [x]); (900, [], [x])] in
  (forall b e t, tp_inside_segs (upd b e) t = true -> ownP t = true) /\
  (forall b e t, b <= e -> b <= t < hz e -> tp_inside_segs (upd b e) t = ownP t) /\
  (forall e, e <= hz e) /\
  (forall b e sg, In sg (upd b e) -> snd sg <= hz e) /\
  tp_round_ok hz r0 /\ tp_env_ok hz r0 rs /\
  snd (tp_roll false upd true r0 rs) = r0 /\
  tp_is_inside (fst (tp_roll false upd true r0 rs)) 1500 = true /\
  tp_region_spec true (ownP 1500) (tp_inside_any [] 1500) (tp_inside_any [x] 1500) = false.
Proof.
  cbv zeta. repeat split; try (vm_compute; reflexivity); try (cbn; lia);
    try (intros sg Hin; cbn in Hin; intuition (subst; cbn; lia)); try (let Hq := fresh in intros Hq; exact Hq).
  - intros b e t Hbe Ht. cbn. unfold tp_in_seg. cbn [fst snd]. lia.
  - intros b e sg [<-|[]]. cbn. lia.
Qed.

(* ... the same witness in the second form of UpdateRegion (merge in every round): the view is the last round's and 1500 is
   outside after the first round.  What remains: between Start() and the first timer round (no round yet) the excluded
   period, started later, is not seen - there the state is that of Start() in both forms. *)
Theorem tp_rolling_current_view_fixed :
  let upd := fun b e : Z => [(b, e + 50000)] in
  let x := [(1000, 2000)] in
  let r0 : tp_rround := (0, [], [[]]) in
  let r1 : tp_rround := (300, [], [x]) in
  let rs : list tp_rround := [r1; (600, [], [x]); (900, [], [x])] in
  snd (tp_roll true upd true r0 rs) = (900, [], [x]) /\
  tp_is_inside (fst (tp_roll true upd true r0 [r1])) 1500 = false /\
  tp_is_inside (fst (tp_roll true upd true r0 rs)) 1500 = false /\
  tp_is_inside (fst (tp_roll true upd true r0 rs)) 2500 = true /\
  tp_ve_num (fst (tp_roll true upd true r0 rs)) = tp_ve_num (fst (tp_roll true upd true r0 [])) /\
  tp_is_inside (fst (tp_roll true upd true r0 [])) 1500 = true /\
  fst (tp_roll true upd true r0 []) = fst (tp_roll false upd true r0 []).
Proof. vm_compute. repeat split; reflexivity. Qed.

(* (2) tp_round_mono cannot be dropped: an INCLUDED period whose inside set shrinks between two rounds (it excludes a
   third period that is updated after it, so the newest stretch of its window lacks the exclusion for one round) leaves
   what it wrongly reported in the including period for good - AddSegment is never undone.  Witness: own = nothing; the
   included period shows [0, 90400) in one round and [0, 90000) + [90400, 90700) in the next; instants 90000..90399
   stay inside although neither the own definition nor the included period (as seen in that very round, and ever
   after) contains them.  (finding include-of-excluding-period; the same in both forms of UpdateRegion) *)
Theorem tp_rolling_needs_monotone_refuted : forall ma : bool,
  let upd := fun _ _ : Z => @nil tp_seg in
  let hz := fun e : Z => e in
  let r0 : tp_rround := (0, [[(0, 86400)]], []) in
  let r1 : tp_rround := (4000, [[(0, 90400)]], []) in
  let r2 : tp_rround := (4300, [[(0, 90000); (90400, 90700)]], []) in
  tp_round_ok hz r0 /\ tp_round_ok hz r1 /\ tp_round_ok hz r2 /\
  snd (tp_roll ma upd true r0 [r1; r2]) = r2 /\
  tp_ve_num (fst (tp_roll ma upd true r0 [r1; r2])) = 90700 /\
  tp_is_inside (fst (tp_roll ma upd true r0 [r1; r2])) 90200 = true /\
  tp_region_spec true false (tp_inside_any (tp_rr_incs r2) 90200) (tp_inside_any (tp_rr_excs r2) 90200) = false.
Proof.
  intros ma. cbv zeta. repeat split; try (destruct ma; vm_compute; reflexivity);
    intros sg Hin; cbn in Hin; intuition (subst; cbn; lia).
Qed.

(* second form: the view is ALWAYS that of the last round (every round merges); with no round yet it is Start()'s *)
Theorem tp_rolling_view_fixed upd prefer r0 rs : snd (tp_roll true upd prefer r0 rs) = last rs r0.
Proof.
  assert (forall rs0 (acc0 : tp_roll_acc) prev, snd acc0 = prev ->
          snd (fold_left (tp_roll_step true upd prefer) rs0 acc0) = last rs0 prev) as H.
  { induction rs0 as [|r rest IH]; intros acc0 prev Hp; [exact Hp|].
    cbn [fold_left]. rewrite tp_last_cons. apply IH. reflexivity. }
  unfold tp_roll. apply H. reflexivity.
Qed.
