(* C08, layer M2: the calendar part - LegacyTimePeriod (lib/icinga/legacytimeperiod.cpp).
   Transcription of ParseTimeSpec (173-324, on the parsed form), ParseTimeRange (341-391),
   IsInTimeRange (27-43), FindNthWeekday (56-105), ProcessTimeRangeRaw / ProcessTimeRanges (429-475)
   and the day loop of ScriptFunc (585-647).

   Local time enters through two functions (inputs of the model, never constants inside it):
     off : Z -> Z   the UTC offset (seconds) in force at a UTC instant      (localtime_r)
     mk  : Z -> Z   local seconds-since-epoch "as if UTC" -> UTC instant      (mktime, tm_isdst = -1)
   A struct tm whose fields were modified and that is then normalised by mktime is represented by the
   local second count it normalises to: day * 86400 + h*3600 + m*60 + s with day a civil day number
   (days since 1970-01-01), exactly what mktime's field normalisation computes.  All struct tm values
   on the ScriptFunc path carry tm_isdst = -1.

   String parsing is glue: the model works on the parsed form below, the generator prints both the
   string (for the code) and the parsed form (for the model).  No proofs in this file. *)
From Icv Require Import Base.Tac Tp.TpModel Facts.Facts_c08.
Local Open Scope Z_scope.

(* ---------------- the two forms of the source this model follows (regenerated facts, Facts/Facts_c08.v) ----------------
   [rnd]  the day number IsInTimeRange uses for strides: false = (tsref - tsbegin) / 86400 (pinned tree, finding
          stride-dst), true = (tsref - tsbegin + 43200) / 86400 (repo_patches/C08-stride-dst.diff);
   [lb]   the day loop of ScriptFunc: false = starts at the first local day of the region and keeps every segment (pinned
          tree, finding wrap-first-day), true = starts one local day earlier and keeps the segments that end after the
          region's begin (repo_patches/C08-wrap-first-day.diff).
   Every function below that depends on the form takes it as an argument; the instance the check runs is the one of the
   source as it is now. *)
Definition tp_src_stride_round : bool := match f_tp_stride_round with Some b => b | None => false end.
Definition tp_src_lookback : bool := match f_tp_loop_lookback with Some b => b | None => false end.
(* [ma] the form of TimePeriod::UpdateRegion (Tp/TpModel.v tp_update_region_ma): false = returns early when valid_end lies beyond
   the requested end (pinned tree, finding stale-reference), true = still merges the referenced periods, cut off at valid_end
   (repo_patches/C08-merge-references-every-round.diff) *)
Definition tp_src_merge_always : bool := match f_tp_merge_always with Some b => b | None => false end.
(* [rw] the form of TimePeriod::Start (Tp/TpRoll.v tp_roll_start_on): false = UpdateRegion(now, now + 24 h, true) on the state as
   restored (segments dropped, valid_begin / valid_end kept: finding restart-keeps-valid-end), true = valid_begin / valid_end are
   emptied first (repo_patches/C08-start-resets-window.diff) *)
Definition tp_src_start_resets : bool := match f_tp_start_resets with Some b => b | None => false end.

(* ---------------- civil calendar (proleptic Gregorian), days since 1970-01-01 ---------------- *)

(* month m is 1-based and may lie outside 1..12 (tm_mon overflow is normalised by mktime), d is arbitrary *)
Definition tp_days_from_civil (y m d : Z) : Z :=
  let y1 := y + (m - 1) / 12 in
  let m1 := (m - 1) mod 12 + 1 in
  let y2 := if m1 <=? 2 then y1 - 1 else y1 in
  let era := y2 / 400 in
  let yoe := y2 - era * 400 in
  let doy := (153 * (if 2 <? m1 then m1 - 3 else m1 + 9) + 2) / 5 + d - 1 in
  let doe := yoe * 365 + yoe / 4 - yoe / 100 + doy in
  era * 146097 + doe - 719468.

Definition tp_civil_from_days (z : Z) : Z * Z * Z :=
  let z1 := z + 719468 in
  let era := z1 / 146097 in
  let doe := z1 - era * 146097 in
  let yoe := (doe - doe / 1460 + doe / 36524 - doe / 146096) / 365 in
  let y := yoe + era * 400 in
  let doy := doe - (365 * yoe + yoe / 4 - yoe / 100) in
  let mp := (5 * doy + 2) / 153 in
  let d := doy - (153 * mp + 2) / 5 + 1 in
  let m := if mp <? 10 then mp + 3 else mp - 9 in
  (if m <=? 2 then y + 1 else y, m, d).

(* tm_wday: 0 = Sunday; 1970-01-01 was a Thursday *)
Definition tp_wday (z : Z) : Z := (z + 4) mod 7.

(* ---------------- day specifications (parsed form) ---------------- *)

Inductive tp_spec :=
| TpDate (y m d : Z)                              (* "YYYY-MM-DD" *)
| TpMonthDay (mon : option Z) (n : Z)             (* "day N" (None) / "<month> N" (Some 0..11); N may be negative *)
| TpWeekday (wd : Z) (nth : option Z) (mon : option Z).  (* "monday" / "monday 2" / "monday -1 may" *)

Record tp_dayrange := { tp_dr_first : tp_spec; tp_dr_last : option tp_spec; tp_dr_stride : Z }.

(* FindNthWeekday: n > 0 counts forward from the 1st of month m0 (0-based, year y), n <= 0 is negated and
   counts backward from the last day of that month.  (n = 0 does not terminate in the code; excluded.) *)
Definition tp_find_nth_weekday (wd n y m0 : Z) : Z :=
  if 0 <? n then
    let first := tp_days_from_civil y (m0 + 1) 1 in
    first + (wd - tp_wday first) mod 7 + 7 * (n - 1)
  else
    let last := tp_days_from_civil y (m0 + 2) 1 - 1 in
    last - (tp_wday last - wd) mod 7 - 7 * (- n - 1).

(* ParseTimeSpec: the civil day whose 00:00:00 the "begin" output denotes after normalisation, for the
   reference day r.  The "end" output is 24:00:00 of the same day in every branch. *)
Definition tp_spec_day (sp : tp_spec) (r : Z) : Z :=
  let '(ry, rm, _) := tp_civil_from_days r in
  match sp with
  | TpDate y m d => tp_days_from_civil y m d
  | TpMonthDay mon n =>
      let m0 := match mon with Some m => m | None => rm - 1 end in
      if n <? 0 then tp_days_from_civil ry (m0 + 2) 1 - 1 - (- n - 1)     (* end of month minus (-n-1) days *)
      else tp_days_from_civil ry (m0 + 1) n
  | TpWeekday wd None _ => r + (7 - tp_wday r + wd) mod 7
  | TpWeekday wd (Some n) mon =>
      let m0 := match mon with Some m => m | None => rm - 1 end in
      tp_find_nth_weekday wd n ry m0
  end.

Definition tp_range_begin_day (dd : tp_dayrange) (r : Z) : Z := tp_spec_day (tp_dr_first dd) r.
Definition tp_range_end_day (dd : tp_dayrange) (r : Z) : Z :=
  tp_spec_day (match tp_dr_last dd with Some l => l | None => tp_dr_first dd end) r + 1.

Section LocalTime.
Variable tp_off : Z -> Z.
Variable tp_mk : Z -> Z.

Definition tp_local (t : Z) : Z := t + tp_off t.
Definition tp_local_day (t : Z) : Z := tp_local t / 86400.
Definition tp_midnight (d : Z) : Z := tp_mk (d * 86400).

(* IsInDayDefinition = ParseTimeRange + IsInTimeRange, reference = local midnight of day r *)
Definition tp_in_day_def (rnd : bool) (dd : tp_dayrange) (r : Z) : bool :=
  let tsbegin := tp_midnight (tp_range_begin_day dd r) in
  let tsend := tp_midnight (tp_range_end_day dd r) in
  let tsref := tp_midnight r in
  if (tsref <? tsbegin) || (tsend <=? tsref) then false
  else
    let daynumber := (if rnd then tsref - tsbegin + 43200 else tsref - tsbegin) / 86400 in
    if (1 <? tp_dr_stride dd) && (0 <? daynumber mod tp_dr_stride dd) then false else true.

(* ProcessTimeRangeRaw + ProcessTimeRange + the emptiness test of ProcessTimeRanges; a time range is
   (begin, end) in seconds of the day as written (hh*3600+mm*60+ss, hh may exceed 24) *)
Definition tp_time_range_seg (r : Z) (tr : Z * Z) : list tp_seg :=
  let '(tb, te) := tr in
  let te' := if te <=? tb then te + 86400 else te in
  let sb := tp_mk (r * 86400 + tb) in
  let se := tp_mk (r * 86400 + te') in
  if se <=? sb then [] else [(sb, se)].

Definition tp_time_ranges_segs (r : Z) (trs : list (Z * Z)) : list tp_seg :=
  flat_map (tp_time_range_seg r) trs.

Definition tp_day_segs (rnd : bool) (ranges : list (tp_dayrange * list (Z * Z))) (r : Z) : list tp_seg :=
  flat_map (fun kv => if tp_in_day_def rnd (fst kv) r then tp_time_ranges_segs r (snd kv) else []) ranges.

(* form [lb]: "if (segment->Get("end") > begin) segments->Add(segment)"; the pinned form keeps everything *)
Definition tp_keep (lb : bool) (b : Z) (sg : tp_seg) : bool := if lb then b <? snd sg else true.

(* the day loop: for (reference = midnight of the first day; mktime(reference) <= end; next day) *)
Fixpoint tp_day_loop (rnd lb : bool) (fuel : nat) (ranges : list (tp_dayrange * list (Z * Z))) (b r e : Z) : list tp_seg :=
  match fuel with
  | O => []
  | S f => if tp_midnight r <=? e
           then filter (tp_keep lb b) (tp_day_segs rnd ranges r) ++ tp_day_loop rnd lb f ranges b (r + 1) e else []
  end.

(* an upper bound on the number of iterations (a local day is longer than an hour); +5 covers the partial first and
   last day and an offset change of less than 48 h between begin and end *)
Definition tp_loop_fuel (b e : Z) : nat := Z.to_nat ((e - b) / 3600 + 5).

(* the first day of the loop: begin's local day, in form [lb] the day before (tm_mday--, normalised by mktime) *)
Definition tp_first_day (lb : bool) (b : Z) : Z := if lb then tp_local_day b - 1 else tp_local_day b.

Definition tp_script_func (rnd lb : bool) (ranges : list (tp_dayrange * list (Z * Z))) (b e : Z) : list tp_seg :=
  tp_day_loop rnd lb (tp_loop_fuel b e) ranges b (tp_first_day lb b) e.

(* ---------------- what the property says (calendar semantics, local wall-clock time) -------------- *)

(* day r belongs to the day definition: between first and last day, every stride-th CALENDAR day *)
Definition tp_day_matches (dd : tp_dayrange) (r : Z) : bool :=
  let bd := tp_range_begin_day dd r in
  (bd <=? r) && (r <? tp_range_end_day dd r) &&
  ((tp_dr_stride dd <=? 1) || ((r - bd) mod tp_dr_stride dd =? 0)).

(* ... the same with the stride counted the way the pinned IsInTimeRange does (seconds / 86400) *)
Definition tp_day_matches_secs (dd : tp_dayrange) (r : Z) : bool :=
  let bd := tp_range_begin_day dd r in
  (bd <=? r) && (r <? tp_range_end_day dd r) &&
  ((tp_dr_stride dd <=? 1) || (((tp_midnight r - tp_midnight bd) / 86400) mod tp_dr_stride dd =? 0)).

(* instant t lies in time range tr of local day r: wall-clock comparison *)
Definition tp_in_time_range (r : Z) (tr : Z * Z) (t : Z) : bool :=
  let '(tb, te) := tr in
  let te' := if te <=? tb then te + 86400 else te in
  (r * 86400 + tb <=? tp_local t) && (tp_local t <? r * 86400 + te').

Definition tp_day_covers (secs : bool) (ranges : list (tp_dayrange * list (Z * Z))) (r t : Z) : bool :=
  existsb (fun kv => (if secs then tp_day_matches_secs (fst kv) r else tp_day_matches (fst kv) r)
                     && existsb (fun tr => tp_in_time_range r tr t) (snd kv)) ranges.

(* days that can reach t: its own local day and the [back] days before (a range may run past midnight).
   [from]: no day before [from] is considered (None = no restriction). *)
Fixpoint tp_days_back (back : nat) (d : Z) : list Z :=
  match back with O => [d] | S k => d :: tp_days_back k (d - 1) end.

Definition tp_spec_inside (secs : bool) (from : option Z) (back : nat)
           (ranges : list (tp_dayrange * list (Z * Z))) (t : Z) : bool :=
  existsb (fun r => (match from with Some f => f <=? r | None => true end) && tp_day_covers secs ranges r t)
          (tp_days_back back (tp_local_day t)).

End LocalTime.

(* ---------------- executable time zone tables ---------------- *)

(* base offset, then (instant, offset from that instant on), ascending *)
Fixpoint tp_tab_off (base : Z) (tab : list (Z * Z)) (t : Z) : Z :=
  match tab with
  | [] => base
  | (ti, oi) :: r => if ti <=? t then tp_tab_off oi r t else base
  end.

(* mktime with tm_isdst = -1 as glibc answers it: the first regime (in time order) in which the local
   time exists; a local time skipped by a transition is read with the offset in force before it *)
Fixpoint tp_tab_mk (base : Z) (tab : list (Z * Z)) (l : Z) : Z :=
  match tab with
  | [] => l - base
  | (ti, oi) :: r =>
      if l - base <? ti then l - base
      else if l - oi <? ti then l - base
      else tp_tab_mk oi r l
  end.

(* the hypotheses about a table, checked by computation for every table used in a run:
   ascending, transitions at least two days apart, |offset| < 24 h *)
Fixpoint tp_tab_ok_from (prev : option Z) (tab : list (Z * Z)) : bool :=
  match tab with
  | [] => true
  | (ti, oi) :: r =>
      (match prev with Some p => p + 172800 <=? ti | None => true end)
      && (-86400 <? oi) && (oi <? 86400) && tp_tab_ok_from (Some ti) r
  end.
Definition tp_tab_ok (base : Z) (tab : list (Z * Z)) : bool :=
  (-86400 <? base) && (base <? 86400) && tp_tab_ok_from None tab.
