(* C08, layer M1: what the correspondence run observes after each operation on a TimePeriod object
   (segments, valid_begin, valid_end, IsInside at the probe instants of the case) and the executable
   property oracle that is run over the IMPLEMENTATION's traces.  The oracle states the property
   (not the model): after AddSegment the set of inside instants is the union, after RemoveSegment the
   difference, after UpdateRegion the include/exclude/prefer_includes formula, and IsInside agrees with
   the segments inside the valid window - all evaluated at the probe instants, which the generator
   chooses to contain every boundary occurring in the case and its two neighbours. *)
From Icv Require Import Base.Tac Tp.TpModel Tp.TpProofs.
Local Open Scope Z_scope.

Inductive tp_op :=
| TpOpAdd (b e : Z)
| TpOpRemove (b e : Z)
| TpOpPurge (e : Z)
| TpOpUpdate (own : list tp_seg) (prefer : bool) (incs excs : list (list tp_seg)) (b e : Z) (clear : bool).

(* the model's step (fixed code); [ma]: the form of UpdateRegion (Tp/TpModel.v: false = early return, true = merge in every round) *)
Definition tp_apply (ma : bool) (op : tp_op) (s : tp_st) : tp_st :=
  match op with
  | TpOpAdd b e => tp_add b e s
  | TpOpRemove b e => tp_remove true b e s
  | TpOpPurge e => tp_purge e s
  | TpOpUpdate own prefer incs excs b e clear => tp_update_region_ma true ma (fun _ _ => own) prefer incs excs b e clear s
  end.

Definition tp_covers_b (s : tp_st) (b e : Z) : bool :=
  match tp_vb s, tp_ve s with
  | Some vb, Some ve => (vb <=? b) && (e <=? ve)
  | _, _ => false
  end.

Definition tp_seg_eqb (a b : tp_seg) : bool := (fst a =? fst b) && (snd a =? snd b).
Fixpoint tp_segs_eqb (a b : list tp_seg) : bool :=
  match a, b with
  | [], [] => true
  | x :: a', y :: b' => tp_seg_eqb x y && tp_segs_eqb a' b'
  | _, _ => false
  end.
Definition tp_oz_eqb (a b : option Z) : bool :=
  match a, b with Some x, Some y => x =? y | None, None => true | _, _ => false end.
Definition tp_st_eqb (a b : tp_st) : bool :=
  tp_segs_eqb (tp_segs a) (tp_segs b) && tp_oz_eqb (tp_vb a) (tp_vb b) && tp_oz_eqb (tp_ve a) (tp_ve b).

(* IsInside as observed agrees with the observed segments and window *)
Fixpoint tp_ins_ok (s : tp_st) (probes : list Z) (ins : list bool) : bool :=
  match probes, ins with
  | [], [] => true
  | t :: p', i :: i' => Bool.eqb i (tp_is_inside s t) && tp_ins_ok s p' i'
  | _, _ => false
  end.

(* the statement of the property for one operation, at one instant *)
Definition tp_expect (op : tp_op) (pre : tp_st) (t : Z) : option bool :=
  match op with
  | TpOpAdd b e => Some (tp_inside_segs (tp_segs pre) t || tp_in_range b e t)
  | TpOpRemove b e => Some (tp_inside_segs (tp_segs pre) t && negb (tp_in_range b e t))
  | TpOpPurge e => if e <=? t then Some (tp_inside_segs (tp_segs pre) t) else None
  | TpOpUpdate own prefer incs excs b e clear =>
      Some (tp_region_spec prefer (tp_own_after (fun _ _ => own) b e clear pre t)
                           (tp_inside_any incs t) (tp_inside_any excs t))
  end.

Definition tp_noop (op : tp_op) (pre : tp_st) : bool :=
  match op with
  | TpOpUpdate _ _ _ _ _ e clear => negb clear && (e <? tp_ve_num pre)
  | _ => false
  end.

(* a call that has no stretch of its own to compute: nothing changes (ma = false) / valid_end stays and below it the
   referenced periods are merged again, the old answer playing the part of "own" (ma = true) *)
Definition tp_noop_ok (ma : bool) (probes : list Z) (op : tp_op) (pre post : tp_st) : bool :=
  match op with
  | TpOpUpdate _ prefer incs excs _ _ _ =>
      if ma then
        match tp_ve pre with
        | None => true
        | Some v =>
            tp_oz_eqb (tp_ve pre) (tp_ve post) &&
            forallb (fun t => Bool.eqb (tp_inside_segs (tp_segs post) t)
                                (tp_below v t (tp_region_spec prefer (tp_inside_segs (tp_segs pre) t)
                                                                (tp_inside_any incs t) (tp_inside_any excs t))
                                          (tp_inside_segs (tp_segs pre) t))) probes
        end
      else tp_st_eqb pre post
  | _ => tp_st_eqb pre post
  end.

(* the window that must be covered afterwards *)
Definition tp_window_ok (op : tp_op) (pre post : tp_st) : bool :=
  match op with
  | TpOpAdd b e | TpOpRemove b e => tp_covers_b post b e
  | TpOpPurge _ => true
  | TpOpUpdate _ _ _ _ b e clear => tp_covers_b post (tp_upd_begin b clear pre) e
  end.

Definition tp_step_ok (ma : bool) (probes : list Z) (op : tp_op) (pre post : tp_st) (ins : list bool) : bool :=
  tp_ins_ok post probes ins &&
  (if tp_noop op pre then tp_noop_ok ma probes op pre post
   else tp_window_ok op pre post &&
        forallb (fun t => match tp_expect op pre t with
                          | Some x => Bool.eqb (tp_inside_segs (tp_segs post) t) x
                          | None => true
                          end) probes).

(* a trace = list of (op, observed state after it, observed IsInside bits); first failing index *)
Fixpoint tp_oracle_from (ma : bool) (probes : list Z) (pre : tp_st) (idx : Z)
         (tr : list (tp_op * tp_st * list bool)) : option Z :=
  match tr with
  | [] => None
  | (op, post, ins) :: rest =>
      if tp_step_ok ma probes op pre post ins then tp_oracle_from ma probes post (idx + 1) rest else Some idx
  end.

Definition tp_oracle (ma : bool) (probes : list Z) (tr : list (tp_op * tp_st * list bool)) : option Z :=
  tp_oracle_from ma probes tp_empty 0 tr.
