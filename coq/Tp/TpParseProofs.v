(* C08: the parser model (Tp/TpParse.v) reads back what the generator's printer writes.
   tp_print_daydef / tp_print_timeranges are the printer of vlib/p_c08.py (spec_str, daydef, fmt_tod, times_str) in
   Gallina; for every well-formed parsed form  tp_parse_daydef (tp_print_daydef short dd) = Some dd  and
   tp_parse_timeranges (tp_print_timeranges trs) = Some trs.  Decimal printing is Codec/NsModel.ns_dec. *)
From Icv Require Import Base.Tac Tp.TpModel Tp.TpCal Tp.TpParse Codec.NsModel Codec.NsDecimal.
Local Open Scope Z_scope.

(* ---------------- decimal numbers ---------------- *)

Lemma tp_dval_app a : forall acc b,
  tp_dval acc (a ++ b) = match tp_dval acc a with Some v => tp_dval v b | None => None end.
Proof.
  induction a as [|c r IH]; intros acc b; [reflexivity|].
  cbn [app tp_dval]. destruct (tp_isdigit c); [apply IH|reflexivity].
Qed.

Definition tp_alldigits (s : list Z) : Prop := Forall (fun c => 48 <= c <= 57) s.

Lemma tp_dec_ok n : 0 <= n -> tp_dval 0 (ns_dec n) = Some n /\ tp_alldigits (ns_dec n) /\ ns_dec n <> [].
Proof.
  intros Hn. pattern n. apply ns_dec_ind; [| |exact Hn]; clear n Hn.
  - intros n Hn. rewrite ns_dec_small by exact Hn. cbn [tp_dval]. unfold tp_isdigit.
    assert (((48 <=? 48 + n) && (48 + n <=? 57)) = true) as -> by lia.
    split; [f_equal; lia|]. split; [|discriminate]. constructor; [lia|constructor].
  - intros n Hn (IH1 & IH2 & IH3). rewrite ns_dec_big by exact Hn.
    rewrite tp_dval_app, IH1. cbn [tp_dval]. unfold tp_isdigit.
    assert (((48 <=? 48 + n mod 10) && (48 + n mod 10 <=? 57)) = true) as -> by lia.
    split; [f_equal; lia|]. split.
    + apply Forall_app. split; [exact IH2|]. constructor; [lia|constructor].
    + destruct (ns_dec (n / 10)); [congruence|discriminate].
Qed.

Definition tp_print_int (z : Z) : list Z := if z <? 0 then 45 :: ns_dec (- z) else ns_dec z.

Lemma tp_digits_val_dec n : 0 <= n -> tp_digits_val (ns_dec n) = Some n.
Proof.
  intros Hn. destruct (tp_dec_ok n Hn) as (H1 & _ & H3). unfold tp_digits_val.
  destruct (ns_dec n); [congruence|exact H1].
Qed.

Lemma tp_dec_head n : 0 <= n -> exists d ds, ns_dec n = d :: ds /\ 48 <= d <= 57.
Proof.
  intros Hn. destruct (tp_dec_ok n Hn) as (_ & H2 & H3).
  destruct (ns_dec n) as [|d ds]; [congruence|]. exists d, ds. split; [reflexivity|]. inversion H2. assumption.
Qed.

Lemma tp_to_long_print z : -2147483648 <= z < 2147483648 -> tp_to_long (tp_print_int z) = Some z.
Proof.
  intros Hz. unfold tp_print_int. destruct (z <? 0) eqn:C.
  - cbn [tp_to_long]. change (45 =? 45) with true. cbv iota.
    rewrite tp_digits_val_dec by lia. unfold tp_bounded.
    assert ((- z <=? 9223372036854775808) = true) as -> by lia. cbn [option_map]. f_equal. lia.
  - destruct (tp_dec_head z ltac:(lia)) as (d & ds & E & Hd).
    pose proof (tp_digits_val_dec z ltac:(lia)) as Hv. rewrite E in *.
    cbn [tp_to_long]. assert ((d =? 45) = false) as -> by lia. assert ((d =? 43) = false) as -> by lia.
    rewrite Hv. unfold tp_bounded. assert ((z <=? 9223372036854775807) = true) as -> by lia. reflexivity.
Qed.

Lemma tp_to_int_id z : -2147483648 <= z < 2147483648 -> tp_to_int z = z.
Proof. intros H. unfold tp_to_int. rewrite Z.mod_small by lia. lia. Qed.

Lemma tp_to_long_int_print z : -2147483648 <= z < 2147483648 -> tp_to_long_int (tp_print_int z) = Some z.
Proof. intros H. unfold tp_to_long_int. rewrite tp_to_long_print by exact H. cbn [option_map]. rewrite tp_to_int_id by exact H. reflexivity. Qed.

(* ---------------- character classes of what is printed ---------------- *)

(* lower-case letters, digits and '-' only *)
Definition tp_plain_char (c : Z) : bool := ((97 <=? c) && (c <=? 122)) || tp_isdigit c || (c =? 45).
Definition tp_plain (s : list Z) : Prop := Forall (fun c => tp_plain_char c = true) s.

Lemma tp_plain_app a b : tp_plain a -> tp_plain b -> tp_plain (a ++ b).
Proof. intros. apply Forall_app. split; assumption. Qed.

Lemma tp_plain_digits s : tp_alldigits s -> tp_plain s.
Proof. intros H. eapply Forall_impl; [|exact H]. intros c Hc. unfold tp_plain_char, tp_isdigit. cbv beta in Hc. lia. Qed.

Lemma tp_plain_print_int z : tp_plain (tp_print_int z).
Proof.
  unfold tp_print_int. destruct (z <? 0) eqn:C.
  - constructor; [reflexivity|]. apply tp_plain_digits. apply (tp_dec_ok (- z)). lia.
  - apply tp_plain_digits. apply (tp_dec_ok z). lia.
Qed.

Lemma tp_print_int_nonempty z : tp_print_int z <> [].
Proof.
  unfold tp_print_int. destruct (z <? 0) eqn:C; [discriminate|]. apply (tp_dec_ok z). lia.
Qed.

Lemma tp_plain_not (c : Z) s : tp_plain s -> tp_plain_char c = false -> ~ In c s.
Proof. intros H Hc Hin. unfold tp_plain in H. rewrite Forall_forall in H. specialize (H c Hin). congruence. Qed.

(* ---------------- Split, FindFirstOf, Find("- "), Trim ---------------- *)

Lemma tp_split_token sep t : ~ In sep t -> forall r, tp_split sep (t ++ sep :: r) = t :: tp_split sep r.
Proof.
  induction t as [|c t IH]; intros Hn r.
  - cbn [app tp_split]. rewrite Z.eqb_refl. reflexivity.
  - cbn [app tp_split]. assert ((c =? sep) = false) as -> by (cbn [In] in Hn; lia).
    rewrite IH by (cbn [In] in Hn; tauto). reflexivity.
Qed.

Lemma tp_split_last sep t : ~ In sep t -> tp_split sep t = [t].
Proof.
  induction t as [|c t IH]; intros Hn; [reflexivity|].
  cbn [tp_split]. assert ((c =? sep) = false) as -> by (cbn [In] in Hn; lia).
  rewrite IH by (cbn [In] in Hn; tauto). reflexivity.
Qed.

Lemma tp_break_at c a : ~ In c a -> forall r, tp_break c (a ++ c :: r) = Some (a, r).
Proof.
  induction a as [|x a IH]; intros Hn r.
  - cbn [app tp_break]. rewrite Z.eqb_refl. reflexivity.
  - cbn [app tp_break]. assert ((x =? c) = false) as -> by (cbn [In] in Hn; lia).
    rewrite IH by (cbn [In] in Hn; tauto). reflexivity.
Qed.

Lemma tp_break_none c a : ~ In c a -> tp_break c a = None.
Proof.
  induction a as [|x a IH]; intros Hn; [reflexivity|].
  cbn [tp_break]. assert ((x =? c) = false) as -> by (cbn [In] in Hn; lia).
  rewrite IH by (cbn [In] in Hn; tauto). reflexivity.
Qed.

(* every '-' is immediately followed by a character that is not a blank (and is not the last character) *)
Fixpoint tp_dash_ok (s : list Z) : bool :=
  match s with
  | [] => true
  | x :: r => (if x =? 45 then match r with y :: _ => negb (y =? 32) | [] => false end else true) && tp_dash_ok r
  end.

Lemma tp_dash_ok_app a : forall b, tp_dash_ok a = true -> tp_dash_ok b = true -> tp_dash_ok (a ++ b) = true.
Proof.
  induction a as [|x a IH]; intros b Ha Hb; [exact Hb|].
  cbn [app tp_dash_ok] in *. apply andb_prop in Ha. destruct Ha as [H1 H2].
  rewrite IH by assumption. rewrite andb_true_r.
  destruct (x =? 45); [|reflexivity]. destruct a as [|y a']; [discriminate|exact H1].
Qed.

Lemma tp_break_dashsp_none s : tp_dash_ok s = true -> tp_break_dashsp s = None /\ tp_break_dashsp (s ++ [32]) = None.
Proof.
  induction s as [|x s IH]; intros H; [split; reflexivity|].
  cbn [tp_dash_ok] in H. apply andb_prop in H. destruct H as [H1 H2]. destruct (IH H2) as [I1 I2].
  cbn [app tp_break_dashsp]. rewrite I1, I2.
  destruct (x =? 45) eqn:C; cbn [andb]; [|split; reflexivity].
  destruct s as [|y s']; [discriminate|]. cbn [app]. destruct (y =? 32); [discriminate|]. split; reflexivity.
Qed.

Lemma tp_break_dashsp_at s : tp_dash_ok s = true -> forall r,
  tp_break_dashsp (s ++ 32 :: 45 :: 32 :: r) = Some (s ++ [32], 32 :: r).
Proof.
  induction s as [|x s IH]; intros H r; [reflexivity|].
  cbn [tp_dash_ok] in H. apply andb_prop in H. destruct H as [H1 H2].
  cbn [app tp_break_dashsp]. rewrite IH by exact H2.
  destruct (x =? 45) eqn:C; cbn [andb]; [|reflexivity].
  destruct s as [|y s']; [discriminate|]. cbn [app]. destruct (y =? 32); [discriminate|]. reflexivity.
Qed.

(* the first / last character is not white space *)
Definition tp_hd_ok (s : list Z) : Prop := match s with c :: _ => tp_isspace c = false | [] => False end.

Lemma tp_ltrim_id s : tp_hd_ok s -> tp_ltrim s = s.
Proof. destruct s as [|c r]; [contradiction|]. cbn. intros ->. reflexivity. Qed.

Lemma tp_hd_ok_app s t : tp_hd_ok s -> tp_hd_ok (s ++ t).
Proof. destruct s; [contradiction|]. exact (fun H => H). Qed.

Lemma tp_trim_id s : tp_hd_ok s -> tp_hd_ok (rev s) -> tp_trim s = s.
Proof. intros H1 H2. unfold tp_trim. rewrite (tp_ltrim_id s H1), (tp_ltrim_id _ H2). apply rev_involutive. Qed.

Lemma tp_trim_sp_l s : tp_trim (32 :: s) = tp_trim s.
Proof. reflexivity. Qed.

Lemma tp_trim_sp_r s : tp_hd_ok s -> tp_trim (s ++ [32]) = tp_trim s.
Proof.
  intros H. unfold tp_trim. rewrite (tp_ltrim_id _ (tp_hd_ok_app s [32] H)), (tp_ltrim_id s H).
  rewrite rev_app_distr. reflexivity.
Qed.

(* ---------------- blank-separated tokens ---------------- *)

Fixpoint tp_join (toks : list (list Z)) : list Z :=
  match toks with
  | [] => []
  | [t] => t
  | t :: r => t ++ 32 :: tp_join r
  end.

(* a token: not empty, plain characters *)
Definition tp_tok (t : list Z) : Prop := t <> [] /\ tp_plain t.

Lemma tp_plain_no_space t : tp_plain t -> ~ In 32 t.
Proof. intros H. apply (tp_plain_not 32 t H). reflexivity. Qed.

Lemma tp_split_join toks : toks <> [] -> Forall tp_tok toks -> tp_split 32 (tp_join toks) = toks.
Proof.
  induction toks as [|t r IH]; intros Hne H; [congruence|].
  inversion H as [|? ? [Ht1 Ht2] Hr]; subst.
  destruct r as [|t' r'].
  - cbn [tp_join]. apply tp_split_last. apply tp_plain_no_space. exact Ht2.
  - change (tp_join (t :: t' :: r')) with (t ++ 32 :: tp_join (t' :: r')).
    rewrite tp_split_token by (apply tp_plain_no_space; exact Ht2).
    rewrite IH; [reflexivity|discriminate|exact Hr].
Qed.

Lemma tp_plain_hd t : tp_tok t -> tp_hd_ok t.
Proof.
  intros [H1 H2]. destruct t as [|c r]; [congruence|]. inversion H2; subst. cbn.
  unfold tp_plain_char, tp_isdigit, tp_isspace in *. lia.
Qed.

Lemma tp_plain_rev t : tp_plain t -> tp_plain (rev t).
Proof. intros H. apply Forall_rev. exact H. Qed.

Lemma tp_join_hd toks : toks <> [] -> Forall tp_tok toks -> tp_hd_ok (tp_join toks) /\ tp_hd_ok (rev (tp_join toks)).
Proof.
  induction toks as [|t r IH]; intros Hne H; [congruence|].
  inversion H as [|? ? Ht Hr]; subst.
  destruct r as [|t' r'].
  - cbn [tp_join]. split; [apply tp_plain_hd; exact Ht|].
    apply tp_plain_hd. destruct Ht as [H1 H2]. split; [|apply tp_plain_rev; exact H2].
    intros E. apply H1. rewrite <- (rev_involutive t), E. reflexivity.
  - change (tp_join (t :: t' :: r')) with (t ++ 32 :: tp_join (t' :: r')).
    destruct (IH ltac:(discriminate) Hr) as [I1 I2]. split.
    + apply tp_hd_ok_app. apply tp_plain_hd. exact Ht.
    + rewrite rev_app_distr. cbn [rev]. rewrite <- app_assoc. apply tp_hd_ok_app. exact I2.
Qed.

Lemma tp_trim_join toks : toks <> [] -> Forall tp_tok toks -> tp_trim (tp_join toks) = tp_join toks.
Proof. intros Hne H. destruct (tp_join_hd toks Hne H). apply tp_trim_id; assumption. Qed.

Lemma tp_join_plain_or_space toks c : Forall tp_tok toks -> In c (tp_join toks) -> c = 32 \/ tp_plain_char c = true.
Proof.
  induction toks as [|t r IH]; intros H Hin; [contradiction|].
  inversion H as [|? ? [Ht1 Ht2] Hr]; subst.
  destruct r as [|t' r'].
  - right. cbn [tp_join] in Hin. unfold tp_plain in Ht2. rewrite Forall_forall in Ht2. apply Ht2. exact Hin.
  - change (tp_join (t :: t' :: r')) with (t ++ 32 :: tp_join (t' :: r')) in Hin.
    apply in_app_or in Hin. destruct Hin as [Hin|[Hin|Hin]].
    + right. unfold tp_plain in Ht2. rewrite Forall_forall in Ht2. apply Ht2. exact Hin.
    + left. congruence.
    + apply IH; assumption.
Qed.

Lemma tp_join_no_slash toks : Forall tp_tok toks -> ~ In 47 (tp_join toks).
Proof. intros H Hin. destruct (tp_join_plain_or_space toks 47 H Hin) as [E|E]; discriminate. Qed.

(* first word of a token list: FindFirstOf(' ') *)
Lemma tp_break_join t r : tp_tok t -> Forall tp_tok r ->
  tp_break 32 (tp_join (t :: r)) = match r with [] => None | _ => Some (t, tp_join r) end.
Proof.
  intros [Ht1 Ht2] Hr. destruct r as [|t' r'].
  - cbn [tp_join]. apply tp_break_none. apply tp_plain_no_space. exact Ht2.
  - change (tp_join (t :: t' :: r')) with (t ++ 32 :: tp_join (t' :: r')).
    apply tp_break_at. apply tp_plain_no_space. exact Ht2.
Qed.

(* every '-' of a token is followed by a digit: true of printed numbers, names and dates *)
Fixpoint tp_dash_digit (s : list Z) : bool :=
  match s with
  | [] => true
  | x :: r => (if x =? 45 then match r with y :: _ => tp_isdigit y | [] => false end else true) && tp_dash_digit r
  end.

Lemma tp_dash_digit_ok s : tp_dash_digit s = true -> tp_dash_ok s = true.
Proof.
  induction s as [|x s IH]; intros H; [reflexivity|].
  cbn [tp_dash_digit tp_dash_ok] in *. apply andb_prop in H. destruct H as [H1 H2]. rewrite (IH H2), andb_true_r.
  destruct (x =? 45); [|reflexivity]. destruct s as [|y s']; [discriminate|]. unfold tp_isdigit in H1. lia.
Qed.

Lemma tp_dash_digit_digits s : tp_alldigits s -> tp_dash_digit s = true.
Proof.
  induction 1 as [|c r Hc Hr IH]; [reflexivity|]. cbn [tp_dash_digit]. rewrite IH.
  assert ((c =? 45) = false) as -> by lia. reflexivity.
Qed.

Lemma tp_dash_digit_print_int z : tp_dash_digit (tp_print_int z) = true.
Proof.
  unfold tp_print_int. destruct (z <? 0) eqn:C.
  - destruct (tp_dec_head (- z) ltac:(lia)) as (d & ds & E & Hd).
    pose proof (tp_dec_ok (- z) ltac:(lia)) as (_ & Hall & _). rewrite E in *.
    cbn [tp_dash_digit]. change (45 =? 45) with true. cbv iota.
    unfold tp_isdigit at 1. assert (((48 <=? d) && (d <=? 57)) = true) as -> by lia. cbn [andb].
    apply (tp_dash_digit_digits (d :: ds)). exact Hall.
  - apply tp_dash_digit_digits. apply (tp_dec_ok z). lia.
Qed.

Lemma tp_dash_ok_join toks : Forall (fun t => tp_dash_digit t = true) toks -> tp_dash_ok (tp_join toks) = true.
Proof.
  induction toks as [|t r IH]; intros H; [reflexivity|].
  inversion H as [|? ? Ht Hr]; subst.
  destruct r as [|t' r'].
  - cbn [tp_join]. apply tp_dash_digit_ok. exact Ht.
  - change (tp_join (t :: t' :: r')) with (t ++ 32 :: tp_join (t' :: r')).
    apply tp_dash_ok_app; [apply tp_dash_digit_ok; exact Ht|].
    cbn [tp_dash_ok]. change (32 =? 45) with false. cbn [andb]. apply IH. exact Hr.
Qed.

(* the number of '-' in a string; the date form of ParseTimeSpec needs two *)
Fixpoint tp_count45 (s : list Z) : Z := match s with [] => 0 | x :: r => (if x =? 45 then 1 else 0) + tp_count45 r end.

Lemma tp_count45_app a b : tp_count45 (a ++ b) = tp_count45 a + tp_count45 b.
Proof. induction a as [|x a IH]; [reflexivity|]. cbn [app tp_count45]. rewrite IH. lia. Qed.

Lemma tp_count45_nonneg s : 0 <= tp_count45 s.
Proof. induction s as [|x s IH]; [reflexivity|]. cbn [tp_count45]. destruct (x =? 45); lia. Qed.

Lemma tp_count45_digits s : tp_alldigits s -> tp_count45 s = 0.
Proof. induction 1 as [|c r Hc Hr IH]; [reflexivity|]. cbn [tp_count45]. rewrite IH. assert ((c =? 45) = false) as -> by lia. reflexivity. Qed.

Lemma tp_count45_print_int z : tp_count45 (tp_print_int z) <= 1.
Proof.
  unfold tp_print_int. destruct (z <? 0) eqn:C.
  - cbn [tp_count45]. rewrite tp_count45_digits by (apply (tp_dec_ok (- z)); lia). reflexivity.
  - rewrite tp_count45_digits by (apply (tp_dec_ok z); lia). lia.
Qed.

Lemma tp_date_test_needs_two s : (nth 4 s 0 =? 45) && (nth 7 s 0 =? 45) = true -> 2 <= tp_count45 s.
Proof.
  intros H. apply andb_prop in H. destruct H as [H4 H7].
  destruct s as [|a0 [|a1 [|a2 [|a3 [|a4 [|a5 [|a6 [|a7 r]]]]]]]]; cbn [nth] in *; try discriminate.
  cbn [tp_count45]. rewrite H4, H7. pose proof (tp_count45_nonneg r).
  destruct (a0 =? 45), (a1 =? 45), (a2 =? 45), (a3 =? 45), (a5 =? 45), (a6 =? 45); lia.
Qed.

(* ---------------- the printer (vlib/p_c08.py: spec_str) ---------------- *)

Definition tp_wday_name (wd : Z) : list Z := nth (Z.to_nat wd) tp_wday_names [].
Definition tp_month_name (m : Z) : list Z := nth (Z.to_nat m) tp_month_names [].
Definition tp_pad2 (m : Z) : list Z := [48 + m / 10; 48 + m mod 10].
Definition tp_pad4 (y : Z) : list Z := [48 + y / 1000; 48 + (y / 100) mod 10; 48 + (y / 10) mod 10; 48 + y mod 10].

Definition tp_spec_toks (sp : tp_spec) : list (list Z) :=
  match sp with
  | TpDate y m d => [tp_pad4 y ++ 45 :: tp_pad2 m ++ 45 :: tp_pad2 d]
  | TpMonthDay None n => [tp_kw_day; tp_print_int n]
  | TpMonthDay (Some m) n => [tp_month_name m; tp_print_int n]
  | TpWeekday wd None _ => [tp_wday_name wd]
  | TpWeekday wd (Some n) None => [tp_wday_name wd; tp_print_int n]
  | TpWeekday wd (Some n) (Some m) => [tp_wday_name wd; tp_print_int n; tp_month_name m]
  end.
Definition tp_print_spec (sp : tp_spec) : list Z := tp_join (tp_spec_toks sp).

Definition tp_int32 (z : Z) : Prop := -2147483648 <= z < 2147483648.

Definition tp_spec_wf (sp : tp_spec) : Prop :=
  match sp with
  | TpDate y m d => 0 <= y <= 9999 /\ 1 <= m <= 12 /\ 1 <= d <= 31
  | TpMonthDay mon n => match mon with Some m => 0 <= m <= 11 | None => True end /\ tp_int32 n
  | TpWeekday wd nth mon =>
      0 <= wd <= 6 /\
      match nth with
      | None => mon = None
      | Some n => n <> 0 /\ tp_int32 n /\ match mon with Some m => 0 <= m <= 11 | None => True end
      end
  end.

(* facts about the 20 names, by computation per name *)
Definition tp_name_ok (nm : list Z) : bool :=
  negb (tp_beq nm []) && forallb tp_plain_char nm && tp_dash_digit nm && (tp_count45 nm =? 0)
  && negb (tp_beq nm tp_kw_day || false)
  && match tp_to_long nm with None => true | Some _ => false end.

Lemma tp_forallb_plain s : forallb tp_plain_char s = true -> tp_plain s.
Proof. intros H. unfold tp_plain. rewrite Forall_forall. apply forallb_forall. exact H. Qed.

Lemma tp_beq_nil_false s : tp_beq s [] = false -> s <> [].
Proof. intros H ->. discriminate. Qed.

Ltac tp_month_cases m H :=
  assert (m = 0 \/ m = 1 \/ m = 2 \/ m = 3 \/ m = 4 \/ m = 5 \/ m = 6 \/ m = 7 \/ m = 8 \/ m = 9 \/ m = 10 \/ m = 11) as H by lia;
  destruct H as [->|[->|[->|[->|[->|[->|[->|[->|[->|[->|[->| ->]]]]]]]]]]].
Ltac tp_wday_cases wd H :=
  assert (wd = 0 \/ wd = 1 \/ wd = 2 \/ wd = 3 \/ wd = 4 \/ wd = 5 \/ wd = 6) as H by lia;
  destruct H as [->|[->|[->|[->|[->|[->| ->]]]]]].

Lemma tp_month_name_ok m : 0 <= m <= 11 ->
  tp_name_ok (tp_month_name m) = true /\ tp_month_of (tp_month_name m) = Some m /\ tp_wday_of (tp_month_name m) = None.
Proof. intros Hm. tp_month_cases m H; vm_compute; repeat split; reflexivity. Qed.

Lemma tp_wday_name_ok wd : 0 <= wd <= 6 ->
  tp_name_ok (tp_wday_name wd) = true /\ tp_wday_of (tp_wday_name wd) = Some wd /\ tp_month_of (tp_wday_name wd) = None.
Proof. intros Hm. tp_wday_cases wd H; vm_compute; repeat split; reflexivity. Qed.

Lemma tp_name_ok_elim nm : tp_name_ok nm = true ->
  tp_tok nm /\ tp_dash_digit nm = true /\ tp_count45 nm = 0 /\ tp_beq nm tp_kw_day = false /\ tp_to_long nm = None.
Proof.
  unfold tp_name_ok. intros H.
  apply andb_prop in H. destruct H as [H H6]. apply andb_prop in H. destruct H as [H H5].
  apply andb_prop in H. destruct H as [H H4]. apply andb_prop in H. destruct H as [H H3].
  apply andb_prop in H. destruct H as [H1 H2].
  split; [split; [apply tp_beq_nil_false; destruct (tp_beq nm []); [discriminate|reflexivity]|apply tp_forallb_plain; exact H2]|].
  split; [exact H3|]. split; [lia|]. split.
  - rewrite orb_false_r in H5. destruct (tp_beq nm tp_kw_day); [discriminate|reflexivity].
  - destruct (tp_to_long nm); [discriminate|reflexivity].
Qed.

Lemma tp_tok_print_int z : tp_tok (tp_print_int z).
Proof. split; [apply tp_print_int_nonempty|apply tp_plain_print_int]. Qed.

Lemma tp_kw_day_ok : tp_tok tp_kw_day /\ tp_dash_digit tp_kw_day = true /\ tp_count45 tp_kw_day = 0 /\ tp_to_long tp_kw_day = None.
Proof. split; [split; [discriminate|apply tp_forallb_plain; reflexivity]|]. repeat split; reflexivity. Qed.

(* the date string *)
Lemma tp_date_digits y m d : 0 <= y <= 9999 -> 1 <= m <= 12 -> 1 <= d <= 31 ->
  tp_alldigits (tp_pad4 y) /\ tp_alldigits (tp_pad2 m) /\ tp_alldigits (tp_pad2 d).
Proof.
  intros Hy Hm Hd. unfold tp_pad4, tp_pad2, tp_alldigits.
  repeat split; repeat (constructor; [lia|]); constructor.
Qed.

Definition tp_date_str (y m d : Z) : list Z := tp_pad4 y ++ 45 :: tp_pad2 m ++ 45 :: tp_pad2 d.

Lemma tp_to_long_int_digits s v : tp_alldigits s -> s <> [] -> tp_dval 0 s = Some v -> 0 <= v < 2147483648 ->
  tp_to_long_int s = Some v.
Proof.
  intros Hd Hne Hv Hb. unfold tp_to_long_int, tp_to_long. destruct s as [|c r]; [congruence|].
  inversion Hd; subst. assert ((c =? 45) = false) as -> by lia. assert ((c =? 43) = false) as -> by lia.
  unfold tp_digits_val. rewrite Hv. unfold tp_bounded. assert ((v <=? 9223372036854775807) = true) as -> by lia.
  cbn [option_map]. rewrite tp_to_int_id by lia. reflexivity.
Qed.

Lemma tp_pad2_val m : 0 <= m <= 99 -> tp_to_long_int (tp_pad2 m) = Some m.
Proof.
  intros Hm. apply tp_to_long_int_digits; [|discriminate| |lia].
  - unfold tp_pad2, tp_alldigits. repeat (constructor; [lia|]). constructor.
  - unfold tp_pad2. cbn [tp_dval]. unfold tp_isdigit.
    assert (((48 <=? 48 + m / 10) && (48 + m / 10 <=? 57)) = true) as -> by lia.
    assert (((48 <=? 48 + m mod 10) && (48 + m mod 10 <=? 57)) = true) as -> by lia.
    f_equal. lia.
Qed.

Lemma tp_pad4_val y : 0 <= y <= 9999 -> tp_to_long_int (tp_pad4 y) = Some y.
Proof.
  intros Hy. apply tp_to_long_int_digits; [|discriminate| |lia].
  - unfold tp_pad4, tp_alldigits. repeat (constructor; [lia|]). constructor.
  - unfold tp_pad4. cbn [tp_dval]. unfold tp_isdigit.
    assert (((48 <=? 48 + y / 1000) && (48 + y / 1000 <=? 57)) = true) as -> by lia.
    assert (((48 <=? 48 + (y / 100) mod 10) && (48 + (y / 100) mod 10 <=? 57)) = true) as -> by lia.
    assert (((48 <=? 48 + (y / 10) mod 10) && (48 + (y / 10) mod 10 <=? 57)) = true) as -> by lia.
    assert (((48 <=? 48 + y mod 10) && (48 + y mod 10 <=? 57)) = true) as -> by lia.
    f_equal. lia.
Qed.

Lemma tp_parse_date y m d : 0 <= y <= 9999 -> 1 <= m <= 12 -> 1 <= d <= 31 ->
  tp_parse_spec (tp_date_str y m d) = Some (TpDate y m d).
Proof.
  intros Hy Hm Hd. unfold tp_parse_spec, tp_date_str.
  change (tp_is_date_form (tp_pad4 y ++ 45 :: tp_pad2 m ++ 45 :: tp_pad2 d)) with true. cbv iota.
  change (tp_sub 0 4 (tp_pad4 y ++ 45 :: tp_pad2 m ++ 45 :: tp_pad2 d)) with (tp_pad4 y).
  change (tp_sub 5 2 (tp_pad4 y ++ 45 :: tp_pad2 m ++ 45 :: tp_pad2 d)) with (tp_pad2 m).
  change (tp_sub 8 2 (tp_pad4 y ++ 45 :: tp_pad2 m ++ 45 :: tp_pad2 d)) with (tp_pad2 d).
  rewrite tp_pad4_val, !tp_pad2_val by lia.
  assert (((m <? 1) || (12 <? m)) = false) as -> by lia.
  assert (((d <? 1) || (31 <? d)) = false) as -> by lia. reflexivity.
Qed.

(* the date string as a token: plain, every '-' before a digit, not a number *)
Lemma tp_date_tok y m d : 0 <= y <= 9999 -> 1 <= m <= 12 -> 1 <= d <= 31 ->
  tp_tok (tp_date_str y m d) /\ tp_dash_digit (tp_date_str y m d) = true /\ tp_to_long (tp_date_str y m d) = None.
Proof.
  intros Hy Hm Hd. destruct (tp_date_digits y m d Hy Hm Hd) as (D4 & D2 & D2').
  split; [split|split].
  - unfold tp_date_str, tp_pad4. discriminate.
  - unfold tp_date_str. apply tp_plain_app; [apply tp_plain_digits; exact D4|].
    constructor; [reflexivity|]. apply tp_plain_app; [apply tp_plain_digits; exact D2|].
    constructor; [reflexivity|]. apply tp_plain_digits; exact D2'.
  - unfold tp_date_str, tp_pad4, tp_pad2 in *. cbn [app tp_dash_digit]. unfold tp_isdigit.
    inversion D4 as [|? ? A0 D4a]; inversion D4a as [|? ? A1 D4b]; inversion D4b as [|? ? A2 D4c]; inversion D4c as [|? ? A3 _]; subst.
    inversion D2 as [|? ? B0 D2a]; inversion D2a as [|? ? B1 _]; subst.
    inversion D2' as [|? ? C0 D2b]; inversion D2b as [|? ? C1 _]; subst.
    change (45 =? 45) with true.
    repeat match goal with |- context [?a =? 45] => assert ((a =? 45) = false) as -> by lia end.
    cbn [andb]. lia.
  - unfold tp_date_str, tp_pad4, tp_to_long. cbn [app].
    inversion D4 as [|? ? A0 D4a]; inversion D4a as [|? ? A1 D4b]; inversion D4b as [|? ? A2 D4c]; inversion D4c as [|? ? A3 _]; subst.
    assert ((48 + y / 1000 =? 45) = false) as -> by lia. assert ((48 + y / 1000 =? 43) = false) as -> by lia.
    unfold tp_digits_val. cbn [tp_dval]. unfold tp_isdigit.
    assert (((48 <=? 48 + y / 1000) && (48 + y / 1000 <=? 57)) = true) as -> by lia.
    assert (((48 <=? 48 + (y / 100) mod 10) && (48 + (y / 100) mod 10 <=? 57)) = true) as -> by lia.
    assert (((48 <=? 48 + (y / 10) mod 10) && (48 + (y / 10) mod 10 <=? 57)) = true) as -> by lia.
    assert (((48 <=? 48 + y mod 10) && (48 + y mod 10 <=? 57)) = true) as -> by lia.
    reflexivity.
Qed.

Lemma tp_F1 {A} (P : A -> Prop) a : P a -> Forall P [a].
Proof. intros. constructor; [assumption|constructor]. Qed.
Lemma tp_F2 {A} (P : A -> Prop) a b : P a -> P b -> Forall P [a; b].
Proof. intros. constructor; [assumption|apply tp_F1; assumption]. Qed.
Lemma tp_F3 {A} (P : A -> Prop) a b c : P a -> P b -> P c -> Forall P [a; b; c].
Proof. intros. constructor; [assumption|apply tp_F2; assumption]. Qed.

(* the tokens of a printed specification *)
Lemma tp_spec_toks_ok sp : tp_spec_wf sp ->
  tp_spec_toks sp <> [] /\ Forall tp_tok (tp_spec_toks sp) /\ Forall (fun t => tp_dash_digit t = true) (tp_spec_toks sp) /\
  tp_to_long (hd [] (tp_spec_toks sp)) = None.
Proof.
  destruct sp as [y m d|mon n|wd nth mon]; cbn [tp_spec_wf tp_spec_toks].
  - intros (Hy & Hm & Hd). destruct (tp_date_tok y m d Hy Hm Hd) as (T & D & L).
    split; [discriminate|]. split; [apply tp_F1; exact T|]. split; [apply tp_F1; exact D|exact L].
  - intros [Hmon Hn]. destruct mon as [m|].
    + destruct (tp_month_name_ok m Hmon) as (Hok & _). destruct (tp_name_ok_elim _ Hok) as (T & D & _ & _ & L).
      split; [discriminate|]. split; [apply tp_F2; [exact T|apply tp_tok_print_int]|].
      split; [apply tp_F2; [exact D|apply tp_dash_digit_print_int]|exact L].
    + destruct tp_kw_day_ok as (T & D & _ & L).
      split; [discriminate|]. split; [apply tp_F2; [exact T|apply tp_tok_print_int]|].
      split; [apply tp_F2; [exact D|apply tp_dash_digit_print_int]|exact L].
  - intros [Hwd Hrest]. destruct (tp_wday_name_ok wd Hwd) as (Hok & _). destruct (tp_name_ok_elim _ Hok) as (T & D & _ & _ & L).
    destruct nth as [n|].
    + destruct Hrest as (Hn0 & Hn & Hmon). destruct mon as [m|].
      * destruct (tp_month_name_ok m Hmon) as (Hokm & _). destruct (tp_name_ok_elim _ Hokm) as (Tm & Dm & _).
        split; [discriminate|].
        split; [apply tp_F3; [exact T|apply tp_tok_print_int|exact Tm]|].
        split; [apply tp_F3; [exact D|apply tp_dash_digit_print_int|exact Dm]|exact L].
      * split; [discriminate|]. split; [apply tp_F2; [exact T|apply tp_tok_print_int]|].
        split; [apply tp_F2; [exact D|apply tp_dash_digit_print_int]|exact L].
    + split; [discriminate|]. split; [apply tp_F1; exact T|]. split; [apply tp_F1; exact D|exact L].
Qed.

(* a printed specification other than a date has at most one '-': the date form is not taken for it *)
Lemma tp_not_date_form s : tp_count45 s <= 1 -> tp_is_date_form s = false.
Proof.
  intros H. unfold tp_is_date_form. destruct (Nat.eqb (length s) 10); [|reflexivity]. cbn [andb].
  destruct ((nth 4 s 0 =? 45) && (nth 7 s 0 =? 45)) eqn:E; [|reflexivity].
  apply tp_date_test_needs_two in E. lia.
Qed.

Theorem tp_parse_print_spec sp : tp_spec_wf sp -> tp_parse_spec (tp_print_spec sp) = Some sp.
Proof.
  intros Hwf. pose proof (tp_spec_toks_ok sp Hwf) as (Hne & Htok & _ & _).
  destruct sp as [y m d|mon n|wd nth mon]; cbn [tp_spec_wf] in Hwf.
  - destruct Hwf as (Hy & Hm & Hd). apply tp_parse_date; assumption.
  - destruct Hwf as [Hmon Hn]. unfold tp_parse_spec.
    assert (tp_is_date_form (tp_print_spec (TpMonthDay mon n)) = false) as ->.
    { apply tp_not_date_form. unfold tp_print_spec. destruct mon as [m|]; cbn [tp_spec_toks tp_join]; rewrite tp_count45_app; cbn [tp_count45];
        change (32 =? 45) with false; pose proof (tp_count45_print_int n).
      - destruct (tp_month_name_ok m Hmon) as (Hok & _). destruct (tp_name_ok_elim _ Hok) as (_ & _ & C & _). lia.
      - destruct tp_kw_day_ok as (_ & _ & C & _). lia. }
    unfold tp_print_spec. rewrite tp_split_join by assumption. destruct mon as [m|]; cbn [tp_spec_toks].
    + destruct (tp_month_name_ok m Hmon) as (Hok & Hmo & _). destruct (tp_name_ok_elim _ Hok) as (_ & _ & _ & B & _).
      unfold tp_parse_spec_tokens. cbn [hd]. rewrite B, Hmo, tp_to_long_int_print by exact Hn. reflexivity.
    + unfold tp_parse_spec_tokens. cbn [hd]. change (tp_beq tp_kw_day tp_kw_day) with true. cbv iota.
      rewrite tp_to_long_int_print by exact Hn. reflexivity.
  - destruct Hwf as [Hwd Hrest]. unfold tp_parse_spec.
    destruct (tp_wday_name_ok wd Hwd) as (Hok & Hwo & Hmo). destruct (tp_name_ok_elim _ Hok) as (_ & _ & C & B & _).
    assert (tp_is_date_form (tp_print_spec (TpWeekday wd nth mon)) = false) as ->.
    { apply tp_not_date_form. unfold tp_print_spec. destruct nth as [n|]; [destruct mon as [m|]|]; cbn [tp_spec_toks tp_join];
        rewrite ?tp_count45_app; cbn [tp_count45]; rewrite ?tp_count45_app; cbn [tp_count45]; change (32 =? 45) with false.
      - destruct Hrest as (_ & _ & Hmon). destruct (tp_month_name_ok m Hmon) as (Hokm & _).
        destruct (tp_name_ok_elim _ Hokm) as (_ & _ & Cm & _). pose proof (tp_count45_print_int n). lia.
      - pose proof (tp_count45_print_int n). lia.
      - lia. }
    unfold tp_print_spec. rewrite tp_split_join by assumption.
    unfold tp_parse_spec_tokens. destruct nth as [n|]; [destruct mon as [m|]|]; cbn [tp_spec_toks hd].
    + destruct Hrest as (Hn0 & Hn & Hmon). destruct (tp_month_name_ok m Hmon) as (_ & Hmm & _).
      rewrite B, Hmo, Hwo, Hmm, tp_to_long_int_print by exact Hn. assert ((n =? 0) = false) as -> by lia. reflexivity.
    + destruct Hrest as (Hn0 & Hn & _).
      rewrite B, Hmo, Hwo, tp_to_long_int_print by exact Hn. assert ((n =? 0) = false) as -> by lia. reflexivity.
    + rewrite Hwo. rewrite Hrest. reflexivity.
Qed.

(* ---------------- day definitions (vlib/p_c08.py: daydef) ---------------- *)

(* "day 1 - 15", "monday 1 - 3": the second specification may be written as its number only *)
Definition tp_short_num (sp : tp_spec) : option Z :=
  match sp with
  | TpMonthDay _ n => Some n
  | TpWeekday _ (Some n) None => Some n
  | _ => None
  end.

Definition tp_print_last (short : bool) (l : tp_spec) : list Z :=
  if short then match tp_short_num l with Some n => tp_print_int n | None => tp_print_spec l end else tp_print_spec l.

Definition tp_print_daydef (short : bool) (dd : tp_dayrange) : list Z :=
  (tp_print_spec (tp_dr_first dd) ++
   match tp_dr_last dd with
   | None => []
   | Some l => 32 :: 45 :: 32 :: tp_print_last short l
   end) ++
  (if tp_dr_stride dd =? 1 then [] else 32 :: 47 :: 32 :: tp_print_int (tp_dr_stride dd)).

(* well-formed: both specifications are; a stride is only written after a range; the short form is only used when the
   first specification has a second word and both begin with the same word *)
Definition tp_daydef_wf (short : bool) (dd : tp_dayrange) : Prop :=
  tp_spec_wf (tp_dr_first dd) /\ tp_int32 (tp_dr_stride dd) /\
  match tp_dr_last dd with
  | None => tp_dr_stride dd = 1
  | Some l =>
      tp_spec_wf l /\
      (short = true -> forall n, tp_short_num l = Some n ->
         exists t0 t1 r, tp_spec_toks (tp_dr_first dd) = t0 :: t1 :: r /\ tp_spec_toks l = [t0; tp_print_int n])
  end.

Lemma tp_no_slash_plain s : tp_plain s -> ~ In 47 s.
Proof. intros H. apply (tp_plain_not 47 s H). reflexivity. Qed.

Lemma tp_print_spec_props sp : tp_spec_wf sp ->
  ~ In 47 (tp_print_spec sp) /\ tp_dash_ok (tp_print_spec sp) = true /\
  tp_trim (tp_print_spec sp) = tp_print_spec sp /\ tp_hd_ok (tp_print_spec sp).
Proof.
  intros Hwf. destruct (tp_spec_toks_ok sp Hwf) as (Hne & Htok & Hdd & _). unfold tp_print_spec.
  split; [apply tp_join_no_slash; exact Htok|]. split; [apply tp_dash_ok_join; exact Hdd|].
  split; [apply tp_trim_join; assumption|apply tp_join_hd; assumption].
Qed.

Lemma tp_print_int_props z :
  ~ In 47 (tp_print_int z) /\ tp_trim (tp_print_int z) = tp_print_int z /\ tp_hd_ok (tp_print_int z).
Proof.
  pose proof (tp_tok_print_int z) as T.
  split; [apply tp_no_slash_plain; apply T|].
  change (tp_print_int z) with (tp_join [tp_print_int z]).
  split; [apply tp_trim_join; [discriminate|apply tp_F1; exact T]|apply tp_join_hd; [discriminate|apply tp_F1; exact T]].
Qed.

(* the second part as the parser sees it: a list of tokens whose first word decides whether it is completed *)
Lemma tp_print_last_toks short first l : tp_spec_wf first -> tp_spec_wf l ->
  (short = true -> forall n, tp_short_num l = Some n ->
     exists t0 t1 r, tp_spec_toks first = t0 :: t1 :: r /\ tp_spec_toks l = [t0; tp_print_int n]) ->
  exists ltoks, tp_print_last short l = tp_join ltoks /\ ltoks <> [] /\ Forall tp_tok ltoks /\
    tp_parse_spec
      (match tp_to_long (hd [] ltoks) with
       | Some _ => (match tp_break 32 (tp_print_spec first) with Some (w, _) => w ++ [32] | None => [] end) ++ tp_join ltoks
       | None => tp_join ltoks
       end) = Some l.
Proof.
  intros Hf Hl Hshort. unfold tp_print_last.
  destruct (tp_spec_toks_ok l Hl) as (Lne & Ltok & _ & Lnum).
  assert (exists ltoks, tp_print_spec l = tp_join ltoks /\ ltoks <> [] /\ Forall tp_tok ltoks /\
            tp_parse_spec (match tp_to_long (hd [] ltoks) with
                           | Some _ => (match tp_break 32 (tp_print_spec first) with Some (w, _) => w ++ [32] | None => [] end) ++ tp_join ltoks
                           | None => tp_join ltoks end) = Some l) as Full.
  { exists (tp_spec_toks l). split; [reflexivity|]. split; [exact Lne|]. split; [exact Ltok|].
    rewrite Lnum. apply tp_parse_print_spec. exact Hl. }
  destruct short; [|exact Full]. destruct (tp_short_num l) as [n|] eqn:E; [|exact Full].
  destruct (Hshort eq_refl n eq_refl) as (t0 & t1 & r & Ef & El).
  assert (tp_int32 n) as Hn.
  { destruct l as [| mon k | wd [k|] [m|]]; cbn [tp_short_num] in E; try discriminate; inversion E; subst; cbn [tp_spec_wf] in Hl; tauto. }
  exists [tp_print_int n]. split; [reflexivity|]. split; [discriminate|]. split; [apply tp_F1; apply tp_tok_print_int|].
  cbn [hd]. rewrite tp_to_long_print by exact Hn.
  destruct (tp_spec_toks_ok first Hf) as (_ & Ftok & _). unfold tp_print_spec at 1. rewrite Ef in *.
  inversion Ftok as [|? ? T0 Frest]; subst.
  rewrite (tp_break_join t0 (t1 :: r) T0 Frest).
  replace ((t0 ++ [32]) ++ tp_join [tp_print_int n]) with (tp_print_spec l).
  - apply tp_parse_print_spec. exact Hl.
  - unfold tp_print_spec. rewrite El. cbn [tp_join]. rewrite <- app_assoc. reflexivity.
Qed.

Lemma tp_parse_range_single sp k : tp_spec_wf sp ->
  tp_parse_range (tp_print_spec sp) k = Some {| tp_dr_first := sp; tp_dr_last := None; tp_dr_stride := k |}.
Proof.
  intros Hwf. destruct (tp_print_spec_props sp Hwf) as (_ & Hd & _). unfold tp_parse_range.
  rewrite (proj1 (tp_break_dashsp_none _ Hd)). rewrite tp_parse_print_spec by exact Hwf. reflexivity.
Qed.

Lemma tp_parse_range_pair short first l k post : tp_spec_wf first -> tp_spec_wf l ->
  (short = true -> forall n, tp_short_num l = Some n ->
     exists t0 t1 r, tp_spec_toks first = t0 :: t1 :: r /\ tp_spec_toks l = [t0; tp_print_int n]) ->
  post = [] \/ post = [32] ->
  tp_parse_range (tp_print_spec first ++ 32 :: 45 :: 32 :: tp_print_last short l ++ post) k =
  Some {| tp_dr_first := first; tp_dr_last := Some l; tp_dr_stride := k |}.
Proof.
  intros Hf Hl Hshort Hpost.
  destruct (tp_print_spec_props first Hf) as (_ & Fd & Ftrim & Fhd).
  destruct (tp_print_last_toks short first l Hf Hl Hshort) as (ltoks & EL & Lne & Ltok & Lparse).
  unfold tp_parse_range. rewrite (tp_break_dashsp_at _ Fd).
  rewrite (tp_trim_sp_r _ Fhd), Ftrim. rewrite tp_trim_sp_l.
  assert (tp_trim (tp_print_last short l ++ post) = tp_join ltoks) as ->.
  { rewrite EL. destruct Hpost as [->| ->].
    - rewrite app_nil_r. apply tp_trim_join; assumption.
    - rewrite tp_trim_sp_r by (apply tp_join_hd; assumption). apply tp_trim_join; assumption. }
  rewrite tp_parse_print_spec by exact Hf.
  assert ((match tp_break 32 (tp_join ltoks) with Some (w, _) => w | None => tp_join ltoks end) = hd [] ltoks) as ->.
  { destruct ltoks as [|t r]; [congruence|]. inversion Ltok as [|? ? T0 Lrest]; subst.
    rewrite (tp_break_join t r T0 Lrest). destruct r; reflexivity. }
  rewrite Lparse. reflexivity.
Qed.

Theorem tp_parse_print_daydef short dd : tp_daydef_wf short dd -> tp_parse_daydef (tp_print_daydef short dd) = Some dd.
Proof.
  destruct dd as [first last stride]. unfold tp_daydef_wf, tp_print_daydef. cbn [tp_dr_first tp_dr_last tp_dr_stride].
  intros (Hf & Hk & Hlast).
  destruct (tp_print_spec_props first Hf) as (Fns & _).
  destruct last as [l|].
  - destruct Hlast as [Hl Hshort].
    assert (~ In 47 (tp_print_last short l)) as Lns.
    { unfold tp_print_last. destruct short; [destruct (tp_short_num l)|]; try apply (tp_print_spec_props l Hl). apply tp_print_int_props. }
    assert (~ In 47 (tp_print_spec first ++ 32 :: 45 :: 32 :: tp_print_last short l)) as Ans.
    { intros Hin. apply in_app_or in Hin. destruct Hin as [Hin|Hin]; [tauto|].
      cbn [In] in Hin. destruct Hin as [E|[E|[E|Hin]]]; try discriminate. tauto. }
    unfold tp_parse_daydef. destruct (stride =? 1) eqn:C.
    + rewrite app_nil_r. rewrite tp_break_none by exact Ans.
      assert (stride = 1) as -> by lia.
      rewrite <- (app_nil_r (tp_print_last short l)). apply tp_parse_range_pair; try assumption. left. reflexivity.
    + replace ((tp_print_spec first ++ 32 :: 45 :: 32 :: tp_print_last short l) ++ 32 :: 47 :: 32 :: tp_print_int stride)
        with (((tp_print_spec first ++ 32 :: 45 :: 32 :: tp_print_last short l) ++ [32]) ++ 47 :: (32 :: tp_print_int stride))
        by (rewrite <- !app_assoc; reflexivity).
      rewrite tp_break_at.
      2: { intros Hin. apply in_app_or in Hin. destruct Hin as [Hin|[E|[]]]; [tauto|discriminate]. }
      rewrite tp_trim_sp_l. destruct (tp_print_int_props stride) as (_ & Itrim & _). rewrite Itrim.
      rewrite tp_to_long_int_print by exact Hk.
      replace ((tp_print_spec first ++ 32 :: 45 :: 32 :: tp_print_last short l) ++ [32])
        with (tp_print_spec first ++ 32 :: 45 :: 32 :: tp_print_last short l ++ [32])
        by (rewrite <- !app_assoc; reflexivity).
      apply tp_parse_range_pair; try assumption. right. reflexivity.
  - subst stride. cbn [Z.eqb Pos.eqb]. rewrite !app_nil_r. unfold tp_parse_daydef.
    rewrite tp_break_none by exact Fns. apply tp_parse_range_single. exact Hf.
Qed.

(* ---------------- time ranges (vlib/p_c08.py: fmt_tod, times_str) ---------------- *)

Fixpoint tp_joinc (c : Z) (toks : list (list Z)) : list Z :=
  match toks with
  | [] => []
  | [t] => t
  | t :: r => t ++ c :: tp_joinc c r
  end.

Lemma tp_split_joinc c toks : toks <> [] -> Forall (fun t => ~ In c t) toks -> tp_split c (tp_joinc c toks) = toks.
Proof.
  induction toks as [|t r IH]; intros Hne H; [congruence|].
  inversion H as [|? ? Ht Hr]; subst.
  destruct r as [|t' r'].
  - cbn [tp_joinc]. apply tp_split_last. exact Ht.
  - change (tp_joinc c (t :: t' :: r')) with (t ++ c :: tp_joinc c (t' :: r')).
    rewrite tp_split_token by exact Ht. rewrite IH; [reflexivity|discriminate|exact Hr].
Qed.

(* "%02d:%02d" and, when asked for or when the seconds are not 0, ":%02d" *)
Definition tp_print_tod (ws : bool) (t : Z) : list Z :=
  tp_pad2 (t / 3600) ++ 58 :: tp_pad2 ((t mod 3600) / 60) ++
  (if ws || negb (t mod 60 =? 0) then 58 :: tp_pad2 (t mod 60) else []).

Lemma tp_pad2_digits m : 0 <= m <= 99 -> tp_alldigits (tp_pad2 m).
Proof. intros H. unfold tp_pad2, tp_alldigits. repeat (constructor; [lia|]). constructor. Qed.

Lemma tp_digits_not_in c s : tp_alldigits s -> c < 48 \/ 57 < c -> ~ In c s.
Proof. intros H Hc Hin. unfold tp_alldigits in H. rewrite Forall_forall in H. specialize (H c Hin). lia. Qed.

Lemma tp_parse_print_tod ws t : 0 <= t < 360000 -> tp_parse_tod (tp_print_tod ws t) = Some t.
Proof.
  intros Ht. unfold tp_parse_tod, tp_print_tod.
  assert (0 <= t / 3600 <= 99) as Hh by lia.
  assert (0 <= (t mod 3600) / 60 <= 99) as Hm by lia.
  assert (0 <= t mod 60 <= 99) as Hs by lia.
  pose proof (tp_digits_not_in 58 _ (tp_pad2_digits _ Hh) ltac:(lia)) as N1.
  pose proof (tp_digits_not_in 58 _ (tp_pad2_digits _ Hm) ltac:(lia)) as N2.
  pose proof (tp_digits_not_in 58 _ (tp_pad2_digits _ Hs) ltac:(lia)) as N3.
  destruct (ws || negb (t mod 60 =? 0)) eqn:C.
  - rewrite tp_split_token by exact N1. rewrite tp_split_token by exact N2. rewrite tp_split_last by exact N3.
    rewrite !tp_pad2_val by lia. f_equal. lia.
  - rewrite app_nil_r. rewrite tp_split_token by exact N1. rewrite tp_split_last by exact N2.
    rewrite !tp_pad2_val by lia. f_equal. assert (t mod 60 = 0) by lia. lia.
Qed.

Lemma tp_print_tod_chars ws t c : 0 <= t < 360000 -> In c (tp_print_tod ws t) -> c = 58 \/ 48 <= c <= 57.
Proof.
  intros Ht Hin. unfold tp_print_tod in Hin.
  assert (0 <= t / 3600 <= 99) as Hh by lia.
  assert (0 <= (t mod 3600) / 60 <= 99) as Hm by lia.
  assert (0 <= t mod 60 <= 99) as Hs by lia.
  pose proof (tp_pad2_digits _ Hh) as D1. pose proof (tp_pad2_digits _ Hm) as D2. pose proof (tp_pad2_digits _ Hs) as D3.
  unfold tp_alldigits in *. rewrite Forall_forall in D1, D2, D3.
  apply in_app_or in Hin. destruct Hin as [Hin|[E|Hin]]; [right; apply D1; exact Hin|left; congruence|].
  apply in_app_or in Hin. destruct Hin as [Hin|Hin]; [right; apply D2; exact Hin|].
  destruct (ws || negb (t mod 60 =? 0)); [|contradiction].
  destruct Hin as [E|Hin]; [left; congruence|right; apply D3; exact Hin].
Qed.

(* one range "b-e" with its two "seconds written?" flags *)
Definition tp_print_timerange (x : (bool * bool) * (Z * Z)) : list Z :=
  tp_print_tod (fst (fst x)) (fst (snd x)) ++ 45 :: tp_print_tod (snd (fst x)) (snd (snd x)).
Definition tp_print_timeranges (l : list ((bool * bool) * (Z * Z))) : list Z := tp_joinc 44 (map tp_print_timerange l).

Definition tp_timerange_wf (x : (bool * bool) * (Z * Z)) : Prop := 0 <= fst (snd x) < 360000 /\ 0 <= snd (snd x) < 360000.

Lemma tp_parse_print_timerange x : tp_timerange_wf x -> tp_parse_timerange (tp_print_timerange x) = Some (snd x).
Proof.
  destruct x as [[w1 w2] [tb te]]. unfold tp_timerange_wf, tp_print_timerange, tp_parse_timerange. cbn [fst snd].
  intros [Hb He].
  rewrite tp_split_token.
  2: { intros Hin. destruct (tp_print_tod_chars w1 tb 45 Hb Hin); lia. }
  rewrite tp_split_last.
  2: { intros Hin. destruct (tp_print_tod_chars w2 te 45 He Hin); lia. }
  rewrite !tp_parse_print_tod by assumption. reflexivity.
Qed.

Theorem tp_parse_print_timeranges l : l <> [] -> Forall tp_timerange_wf l ->
  tp_parse_timeranges (tp_print_timeranges l) = Some (map snd l).
Proof.
  intros Hne Hwf. unfold tp_parse_timeranges, tp_print_timeranges.
  rewrite tp_split_joinc.
  - clear Hne. induction Hwf as [|x r Hx Hr IH]; [reflexivity|].
    cbn [map tp_all_some]. rewrite tp_parse_print_timerange by exact Hx. rewrite IH. reflexivity.
  - destruct l; [congruence|discriminate].
  - rewrite Forall_map. eapply Forall_impl; [|exact Hwf].
    intros [[w1 w2] [tb te]] [Hb He] Hin. unfold tp_print_timerange in Hin. cbn [fst snd] in *.
    apply in_app_or in Hin. destruct Hin as [Hin|[E|Hin]]; [|discriminate|].
    + destruct (tp_print_tod_chars w1 tb 44 Hb Hin); lia.
    + destruct (tp_print_tod_chars w2 te 44 He Hin); lia.
Qed.

(* the printer prints what the generator prints: four definitions and a list of time ranges *)
From Coq Require Import Strings.String.
Example tp_print_examples :
  tp_print_daydef true {| tp_dr_first := TpMonthDay None 1; tp_dr_last := Some (TpMonthDay None 15); tp_dr_stride := 2 |}
    = tp_bytes_of "day 1 - 15 / 2"%string /\
  tp_print_daydef false {| tp_dr_first := TpDate 2034 3 25; tp_dr_last := Some (TpDate 2034 3 31); tp_dr_stride := 2 |}
    = tp_bytes_of "2034-03-25 - 2034-03-31 / 2"%string /\
  tp_print_daydef false {| tp_dr_first := TpWeekday 1 (Some (-1)) (Some 4); tp_dr_last := None; tp_dr_stride := 1 |}
    = tp_bytes_of "monday -1 may"%string /\
  tp_print_daydef false {| tp_dr_first := TpMonthDay (Some 1) (-1); tp_dr_last := None; tp_dr_stride := 1 |}
    = tp_bytes_of "february -1"%string /\
  tp_print_timeranges [((false, false), (79200, 21600)); ((true, false), (32400, 61215))]
    = tp_bytes_of "22:00-06:00,09:00:00-17:00:15"%string.
Proof. vm_compute. repeat split; reflexivity. Qed.
