(* C08, layer M2: from the abstract local time of Tp/TpDst.v to (a) mktime DEFINED as the unique instant and
   (b) the executable transition tables the harness takes from libc: the three hypotheses about a table and
   the "exists exactly once / mktime returns it" condition for every local time the day loop asks about are
   decided BY COMPUTATION (tp_tab_ok, tp_tab_good_b, tp_cal_hyps_ok) and proved sufficient here. *)
From Icv Require Import Base.Tac Tp.TpModel Tp.TpProofs Tp.TpCal Tp.TpCalObs Tp.TpCalProofs Tp.TpDst.
Local Open Scope Z_scope.

(* ---------------- (a) mktime defined ---------------- *)

(* the unique instant t with t + off t = L, searched in (L - 24 h, L + 24 h) *)
Definition tp_mk_def (off : Z -> Z) (L : Z) : Z :=
  match find (fun t => t + off t =? L) (tp_zlist (L - 86400) (Z.to_nat 172801)) with
  | Some t => t
  | None => L
  end.

Lemma tp_mk_def_good off L :
  (forall t, -86400 < off t < 86400) -> tp_once off L -> tp_good off (tp_mk_def off) L.
Proof.
  intros Hb (t0 & Hs & Hu). unfold tp_good, tp_mk_def.
  destruct (find (fun t => t + off t =? L) (tp_zlist (L - 86400) (Z.to_nat 172801))) as [t|] eqn:F.
  - apply find_some in F. destruct F as [_ F]. apply Z.eqb_eq in F.
    pose proof (Hu t F) as ->. split; [exact Hs|exact Hu].
  - exfalso. pose proof (find_none _ _ F t0) as H.
    assert (In t0 (tp_zlist (L - 86400) (Z.to_nat 172801))) as Hin.
    { apply tp_zlist_in. rewrite Z2Nat.id by lia. pose proof (Hb t0). lia. }
    specialize (H Hin). cbv beta in H. lia.
Qed.

(* C08_dst: the property's statement with mktime defined as the unique instant, either form of the source *)
Theorem tp_ranges_dst_mk_def off (rnd lb : bool) ranges b e t :
  (forall t, -86400 < off t < 86400) ->
  (forall s1 s2, s1 < s2 -> off (s1 - 1) <> off s1 -> off (s2 - 1) <> off s2 -> s1 + 172800 <= s2) ->
  b <= t <= e -> tp_ranges_bounded ranges ->
  (forall L, In L (tp_needed_list off lb ranges b e) -> tp_once off L) ->
  tp_once off (tp_local_day off b * 86400) ->
  (if rnd then forall t t', off t - off t' < 43200
   else forall d kv, tp_first_day off lb b <= d <= tp_local_day off e -> In kv ranges ->
                     tp_day_matches_secs (tp_mk_def off) (fst kv) d = tp_day_matches (fst kv) d) ->
  (forall d, d < tp_first_day off lb b -> tp_day_covers off (tp_mk_def off) false ranges d t = false) ->
  tp_inside_segs (tp_script_func off (tp_mk_def off) rnd lb ranges b e) t =
  tp_spec_inside off (tp_mk_def off) false None tp_back ranges t.
Proof.
  intros Hb Hs Ht Hr Honce Honce0 Hstride Hwrap.
  apply (tp_ranges_dst off Hb Hs (tp_mk_def off)); try assumption.
  - intros L HL. apply tp_mk_def_good; [exact Hb|apply Honce; exact HL].
  - apply tp_mk_def_good; [exact Hb|exact Honce0].
Qed.

(* ---------------- (b) tables ---------------- *)

Lemma tp_tab_off_bound : forall tab prev base t,
  -86400 < base < 86400 -> tp_tab_ok_from prev tab = true -> -86400 < tp_tab_off base tab t < 86400.
Proof.
  induction tab as [|[ti oi] r IH]; intros prev base t Hb Hok; cbn [tp_tab_off]; [exact Hb|].
  cbn [tp_tab_ok_from] in Hok. apply andb_prop in Hok. destruct Hok as [Hok Hr].
  apply andb_prop in Hok. destruct Hok as [Hok H2]. apply andb_prop in Hok. destruct Hok as [H0 H1].
  destruct (ti <=? t); [|exact Hb]. apply (IH (Some ti)); [lia|exact Hr].
Qed.

Lemma tp_tab_trans_in : forall tab base s,
  tp_tab_off base tab (s - 1) <> tp_tab_off base tab s -> In s (map fst tab).
Proof.
  induction tab as [|[ti oi] r IH]; intros base s H; cbn [tp_tab_off] in H; [congruence|].
  cbn [map fst In].
  destruct (ti <=? s - 1) eqn:C1, (ti <=? s) eqn:C2.
  - right. apply (IH oi). exact H.
  - lia.
  - left. lia.
  - congruence.
Qed.

Lemma tp_tab_spaced : forall tab prev,
  tp_tab_ok_from prev tab = true ->
  (forall s, In s (map fst tab) -> match prev with Some p => p + 172800 <= s | None => True end) /\
  (forall s1 s2, In s1 (map fst tab) -> In s2 (map fst tab) -> s1 < s2 -> s1 + 172800 <= s2).
Proof.
  induction tab as [|[ti oi] r IH]; intros prev Hok.
  - split; intros; contradiction.
  - cbn [tp_tab_ok_from] in Hok. apply andb_prop in Hok. destruct Hok as [Hok Hr].
    apply andb_prop in Hok. destruct Hok as [Hok _]. apply andb_prop in Hok. destruct Hok as [Hok _].
    destruct (IH (Some ti) Hr) as [IH1 IH2]. cbn [map fst In]. split.
    + intros s [<-|Hs].
      * destruct prev; [lia|exact I].
      * specialize (IH1 s Hs). cbv beta iota in IH1. destruct prev; [lia|exact I].
    + intros s1 s2 [<-|H1] [<-|H2] Hlt.
      * lia.
      * specialize (IH1 s2 H2). cbv beta iota in IH1. lia.
      * specialize (IH1 s1 H1). cbv beta iota in IH1. lia.
      * apply IH2; assumption.
Qed.

(* the three hypotheses of Tp/TpDst.v hold for every table that passes the computed check *)
Theorem tp_tab_hyps base tab :
  tp_tab_ok base tab = true ->
  (forall t, -86400 < tp_tab_off base tab t < 86400) /\
  (forall s1 s2, s1 < s2 ->
     tp_tab_off base tab (s1 - 1) <> tp_tab_off base tab s1 ->
     tp_tab_off base tab (s2 - 1) <> tp_tab_off base tab s2 -> s1 + 172800 <= s2).
Proof.
  intros Hok. unfold tp_tab_ok in Hok. apply andb_prop in Hok. destruct Hok as [Hok Hf].
  split.
  - intros t. apply (tp_tab_off_bound tab None); [lia|exact Hf].
  - intros s1 s2 Hlt H1 H2. apply (proj2 (tp_tab_spaced tab None Hf)); [| |exact Hlt].
    + apply (tp_tab_trans_in tab base). exact H1.
    + apply (tp_tab_trans_in tab base). exact H2.
Qed.

Definition tp_tab_offsets (base : Z) (tab : list (Z * Z)) : list Z := base :: map snd tab.

Lemma tp_tab_off_in : forall tab base t, In (tp_tab_off base tab t) (tp_tab_offsets base tab).
Proof.
  induction tab as [|[ti oi] r IH]; intros base t; cbn [tp_tab_off]; [left; reflexivity|].
  destruct (ti <=? t); [|left; reflexivity].
  right. exact (IH oi t).
Qed.

(* decided by computation: the local time L exists exactly once and tp_tab_mk returns its instant.
   (Every solution of t + off t = L is L - o for one of the table's offsets o.) *)
Definition tp_tab_good_b (base : Z) (tab : list (Z * Z)) (L : Z) : bool :=
  let t0 := tp_tab_mk base tab L in
  (t0 + tp_tab_off base tab t0 =? L) &&
  forallb (fun o => negb (L - o + tp_tab_off base tab (L - o) =? L) || (L - o =? t0)) (tp_tab_offsets base tab).

Lemma tp_tab_good_sound base tab L :
  tp_tab_good_b base tab L = true -> tp_good (tp_tab_off base tab) (tp_tab_mk base tab) L.
Proof.
  unfold tp_tab_good_b. intros H. apply andb_prop in H. destruct H as [H1 H2]. split; [lia|].
  intros t' Ht'.
  pose proof (proj1 (forallb_forall _ _) H2 _ (tp_tab_off_in tab base t')) as H. cbv beta in H.
  replace (L - tp_tab_off base tab t') with t' in H by lia.
  lia.
Qed.

(* the zone's offsets differ by less than 12 h (asked for by the rounded day number of form rnd = true) *)
Definition tp_tab_span_ok (base : Z) (tab : list (Z * Z)) : bool :=
  forallb (fun o1 => forallb (fun o2 => o1 - o2 <? 43200) (tp_tab_offsets base tab)) (tp_tab_offsets base tab).

Lemma tp_tab_span_sound base tab :
  tp_tab_span_ok base tab = true -> forall t t', tp_tab_off base tab t - tp_tab_off base tab t' < 43200.
Proof.
  intros H t t'. unfold tp_tab_span_ok in H.
  pose proof (proj1 (forallb_forall _ _) H _ (tp_tab_off_in tab base t)) as H1. cbv beta in H1.
  pose proof (proj1 (forallb_forall _ _) H1 _ (tp_tab_off_in tab base t')) as H2. cbv beta in H2. lia.
Qed.

(* the hypotheses about local time, decided by computation for the form of the source at hand: the table, every local
   time mktime is asked about (incl. begin's own local midnight), and for the rounded day number the 12 h span *)
Definition tp_cal_hyps_ok (rnd lb : bool) (base : Z) (tab : list (Z * Z)) (ranges : list (tp_dayrange * list (Z * Z))) (b e : Z) : bool :=
  tp_tab_ok base tab
  && forallb (tp_tab_good_b base tab) (tp_local_day (tp_tab_off base tab) b * 86400 :: tp_needed_list (tp_tab_off base tab) lb ranges b e)
  && (negb rnd || tp_tab_span_ok base tab).

Lemma tp_cal_hyps_ok_elim rnd lb base tab ranges b e :
  tp_cal_hyps_ok rnd lb base tab ranges b e = true ->
  tp_tab_ok base tab = true /\
  (forall L, In L (tp_needed_list (tp_tab_off base tab) lb ranges b e) -> tp_good (tp_tab_off base tab) (tp_tab_mk base tab) L) /\
  tp_good (tp_tab_off base tab) (tp_tab_mk base tab) (tp_local_day (tp_tab_off base tab) b * 86400) /\
  (rnd = true -> forall t t', tp_tab_off base tab t - tp_tab_off base tab t' < 43200).
Proof.
  unfold tp_cal_hyps_ok. intros H. apply andb_prop in H. destruct H as [H Hsp]. apply andb_prop in H. destruct H as [Hok Hg].
  pose proof (proj1 (forallb_forall _ _) Hg) as Hall.
  split; [exact Hok|]. split; [|split].
  - intros L HL. apply tp_tab_good_sound. apply Hall. right. exact HL.
  - apply tp_tab_good_sound. apply Hall. left. reflexivity.
  - intros ->. cbn [negb orb] in Hsp. apply tp_tab_span_sound. exact Hsp.
Qed.

(* the statement for the executable model: every premise about local time is a computed boolean *)
Theorem tp_ranges_table rnd lb base tab ranges b e t :
  tp_cal_hyps_ok rnd lb base tab ranges b e = true ->
  b <= t <= e -> tp_ranges_bounded ranges ->
  (rnd = false -> forall d kv, tp_first_day (tp_tab_off base tab) lb b <= d <= tp_local_day (tp_tab_off base tab) e -> In kv ranges ->
                tp_day_matches_secs (tp_tab_mk base tab) (fst kv) d = tp_day_matches (fst kv) d) ->
  (forall d, d < tp_first_day (tp_tab_off base tab) lb b ->
             tp_day_covers (tp_tab_off base tab) (tp_tab_mk base tab) false ranges d t = false) ->
  tp_inside_segs (tp_script_func (tp_tab_off base tab) (tp_tab_mk base tab) rnd lb ranges b e) t =
  tp_spec_inside (tp_tab_off base tab) (tp_tab_mk base tab) false None tp_back ranges t.
Proof.
  intros Hok Ht Hr Hstride Hwrap. destruct (tp_cal_hyps_ok_elim _ _ _ _ _ _ _ Hok) as (Htab & Hneed & Hg0 & Hspan).
  destruct (tp_tab_hyps base tab Htab) as [Hb Hs].
  apply (tp_ranges_dst (tp_tab_off base tab) Hb Hs (tp_tab_mk base tab)); try assumption.
  destruct rnd; [apply Hspan; reflexivity|apply Hstride; reflexivity].
Qed.

(* the source with BOTH repairs (rounded day number, loop started a day early): for ranges that end at most 48 h after
   00:00 of their day the computed hypotheses are all that is asked - no finding's signature is left *)
Theorem tp_ranges_table_repaired base tab ranges b e t :
  tp_cal_hyps_ok true true base tab ranges b e = true ->
  b <= t <= e -> tp_ranges_bounded ranges -> tp_ranges_reach1 ranges ->
  tp_inside_segs (tp_script_func (tp_tab_off base tab) (tp_tab_mk base tab) true true ranges b e) t =
  tp_spec_inside (tp_tab_off base tab) (tp_tab_mk base tab) false None tp_back ranges t.
Proof.
  intros Hok Ht Hr Hr1. destruct (tp_cal_hyps_ok_elim _ _ _ _ _ _ _ Hok) as (Htab & Hneed & Hg0 & Hspan).
  destruct (tp_tab_hyps base tab Htab) as [Hb Hs].
  apply (tp_ranges_lookback_dst (tp_tab_off base tab) Hb Hs (tp_tab_mk base tab)); try assumption; [reflexivity|].
  apply Hspan. reflexivity.
Qed.

(* ... and the day loop for tables: exactly the local days that meet [b, e], and in form lb the day before *)
Theorem tp_day_loop_days_table rnd lb base tab ranges b e r :
  tp_cal_hyps_ok rnd lb base tab ranges b e = true -> b <= e ->
  (In r (tp_loop_days (tp_tab_mk base tab) (tp_loop_fuel b e) (tp_first_day (tp_tab_off base tab) lb b) e) <->
   (lb = true /\ r = tp_local_day (tp_tab_off base tab) b - 1) \/
   exists t, b <= t <= e /\ tp_local_day (tp_tab_off base tab) t = r).
Proof.
  intros Hok Hbe. destruct (tp_cal_hyps_ok_elim _ _ _ _ _ _ _ Hok) as (Htab & Hneed & Hg0 & _).
  destruct (tp_tab_hyps base tab Htab) as [Hb Hs].
  apply (tp_day_loop_days (tp_tab_off base tab) Hb Hs (tp_tab_mk base tab)); [exact Hbe|exact Hg0|].
  intros d Hd. apply Hneed. apply (tp_needed_in (tp_tab_off base tab) Hb Hs (tp_tab_mk base tab) lb ranges b e d Hd).
Qed.

(* the statement for whatever form the source has: per repair, either the negated signature of the finding (pinned form)
   or the condition under which the repaired form is exact *)
Theorem tp_ranges_table_form (rnd lb : bool) base tab ranges b e t :
  tp_cal_hyps_ok rnd lb base tab ranges b e = true ->
  b <= t <= e -> tp_ranges_bounded ranges ->
  (rnd = false -> forall d kv, tp_first_day (tp_tab_off base tab) lb b <= d <= tp_local_day (tp_tab_off base tab) e -> In kv ranges ->
                tp_day_matches_secs (tp_tab_mk base tab) (fst kv) d = tp_day_matches (fst kv) d) ->
  (if lb then tp_ranges_reach1 ranges
   else forall d, d < tp_local_day (tp_tab_off base tab) b ->
                  tp_day_covers (tp_tab_off base tab) (tp_tab_mk base tab) false ranges d t = false) ->
  tp_inside_segs (tp_script_func (tp_tab_off base tab) (tp_tab_mk base tab) rnd lb ranges b e) t =
  tp_spec_inside (tp_tab_off base tab) (tp_tab_mk base tab) false None tp_back ranges t.
Proof.
  intros Hok Ht Hr Hstride Hwrap. destruct lb.
  - destruct (tp_cal_hyps_ok_elim _ _ _ _ _ _ _ Hok) as (Htab & Hneed & Hg0 & Hspan).
    destruct (tp_tab_hyps base tab Htab) as [Hb Hs].
    apply (tp_ranges_lookback_dst (tp_tab_off base tab) Hb Hs (tp_tab_mk base tab)); try assumption; [reflexivity|].
    destruct rnd; [apply Hspan; reflexivity|apply Hstride; reflexivity].
  - apply tp_ranges_table; assumption.
Qed.

(* the rounded day number is NOT the calendar distance in a (synthetic) zone whose offset jumps by 13 h: the span
   condition of form rnd = true cannot be dropped.  Offset 0, then +13 h from 2034-03-26 03:00 UTC; stride 2 from the 25th:
   the 27th is two calendar days on, the rounded quotient says one *)
Theorem tp_stride_round_span_needed :
  let base := 0 in
  let tab := [(tp_days_from_civil 2034 3 26 * 86400 + 10800, 46800)] in
  let dd := {| tp_dr_first := TpDate 2034 3 25; tp_dr_last := Some (TpDate 2034 3 31); tp_dr_stride := 2 |} in
  let r := tp_days_from_civil 2034 3 27 in
  tp_tab_ok base tab = true /\ tp_tab_span_ok base tab = false /\
  forallb (tp_tab_good_b base tab) [r * 86400; tp_range_begin_day dd r * 86400; tp_range_end_day dd r * 86400] = true /\
  tp_day_matches dd r = true /\ tp_in_day_def (tp_tab_mk base tab) true dd r = false.
Proof. vm_compute. repeat split; reflexivity. Qed.
