(* C08, layer M1: the oracle run over implementation traces accepts every trace of the model
   (fixed code), so it can fire only where the implementation leaves what the theorems establish. *)
From Icv Require Import Base.Tac Tp.TpModel Tp.TpProofs Tp.TpObs.
Local Open Scope Z_scope.

Lemma tp_ins_ok_model s probes : tp_ins_ok s probes (map (tp_is_inside s) probes) = true.
Proof. induction probes as [|t r IH]; [reflexivity|]. cbn. rewrite Bool.eqb_reflx, IH. reflexivity. Qed.

Lemma tp_segs_eqb_refl l : tp_segs_eqb l l = true.
Proof. induction l as [|[a b] r IH]; [reflexivity|]. cbn. unfold tp_seg_eqb. cbn [fst snd]. rewrite !Z.eqb_refl, IH. reflexivity. Qed.

Lemma tp_oz_eqb_refl o : tp_oz_eqb o o = true.
Proof. destruct o; cbn; [apply Z.eqb_refl|reflexivity]. Qed.

Lemma tp_st_eqb_refl s : tp_st_eqb s s = true.
Proof. unfold tp_st_eqb. rewrite tp_segs_eqb_refl, !tp_oz_eqb_refl. reflexivity. Qed.

Lemma tp_covers_b_true s b e : tp_covers s b e -> tp_covers_b s b e = true.
Proof. intros (vb & ve & Hb & He & H1 & H2). unfold tp_covers_b. rewrite Hb, He. lia. Qed.

Lemma tp_add_covers_self b e s : tp_covers (tp_add b e s) b e.
Proof.
  unfold tp_add.
  apply (tp_covers_widen s b e b e _ _ (or_intror (conj (Z.le_refl b) (Z.le_refl e))) eq_refl eq_refl).
Qed.

Theorem tp_step_ok_model ma probes op pre :
  tp_step_ok ma probes op pre (tp_apply ma op pre) (map (tp_is_inside (tp_apply ma op pre)) probes) = true.
Proof.
  unfold tp_step_ok. rewrite tp_ins_ok_model. cbn [andb].
  destruct (tp_noop op pre) eqn:Hn.
  { destruct op as [| | |own prefer incs excs b e clear]; try discriminate.
    cbn [tp_noop] in Hn. cbn [tp_apply tp_noop_ok]. unfold tp_update_region_ma. rewrite Hn.
    destruct ma; [|apply tp_st_eqb_refl].
    destruct (tp_ve pre) as [v|] eqn:Hv; [|reflexivity].
    destruct (tp_merge_only_spec prefer incs excs pre v Hv) as [Hv' Hs].
    rewrite Hv'. cbn [tp_oz_eqb]. rewrite Z.eqb_refl. cbn [andb].
    apply forallb_forall. intros t _. rewrite Hs. apply Bool.eqb_reflx. }
  assert (tp_apply ma op pre = tp_apply false op pre) as Hsame.
  { destruct op as [b e|b e|e|own prefer incs excs b e clear]; try reflexivity.
    cbn [tp_apply tp_noop] in *. unfold tp_update_region_ma. rewrite Hn. reflexivity. }
  rewrite Hsame.
  assert (forall own prefer incs excs b e clear, op = TpOpUpdate own prefer incs excs b e clear ->
          tp_apply false op pre = tp_update_region true (fun _ _ => own) prefer incs excs b e clear pre) as Hupd.
  { intros own prefer incs excs b e clear ->. cbn [tp_apply]. apply tp_update_region_ma_pinned. }
  apply andb_true_intro; split.
  - (* window *)
    destruct op as [b e|b e|e|own prefer incs excs b e clear]; cbn [tp_window_ok].
    + apply tp_covers_b_true, tp_add_covers_self.
    + apply tp_covers_b_true, tp_remove_covers_self.
    + reflexivity.
    + rewrite (Hupd _ _ _ _ _ _ _ eq_refl). apply tp_covers_b_true, tp_update_region_covers.
      intros ->. cbn [tp_noop negb andb] in Hn. lia.
  - apply forallb_forall. intros t _.
    destruct op as [b e|b e|e|own prefer incs excs b e clear]; cbn [tp_expect].
    + cbn [tp_apply tp_add tp_segs]. rewrite tp_add_segs_inside_b. apply Bool.eqb_reflx.
    + cbn [tp_apply tp_remove tp_segs]. rewrite tp_remove_segs_inside_b. apply Bool.eqb_reflx.
    + cbn [tp_apply]. destruct (e <=? t) eqn:C; [|reflexivity]. rewrite tp_purge_spec by lia. apply Bool.eqb_reflx.
    + rewrite (Hupd _ _ _ _ _ _ _ eq_refl). rewrite tp_update_region_spec_b; [apply Bool.eqb_reflx|].
      intros ->. cbn [tp_noop negb andb] in Hn. lia.
Qed.

Fixpoint tp_model_trace (ma : bool) (probes : list Z) (s : tp_st) (ops : list tp_op) : list (tp_op * tp_st * list bool) :=
  match ops with
  | [] => []
  | op :: r => let s' := tp_apply ma op s in (op, s', map (tp_is_inside s') probes) :: tp_model_trace ma probes s' r
  end.

Theorem tp_oracle_accepts_model ma probes ops : tp_oracle ma probes (tp_model_trace ma probes tp_empty ops) = None.
Proof.
  unfold tp_oracle. generalize tp_empty, 0. induction ops as [|op r IH]; intros s idx; [reflexivity|].
  cbn [tp_model_trace tp_oracle_from]. rewrite tp_step_ok_model. apply IH.
Qed.

(* ... and it does fire on the pinned RemoveSegment: the witness of F-C08-a as an observed trace *)
Theorem tp_oracle_rejects_pinned :
  let s1 := tp_add 9 17 tp_empty in
  let s2 := tp_remove false 9 10 s1 in
  tp_oracle false [8; 9; 10; 16; 17]
    [(TpOpAdd 9 17, s1, map (tp_is_inside s1) [8; 9; 10; 16; 17]);
     (TpOpRemove 9 10, s2, map (tp_is_inside s2) [8; 9; 10; 16; 17])] = Some 1.
Proof. vm_compute. reflexivity. Qed.
