(* C16 - apply rules create exactly the matching objects, with or without the name fast path.
   Only the property theorems, each closed by [exact] of a lemma proved under Apply/, each followed
   by Print Assumptions.  Model: Apply/ArModel.v; premises and oracle: Apply/ArObs.v. *)
From Icv Require Import Base.Tac Apply.ArModel Apply.ArObs Apply.ArProofs Apply.ArOrder Apply.ArWitness Apply.ArFacts Apply.ArForFix.
From Coq Require Import Permutation.
Local Open Scope Z_scope.

(* GetTargetHosts is sound and complete: if it returns a name list, then for EVERY environment in which
   (1) the constants it resolved are what evaluation sees (vacuous at config load, where no constants are
   passed) and (2) variable `host` is an object whose field "name" is the string hn, the filter evaluates
   - without error - to exactly "hn is in the list".  Same for GetTargetServices with (host, service) pairs. *)
Theorem C16_fast_path_sound_complete :
  (forall cs env f ns hn,
     ar_agree cs env -> ar_named env ar_s_host hn ->
     ar_target_hosts cs f = Some ns ->
     ar_eval env f = AVBool (ar_mem hn ns)) /\
  (forall cs env f ps hn sn,
     ar_agree cs env -> ar_named env ar_s_host hn -> ar_named env ar_s_service sn ->
     ar_target_services cs f = Some ps ->
     ar_eval env f = AVBool (ar_mem2 hn sn ps)).
Proof. exact (conj ar_target_hosts_sound_complete ar_target_services_sound_complete). Qed.
Print Assumptions C16_fast_path_sound_complete.

(* hence a rule looked up through the index and applied WITHOUT its filter creates, at every target, what
   evaluating the filter creates - provided the `for` set of the rule does not throw at this target (negated
   signature of the one remaining recorded finding; rules whose `for` variable hides host/service are not
   indexed any more, AddRule: shadowsTarget) *)
Theorem C16_fast_path_rule : forall genv r t,
  ar_shape_ok r t ->
  (ar_rule_index r <> AIRegular -> ar_instances r (ar_mk_env genv (ar_t_bindings t ++ ar_r_use r)) <> None) ->
  ar_rule_fast_at genv r t = ar_eval_rule false genv r t.
Proof. exact ar_fast_at_eq. Qed.
Print Assumptions C16_fast_path_rule.

(* whole loads (two phases: apply Service first, its services are targets of the other rules) *)
Theorem C16_fast_path_load : forall genv inv rules,
  ar_premises genv inv rules = true ->
  ar_apply_fast genv inv rules = ar_apply genv inv rules.
Proof. exact ar_apply_fast_eq. Qed.
Print Assumptions C16_fast_path_load.

(* the wrapped form (F) && true used by the tie is never indexed and means the same *)
Theorem C16_wrapped_same : forall genv inv rules,
  (forall r, ar_rule_index (ar_wrap_rule r) = AIRegular) /\
  ar_apply genv inv (map ar_wrap_rule rules) = ar_apply genv inv rules.
Proof. exact (fun genv inv rules => conj ar_wrap_not_indexed (ar_apply_wrap genv inv rules)). Qed.
Print Assumptions C16_wrapped_same.

(* the created set (None = the load fails) is invariant under permutation of the rules and of the hosts,
   with or without the index *)
Theorem C16_order_independent : forall genv inv inv' rules rules',
  Permutation rules rules' -> Permutation inv inv' ->
  ar_res_perm (ar_apply genv inv rules) (ar_apply genv inv' rules') /\
  ar_res_perm (ar_apply_fast genv inv rules) (ar_apply_fast genv inv' rules').
Proof.
  exact (fun genv inv inv' rules rules' Pr Pi =>
           conj (ar_load_order_independent (ar_eval_rule false genv) inv inv' rules rules' Pr Pi)
                (ar_load_order_independent (ar_rule_fast_at genv) inv inv' rules rules' Pr Pi)).
Qed.
Print Assumptions C16_order_independent.

(* ... and, through the whole two-phase load, under permutation of the services of every host as well:
   [inv] -> hosts permuted -> [mid] -> each host's service list permuted (same names, same fields) -> [inv'] *)
Theorem C16_service_order_independent : forall genv inv mid inv' rules rules',
  Permutation rules rules' -> Permutation inv mid ->
  Forall2 (fun h h' => ar_h_name h = ar_h_name h' /\ ar_h_fields h = ar_h_fields h' /\
                       Permutation (ar_h_svcs h) (ar_h_svcs h')) mid inv' ->
  ar_res_perm (ar_apply genv inv rules) (ar_apply genv inv' rules') /\
  ar_res_perm (ar_apply_fast genv inv rules) (ar_apply_fast genv inv' rules').
Proof.
  exact (fun genv inv mid inv' rules rules' Pr Pi S =>
           conj (ar_load_fully_order_independent (ar_eval_rule false genv) inv mid inv' rules rules' Pr Pi S)
                (ar_load_fully_order_independent (ar_rule_fast_at genv) inv mid inv' rules rules' Pr Pi S)).
Qed.
Print Assumptions C16_service_order_independent.

(* FilterUtility::GetFilterTargets: fast path and evaluation return the same SET of objects for ALL filters,
   ALL filter_vars and ALL values of the navigation fields (filter_vars named obj/host/service or like a
   navigation field of the target type are evaluated since the fixes), provided names are '!'-free
   (ConfigItemBuilder enforces that) *)
Theorem C16_api_fast_path : forall genv navv inv to_svc fvars f,
  ar_api_premises inv = true ->
  ar_same_keys (ar_api_fast genv navv inv to_svc fvars f) (ar_api_plain genv navv inv to_svc fvars f) = true.
Proof. exact ar_api_fast_eq. Qed.
Print Assumptions C16_api_fast_path.

(* the navigation field names of the model = what checkable.ti / service.ti declare now (regenerated fact) *)
Theorem C16_source_facts :
  ar_nav_fact_ok Facts.Facts_c18.f_pm_nav_host (ar_nav_names false) /\
  ar_nav_fact_ok Facts.Facts_c18.f_pm_nav_service (ar_nav_names true).
Proof. exact ar_nav_facts. Qed.
Print Assumptions C16_source_facts.

(* the executable oracle run over implementation traces never fires on what the model produces *)
Theorem C16_oracle_accepts_model : forall genv inv rules wrules,
  ar_premises genv inv rules = true ->
  ar_oracle genv inv rules wrules (ar_apply_fast genv inv rules) (ar_apply genv inv (map ar_wrap_rule rules)) = 0.
Proof. exact ar_oracle_accepts_model. Qed.
Print Assumptions C16_oracle_accepts_model.

(* the fixed finding: the rule would be recognised, but is not indexed, and both loads agree *)
Theorem C16_shadowed_target_variable_fixed :
  ar_shadows_target ar_w_shadow = true /\ ar_rule_index ar_w_shadow = AIRegular /\
  ar_target_hosts None (ar_r_filter ar_w_shadow) = Some [ar_w_H] /\
  ar_apply_fast ar_w_genv ar_w_invH [ar_w_shadow] = None /\
  ar_apply ar_w_genv ar_w_invH [ar_w_shadow] = None.
Proof. exact ar_shadow_fixed. Qed.
Print Assumptions C16_shadowed_target_variable_fixed.

(* the remaining recorded finding, exhibited on the model: without the premise the statement fails *)
Theorem C16_for_error_on_unindexed_target_refuted :
  ar_shadows_target ar_w_forerr = false /\ ar_for_ok ar_w_genv ar_w_inv ar_w_forerr = false /\
  option_map (map ar_o_name) (ar_apply_fast ar_w_genv ar_w_inv [ar_w_forerr]) = Some [[72; 33; 114; 48; 97]] /\
  ar_apply ar_w_genv ar_w_inv [ar_w_forerr] = None.
Proof. exact ar_for_error_refuted. Qed.
Print Assumptions C16_for_error_on_unindexed_target_refuted.

(* ... and it is confined to rules that are indexed AND have a `for` term: for every rule list in which no indexed
   rule has one, the premise holds and the indexed load equals plain evaluation unconditionally (what the proposed
   change of AddRule - a rule with a `for` term is never indexed - would give for every configuration) *)
Theorem C16_fast_path_load_without_indexed_for : forall genv inv rules,
  (forall r, In r rules -> ar_rule_index r <> AIRegular -> ar_r_for r = None) ->
  ar_premises genv inv rules = true /\ ar_apply_fast genv inv rules = ar_apply genv inv rules.
Proof. exact (fun genv inv rules H => conj (ar_premises_no_indexed_for genv inv rules H) (ar_apply_fast_eq_no_indexed_for genv inv rules H)). Qed.
Print Assumptions C16_fast_path_load_without_indexed_for.

Theorem C16_api_filter_var_named_like_target_fixed :
  (let f := AEEq ar_w_hostname (AEVar ar_s_host) in
   let fv := [(ar_s_host, AVStr ar_w_h)] in
   ar_api_vars_ok false fv = false /\
   ar_target_hosts (Some fv) f = Some [ar_w_h] /\
   ar_api_fast ar_w_genv ar_w_navv ar_w_inv false fv f = Some [] /\
   ar_api_plain ar_w_genv ar_w_navv ar_w_inv false fv f = Some []) /\
  (forall nv, In nv [ar_s_check_command; ar_s_check_period] ->
   let f := AEEq ar_w_hostname (AEVar nv) in
   let fv := [(nv, AVStr ar_w_h)] in
   ar_api_vars_ok false fv = false /\
   ar_target_hosts (Some fv) f = Some [ar_w_h] /\
   ar_api_fast ar_w_genv ar_w_navv ar_w_inv false fv f = Some [] /\
   ar_api_plain ar_w_genv ar_w_navv ar_w_inv false fv f = Some []).
Proof. exact (conj ar_api_filter_var_fixed ar_api_nav_var_fixed). Qed.
Print Assumptions C16_api_filter_var_named_like_target_fixed.

(* non-vacuity: a rule the recogniser accepts, whose premises hold, creating a real object *)
Example C16_nonvacuous :
  ar_premises ar_w_genv ar_w_inv [ar_w_good] = true /\
  ar_rule_index ar_w_good = AIServices [(ar_w_H, ar_w_S)] /\
  option_map (map ar_o_name) (ar_apply ar_w_genv ar_w_inv [ar_w_good]) = Some [[72; 33; 83; 33; 114; 48]].
Proof. exact ar_w_nonvacuous. Qed.
