(* C10 - HA authority: the property theorems, nothing else.  Each is closed by [exact] of a lemma proved in
   Auth/AuProofs.v or Auth/AuOracleProofs.v and followed by Print Assumptions.
   All statements hold for every parameter record p (signedness of char, length and strictness of the
   cold-start window), every object name, every pair of different endpoint names, both orders in which the
   zone's members may be visited, every start time / clock value and every event sequence. *)
From Icv Require Import Base.Tac Auth.AuModel Auth.AuProofs Auth.AuObs Auth.AuOracleProofs Auth.AuConc Auth.AuConcProofs Auth.AuFacts.
Local Open Scope Z_scope.

(* both members see each other: UpdateObjectAuthority on A and on B name the same owner, the owner is one of
   the two, it is a function of the object name and the SORTED member names only (not of the visiting order,
   the clock or the start times), and exactly one of the two is authoritative *)
Theorem C10_split_function : forall p a b za zb now_a now_b start_a start_b name,
  a <> b -> au_pair_zone a b za -> au_pair_zone a b zb ->
  let w := au_owner p (au_sort [a; b]) name in
  (w = a \/ w = b) /\
  au_authority p za (fun e => au_beq e b && true) a now_a start_a name = Some (au_beq w a) /\
  au_authority p zb (fun e => au_beq e a && true) b now_b start_b name = Some (au_beq w b) /\
  au_beq w a = negb (au_beq w b).
Proof. exact au_split_fn. Qed.
Print Assumptions C10_split_function.

(* a completed run of a node that sees its peer records the sorted pair ... *)
Theorem C10_split_saw : forall p now n a b,
  a <> b -> au_pair_zone a b (au_n_zone n) ->
  (au_n_me n = a /\ au_n_peer n = b \/ au_n_me n = b /\ au_n_peer n = a) ->
  au_n_conn n = true -> au_n_last (au_timer p now n) = Some (AuBy (au_sort [a; b])).
Proof. exact au_timer_last_conn. Qed.
Print Assumptions C10_split_saw.

(* ... and in every reachable state in which the latest completed run of both nodes saw the peer, every
   active run-once object is active on exactly one of them, the one the function above names *)
Theorem C10_split : forall p a b za zb objs evs,
  a <> b -> au_pair_zone a b za -> au_pair_zone a b zb ->
  let s := au_run_evs p (au_init a b za zb objs) evs in
  au_n_last (au_s_a s) = Some (AuBy (au_sort [a; b])) ->
  au_n_last (au_s_b s) = Some (AuBy (au_sort [a; b])) ->
  forall oa ob, In oa (au_n_objs (au_s_a s)) -> In ob (au_n_objs (au_s_b s)) ->
    au_o_name oa = au_o_name ob ->
    au_o_active oa = true -> au_o_once oa = true -> au_o_active ob = true -> au_o_once ob = true ->
    let w := au_owner p (au_sort [a; b]) (au_o_name oa) in
    (w = a \/ w = b) /\
    au_o_paused oa = negb (au_beq w a) /\ au_o_paused ob = negb (au_beq w b) /\
    au_o_paused oa = negb (au_o_paused ob).
Proof. exact au_split_sys. Qed.
Print Assumptions C10_split.

(* peer(s) disconnected and the window over: authoritative for every name (any zone size) *)
Theorem C10_alone : forall p members me now start name,
  NoDup members -> In me members -> au_in_window p now start = false ->
  au_authority p (Some members) (fun _ => false) me now start name = Some true.
Proof. exact au_alone_fn. Qed.
Print Assumptions C10_alone.

Theorem C10_alone_saw : forall p now n a b,
  a <> b -> au_pair_zone a b (au_n_zone n) ->
  (au_n_me n = a /\ au_n_peer n = b \/ au_n_me n = b /\ au_n_peer n = a) ->
  au_n_conn n = false -> au_in_window p now (au_n_start n) = false ->
  au_n_last (au_timer p now n) = Some (AuBy [au_n_me n]).
Proof. exact au_timer_last_alone. Qed.
Print Assumptions C10_alone_saw.

Theorem C10_alone_sys : forall p a b za zb objs evs (i : au_id),
  let s := au_run_evs p (au_init a b za zb objs) evs in
  au_n_last (au_get s i) = Some (AuBy [au_n_me (au_get s i)]) \/ au_n_last (au_get s i) = Some AuAll ->
  forall o, In o (au_n_objs (au_get s i)) -> au_o_active o = true -> au_o_once o = true -> au_o_paused o = false.
Proof. exact au_alone_sys. Qed.
Print Assumptions C10_alone_sys.

(* no zone configuration: authoritative for everything, at once; likewise a zone with one member *)
Theorem C10_nozone : forall p conn me now start name,
  au_authority p None conn me now start name = Some true.
Proof. exact au_nozone_fn. Qed.
Print Assumptions C10_nozone.

Theorem C10_single_member : forall p conn me now start name,
  au_authority p (Some [me]) conn me now start name = Some true.
Proof. exact au_single_fn. Qed.
Print Assumptions C10_single_member.

(* one run changes `paused' of an object at most once and calls Pause/Resume exactly once iff it changes *)
Theorem C10_once : forall p sel me o,
  let o' := au_update_obj p sel me o in
  (au_o_paused o = au_o_paused o' -> o' = o) /\
  (au_o_paused o = false -> au_o_paused o' = true ->
     au_o_pauses o' = au_o_pauses o + 1 /\ au_o_resumes o' = au_o_resumes o) /\
  (au_o_paused o = true -> au_o_paused o' = false ->
     au_o_resumes o' = au_o_resumes o + 1 /\ au_o_pauses o' = au_o_pauses o).
Proof. exact au_update_obj_once. Qed.
Print Assumptions C10_once.

Theorem C10_timer_idempotent : forall p now n, au_timer p now (au_timer p now n) = au_timer p now n.
Proof. exact au_timer_idem. Qed.
Print Assumptions C10_timer_idempotent.

(* inside the window with the peer away a run touches nothing; until a run completes nothing is resumed *)
Theorem C10_coldstart : forall p now n a b,
  a <> b -> au_pair_zone a b (au_n_zone n) ->
  (au_n_me n = a /\ au_n_peer n = b \/ au_n_me n = b /\ au_n_peer n = a) ->
  au_n_conn n = false -> au_in_window p now (au_n_start n) = true ->
  au_timer p now n = n.
Proof. exact au_timer_cold. Qed.
Print Assumptions C10_coldstart.

Theorem C10_coldstart_sys : forall p a b za zb objs evs (i : au_id),
  let s := au_run_evs p (au_init a b za zb objs) evs in
  au_n_last (au_get s i) = None ->
  forall o, In o (au_n_objs (au_get s i)) -> au_o_active o = true -> au_o_once o = true -> au_o_paused o = true.
Proof. exact au_coldstart_sys. Qed.
Print Assumptions C10_coldstart_sys.

(* the guards (model of the conditions in checkable-notification.cpp, notificationcomponent.cpp,
   checkercomponent.cpp): paused => nothing sent, not scheduled; before the first complete run nothing sent *)
Theorem C10_paused_no_notification : forall updated stash,
  fst (au_send_guard updated true stash) = 0 /\ fst (au_send_guard false updated stash) = 0 /\
  fst (au_nc_guard updated true true true stash) = 0.
Proof. intros. exact (conj (au_paused_no_send updated stash) (conj (au_not_updated_no_send updated stash) (au_paused_no_reminder updated stash))). Qed.
Print Assumptions C10_paused_no_notification.

Theorem C10_paused_not_scheduled : forall active same_zone, au_scheduled active true same_zone = false.
Proof. exact au_paused_not_scheduled. Qed.
Print Assumptions C10_paused_not_scheduled.

(* SDBM as written is c + 65599 * hash modulo 2^64 and stays in the unsigned long range *)
Theorem C10_sdbm : forall sgn h b s,
  au_sdbm_step sgn h b = (au_char sgn b + 65599 * h) mod au_W /\ 0 <= au_sdbm sgn s < au_W.
Proof. intros. exact (conj (au_sdbm_step_closed sgn h b) (au_sdbm_range sgn s)). Qed.
Print Assumptions C10_sdbm.

(* SetAuthority called concurrently (any number of threads, any arguments, any number of calls per thread, ANY
   interleaving of the steps load paused / take ObjectLock / load paused again / call Resume|Pause / store paused /
   unlock, with or without an unlocked fast path in front): as long as `paused' is tested again under the lock,
   the calls of Resume()/Pause() on the object alternate, starting with the one that fits the initial flag - i.e.
   every authority change produces exactly one call - and whenever nobody holds the lock the flag is what the calls
   so far imply.  Relies on: loads/stores of `paused' are atomic, ObjectLock is mutual exclusion. *)
Theorem C10_once_concurrent : forall c p0 todo sched,
  auc_recheck c = true ->
  let s := auc_run c (auc_init p0 todo) sched in
  auc_altb p0 (auc_trace s) = true /\
  (auc_lock s = None -> auc_paused s = auc_after p0 (auc_trace s)) /\
  (auc_lock s = None -> auc_round_ok p0 (auc_trace s) (auc_paused s) = true).
Proof. exact auc_once_concurrent. Qed.
Print Assumptions C10_once_concurrent.

(* ... and the test under the lock is needed: with only the unlocked fast path two overlapping
   SetAuthority(true) on a paused object call Resume() twice (the interleaving is auc_bad_sched) *)
Theorem C10_once_needs_locked_recheck :
  let s := auc_run auc_seeded (auc_init true auc_two_true) auc_bad_sched in
  auc_trace s = [AcResumeCall; AcResumeCall] /\ auc_altb true (auc_trace s) = false /\ auc_lock s = None.
Proof. exact auc_needs_locked_recheck. Qed.
Print Assumptions C10_once_needs_locked_recheck.

(* source fact: the tree as it is tests `paused' under the ObjectLock (fails to check when the translator
   positively recognises a SetAuthority that looks at `paused' only before taking the lock) *)
Theorem C10_source_locked_recheck : auc_recheck {| auc_fast := false; auc_recheck := au_recheck_now |} = true.
Proof. reflexivity. Qed.
Print Assumptions C10_source_locked_recheck.

(* the executable oracle run over implementation traces never fires on a trace the model produces *)
Theorem C10_oracle_accepts_model : forall p a b za zb objs evs,
  au_oracle p a b za zb objs (au_model_trace p (au_init a b za zb objs) evs) = None.
Proof. exact au_oracle_accepts_model. Qed.
Print Assumptions C10_oracle_accepts_model.

(* non-vacuity: endpoints "a" and "b", hosts "h1" and "h2": after both connected and ran,
   the premises of C10_split hold and the two objects are split (h1 on b, h2 on a) *)
Example C10_nonvacuous :
  let a := [97] in let b := [98] in
  let mk := fun nm k => {| au_o_name := nm; au_o_kind := k; au_o_active := true; au_o_once := true;
                           au_o_paused := true; au_o_pauses := 0; au_o_resumes := 0; au_o_stash := 0; au_o_sent := 0 |} in
  let objs := [mk [104; 49] AuHost; mk [104; 50] AuHost] in
  let evs := [(100, AuRun AuA); (100, AuRun AuB); (101, AuTimer AuA); (102, AuConnect AuA); (102, AuConnect AuB);
              (110, AuTimer AuA); (111, AuTimer AuB)] in
  let s := au_run_evs au_params_now (au_init a b (Some [a; b]) (Some [b; a]) objs) evs in
  au_n_last (au_s_a s) = Some (AuBy (au_sort [a; b])) /\ au_n_last (au_s_b s) = Some (AuBy (au_sort [a; b])) /\
  map au_o_paused (au_n_objs (au_s_a s)) = [true; false] /\ map au_o_paused (au_n_objs (au_s_b s)) = [false; true] /\
  map au_o_resumes (au_n_objs (au_s_a s)) = [0; 1].
Proof. vm_compute. repeat split. Qed.
