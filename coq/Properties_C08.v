(* C08 - the property theorems, nothing else.  Each is closed by [exact] of a lemma proved in
   Tp/*.v and followed by Print Assumptions.
   The model is the transcription of the tree WITH repo_patches/C08-remove-segment-boundaries.diff
   (tp_fixed = true); tp_fixed = false is the pinned tree and is used only by C08_remove_refuted. *)
From Icv Require Import Base.Tac Tp.TpModel Tp.TpProofs Tp.TpObs Tp.TpOracleProofs Tp.TpCal Tp.TpCivil Tp.TpCalObs Tp.TpCalProofs Tp.TpDst Tp.TpTab Tp.TpNth Tp.TpNorm Tp.TpParse Tp.TpParseProofs Tp.TpRoll Tp.TpRollProofs.
Local Open Scope Z_scope.

(* ---------------- M1: interval algebra, all segment lists, all instants ---------------- *)

(* AddSegment: the inside set grows by exactly [b, e) *)
Theorem C08_add : forall b e l t,
  tp_inside_segs (tp_add_segs b e l) t = true <-> tp_inside_segs l t = true \/ b <= t < e.
Proof. exact tp_add_spec. Qed.
Print Assumptions C08_add.

(* overlapping or adjacent ranges behave as their union *)
Theorem C08_union : forall b1 e1 b2 e2 l t,
  b1 <= b2 <= e1 -> e1 <= e2 ->
  (tp_inside_segs (tp_add_segs b2 e2 (tp_add_segs b1 e1 l)) t = true <->
   tp_inside_segs l t = true \/ b1 <= t < e2).
Proof. exact tp_union_spec. Qed.
Print Assumptions C08_union.

(* RemoveSegment (fixed tree): exactly [b, e) is removed, also when it shares its begin or end with a segment *)
Theorem C08_remove : forall b e l t,
  tp_inside_segs (tp_remove_segs true b e l) t = true <-> tp_inside_segs l t = true /\ ~ (b <= t < e).
Proof. exact tp_remove_spec. Qed.
Print Assumptions C08_remove.

(* F-C08-a: on the pinned tree the same statement is false; removing [9,10) or [16,17) from [9,17) changes nothing *)
Theorem C08_remove_refuted :
  (exists b e l t, ~ (tp_inside_segs (tp_remove_segs false b e l) t = true <->
                      tp_inside_segs l t = true /\ ~ (b <= t < e))) /\
  tp_remove_segs false 9 10 [(9, 17)] = [(9, 17)] /\
  tp_remove_segs false 16 17 [(9, 17)] = [(9, 17)].
Proof. exact tp_remove_pinned_refuted. Qed.
Print Assumptions C08_remove_refuted.

(* PurgeSegments(e) changes nothing from e on *)
Theorem C08_purge : forall e s t, e <= t ->
  tp_inside_segs (tp_segs (tp_purge e s)) t = tp_inside_segs (tp_segs s) t.
Proof. exact tp_purge_spec. Qed.
Print Assumptions C08_purge.

(* UpdateRegion: at every instant of the refreshed window (valid_begin/valid_end cover it, so IsInside
   consults the segments) IsInside is  prefer_includes ? (own /\ ~E) \/ I : (own \/ I) /\ ~E
   with own = what the update function returned (plus, outside [b',e), what was there before) *)
Theorem C08_update_region : forall upd prefer incs excs b e clear s t,
  (clear = false -> tp_ve_num s <= e) ->
  tp_upd_begin b clear s <= t <= e ->
  tp_is_inside (tp_update_region true upd prefer incs excs b e clear s) t =
  tp_region_spec prefer (tp_own_after upd b e clear s t) (tp_inside_any incs t) (tp_inside_any excs t).
Proof. exact tp_update_region_is_inside. Qed.
Print Assumptions C08_update_region.

Theorem C08_update_region_own : forall upd b e clear s t,
  tp_upd_begin b clear s <= t < e ->
  tp_own_after upd b e clear s t = tp_inside_segs (upd (tp_upd_begin b clear s) e) t.
Proof. exact tp_own_after_window. Qed.
Print Assumptions C08_update_region_own.

(* the executable oracle that is run over implementation traces never fires on a trace of the model *)
Theorem C08_oracle_accepts_model : forall ma probes ops,
  tp_oracle ma probes (tp_model_trace ma probes tp_empty ops) = None.
Proof. exact tp_oracle_accepts_model. Qed.
Print Assumptions C08_oracle_accepts_model.

(* ---------------- rolling updates: Start() and the 5-minute timer, over any length of time ----------------
   A period is started (UpdateRegion(now, now + 24 h, true)) and then goes through ANY sequence of timer rounds
   (PurgeSegments(now - 3600); UpdateRegion(valid_end, now + 24 h, false)), each round seeing the referenced periods'
   segment arrays as they are at that moment - computed earlier in the same round, or not yet (tp_rround).
   Hypotheses (Tp/TpRoll.v, Section Rolling):
     ownP            the period's own definition as a set of instants; the update function never reports an instant
                     outside it, answers completely from the region's begin up to hz e >= e, and returns no segment
                     ending after hz e (for the calendar function: hz e = the end of the last local day the day loop
                     visits, or the end of a range of such a day running past it);
     tp_round_ok     no segment of a referenced period begins after hz (now + 24 h);
     tp_round_mono   the clock does not go back, and from one hour before a round on the referenced periods' inside
                     sets only grow from one round to the next (true for periods without includes/excludes of their own).
   Then at every instant from one hour before the last round (not before the start) up to valid_end, IsInside is
       prefer_includes ? (own /\ ~E) \/ I : (own \/ I) /\ ~E
   with I, E read from the referenced periods as they were at the period's last round that was not UpdateRegion's
   early return (snd of tp_roll; C08_rolling_view: that is the current round whenever valid_end <= now + 24 h). *)
Theorem C08_rolling_updates : forall (ownP : Z -> bool) upd hz prefer ma,
  (forall b e t, tp_inside_segs (upd b e) t = true -> ownP t = true) ->
  (forall b e t, b <= e -> b <= t < hz e -> tp_inside_segs (upd b e) t = ownP t) ->
  (forall e, e <= hz e) ->
  (forall b e sg, In sg (upd b e) -> snd sg <= hz e) ->
  forall r0 rs,
  tp_round_ok hz r0 -> tp_env_ok hz r0 rs ->
  let s := fst (tp_roll ma upd prefer r0 rs) in
  let rl := snd (tp_roll ma upd prefer r0 rs) in
  forall t, Z.max (tp_rr_now r0) (tp_rr_now (last rs r0) - 3600) <= t < tp_ve_num s ->
    tp_is_inside s t =
    tp_region_spec prefer (ownP t) (tp_inside_any (tp_rr_incs rl) t) (tp_inside_any (tp_rr_excs rl) t).
Proof. exact tp_rolling_updates. Qed.
Print Assumptions C08_rolling_updates.

Theorem C08_rolling_view : forall upd prefer ma r0 rs r,
  tp_roll_effective r (fst (tp_roll ma upd prefer r0 rs)) = true ->
  snd (tp_roll ma upd prefer r0 (rs ++ [r])) = r.
Proof. exact tp_rolling_view. Qed.
Print Assumptions C08_rolling_view.

(* the oracle check of a timer round (run over the implementation's IsInside bits at the probes) accepts the model ... *)
Theorem C08_rolling_oracle_accepts_model : forall (ownP : Z -> bool) upd hz prefer ma,
  (forall b e t, tp_inside_segs (upd b e) t = true -> ownP t = true) ->
  (forall b e t, b <= e -> b <= t < hz e -> tp_inside_segs (upd b e) t = ownP t) ->
  (forall e, e <= hz e) ->
  (forall b e sg, In sg (upd b e) -> snd sg <= hz e) ->
  forall r0 rs probes,
  tp_round_ok hz r0 -> tp_env_ok hz r0 rs ->
  let s := fst (tp_roll ma upd prefer r0 rs) in
  let rl := snd (tp_roll ma upd prefer r0 rs) in
  tp_roll_answers_ok prefer (Z.max (tp_rr_now r0) (tp_rr_now (last rs r0) - 3600)) (tp_ve_num s)
    (map (fun t => (t, (tp_is_inside s t, ownP t),
                    (tp_inside_any (tp_rr_incs rl) t, tp_inside_any (tp_rr_excs rl) t))) probes) = None.
Proof. exact tp_roll_oracle_accepts_model. Qed.
Print Assumptions C08_rolling_oracle_accepts_model.

(* ... and rejects any observation with a wrong answer at a probe of [lo, valid_end) *)
Theorem C08_rolling_oracle_rejects_wrong_answer : forall prefer lo ve answers t o own i x,
  In (t, (o, own), (i, x)) answers -> lo <= t < ve -> o <> tp_region_spec prefer own i x ->
  tp_roll_answers_ok prefer lo ve answers <> None.
Proof. exact tp_roll_answers_rejects_wrong. Qed.
Print Assumptions C08_rolling_oracle_rejects_wrong_answer.

(* what C08_rolling_updates cannot say because the code does not do it - both reproduced on the real objects through
   the real UpdateTimerHandler (known findings reference-started-later, include-of-excluding-period):
   (1) the referenced periods are read as they were at the last round that recomputed, NOT as they are now: a period whose
       own segments reach past now + 24 h returns early from UpdateRegion round after round and merges nothing, so an
       excluded period that was started after it is ignored although all hypotheses hold *)
Theorem C08_rolling_current_view_refuted :
  let upd := fun b e : Z => [(b, e + 50000)] in
  let hz := fun e : Z => e + 50000 in
  let ownP := fun _ : Z => true in
  let x := [(1000, 2000)] in
  let r0 : tp_rround := (0, [], [[]]) in
  let rs : list tp_rround := [(300, [], [x]); (600, [], [x]); (900, [], [x])] in
  (forall b e t, tp_inside_segs (upd b e) t = true -> ownP t = true) /\
  (forall b e t, b <= e -> b <= t < hz e -> tp_inside_segs (upd b e) t = ownP t) /\
  (forall e, e <= hz e) /\
  (forall b e sg, In sg (upd b e) -> snd sg <= hz e) /\
  tp_round_ok hz r0 /\ tp_env_ok hz r0 rs /\
  snd (tp_roll false upd true r0 rs) = r0 /\
  tp_is_inside (fst (tp_roll false upd true r0 rs)) 1500 = true /\
  tp_region_spec true (ownP 1500) (tp_inside_any [] 1500) (tp_inside_any [x] 1500) = false.
Proof. exact tp_rolling_current_view_refuted. Qed.
Print Assumptions C08_rolling_current_view_refuted.

(* ... FIXED in the second form of UpdateRegion (repo_patches/C08-merge-references-every-round.diff: a call that has no
   stretch of the period's own to compute still merges the referenced periods, cut off at valid_end): the same witness
   answers "outside" at 1500 from the first round on, valid_end does not move in the rounds that only merge, and the view
   is always the last round's (C08_rolling_view_fixed).  WHAT REMAINS: with no round yet the state is that of Start() in
   both forms - a referenced period started later is not seen until the first timer round (at most 5 minutes). *)
Theorem C08_rolling_current_view_fixed :
  let upd := fun b e : Z => [(b, e + 50000)] in
  let x := [(1000, 2000)] in
  let r0 : tp_rround := (0, [], [[]]) in
  let r1 : tp_rround := (300, [], [x]) in
  let rs : list tp_rround := [r1; (600, [], [x]); (900, [], [x])] in
  snd (tp_roll true upd true r0 rs) = (900, [], [x]) /\
  tp_is_inside (fst (tp_roll true upd true r0 [r1])) 1500 = false /\
  tp_is_inside (fst (tp_roll true upd true r0 rs)) 1500 = false /\
  tp_is_inside (fst (tp_roll true upd true r0 rs)) 2500 = true /\
  tp_ve_num (fst (tp_roll true upd true r0 rs)) = tp_ve_num (fst (tp_roll true upd true r0 [])) /\
  tp_is_inside (fst (tp_roll true upd true r0 [])) 1500 = true /\
  fst (tp_roll true upd true r0 []) = fst (tp_roll false upd true r0 []).
Proof. exact tp_rolling_current_view_fixed. Qed.
Print Assumptions C08_rolling_current_view_fixed.

Theorem C08_rolling_view_fixed : forall upd prefer r0 rs, snd (tp_roll true upd prefer r0 rs) = last rs r0.
Proof. exact tp_rolling_view_fixed. Qed.
Print Assumptions C08_rolling_view_fixed.

(* the two forms of UpdateRegion differ only in the call that has no stretch of the period's own to compute; there the
   second form leaves valid_end alone and, below it, unites / subtracts the referenced periods with the old answer in
   the place of "own" (so every single-call theorem above holds for both forms) *)
Theorem C08_update_region_forms : forall ma upd prefer incs excs b e clear s,
  (clear = false -> tp_ve_num s <= e) ->
  tp_update_region_ma true ma upd prefer incs excs b e clear s = tp_update_region true upd prefer incs excs b e clear s.
Proof. exact (tp_update_region_ma_effective true). Qed.
Print Assumptions C08_update_region_forms.

Theorem C08_update_region_merge_only : forall upd prefer incs excs b e s v,
  tp_ve s = Some v -> e < v ->
  tp_update_region_ma true false upd prefer incs excs b e false s = s /\
  tp_ve (tp_update_region_ma true true upd prefer incs excs b e false s) = Some v /\
  forall t, t < v ->
    tp_inside_segs (tp_segs (tp_update_region_ma true true upd prefer incs excs b e false s)) t =
    tp_region_spec prefer (tp_inside_segs (tp_segs s) t) (tp_inside_any incs t) (tp_inside_any excs t).
Proof.
  intros upd prefer incs excs b e s v Hv He.
  assert (tp_ve_num s = v) as Hn by (unfold tp_ve_num; rewrite Hv; reflexivity).
  unfold tp_update_region_ma. rewrite Hn. assert ((negb false && (e <? v)) = true) as -> by (cbn; lia).
  destruct (tp_merge_only_spec prefer incs excs s v Hv) as [H1 H2].
  split; [reflexivity|]. split; [exact H1|]. intros t Ht. rewrite H2. unfold tp_below.
  assert ((t <? v) = true) as -> by lia. reflexivity.
Qed.
Print Assumptions C08_update_region_merge_only.

(* the third form fact was recognised in the source *)
Theorem C08_update_region_form_recognised : Facts.Facts_c08.f_tp_merge_always <> None.
Proof. discriminate. Qed.
Print Assumptions C08_update_region_form_recognised.

(* (2) tp_round_mono cannot be dropped: what an included period wrongly reported for one round (it excludes a third period
       that is updated after it) stays in the including period for good *)
Theorem C08_rolling_needs_monotone_refuted : forall ma : bool,
  let upd := fun _ _ : Z => @nil tp_seg in
  let hz := fun e : Z => e in
  let r0 : tp_rround := (0, [[(0, 86400)]], []) in
  let r1 : tp_rround := (4000, [[(0, 90400)]], []) in
  let r2 : tp_rround := (4300, [[(0, 90000); (90400, 90700)]], []) in
  tp_round_ok hz r0 /\ tp_round_ok hz r1 /\ tp_round_ok hz r2 /\
  snd (tp_roll ma upd true r0 [r1; r2]) = r2 /\
  tp_ve_num (fst (tp_roll ma upd true r0 [r1; r2])) = 90700 /\
  tp_is_inside (fst (tp_roll ma upd true r0 [r1; r2])) 90200 = true /\
  tp_region_spec true false (tp_inside_any (tp_rr_incs r2) 90200) (tp_inside_any (tp_rr_excs r2) 90200) = false.
Proof. exact tp_rolling_needs_monotone_refuted. Qed.
Print Assumptions C08_rolling_needs_monotone_refuted.

(* not vacuous: "always" (own = everything, the update function returns the region itself) excluding a period that is
   updated AFTER it in every round: the excluded stretch of the second day, which the excluded period computes only
   after "always" has computed that region, is outside once the next round has run *)
Example C08_nonvacuous_rolling :
  let upd := fun b e : Z => [(b, e)] in
  let x1 := [(1000, 2000)] in
  let x2 := [(1000, 2000); (86400 + 400, 86400 + 450)] in
  let r0 : tp_rround := (0, [], [x1]) in
  let rs : list tp_rround := [(300, [], [x1]); (600, [], [x2]); (900, [], [x2])] in
  tp_round_ok (fun e => e) r0 /\ tp_env_ok (fun e => e) r0 rs /\
  tp_ve_num (fst (tp_roll false upd true r0 rs)) = 86400 + 900 /\
  tp_is_inside (fst (tp_roll false upd true r0 rs)) 1500 = false /\
  tp_is_inside (fst (tp_roll false upd true r0 rs)) (86400 + 420) = false /\
  tp_is_inside (fst (tp_roll false upd true r0 rs)) (86400 + 500) = true /\
  tp_is_inside (fst (tp_roll false upd true r0 [(300, [], [x1]); (600, [], [x1])])) (86400 + 420) = true.
Proof.
  cbv zeta.
  assert (forall a b t, tp_inside_any (tp_rr_excs a) t = true ->
          (forall sg, In sg (concat (tp_rr_excs a)) -> In sg (concat (tp_rr_excs b))) ->
          tp_inside_any (tp_rr_excs b) t = true) as Hsub.
  { intros a b t H Hs. rewrite tp_inside_any_concat in *. unfold tp_inside_segs in *. apply existsb_exists in H.
    destruct H as (sg & Hin & H). apply existsb_exists. exists sg. split; [apply Hs, Hin|exact H]. }
  assert (forall (r : tp_rround), (forall sg, In sg (concat (tp_rr_excs r)) -> fst sg <= tp_rr_now r + 86400) ->
          tp_rr_incs r = [] -> tp_round_ok (fun e => e) r) as Hok.
  { intros r H Hi sg Hin. rewrite Hi in Hin. exact (H sg Hin). }
  split; [|split].
  - apply Hok; [|reflexivity]. intros sg Hin. cbn in Hin. destruct Hin as [<-|[]]. cbn. lia.
  - cbn [tp_env_ok]. repeat split; try (cbn; lia); try (intros Hq; exact Hq);
      try (apply Hok; [|reflexivity]; intros sg Hin; cbn in Hin; intuition (subst; cbn; lia));
      try (intros Hq; apply (Hsub _ _ _ Hq); intros sg Hin; cbn in *; tauto).
  - vm_compute. repeat split; reflexivity.
Qed.

(* ---------------- M2: calendar ----------------
   The model follows the source in two places, read from the regenerated facts Facts/Facts_c08.v:
     rnd  (tp_src_stride_round)  the day number of a stride in IsInTimeRange: false = (tsref - tsbegin) / 86400 (pinned,
          finding stride-dst), true = rounded to the nearest day (repo_patches/C08-stride-dst.diff);
     lb   (tp_src_lookback)      the day loop of ScriptFunc: false = from the region's first local day (pinned, finding
          wrap-first-day), true = from the day before, keeping what ends after the region's begin
          (repo_patches/C08-wrap-first-day.diff).
   The theorems are stated for both forms (rnd, lb universally quantified); C08_ranges_current_source is the instance
   for the source as it is, C08_ranges_repaired the one with both repairs, which has no finding hypothesis left. *)

(* both forms were recognised in the source (stops compiling when IsInTimeRange / the day loop change shape) *)
Theorem C08_source_forms_recognised :
  Facts.Facts_c08.f_tp_stride_round <> None /\ Facts.Facts_c08.f_tp_loop_lookback <> None.
Proof. split; discriminate. Qed.
Print Assumptions C08_source_forms_recognised.

(* any local time (off, mk arbitrary - also across DST): the produced segments are exactly the mktime
   images of the time ranges of the days the loop visits and IsInDayDefinition accepts (in form lb: as far as instants
   from the region's begin on are concerned - what ended before it is not reported).  (What that means in
   wall-clock terms on transition days: C08_ranges / C08_dst / C08_day_loop below.) *)
Theorem C08_segments_general : forall mk rnd lb off ranges b e t,
  lb = false \/ b <= t ->
  tp_inside_segs (tp_script_func off mk rnd lb ranges b e) t =
  existsb (fun d => existsb (fun kv => tp_in_day_def mk rnd (fst kv) d &&
                                       existsb (fun tr => tp_in_time_range_mk mk d tr t) (snd kv)) ranges)
          (tp_loop_days mk (tp_loop_fuel b e) (tp_first_day off lb b) e).
Proof. exact tp_script_func_general. Qed.
Print Assumptions C08_segments_general.

(* fixed UTC offset c (no transition in reach), either form: inside the window an instant is in a produced segment iff
   its local day, or one of the three days before, matches a day definition (calendar-day stride) one of
   whose time ranges (24:00 end, wrap past midnight, >24 h) contains its wall-clock time -
   provided no range of a day BEFORE the loop's first day reaches it (pinned loop: the negated signature of
   F-C08-b, see C08_wrap_refuted; loop started a day early: see C08_ranges_fixed_offset_lookback). *)
Theorem C08_ranges_fixed_offset_partial : forall c rnd lb ranges b e t,
  b <= t < e -> tp_ranges_bounded ranges ->
  (forall d, d < tp_first_day (fun _ => c) lb b ->
             tp_day_covers (fun _ => c) (fun l => l - c) false ranges d t = false) ->
  tp_inside_segs (tp_script_func (fun _ => c) (fun l => l - c) rnd lb ranges b e) t =
  tp_spec_inside (fun _ => c) (fun l => l - c) false None tp_back ranges t.
Proof. exact tp_ranges_fixed_offset. Qed.
Print Assumptions C08_ranges_fixed_offset_partial.

(* ... with the loop started a day early the hypothesis is gone for ranges ending at most 48 h after 00:00 of their day *)
Theorem C08_ranges_fixed_offset_lookback : forall c rnd ranges b e t,
  b <= t < e -> tp_ranges_bounded ranges -> tp_ranges_reach1 ranges ->
  tp_inside_segs (tp_script_func (fun _ => c) (fun l => l - c) rnd true ranges b e) t =
  tp_spec_inside (fun _ => c) (fun l => l - c) false None tp_back ranges t.
Proof. intros c rnd ranges b e t. exact (tp_ranges_fixed_offset_lookback c rnd true ranges b e t eq_refl). Qed.
Print Assumptions C08_ranges_fixed_offset_lookback.

(* ... and without any such hypothesis: the statement restricted to days from the loop's first day on *)
Theorem C08_ranges_from_first_day : forall c rnd lb ranges b e t,
  b <= t < e -> tp_ranges_bounded ranges ->
  tp_inside_segs (tp_script_func (fun _ => c) (fun l => l - c) rnd lb ranges b e) t =
  tp_spec_inside (fun _ => c) (fun l => l - c) false (Some (tp_first_day (fun _ => c) lb b)) tp_back ranges t.
Proof. exact tp_script_func_const. Qed.
Print Assumptions C08_ranges_from_first_day.

(* what tp_spec_inside means *)
Theorem C08_spec_meaning : forall c ranges t,
  tp_spec_inside (fun _ => c) (fun l => l - c) false None tp_back ranges t = true <->
  exists d dd trs tr, tp_local_day (fun _ => c) t - 3 <= d <= tp_local_day (fun _ => c) t /\
    In (dd, trs) ranges /\ In tr trs /\ tp_day_matches dd d = true /\
    d * 86400 + fst tr <= t + c < d * 86400 + (if snd tr <=? fst tr then snd tr + 86400 else snd tr).
Proof. exact tp_spec_inside_iff. Qed.
Print Assumptions C08_spec_meaning.

(* the calendar oracle run over implementation traces accepts what the model computes for a zone without
   transitions, in either form, outside what is left of F-C08-b (no range of a day before the loop's first day reaches
   a probe), whenever the probes of the case cover what the written ranges ask for (allr = the ranges of every period of the case) *)
Theorem C08_calendar_oracle_accepts_model_partial : forall c rnd lb ma allr ranges prefer incs excs b e clear probes pre,
  tp_ranges_bounded ranges ->
  let off := fun _ : Z => c in
  let mk := fun l : Z => l - c in
  let post := tp_update_region_ma true ma (tp_script_func off mk rnd lb ranges) prefer incs excs b e clear pre in
  tp_probes_cover probes (tp_spec_bounds c [] allr (tp_upd_begin b clear pre) e) = true ->
  (forall t d, In t probes -> tp_upd_begin b clear pre <= t < e ->
               d < tp_first_day off lb (tp_upd_begin b clear pre) -> tp_day_covers off mk false ranges d t = false) ->
  tp_cal_step_ok c [] ma allr ranges prefer incs excs b e clear probes pre post (map (tp_is_inside post) probes) = None.
Proof. exact tp_cal_step_ok_model_const. Qed.
Print Assumptions C08_calendar_oracle_accepts_model_partial.

(* the oracle decides on the implementation's IsInside answers: for ANY observation (segments, window, answers - nothing
   is assumed about where they come from) of an UpdateRegion call that is not the early return, an answer at a probe of
   the computed window [b', e) that differs from the statement
       prefer_includes ? (own /\ ~E) \/ I : (own \/ I) /\ ~E,   own = wall-clock statement over the WRITTEN ranges
   makes the oracle report the step (any time zone table) *)
Theorem C08_oracle_rejects_wrong_answer : forall base tab ma allr ranges prefer incs excs b e clear probes pre post ins t o,
  (negb clear && (e <? tp_ve_num pre)) = false ->
  In (t, o) (combine probes ins) ->
  tp_upd_begin b clear pre <= t < e ->
  o <> tp_region_spec prefer (tp_spec_inside (tp_tab_off base tab) (tp_tab_mk base tab) false None tp_back ranges t)
                      (tp_inside_any incs t) (tp_inside_any excs t) ->
  tp_cal_step_ok base tab ma allr ranges prefer incs excs b e clear probes pre post ins <> None.
Proof. exact tp_cal_step_rejects_wrong_answer. Qed.
Print Assumptions C08_oracle_rejects_wrong_answer.

(* ... at instants chosen from the specification: it reports the step (class "probes") unless the probes contain both
   boundaries of every written time range of every period of the case on every day that can reach the window, the two
   neighbours of each, and an instant in the middle half of every gap between consecutive boundaries *)
Theorem C08_oracle_needs_spec_probes : forall base tab ma allr ranges prefer incs excs b e clear probes pre post ins,
  (negb clear && (e <? tp_ve_num pre)) = false ->
  tp_probes_cover probes (tp_spec_bounds base tab allr (tp_upd_begin b clear pre) e) = false ->
  tp_cal_step_ok base tab ma allr ranges prefer incs excs b e clear probes pre post ins <> None.
Proof. exact tp_cal_step_needs_spec_probes. Qed.
Print Assumptions C08_oracle_needs_spec_probes.

Theorem C08_probes_cover_meaning : forall probes bounds u,
  tp_probes_cover probes bounds = true -> In u bounds -> In (u - 1) probes /\ In u probes /\ In (u + 1) probes.
Proof. exact tp_probes_cover_bounds. Qed.
Print Assumptions C08_probes_cover_meaning.

(* ---------------- M2 across DST transitions (23 h / 25 h days) ----------------
   off : UTC offset in force at a UTC instant, with the hypotheses of DESIGN section 2 C08: |off| < 24 h, two
   instants at which the offset changes are at least 2 days apart.  tp_good off mk L: the local time L exists
   exactly once and mk returns its instant; tp_needed_list: the local times mktime is asked about for the
   window (00:00 of the visited days and of the day after, of each day definition's first/last+1 day, both
   boundaries of every time range on the visited days). *)

(* the key lemma: an exactly-once local time splits the time line exactly like its instant does *)
Theorem C08_local_time_key : forall off,
  (forall t, -86400 < off t < 86400) ->
  (forall s1 s2, s1 < s2 -> off (s1 - 1) <> off s1 -> off (s2 - 1) <> off s2 -> s1 + 172800 <= s2) ->
  forall L t1, t1 + off t1 = L -> (forall t', t' + off t' = L -> t' = t1) ->
  forall t, t1 <= t <-> L <= t + off t.
Proof. exact tp_key. Qed.
Print Assumptions C08_local_time_key.

(* (2) the day loop of ScriptFunc(begin, end) visits exactly the local calendar days that meet [begin, end] - and, when
   it is started a day early (lb), the local day before begin's *)
Theorem C08_day_loop : forall off,
  (forall t, -86400 < off t < 86400) ->
  (forall s1 s2, s1 < s2 -> off (s1 - 1) <> off s1 -> off (s2 - 1) <> off s2 -> s1 + 172800 <= s2) ->
  forall mk lb b e r, b <= e ->
  tp_good off mk (tp_local_day off b * 86400) ->
  (forall d, tp_first_day off lb b <= d <= tp_local_day off e + 1 -> tp_good off mk (d * 86400)) ->
  (In r (tp_loop_days mk (tp_loop_fuel b e) (tp_first_day off lb b) e) <->
   (lb = true /\ r = tp_local_day off b - 1) \/ exists t, b <= t <= e /\ tp_local_day off t = r).
Proof. exact tp_day_loop_days. Qed.
Print Assumptions C08_day_loop.

(* (1) C08_ranges for any such local time and either form of the source: for every instant t of the window (to the
   second, all instants of transition days included) t lies in a produced segment iff its local calendar day, or one of
   the three before (ranges running past midnight), matches a day definition one of whose time ranges contains its
   wall-clock time.  Visible hypotheses: the boundaries exist exactly once (the property's restriction);
   for the stride, pinned day number: seconds/86400 = calendar distance (negated signature of F-C08-c), rounded day
   number: the zone's offsets differ by less than 12 h; and no range of a day before the loop's first day reaches t
   (pinned loop: negated signature of F-C08-b; loop started a day early: C08_ranges_lookback). *)
Theorem C08_ranges : forall off,
  (forall t, -86400 < off t < 86400) ->
  (forall s1 s2, s1 < s2 -> off (s1 - 1) <> off s1 -> off (s2 - 1) <> off s2 -> s1 + 172800 <= s2) ->
  forall mk (rnd lb : bool) ranges b e t,
  b <= t <= e -> tp_ranges_bounded ranges ->
  (forall L, In L (tp_needed_list off lb ranges b e) -> tp_good off mk L) ->
  tp_good off mk (tp_local_day off b * 86400) ->
  (if rnd then forall t t', off t - off t' < 43200
   else forall d kv, tp_first_day off lb b <= d <= tp_local_day off e -> In kv ranges ->
                     tp_day_matches_secs mk (fst kv) d = tp_day_matches (fst kv) d) ->
  (forall d, d < tp_first_day off lb b -> tp_day_covers off mk false ranges d t = false) ->
  tp_inside_segs (tp_script_func off mk rnd lb ranges b e) t = tp_spec_inside off mk false None tp_back ranges t.
Proof. exact tp_ranges_dst. Qed.
Print Assumptions C08_ranges.

(* ... the loop started a day early: nothing of F-C08-b is left for ranges that end at most 48 h after 00:00 of their day *)
Theorem C08_ranges_lookback : forall off,
  (forall t, -86400 < off t < 86400) ->
  (forall s1 s2, s1 < s2 -> off (s1 - 1) <> off s1 -> off (s2 - 1) <> off s2 -> s1 + 172800 <= s2) ->
  forall mk (rnd : bool) ranges b e t,
  b <= t <= e -> tp_ranges_bounded ranges -> tp_ranges_reach1 ranges ->
  (forall L, In L (tp_needed_list off true ranges b e) -> tp_good off mk L) ->
  tp_good off mk (tp_local_day off b * 86400) ->
  (if rnd then forall t t', off t - off t' < 43200
   else forall d kv, tp_first_day off true b <= d <= tp_local_day off e -> In kv ranges ->
                     tp_day_matches_secs mk (fst kv) d = tp_day_matches (fst kv) d) ->
  tp_inside_segs (tp_script_func off mk rnd true ranges b e) t = tp_spec_inside off mk false None tp_back ranges t.
Proof. intros off Hb Hs mk rnd ranges b e t. exact (tp_ranges_lookback_dst off Hb Hs mk rnd true ranges b e t eq_refl). Qed.
Print Assumptions C08_ranges_lookback.

(* ... the same with mktime DEFINED as the unique instant (searched in (L - 24 h, L + 24 h)) *)
Theorem C08_dst : forall off (rnd lb : bool) ranges b e t,
  (forall t, -86400 < off t < 86400) ->
  (forall s1 s2, s1 < s2 -> off (s1 - 1) <> off s1 -> off (s2 - 1) <> off s2 -> s1 + 172800 <= s2) ->
  b <= t <= e -> tp_ranges_bounded ranges ->
  (forall L, In L (tp_needed_list off lb ranges b e) -> tp_once off L) ->
  tp_once off (tp_local_day off b * 86400) ->
  (if rnd then forall t t', off t - off t' < 43200
   else forall d kv, tp_first_day off lb b <= d <= tp_local_day off e -> In kv ranges ->
                     tp_day_matches_secs (tp_mk_def off) (fst kv) d = tp_day_matches (fst kv) d) ->
  (forall d, d < tp_first_day off lb b -> tp_day_covers off (tp_mk_def off) false ranges d t = false) ->
  tp_inside_segs (tp_script_func off (tp_mk_def off) rnd lb ranges b e) t =
  tp_spec_inside off (tp_mk_def off) false None tp_back ranges t.
Proof. exact tp_ranges_dst_mk_def. Qed.
Print Assumptions C08_dst.

(* ... without the finding hypotheses: the statement with the stride as the form at hand counts it (pinned: seconds,
   rounded: calendar days) and days from the loop's first day on - exactly what the recorded findings leave *)
Theorem C08_ranges_as_implemented : forall off,
  (forall t, -86400 < off t < 86400) ->
  (forall s1 s2, s1 < s2 -> off (s1 - 1) <> off s1 -> off (s2 - 1) <> off s2 -> s1 + 172800 <= s2) ->
  forall mk rnd lb ranges b e t,
  b <= t <= e -> tp_ranges_bounded ranges ->
  (forall L, In L (tp_needed_list off lb ranges b e) -> tp_good off mk L) ->
  tp_good off mk (tp_local_day off b * 86400) ->
  (rnd = true -> forall t t', off t - off t' < 43200) ->
  tp_inside_segs (tp_script_func off mk rnd lb ranges b e) t =
  tp_spec_inside off mk (negb rnd) (Some (tp_first_day off lb b)) tp_back ranges t.
Proof. exact tp_script_func_dst. Qed.
Print Assumptions C08_ranges_as_implemented.

(* the executable tables: every premise about local time is a boolean the oracle COMPUTES per case
   (tp_cal_hyps_ok = table ascending, transitions >= 2 days apart, |offset| < 24 h, every needed local
   time exists exactly once with tp_tab_mk returning its instant and, for the rounded day number, the table's offsets
   differ by less than 12 h) *)
Theorem C08_ranges_table : forall rnd lb base tab ranges b e t,
  tp_cal_hyps_ok rnd lb base tab ranges b e = true ->
  b <= t <= e -> tp_ranges_bounded ranges ->
  (rnd = false -> forall d kv, tp_first_day (tp_tab_off base tab) lb b <= d <= tp_local_day (tp_tab_off base tab) e -> In kv ranges ->
                tp_day_matches_secs (tp_tab_mk base tab) (fst kv) d = tp_day_matches (fst kv) d) ->
  (forall d, d < tp_first_day (tp_tab_off base tab) lb b ->
             tp_day_covers (tp_tab_off base tab) (tp_tab_mk base tab) false ranges d t = false) ->
  tp_inside_segs (tp_script_func (tp_tab_off base tab) (tp_tab_mk base tab) rnd lb ranges b e) t =
  tp_spec_inside (tp_tab_off base tab) (tp_tab_mk base tab) false None tp_back ranges t.
Proof. exact tp_ranges_table. Qed.
Print Assumptions C08_ranges_table.

(* THE SOURCE WITH BOTH REPAIRS: for ranges that end at most 48 h after 00:00 of their day (24:00 ends, ranges wrapping
   past midnight) the computed hypotheses are all that is asked; no finding's signature is left *)
Theorem C08_ranges_repaired : forall base tab ranges b e t,
  tp_cal_hyps_ok true true base tab ranges b e = true ->
  b <= t <= e -> tp_ranges_bounded ranges -> tp_ranges_reach1 ranges ->
  tp_inside_segs (tp_script_func (tp_tab_off base tab) (tp_tab_mk base tab) true true ranges b e) t =
  tp_spec_inside (tp_tab_off base tab) (tp_tab_mk base tab) false None tp_back ranges t.
Proof. exact tp_ranges_table_repaired. Qed.
Print Assumptions C08_ranges_repaired.

(* THE SOURCE AS IT IS NOW (forms read from the regenerated facts): per repair either the negated signature of the
   finding (pinned form) or the condition under which the repaired form is exact *)
Theorem C08_ranges_current_source : forall base tab ranges b e t,
  tp_cal_hyps_ok tp_src_stride_round tp_src_lookback base tab ranges b e = true ->
  b <= t <= e -> tp_ranges_bounded ranges ->
  (tp_src_stride_round = false ->
     forall d kv, tp_first_day (tp_tab_off base tab) tp_src_lookback b <= d <= tp_local_day (tp_tab_off base tab) e -> In kv ranges ->
                  tp_day_matches_secs (tp_tab_mk base tab) (fst kv) d = tp_day_matches (fst kv) d) ->
  (if tp_src_lookback then tp_ranges_reach1 ranges
   else forall d, d < tp_local_day (tp_tab_off base tab) b ->
                  tp_day_covers (tp_tab_off base tab) (tp_tab_mk base tab) false ranges d t = false) ->
  tp_inside_segs (tp_script_func (tp_tab_off base tab) (tp_tab_mk base tab) tp_src_stride_round tp_src_lookback ranges b e) t =
  tp_spec_inside (tp_tab_off base tab) (tp_tab_mk base tab) false None tp_back ranges t.
Proof. exact (tp_ranges_table_form tp_src_stride_round tp_src_lookback). Qed.
Print Assumptions C08_ranges_current_source.

Theorem C08_table_hypotheses : forall base tab,
  tp_tab_ok base tab = true ->
  (forall t, -86400 < tp_tab_off base tab t < 86400) /\
  (forall s1 s2, s1 < s2 ->
     tp_tab_off base tab (s1 - 1) <> tp_tab_off base tab s1 ->
     tp_tab_off base tab (s2 - 1) <> tp_tab_off base tab s2 -> s1 + 172800 <= s2).
Proof. exact tp_tab_hyps. Qed.
Print Assumptions C08_table_hypotheses.

(* (3) strides: the seconds/86400 day number is the calendar day distance when the offset is the same at the
   two midnights (no transition between the range's first day and the day), or trivially for stride <= 1 *)
Theorem C08_stride_no_transition : forall off,
  (forall t, -86400 < off t < 86400) ->
  (forall s1 s2, s1 < s2 -> off (s1 - 1) <> off s1 -> off (s2 - 1) <> off s2 -> s1 + 172800 <= s2) ->
  forall mk dd r,
  tp_good off mk (r * 86400) -> tp_good off mk (tp_range_begin_day dd r * 86400) ->
  off (tp_midnight mk r) = off (tp_midnight mk (tp_range_begin_day dd r)) ->
  tp_day_matches_secs mk dd r = tp_day_matches dd r.
Proof. exact tp_stride_same_offset. Qed.
Print Assumptions C08_stride_no_transition.

(* (3) the day number rounded to the nearest day (rnd = true) makes IsInDayDefinition the calendar statement across
   every transition - spring forward, fall back, 30-minute shifts - as long as the offsets at the two midnights differ
   by less than 12 h ... *)
Theorem C08_stride_rounded : forall off,
  (forall t, -86400 < off t < 86400) ->
  (forall s1 s2, s1 < s2 -> off (s1 - 1) <> off s1 -> off (s2 - 1) <> off s2 -> s1 + 172800 <= s2) ->
  forall mk dd r,
  tp_good off mk (r * 86400) -> tp_good off mk (tp_range_begin_day dd r * 86400) -> tp_good off mk (tp_range_end_day dd r * 86400) ->
  -43200 < off (tp_midnight mk r) - off (tp_midnight mk (tp_range_begin_day dd r)) < 43200 ->
  tp_in_day_def mk true dd r = tp_day_matches dd r.
Proof. exact tp_in_day_def_round. Qed.
Print Assumptions C08_stride_rounded.

(* ... and that condition cannot be dropped: a (synthetic) zone that jumps by 13 h *)
Theorem C08_stride_rounded_limit :
  let base := 0 in
  let tab := [(tp_days_from_civil 2034 3 26 * 86400 + 10800, 46800)] in
  let dd := {| tp_dr_first := TpDate 2034 3 25; tp_dr_last := Some (TpDate 2034 3 31); tp_dr_stride := 2 |} in
  let r := tp_days_from_civil 2034 3 27 in
  tp_tab_ok base tab = true /\ tp_tab_span_ok base tab = false /\
  forallb (tp_tab_good_b base tab) [r * 86400; tp_range_begin_day dd r * 86400; tp_range_end_day dd r * 86400] = true /\
  tp_day_matches dd r = true /\ tp_in_day_def (tp_tab_mk base tab) true dd r = false.
Proof. exact tp_stride_round_span_needed. Qed.
Print Assumptions C08_stride_rounded_limit.

(* (3) n-th weekday: the closed form used by the model has the weekday and lies in the n-th block of seven
   days from the first (n > 0) / from the last (n < 0) day of the month ... *)
Theorem C08_nth_weekday : forall wd n y m0,
  0 <= wd <= 6 -> n <> 0 ->
  let r := tp_find_nth_weekday wd n y m0 in
  let first := tp_days_from_civil y (m0 + 1) 1 in
  let last := tp_days_from_civil y (m0 + 2) 1 - 1 in
  tp_wday r = wd /\
  (0 < n -> first + 7 * (n - 1) <= r < first + 7 * n) /\
  (n < 0 -> last - 7 * (- n) < r <= last - 7 * (- n - 1)).
Proof. exact tp_find_nth_weekday_spec. Qed.
Print Assumptions C08_nth_weekday.

(* ... and is what the day-by-day loop of FindNthWeekday returns (on days whose midnight exists) *)
Theorem C08_nth_weekday_loop : forall wd n y m0 fuel,
  0 <= wd <= 6 -> (0 < n /\ 7 * n <= Z.of_nat fuel \/ n < 0 /\ 7 * (- n) <= Z.of_nat fuel) ->
  tp_find_nth_weekday_loop fuel wd n y m0 = Some (tp_find_nth_weekday wd n y m0).
Proof.
  intros wd n y m0 fuel Hwd [[H1 H2]|[H1 H2]];
    [exact (tp_find_nth_weekday_loop_forward wd n y m0 fuel Hwd H1 H2)
    |exact (tp_find_nth_weekday_loop_backward wd n y m0 fuel Hwd H1 H2)].
Qed.
Print Assumptions C08_nth_weekday_loop.

(* ... also with mktime's field normalisation in every iteration, as the code runs it (tp_norm_day = the civil day mktime
   leaves in the struct tm): across transitions too, as long as mktime keeps the civil day of the at most 7 |n| local
   midnights of the search (it does whenever they exist exactly once: C08_mktime_keeps_day) *)
Theorem C08_nth_weekday_mktime : forall off mk wd n y m0,
  0 <= wd <= 6 -> n <> 0 ->
  let first := tp_days_from_civil y (m0 + 1) 1 in
  let last := tp_days_from_civil y (m0 + 2) 1 - 1 in
  (forall d, (if 0 <? n then first <= d < first + 7 * n else last - 7 * (- n) < d <= last) -> tp_norm_day off mk d = d) ->
  tp_find_nth_weekday_loop_mk off mk (Z.to_nat (7 * Z.abs n)) wd n y m0 = Some (tp_find_nth_weekday wd n y m0).
Proof. exact tp_find_nth_weekday_mk. Qed.
Print Assumptions C08_nth_weekday_mktime.

Theorem C08_mktime_keeps_day : forall off mk d, tp_good off mk (d * 86400) -> tp_norm_day off mk d = d.
Proof. exact tp_norm_day_good. Qed.
Print Assumptions C08_mktime_keeps_day.

(* the day loop of ScriptFunc as the code runs it - advance_to_next_day lets mktime rewrite the reference in every step,
   form lb also the first day - produces exactly the segments of the model's civil-day loop, 23 h / 25 h days included *)
Theorem C08_day_loop_mktime : forall off mk rnd lb,
  (forall t, -86400 < off t < 86400) ->
  (forall s1 s2, s1 < s2 -> off (s1 - 1) <> off s1 -> off (s2 - 1) <> off s2 -> s1 + 172800 <= s2) ->
  forall ranges b e, b <= e ->
  tp_good off mk (tp_local_day off b * 86400) ->
  (forall d, tp_first_day off lb b <= d <= tp_local_day off e + 1 -> tp_good off mk (d * 86400)) ->
  tp_script_func_norm off mk rnd lb ranges b e = tp_script_func off mk rnd lb ranges b e.
Proof. exact tp_script_func_norm_eq. Qed.
Print Assumptions C08_day_loop_mktime.

(* known finding nth-weekday-zero-hang: for n = 0 ("monday 0") the loop returns nothing for ANY fuel *)
Theorem C08_nth_zero_refuted : forall fuel wd y m0, tp_find_nth_weekday_loop fuel wd 0 y m0 = None.
Proof. exact tp_find_nth_weekday_zero_diverges. Qed.
Print Assumptions C08_nth_zero_refuted.

(* F-C08-b (wrap-first-day), pinned loop: "friday" = "22:00-06:00", window computed afresh from Saturday 03:00
   (Europe/Berlin): Saturday 03:00 is inside by the statement, not by the produced segments *)
Theorem C08_wrap_refuted :
  let off := tp_tab_off tp_berlin_base tp_berlin_tab in
  let mk := tp_tab_mk tp_berlin_base tp_berlin_tab in
  let ranges := [({| tp_dr_first := TpWeekday 5 None None; tp_dr_last := None; tp_dr_stride := 1 |}, [(79200, 21600)])] in
  let b := mk (tp_days_from_civil 2033 6 4 * 86400 + 10800) in
  tp_tab_ok tp_berlin_base tp_berlin_tab = true /\
  tp_spec_inside off mk false None tp_back ranges b = true /\
  tp_inside_segs (tp_script_func off mk false false ranges b (b + 86400)) b = false /\
  tp_spec_inside off mk false (Some (tp_local_day off b)) tp_back ranges b = false.
Proof. exact tp_wrap_refuted. Qed.
Print Assumptions C08_wrap_refuted.

(* ... the same witness with the loop started a day early: [Friday 22:00, Saturday 06:00) is produced, Saturday 03:00 is
   inside; Friday's other range 08:00-09:00 ended before the region's begin and is not reported *)
Theorem C08_wrap_fixed :
  let off := tp_tab_off tp_berlin_base tp_berlin_tab in
  let mk := tp_tab_mk tp_berlin_base tp_berlin_tab in
  let ranges := [({| tp_dr_first := TpWeekday 5 None None; tp_dr_last := None; tp_dr_stride := 1 |}, [(28800, 32400); (79200, 21600)])] in
  let b := mk (tp_days_from_civil 2033 6 4 * 86400 + 10800) in
  tp_spec_inside off mk false None tp_back ranges b = true /\
  tp_inside_segs (tp_script_func off mk false true ranges b (b + 86400)) b = true /\
  tp_script_func off mk false true ranges b (b + 86400) = [(b - 18000, b + 10800)].
Proof. exact tp_wrap_fixed. Qed.
Print Assumptions C08_wrap_fixed.

(* F-C08-c (stride-dst), pinned day number: "2034-03-25 - 2034-03-31 / 2" across the spring-forward day 2034-03-26 (Europe/Berlin) *)
Theorem C08_stride_refuted :
  let off := tp_tab_off tp_berlin_base tp_berlin_tab in
  let mk := tp_tab_mk tp_berlin_base tp_berlin_tab in
  let ranges := [({| tp_dr_first := TpDate 2034 3 25; tp_dr_last := Some (TpDate 2034 3 31); tp_dr_stride := 2 |}, [(32400, 61200)])] in
  let b := mk (tp_days_from_civil 2034 3 26 * 86400 + 43200) in
  let noon27 := mk (tp_days_from_civil 2034 3 27 * 86400 + 43200) in
  let noon28 := mk (tp_days_from_civil 2034 3 28 * 86400 + 43200) in
  tp_spec_inside off mk false None tp_back ranges noon27 = true /\
  tp_inside_segs (tp_script_func off mk false false ranges b (b + 259200)) noon27 = false /\
  tp_spec_inside off mk false None tp_back ranges noon28 = false /\
  tp_inside_segs (tp_script_func off mk false false ranges b (b + 259200)) noon28 = true /\
  tp_spec_inside off mk true None tp_back ranges noon27 = false /\
  tp_spec_inside off mk true None tp_back ranges noon28 = true.
Proof. exact tp_stride_refuted. Qed.
Print Assumptions C08_stride_refuted.

(* ... the same witness with the rounded day number: the 27th matches, the 28th does not; likewise in autumn
   ("2034-10-28 - 2034-11-03 / 2" across the fall-back day 2034-10-29): the 30th matches, the 31st does not *)
Theorem C08_stride_fixed :
  let off := tp_tab_off tp_berlin_base tp_berlin_tab in
  let mk := tp_tab_mk tp_berlin_base tp_berlin_tab in
  let ranges := [({| tp_dr_first := TpDate 2034 3 25; tp_dr_last := Some (TpDate 2034 3 31); tp_dr_stride := 2 |}, [(32400, 61200)])] in
  let b := mk (tp_days_from_civil 2034 3 26 * 86400 + 43200) in
  let noon27 := mk (tp_days_from_civil 2034 3 27 * 86400 + 43200) in
  let noon28 := mk (tp_days_from_civil 2034 3 28 * 86400 + 43200) in
  let ranges' := [({| tp_dr_first := TpDate 2034 10 28; tp_dr_last := Some (TpDate 2034 11 3); tp_dr_stride := 2 |}, [(32400, 61200)])] in
  let b' := mk (tp_days_from_civil 2034 10 29 * 86400 + 43200) in
  let noon30 := mk (tp_days_from_civil 2034 10 30 * 86400 + 43200) in
  let noon31 := mk (tp_days_from_civil 2034 10 31 * 86400 + 43200) in
  tp_inside_segs (tp_script_func off mk true false ranges b (b + 259200)) noon27 = true /\
  tp_inside_segs (tp_script_func off mk true false ranges b (b + 259200)) noon28 = false /\
  tp_inside_segs (tp_script_func off mk true false ranges' b' (b' + 259200)) noon30 = true /\
  tp_inside_segs (tp_script_func off mk true false ranges' b' (b' + 259200)) noon31 = false /\
  tp_spec_inside off mk false None tp_back ranges' noon30 = true /\
  tp_spec_inside off mk false None tp_back ranges' noon31 = false.
Proof. exact tp_stride_fixed. Qed.
Print Assumptions C08_stride_fixed.

(* ---------------- M2: the strings ----------------
   tp_parse_daydef / tp_parse_timeranges (Tp/TpParse.v) transcribe ParseTimeRange, ParseTimeSpec and ProcessTimeRanges on
   byte strings (Split without token compression, Trim, Find("- "), boost::lexical_cast<long> incl. sign, range of long
   and narrowing to int).  vmodel and the oracle get their parsed forms from these functions applied to the very strings
   the code gets.  tp_print_* is the generator's printer in Gallina; the parser reads back what it writes: *)
Theorem C08_parse_print_spec : forall sp, tp_spec_wf sp -> tp_parse_spec (tp_print_spec sp) = Some sp.
Proof. exact tp_parse_print_spec. Qed.
Print Assumptions C08_parse_print_spec.

(* day definitions: single specification, "first - last" in full or with the second part shortened to its number
   ("day 1 - 15", "monday 1 - 3": short = true), optional " / stride" *)
Theorem C08_parse_print_daydef : forall short dd,
  tp_daydef_wf short dd -> tp_parse_daydef (tp_print_daydef short dd) = Some dd.
Proof. exact tp_parse_print_daydef. Qed.
Print Assumptions C08_parse_print_daydef.

(* time ranges "HH:MM[:SS]-HH:MM[:SS],...", every time below 100:00:00 *)
Theorem C08_parse_print_timeranges : forall l, l <> [] -> Forall tp_timerange_wf l ->
  tp_parse_timeranges (tp_print_timeranges l) = Some (map snd l).
Proof. exact tp_parse_print_timeranges. Qed.
Print Assumptions C08_parse_print_timeranges.

(* calendar arithmetic used by the model, for ALL day numbers / all valid dates (all of Z; the only
   computation is a sweep over one 400-year era, a finite domain, inside the proofs in Tp/TpCivil.v):
   days -> civil date -> days is the identity and the date is well-formed ... *)
Theorem C08_days_civil_days : forall z,
  let '(y, m, d) := tp_civil_from_days z in
  tp_days_from_civil y m d = z /\ 1 <= m <= 12 /\ 1 <= d <= 31.
Proof. exact tp_days_civil_days. Qed.
Print Assumptions C08_days_civil_days.

(* ... and civil date -> days -> civil date is the identity for every valid Gregorian date *)
Theorem C08_civil_days_civil : forall y m d,
  1 <= m <= 12 -> 1 <= d <= tp_days_in_month y m ->
  tp_civil_from_days (tp_days_from_civil y m d) = (y, m, d).
Proof. exact tp_civil_days_civil. Qed.
Print Assumptions C08_civil_days_civil.

(* non-vacuity: the premises of C08_update_region and C08_ranges_fixed_offset_partial are met by
   non-trivial states: an exclusion sharing its begin with the range (the F-C08-a shape) ... *)
Example C08_nonvacuous_region :
  let s := tp_update_region true (fun _ _ => [(9, 17)]) true [] [[(9, 10)]] 0 24 true tp_empty in
  tp_upd_begin 0 true tp_empty <= 9 <= 24 /\
  tp_segs s = [(10, 17)] /\ tp_is_inside s 9 = false /\ tp_is_inside s 10 = true.
Proof. cbv. repeat split; discriminate. Qed.

(* ... and a Monday 09:00-17:00 range in UTC seen from a window starting on that Monday *)
Example C08_nonvacuous_ranges :
  let ranges := [({| tp_dr_first := TpWeekday 1 None None; tp_dr_last := None; tp_dr_stride := 1 |}, [(32400, 61200)])] in
  let b := tp_days_from_civil 2033 6 6 * 86400 in
  let t := b + 36000 in
  b <= t < b + 86400 /\ tp_ranges_bounded ranges /\
  (forall d, d < tp_local_day (fun _ => 0) b -> tp_day_covers (fun _ => 0) (fun l => l - 0) false ranges d t = false) /\
  tp_inside_segs (tp_script_func (fun _ => 0) (fun l => l - 0) false false ranges b (b + 86400)) t = true /\
  tp_inside_segs (tp_script_func (fun _ => 0) (fun l => l - 0) true true ranges b (b + 86400)) t = true.
Proof.
  cbv zeta. split; [vm_compute; split; [discriminate|reflexivity]|]. split.
  { intros kv tr [<-|[]] [<-|[]]. cbn [fst snd]. repeat split; apply Z.leb_le; reflexivity. }
  split; [|vm_compute; split; reflexivity].
  intros d Hd. unfold tp_day_covers. cbn [existsb fst snd]. rewrite !orb_false_r.
  apply andb_false_iff. right. unfold tp_in_time_range, tp_local. cbn [fst snd].
  change (tp_local_day (fun _ : Z => 0) (tp_days_from_civil 2033 6 6 * 86400)) with 23167 in Hd.
  change (tp_days_from_civil 2033 6 6) with 23167.
  change (61200 <=? 32400) with false. cbv iota. lia.
Qed.

(* ... and the computed hypotheses of C08_ranges_table hold for the Europe/Berlin table on a window across the
   spring-forward day 2034-03-26 with a range whose boundaries avoid the skipped hour; 02:30 does not pass *)
Example C08_nonvacuous_dst :
  let mk := tp_tab_mk tp_berlin_base tp_berlin_tab in
  let b := mk (tp_days_from_civil 2034 3 25 * 86400 + 43200) in
  let rg tb te := [({| tp_dr_first := TpWeekday 0 None None; tp_dr_last := None; tp_dr_stride := 1 |}, [(tb, te)])] in
  tp_cal_hyps_ok false false tp_berlin_base tp_berlin_tab (rg 1800 14400) b (b + 172800) = true /\
  tp_cal_hyps_ok true true tp_berlin_base tp_berlin_tab (rg 1800 14400) b (b + 172800) = true /\
  tp_cal_hyps_ok false false tp_berlin_base tp_berlin_tab (rg 9000 14400) b (b + 172800) = false /\
  tp_inside_segs (tp_script_func (tp_tab_off tp_berlin_base tp_berlin_tab) mk false false (rg 1800 14400) b (b + 172800))
                 (mk (tp_days_from_civil 2034 3 26 * 86400 + 12600)) = true /\
  tp_inside_segs (tp_script_func (tp_tab_off tp_berlin_base tp_berlin_tab) mk true true (rg 1800 14400) b (b + 172800))
                 (mk (tp_days_from_civil 2034 3 26 * 86400 + 12600)) = true.
Proof. vm_compute. repeat split; reflexivity. Qed.

(* the printer writes the generator's strings, and malformed strings are rejected where the code throws *)
From Coq Require Import Strings.String.
Example C08_parser_examples :
  tp_print_daydef true {| tp_dr_first := TpMonthDay None 1; tp_dr_last := Some (TpMonthDay None 15); tp_dr_stride := 2 |}
    = tp_bytes_of "day 1 - 15 / 2"%string /\
  tp_parse_daydef (tp_bytes_of "monday 0"%string) = None /\
  tp_parse_daydef (tp_bytes_of "monday / 2"%string) = None /\
  tp_parse_daydef (tp_bytes_of "Monday"%string) = None /\
  tp_parse_daydef (tp_bytes_of "monday  2"%string) = None /\
  tp_parse_daydef (tp_bytes_of "2034-03-32"%string) = None /\
  tp_parse_daydef (tp_bytes_of "monday 2 march extra"%string) = Some {| tp_dr_first := TpWeekday 1 (Some 2) (Some 2); tp_dr_last := None; tp_dr_stride := 1 |} /\
  tp_parse_daydef (tp_bytes_of "day 4294967297"%string) = Some {| tp_dr_first := TpMonthDay None 1; tp_dr_last := None; tp_dr_stride := 1 |} /\
  tp_parse_timeranges (tp_bytes_of "09:00 - 17:00"%string) = None /\
  tp_parse_timeranges (tp_bytes_of "22:00-06:00,9:0:30-17:0"%string) = Some [(79200, 21600); (32430, 61200)].
Proof. vm_compute. repeat split; reflexivity. Qed.

