(* C04 - theorems over the functions TRANSLATED from /repo on every run (tools/cxx2coq.py -> coq/Facts/Facts_fn_sched.v).
   Each theorem is guarded by `src_<fn>_recognised = true`: a C++ shape outside the translator's subset leaves it
   trivially true (logged as "xlate: ... not recognised", tie by the correspondence run only); a recognised shape that no
   longer equals the model breaks the proof in coq/Src and with it this file.  Only `exact` + Print Assumptions here. *)
From Icv Require Import Base.Tac Src.XlPrelude Sched.SchModel Facts.Facts_fn_sched Src.SrcSched.
From Coq Require Import Bool.
Local Open Scope bool_scope.

(* the scheduler checks the due checkable iff sch_wants: forced, or reachable, enabled (object and global switch of its kind) and
   inside its check period; a next-check update is announced for a skip caused by reachability or the period *)
Theorem C04_src_wants_check : src_checkthread_wants_check_recognised = true ->
  forall (forced : bool) (k : sch_ck) (is_svc ac hc sc hp pi : bool),
    sch_enable k = ac && (if is_svc then sc else hc) -> sch_period k = negb hp || pi ->
    src_checkthread_wants_check forced (sch_reach k) true is_svc ac hc sc hp pi
    = (sch_wants forced k, negb forced && (negb (sch_reach k) || negb (sch_period k))).
Proof. exact src_checkthread_wants_check_eq. Qed.
Print Assumptions C04_src_wants_check.

Example C04_src_nonvacuous : src_checkthread_wants_check_recognised = true ->
  src_checkthread_wants_check false true true true true true false false false = (false, false) /\
  src_checkthread_wants_check true false true true false false false true false = (true, false) /\
  src_checkthread_wants_check false true true false true true false true false = (false, true).
Proof. intro H; xl_rec H. all: repeat split; vm_compute; reflexivity. Qed.

(* Checkable::UpdateNextCheck, with C++ double read as exact arithmetic in Q (the model's assumption: no rounding; fmod and std::min
   are the model's sch_qfmod / sch_qmin): the instant handed to SetNextCheck is sch_update_next_check for the interval sch_interval picks *)
From Coq Require Import QArith.
From Icv Require Import Sched.SchNext.
Theorem C04_src_update_next_check : src_checkable_update_next_check_recognised = true ->
  forall (soft has_cr : bool) (ci ri now : Q) (offset : Z),
    exists q, src_checkable_update_next_check soft has_cr ci ri now offset = [q] /\
              (q == sch_update_next_check now (sch_interval soft has_cr ci ri) offset)%Q.
Proof. exact src_checkable_update_next_check_eq. Qed.
Print Assumptions C04_src_update_next_check.
