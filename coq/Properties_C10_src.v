(* C10 - theorems over the functions TRANSLATED from /repo on every run (tools/cxx2coq.py -> coq/Facts/Facts_fn_*.v).
   Each theorem is guarded by `src_<fn>_recognised = true`: a C++ shape outside the translator's subset leaves it
   trivially true (logged as "xlate: ... not recognised", tie by the correspondence run only); a recognised shape that no
   longer equals the model breaks the proof in coq/Src and with it this file.  Only `exact` + Print Assumptions here. *)
From Icv Require Import Base.Tac Src.XlPrelude Auth.AuModel Facts.Facts_fn_auth Src.SrcAuth Src.SrcProps.
Local Open Scope Z_scope.

Theorem C10_src_sdbm : src_utility_sdbm_recognised = true ->
  forall sgn s len, Z.of_nat (length s) <= len -> Z.of_nat (length s) < xl_W64 ->
    src_utility_sdbm (map (au_char sgn) s) len = au_sdbm sgn s.
Proof. exact src_utility_sdbm_eq. Qed.
Print Assumptions C10_src_sdbm.

Theorem C10_src_sdbm_range : src_utility_sdbm_recognised = true -> forall sgn s len,
  Z.of_nat (length s) <= len -> Z.of_nat (length s) < xl_W64 ->
  src_utility_sdbm (map (au_char sgn) s) len = au_sdbm sgn s /\ 0 <= src_utility_sdbm (map (au_char sgn) s) len < au_W.
Proof. exact src_sdbm_range. Qed.
Print Assumptions C10_src_sdbm_range.

Example C10_src_nonvacuous : src_utility_sdbm_recognised = true -> src_utility_sdbm [97; 98] 18446744073709551615 = 97 * 65599 + 98 /\ src_utility_sdbm [97; 98] 1 = 97.
Proof. intro H; xl_rec H. all: repeat split; vm_compute; reflexivity. Qed.


(* ---------------------------------------------------------------------------------------------------------------------
   Round 2 (notes/XLATE.md section 8): ApiListener::UpdateObjectAuthority (two regions) and ConfigObject::SetAuthority as
   translated from /repo on this run (coq/Facts/Facts_fn_auth2.v).  The std::sort between the regions is not translated. *)
From Icv Require Import Facts.Facts_fn_auth2 Src.SrcAuth2.

(* the endpoints that count and the cold-start early return = au_select for a node with a local zone (30 s, strict) *)
Theorem C10_src_select : src_update_authority_endpoints_recognised = true ->
  forall p members me conn now start, au_p_window p = 30 -> au_p_strict p = true ->
    au_select p (Some members) conn me now start
    = let '(cold, eps) := src_update_authority_endpoints members me conn now start in if cold then AuCold else AuBy (au_sort eps).
Proof. exact src_update_authority_select. Qed.
Print Assumptions C10_src_select.

(* the authority of one object = au_auth_of: true without a zone, otherwise "the endpoint at SDBM(name) mod size is this endpoint" *)
Theorem C10_src_decision : src_update_authority_decision_recognised = true -> src_utility_sdbm_recognised = true ->
  forall p eps me name npos, Z.of_nat (length name) <= npos -> Z.of_nat (length name) < xl_W64 ->
    Some (src_update_authority_decision false eps me (map (au_char (au_p_signed p)) name) npos) = au_auth_of p AuAll me name /\
    Some (src_update_authority_decision true eps me (map (au_char (au_p_signed p)) name) npos) = au_auth_of p (AuBy eps) me name.
Proof. exact src_update_authority_decision_eq. Qed.
Print Assumptions C10_src_decision.

(* SetAuthority: the paused flag of au_set_authority, one Resume() / Pause() call exactly when the flag flips *)
Theorem C10_src_set_authority : src_configobject_set_authority_recognised = true ->
  forall authority o,
    src_configobject_set_authority authority (au_o_paused o)
    = (au_o_paused (au_set_authority authority o),
       if authority && au_o_paused o then [XauResume] else if negb authority && negb (au_o_paused o) then [XauPause] else []) /\
    au_o_resumes (au_set_authority authority o) = au_o_resumes o + (if authority && au_o_paused o then 1 else 0) /\
    au_o_pauses (au_set_authority authority o) = au_o_pauses o + (if negb authority && negb (au_o_paused o) then 1 else 0).
Proof. exact src_configobject_set_authority_eq. Qed.
Print Assumptions C10_src_set_authority.

Example C10_src_round2_nonvacuous : src_update_authority_endpoints_recognised = true -> src_configobject_set_authority_recognised = true ->
  (* two members, the peer is not connected: cold within 30 s of the start, not after *)
  src_update_authority_endpoints [[97]; [98]] [97] (fun _ => false) 129 100 = (true, [[97]]) /\
  src_update_authority_endpoints [[97]; [98]] [97] (fun _ => false) 130 100 = (false, [[97]]) /\
  src_configobject_set_authority true true = (false, [XauResume]).
Proof. intros H1 H2; xl_rec H1; xl_rec H2. all: repeat split; vm_compute; reflexivity. Qed.
