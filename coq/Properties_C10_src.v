(* C10 - theorems over the functions TRANSLATED from /repo on every run (tools/cxx2coq.py -> coq/Facts/Facts_fn_*.v).
   Each theorem is guarded by `src_<fn>_recognised = true`: a C++ shape outside the translator's subset leaves it
   trivially true (logged as "xlate: ... not recognised", tie by the correspondence run only); a recognised shape that no
   longer equals the model breaks the proof in coq/Src and with it this file.  Only `exact` + Print Assumptions here. *)
From Icv Require Import Base.Tac Src.XlPrelude Auth.AuModel Facts.Facts_fn_auth Src.SrcAuth Src.SrcProps.
Local Open Scope Z_scope.

Theorem C10_src_sdbm : src_utility_sdbm_recognised = true ->
  forall sgn s len, Z.of_nat (length s) <= len -> Z.of_nat (length s) < xl_W64 ->
    src_utility_sdbm (map (au_char sgn) s) len = au_sdbm sgn s.
Proof. exact src_utility_sdbm_eq. Qed.
Print Assumptions C10_src_sdbm.

Theorem C10_src_sdbm_range : src_utility_sdbm_recognised = true -> forall sgn s len,
  Z.of_nat (length s) <= len -> Z.of_nat (length s) < xl_W64 ->
  src_utility_sdbm (map (au_char sgn) s) len = au_sdbm sgn s /\ 0 <= src_utility_sdbm (map (au_char sgn) s) len < au_W.
Proof. exact src_sdbm_range. Qed.
Print Assumptions C10_src_sdbm_range.

Example C10_src_nonvacuous : src_utility_sdbm_recognised = true -> src_utility_sdbm [97; 98] 18446744073709551615 = 97 * 65599 + 98 /\ src_utility_sdbm [97; 98] 1 = 97.
Proof. intro H; xl_rec H. all: repeat split; vm_compute; reflexivity. Qed.

