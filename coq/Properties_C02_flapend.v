(* C02 - companion: flapping ends on the very check result that is a hard change.
   Checkable::ProcessCheckResult evaluates the FlappingStart/FlappingEnd chain and, as a SEPARATE statement after it, the
   block that requests or stashes the Problem/Recovery notification.  On the result that ends the flapping the checkable is
   not flapping any more, so BOTH are due: FlappingEnd and the state notification.  (A result with a state change raises the
   flapping value, so this happens on the soft -> hard step of an unchanged non-OK state, max_check_attempts >= 2, or on a
   further non-OK result of a volatile object that is already hard.)  Each theorem is closed by [exact] of / a short
   combination of lemmas proved in Ck/CkSupp*.v and followed by Print Assumptions. *)
From Icv Require Import Base.Tac Ck.CkState Ck.CkStateProofs Ck.CkObs Ck.CkFull Ck.CkSuppProofs Ck.CkSuppStep
  Ck.CkSuppFire Ck.CkSuppThms.
Local Open Scope Z_scope.

(* flapping before, not flapping after, nothing withholding: exactly FlappingEnd among the flapping requests AND exactly the
   state notification the request rule demands (Problem on the soft -> hard step / volatile repeat) among the state requests *)
Theorem C02_flapping_end_and_hard_change : forall c now r f,
  rejected now (f_st f) r = false ->
  let f' := fst (do_result c now r f) in
  let o := snd (do_result c now r f) in
  c02_shape (fc_base c) (f_st f) -> f_paused f = false ->
  is_flapping c (f_flap f) = true -> is_flapping c (f_flap f') = false ->
  c02_reason now f' = false -> c02_pending f = false ->
  c02_flap_outs o = [ONotify NFlapEnd] /\
  c02_state_outs o = c02_expected (fc_base c) (f_st f) (r_state r) (s_type (f_st f')) /\
  c02_pending f' = false.
Proof.
  intros c now r f Hrej f' o Hshape Hp Hfl0 Hfl1 Hreason Hpend.
  pose proof (request_rule c now r f Hrej) as [_ Hreq].
  specialize (Hreq Hshape Hp Hfl1 Hreason Hpend).
  pose proof (flapping_toggle c now r f Hrej Hp) as [Htog _].
  unfold c02_reason in Hreason.
  apply Bool.orb_false_elim in Hreason as [Hreason _].
  apply Bool.orb_false_elim in Hreason as [_ Hdt].
  specialize (Htog Hdt). cbv zeta in Htog. fold f' in Htog. rewrite Hfl0 in Htog. rewrite Hfl1 in Htog. cbn [negb andb] in Htog.
  split; [exact Htog|exact Hreq].
Qed.
Print Assumptions C02_flapping_end_and_hard_change.

(* the same result while a reason holds (downtime, acknowledgement, unreachable) or while earlier events are pending: nothing is
   requested, but the Problem/Recovery bit IS recorded (and the first recording remembers the hard state before the result) -
   the event is not lost.  [c02_send] is the code's send_notification (characterised by c02_send_char / C02_request_rule). *)
Theorem C02_flapping_end_and_hard_change_stashed : forall c now r f,
  rejected now (f_st f) r = false ->
  let f' := fst (do_result c now r f) in
  let o := snd (do_result c now r f) in
  let i := snd (step_accept (fc_base c) (f_st f) r) in
  c02_send (fc_base c) i (f_st f') (r_state r) = true ->
  f_paused f = false ->
  is_flapping c (f_flap f) = true -> is_flapping c (f_flap f') = false ->
  c02_reason now f' = true \/ c02_pending f = true ->
  c02_state_outs o = [] /\
  f_sp_problem f' = (f_sp_problem f || negb (i_recovery i)) /\
  f_sp_recovery f' = (f_sp_recovery f || i_recovery i) /\
  c02_pending f' = true /\
  (c02_pending f = false -> f_sbs f' = c02_hard_state (f_st f)).
Proof.
  intros c now r f Hrej f' o i Hsend Hp _ Hfl1 Hwhy.
  pose proof (stash_rule c now r f Hrej Hsend Hp Hfl1 Hwhy) as (H1 & H2 & H3 & H4 & H5 & _).
  repeat split; assumption.
Qed.
Print Assumptions C02_flapping_end_and_hard_change_stashed.

(* non-vacuity, and the ORDER of the two requests as in the code (FlappingEnd first): service, max_check_attempts 3, flapping
   enabled with the default thresholds; nine alternating OK/CRITICAL results (flapping), thirteen OK, CRITICAL 1/3, CRITICAL 2/3
   (still flapping); the third CRITICAL is hard and takes the flapping value below the low threshold *)
Definition c02_fe_cfg : fcfg :=
  {| fc_base := {| c_kind := KService; c_max := 3; c_volatile := false |}; fc_flap_enabled := true;
     fc_flap_high := 3005; fc_flap_low := 2505; fc_active_checks := false; fc_check_interval := 300 |}.
Definition c02_fe_res (s : sstate) (t : Z) : cres := {| r_state := s; r_start := t; r_end := t |}.
Definition c02_fe_hist : list (Z * op) :=
  let o t := (t, OpResult (c02_fe_res SOK t)) in
  let k t := (t, OpResult (c02_fe_res SCritical t)) in
  [o 10; k 20; o 30; k 40; o 50; k 60; o 70; k 80; o 90;
   o 100; o 110; o 120; o 130; o 140; o 150; o 160; o 170; o 180; o 190; o 200; o 210; o 220;
   k 230; k 240].
Example C02_flapend_nonvacuous :
  let f := c02_run c02_fe_cfg init_full c02_fe_hist in
  let r := c02_fe_res SCritical 250 in
  let f' := fst (do_result c02_fe_cfg 250 r f) in
  let o := snd (do_result c02_fe_cfg 250 r f) in
  rejected 250 (f_st f) r = false /\ f_paused f = false /\ c02_pending f = false /\
  is_flapping c02_fe_cfg (f_flap f) = true /\ s_type (f_st f) = Soft /\
  is_flapping c02_fe_cfg (f_flap f') = false /\ s_type (f_st f') = Hard /\ c02_reason 250 f' = false /\
  filter (fun x => c02_fn x || c02_sn x) o = [ONotify NFlapEnd; ONotify NProblem] /\
  (* inside a downtime both are recorded instead *)
  let g := c02_run c02_fe_cfg init_full (c02_fe_hist ++ [(245, OpDtAdd 1 true 245 100000 0 0 0 false)]) in
  let g' := fst (do_result c02_fe_cfg 250 r g) in
  filter (fun x => c02_fn x || c02_sn x) (snd (do_result c02_fe_cfg 250 r g)) = [] /\
  f_sp_problem g' = true /\ f_sp_fend g' = true /\ f_sbs g' = SOK.
Proof. cbv zeta. repeat split; vm_compute; reflexivity. Qed.
