(* C16, evaluator level - the evaluation frame of an apply rule.  Only the property theorems, each closed by
   [exact] of a lemma proved under Apply/, each followed by Print Assumptions.
   Model: Apply/ArFrame.v (frame.Locals as a mutable dictionary threaded through EvaluateApplyRule /
   EvaluateApplyRules / a whole load; WHERE a new frame is made is a parameter, AFPerRule = the code);
   proofs: Apply/ArFrameProofs.v; counter-models: Apply/ArFrameWitness.v. *)
From Icv Require Import Base.Tac Apply.ArModel Apply.ArObs Apply.ArProofs Apply.ArOrder
     Apply.ArFrame Apply.ArFrameProofs Apply.ArFrameWitness Apply.ArWitness.
From Coq Require Import Permutation.
Local Open Scope Z_scope.

(* The transcription with a mutable Locals dictionary (Set overwrites or adds, nothing is ever removed, the
   `for` loop Sets its variables into the same dictionary on every round, the object scope is a snapshot)
   computes, started on a frame that already holds the bindings [left], what the binding-list definition
   computes with [left] BEHIND the rule's own bindings (use() scope, host/service, loop variables): a left-over
   binding is visible exactly where the rule binds nothing of that name.  On a NEW frame that is
   ArModel.ar_eval_rule, the function every other C16 theorem is about. *)
Theorem C16_frame_transcription : forall skip genv r t,
  (forall left, fst (ar_fr_eval_rule skip genv r t left) = ar_eval_rule_on skip genv r t left) /\
  fst (ar_fr_eval_rule skip genv r t []) = ar_eval_rule skip genv r t.
Proof. exact (fun skip genv r t => conj (ar_fr_eval_rule_on skip genv r t) (ar_fr_eval_rule_fresh skip genv r t)). Qed.
Print Assumptions C16_frame_transcription.

(* FRAME INDEPENDENCE.  With one frame per EvaluateApplyRule call (the code), for EVERY sequence [vs] of
   EvaluateApplyRules calls - any targets (hosts or services) in any order, each with any list of rules of any
   of the four source types in any order, with or without skipFilter - and WHATEVER the evaluator holds when
   the sequence starts, each rule creates at each target exactly [ar_eval_rule skip genv r t]: a function of
   the rule, the target and the globals - not of which other rules exist, of their order, or of the targets
   visited before. *)
Theorem C16_rule_frames_independent : forall genv vs fr,
  fst (ar_fr_visits AFPerRule genv fr vs)
  = map (fun v => map (fun sr => ar_eval_rule (fst sr) genv (snd sr) (fst v)) (snd v)) vs.
Proof. exact ar_fr_visits_per_rule. Qed.
Print Assumptions C16_rule_frames_independent.

(* Hence a whole two-phase load run at this level (targets in inventory order; per target the Regular rules in
   rule order, then the rules indexed under its name) creates the multiset [ar_apply_fast] creates (None = the
   load fails, preserved), and is invariant under permutation of the rules, of the hosts and of every host's
   services: the order-independence theorem for the evaluator that threads its frames. *)
Theorem C16_frame_load_order_independent : forall genv inv mid inv' rules rules',
  Permutation rules rules' -> Permutation inv mid ->
  Forall2 (fun h h' => ar_h_name h = ar_h_name h' /\ ar_h_fields h = ar_h_fields h' /\
                       Permutation (ar_h_svcs h) (ar_h_svcs h')) mid inv' ->
  ar_res_perm (ar_fr_load AFPerRule genv inv rules) (ar_apply_fast genv inv rules) /\
  ar_res_perm (ar_fr_load AFPerRule genv inv rules) (ar_fr_load AFPerRule genv inv' rules').
Proof.
  exact (fun genv inv mid inv' rules rules' Pr Pi S =>
           conj (ar_fr_load_fast genv inv rules) (ar_fr_load_order_independent genv inv mid inv' rules rules' Pr Pi S)).
Qed.
Print Assumptions C16_frame_load_order_independent.

(* the order oracle run over the implementation's traces (every file order of the rules, reversed inventory,
   1 / 4 worker threads, each compared with the load in script order) returns 0 on what the model produces *)
Theorem C16_order_oracle_accepts_model : forall genv inv mid inv' rules rules',
  Permutation rules rules' -> Permutation inv mid ->
  Forall2 (fun h h' => ar_h_name h = ar_h_name h' /\ ar_h_fields h = ar_h_fields h' /\
                       Permutation (ar_h_svcs h) (ar_h_svcs h')) mid inv' ->
  ar_order_oracle (ar_apply_fast genv inv rules) (ar_apply_fast genv inv' rules') = 0 /\
  ar_order_oracle (ar_apply genv inv rules) (ar_apply genv inv' rules') = 0 /\
  ar_order_oracle (ar_apply_fast genv inv rules) (ar_fr_load AFPerRule genv inv' rules') = 0.
Proof. exact ar_order_oracle_accepts_model. Qed.
Print Assumptions C16_order_oracle_accepts_model.

(* The statement is about where the frame is made: with one frame per EvaluateApplyRules call (or one for the
   whole evaluator) it fails.  const x = 80; host H { vars.l = [8080]; vars.p = 80 };
   A = apply Service "a" for (x in host.vars.l) {}; B = apply Service "b" { assign where host.vars.p == x }:
   per rule both orders create H!a8080 and H!b; shared per call, the order A,B loses H!b (B's filter sees the
   loop variable), the order B,A does not; shared globally the variable reaches the next target. *)
Theorem C16_shared_frame_counter_model :
  ar_fw_names (fst (ar_fr_visits AFPerRule ar_fw_genv [] [(ar_fw_t, [(false, ar_fw_A); (false, ar_fw_B)])]))
    = [[Some [[72; 33; 97; 56; 48; 56; 48]]; Some [[72; 33; 98]]]] /\
  ar_fw_names (fst (ar_fr_visits AFPerRule ar_fw_genv [] [(ar_fw_t, [(false, ar_fw_B); (false, ar_fw_A)])]))
    = [[Some [[72; 33; 98]]; Some [[72; 33; 97; 56; 48; 56; 48]]]] /\
  ar_fw_names (fst (ar_fr_visits AFPerTarget ar_fw_genv [] [(ar_fw_t, [(false, ar_fw_A); (false, ar_fw_B)])]))
    = [[Some [[72; 33; 97; 56; 48; 56; 48]]; Some []]] /\
  ar_fw_names (fst (ar_fr_visits AFPerTarget ar_fw_genv [] [(ar_fw_t, [(false, ar_fw_B); (false, ar_fw_A)])]))
    = [[Some [[72; 33; 98]]; Some [[72; 33; 97; 56; 48; 56; 48]]]] /\
  ar_fw_names (fst (ar_fr_visits AFGlobal ar_fw_genv [] [(ar_fw_t, [(false, ar_fw_A)]); (ar_fw_t, [(false, ar_fw_B)])]))
    = [[Some [[72; 33; 97; 56; 48; 56; 48]]]; [Some []]] /\
  option_map (map ar_o_name) (ar_fr_load AFPerRule ar_fw_genv [ar_fw_host] [ar_fw_A; ar_fw_B]) = Some [[72; 33; 97; 56; 48; 56; 48]; [72; 33; 98]] /\
  option_map (map ar_o_name) (ar_fr_load AFPerTarget ar_fw_genv [ar_fw_host] [ar_fw_A; ar_fw_B]) = Some [[72; 33; 97; 56; 48; 56; 48]] /\
  option_map (map ar_o_name) (ar_fr_load AFPerTarget ar_fw_genv [ar_fw_host] [ar_fw_B; ar_fw_A]) = Some [[72; 33; 98]; [72; 33; 97; 56; 48; 56; 48]].
Proof. exact ar_fr_shared_refuted. Qed.
Print Assumptions C16_shared_frame_counter_model.

(* non-vacuity, and the scope of the rule body: locals (here the loop variable host_name) hide the own fields of
   the object under construction (host_name, name, vars.b<i> as far as assigned), which hide the globals *)
Example C16_frame_nonvacuous :
  option_map (map ar_o_body) (ar_eval_rule false ar_fw_genv (ar_fw_C true) ar_fw_t)
    = Some [[AVNum 8080; AVStr ar_w_H; AVNum 8080; AVStr [97; 56; 48; 56; 48]; AVNum 80]] /\
  option_map (map ar_o_body) (ar_eval_rule false ar_fw_genv (ar_fw_C false) ar_fw_t)
    = Some [[AVStr ar_w_H; AVStr ar_w_H; AVStr ar_w_H; AVStr [97]; AVNum 80]].
Proof. exact ar_fr_body_scope. Qed.
