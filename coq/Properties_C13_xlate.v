(* C13 - theorems over the functions TRANSLATED from /repo on every run (tools/cxx2coq.py -> coq/Facts/Facts_fn_zone.v).
   Each theorem is guarded by `src_<fn>_recognised = true`: a C++ shape outside the translator's subset leaves it
   trivially true (logged as "xlate: ... not recognised", tie by the correspondence run only); a recognised shape that no
   longer equals the model breaks the proof in coq/Src and with it this file.  Only `exact` + Print Assumptions here. *)
From Icv Require Import Base.Tac Src.XlPrelude Msg.MzModel Facts.Facts_fn_zone Src.SrcZone.
Local Open Scope nat_scope.

(* Zone::IsChildOf (a while loop over GetParent(), translated on explicit fuel): on a well-formed tree S (S a) steps
   suffice for zone number a, and the result is the model's ancestor test; a null argument is never found *)
Theorem C13_src_is_child_of : src_zone_is_child_of_recognised = true ->
  forall t a z, mz_wf t ->
    src_zone_is_child_of t (S (S a)) a (Some z) = Some (mz_is_child_of t a z) /\
    src_zone_is_child_of t (S (S a)) a None = Some (mz_is_child_of_opt t a None).
Proof. exact src_zone_is_child_of_eq. Qed.
Print Assumptions C13_src_is_child_of.

Theorem C13_src_can_access_object : src_zone_can_access_object_recognised = true -> src_zone_is_child_of_recognised = true ->
  forall t l z is_zone self oz, mz_wf t ->
    src_zone_can_access_object t l z is_zone self oz = mz_can_access t l z (if is_zone then self else oz).
Proof. exact src_zone_can_access_object_eq. Qed.
Print Assumptions C13_src_can_access_object.

Example C13_src_nonvacuous : src_zone_is_child_of_recognised = true ->
  let t := [ {| mz_zparent := None; mz_zglobal := false |}; {| mz_zparent := Some 0; mz_zglobal := false |};
             {| mz_zparent := Some 1; mz_zglobal := false |} ] in
  src_zone_is_child_of t 4 2 (Some 0) = Some true /\ src_zone_is_child_of t 3 1 (Some 2) = Some false /\
  src_zone_is_child_of t 2 2 (Some 0) = None.
Proof. intro H; xl_rec H. all: repeat split; vm_compute; reflexivity. Qed.
