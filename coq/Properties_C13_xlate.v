(* C13 - theorems over the functions TRANSLATED from /repo on every run (tools/cxx2coq.py -> coq/Facts/Facts_fn_zone.v).
   Each theorem is guarded by `src_<fn>_recognised = true`: a C++ shape outside the translator's subset leaves it
   trivially true (logged as "xlate: ... not recognised", tie by the correspondence run only); a recognised shape that no
   longer equals the model breaks the proof in coq/Src and with it this file.  Only `exact` + Print Assumptions here. *)
From Icv Require Import Base.Tac Src.XlPrelude Msg.MzModel Facts.Facts_fn_zone Src.SrcZone.
Local Open Scope nat_scope.

(* Zone::IsChildOf (a while loop over GetParent(), translated on explicit fuel): on a well-formed tree S (S a) steps
   suffice for zone number a, and the result is the model's ancestor test; a null argument is never found *)
Theorem C13_src_is_child_of : src_zone_is_child_of_recognised = true ->
  forall t a z, mz_wf t ->
    src_zone_is_child_of t (S (S a)) a (Some z) = Some (mz_is_child_of t a z) /\
    src_zone_is_child_of t (S (S a)) a None = Some (mz_is_child_of_opt t a None).
Proof. exact src_zone_is_child_of_eq. Qed.
Print Assumptions C13_src_is_child_of.

Theorem C13_src_can_access_object : src_zone_can_access_object_recognised = true -> src_zone_is_child_of_recognised = true ->
  forall t l z is_zone self oz, mz_wf t ->
    src_zone_can_access_object t l z is_zone self oz = mz_can_access t l z (if is_zone then self else oz).
Proof. exact src_zone_can_access_object_eq. Qed.
Print Assumptions C13_src_can_access_object.

Example C13_src_nonvacuous : src_zone_is_child_of_recognised = true ->
  let t := [ {| mz_zparent := None; mz_zglobal := false |}; {| mz_zparent := Some 0; mz_zglobal := false |};
             {| mz_zparent := Some 1; mz_zglobal := false |} ] in
  src_zone_is_child_of t 4 2 (Some 0) = Some true /\ src_zone_is_child_of t 3 1 (Some 2) = Some false /\
  src_zone_is_child_of t 2 2 (Some 0) = None.
Proof. intro H; xl_rec H. all: repeat split; vm_compute; reflexivity. Qed.

(* ---------------------------------------------------------------------------------------------------------------------
   Round 2 (notes/XLATE.md section 8): the head of JsonRpcConnection::MessageHandler and the zone selection of
   ApiListener::RelayMessageOne as translated from /repo on this run (coq/Facts/Facts_fn_zone2.v). *)
From Icv Require Import Msg.MzFwd Facts.Facts_fn_zone2 Src.SrcZone2.
Local Open Scope Z_scope.

(* "ignore old messages", the sender's remote log position, and origin->FromZone = mz_from_zone *)
Theorem C13_src_message_origin : src_jsonrpc_message_origin_recognised = true ->
  forall l s has_ts ts rlp0,
    src_jsonrpc_message_origin (mz_is_some (mz_ep s)) has_ts ts rlp0 (xz_ep_zone s) l (mz_cclaim s)
    = let old := mz_is_some (mz_ep s) && has_ts && (ts <? rlp0) in
      (old,
       if mz_is_some (mz_ep s) && has_ts && negb (ts <? rlp0) then ts else rlp0,
       if old then None else mz_from_zone l s).
Proof. exact src_jsonrpc_message_origin_eq. Qed.
Print Assumptions C13_src_message_origin.

Theorem C13_src_message_origin_handle : src_jsonrpc_message_origin_recognised = true ->
  forall t c s m tsk row eff has_ts ts rlp0,
    mz_ts_is tsk MzTsOld = has_ts && (ts <? rlp0) -> mz_ts_is tsk MzTsNew = has_ts && negb (ts <? rlp0) ->
    let '(dropped, rlp, fz) := src_jsonrpc_message_origin (mz_is_some (mz_ep s)) has_ts ts rlp0 (xz_ep_zone s) (mz_local c) (mz_cclaim s) in
    mz_dropped (mz_handle_core t c s m tsk row eff) = dropped /\
    (mz_rlp (mz_handle_core t c s m tsk row eff) = true -> rlp = ts) /\
    (dropped = false -> mz_rlp (mz_handle_core t c s m tsk row eff) = false -> rlp = rlp0) /\
    (dropped = false -> fz = mz_from_zone (mz_local c) s).
Proof. exact src_jsonrpc_message_origin_handle. Qed.
Print Assumptions C13_src_message_origin_handle.

(* equal time stamps (ts is the relaying node's clock, not an event id: distinct events of one clock tick): a message whose
   ts is not older than - in particular EQUAL to - the sender's remote log position is NOT dropped by the code, and the model
   applies it exactly when it applies the same message without ts *)
Theorem C13_equal_ts_processed : src_jsonrpc_message_origin_recognised = true ->
  (forall l s ts rlp0, (rlp0 <= ts)%Z ->
     src_jsonrpc_message_origin (mz_is_some (mz_ep s)) true ts rlp0 (xz_ep_zone s) l (mz_cclaim s)
     = (false, if mz_is_some (mz_ep s) then ts else rlp0, mz_from_zone l s)) /\ (forall t c s m row eff,
     mz_dropped (mz_handle_core t c s m MzTsNew row eff) = false /\ @eq bool (mz_applied (mz_handle_core t c s m MzTsNew row eff)) (mz_applied (mz_handle_core t c s m MzTsNone row eff))).
Proof. intro H. exact (conj (src_jsonrpc_equal_ts_processed H) mz_not_older_processed). Qed.
Print Assumptions C13_equal_ts_processed.

(* RelayMessageOne returns early exactly when mz_relay_one has no candidate zone; otherwise the zones it goes through are mz_relay_one's *)
Theorem C13_src_relay_target_zones : src_relay_target_zones_recognised = true ->
  forall t l a,
    src_relay_target_zones t l a (map Some (seq 0 (length t)))
    = (match mz_relay_one t l a with [] => true | _ => false end, map Some (mz_relay_one t l a)).
Proof. exact src_relay_target_zones_eq. Qed.
Print Assumptions C13_src_relay_target_zones.

Example C13_src_round2_nonvacuous : src_jsonrpc_message_origin_recognised = true ->
  (* an endpoint of the local zone 1 may claim an origin zone; one of another zone may not; old messages are dropped *)
  src_jsonrpc_message_origin true true 10 5 (Some 1%nat) 1%nat (Some 7%nat) = (false, 10, Some 7%nat) /\
  src_jsonrpc_message_origin true true 10 5 (Some 2%nat) 1%nat (Some 7%nat) = (false, 10, Some 2%nat) /\
  src_jsonrpc_message_origin true true 4 5 (Some 2%nat) 1%nat (Some 7%nat) = (true, 5, None).
Proof. intro H; xl_rec H. all: repeat split; vm_compute; reflexivity. Qed.
