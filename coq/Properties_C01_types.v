(* C01 - field widths (companion file; facts regenerated from the .ti declarations on every run, tools/facts_types.py).
   The model keeps check_attempt and max_check_attempts as unbounded integers.  That is faithful exactly while the
   declared C++ types of the two attributes store every value the state machine can produce: the attempt counter
   never exceeds max_check_attempts (C01_characterisation), so what is needed is that BOTH fields are at least as wide
   as `int`, the type ProcessCheckResult computes in.  A narrowing of either declaration (e.g. to "unsigned short")
   makes this theorem stop compiling; an unrecognised declaration degrades to "compared only" (the boundary family
   `attempt-width` of the generator then decides). *)
From Icv Require Import Base.Tac Ck.CkFacts Facts.Facts_types.
Local Open Scope Z_scope.

Theorem C01_field_widths :
  opt_is f_ti_Checkable_check_attempt_max (fun m => 2147483647 <= m) /\
  opt_is f_ti_Checkable_max_check_attempts_max (fun m => 2147483647 <= m).
Proof.
  split; unfold opt_is.
  - destruct f_ti_Checkable_check_attempt_max as [m|] eqn:E; [|exact I].
    vm_compute in E. first [discriminate E | injection E as <-; vm_compute; discriminate].
  - destruct f_ti_Checkable_max_check_attempts_max as [m|] eqn:E; [|exact I].
    vm_compute in E. first [discriminate E | injection E as <-; vm_compute; discriminate].
Qed.
Print Assumptions C01_field_widths.
