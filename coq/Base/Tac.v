(* Shared tactics and arithmetic set-up. *)
From Coq Require Export List ZArith Bool Lia.
From Coq Require Export ZifyBool.
Export ListNotations.
Ltac Zify.zify_post_hook ::= Z.div_mod_to_equations.

Ltac inv H := inversion H; subst; clear H.
Ltac dmatch :=
  match goal with
  | |- context [match ?x with _ => _ end] => destruct x eqn:?
  end.
