(* C18, companion file - the property theorems about (1) the independence of the permission filter from the request and
   (2) the joins loop with its per-request caches; nothing else.  Each is closed by [exact] of a lemma proved in
   Perm/PmIndep.v / Perm/PmJoins.v / Perm/PmOracleProofs.v and followed by Print Assumptions.
   Environment model (Perm/PmModel.v): a filter frame resolves a name that EvaluateFilter does not bind first in its own
   namespace and then in the imports / global constants.  The permission frame's namespace holds the bindings only
   (source fact f_pm_perm_ns_private), so the permission filter sees [G]; the request's filter_vars are Set into the
   namespace of the USER's frame, whose filter therefore sees [filter_vars ++ G]. *)
From Icv Require Import Base.Tac Perm.PmModel Perm.PmProofs Perm.PmIndep Perm.PmJoins Perm.PmObs Perm.PmOracleProofs.
Local Open Scope Z_scope.

(* The verdict of the permission filter on a target, [pm_verdict G pf o], is by its type a function of the combined
   permission filter pf (= the user's permission entries and the required permission), the target o and the global
   constants G - not of the request's filter, filter_vars, query shape, provider or of targets visited earlier.
   GetFilterTargets as transcribed from the code (one permission namespace threaded through every loop, the user's
   frame with the filter_vars next to it) EQUALS [pm_filter_targets_ref], which consults the permission filter
   through that function only - for all globals, users, permissions, QueryDescriptions, queries and inventories. *)
Theorem C18_permission_filter_independent_of_request : forall G fast u perm tys q inv,
  pm_filter_targets G fast u perm tys q inv = pm_filter_targets_ref G fast u perm tys q inv.
Proof. exact pm_filter_targets_eq_ref. Qed.
Print Assumptions C18_permission_filter_independent_of_request.

(* two requests by type with different user filters and filter_vars: an object both user filters select is returned
   by both or by neither *)
Theorem C18_verdict_same_for_all_requests : forall G u perm t inv pf uf1 fv1 uf2 fv2 l1 l2 o,
  pm_check_permission u perm = Some pf ->
  snd (pm_filter_targets G false u perm [t] (pm_q_by_type t uf1 fv1) inv) = PmOk l1 ->
  snd (pm_filter_targets G false u perm [t] (pm_q_by_type t uf2 fv2) inv) = PmOk l2 ->
  pm_ueval G fv1 uf1 o = PmT -> pm_ueval G fv2 uf2 o = PmT ->
  (In o l1 <-> In o l2).
Proof. exact pm_verdict_same_for_all_requests. Qed.
Print Assumptions C18_verdict_same_for_all_requests.

(* why the separation of the two namespaces is needed: entries [extra] in a frame's namespace leave a filter's value
   alone exactly when they define none of its free names ... *)
Theorem C18_foreign_entries_irrelevant_unless_named : forall G extra ns f,
  (forall x, In x (pm_free_names f) -> pm_env_get x extra = None) -> pm_eval (extra ++ G) ns f = pm_eval G ns f.
Proof. exact pm_eval_extra_irrelevant. Qed.
Print Assumptions C18_foreign_entries_irrelevant_unless_named.

(* ... and one entry of the right name flips the verdict (host.vars.t == A with A = "o" globally, "d" in filter_vars) *)
Theorem C18_shared_namespace_would_flip_the_verdict :
  exists G fv o f, pm_eval G (pm_bind [] o) f = PmF /\ pm_eval (fv ++ G) (pm_bind [] o) f = PmT.
Proof. do 4 eexists. exact pm_eval_extra_matters. Qed.
Print Assumptions C18_shared_namespace_would_flip_the_verdict.

(* joins: (type, name) identifies a joined object; the name alone does not (objects of different types share names) *)
Theorem C18_join_key_identifies : forall inv j1 j2,
  pm_jwf inv j1 -> pm_jwf inv j2 -> pm_jkey_of j1 = pm_jkey_of j2 -> j1 = j2.
Proof. exact pm_jkey_identifies. Qed.
Print Assumptions C18_join_key_identifies.

(* the joins loop with typePermissions and objectAccessAllowed carried across result objects, join fields and joined
   types serialises exactly what the uncached decision admits - for every inventory, no uniqueness of names assumed *)
Theorem C18_join_cache_transparent : forall G u inv t sel all objs,
  pm_joins G u inv t sel all objs = pm_joins_ref G u inv t sel all objs.
Proof. exact pm_joins_cache_transparent. Qed.
Print Assumptions C18_join_cache_transparent.

(* every serialised joined object is permitted under objects/query/<its own type> *)
Theorem C18_joins_only_permitted : forall G u inv t sel all objs v k,
  In (v, k) (pm_joins G u inv t sel all objs) ->
  exists j, pm_jwf inv j /\ pm_jkey_of j = k /\ pm_join_visible G u j = true /\ pm_spec_allow_j G u j = true.
Proof. exact pm_joins_only_permitted. Qed.
Print Assumptions C18_joins_only_permitted.

(* the executable oracle for joins never fires on what the model serialises *)
Theorem C18_oracle_joins_accepts_model : forall G u inv t sel all objs,
  pm_oracle_joins G u inv (map snd (pm_joins G u inv t sel all objs)) = true.
Proof. exact pm_oracle_joins_accepts_model. Qed.
Print Assumptions C18_oracle_joins_accepts_model.

(* non-vacuity: Host "x" and Endpoint "x"; a service on x executed on endpoint x; the user may query every Endpoint but
   only hosts named "y".  command_endpoint is visited before host: the endpoint is serialised, the host is not. *)
Example C18_indep_nonvacuous :
  let x := [120] in
  let h := {| po_type := PmHost; po_name := x; po_short := x; po_host := x; po_vars := []; po_hvars := [];
             po_cc := Some [99]; po_cp := None; po_ec := None; po_ce := None |} in
  let s := {| po_type := PmService; po_name := x ++ [33] ++ [115]; po_short := [115]; po_host := x; po_vars := []; po_hvars := [];
             po_cc := Some [99]; po_cp := None; po_ec := None; po_ce := Some x |} in
  let u := [ {| pe_perm := pm_jquery_perm PmJEndpoint; pe_filter := None |};
             {| pe_perm := pm_jquery_perm PmJHost; pe_filter := Some (PmFName PmScHost [121]) |} ] in
  pm_joins [] u [h; s] PmService [] true [s] = [(PmScNav PmNCommandEndpoint, (PmJEndpoint, x))].
Proof. vm_compute. reflexivity. Qed.
