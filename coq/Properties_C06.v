(* C06 - acknowledgements: the property theorems, nothing else.  Each is closed by [exact] of a lemma proved in
   Ck/CkAckProofs.v / Ck/CkAckThms.v / Ck/CkAckOracleProofs.v and followed by Print Assumptions.
   Model: Ck/CkFull.v (API action, external commands, check results, timers) + Ck/CkAck.v (cluster events).
   [cka_step c now f o] runs one operation at clock value [now]; histories are lists of (now, operation)
   with no assumption on the clock. *)
From Icv Require Import Base.Tac Ck.CkState Ck.CkFull Ck.CkAck Ck.CkAckObs Ck.CkAckProofs Ck.CkAckThms
  Ck.CkAckOracleProofs.
Local Open Scope Z_scope.

(* Every operation of the combined model (13 operations of CkFull + 2 cluster events) acts on the
   acknowledgement layer (type, expiry, comments, paused) exactly like the 60-line abstract machine
   [ak_step], and emits exactly its set / cleared / Acknowledgement-notification events. *)
Theorem C06_layer_simulation : forall c now f o,
  exists i, cka_abs c now f o i /\
    ak_of (fst (cka_step c now f o)) = fst (ak_step now i (ak_of f)) /\
    filter cka_is_ev (snd (cka_step c now f o)) = snd (ak_step now i (ak_of f)).
Proof. exact cka_step_sim. Qed.
Print Assumptions C06_layer_simulation.

(* The clear rule for an accepted check result: an expired acknowledgement is gone; otherwise a normal one is
   cleared iff the API-visible state changed (Up/Down for hosts), a sticky one iff it changed to OK/Up; a result
   that does not change the state never clears it.  One cleared event iff it went from set to none, no set
   event, no Acknowledgement notification; exactly the non-persistent comments entered up to the result's
   execution end are removed, and only if the object is unacknowledged afterwards; while it stays
   acknowledged no Problem notification is requested. *)
Theorem C06_clear_rule : forall c now r f,
  rejected now (f_st f) r = false ->
  let k := c_kind (fc_base c) in
  let f' := fst (cka_step c now f (CkaBase (OpResult r))) in
  let outs := snd (cka_step c now f (CkaBase (OpResult r))) in
  let changed := negb (cka_api_state k (s_raw (f_st f)) =? cka_api_state k (r_state r)) in
  let ok_new := cka_api_state k (r_state r) =? 0 in
  (f_ack f' =
    (if cka_expired now f then AckNone
     else match f_ack f with
          | AckNone => AckNone
          | AckNormal => if changed then AckNone else AckNormal
          | AckSticky => if changed && ok_new then AckNone else AckSticky
          end) /\
   (cka_acked f = true -> f_ack_expiry f' = (if ackt_eqb (f_ack f') AckNone then 0 else f_ack_expiry f)) /\
   cka_count cka_is_clr outs = (if cka_acked f && negb (cka_acked f') then 1 else 0) /\
   cka_count cka_is_set outs = 0 /\ cka_count cka_is_nack outs = 0 /\
   f_comments f' =
     (if ackt_eqb (f_ack f') AckNone
      then filter (fun x => cm_persistent x || (r_end r <? cm_entry x)) (f_comments f)
      else f_comments f) /\
   cka_expired now f' = false) /\
  (f_ack f' <> AckNone -> cka_count cka_is_nprob outs = 0).
Proof. exact cka_result_rule. Qed.
Print Assumptions C06_clear_rule.

(* a stale (rejected) result touches nothing *)
Theorem C06_rejected_result : forall c now r f,
  rejected now (f_st f) r = true -> cka_step c now f (CkaBase (OpResult r)) = (f, [ORefused 5]).
Proof. exact cka_result_rejected. Qed.
Print Assumptions C06_rejected_result.

(* Expiry: a read after the expiry time clears it (one cleared event); a read at or before it changes nothing *)
Theorem C06_expiry : forall c now f,
  let f' := fst (cka_step c now f (CkaBase OpAckRead)) in
  let outs := snd (cka_step c now f (CkaBase OpAckRead)) in
  (cka_expired now f = true -> f_ack f' = AckNone /\ f_ack_expiry f' = 0 /\ outs = [OAckCleared]) /\
  (cka_expired now f = false -> f' = f /\ outs = []) /\
  f_ack f' = cka_eff_ack now f /\ cka_expired now f' = false.
Proof. exact cka_read_expiry. Qed.
Print Assumptions C06_expiry.

(* Nothing else clears: a set, unexpired acknowledgement survives every operation except a state-changing
   result (sticky: to OK/Up) and the removal entry points *)
Theorem C06_clearing_causes : forall c now f o,
  cka_acked f = true -> cka_expired now f = false ->
  f_ack (fst (cka_step c now f o)) = AckNone ->
  match o with
  | CkaBase (OpResult r) =>
      rejected now (f_st f) r = false /\
      let k := c_kind (fc_base c) in
      cka_api_state k (s_raw (f_st f)) <> cka_api_state k (r_state r) /\
      (f_ack f = AckSticky -> cka_api_state k (r_state r) = 0)
  | CkaBase OpUnack | CkaClusterClear => True
  | _ => False
  end.
Proof. exact cka_clearing_causes. Qed.
Print Assumptions C06_clearing_causes.

(* Refusal by the API action and the external commands: OK/Up object, already acknowledged (after the lazy
   expiry), or expiry not in the future -> the whole state is untouched *)
Theorem C06_refuse : forall c now v sticky notify pers eg expiry f,
  entry_state_ok c f = true \/ cka_eff_ack now f <> AckNone \/ cka_expiry_bad now v eg expiry = true ->
  exists n, 1 <= n <= 3 /\
    cka_step c now f (CkaBase (OpAck v sticky notify pers eg expiry)) = (f, [ORefused n]).
Proof. exact cka_ack_refused. Qed.
Print Assumptions C06_refuse.

(* ... and the cluster event refuses a double acknowledgement *)
Theorem C06_refuse_cluster_double : forall c now sticky notify expiry f,
  cka_eff_ack now f <> AckNone -> cka_step c now f (CkaClusterSet sticky notify expiry) = (f, []).
Proof. exact cka_cluster_refused. Qed.
Print Assumptions C06_refuse_cluster_double.

(* The three entry points side by side, in the form that is true of the code: all refuse a double
   acknowledgement leaving the state untouched; the API action and the external commands also refuse an OK/Up
   object and a non-future expiry; the cluster event applies the message to ANY unacknowledged object -
   for an OK/Up one that is finding F-C06-a (cluster-ok-accepted), see C06_cluster_ok_refuted *)
Theorem C06_refuse_entry_points : forall c now e sticky notify pers eg expiry f,
  let st := cka_step c now f (cka_entry_op e sticky notify pers eg expiry) in
  (cka_eff_ack now f <> AckNone ->
     fst st = f /\ cka_count cka_is_set (snd st) = 0 /\ cka_count cka_is_nack (snd st) = 0 /\
     cka_count cka_is_clr (snd st) = 0) /\
  (forall v, e = CkeBase v ->
     entry_state_ok c f = true \/ cka_expiry_bad now v eg expiry = true ->
     fst st = f /\ cka_count cka_is_set (snd st) = 0 /\ cka_count cka_is_nack (snd st) = 0 /\
     cka_count cka_is_clr (snd st) = 0) /\
  (e = CkeCluster -> cka_eff_ack now f = AckNone ->
     f_ack (fst st) = (if sticky then AckSticky else AckNormal) /\ cka_count cka_is_set (snd st) = 1).
Proof. exact cka_refuse_entry_points. Qed.
Print Assumptions C06_refuse_entry_points.

(* ... but NOT an OK/Up object (finding F-C06-a, known_findings: cluster-ok-accepted): concrete reachable witness *)
Theorem C06_cluster_ok_refuted :
  let c := cka_witness_cfg in
  let f1 := cka_run c init_full (firstn 1 cka_witness_history) in
  let f3 := cka_run c init_full cka_witness_history in
  entry_state_ok c f1 = true /\ f_ack f1 = AckNone /\
  cka_count cka_is_set (snd (cka_step c 20 f1 (CkaClusterSet true true 0))) = 1 /\
  f_ack f3 = AckSticky /\ s_type (f_st f3) = Hard /\ get_handled c 30 f3 = true /\
  cka_count cka_is_nprob (cka_outs c init_full cka_witness_history) = 0.
Proof. exact cka_cluster_ok_refuted. Qed.
Print Assumptions C06_cluster_ok_refuted.

(* An accepted acknowledgement (API / external command): type, expiry, exactly one comment, exactly one set
   event, exactly one Acknowledgement notification iff notify (and the object is not paused), one cleared
   event iff an expired predecessor was replaced *)
Theorem C06_accept : forall c now v sticky notify pers eg expiry f,
  entry_state_ok c f = false -> cka_eff_ack now f = AckNone -> cka_expiry_bad now v eg expiry = false ->
  let f' := fst (cka_step c now f (CkaBase (OpAck v sticky notify pers eg expiry))) in
  let outs := snd (cka_step c now f (CkaBase (OpAck v sticky notify pers eg expiry))) in
  f_ack f' = (if sticky then AckSticky else AckNormal) /\
  f_ack_expiry f' = cka_expiry_eff v eg expiry /\
  f_comments f' = f_comments f ++ [{| cm_id := f_next_cm f; cm_persistent := pers; cm_entry := now;
                                      cm_expire := cka_expiry_eff v eg expiry |}] /\
  cka_count cka_is_set outs = 1 /\
  cka_count cka_is_nack outs = (if notify && negb (f_paused f) then 1 else 0) /\
  cka_count cka_is_clr outs = (if cka_expired now f then 1 else 0) /\
  cka_ref_code outs = 0.
Proof. exact cka_ack_accepted. Qed.
Print Assumptions C06_accept.

Theorem C06_accept_cluster : forall c now sticky notify expiry f,
  cka_eff_ack now f = AckNone ->
  let f' := fst (cka_step c now f (CkaClusterSet sticky notify expiry)) in
  let outs := snd (cka_step c now f (CkaClusterSet sticky notify expiry)) in
  f_ack f' = (if sticky then AckSticky else AckNormal) /\ f_ack_expiry f' = expiry /\
  f_comments f' = f_comments f /\
  cka_count cka_is_set outs = 1 /\
  cka_count cka_is_nack outs = (if notify && negb (f_paused f) then 1 else 0) /\
  cka_count cka_is_clr outs = (if cka_expired now f then 1 else 0).
Proof. exact cka_cluster_accepted. Qed.
Print Assumptions C06_accept_cluster.

(* Over ALL operations: the number of Acknowledgement notifications of a step is 1 iff the step is an accepted
   acknowledgement with notify on a non-paused object, else 0 *)
Theorem C06_notify_once : forall c now f o,
  cka_count cka_is_nack (snd (cka_step c now f o)) =
  if cka_op_notify o && negb (f_paused f) && (0 <? cka_count cka_is_set (snd (cka_step c now f o))) then 1 else 0.
Proof. exact cka_step_notify_once. Qed.
Print Assumptions C06_notify_once.

(* ... spelled out by cases, the paused (HA-passive) object being a stated branch, not a hypothesis *)
Theorem C06_notify_cases : forall c now f o,
  let n := cka_count cka_is_nack (snd (cka_step c now f o)) in
  let sets := cka_count cka_is_set (snd (cka_step c now f o)) in
  (cka_op_notify o = true -> sets = 1 -> f_paused f = false -> n = 1) /\
  (f_paused f = true -> n = 0) /\
  (cka_op_notify o = false -> n = 0) /\
  (sets = 0 -> n = 0) /\
  0 <= n <= 1.
Proof. exact cka_step_notify_cases. Qed.
Print Assumptions C06_notify_cases.

(* Over ALL histories from ANY state: set and cleared events alternate strictly and agree with the attribute -
   every transition to none is reported exactly once, there is no cleared event otherwise, and no second set
   event without a cleared event in between (double acknowledgement is impossible through any entry point) *)
Theorem C06_cleared_once : forall c h f,
  cka_alternates (cka_acked f) (cka_outs c f h) = Some (cka_acked (cka_run c f h)).
Proof. exact cka_history_alternates. Qed.
Print Assumptions C06_cleared_once.

(* Removal entry points *)
Theorem C06_remove : forall c now f,
  let f' := fst (cka_step c now f (CkaBase OpUnack)) in
  let outs := snd (cka_step c now f (CkaBase OpUnack)) in
  f_ack f' = AckNone /\ f_ack_expiry f' = 0 /\
  f_comments f' = filter cm_persistent (f_comments f) /\
  cka_count cka_is_clr outs = (if cka_acked f then 1 else 0) /\
  cka_count cka_is_set outs = 0 /\ cka_count cka_is_nack outs = 0.
Proof. exact cka_unack_rule. Qed.
Print Assumptions C06_remove.

Theorem C06_remove_cluster : forall c now f,
  let f' := fst (cka_step c now f CkaClusterClear) in
  let outs := snd (cka_step c now f CkaClusterClear) in
  f_ack f' = AckNone /\ f_ack_expiry f' = 0 /\ f_comments f' = f_comments f /\
  cka_count cka_is_clr outs = (if cka_acked f then 1 else 0) /\
  cka_count cka_is_set outs = 0 /\ cka_count cka_is_nack outs = 0.
Proof. exact cka_cluster_clear_rule. Qed.
Print Assumptions C06_remove_cluster.

(* Comments: a persistent acknowledgement comment survives every history *)
Theorem C06_comments_persistent : forall c h f c0,
  In c0 (f_comments f) -> cm_persistent c0 = true -> In c0 (f_comments (cka_run c f h)).
Proof. exact cka_history_persistent. Qed.
Print Assumptions C06_comments_persistent.

(* Handled: GetHandled() = problem && (in downtime || acknowledged as every reader sees it) *)
Theorem C06_handled : forall c now f,
  get_handled c now f =
  (s_has_cr (f_st f) && negb (cka_api_state (c_kind (fc_base c)) (s_raw (f_st f)) =? 0))
  && ((0 <? downtime_depth now f) || negb (ackt_eqb (cka_eff_ack now f) AckNone)).
Proof. exact cka_handled_rule. Qed.
Print Assumptions C06_handled.

(* Suppression, over ALL operations: a step that leaves the object acknowledged requests no Problem notification *)
Theorem C06_problem_withheld : forall c now f o,
  f_ack (fst (cka_step c now f o)) <> AckNone -> filter cka_is_nprob (snd (cka_step c now f o)) = [].
Proof. exact cka_step_no_problem. Qed.
Print Assumptions C06_problem_withheld.

(* The executable oracle that is run over implementation traces never reports a failure on a trace of the
   model, for all histories from the initial state; its "finding F-C06-a seen" flag is the only thing it may raise *)
Theorem C06_oracle_accepts_model : forall c h,
  snd (cka_oracle (c_kind (fc_base c)) (cka_model_trace c init_full h)) = None.
Proof. exact cka_oracle_accepts_model. Qed.
Print Assumptions C06_oracle_accepts_model.

(* non-vacuity: a reachable acknowledged hard problem on which the clear rule, expiry and refusal premises hold *)
Example C06_nonvacuous :
  let c := cka_witness_cfg in
  let h := [ (10, CkaBase (OpResult {| r_state := SCritical; r_start := 10; r_end := 10 |}));
             (20, CkaBase (OpAck ViaExtExpire false true false true 50)) ] in
  let f := cka_run c init_full h in
  cka_acked f = true /\ f_ack_expiry f = 50 /\ cka_expired 50 f = false /\ cka_expired 51 f = true /\
  rejected 60 (f_st f) {| r_state := SOK; r_start := 60; r_end := 60 |} = false /\
  entry_state_ok c f = false /\ cka_eff_ack 30 f <> AckNone /\
  cka_count cka_is_nack (cka_outs c init_full h) = 1 /\
  f_ack (fst (cka_step c 40 f (CkaBase (OpResult {| r_state := SWarning; r_start := 40; r_end := 40 |})))) = AckNone.
Proof. vm_compute. repeat split; discriminate. Qed.
