From Icv Require Import Base.Tac Ck.CkState Ck.CkFull Ck.CkAck Ck.CkAckObs.
Local Open Scope Z_scope.
Theorem C06_stub : cka_first [] = 0.
Proof. reflexivity. Qed.
Print Assumptions C06_stub.
