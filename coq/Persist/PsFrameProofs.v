(* C14 - frame lemmas for diverging paths through nested dictionaries: ModifyAttribute / RestoreAttribute on a path p
   leave the value at every path q that is token-incomparable with p (neither a prefix of the other) untouched;
   what they do to original_attributes. *)
From Icv Require Import Base.Tac Persist.PsValue Persist.PsModel Persist.PsValueProofs Persist.PsRestoreProofs.
From Coq Require Import NArith.
Local Open Scope N_scope.

(* ---- token lists: prefix, incomparability ---- *)
Fixpoint ps_tprefix (a b : list ps_key) : bool :=
  match a, b with
  | [], _ => true
  | x :: a', y :: b' => ps_key_eqb x y && ps_tprefix a' b'
  | _ :: _, [] => false
  end.

Definition ps_tincomp (a b : list ps_key) : Prop := ps_tprefix a b = false /\ ps_tprefix b a = false.
Definition ps_incomp (p q : ps_key) : Prop := ps_tincomp (ps_split p) (ps_split q).

Lemma ps_tincomp_sym a b : ps_tincomp a b -> ps_tincomp b a.
Proof. intros [H1 H2]. split; assumption. Qed.

Lemma ps_tincomp_nil_l b : ~ ps_tincomp [] b.
Proof. intros [H _]. discriminate. Qed.

Lemma ps_tincomp_cons k a b : ps_tincomp (k :: a) (k :: b) -> ps_tincomp a b.
Proof. intros [H1 H2]. cbn in H1, H2. rewrite ps_key_eqb_refl in H1, H2. split; assumption. Qed.

Lemma ps_entry_matches_tprefix : forall a b,
  negb (Nat.ltb (length b) (length a)) && ps_keys_eqb a (firstn (length a) b) = ps_tprefix a b.
Proof.
  induction a as [|x a IH]; intros [|y b]; try reflexivity.
  cbn [length firstn ps_keys_eqb ps_tprefix]. rewrite <- IH.
  change (Nat.ltb (S (length b)) (S (length a))) with (Nat.ltb (length b) (length a)).
  destruct (ps_key_eqb x y), (Nat.ltb (length b) (length a)); reflexivity.
Qed.

Lemma ps_entry_matches_eq tokens k : ps_entry_matches tokens k = ps_tprefix tokens (ps_split k).
Proof. unfold ps_entry_matches. apply ps_entry_matches_tprefix. Qed.

(* ---- Get along a path ---- *)
Lemma ps_nest_get_of_empty qs : ps_nest_get qs PsEmpty = PsEmpty.
Proof. destruct qs; reflexivity. Qed.

Lemma ps_nest_get_of_nil qs : qs <> [] -> ps_nest_get qs (PsDict []) = PsEmpty.
Proof. destruct qs as [|q qs]; [contradiction|]. intros _. cbn. apply ps_nest_get_of_empty. Qed.

(* ---- ModifyAttribute's update ---- *)
Lemma ps_nest_set_get l v : forall ks cur nv, ps_nest_set ks l v cur = Some nv -> ps_nest_get (ks ++ [l]) nv = v.
Proof.
  induction ks as [|k ks IH]; intros cur nv H; destruct cur; cbn in H; try discriminate.
  - inversion H; subst. cbn. apply ps_dget_dset_same.
  - destruct (ps_nest_set ks l v _) as [c'|] eqn:E; [|discriminate]. inversion H; subst.
    cbn. rewrite ps_dget_dset_same. apply (IH _ _ E).
Qed.

Lemma ps_nest_set_frame l v : forall ks cur nv qs,
  ps_nest_set ks l v cur = Some nv -> ps_tincomp qs (ks ++ [l]) -> ps_nest_get qs nv = ps_nest_get qs cur.
Proof.
  induction ks as [|k ks IH]; intros cur nv qs H Hi; destruct cur; cbn in H; try discriminate;
    (destruct qs as [|q0 qs]; [exfalso; exact (ps_tincomp_nil_l _ Hi)|]).
  - inversion H; subst. cbn. destruct Hi as [_ Hi]. cbn in Hi. rewrite andb_true_r in Hi.
    rewrite ps_dget_dset_other; [reflexivity|]. intros ->. rewrite ps_key_eqb_refl in Hi. discriminate.
  - destruct (ps_nest_set ks l v _) as [c'|] eqn:E; [|discriminate]. inversion H; subst. cbn.
    destruct (ps_key_eqb q0 k) eqn:Eq.
    + apply ps_key_eqb_eq in Eq. subst q0. apply ps_tincomp_cons in Hi.
      rewrite ps_dget_dset_same. rewrite (IH _ _ _ E Hi). unfold ps_dget.
      destruct (ps_dget_opt k d); [reflexivity|].
      rewrite ps_nest_get_of_empty. apply ps_nest_get_of_nil. intros ->. exact (ps_tincomp_nil_l _ Hi).
    + rewrite ps_dget_dset_other; [reflexivity|]. intros ->. rewrite ps_key_eqb_refl in Eq. discriminate.
Qed.

(* ---- RestoreAttribute's update ---- *)
Lemma ps_nest_update_frame l F :
  (forall d q, q <> l -> ps_dget q (F d) = ps_dget q d) ->
  forall ks cur nv qs,
  ps_nest_update ks F cur = Some nv -> ps_tincomp qs (ks ++ [l]) -> ps_nest_get qs nv = ps_nest_get qs cur.
Proof.
  intros HF. induction ks as [|k ks IH]; intros cur nv qs H Hi; destruct cur; cbn in H; try discriminate;
    (destruct qs as [|q0 qs]; [exfalso; exact (ps_tincomp_nil_l _ Hi)|]).
  - inversion H; subst. cbn. destruct Hi as [_ Hi]. cbn in Hi. rewrite andb_true_r in Hi.
    rewrite HF; [reflexivity|]. intros ->. rewrite ps_key_eqb_refl in Hi. discriminate.
  - destruct (ps_dget_opt k d) as [c|] eqn:Ec; [|discriminate].
    destruct (ps_nest_update ks F c) as [c'|] eqn:E; [|discriminate]. inversion H; subst. cbn.
    destruct (ps_key_eqb q0 k) eqn:Eq.
    + apply ps_key_eqb_eq in Eq. subst q0. apply ps_tincomp_cons in Hi.
      rewrite ps_dget_dset_same. rewrite (IH _ _ _ E Hi). unfold ps_dget. rewrite Ec. reflexivity.
    + rewrite ps_dget_dset_other; [reflexivity|]. intros ->. rewrite ps_key_eqb_refl in Eq. discriminate.
Qed.

Lemma ps_nest_update_self l F (h : ps_value -> ps_value) :
  (forall d, ps_dget l (F d) = h (ps_dget l d)) ->
  forall ks cur nv, ps_nest_update ks F cur = Some nv -> ps_nest_get (ks ++ [l]) nv = h (ps_nest_get (ks ++ [l]) cur).
Proof.
  intros HF. induction ks as [|k ks IH]; intros cur nv H; destruct cur; cbn in H; try discriminate.
  - inversion H; subst. cbn. apply HF.
  - destruct (ps_dget_opt k d) as [c|] eqn:Ec; [|discriminate].
    destruct (ps_nest_update ks F c) as [c'|] eqn:E; [|discriminate]. inversion H; subst. cbn.
    rewrite ps_dget_dset_same. rewrite (IH _ _ E). unfold ps_dget. rewrite Ec. reflexivity.
Qed.

Lemma ps_nest_update_is_dict ks F cur nv : ps_nest_update ks F cur = Some nv -> exists d, nv = PsDict d.
Proof.
  intros H. destruct cur; try (destruct ks; cbn in H; discriminate). destruct ks as [|k ks]; cbn in H.
  - inversion H. eexists. reflexivity.
  - destruct (ps_dget_opt k d); [|discriminate]. destruct (ps_nest_update ks F p); inversion H. eexists. reflexivity.
Qed.

(* the loop over original_attributes when only entries keyed [attr] itself lie at or below [attr], all holding [x] *)
Section RestoreLoop.
  Variables (attr l : ps_key) (x : ps_value).
  Definition ps_own_only (og : ps_dict) : Prop :=
    forall kx, In kx og -> ps_entry_matches (ps_split attr) (fst kx) = true -> fst kx = attr /\ snd kx = x.

  Lemma ps_loop_other : forall og cd q, ps_own_only og -> q <> l ->
    ps_dget q (fold_left (ps_restore_entry (ps_split attr) l) og cd) = ps_dget q cd.
  Proof.
    induction og as [|[k y] og IH]; intros cd q Hown Hq; [reflexivity|]. cbn [fold_left].
    rewrite IH; [|intros kx Hin; apply Hown; right; exact Hin | exact Hq].
    unfold ps_restore_entry. cbn [fst snd]. destruct (ps_entry_matches (ps_split attr) k) eqn:Em; [|reflexivity].
    destruct (Hown (k, y) (or_introl eq_refl) Em) as [Hk _]. cbn in Hk. subst k.
    rewrite skipn_all. apply ps_dget_dset_other. exact Hq.
  Qed.

  Lemma ps_loop_self : forall og cd, ps_own_only og ->
    ps_dget l (fold_left (ps_restore_entry (ps_split attr) l) og cd) = if ps_dcontains attr og then x else ps_dget l cd.
  Proof.
    induction og as [|[k y] og IH]; intros cd Hown; [reflexivity|]. cbn [fold_left].
    rewrite IH by (intros kx Hin; apply Hown; right; exact Hin).
    unfold ps_dcontains. cbn [ps_dget_opt].
    unfold ps_restore_entry. cbn [fst snd]. destruct (ps_entry_matches (ps_split attr) k) eqn:Em.
    - destruct (Hown (k, y) (or_introl eq_refl) Em) as [Hk Hy]. cbn in Hk, Hy. subst k y.
      rewrite ps_key_eqb_refl, skipn_all, ps_dget_dset_same.
      fold (ps_dcontains attr og). destruct (ps_dcontains attr og); reflexivity.
    - destruct (ps_key_eqb attr k) eqn:Ek.
      + apply ps_key_eqb_eq in Ek. subst k. rewrite ps_entry_matches_self in Em. discriminate.
      + reflexivity.
  Qed.
End RestoreLoop.

(* ---- dictionaries as lists of entries ---- *)
Lemma ps_in_dremove kx k d : In kx (ps_dremove k d) <-> In kx d /\ fst kx <> k.
Proof.
  induction d as [|[k' v'] d IH]; cbn; [tauto|].
  destruct (ps_key_eqb k k') eqn:E.
  - apply ps_key_eqb_eq in E. subst k'. rewrite IH. split; [tauto|].
    intros [[H|H] Hn]; [subst kx; cbn in Hn; contradiction | tauto].
  - cbn. rewrite IH. split.
    + intros [H|H]; [|tauto]. subst kx. cbn. split; [left; reflexivity|]. intros ->. rewrite ps_key_eqb_refl in E. discriminate.
    + tauto.
Qed.

Lemma ps_dcontains_in k d : ps_dcontains k d = true -> exists x, In (k, x) d /\ ps_dget k d = x.
Proof.
  unfold ps_dcontains, ps_dget. induction d as [|[k' v'] d IH]; cbn; [discriminate|].
  destruct (ps_key_eqb k k') eqn:E.
  - apply ps_key_eqb_eq in E. subst. intros _. exists v'. auto.
  - intros H. destruct (IH H) as (x & Hin & Hg). exists x. auto.
Qed.

Lemma ps_dcontains_dset k v d : ps_dcontains k (ps_dset k v d) = true.
Proof. unfold ps_dcontains. rewrite ps_dget_opt_dset_same. reflexivity. Qed.

(* ---- object level ---- *)
Lemma ps_get_attr_same_fields q o o' : ps_m_fields o' = ps_m_fields o -> ps_get_attr q o' = ps_get_attr q o.
Proof. intros H. unfold ps_get_attr. rewrite H. reflexivity. Qed.

(* the field [f] replaced by [nv], where [nv] agrees with the old field value on everything incomparable with [rest] *)
Lemma ps_get_attr_frame p q f rest nv o o' :
  ps_split p = f :: rest -> ps_incomp p q ->
  ps_m_fields o' = ps_dset f nv (ps_m_fields o) ->
  (forall restq, ps_tincomp restq rest -> ps_nest_get restq nv = ps_nest_get restq (ps_dget f (ps_m_fields o))) ->
  ps_get_attr q o' = ps_get_attr q o.
Proof.
  intros Hsp Hi Hf Hnv. unfold ps_get_attr. unfold ps_incomp in Hi. rewrite Hsp in Hi.
  destruct (ps_split q) as [|g restq]; [reflexivity|]. rewrite Hf.
  destruct (ps_key_eqb g f) eqn:E.
  - apply ps_key_eqb_eq in E. subst g. rewrite ps_dget_dset_same. apply Hnv.
    apply ps_tincomp_sym. apply (ps_tincomp_cons f). exact Hi.
  - rewrite ps_dget_dset_other; [reflexivity|]. intros ->. rewrite ps_key_eqb_refl in E. discriminate.
Qed.

Definition ps_cfg_field (fe : ps_fenv) (p : ps_key) : Prop :=
  exists fi, ps_filookup fe (ps_field_of p) = Some fi /\ ps_fi_config fi = true.

(* what one ModifyAttribute does, given that the value at the path is not a dictionary *)
Theorem ps_modify_spec fe p v now o ok o' :
  ps_modify_attribute fe p v true now o = (ok, o') ->
  ps_cfg_field fe p -> ps_is_dict (ps_get_attr p o) = false ->
  (forall q, ps_incomp p q -> ps_get_attr q o' = ps_get_attr q o) /\
  (ps_orig_dict o' = ps_orig_dict o \/
   (ps_dcontains p (ps_orig_dict o) = false /\ ps_orig_dict o' = ps_dset p (ps_get_attr p o) (ps_orig_dict o))) /\
  (if ok then ps_dcontains p (ps_orig_dict o') = true else ps_m_fields o' = ps_m_fields o).
Proof.
  intros Hmod (fi & Hfi & Hcfg) Hnd. unfold ps_modify_attribute in Hmod. unfold ps_field_of in Hfi.
  unfold ps_get_attr in Hnd |- * at 3.
  destruct (ps_split p) as [|f rest] eqn:Hsp.
  { inversion Hmod; subst. split; [auto | split; [left; reflexivity | reflexivity]]. }
  rewrite Hfi in Hmod. destruct (ps_fi_nomod fi).
  { inversion Hmod; subst. split; [auto | split; [left; reflexivity | reflexivity]]. }
  rewrite Hcfg in Hmod.
  remember (match ps_m_orig o with
            | Some _ => o
            | None => {| ps_m_fields := ps_m_fields o; ps_m_orig := Some []; ps_m_version := ps_m_version o |}
            end) as o1 eqn:Hdef.
  assert (ps_m_fields o1 = ps_m_fields o) as Hf1 by (rewrite Hdef; destruct (ps_m_orig o); reflexivity).
  assert (ps_orig_dict o1 = ps_orig_dict o) as Ho1 by (rewrite Hdef; unfold ps_orig_dict; destruct (ps_m_orig o) eqn:E; cbn; rewrite ?E; reflexivity).
  clear Hdef. rewrite ?Hf1, ?Ho1 in Hmod.
  destruct rest as [|r rest'].
  - (* top-level *)
    cbn in Hmod. cbn in Hnd.
    assert (ps_orig_dict {| ps_m_fields := ps_m_fields o; ps_m_orig := Some (if ps_dcontains p (ps_orig_dict o) then ps_orig_dict o else ps_dset p (ps_dget f (ps_m_fields o)) (ps_orig_dict o)); ps_m_version := 0%Z |}
            = ps_orig_dict o \/ (ps_dcontains p (ps_orig_dict o) = false /\ (if ps_dcontains p (ps_orig_dict o) then ps_orig_dict o else ps_dset p (ps_dget f (ps_m_fields o)) (ps_orig_dict o)) = ps_dset p (ps_dget f (ps_m_fields o)) (ps_orig_dict o))) as Hc.
    { unfold ps_orig_dict at 1. cbn. destruct (ps_dcontains p (ps_orig_dict o)); [left; reflexivity | right; split; reflexivity]. }
    destruct (ps_field_accepts fi v); inversion Hmod; subst ok o'; clear Hmod.
    + split; [|split].
      * intros q Hi. apply (ps_get_attr_frame p q f [] (ps_coerce fi v) o); [exact Hsp | exact Hi | reflexivity |].
        intros restq Ht. exfalso. exact (ps_tincomp_nil_l _ (ps_tincomp_sym _ _ Ht)).
      * unfold ps_orig_dict at 1 3. cbn [ps_m_orig]. unfold ps_orig_dict at 1 in Hc. cbn [ps_m_orig] in Hc.
        destruct Hc as [Hc|[Hc1 Hc2]]; [left; exact Hc | right; split; [exact Hc1 | exact Hc2]].
      * cbv iota. unfold ps_orig_dict at 1. cbn [ps_m_orig]. destruct (ps_dcontains p (ps_orig_dict o)) eqn:E; [exact E | apply ps_dcontains_dset].
    + split; [|split].
      * intros q _. apply ps_get_attr_same_fields. reflexivity.
      * unfold ps_orig_dict at 1 3. cbn [ps_m_orig]. unfold ps_orig_dict at 1 in Hc. cbn [ps_m_orig] in Hc.
        destruct Hc as [Hc|[Hc1 Hc2]]; [left; exact Hc | right; split; [exact Hc1 | exact Hc2]].
      * reflexivity.
  - (* nested *)
    set (rest := r :: rest') in *.
    set (ks := removelast rest) in *. set (l := last rest []) in *.
    assert (rest = ks ++ [l]) as Hrest by (apply app_removelast_last; discriminate).
    set (oldf := ps_dget f (ps_m_fields o)) in *.
    set (start := if ps_is_empty oldf then PsDict [] else oldf) in *.
    cbv zeta in Hmod.
    destruct (ps_nest_old ks l start) as [ov|] eqn:Hold.
    2:{ inversion Hmod; subst ok o'. split; [|split].
        - intros q _. apply ps_get_attr_same_fields. exact Hf1.
        - left. exact Ho1.
        - exact Hf1. }
    destruct (ps_nest_set ks l v start) as [nv|] eqn:Hset.
    2:{ inversion Hmod; subst ok o'. split; [|split].
        - intros q _. apply ps_get_attr_same_fields. exact Hf1.
        - left. exact Ho1.
        - exact Hf1. }
    destruct (ps_nest_set_is_dict _ _ _ _ _ Hset) as (nd & ->).
    assert (ps_nest_get rest oldf = ov) as Hov.
    { rewrite Hrest. destruct oldf eqn:Eo; cbn in start; subst start; try (apply ps_nest_old_get; exact Hold).
      pose proof (ps_nest_old_empty _ _ _ Hold) as ->. apply ps_nest_get_empty. destruct ks; discriminate. }
    rewrite Hov in Hnd.
    assert (ps_record_nested p ov v (ps_orig_dict o) =
            if ps_dcontains p (ps_orig_dict o) then ps_orig_dict o else ps_dset p ov (ps_orig_dict o)) as Hrec.
    { unfold ps_record_nested. destruct ov; try discriminate; reflexivity. }
    rewrite Hrec in Hmod.
    assert (ps_field_accepts fi (PsDict nd) = true) as Hacc by (unfold ps_field_accepts; cbn; rewrite orb_true_r; reflexivity).
    rewrite Hacc in Hmod. inversion Hmod; subst ok o'; clear Hmod. split; [|split].
    + intros q Hi. apply (ps_get_attr_frame p q f rest (PsDict nd) o); [exact Hsp | exact Hi | reflexivity |].
      intros restq Ht. rewrite Hrest in Ht. rewrite (ps_nest_set_frame l v ks start (PsDict nd) restq Hset Ht).
      fold oldf. unfold start. destruct oldf; cbn [ps_is_empty]; try reflexivity.
      rewrite ps_nest_get_of_empty. apply ps_nest_get_of_nil. intros ->. exact (ps_tincomp_nil_l _ Ht).
    + unfold ps_orig_dict at 1 3. cbn [ps_m_orig]. rewrite Hov.
      destruct (ps_dcontains p (ps_orig_dict o)); [left; reflexivity | right; split; reflexivity].
    + cbv iota. unfold ps_orig_dict at 1. cbn [ps_m_orig].
      destruct (ps_dcontains p (ps_orig_dict o)) eqn:E; [exact E | apply ps_dcontains_dset].
Qed.

(* what one RestoreAttribute does when the only entries at or below [p] are keyed [p] itself and hold [x] *)
Theorem ps_restore_spec fe p now o ok o' x :
  ps_restore_attribute fe p true now o = (ok, o') ->
  ps_own_only p x (ps_orig_dict o) ->
  (forall fi, ps_filookup fe (ps_field_of p) = Some fi -> ps_coerce fi x = x) ->
  (forall q, ps_incomp p q -> ps_get_attr q o' = ps_get_attr q o) /\
  (forall kx, In kx (ps_orig_dict o') <-> In kx (ps_orig_dict o) /\ (ok = true -> fst kx <> p)) /\
  (ok = true -> ps_get_attr p o' = if ps_dcontains p (ps_orig_dict o) then x else ps_get_attr p o) /\
  (ok = false -> o' = o).
Proof.
  intros Hres Hown Hco. unfold ps_restore_attribute in Hres. unfold ps_field_of in Hco. unfold ps_get_attr at 3 4.
  assert (forall kx, In kx (ps_orig_dict o) <-> In kx (ps_orig_dict o) /\ (false = true -> fst kx <> p)) as Hsame
    by (intros kx; split; [intros H; split; [exact H | discriminate] | tauto]).
  destruct (ps_split p) as [|f rest] eqn:Hsp.
  { inversion Hres; subst ok o'. split; [intros; reflexivity | split; [apply Hsame | split; [discriminate | reflexivity]]]. }
  destruct (ps_filookup fe f) as [fi|] eqn:Hfi.
  2:{ inversion Hres; subst ok o'. split; [intros; reflexivity | split; [apply Hsame | split; [discriminate | reflexivity]]]. }
  specialize (Hco fi eq_refl).
  destruct (ps_m_orig o) as [og|] eqn:Horig.
  2:{ inversion Hres; subst ok o'. split; [intros; reflexivity | split; [|split; [|discriminate]]].
      - intros kx. unfold ps_orig_dict. rewrite Horig. cbn. tauto.
      - intros _. unfold ps_orig_dict. rewrite Horig. reflexivity. }
  assert (ps_orig_dict o = og) as Hog by (unfold ps_orig_dict; rewrite Horig; reflexivity).
  rewrite Hog. rewrite Hog in Hown.
  assert (forall kx, In kx (ps_orig_dict o) <-> In kx og /\ (false = true -> fst kx <> p)) as Hsame'
    by (intros kx; rewrite Hog; split; [intros H; split; [exact H | discriminate] | tauto]).
  destruct rest as [|r rest'].
  - (* top-level, fixed code *)
    destruct (ps_dcontains p og) eqn:Ec; cbn [negb] in Hres.
    + inversion Hres; subst ok o'; clear Hres. split; [|split; [|split; [|discriminate]]].
      * intros q Hi. apply (ps_get_attr_frame p q f [] (ps_coerce fi (ps_dget p og)) o); [exact Hsp | exact Hi | reflexivity |].
        intros restq Ht. exfalso. exact (ps_tincomp_nil_l _ (ps_tincomp_sym _ _ Ht)).
      * intros kx. unfold ps_orig_dict. cbn [ps_m_orig]. rewrite ps_in_dremove. split; intros [H1 H2]; split; auto.
      * intros _. cbn. rewrite ps_dget_dset_same.
        destruct (ps_dcontains_in p og Ec) as (x' & Hin & Hg). rewrite Hg.
        destruct (Hown (p, x') Hin) as [_ Hx]; [cbn; apply ps_entry_matches_self|]. cbn in Hx. rewrite Hx. exact Hco.
    + inversion Hres; subst ok o'. split; [auto|]. split; [|split; [|discriminate]].
      * intros kx. rewrite Hog. split; [intros H; split; [exact H|] | tauto].
        intros _ E. subst p. destruct kx as [k y]. cbn in Ec.
        pose proof (ps_dcontains_false_not_in k og Ec y) as Hn. contradiction.
      * intros _. reflexivity.
  - (* nested *)
    set (rest := r :: rest') in *.
    set (ks := removelast rest) in *. set (l := last rest []) in *.
    assert (rest = ks ++ [l]) as Hrest by (apply app_removelast_last; discriminate).
    set (cur := ps_dget f (ps_m_fields o)) in *.
    destruct (ps_is_empty cur).
    { inversion Hres; subst ok o'. split; [intros; reflexivity | split; [apply Hsame' | split; [discriminate | reflexivity]]]. }
    set (F := fun cd => fold_left (ps_restore_entry (f :: rest) l) og cd) in *.
    destruct (ps_nest_update ks F cur) as [nv|] eqn:Hu.
    2:{ inversion Hres; subst ok o'. split; [intros; reflexivity | split; [apply Hsame' | split; [discriminate | reflexivity]]]. }
    destruct (ps_nest_update_is_dict _ _ _ _ Hu) as (nd & ->).
    inversion Hres; subst ok o'; clear Hres.
    assert (forall d q, q <> l -> ps_dget q (F d) = ps_dget q d) as HFo
      by (intros d q Hq; unfold F; rewrite <- Hsp; apply (ps_loop_other p l x); assumption).
    assert (forall d, ps_dget l (F d) = (fun y => if ps_dcontains p og then x else y) (ps_dget l d)) as HFs
      by (intros d; unfold F; rewrite <- Hsp; apply (ps_loop_self p l x); assumption).
    split; [|split; [|split; [|discriminate]]].
    + intros q Hi. apply (ps_get_attr_frame p q f rest (PsDict nd) o); [exact Hsp | exact Hi | reflexivity |].
      intros restq Ht. rewrite Hrest in Ht. exact (ps_nest_update_frame l F HFo ks cur (PsDict nd) restq Hu Ht).
    + intros kx. unfold ps_orig_dict at 1. cbn [ps_m_orig]. rewrite ps_in_dremove, filter_In. split.
      * intros [[H1 _] H2]. split; [exact H1 | intros _; exact H2].
      * intros [H1 H2]. specialize (H2 eq_refl). split; [split; [exact H1|] | exact H2].
        apply negb_true_iff. destruct (ps_entry_matches (f :: rest) (fst kx)) eqn:Em; [|reflexivity].
        rewrite <- Hsp in Em. destruct (Hown kx H1 Em) as [Hk _]. contradiction.
    + intros _. cbn [ps_m_fields]. rewrite ps_dget_dset_same. cbn [ps_coerce].
      change (ps_nest_get rest (PsDict nd) = (fun y => if ps_dcontains p og then x else y) (ps_nest_get rest cur)).
      rewrite Hrest. exact (ps_nest_update_self l F _ HFs ks cur (PsDict nd) Hu).
Qed.
