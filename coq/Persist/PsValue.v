(* C14 - the Icinga data model as far as persistence sees it (definitions only, no proofs).
   ps_value mirrors icinga::Value: Empty, Boolean, Number, String, Array, Dictionary, plus [PsObj] for a
   reflected non-container object (CheckResult, or whatever Type::Instantiate produced).
   Dictionaries are association lists kept key-sorted by [ps_dset] (std::map<String,Value>: bytewise order).
   Numbers are finite decimals  m * 10^-k  (every value the generators use is of this form; binary64
   rounding is the subject of C20/C17, see notes/C14.md). *)
From Icv Require Import Base.Tac.
From Coq Require Import NArith.
Local Open Scope N_scope.

Definition ps_key := list N.          (* bytes *)

Inductive ps_value : Type :=
| PsEmpty
| PsBool (b : bool)
| PsNum (m : Z) (k : N)               (* m * 10^-k *)
| PsStr (s : ps_key)
| PsArr (l : list ps_value)
| PsDict (d : list (ps_key * ps_value))
| PsObj (tname : ps_key) (fields : list (ps_key * ps_value)).

Definition ps_dict := list (ps_key * ps_value).

(* ---- keys: equality and the bytewise order of std::string ---- *)
Fixpoint ps_key_eqb (a b : ps_key) : bool :=
  match a, b with
  | [], [] => true
  | x :: a', y :: b' => (x =? y) && ps_key_eqb a' b'
  | _, _ => false
  end.

Fixpoint ps_key_ltb (a b : ps_key) : bool :=
  match a, b with
  | [], [] => false
  | [], _ :: _ => true
  | _ :: _, [] => false
  | x :: a', y :: b' => if x <? y then true else if x =? y then ps_key_ltb a' b' else false
  end.

(* ---- Dictionary::Get / Contains / Set / Remove ---- *)
Fixpoint ps_dget_opt (k : ps_key) (d : ps_dict) : option ps_value :=
  match d with
  | [] => None
  | (k', v) :: t => if ps_key_eqb k k' then Some v else ps_dget_opt k t
  end.

Definition ps_dget (k : ps_key) (d : ps_dict) : ps_value :=
  match ps_dget_opt k d with Some v => v | None => PsEmpty end.

Definition ps_dcontains (k : ps_key) (d : ps_dict) : bool :=
  match ps_dget_opt k d with Some _ => true | None => false end.

Fixpoint ps_dset (k : ps_key) (v : ps_value) (d : ps_dict) : ps_dict :=
  match d with
  | [] => [(k, v)]
  | (k', v') :: t =>
    if ps_key_eqb k k' then (k, v) :: t
    else if ps_key_ltb k k' then (k, v) :: (k', v') :: t
    else (k', v') :: ps_dset k v t
  end.

Fixpoint ps_dremove (k : ps_key) (d : ps_dict) : ps_dict :=
  match d with
  | [] => []
  | (k', v') :: t => if ps_key_eqb k k' then ps_dremove k t else (k', v') :: ps_dremove k t
  end.

Definition ps_is_dict (v : ps_value) : bool := match v with PsDict _ => true | _ => false end.
Definition ps_is_empty (v : ps_value) : bool := match v with PsEmpty => true | _ => false end.

(* ---- decidable equality of values (used by the oracles) ---- *)
Fixpoint ps_veqb (a b : ps_value) {struct a} : bool :=
  match a, b with
  | PsEmpty, PsEmpty => true
  | PsBool x, PsBool y => Bool.eqb x y
  | PsNum m k, PsNum m' k' => (Z.eqb m m') && (k =? k')
  | PsStr s, PsStr s' => ps_key_eqb s s'
  | PsArr l, PsArr l' =>
    (fix go (l l' : list ps_value) : bool :=
       match l, l' with
       | [], [] => true
       | x :: t, y :: t' => ps_veqb x y && go t t'
       | _, _ => false
       end) l l'
  | PsDict d, PsDict d' =>
    (fix go (d d' : ps_dict) : bool :=
       match d, d' with
       | [], [] => true
       | (k, x) :: t, (k', y) :: t' => ps_key_eqb k k' && ps_veqb x y && go t t'
       | _, _ => false
       end) d d'
  | PsObj n f, PsObj n' f' =>
    ps_key_eqb n n' &&
    (fix go (d d' : ps_dict) : bool :=
       match d, d' with
       | [], [] => true
       | (k, x) :: t, (k', y) :: t' => ps_key_eqb k k' && ps_veqb x y && go t t'
       | _, _ => false
       end) f f'
  | _, _ => false
  end.

Fixpoint ps_deqb (d d' : ps_dict) : bool :=
  match d, d' with
  | [], [] => true
  | (k, x) :: t, (k', y) :: t' => ps_key_eqb k k' && ps_veqb x y && ps_deqb t t'
  | _, _ => false
  end.

(* ---- "." handling: String::Split(".") (boost::split keeps empty tokens) and the inverse join ---- *)
Definition ps_dot : N := 46.

Fixpoint ps_split_acc (s : ps_key) (cur : ps_key) : list ps_key :=
  match s with
  | [] => [rev cur]
  | c :: t => if c =? ps_dot then rev cur :: ps_split_acc t [] else ps_split_acc t (c :: cur)
  end.
Definition ps_split (s : ps_key) : list ps_key := ps_split_acc s [].

(* attr + "." + key *)
Definition ps_dotcat (a k : ps_key) : ps_key := a ++ ps_dot :: k.

(* the key "type" *)
Definition ps_type_key : ps_key := [116; 121; 112; 101].
