(* C14 - REPEATED modification: what original_attributes remembers for a path is the value the path had before the
   FIRST modification since its last restore - whatever that value is (null, "", 0, false, an empty array, a key that
   did not exist) - and later modifications of the same path never overwrite it.  Corollaries of the sequence invariant
   (PsSeqProofs.ps_seq_inv: a listed path remembers the configured value, an unlisted path READS as configured - so
   "configured" and "before the first modification since the last restore" coincide). *)
From Icv Require Import Base.Tac Persist.PsValue Persist.PsModel Persist.PsValueProofs Persist.PsRestoreProofs
  Persist.PsFrameProofs Persist.PsSeqProofs Persist.PsSpineProofs.
From Coq Require Import NArith.
Local Open Scope N_scope.

Section First.
  Variable fe : ps_fenv.
  Variable P : list ps_key.
  Variable o0 : ps_mobj.
  Hypothesis HPinc : forall p p', In p P -> In p' P -> p <> p' -> ps_incomp p p'.
  Hypothesis HPcfg : forall p, In p P -> ps_cfg_field fe p.
  Hypothesis HPtyp : forall p, In p P -> forall fi, ps_filookup fe (ps_field_of p) = Some fi ->
                                          ps_coerce fi (ps_get_attr p o0) = ps_get_attr p o0.
  Hypothesis H0 : ps_orig_dict o0 = [].

  Lemma ps_first_inv h : ps_hist_ok fe P o0 h -> ps_seq_inv P o0 (ps_run fe o0 h).
  Proof. intros Hh. apply (ps_seq_run fe P o0 HPinc HPcfg HPtyp); [apply ps_seq_inv_init; exact H0 | exact Hh]. Qed.

  Lemma ps_run_app h1 h2 o : ps_run fe o (h1 ++ h2) = ps_run fe (ps_run fe o h1) h2.
  Proof. unfold ps_run. apply fold_left_app. Qed.

  Lemma ps_hist_ok_app h1 : forall h2 o, ps_hist_ok fe P o (h1 ++ h2) -> ps_hist_ok fe P o h1 /\ ps_hist_ok fe P (ps_run fe o h1) h2.
  Proof.
    induction h1 as [|op h1 IH]; intros h2 o H; [split; [exact I | exact H]|].
    destruct H as (Hp & Hd & Hr). destruct (IH h2 _ Hr) as [A B]. split; [split; [exact Hp | split; [exact Hd | exact A]] | exact B].
  Qed.

  (* after EVERY allowed history: each entry of original_attributes holds the value its path had when it was last
     unlisted, and every unlisted path of P reads that very value *)
  Theorem ps_original_is_first h :
    ps_hist_ok fe P o0 h ->
    let o := ps_run fe o0 h in
    (forall k x, In (k, x) (ps_orig_dict o) -> In k P /\ x = ps_get_attr k o0) /\
    (forall p, In p P -> ps_dcontains p (ps_orig_dict o) = false -> ps_get_attr p o = ps_get_attr p o0).
  Proof.
    intros Hh o. destruct (ps_first_inv h Hh) as (I1 & I2 & _). split; [exact I1|].
    intros p Hp Hc. apply (I2 p Hp). apply ps_dcontains_false_not_in. exact Hc.
  Qed.

  (* THE FIRST-MODIFICATION FORM.  h1: any allowed history after which p is not listed (never modified, or restored since);
     then ModifyAttribute(p, v1) - the first modification; then ANY allowed continuation h2 (p modified again any number
     of times, other paths modified and restored, even p restored and modified again).  Whenever p is listed at the end,
     the remembered original is the value p had right before a first modification: the value after h1 if p was not
     restored in between - in any case the value p reads whenever it is unlisted.  In particular a second, third, ...
     modification does not replace a remembered null / "" / 0 / false / []. *)
  Theorem ps_original_before_first h1 p v1 t1 h2 :
    ps_hist_ok fe P o0 (h1 ++ PsOpMod p v1 t1 :: h2) ->
    ps_dcontains p (ps_orig_dict (ps_run fe o0 h1)) = false ->
    let before := ps_get_attr p (ps_run fe o0 h1) in
    let o := ps_run fe o0 (h1 ++ PsOpMod p v1 t1 :: h2) in
    forall x, In (p, x) (ps_orig_dict o) -> x = before.
  Proof.
    intros Hh Hc before o x Hin.
    destruct (ps_hist_ok_app h1 _ _ Hh) as [Hh1 Hrest].
    assert (Hp : In p P) by (destruct Hrest as (Hp & _); exact Hp).
    destruct (ps_original_is_first h1 Hh1) as (_ & U).
    destruct (ps_original_is_first _ Hh) as (L & _).
    unfold before. rewrite (U p Hp Hc). exact (proj2 (L p x Hin)).
  Qed.
End First.

(* non-vacuity: originals null (a key that does not exist), "", 0, false, [] - each modified three times, other paths in
   between; the entries are the originals, and the restores return exactly them *)
Definition ps_f_fe : ps_fenv :=
  [([118; 97; 114; 115], {| ps_fi_config := true; ps_fi_nomod := false; ps_fi_kind := 1 |});
   ([110], {| ps_fi_config := true; ps_fi_nomod := false; ps_fi_kind := 3 |})].
Definition ps_f_o0 : ps_mobj :=
  {| ps_m_fields := [([110], PsStr []);
                     ([118; 97; 114; 115], PsDict [([97], PsArr []); ([102], PsBool false); ([115], PsStr []); ([122], PsNum 0 0)])];
     ps_m_orig := None; ps_m_version := 0%Z |}.
Definition ps_f_path (c : N) : ps_key := [118; 97; 114; 115; 46; c].
Definition ps_f_P : list ps_key := [[110]; ps_f_path 97; ps_f_path 102; ps_f_path 115; ps_f_path 122; ps_f_path 109].
Definition ps_f_h : list ps_op :=
  flat_map (fun p => [PsOpMod p (PsStr [49]) 1%Z; PsOpMod p (PsStr [50]) 2%Z]) ps_f_P ++
  map (fun p => PsOpMod p (PsStr [51]) 3%Z) ps_f_P.

Example ps_first_nonvacuous :
  ps_hist_ok ps_f_fe ps_f_P ps_f_o0 ps_f_h /\
  ps_orig_dict (ps_run ps_f_fe ps_f_o0 ps_f_h) =
    [([110], PsStr []); (ps_f_path 97, PsArr []); (ps_f_path 102, PsBool false); (ps_f_path 109, PsEmpty);
     (ps_f_path 115, PsStr []); (ps_f_path 122, PsNum 0 0)] /\
  (let o' := ps_run ps_f_fe (ps_run ps_f_fe ps_f_o0 ps_f_h) (map (fun p => PsOpRes p 4%Z) ps_f_P) in
   ps_orig_dict o' = [] /\ forall p, In p ps_f_P -> ps_get_attr p o' = ps_get_attr p ps_f_o0).
Proof.
  refine (conj _ (conj _ (conj _ _))).
  - vm_compute. repeat split; auto 30.
  - vm_compute. reflexivity.
  - vm_compute. reflexivity.
  - intros p Hp. cbn in Hp. repeat (destruct Hp as [<-|Hp]; [vm_compute; reflexivity|]). contradiction.
Qed.
