(* C14 - the writer -> lexer -> parser chain of modified-attributes.conf rests on C17's round-trip theorem
   (Cw/CwParseProofs.v: cw_values_roundtrip = C17_values; Cw/CwStrProofs.v: cw_string_roundtrip). *)
From Icv Require Import Base.Tac Facts.Facts_c17 Persist.PsValue Persist.PsModel Persist.PsValueProofs Persist.PsPopModel
  Persist.PsText Cw.CwModel Cw.CwTxn Cw.CwStrProofs Cw.CwLexProofs Cw.CwParseProofs Cw.CwValuesProofs Cw.CwKeywordProofs.
From Coq Require Import NArith.
Local Open Scope N_scope.

(* ---------------------------------------------------------------- digits *)
Lemma ps_digits_f_val : forall f n acc, n < 2 ^ N.of_nat f ->
  fold_left ps_dstep (ps_digits_f f n acc) 0 = fold_left ps_dstep acc n.
Proof.
  induction f as [|f IH]; intros n acc Hn.
  - cbn in Hn. assert (n = 0) by lia. subst n. reflexivity.
  - cbn [ps_digits_f]. destruct (n <? 10) eqn:E.
    + cbn [fold_left]. unfold ps_dstep at 2. rewrite N.mul_0_r, N.add_0_l. reflexivity.
    + apply N.ltb_ge in E. rewrite IH.
      * cbn [fold_left]. unfold ps_dstep at 2. rewrite <- (N.div_mod n 10) by lia. reflexivity.
      * rewrite Nat2N.inj_succ, N.pow_succ_r' in Hn.
        apply N.div_lt_upper_bound; [lia|]. lia.
Qed.

Lemma ps_digits_val n : ps_dval (ps_digits n) = n.
Proof.
  unfold ps_dval, ps_digits. rewrite ps_digits_f_val; [reflexivity|].
  rewrite Nat2N.inj_succ, N2Nat.id.
  destruct (N.eq_dec n 0) as [->|Hn]; [reflexivity|].
  apply N.log2_spec. lia.
Qed.

Lemma ps_digits_f_lt10 : forall f n acc, cw_digits acc -> cw_digits (ps_digits_f f n acc).
Proof.
  induction f as [|f IH]; intros n acc Ha; [exact Ha|].
  cbn [ps_digits_f]. destruct (n <? 10) eqn:E.
  - apply N.ltb_lt in E. constructor; assumption.
  - apply IH. constructor; [apply N.mod_lt; lia | exact Ha].
Qed.

Lemma ps_digits_lt10 n : cw_digits (ps_digits n).
Proof. apply ps_digits_f_lt10. constructor. Qed.

Lemma ps_fold_zeros j : forall a, fold_left ps_dstep (repeat 0 j) a = a * 10 ^ N.of_nat j.
Proof.
  induction j as [|j IH]; intros a; [cbn; lia|].
  cbn [repeat fold_left]. rewrite IH. unfold ps_dstep. rewrite Nat2N.inj_succ, N.pow_succ_r'. lia.
Qed.

Lemma ps_dval_zeros_l j l : ps_dval (repeat 0 j ++ l) = ps_dval l.
Proof. unfold ps_dval. rewrite fold_left_app, ps_fold_zeros. reflexivity. Qed.

Lemma ps_dval_zeros_r l j : ps_dval (l ++ repeat 0 j) = ps_dval l * 10 ^ N.of_nat j.
Proof. unfold ps_dval. rewrite fold_left_app, ps_fold_zeros. reflexivity. Qed.

Lemma ps_digits_repeat0 j : cw_digits (repeat 0 j).
Proof. induction j; cbn; constructor; [reflexivity | assumption]. Qed.

Lemma ps_nnorm_pow : forall j k a, (k = 0%nat \/ a mod 10 <> 0) ->
  ps_nnorm (j + k) (a * 10 ^ N.of_nat j) = (a, k).
Proof.
  induction j as [|j IH]; intros k a H.
  - cbn [Nat.add N.of_nat]. rewrite N.pow_0_r, N.mul_1_r.
    destruct k as [|k]; [reflexivity|]. cbn [ps_nnorm].
    destruct H as [H|H]; [discriminate|]. apply N.eqb_neq in H. rewrite H. reflexivity.
  - cbn [Nat.add ps_nnorm]. rewrite Nat2N.inj_succ, N.pow_succ_r'.
    replace (a * (10 * 10 ^ N.of_nat j)) with ((a * 10 ^ N.of_nat j) * 10) by lia.
    rewrite N.mod_mul by lia. cbn [N.eqb]. rewrite N.div_mul by lia. apply IH. exact H.
Qed.

Lemma ps_take6_zeros : forall n fp, (length fp <= n)%nat -> cw_take6 fp n = fp ++ repeat 0 (n - length fp).
Proof.
  induction n as [|n IH]; intros fp H.
  - destruct fp; [reflexivity | cbn in H; lia].
  - destruct fp as [|d r]; cbn [cw_take6].
    + rewrite (IH []) by (cbn; lia). cbn. rewrite Nat.sub_0_r. reflexivity.
    + cbn in H. rewrite (IH r) by lia. reflexivity.
Qed.

Lemma ps_pad6_zeros fp : exists j, cw_pad6 fp = fp ++ repeat 0 j.
Proof.
  unfold cw_pad6. destruct (Nat.leb (length fp) 6) eqn:E.
  - exists (6 - length fp)%nat. apply ps_take6_zeros. apply Nat.leb_le. exact E.
  - exists 0%nat. cbn. rewrite app_nil_r. reflexivity.
Qed.

Lemma ps_pad0_length len l : (len <= length (ps_pad0 len l))%nat.
Proof. unfold ps_pad0. rewrite app_length, repeat_length. lia. Qed.

Lemma ps_cw_digits_app a b : cw_digits a -> cw_digits b -> cw_digits (a ++ b).
Proof. intros Ha Hb. apply Forall_app. split; assumption. Qed.

Lemma ps_cw_digits_split n l : cw_digits l -> cw_digits (firstn n l) /\ cw_digits (skipn n l).
Proof. intros H. apply Forall_app. rewrite firstn_skipn. exact H. Qed.
Lemma ps_cw_digits_firstn n l : cw_digits l -> cw_digits (firstn n l).
Proof. intros H. exact (proj1 (ps_cw_digits_split n l H)). Qed.
Lemma ps_cw_digits_skipn n l : cw_digits l -> cw_digits (skipn n l).
Proof. intros H. exact (proj2 (ps_cw_digits_split n l H)). Qed.

(* ---------------------------------------------------------------- numbers *)
Lemma ps_num_roundtrip m k : ps_num_ok m k ->
  match ps_num_to_cw m k with
  | CwNum neg ip fp =>
    ip <> [] /\ exists c, cw_expect_value (CwNum neg ip fp) = Some c /\ ps_of_cw c = PsNum m k
  | _ => False
  end.
Proof.
  intros Hok. unfold ps_num_to_cw.
  set (ds := ps_pad0 (S (N.to_nat k)) (ps_digits (Z.abs_N m))).
  set (n := (length ds - N.to_nat k)%nat).
  assert (Hlen : (S (N.to_nat k) <= length ds)%nat) by apply ps_pad0_length.
  assert (Hds : cw_digits ds).
  { unfold ds, ps_pad0. apply ps_cw_digits_app; [apply ps_digits_repeat0 | apply ps_digits_lt10]. }
  assert (Hval : ps_dval ds = Z.abs_N m).
  { unfold ds, ps_pad0. rewrite ps_dval_zeros_l. apply ps_digits_val. }
  split.
  - intros E. assert (length (firstn n ds) = 0%nat) by (rewrite E; reflexivity).
    rewrite firstn_length in H. unfold n in H. lia.
  - cbn [cw_expect_value]. unfold cw_num_digits, cw_num_digits_m. rewrite cw_number_roundtrip_true.
    eexists. split; [reflexivity|].
    rewrite (cw_norm_id (firstn n ds)) by (apply ps_cw_digits_firstn; exact Hds).
    rewrite (cw_norm_id (cw_pad6 (skipn n ds))) by (apply cw_digits_pad6, ps_cw_digits_skipn; exact Hds).
    cbn [ps_of_cw]. unfold ps_num_of_cw.
    destruct (ps_pad6_zeros (skipn n ds)) as [j Hj]. rewrite Hj.
    rewrite app_assoc, firstn_skipn, ps_dval_zeros_r, Hval.
    rewrite app_length, repeat_length, skipn_length.
    replace (length ds - n + j)%nat with (j + N.to_nat k)%nat by (unfold n; lia).
    rewrite ps_nnorm_pow.
    + rewrite N2Nat.id. f_equal. destruct (Z.ltb m 0) eqn:E.
      * apply Z.ltb_lt in E. rewrite N2Z.inj_abs_N. lia.
      * apply Z.ltb_ge in E. rewrite N2Z.inj_abs_N. lia.
    + destruct Hok as [->|Hok]; [left; reflexivity | right; exact Hok].
Qed.

(* ---------------------------------------------------------------- values *)
Definition ps_rt_prop (v : ps_value) : Prop :=
  ps_txt_ok v -> cw_wf (ps_to_cw v) /\ exists c, cw_expect_value (ps_to_cw v) = Some c /\ ps_of_cw c = v.

Lemma ps_value_roundtrip : forall v, ps_rt_prop v.
Proof.
  induction v using ps_value_ind'; unfold ps_rt_prop.
  - intros _. split; [exact I|]. eexists. split; reflexivity.
  - intros _. split; [exact I|]. eexists. split; reflexivity.
  - intros Hok. cbn [ps_txt_ok] in Hok. cbn [ps_to_cw].
    pose proof (ps_num_roundtrip m k Hok) as R. destruct (ps_num_to_cw m k); try contradiction.
    destruct R as [Hne R]. split; [exact Hne | exact R].
  - intros _. split; [exact I|]. eexists. split; reflexivity.
  - (* array *) intros Hok. cbn [ps_to_cw ps_txt_ok] in *.
    set (go := fix go (l : list ps_value) : cw_vlist := match l with [] => VNil | x :: t => VCons (ps_to_cw x) (go t) end).
    assert (A : cw_wf_items (go l) /\ exists l', cw_expect_items (go l) = Some l' /\ ps_of_cw_items l' = l).
    { induction H as [|x l Hx Hl IH]; [split; [exact I|]; eexists; split; reflexivity|].
      destruct Hok as [Hox Hol]. destruct (Hx Hox) as (Wx & cx & Ex & Qx). destruct (IH Hol) as (Wl & cl & El & Ql).
      cbn [go cw_wf_items cw_expect_items]. fold go. split; [split; assumption|].
      rewrite Ex, El. eexists. split; [reflexivity|]. cbn [ps_of_cw_items]. rewrite Qx, Ql. reflexivity. }
    destruct A as (W & l' & E & Q). cbn [cw_wf cw_expect_value]. split; [exact W|].
    rewrite E. eexists. split; [reflexivity|]. cbn [ps_of_cw]. rewrite Q. reflexivity.
  - (* dictionary *) intros Hok. cbn [ps_to_cw ps_txt_ok] in *.
    set (go := fix go (d : ps_dict) : cw_dlist := match d with [] => DNil | (k, x) :: t => DCons k (ps_to_cw x) (go t) end).
    assert (A : cw_wf_entries (go d) /\ exists d', cw_expect_entries (go d) = Some d' /\ ps_of_cw_entries d' = d).
    { induction H as [|[k x] d Hx Hd IH]; [split; [exact I|]; eexists; split; reflexivity|].
      destruct Hok as (Hk & Hox & Hod). cbn [snd] in Hx. destruct (Hx Hox) as (Wx & cx & Ex & Qx).
      destruct (IH Hod) as (Wd & cd & Ed & Qd).
      cbn [go cw_wf_entries cw_expect_entries]. fold go. split; [split; assumption|].
      rewrite Hk, Ex, Ed. eexists. split; [reflexivity|]. cbn [ps_of_cw_entries]. rewrite Qx, Qd. reflexivity. }
    destruct A as (W & d' & E & Q). cbn [cw_wf cw_expect_value]. split; [exact W|].
    rewrite E. eexists. split; [reflexivity|]. cbn [ps_of_cw]. rewrite Q. reflexivity.
  - intros Hok. cbn [ps_txt_ok] in Hok. contradiction.
Qed.

Lemma ps_src_mode_match : cw_src_mode = CwMatch.
Proof. reflexivity. Qed.     (* f_cw_ident_whole_match is Some true, or unrecognised (then the correspondence run decides) *)

(* THE CODEC IS THE IDENTITY on every plain value: emit with the real writer's model, lex, parse, map back *)
Theorem ps_text_codec_id v : ps_txt_ok v -> ps_text_codec v = Some v.
Proof.
  intros Hok. destruct (ps_value_roundtrip v Hok) as (W & c & E & Q).
  unfold ps_text_codec, ps_text_of. rewrite ps_src_mode_match.
  rewrite (cw_values_roundtrip (ps_to_cw v) 0 W), E, Q. reflexivity.
Qed.

Lemma ps_text_key_id k : ps_text_key k = Some k.
Proof. apply cw_string_roundtrip. Qed.

Lemma ps_txt_okb_spec : forall v, ps_txt_okb v = true -> ps_txt_ok v.
Proof.
  induction v using ps_value_ind'; cbn [ps_txt_okb ps_txt_ok]; try (intros; exact I); try discriminate.
  - intros H. unfold ps_num_ok. apply orb_prop in H. destruct H as [H|H].
    + left. apply N.eqb_eq. exact H.
    + right. apply N.eqb_neq. destruct (Z.abs_N m mod 10 =? 0); [discriminate | reflexivity].
  - intros Hb. induction H as [|x l Hx Hl IH]; [exact I|]. cbn [forallb] in Hb. apply andb_prop in Hb. destruct Hb as [Hb1 Hb2].
    split; [apply Hx; exact Hb1 | apply IH; exact Hb2].
  - intros Hb. induction H as [|[k x] d Hx Hd IH]; [exact I|].
    apply andb_prop in Hb. destruct Hb as [Hb Hb3]. apply andb_prop in Hb. destruct Hb as [Hb1 Hb2].
    split; [exact Hb1|]. split; [apply Hx; exact Hb2 | apply IH; exact Hb3].
Qed.

(* ---------------------------------------------------------------- lines, blocks, the file *)
Definition ps_lines_txt_ok (ls : list (ps_key * ps_value)) : Prop := Forall (fun kv => ps_txt_ok (snd kv)) ls.
Definition ps_blocks_txt_ok (bs : list ps_block) : Prop := Forall (fun b => ps_lines_txt_ok (ps_b_lines b)) bs.

Lemma ps_lines_parse_id ls : ps_lines_txt_ok ls -> ps_lines_parse ls = Some ls.
Proof.
  induction 1 as [|[k v] ls Hv _ IH]; [reflexivity|].
  cbn [ps_lines_parse fst snd]. rewrite ps_text_key_id, (ps_text_codec_id v Hv), IH. reflexivity.
Qed.

Lemma ps_block_parse_id b : ps_lines_txt_ok (ps_b_lines b) -> ps_block_parse b = Some b.
Proof.
  intros H. unfold ps_block_parse. rewrite ps_text_key_id, (ps_lines_parse_id _ H).
  rewrite (ps_text_codec_id (PsNum (ps_b_version b) 0)) by (left; reflexivity).
  destruct b; reflexivity.
Qed.

Lemma ps_file_parse_id bs : ps_blocks_txt_ok bs -> ps_file_parse bs = Some bs.
Proof.
  induction 1 as [|b bs Hb _ IH]; [reflexivity|].
  cbn [ps_file_parse]. rewrite (ps_block_parse_id b Hb), IH. reflexivity.
Qed.

(* the evaluation of the TEXT is the evaluation of the values the dump collected *)
Theorem ps_pop_replay_text_eq fe now bs pop :
  ps_blocks_txt_ok bs -> ps_pop_replay_text fe now bs pop = ps_pop_replay fe now bs pop.
Proof. intros H. unfold ps_pop_replay_text. rewrite (ps_file_parse_id bs H). reflexivity. Qed.

(* ---------------------------------------------------------------- what the dump collects is part of the object *)
Lemma ps_txt_ok_dget_opt k : forall d x, ps_txt_ok (PsDict d) -> ps_dget_opt k d = Some x -> ps_txt_ok x.
Proof.
  induction d as [|[k' y] d IH]; intros x Hok; cbn [ps_dget_opt]; [discriminate|].
  cbn [ps_txt_ok] in Hok. destruct Hok as (_ & Hy & Hd).
  destruct (ps_key_eqb k k'); [intros E; injection E as <-; exact Hy | apply IH; exact Hd].
Qed.

Lemma ps_txt_ok_dget k d : ps_txt_ok (PsDict d) -> ps_txt_ok (ps_dget k d).
Proof.
  intros Hok. unfold ps_dget. destruct (ps_dget_opt k d) eqn:E; [exact (ps_txt_ok_dget_opt k d _ Hok E) | exact I].
Qed.

Lemma ps_txt_ok_dma_walk : forall ks l cur x, ps_txt_ok cur -> ps_dma_walk ks l cur = Some x -> ps_txt_ok x.
Proof.
  induction ks as [|k ks IH]; intros l cur x Hok; cbn [ps_dma_walk]; destruct cur; try discriminate.
  - intros E. injection E as <-. apply ps_txt_ok_dget. exact Hok.
  - destruct (ps_dget_opt k d) eqn:Ek.
    + apply IH. exact (ps_txt_ok_dget_opt k d _ Hok Ek).
    + intros E. injection E as <-. apply ps_txt_ok_dget. exact Hok.
Qed.

(* every field of the object holds a plain configuration value (the ps_txt_ok of the values, at every depth) *)
Definition ps_obj_txt_ok (o : ps_mobj) : Prop := forall f, ps_txt_ok (ps_dget f (ps_m_fields o)).

Lemma ps_txt_ok_dma_value o k x : ps_obj_txt_ok o -> ps_dma_value o k = Some x -> ps_txt_ok x.
Proof.
  intros Ho. unfold ps_dma_value. destruct (ps_split k) as [|f rest]; [discriminate|].
  destruct rest as [|r rest].
  - intros E. injection E as <-. apply Ho.
  - apply ps_txt_ok_dma_walk. apply Ho.
Qed.

Lemma ps_dump_keys_txt_ok o : ps_obj_txt_ok o -> forall keys ls, ps_dump_modattrs_keys o keys = Some ls -> ps_lines_txt_ok ls.
Proof.
  intros Ho. induction keys as [|k keys IH]; intros ls; cbn [ps_dump_modattrs_keys].
  - intros E. injection E as <-. constructor.
  - destruct (ps_dma_value o k) eqn:Ek; [|discriminate].
    destruct (ps_dump_modattrs_keys o keys) eqn:Er; [|discriminate].
    intros E. injection E as <-. constructor; [exact (ps_txt_ok_dma_value o k _ Ho Ek) | apply IH; reflexivity].
Qed.

Lemma ps_pop_dump_txt_ok : forall pop bs,
  (forall po, In po pop -> ps_obj_txt_ok (ps_p_obj po)) -> ps_pop_dump pop = Some bs -> ps_blocks_txt_ok bs.
Proof.
  induction pop as [|po pop IH]; intros bs Hall; cbn [ps_pop_dump].
  - intros E. injection E as <-. constructor.
  - destruct (ps_dump_modattrs (ps_p_obj po)) as [ls|] eqn:El; [|discriminate].
    destruct (ps_pop_dump pop) as [r|] eqn:Er; [|destruct ls; discriminate].
    assert (Hr : ps_blocks_txt_ok r) by (apply IH; [intros q Hq; apply Hall; right; exact Hq | reflexivity]).
    assert (Hls : ps_lines_txt_ok ls).
    { apply (ps_dump_keys_txt_ok (ps_p_obj po)) with (keys := map fst (ps_orig_dict (ps_p_obj po))); [apply Hall; left; reflexivity | exact El]. }
    destruct ls as [|kv ls]; intros E; injection E as <-; [exact Hr|].
    constructor; [exact Hls | exact Hr].
Qed.

(* THE RELOAD THROUGH TEXT: for every population whose objects hold plain values, the file DumpModifiedAttributes
   writes compiles to exactly the blocks that were dumped, and its evaluation is the evaluation of those blocks *)
Theorem ps_pop_reload_text fe now pop bs base :
  (forall po, In po pop -> ps_obj_txt_ok (ps_p_obj po)) -> ps_pop_dump pop = Some bs ->
  ps_file_parse bs = Some bs /\ ps_pop_replay_text fe now bs base = ps_pop_replay fe now bs base.
Proof.
  intros Hall Hd. pose proof (ps_pop_dump_txt_ok pop bs Hall Hd) as Hok.
  split; [apply ps_file_parse_id; exact Hok | apply ps_pop_replay_text_eq; exact Hok].
Qed.

Theorem ps_pop_restart_text_eq fe now running base :
  (forall po, In po running -> ps_obj_txt_ok (ps_p_obj po)) ->
  ps_pop_restart_text fe now running base = ps_pop_restart fe now running base.
Proof.
  intros Hall. unfold ps_pop_restart_text, ps_pop_restart. destruct (ps_pop_dump running) as [bs|] eqn:E; [|reflexivity].
  rewrite (proj2 (ps_pop_reload_text fe now running bs _ Hall E)). reflexivity.
Qed.

(* ---------------------------------------------------------------- keys that the lexer reads as keywords *)
Definition ps_k_in : ps_key := [105; 110].
Definition ps_k_debugger : ps_key := [100; 101; 98; 117; 103; 103; 101; 114].

(* GENERAL over the regenerated keyword lists (this is the defect modattr-keyword-key as long as such a key exists): a
   dictionary key that the writer leaves bare and the lexer reads as a keyword makes the literal - hence the whole file -
   fail to compile *)
Theorem ps_keyword_key_breaks k x : cw_key_lexes k = false -> ps_txt_ok x -> ps_text_codec (PsDict [(k, x)]) = None.
Proof.
  intros Hk Hx. destruct (ps_value_roundtrip x Hx) as (W & c & E & Q).
  unfold ps_text_codec, ps_text_of. rewrite ps_src_mode_match. cbn [ps_to_cw].
  rewrite cw_values_roundtrip by (cbn; split; [exact W | exact I]).
  cbn [cw_expect_value cw_expect_entries]. rewrite Hk. reflexivity.
Qed.

(* the premise of ps_txt_ok on keys is VACUOUS for the source as it is (the writer knows every lexer keyword, fix 918cf68:
   Cw/CwKeywordProofs.cw_key_lexes_all over the regenerated lists) *)
Fixpoint ps_plain (v : ps_value) : Prop :=
  match v with
  | PsNum m k => ps_num_ok m k
  | PsArr l => (fix go (l : list ps_value) : Prop := match l with [] => True | x :: t => ps_plain x /\ go t end) l
  | PsDict d => (fix go (d : ps_dict) : Prop := match d with [] => True | (_, x) :: t => ps_plain x /\ go t end) d
  | PsObj _ _ => False
  | _ => True
  end.

Lemma ps_plain_txt_ok : forall v, ps_plain v -> ps_txt_ok v.
Proof.
  induction v using ps_value_ind'; cbn [ps_plain ps_txt_ok]; try tauto.
  - intros Hp. induction H as [|x l Hx Hl IH]; [exact I|]. destruct Hp as [Hp1 Hp2]. split; [apply Hx; exact Hp1 | apply IH; exact Hp2].
  - intros Hp. induction H as [|[k x] d Hx Hd IH]; [exact I|]. destruct Hp as [Hp1 Hp2].
    split; [apply cw_key_lexes_all|]. split; [apply Hx; exact Hp1 | apply IH; exact Hp2].
Qed.

(* THE CODEC IS THE IDENTITY for ANY keys - `in`, `debugger` included *)
Theorem ps_text_codec_id_src v : ps_plain v -> ps_text_codec v = Some v.
Proof. intros H. apply ps_text_codec_id. apply ps_plain_txt_ok. exact H. Qed.

(* the witnesses of the former finding: they come back, and the two-object file compiles to itself *)
Lemma ps_keyword_key_fixed :
  ps_text_codec (PsDict [(ps_k_in, PsNum 1 0)]) = Some (PsDict [(ps_k_in, PsNum 1 0)]) /\
  ps_text_codec (PsArr [PsDict [([97], PsDict [(ps_k_debugger, PsEmpty)])]]) = Some (PsArr [PsDict [([97], PsDict [(ps_k_debugger, PsEmpty)])]]) /\
  (let f := [ {| ps_b_name := [104]; ps_b_lines := [([118; 97; 114; 115; 46; 120], PsStr [111; 107])]; ps_b_version := 5 |};
              {| ps_b_name := [105]; ps_b_lines := [([118; 97; 114; 115; 46; 120], PsDict [(ps_k_in, PsNum 1 0)])]; ps_b_version := 7 |} ] in
   ps_file_parse f = Some f).
Proof. vm_compute. repeat split; reflexivity. Qed.

(* ... while the empty key, keys with dots, quotes, line breaks, NUL, leading digits, writer keywords and UTF-8 bytes
   all come back (instances of ps_text_codec_id, computed) *)
Example ps_text_codec_examples :
  let v := PsDict [([], PsStr []); ([0; 97], PsArr []); ([10], PsDict []); ([34; 92], PsNum (-25) 1); ([46; 46], PsEmpty);
                   ([49; 97], PsBool true); ([110; 117; 108; 108], PsNum 1234567 7); ([195; 188], PsArr [PsDict [([], PsDict [([], PsNum 0 0)])]])] in
  ps_txt_okb v = true /\ ps_text_codec v = Some v.
Proof. vm_compute. split; reflexivity. Qed.
