(* C14 - basic facts about keys and dictionaries, and the nested induction principle for ps_value. *)
From Icv Require Import Base.Tac Persist.PsValue.
From Coq Require Import NArith.
Local Open Scope N_scope.

Lemma ps_key_eqb_refl a : ps_key_eqb a a = true.
Proof. induction a as [|x a IH]; cbn; [reflexivity|]. rewrite N.eqb_refl. exact IH. Qed.

Lemma ps_key_eqb_eq a : forall b, ps_key_eqb a b = true <-> a = b.
Proof.
  induction a as [|x a IH]; intros [|y b]; cbn; split; intros H; try reflexivity; try discriminate.
  - apply andb_true_iff in H. destruct H as [H1 H2]. apply N.eqb_eq in H1. apply IH in H2. subst. reflexivity.
  - inversion H; subst. rewrite N.eqb_refl. apply ps_key_eqb_refl.
Qed.

Lemma ps_key_eqb_neq a b : a <> b -> ps_key_eqb a b = false.
Proof. intros H. destruct (ps_key_eqb a b) eqn:E; [|reflexivity]. apply ps_key_eqb_eq in E. contradiction. Qed.

Lemma ps_keys_eqb_refl_gen (eqb : ps_key -> ps_key -> bool) : True. Proof. exact I. Qed.

Lemma ps_dget_opt_dset_same k v d : ps_dget_opt k (ps_dset k v d) = Some v.
Proof.
  induction d as [|[k' v'] d IH]; cbn.
  - rewrite ps_key_eqb_refl. reflexivity.
  - destruct (ps_key_eqb k k') eqn:E; cbn.
    + rewrite ps_key_eqb_refl. reflexivity.
    + destruct (ps_key_ltb k k'); cbn.
      * rewrite ps_key_eqb_refl. reflexivity.
      * rewrite E. exact IH.
Qed.

Lemma ps_dget_opt_dset_other k k' v d : k' <> k -> ps_dget_opt k' (ps_dset k v d) = ps_dget_opt k' d.
Proof.
  intros Hne. induction d as [|[k0 v0] d IH]; cbn.
  - rewrite (ps_key_eqb_neq k' k Hne). reflexivity.
  - destruct (ps_key_eqb k k0) eqn:E; cbn.
    + apply ps_key_eqb_eq in E. subst k0. rewrite (ps_key_eqb_neq k' k Hne). reflexivity.
    + destruct (ps_key_ltb k k0); cbn.
      * rewrite (ps_key_eqb_neq k' k Hne). reflexivity.
      * destruct (ps_key_eqb k' k0); [reflexivity | exact IH].
Qed.

Lemma ps_dget_dset_same k v d : ps_dget k (ps_dset k v d) = v.
Proof. unfold ps_dget. rewrite ps_dget_opt_dset_same. reflexivity. Qed.

Lemma ps_dget_dset_other k k' v d : k' <> k -> ps_dget k' (ps_dset k v d) = ps_dget k' d.
Proof. intros H. unfold ps_dget. rewrite ps_dget_opt_dset_other by assumption. reflexivity. Qed.

Lemma ps_dcontains_dremove k d : ps_dcontains k (ps_dremove k d) = false.
Proof.
  unfold ps_dcontains. induction d as [|[k' v'] d IH]; cbn; [reflexivity|].
  destruct (ps_key_eqb k k') eqn:E; [exact IH|]. cbn. rewrite E. exact IH.
Qed.

Lemma ps_in_dset kx k v d : In kx (ps_dset k v d) -> kx = (k, v) \/ In kx d.
Proof.
  induction d as [|[k' v'] d IH]; cbn.
  - intros [H|[]]. left. symmetry. exact H.
  - destruct (ps_key_eqb k k'); [|destruct (ps_key_ltb k k')]; cbn.
    + intros [H|H]; [left; symmetry; exact H | right; right; exact H].
    + intros [H|[H|H]]; [left; symmetry; exact H | right; left; exact H | right; right; exact H].
    + intros [H|H]; [right; left; exact H|]. destruct (IH H) as [H'|H']; [left; exact H' | right; right; exact H'].
Qed.

Lemma ps_in_dset_self k v d : In (k, v) (ps_dset k v d).
Proof.
  induction d as [|[k' v'] d IH]; cbn; [left; reflexivity|].
  destruct (ps_key_eqb k k'); [|destruct (ps_key_ltb k k')]; cbn; auto.
Qed.

Lemma ps_dcontains_false_not_in k d : ps_dcontains k d = false -> forall v, ~ In (k, v) d.
Proof.
  unfold ps_dcontains. induction d as [|[k' v'] d IH]; cbn; intros H v Hin; [exact Hin|].
  destruct (ps_key_eqb k k') eqn:E; [discriminate|].
  destruct Hin as [Hin|Hin]; [inversion Hin; subst; rewrite ps_key_eqb_refl in E; discriminate | exact (IH H v Hin)].
Qed.

Lemma ps_keys_eqb_refl a : (fix f (a b : list ps_key) : bool :=
    match a, b with [], [] => true | x :: a', y :: b' => ps_key_eqb x y && f a' b' | _, _ => false end) a a = true.
Proof. induction a as [|x a IH]; [reflexivity|]. cbn. rewrite ps_key_eqb_refl. exact IH. Qed.

(* ---- nested induction principle ---- *)
Section PsValueInd.
  Variable P : ps_value -> Prop.
  Hypothesis HEmpty : P PsEmpty.
  Hypothesis HBool : forall b, P (PsBool b).
  Hypothesis HNum : forall m k, P (PsNum m k).
  Hypothesis HStr : forall s, P (PsStr s).
  Hypothesis HArr : forall l, Forall P l -> P (PsArr l).
  Hypothesis HDict : forall d, Forall (fun kv => P (snd kv)) d -> P (PsDict d).
  Hypothesis HObj : forall tn fs, Forall (fun kv => P (snd kv)) fs -> P (PsObj tn fs).

  Fixpoint ps_value_ind' (v : ps_value) : P v :=
    match v with
    | PsEmpty => HEmpty
    | PsBool b => HBool b
    | PsNum m k => HNum m k
    | PsStr s => HStr s
    | PsArr l => HArr l ((fix go (l : list ps_value) : Forall P l :=
                            match l with [] => Forall_nil _ | x :: t => Forall_cons x (ps_value_ind' x) (go t) end) l)
    | PsDict d => HDict d ((fix go (d : ps_dict) : Forall (fun kv => P (snd kv)) d :=
                              match d with [] => Forall_nil _ | (k, x) :: t => Forall_cons (k, x) (ps_value_ind' x) (go t) end) d)
    | PsObj tn fs => HObj tn fs ((fix go (d : ps_dict) : Forall (fun kv => P (snd kv)) d :=
                              match d with [] => Forall_nil _ | (k, x) :: t => Forall_cons (k, x) (ps_value_ind' x) (go t) end) fs)
    end.
End PsValueInd.
