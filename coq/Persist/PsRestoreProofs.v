(* C14 - RestoreAttribute undoes ModifyAttribute (for every object, path and value such that the value at the
   path was not a dictionary and nothing at or below the path was recorded before), and the witnesses that refute
   the statement outside that premise. *)
From Icv Require Import Base.Tac Persist.PsValue Persist.PsModel Persist.PsValueProofs.
From Coq Require Import NArith.
Local Open Scope N_scope.

Lemma ps_keys_eqb_refl' a : ps_keys_eqb a a = true.
Proof. induction a as [|x a IH]; [reflexivity|]. cbn. rewrite ps_key_eqb_refl. exact IH. Qed.

Lemma ps_entry_matches_self attr : ps_entry_matches (ps_split attr) attr = true.
Proof.
  unfold ps_entry_matches. rewrite Nat.ltb_irrefl, firstn_all, ps_keys_eqb_refl'. reflexivity.
Qed.

Lemma ps_nest_get_empty ks : ks <> [] -> ps_nest_get ks PsEmpty = PsEmpty.
Proof. destruct ks; [contradiction|reflexivity]. Qed.

Lemma ps_nest_old_empty ks l : forall ov, ps_nest_old ks l (PsDict []) = Some ov -> ov = PsEmpty.
Proof.
  induction ks as [|k ks IH]; cbn; intros ov H.
  - inversion H. reflexivity.
  - apply IH. exact H.
Qed.

(* the old value found by ModifyAttribute's walk is what Get along the path shows *)
Lemma ps_nest_old_get l : forall ks cur ov, ps_nest_old ks l cur = Some ov -> ps_nest_get (ks ++ [l]) cur = ov.
Proof.
  induction ks as [|k ks IH]; intros cur ov H; destruct cur; cbn in H; try discriminate.
  - inversion H. reflexivity.
  - cbn. unfold ps_dget. destruct (ps_dget_opt k d) as [c|].
    + apply IH. exact H.
    + pose proof (ps_nest_old_empty ks l ov H) as ->. apply ps_nest_get_empty. destruct ks; discriminate.
Qed.

(* after ModifyAttribute's update, RestoreAttribute's strict walk succeeds and reaches the dictionary that holds the leaf *)
Lemma ps_nest_update_after_set l v x (F : ps_dict -> ps_dict) :
  (forall d, ps_dget l (F (ps_dset l v d)) = x) ->
  forall ks cur nv, ps_nest_set ks l v cur = Some nv ->
  exists nv', ps_nest_update ks F nv = Some nv' /\ ps_nest_get (ks ++ [l]) nv' = x.
Proof.
  intros HF. induction ks as [|k ks IH]; intros cur nv H; destruct cur; cbn in H; try discriminate.
  - inversion H; subst. cbn. eexists. split; [reflexivity|]. apply HF.
  - destruct (ps_nest_set ks l v (match ps_dget_opt k d with Some c => c | None => PsDict [] end)) as [c'|] eqn:E; [|discriminate].
    inversion H; subst. destruct (IH _ _ E) as (c'' & Hu & Hg).
    cbn. rewrite ps_dget_opt_dset_same, Hu. eexists. split; [reflexivity|].
    cbn. rewrite ps_dget_dset_same. exact Hg.
Qed.

(* the loop of RestoreAttribute over original_attributes when only the entry of [attr] itself lies at or below [attr] *)
Lemma ps_restore_fold attr l ov : forall og cd,
  (forall kx, In kx og -> ps_entry_matches (ps_split attr) (fst kx) = false \/ kx = (attr, ov)) ->
  (ps_dget l cd = ov \/ In (attr, ov) og) ->
  ps_dget l (fold_left (ps_restore_entry (ps_split attr) l) og cd) = ov.
Proof.
  induction og as [|[k x] og IH]; intros cd Hall Hor; cbn.
  - destruct Hor as [H|[]]. exact H.
  - apply IH.
    + intros kx Hin. apply Hall. right. exact Hin.
    + destruct (Hall (k, x) (or_introl eq_refl)) as [Hno|Heq].
      * unfold ps_restore_entry. cbn [fst snd]. cbn in Hno. rewrite Hno.
        destruct Hor as [H|[H|H]]; [left; exact H | | right; exact H].
        inversion H; subst. rewrite ps_entry_matches_self in Hno. discriminate.
      * inversion Heq; subst. left. unfold ps_restore_entry. cbn [fst snd].
        rewrite ps_entry_matches_self, skipn_all. apply ps_dget_dset_same.
Qed.

Definition ps_clean_for (attr : ps_key) (o : ps_mobj) : Prop :=
  forall kx, In kx (ps_orig_dict o) -> ps_entry_matches (ps_split attr) (fst kx) = false.

Definition ps_field_of (attr : ps_key) : ps_key := match ps_split attr with f :: _ => f | [] => [] end.

Definition ps_well_typed (fe : ps_fenv) (attr : ps_key) (o : ps_mobj) : Prop :=
  forall fi, ps_filookup fe (ps_field_of attr) = Some fi ->
             ps_coerce fi (ps_dget (ps_field_of attr) (ps_m_fields o)) = ps_dget (ps_field_of attr) (ps_m_fields o).

Definition ps_is_config (fe : ps_fenv) (attr : ps_key) : Prop :=
  exists fi, ps_filookup fe (ps_field_of attr) = Some fi /\ ps_fi_config fi = true.

Lemma ps_clean_not_contains attr og :
  (forall kx, In kx og -> ps_entry_matches (ps_split attr) (fst kx) = false) -> ps_dcontains attr og = false.
Proof.
  intros H. unfold ps_dcontains. destruct (ps_dget_opt attr og) as [v|] eqn:E; [|reflexivity].
  exfalso. assert (In (attr, v) og) as Hin.
  { clear H. induction og as [|[k x] og IH]; cbn in E; [discriminate|].
    destruct (ps_key_eqb attr k) eqn:Ek.
    - apply ps_key_eqb_eq in Ek. subst. inversion E; subst. left. reflexivity.
    - right. apply IH. exact E. }
  specialize (H _ Hin). cbn in H. rewrite ps_entry_matches_self in H. discriminate.
Qed.

Lemma ps_coerce_dict fi d : ps_coerce fi (PsDict d) = PsDict d.
Proof. reflexivity. Qed.

Lemma ps_nest_set_is_dict ks l v cur nv : ps_nest_set ks l v cur = Some nv -> exists d, nv = PsDict d.
Proof.
  intros H. destruct cur; try (destruct ks; cbn in H; discriminate). destruct ks as [|k ks]; cbn in H.
  - inversion H. eexists. reflexivity.
  - destruct (ps_nest_set ks l v _); inversion H. eexists. reflexivity.
Qed.

Theorem ps_restore_after_modify fe attr v now1 now2 o o1 :
  ps_modify_attribute fe attr v true now1 o = (true, o1) ->
  ps_is_config fe attr ->
  ps_well_typed fe attr o ->
  ps_is_dict (ps_get_attr attr o) = false ->
  ps_clean_for attr o ->
  exists o2, ps_restore_attribute fe attr true now2 o1 = (true, o2) /\
             ps_get_attr attr o2 = ps_get_attr attr o /\
             ps_orig_mentions attr o2 = false.
Proof.
  intros Hmod (fi & Hfi & Hcfg) Hwt Hnd Hclean.
  unfold ps_modify_attribute in Hmod. unfold ps_restore_attribute, ps_get_attr, ps_orig_mentions.
  unfold ps_get_attr in Hnd. unfold ps_well_typed, ps_field_of in Hwt. unfold ps_field_of in Hfi.
  pose proof (ps_clean_not_contains attr (ps_orig_dict o) Hclean) as Hnc.
  destruct (ps_split attr) as [|f rest] eqn:Hsp; [discriminate|].
  rewrite Hfi in Hmod |- *. specialize (Hwt fi Hfi).
  destruct (ps_fi_nomod fi); [discriminate|]. rewrite Hcfg in Hmod.
  remember (match ps_m_orig o with
            | Some _ => o
            | None => {| ps_m_fields := ps_m_fields o; ps_m_orig := Some []; ps_m_version := ps_m_version o |}
            end) as o' eqn:Hdef.
  assert (ps_m_fields o' = ps_m_fields o) as Hf' by (rewrite Hdef; destruct (ps_m_orig o); reflexivity).
  assert (ps_orig_dict o' = ps_orig_dict o) as Ho' by (rewrite Hdef; unfold ps_orig_dict; destruct (ps_m_orig o) eqn:E; cbn; rewrite ?E; reflexivity).
  clear Hdef. rewrite ?Hf', ?Ho' in Hmod.
  destruct rest as [|r rest'].
  - (* top-level attribute *)
    rewrite Hnc in Hmod. cbn in Hmod.
    destruct (ps_field_accepts fi v); inversion Hmod; subst o1; clear Hmod. cbn.
    assert (forall x d, ps_dcontains attr (ps_dset attr x d) = true) as Hc
      by (intros; unfold ps_dcontains; rewrite ps_dget_opt_dset_same; reflexivity).
    rewrite Hc. cbn.
    eexists. split; [reflexivity|]. cbn. split.
    + rewrite ps_dget_dset_same. unfold ps_dget at 1. rewrite ps_dget_opt_dset_same. exact Hwt.
    + apply ps_dcontains_dremove.
  - (* nested path *)
    set (rest := r :: rest') in *.
    set (ks := removelast rest) in *. set (l := last rest []) in *.
    assert (rest = ks ++ [l]) as Hrest by (apply app_removelast_last; discriminate).
    set (oldf := ps_dget f (ps_m_fields o)) in *.
    set (start := if ps_is_empty oldf then PsDict [] else oldf) in *.
    cbv zeta in Hmod.
    destruct (ps_nest_old ks l start) as [ov|] eqn:Hold; [|discriminate].
    destruct (ps_nest_set ks l v start) as [nv|] eqn:Hset; [|discriminate].
    destruct (ps_nest_set_is_dict _ _ _ _ _ Hset) as (nd & ->).
    assert (ps_nest_get rest oldf = ov) as Hov.
    { rewrite Hrest. destruct oldf eqn:Eo; cbn in start; subst start;
        try (apply ps_nest_old_get; exact Hold).
      pose proof (ps_nest_old_empty _ _ _ Hold) as ->. apply ps_nest_get_empty. destruct ks; discriminate. }
    rewrite Hov in Hnd.
    assert (ps_record_nested attr ov v (ps_orig_dict o) = ps_dset attr ov (ps_orig_dict o)) as Hrec.
    { unfold ps_record_nested. destruct ov; try discriminate; rewrite Hnc; reflexivity. }
    rewrite Hrec in Hmod.
    assert (ps_field_accepts fi (PsDict nd) = true) as Hacc
      by (unfold ps_field_accepts; cbn; rewrite orb_true_r; reflexivity).
    rewrite Hacc in Hmod. inversion Hmod; subst o1; clear Hmod. cbn.
    rewrite ps_dget_dset_same. cbn [ps_is_empty].
    set (og' := ps_dset attr ov (ps_orig_dict o)).
    set (F := fun cd => fold_left (ps_restore_entry (f :: rest) l) og' cd).
    assert (forall d, ps_dget l (F (ps_dset l v d)) = ov) as HF.
    { intros d. unfold F. rewrite <- Hsp. apply ps_restore_fold.
      - intros kx Hin. apply ps_in_dset in Hin. destruct Hin as [->|Hin]; [right; reflexivity|].
        left. apply Hclean. exact Hin.
      - right. apply ps_in_dset_self. }
    destruct (ps_nest_update_after_set l v ov F HF ks start (PsDict nd) Hset) as (nv' & Hu & Hg).
    match goal with |- context [ps_nest_update ?a ?b ?c] => replace (ps_nest_update a b c) with (Some nv') by (symmetry; exact Hu) end.
    eexists. split; [reflexivity|]. cbn. split.
    + rewrite ps_dget_dset_same.
      assert (exists d', nv' = PsDict d') as (d' & ->).
      { destruct ks; cbn in Hu; [inversion Hu; eexists; reflexivity|].
        destruct (ps_dget_opt p nd); [|discriminate]. destruct (ps_nest_update ks F p0); inversion Hu. eexists. reflexivity. }
      transitivity ov; [|symmetry; exact Hov].
      change (ps_nest_get rest (PsDict d') = ov). rewrite Hrest. exact Hg.
    + apply ps_dcontains_dremove.
Qed.

Lemma ps_restore_oracle_accepts fe attr v now1 now2 o o1 :
  ps_modify_attribute fe attr v true now1 o = (true, o1) ->
  ps_is_config fe attr -> ps_well_typed fe attr o -> ps_is_dict (ps_get_attr attr o) = false -> ps_clean_for attr o ->
  forall o2, ps_restore_attribute fe attr true now2 o1 = (true, o2) ->
  ps_get_attr attr o2 = ps_get_attr attr o /\ ps_orig_mentions attr o2 = false.
Proof.
  intros H1 H2 H3 H4 H5 o2 H6.
  destruct (ps_restore_after_modify fe attr v now1 now2 o o1 H1 H2 H3 H4 H5) as (o2' & E & Hg & Hm).
  rewrite E in H6. inversion H6; subst. split; assumption.
Qed.

(* ---------------------------------------------------------------- refutations (concrete witnesses) *)
Definition ps_w_fe : ps_fenv :=
  [([118; 97; 114; 115], {| ps_fi_config := true; ps_fi_nomod := false; ps_fi_kind := 1 |});
   ([110], {| ps_fi_config := true; ps_fi_nomod := false; ps_fi_kind := 3 |})].
Definition ps_w_obj (vars : ps_value) : ps_mobj :=
  {| ps_m_fields := [([110], PsStr [120]); ([118; 97; 114; 115], vars)]; ps_m_orig := None; ps_m_version := 0%Z |}.
Definition ps_w_path_a : ps_key := [118; 97; 114; 115; 46; 97].          (* vars.a *)
Definition ps_w_path_ab : ps_key := [118; 97; 114; 115; 46; 97; 46; 98].  (* vars.a.b *)

(* original value an empty dictionary: nothing is recorded, restore changes nothing *)
Lemma ps_restore_empty_dict_refuted :
  let o := ps_w_obj (PsDict [([97], PsDict [])]) in
  let o1 := snd (ps_modify_attribute ps_w_fe ps_w_path_a (PsNum 5 0) true 1%Z o) in
  let o2 := snd (ps_restore_attribute ps_w_fe ps_w_path_a true 2%Z o1) in
  fst (ps_modify_attribute ps_w_fe ps_w_path_a (PsNum 5 0) true 1%Z o) = true /\
  fst (ps_restore_attribute ps_w_fe ps_w_path_a true 2%Z o1) = true /\
  ps_orig_mentions ps_w_path_a o1 = false /\
  ps_get_attr ps_w_path_a o = PsDict [] /\ ps_get_attr ps_w_path_a o2 = PsNum 5 0.
Proof. vm_compute. repeat split. Qed.

(* original {x:1}, new value {y:2}: the key y stays behind as null *)
Lemma ps_restore_null_keys_refuted :
  let o := ps_w_obj (PsDict [([97], PsDict [([120], PsNum 1 0)])]) in
  let o1 := snd (ps_modify_attribute ps_w_fe ps_w_path_a (PsDict [([121], PsNum 2 0)]) true 1%Z o) in
  let o2 := snd (ps_restore_attribute ps_w_fe ps_w_path_a true 2%Z o1) in
  fst (ps_restore_attribute ps_w_fe ps_w_path_a true 2%Z o1) = true /\
  ps_get_attr ps_w_path_a o = PsDict [([120], PsNum 1 0)] /\
  ps_get_attr ps_w_path_a o2 = PsDict [([120], PsNum 1 0); ([121], PsEmpty)].
Proof. vm_compute. repeat split. Qed.

(* parent (scalar -> dictionary) and then child modified; restoring the parent yields a dictionary *)
Lemma ps_restore_overlap_refuted :
  let o := ps_w_obj (PsDict [([97], PsNum 5 0)]) in
  let o1 := snd (ps_modify_attribute ps_w_fe ps_w_path_a (PsDict [([98], PsNum 1 0)]) true 1%Z o) in
  let o2 := snd (ps_modify_attribute ps_w_fe ps_w_path_ab (PsNum 2 0) true 2%Z o1) in
  let o3 := snd (ps_restore_attribute ps_w_fe ps_w_path_a true 3%Z o2) in
  fst (ps_restore_attribute ps_w_fe ps_w_path_a true 3%Z o2) = true /\
  ps_get_attr ps_w_path_a o = PsNum 5 0 /\ ps_get_attr ps_w_path_a o3 = PsDict [([98], PsNum 1 0)].
Proof. vm_compute. repeat split. Qed.

(* fixed by 587182ba: restoring a top-level attribute that original_attributes does not list changes nothing
   (neither value, original_attributes nor version), whatever else is modified *)
Theorem ps_restore_unmodified_noop fe attr updv now o :
  length (ps_split attr) = 1%nat -> ps_orig_mentions attr o = false ->
  snd (ps_restore_attribute fe attr updv now o) = o.
Proof.
  intros Hlen Hm. unfold ps_restore_attribute. unfold ps_orig_mentions, ps_orig_dict in Hm.
  destruct (ps_split attr) as [|f [|r rest]]; try discriminate.
  destruct (ps_filookup fe f); [|reflexivity].
  destruct (ps_m_orig o) as [og|]; [|reflexivity].
  rewrite Hm. reflexivity.
Qed.

(* the situation that used to wipe the attribute (witness of the former finding restore-unmodified-wipes) *)
Example ps_restore_unmodified_witness :
  let o := ps_w_obj (PsDict [([97], PsNum 5 0)]) in
  let o1 := snd (ps_modify_attribute ps_w_fe ps_w_path_a (PsNum 6 0) true 1%Z o) in
  let o2 := snd (ps_restore_attribute ps_w_fe [110] true 2%Z o1) in
  ps_orig_mentions [110] o1 = false /\ ps_m_orig o1 <> None /\ fst (ps_restore_attribute ps_w_fe [110] true 2%Z o1) = true /\
  ps_get_attr [110] o2 = PsStr [120].
Proof. vm_compute. repeat split. discriminate. Qed.

(* a dictionary replaced by a scalar: DumpModifiedAttributes throws *)
Lemma ps_dump_modattrs_throws_refuted :
  let o := ps_w_obj (PsDict [([97], PsDict [([120], PsNum 1 0)])]) in
  let o1 := snd (ps_modify_attribute ps_w_fe ps_w_path_a (PsNum 5 0) true 1%Z o) in
  fst (ps_modify_attribute ps_w_fe ps_w_path_a (PsNum 5 0) true 1%Z o) = true /\ ps_dump_modattrs o1 = None.
Proof. vm_compute. repeat split. Qed.

(* six decimals (the writer as pinned, rt = false): 0.1234567 comes back as 0.123457, 0.0000001 as 0 *)
Lemma ps_modattr_precision_refuted :
  ps_writer_codec_m false (PsNum 1234567 7) = PsNum 123457 6 /\ ps_writer_codec_m false (PsNum 1 7) = PsNum 0 0 /\
  ps_writer_codec_m false (PsDict [([97], PsArr [PsNum 1234567 7])]) = PsDict [([97], PsArr [PsNum 123457 6])].
Proof. vm_compute. repeat split. Qed.

(* the same modification through the writer the source has now (fix 1e5729f): dump + reload gives 0.1234567 back *)
Lemma ps_modattr_precision_fixed :
  let o := ps_w_obj (PsDict [([97], PsNum 1 0)]) in
  let o1 := snd (ps_modify_attribute ps_w_fe ps_w_path_a (PsNum 1234567 7) true 1%Z o) in
  exists script, ps_dump_modattrs o1 = Some script /\
    ps_get_attr ps_w_path_a (snd (ps_replay_modattrs ps_w_fe script 1%Z 9%Z o)) = PsNum 1234567 7.
Proof. eexists. vm_compute. split; reflexivity. Qed.

(* non-vacuity of ps_restore_after_modify's premises, nested and missing leaf *)
Example ps_restore_after_modify_nonvacuous :
  let o := ps_w_obj (PsDict [([97], PsDict [([120], PsNum 1 0)])]) in
  let p := [118; 97; 114; 115; 46; 97; 46; 122] in     (* vars.a.z : does not exist *)
  fst (ps_modify_attribute ps_w_fe p (PsStr [104]) true 1%Z o) = true /\
  ps_is_dict (ps_get_attr p o) = false /\
  ps_get_attr p (snd (ps_restore_attribute ps_w_fe p true 2%Z (snd (ps_modify_attribute ps_w_fe p (PsStr [104]) true 1%Z o)))) = PsEmpty /\
  (* ... but the restored dictionary now has a null entry z the original did not have *)
  ps_get_attr ps_w_path_a (snd (ps_restore_attribute ps_w_fe p true 2%Z (snd (ps_modify_attribute ps_w_fe p (PsStr [104]) true 1%Z o))))
    = PsDict [([120], PsNum 1 0); ([122], PsEmpty)].
Proof. vm_compute. repeat split. Qed.
