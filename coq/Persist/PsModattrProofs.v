(* C14 - DumpModifiedAttributes + reload gives back the modified attributes (top-level attributes; numbers that survive
   six fixed decimals). *)
From Icv Require Import Base.Tac Persist.PsValue Persist.PsModel Persist.PsValueProofs.
From Coq Require Import NArith.
Local Open Scope N_scope.

Definition ps_mem (k : ps_key) (l : list ps_key) : bool := existsb (ps_key_eqb k) l.

Lemma ps_mem_app k a b : ps_mem k (a ++ b) = ps_mem k a || ps_mem k b.
Proof. unfold ps_mem. apply existsb_app. Qed.

Lemma ps_mem_keys k og : ps_mem k (map fst og) = ps_dcontains k og.
Proof.
  unfold ps_mem, ps_dcontains. induction og as [|[k' x] og IH]; cbn; [reflexivity|].
  destruct (ps_key_eqb k k'); [reflexivity | exact IH].
Qed.

Lemma ps_modify_top fe k v now acc fi :
  ps_split k = [k] -> ps_filookup fe k = Some fi -> ps_fi_nomod fi = false -> ps_fi_config fi = true ->
  ps_field_accepts fi v = true -> ps_coerce fi v = v ->
  ps_modify_attribute fe k v true now acc =
  (true, {| ps_m_fields := ps_dset k v (ps_m_fields acc);
            ps_m_orig := Some (if ps_dcontains k (ps_orig_dict acc) then ps_orig_dict acc
                               else ps_dset k (ps_dget k (ps_m_fields acc)) (ps_orig_dict acc));
            ps_m_version := now |}).
Proof.
  intros Hs Hl Hn Hc Ha Hco. unfold ps_modify_attribute. rewrite Hs, Hl, Hn, Hc.
  destruct (ps_m_orig acc) as [og|] eqn:E; unfold ps_orig_dict; cbn; rewrite ?E, Ha, Hco; reflexivity.
Qed.

Section Reload.
  Variable fe : ps_fenv.
  Variables cur base : ps_mobj.          (* the running object, the object as configured *)

  (* what has to hold of an attribute name that original_attributes lists *)
  Definition ps_top_ok (k : ps_key) : Prop :=
    ps_split k = [k] /\                                                     (* a top-level attribute *)
    (exists fi, ps_filookup fe k = Some fi /\ ps_fi_nomod fi = false /\ ps_fi_config fi = true /\
                ps_field_accepts fi (ps_dget k (ps_m_fields cur)) = true /\
                ps_coerce fi (ps_dget k (ps_m_fields cur)) = ps_dget k (ps_m_fields cur)) /\
    ps_writer_codec (ps_dget k (ps_m_fields cur)) = ps_dget k (ps_m_fields cur).   (* survives EmitNumber *)

  Definition ps_rl_inv (done : list ps_key) (acc : ps_mobj) : Prop :=
    (forall f, ps_dget f (ps_m_fields acc) = if ps_mem f done then ps_dget f (ps_m_fields cur) else ps_dget f (ps_m_fields base)) /\
    (forall k, ps_dget_opt k (ps_orig_dict acc) = if ps_mem k done then Some (ps_dget k (ps_m_fields base)) else None).

  Lemma ps_dump_keys_top keys :
    (forall k, In k keys -> ps_split k = [k]) ->
    ps_dump_modattrs_keys cur keys = Some (map (fun k => (k, ps_dget k (ps_m_fields cur))) keys).
  Proof.
    induction keys as [|k keys IH]; intros H; [reflexivity|].
    cbn [ps_dump_modattrs_keys map]. unfold ps_dma_value at 1. rewrite (H k (or_introl eq_refl)).
    rewrite IH; [reflexivity|]. intros k' Hin. apply H. right. exact Hin.
  Qed.

  Lemma ps_replay_lines_top now : forall todo done acc,
    ps_rl_inv done acc -> (forall k, In k todo -> ps_top_ok k) ->
    exists r, ps_replay_lines fe (map (fun k => (k, ps_dget k (ps_m_fields cur))) todo) now acc = (true, r) /\
              ps_rl_inv (done ++ todo) r /\ (todo <> [] -> ps_m_version r = now).
  Proof.
    induction todo as [|k todo IH]; intros done acc Hinv Hok.
    - exists acc. rewrite app_nil_r. repeat split; try apply Hinv. intros H; contradiction.
    - destruct (Hok k (or_introl eq_refl)) as (Hs & (fi & Hl & Hn & Hc & Ha & Hco) & Hw).
      cbn [map ps_replay_lines fst snd]. rewrite Hw.
      rewrite (ps_modify_top fe k _ now acc fi Hs Hl Hn Hc Ha Hco).
      set (acc' := {| ps_m_fields := _; ps_m_orig := _; ps_m_version := now |}).
      assert (ps_rl_inv (done ++ [k]) acc') as Hinv'.
      { destruct Hinv as [Hf Ho]. split.
        - intros f. cbn. rewrite ps_mem_app. cbn. rewrite orb_false_r.
          destruct (ps_key_eqb f k) eqn:E.
          + apply ps_key_eqb_eq in E. subst f. rewrite orb_true_r. apply ps_dget_dset_same.
          + rewrite orb_false_r. rewrite ps_dget_dset_other by (intros ->; rewrite ps_key_eqb_refl in E; discriminate). apply Hf.
        - intros k0. unfold ps_orig_dict. cbn [acc' ps_m_orig]. rewrite ps_mem_app. cbn. rewrite orb_false_r.
          unfold ps_dcontains. rewrite (Ho k).
          destruct (ps_mem k done) eqn:Ed.
          + rewrite (Ho k0). destruct (ps_key_eqb k0 k) eqn:E.
            * apply ps_key_eqb_eq in E. subst k0. rewrite Ed. reflexivity.
            * rewrite orb_false_r. reflexivity.
          + destruct (ps_key_eqb k0 k) eqn:E.
            * apply ps_key_eqb_eq in E. subst k0. rewrite orb_true_r, ps_dget_opt_dset_same, (Hf k), Ed. reflexivity.
            * rewrite orb_false_r, ps_dget_opt_dset_other by (intros ->; rewrite ps_key_eqb_refl in E; discriminate). apply Ho. }
      destruct (IH (done ++ [k]) acc' Hinv') as (r & Hr & Hinvr & Hver).
      { intros k' Hin. apply Hok. right. exact Hin. }
      exists r. rewrite Hr. split; [reflexivity|]. split.
      + rewrite <- app_assoc in Hinvr. exact Hinvr.
      + intros _. destruct todo as [|k2 todo]; [|apply Hver; discriminate].
        cbn in Hr. inversion Hr. reflexivity.
  Qed.

  (* DumpModifiedAttributes of the running object, replayed on the object as configured *)
  Theorem ps_modattr_roundtrip ver now :
    ps_orig_dict base = [] ->
    (forall k, ps_dcontains k (ps_orig_dict cur) = true -> ps_top_ok k) ->
    (* original_attributes holds the configured values; everything else IS the configured value *)
    (forall k x, ps_dget_opt k (ps_orig_dict cur) = Some x -> x = ps_dget k (ps_m_fields base)) ->
    (forall f, ps_dcontains f (ps_orig_dict cur) = false -> ps_dget f (ps_m_fields cur) = ps_dget f (ps_m_fields base)) ->
    exists script r,
      ps_dump_modattrs cur = Some script /\ ps_replay_modattrs fe script ver now base = (true, r) /\
      (forall f, ps_dget f (ps_m_fields r) = ps_dget f (ps_m_fields cur)) /\
      (forall k, ps_dget_opt k (ps_orig_dict r) = ps_dget_opt k (ps_orig_dict cur)) /\
      (ps_orig_dict cur <> [] -> ps_m_version r = ver).
  Proof.
    intros Hb Hok Horig Hrest.
    set (keys := map fst (ps_orig_dict cur)).
    assert (forall k, In k keys -> ps_top_ok k) as Hok'.
    { intros k Hin. apply Hok. rewrite <- ps_mem_keys. unfold ps_mem. apply existsb_exists. exists k. split; [exact Hin | apply ps_key_eqb_refl]. }
    exists (map (fun k => (k, ps_dget k (ps_m_fields cur))) keys).
    unfold ps_dump_modattrs. fold keys. rewrite ps_dump_keys_top by (intros k Hin; apply (Hok' k Hin)).
    assert (ps_rl_inv [] base) as Hinv0.
    { split; intros; cbn; [reflexivity|]. rewrite Hb. reflexivity. }
    destruct (ps_replay_lines_top now keys [] base Hinv0 Hok') as (r & Hr & [Hf Ho] & _). cbn [app] in Hf, Ho.
    assert (forall f, (if ps_mem f keys then ps_dget f (ps_m_fields cur) else ps_dget f (ps_m_fields base)) = ps_dget f (ps_m_fields cur)) as Hfin.
    { intros f. unfold keys. rewrite ps_mem_keys. destruct (ps_dcontains f (ps_orig_dict cur)) eqn:E; [reflexivity|]. symmetry. apply Hrest. exact E. }
    assert (forall k, (if ps_mem k keys then Some (ps_dget k (ps_m_fields base)) else None) = ps_dget_opt k (ps_orig_dict cur)) as Hofin.
    { intros k. unfold keys. rewrite ps_mem_keys. unfold ps_dcontains.
      destruct (ps_dget_opt k (ps_orig_dict cur)) as [x|] eqn:E; [|reflexivity]. rewrite (Horig k x E). reflexivity. }
    unfold ps_replay_modattrs.
    destruct keys as [|k0 keys'] eqn:Ek.
    - exists base. cbn. split; [reflexivity|]. split; [reflexivity|].
      cbn in Hr. inversion Hr; subst r. repeat split.
      + intros f. rewrite Hf. apply Hfin.
      + intros k. rewrite Ho. apply Hofin.
      + intros Hne. exfalso. apply Hne. unfold keys in Ek. destruct (ps_orig_dict cur); [reflexivity | discriminate].
    - eexists. split; [reflexivity|]. cbn [map]. cbn [map] in Hr. rewrite Hr. split; [reflexivity|]. cbn. repeat split.
      + intros f. rewrite Hf. apply Hfin.
      + intros k. unfold ps_orig_dict. cbn. change (ps_dget_opt k (ps_orig_dict r) = ps_dget_opt k (ps_orig_dict cur)). rewrite Ho. apply Hofin.
  Qed.
End Reload.

(* numbers with at most six fractional digits, and everything built from them, survive the writer *)
Fixpoint ps_six (v : ps_value) {struct v} : bool :=
  match v with
  | PsNum m k => (k <=? 6) && (let '(m2, k2) := ps_norm_num 6 m k in Z.eqb m2 m && (k2 =? k))
  | PsArr l => forallb ps_six l
  | PsDict d => (fix go (d : ps_dict) : bool := match d with [] => true | (_, x) :: t => ps_six x && go t end) d
  | PsObj _ _ => false
  | _ => true
  end.

Lemma ps_six_codec v : ps_six v = true -> ps_writer_codec_m false v = v.
Proof.
  induction v using ps_value_ind'; intros Hs; try reflexivity; try discriminate.
  - cbn [ps_six] in Hs. apply andb_true_iff in Hs. destruct Hs as [Hk Hn].
    cbn [ps_writer_codec_m]. unfold ps_emit_num. rewrite Hk.
    destruct (ps_norm_num 6 m k) as [m2 k2]. cbv beta iota in Hn. apply andb_true_iff in Hn. destruct Hn as [Hm Hk2].
    apply Z.eqb_eq in Hm. apply N.eqb_eq in Hk2. subst. reflexivity.
  - cbn in Hs. cbn [ps_writer_codec_m]. f_equal.
    induction H as [|x l Hx Hl IH]; [reflexivity|]. cbn in Hs. apply andb_true_iff in Hs. destruct Hs as [H1 H2].
    cbn. rewrite (Hx H1), (IH H2). reflexivity.
  - cbn [ps_writer_codec_m]. f_equal. cbn in Hs.
    induction H as [|[k x] d Hx Hd IH]; [reflexivity|]. apply andb_true_iff in Hs. destruct Hs as [H1 H2].
    cbn in Hx. rewrite (Hx H1). f_equal. apply IH. exact H2.
Qed.

(* the round-trip form of the writer returns every value unchanged *)
Lemma ps_codec_rt_id v : ps_writer_codec_m true v = v.
Proof.
  induction v using ps_value_ind'; try reflexivity.
  - cbn [ps_writer_codec_m]. f_equal.
    induction H as [|x l Hx Hl IH]; [reflexivity|]. cbn. rewrite Hx, IH. reflexivity.
  - cbn [ps_writer_codec_m]. f_equal.
    induction H as [|[k x] d Hx Hd IH]; [reflexivity|]. cbn in Hx. rewrite Hx. f_equal. exact IH.
Qed.

(* the source has the round-trip form (regenerated fact; stops compiling when EmitNumber changes shape) *)
Lemma ps_number_roundtrip_true : ps_src_number_roundtrip = true.
Proof. reflexivity. Qed.

(* hence the writer premise of ps_top_ok / ps_listed_ok holds for EVERY value *)
Lemma ps_codec_id v : ps_writer_codec v = v.
Proof. unfold ps_writer_codec. rewrite ps_number_roundtrip_true. apply ps_codec_rt_id. Qed.

Example ps_six_examples :
  ps_six (PsDict [([97], PsNum 123456 6); ([98], PsArr [PsNum 300 0; PsStr [120]; PsNum (-25) 1])]) = true /\
  ps_six (PsNum 1234567 7) = false.
Proof. vm_compute. split; reflexivity. Qed.

(* non-vacuity: an object whose attribute "n" was modified at run time meets all premises of ps_modattr_roundtrip *)
Definition ps_r_fe : ps_fenv := [([110], {| ps_fi_config := true; ps_fi_nomod := false; ps_fi_kind := 3 |})].
Definition ps_r_base : ps_mobj := {| ps_m_fields := [([110], PsStr [120])]; ps_m_orig := None; ps_m_version := 0%Z |}.
Definition ps_r_cur : ps_mobj := snd (ps_modify_attribute ps_r_fe [110] (PsStr [121]) true 5%Z ps_r_base).

Example ps_modattr_roundtrip_nonvacuous :
  ps_orig_dict ps_r_base = [] /\
  ps_orig_dict ps_r_cur <> [] /\
  (forall k, ps_dcontains k (ps_orig_dict ps_r_cur) = true -> ps_top_ok ps_r_fe ps_r_cur k) /\
  (forall k x, ps_dget_opt k (ps_orig_dict ps_r_cur) = Some x -> x = ps_dget k (ps_m_fields ps_r_base)) /\
  (forall f, ps_dcontains f (ps_orig_dict ps_r_cur) = false -> ps_dget f (ps_m_fields ps_r_cur) = ps_dget f (ps_m_fields ps_r_base)).
Proof.
  assert (ps_orig_dict ps_r_cur = [([110], PsStr [120])]) as E by reflexivity.
  assert (ps_m_fields ps_r_cur = [([110], PsStr [121])]) as F by reflexivity.
  split; [reflexivity|]. split; [rewrite E; discriminate|]. rewrite E, F. repeat split.
  - unfold ps_dcontains in H. cbn in H. destruct (ps_key_eqb k [110]) eqn:Ek; [|discriminate].
    apply ps_key_eqb_eq in Ek. subst. reflexivity.
  - unfold ps_dcontains in H. cbn in H. destruct (ps_key_eqb k [110]) eqn:Ek; [|discriminate].
    apply ps_key_eqb_eq in Ek. subst. eexists. repeat split; reflexivity.
  - unfold ps_dcontains in H. cbn in H. destruct (ps_key_eqb k [110]) eqn:Ek; [|discriminate].
    apply ps_key_eqb_eq in Ek. subst. rewrite F. reflexivity.
  - intros k x H. cbn in H. destruct (ps_key_eqb k [110]) eqn:Ek; [|discriminate].
    apply ps_key_eqb_eq in Ek. subst. inversion H. reflexivity.
  - intros f H. unfold ps_dcontains in H. cbn in H. unfold ps_dget. cbn. destruct (ps_key_eqb f [110]); [discriminate | reflexivity].
Qed.
