(* C14 - populations: every object gets back ITS OWN attribute values, original_attributes and version from
   modified-attributes.conf (dump of the whole population, evaluation of the file on the freshly configured population),
   for any number of objects, whatever the other objects list. *)
From Icv Require Import Base.Tac Persist.PsValue Persist.PsModel Persist.PsValueProofs Persist.PsRestoreProofs
  Persist.PsFrameProofs Persist.PsSeqProofs Persist.PsSpineProofs Persist.PsReloadProofs Persist.PsPopModel.
From Coq Require Import NArith.
Local Open Scope N_scope.

(* ---- the name index ---- *)
Lemma ps_pop_find_set_same n o' : forall pop o, ps_pop_find n pop = Some o -> ps_pop_find n (ps_pop_set n o' pop) = Some o'.
Proof.
  induction pop as [|po pop IH]; cbn; [discriminate|]. intros o.
  destruct (ps_key_eqb n (ps_p_name po)) eqn:E; cbn; rewrite E; [reflexivity | apply IH].
Qed.

Lemma ps_pop_find_set_other n m o' : n <> m -> forall pop, ps_pop_find m (ps_pop_set n o' pop) = ps_pop_find m pop.
Proof.
  intros Hne. induction pop as [|po pop IH]; cbn; [reflexivity|].
  destruct (ps_key_eqb n (ps_p_name po)) eqn:E; cbn.
  - apply ps_key_eqb_eq in E. subst n. rewrite (ps_key_eqb_neq m (ps_p_name po)) by (intros ->; apply Hne; reflexivity). reflexivity.
  - rewrite IH. reflexivity.
Qed.

Lemma ps_pop_set_names n o' : forall pop, map ps_p_name (ps_pop_set n o' pop) = map ps_p_name pop.
Proof.
  induction pop as [|po pop IH]; cbn; [reflexivity|].
  destruct (ps_key_eqb n (ps_p_name po)); cbn; [reflexivity | rewrite IH; reflexivity].
Qed.

Lemma ps_pop_find_none n : forall pop, ~ In n (map ps_p_name pop) -> ps_pop_find n pop = None.
Proof.
  induction pop as [|po pop IH]; cbn; [reflexivity|]. intros Hn.
  rewrite ps_key_eqb_neq by (intros ->; apply Hn; left; reflexivity). apply IH. intros H. apply Hn. right. exact H.
Qed.

Lemma ps_pop_find_in n o : forall pop, ps_pop_find n pop = Some o -> In n (map ps_p_name pop).
Proof.
  induction pop as [|po pop IH]; cbn; [discriminate|].
  destruct (ps_key_eqb n (ps_p_name po)) eqn:E; [apply ps_key_eqb_eq in E; left; symmetry; exact E | intros H; right; exact (IH H)].
Qed.

(* ---- what is known of one object and what is concluded for it ---- *)
Record ps_pspec := { ps_s_name : ps_key; ps_s_P : list ps_key; ps_s_o0 : ps_mobj; ps_s_cur : ps_mobj }.

Definition ps_pspec_ok (fe : ps_fenv) (s : ps_pspec) : Prop :=
  (forall p p', In p (ps_s_P s) -> In p' (ps_s_P s) -> p <> p' -> ps_incomp p p') /\
  (forall p, In p (ps_s_P s) -> ps_cfg_field fe p) /\
  (forall p, In p (ps_s_P s) -> forall fi, ps_filookup fe (ps_field_of p) = Some fi -> ps_fi_nomod fi = false) /\
  (forall p, In p (ps_s_P s) -> forall fi, ps_filookup fe (ps_field_of p) = Some fi ->
     ps_coerce fi (ps_get_attr p (ps_s_o0 s)) = ps_get_attr p (ps_s_o0 s)) /\
  ps_orig_dict (ps_s_o0 s) = [] /\
  ps_reload_inv (ps_s_P s) (ps_s_o0 s) (ps_s_cur s) /\
  (forall k x, In (k, x) (ps_orig_dict (ps_s_cur s)) -> ps_listed_ok fe (ps_s_cur s) k).

Definition ps_pspec_concl (s : ps_pspec) (r : ps_mobj) : Prop :=
  (forall p, In p (ps_s_P s) -> ps_get_attr p r = ps_get_attr p (ps_s_cur s)) /\
  (forall q, (forall p, In p (ps_s_P s) -> ps_incomp p q) -> ps_get_attr q r = ps_get_attr q (ps_s_cur s)) /\
  (forall k x, In (k, x) (ps_orig_dict r) <-> In (k, x) (ps_orig_dict (ps_s_cur s))) /\
  (ps_orig_dict (ps_s_cur s) <> [] -> ps_m_version r = ps_m_version (ps_s_cur s)) /\
  (ps_orig_dict (ps_s_cur s) = [] -> r = ps_s_o0 s).

Definition ps_pop_cur (specs : list ps_pspec) : ps_pop := map (fun s => {| ps_p_name := ps_s_name s; ps_p_obj := ps_s_cur s |}) specs.
Definition ps_pop_base (specs : list ps_pspec) : ps_pop := map (fun s => {| ps_p_name := ps_s_name s; ps_p_obj := ps_s_o0 s |}) specs.

Lemma ps_pop_base_find specs : NoDup (map ps_s_name specs) ->
  forall s, In s specs -> ps_pop_find (ps_s_name s) (ps_pop_base specs) = Some (ps_s_o0 s).
Proof.
  induction specs as [|s0 specs IH]; intros Hnd s Hin; [contradiction|]. cbn in Hnd |- *. inversion Hnd; subst.
  destruct Hin as [<-|Hin]; [rewrite ps_key_eqb_refl; reflexivity|].
  rewrite ps_key_eqb_neq; [apply IH; assumption|]. intros E. apply H1. rewrite <- E. apply in_map. exact Hin.
Qed.

Section PopReload.
  Variable fe : ps_fenv.
  Variable now : Z.

  (* a dictionary that lists nothing dumps to no line *)
  Lemma ps_dump_modattrs_nil o ls : ps_dump_modattrs o = Some ls -> (ls = [] <-> ps_orig_dict o = []).
  Proof.
    unfold ps_dump_modattrs. destruct (ps_orig_dict o) as [|[k x] og]; cbn.
    - intros H. inversion H. tauto.
    - destruct (ps_dma_value o k); [|discriminate]. destruct (ps_dump_modattrs_keys o (map fst og)); [|discriminate].
      intros H. inversion H. split; discriminate.
  Qed.

  (* the replay of the blocks dumped from the objects [specs], on any population in which these objects are still as
     configured: every one of them ends up as its per-object theorem says, nothing else is touched *)
  Lemma ps_pop_replay_spec : forall specs pop,
    NoDup (map ps_s_name specs) ->
    (forall s, In s specs -> ps_pspec_ok fe s /\ ps_pop_find (ps_s_name s) pop = Some (ps_s_o0 s)) ->
    exists blocks r,
      ps_pop_dump (ps_pop_cur specs) = Some blocks /\ ps_pop_replay fe now blocks pop = (true, r) /\
      map ps_p_name r = map ps_p_name pop /\
      (forall n, ~ In n (map ps_s_name specs) -> ps_pop_find n r = ps_pop_find n pop) /\
      (forall s, In s specs -> exists ro, ps_pop_find (ps_s_name s) r = Some ro /\ ps_pspec_concl s ro).
  Proof.
    induction specs as [|s specs IH]; intros pop Hnd Hs.
    - exists [], pop. cbn. repeat split; try reflexivity. intros s [].
    - cbn in Hnd. inversion Hnd as [|? ? Hnotin Hnd']; subst.
      destruct (Hs s (or_introl eq_refl)) as ((H1 & H2 & H3 & H4 & H0 & Hinv & Hvals) & Hfind).
      destruct (ps_reload_roundtrip fe (ps_s_P s) (ps_s_o0 s) H1 H2 H3 H4 (ps_s_cur s) Hinv now Hvals (ps_m_version (ps_s_cur s)) H0)
        as (script & ro & Hdump & Hrep & C1 & C2 & C3 & C4 & C5).
      pose proof (ps_dump_modattrs_nil _ _ Hdump) as Hnil.
      destruct script as [|l0 script'].
      + (* nothing listed: no block; the object stays as configured *)
        assert (ps_orig_dict (ps_s_cur s) = []) as He by (apply Hnil; reflexivity).
        destruct (IH pop Hnd') as (blocks & r & Hd & Hr & Hn & Hoth & Hall).
        { intros s' Hin. apply Hs. right. exact Hin. }
        exists blocks, r. cbn [ps_pop_cur map ps_pop_dump ps_p_obj ps_p_name]. fold (ps_pop_cur specs). rewrite Hdump, Hd.
        split; [reflexivity|]. split; [exact Hr|]. split; [exact Hn|]. split.
        * intros n Hnin. apply Hoth. intros H. apply Hnin. right. exact H.
        * intros s' [<-|Hin]; [|apply Hall; exact Hin].
          exists (ps_s_o0 s). split; [rewrite (Hoth _ Hnotin); exact Hfind|].
          destruct (C5 He) as [_ ->]. repeat split; try assumption; try apply C3.
      + set (b := {| ps_b_name := ps_s_name s; ps_b_lines := l0 :: script'; ps_b_version := ps_m_version (ps_s_cur s) |}).
        set (pop1 := ps_pop_set (ps_s_name s) ro pop).
        destruct (IH pop1 Hnd') as (blocks & r & Hd & Hr & Hn & Hoth & Hall).
        { intros s' Hin. split; [apply Hs; right; exact Hin|]. unfold pop1.
          rewrite ps_pop_find_set_other; [apply Hs; right; exact Hin|].
          intros E. apply Hnotin. rewrite E. apply in_map. exact Hin. }
        exists (b :: blocks), r. cbn [ps_pop_cur map ps_pop_dump ps_p_obj ps_p_name]. fold (ps_pop_cur specs). rewrite Hdump, Hd.
        split; [reflexivity|]. split.
        * cbn [ps_pop_replay]. unfold ps_block_replay. cbn [ps_b_name ps_b_lines ps_b_version b]. rewrite Hfind, Hrep. exact Hr.
        * split; [rewrite Hn; unfold pop1; apply ps_pop_set_names|]. split.
          -- intros n Hnin. rewrite Hoth by (intros H; apply Hnin; right; exact H). unfold pop1.
             apply ps_pop_find_set_other. intros E. apply Hnin. left. exact E.
          -- intros s' [<-|Hin]; [|apply Hall; exact Hin].
             exists ro. split; [rewrite (Hoth _ Hnotin); unfold pop1; apply (ps_pop_find_set_same _ _ _ _ Hfind)|].
             repeat split; try assumption; try apply C3. intros He. destruct (C5 He) as [Hx _]. discriminate.
  Qed.

  (* THE POPULATION THEOREM: DumpModifiedAttributes over the running population, the file evaluated on the population
     as configured: the dump and the evaluation succeed and EVERY object has its own values, its own
     original_attributes entries and its own version; the population has the same objects in the same order *)
  Theorem ps_pop_reload specs :
    NoDup (map ps_s_name specs) -> (forall s, In s specs -> ps_pspec_ok fe s) ->
    exists blocks r,
      ps_pop_dump (ps_pop_cur specs) = Some blocks /\ ps_pop_replay fe now blocks (ps_pop_base specs) = (true, r) /\
      map ps_p_name r = map ps_s_name specs /\
      (forall s, In s specs -> exists ro, ps_pop_find (ps_s_name s) r = Some ro /\ ps_pspec_concl s ro).
  Proof.
    intros Hnd Hok.
    destruct (ps_pop_replay_spec specs (ps_pop_base specs) Hnd) as (blocks & r & Hd & Hr & Hn & _ & Hall).
    { intros s Hin. split; [apply Hok; exact Hin | apply ps_pop_base_find; assumption]. }
    exists blocks, r. repeat split; try assumption. rewrite Hn. unfold ps_pop_base. rewrite map_map. reflexivity.
  Qed.
End PopReload.

(* ---- histories on a population: each object sees exactly its own calls ---- *)
Definition ps_pop_proj (n : ps_key) (H : list ps_pop_op) : list ps_op :=
  flat_map (fun op => if ps_key_eqb n (ps_pop_op_name op)
                      then [match op with PsPMod _ p v t => PsOpMod p v t | PsPRes _ p t => PsOpRes p t end] else []) H.

Lemma ps_pop_run_proj fe n : forall H pop o,
  ps_pop_find n pop = Some o -> ps_pop_find n (ps_pop_run fe pop H) = Some (ps_run fe o (ps_pop_proj n H)).
Proof.
  induction H as [|op H IH]; intros pop o Hf; [exact Hf|].
  cbn [ps_pop_run fold_left ps_pop_proj flat_map]. fold (ps_pop_run fe (ps_pop_apply fe pop op) H). fold (ps_pop_proj n H).
  unfold ps_pop_apply at 1. destruct (ps_key_eqb n (ps_pop_op_name op)) eqn:E.
  - apply ps_key_eqb_eq in E. rewrite <- E, Hf. cbn [app]. unfold ps_run. cbn [fold_left]. fold (ps_run fe).
    apply IH. rewrite (ps_pop_find_set_same _ _ _ _ Hf). destruct op; reflexivity.
  - cbn [app]. apply IH. destruct (ps_pop_find (ps_pop_op_name op) pop); [|exact Hf].
    rewrite ps_pop_find_set_other; [exact Hf|]. intros E'. rewrite E', ps_key_eqb_refl in E. discriminate.
Qed.

Lemma ps_pop_apply_names fe pop op : map ps_p_name (ps_pop_apply fe pop op) = map ps_p_name pop.
Proof. unfold ps_pop_apply. destruct (ps_pop_find (ps_pop_op_name op) pop); [apply ps_pop_set_names | reflexivity]. Qed.

Lemma ps_pop_run_names fe : forall H pop, map ps_p_name (ps_pop_run fe pop H) = map ps_p_name pop.
Proof.
  induction H as [|op H IH]; intros pop; [reflexivity|]. cbn. fold (ps_pop_run fe (ps_pop_apply fe pop op) H).
  rewrite IH. apply ps_pop_apply_names.
Qed.

(* the configured population [cfg] : (name, P, o0) per object *)
Record ps_pcfg := { ps_c_name : ps_key; ps_c_P : list ps_key; ps_c_o0 : ps_mobj }.

Definition ps_pcfg_ok (fe : ps_fenv) (c : ps_pcfg) : Prop :=
  (forall p p', In p (ps_c_P c) -> In p' (ps_c_P c) -> p <> p' -> ps_incomp p p') /\
  (forall p, In p (ps_c_P c) -> ps_cfg_field fe p) /\
  (forall p, In p (ps_c_P c) -> forall fi, ps_filookup fe (ps_field_of p) = Some fi -> ps_fi_nomod fi = false) /\
  (forall p, In p (ps_c_P c) -> forall fi, ps_filookup fe (ps_field_of p) = Some fi ->
     ps_coerce fi (ps_get_attr p (ps_c_o0 c)) = ps_get_attr p (ps_c_o0 c)) /\
  ps_orig_dict (ps_c_o0 c) = [].

Definition ps_pop_cfg (cfg : list ps_pcfg) : ps_pop := map (fun c => {| ps_p_name := ps_c_name c; ps_p_obj := ps_c_o0 c |}) cfg.

Lemma ps_pop_cfg_find cfg : NoDup (map ps_c_name cfg) ->
  forall c, In c cfg -> ps_pop_find (ps_c_name c) (ps_pop_cfg cfg) = Some (ps_c_o0 c).
Proof.
  induction cfg as [|c0 cfg IH]; intros Hnd c Hin; [contradiction|]. cbn in Hnd |- *. inversion Hnd; subst.
  destruct Hin as [<-|Hin]; [rewrite ps_key_eqb_refl; reflexivity|].
  rewrite ps_key_eqb_neq; [apply IH; assumption|]. intros E. apply H1. rewrite <- E. apply in_map. exact Hin.
Qed.

(* a population whose names are those of [cfg], in that order, is the image of a list of specs *)
Lemma ps_pop_as_specs : forall cfg (pop : ps_pop),
  map ps_p_name pop = map ps_c_name cfg ->
  exists specs, ps_pop_cur specs = pop /\ ps_pop_base specs = ps_pop_cfg cfg /\ map ps_s_name specs = map ps_c_name cfg /\
    (forall s, In s specs -> exists c, In c cfg /\ ps_s_name s = ps_c_name c /\ ps_s_P s = ps_c_P c /\ ps_s_o0 s = ps_c_o0 c /\
                                        In {| ps_p_name := ps_c_name c; ps_p_obj := ps_s_cur s |} pop) /\
    (forall c, In c cfg -> exists s, In s specs /\ ps_s_name s = ps_c_name c /\ ps_s_P s = ps_c_P c /\ ps_s_o0 s = ps_c_o0 c).
Proof.
  induction cfg as [|c cfg IH]; intros pop Hn.
  - destruct pop; [|discriminate]. exists []. cbn. repeat split; try reflexivity; intros ? [].
  - destruct pop as [|po pop]; [discriminate|]. cbn in Hn. inversion Hn as [[Hn1 Hn2]].
    destruct (IH pop Hn2) as (specs & Hc & Hb & Hnm & Hall & Hall2).
    exists ({| ps_s_name := ps_c_name c; ps_s_P := ps_c_P c; ps_s_o0 := ps_c_o0 c; ps_s_cur := ps_p_obj po |} :: specs).
    unfold ps_pop_cur, ps_pop_base in *. cbn [map ps_s_name ps_s_cur ps_s_o0 ps_s_P ps_pop_cfg]. rewrite Hc, Hb, Hnm.
    split; [destruct po; cbn in *; subst; reflexivity|]. split; [reflexivity|]. split; [reflexivity|]. split.
    + intros s [<-|Hin].
      * exists c. cbn. split; [left; reflexivity|]. repeat split. left. destruct po; cbn in *; subst; reflexivity.
      * destruct (Hall s Hin) as (c' & H1 & H2 & H3 & H4 & H5). exists c'. split; [right; exact H1|]. repeat split; auto.
        right. exact H5.
    + intros c' [<-|Hin].
      * eexists. split; [left; reflexivity|]. cbn. auto.
      * destruct (Hall2 c' Hin) as (s & H1 & H2). exists s. split; [right; exact H1 | exact H2].
Qed.

Lemma ps_nodup_name_inj cfg : NoDup (map ps_c_name cfg) ->
  forall c c', In c cfg -> In c' cfg -> ps_c_name c = ps_c_name c' -> c = c'.
Proof.
  induction cfg as [|c0 cfg IH]; intros Hnd c c' H1 H2 E; [contradiction|].
  cbn in Hnd. apply NoDup_cons_iff in Hnd. destruct Hnd as [Hni Hnd].
  destruct H1 as [->|H1], H2 as [->|H2]; try reflexivity.
  - exfalso. apply Hni. rewrite E. apply in_map. exact H2.
  - exfalso. apply Hni. rewrite <- E. apply in_map. exact H1.
  - apply IH; assumption.
Qed.

(* POPULATION HISTORIES.  cfg: the population as configured (distinct names; per object a set P of pairwise incomparable
   paths of configuration attributes).  H: ANY interleaving of ModifyAttribute / RestoreAttribute calls on the objects,
   at any times, such that each object's own calls form an allowed history (ps_hist_ok: paths of its P, no modify meets
   a dictionary).  Then DumpModifiedAttributes + evaluation of the file on the configured population succeed and every
   object reads as it did before the restart - its own values on P and on the frame, its own original_attributes
   entries, its own version (whenever it lists anything; otherwise it is exactly the configured object). *)
Theorem ps_pop_history_reload fe now cfg H :
  NoDup (map ps_c_name cfg) -> (forall c, In c cfg -> ps_pcfg_ok fe c) ->
  (forall c, In c cfg -> ps_hist_ok fe (ps_c_P c) (ps_c_o0 c) (ps_pop_proj (ps_c_name c) H)) ->
  let running := ps_pop_run fe (ps_pop_cfg cfg) H in
  (forall c, In c cfg -> forall k x, In (k, x) (ps_orig_dict (ps_run fe (ps_c_o0 c) (ps_pop_proj (ps_c_name c) H))) ->
     ps_listed_ok fe (ps_run fe (ps_c_o0 c) (ps_pop_proj (ps_c_name c) H)) k) ->
  exists blocks r,
    ps_pop_dump running = Some blocks /\ ps_pop_replay fe now blocks (ps_pop_cfg cfg) = (true, r) /\
    map ps_p_name r = map ps_c_name cfg /\
    (forall c, In c cfg -> exists cur ro,
       ps_pop_find (ps_c_name c) running = Some cur /\ ps_pop_find (ps_c_name c) r = Some ro /\
       (forall p, In p (ps_c_P c) -> ps_get_attr p ro = ps_get_attr p cur) /\
       (forall q, (forall p, In p (ps_c_P c) -> ps_incomp p q) -> ps_get_attr q ro = ps_get_attr q cur) /\
       (forall k x, In (k, x) (ps_orig_dict ro) <-> In (k, x) (ps_orig_dict cur)) /\
       (ps_orig_dict cur <> [] -> ps_m_version ro = ps_m_version cur) /\
       (ps_orig_dict cur = [] -> ro = ps_c_o0 c)).
Proof.
  intros Hnd Hok Hh running Hvals.
  assert (map ps_p_name running = map ps_c_name cfg) as Hnames.
  { unfold running. rewrite ps_pop_run_names. unfold ps_pop_cfg. rewrite map_map. reflexivity. }
  destruct (ps_pop_as_specs cfg running Hnames) as (specs & Hc & Hb & Hnm & Hall & Hall2).
  assert (forall c, In c cfg -> ps_pop_find (ps_c_name c) running = Some (ps_run fe (ps_c_o0 c) (ps_pop_proj (ps_c_name c) H))) as Hrun.
  { intros c Hin. unfold running. apply ps_pop_run_proj. apply ps_pop_cfg_find; assumption. }
  assert (NoDup (map ps_p_name running)) as Hndr by (rewrite Hnames; exact Hnd).
  (* In (name, o) of a population with distinct names means find = Some o *)
  assert (forall pop, NoDup (map ps_p_name pop) -> forall po, In po pop -> ps_pop_find (ps_p_name po) pop = Some (ps_p_obj po)) as Hfin.
  { induction pop as [|p0 pop IHp]; intros Hndp po Hin; [contradiction|]. cbn in Hndp |- *. inversion Hndp; subst.
    destruct Hin as [<-|Hin]; [rewrite ps_key_eqb_refl; reflexivity|].
    rewrite ps_key_eqb_neq; [apply IHp; assumption|]. intros E. apply H2. rewrite <- E. apply in_map. exact Hin. }
  assert (forall s, In s specs -> exists c, In c cfg /\ ps_s_name s = ps_c_name c /\ ps_s_P s = ps_c_P c /\ ps_s_o0 s = ps_c_o0 c /\
            ps_s_cur s = ps_run fe (ps_c_o0 c) (ps_pop_proj (ps_c_name c) H)) as Hcur.
  { intros s Hin. destruct (Hall s Hin) as (c & H1 & H2 & H3 & H4 & H5). exists c. repeat split; auto.
    pose proof (Hfin running Hndr _ H5) as Hf. cbn in Hf. rewrite (Hrun c H1) in Hf. inversion Hf. reflexivity. }
  destruct (ps_pop_reload fe now specs) as (blocks & r & Hd & Hr & Hn & Hconcl).
  { rewrite Hnm. exact Hnd. }
  { intros s Hin. destruct (Hcur s Hin) as (c & H1 & H2 & H3 & H4 & H5).
    destruct (Hok c H1) as (K1 & K2 & K3 & K4 & K5). unfold ps_pspec_ok. rewrite H3, H4, H5.
    split; [exact K1|]. split; [exact K2|]. split; [exact K3|]. split; [exact K4|]. split; [exact K5|]. split.
    - apply (ps_reload_run fe (ps_c_P c) (ps_c_o0 c) K1 K2 K4); [apply ps_reload_inv_init; exact K5 | apply Hh; exact H1].
    - apply Hvals. exact H1. }
  exists blocks, r. rewrite Hc, Hb in *. split; [exact Hd|]. split; [exact Hr|]. split; [rewrite Hn; exact Hnm|].
  intros c Hin. destruct (Hall2 c Hin) as (s & Hs & E1 & E2 & E3).
  destruct (Hconcl s Hs) as (ro & Hfr & C1 & C2 & C3 & C4 & C5).
  destruct (Hcur s Hs) as (c' & Hc' & F1 & F2 & F3 & F4).
  assert (c' = c) as -> by (apply (ps_nodup_name_inj cfg Hnd); [exact Hc' | exact Hin | rewrite <- F1; exact E1]).
  exists (ps_s_cur s), ro. rewrite <- E1. split; [rewrite E1, F4; apply Hrun; exact Hin|]. split; [exact Hfr|].
  rewrite <- E2, <- E3. repeat split; try assumption; try apply C3.
Qed.
