(* C14 - populations: every object gets back ITS OWN attribute values, original_attributes and version from
   modified-attributes.conf (dump of the whole population, evaluation of the file on the freshly configured population),
   for any number of objects, whatever the other objects list. *)
From Icv Require Import Base.Tac Persist.PsValue Persist.PsModel Persist.PsValueProofs Persist.PsRestoreProofs
  Persist.PsFrameProofs Persist.PsSeqProofs Persist.PsSpineProofs Persist.PsReloadProofs Persist.PsPopModel.
From Coq Require Import NArith.
Local Open Scope N_scope.

(* ---- the name index ---- *)
Lemma ps_pop_find_set_same n o' : forall pop o, ps_pop_find n pop = Some o -> ps_pop_find n (ps_pop_set n o' pop) = Some o'.
Proof.
  induction pop as [|po pop IH]; cbn; [discriminate|]. intros o.
  destruct (ps_key_eqb n (ps_p_name po)) eqn:E; cbn; rewrite E; [reflexivity | apply IH].
Qed.

Lemma ps_pop_find_set_other n m o' : n <> m -> forall pop, ps_pop_find m (ps_pop_set n o' pop) = ps_pop_find m pop.
Proof.
  intros Hne. induction pop as [|po pop IH]; cbn; [reflexivity|].
  destruct (ps_key_eqb n (ps_p_name po)) eqn:E; cbn.
  - apply ps_key_eqb_eq in E. subst n. rewrite (ps_key_eqb_neq m (ps_p_name po)) by (intros ->; apply Hne; reflexivity). reflexivity.
  - rewrite IH. reflexivity.
Qed.

Lemma ps_pop_set_names n o' : forall pop, map ps_p_name (ps_pop_set n o' pop) = map ps_p_name pop.
Proof.
  induction pop as [|po pop IH]; cbn; [reflexivity|].
  destruct (ps_key_eqb n (ps_p_name po)); cbn; [reflexivity | rewrite IH; reflexivity].
Qed.

Lemma ps_pop_find_none n : forall pop, ~ In n (map ps_p_name pop) -> ps_pop_find n pop = None.
Proof.
  induction pop as [|po pop IH]; cbn; [reflexivity|]. intros Hn.
  rewrite ps_key_eqb_neq by (intros ->; apply Hn; left; reflexivity). apply IH. intros H. apply Hn. right. exact H.
Qed.

Lemma ps_pop_find_in n o : forall pop, ps_pop_find n pop = Some o -> In n (map ps_p_name pop).
Proof.
  induction pop as [|po pop IH]; cbn; [discriminate|].
  destruct (ps_key_eqb n (ps_p_name po)) eqn:E; [apply ps_key_eqb_eq in E; left; symmetry; exact E | intros H; right; exact (IH H)].
Qed.

(* ---- what is known of one object and what is concluded for it ---- *)
Record ps_pspec := { ps_s_name : ps_key; ps_s_P : list ps_key; ps_s_o0 : ps_mobj; ps_s_cur : ps_mobj }.

Definition ps_pspec_ok (fe : ps_fenv) (s : ps_pspec) : Prop :=
  (forall p p', In p (ps_s_P s) -> In p' (ps_s_P s) -> p <> p' -> ps_incomp p p') /\
  (forall p, In p (ps_s_P s) -> ps_cfg_field fe p) /\
  (forall p, In p (ps_s_P s) -> forall fi, ps_filookup fe (ps_field_of p) = Some fi -> ps_fi_nomod fi = false) /\
  (forall p, In p (ps_s_P s) -> forall fi, ps_filookup fe (ps_field_of p) = Some fi ->
     ps_coerce fi (ps_get_attr p (ps_s_o0 s)) = ps_get_attr p (ps_s_o0 s)) /\
  ps_orig_dict (ps_s_o0 s) = [] /\
  ps_reload_inv (ps_s_P s) (ps_s_o0 s) (ps_s_cur s) /\
  (forall k x, In (k, x) (ps_orig_dict (ps_s_cur s)) -> ps_listed_ok fe (ps_s_cur s) k).

Definition ps_pspec_concl (s : ps_pspec) (r : ps_mobj) : Prop :=
  (forall p, In p (ps_s_P s) -> ps_get_attr p r = ps_get_attr p (ps_s_cur s)) /\
  (forall q, (forall p, In p (ps_s_P s) -> ps_incomp p q) -> ps_get_attr q r = ps_get_attr q (ps_s_cur s)) /\
  (forall k x, In (k, x) (ps_orig_dict r) <-> In (k, x) (ps_orig_dict (ps_s_cur s))) /\
  (ps_orig_dict (ps_s_cur s) <> [] -> ps_m_version r = ps_m_version (ps_s_cur s)) /\
  (ps_orig_dict (ps_s_cur s) = [] -> r = ps_s_o0 s).

Definition ps_pop_cur (specs : list ps_pspec) : ps_pop := map (fun s => {| ps_p_name := ps_s_name s; ps_p_obj := ps_s_cur s |}) specs.
Definition ps_pop_base (specs : list ps_pspec) : ps_pop := map (fun s => {| ps_p_name := ps_s_name s; ps_p_obj := ps_s_o0 s |}) specs.

Lemma ps_pop_base_find specs : NoDup (map ps_s_name specs) ->
  forall s, In s specs -> ps_pop_find (ps_s_name s) (ps_pop_base specs) = Some (ps_s_o0 s).
Proof.
  induction specs as [|s0 specs IH]; intros Hnd s Hin; [contradiction|]. cbn in Hnd |- *. inversion Hnd; subst.
  destruct Hin as [<-|Hin]; [rewrite ps_key_eqb_refl; reflexivity|].
  rewrite ps_key_eqb_neq; [apply IH; assumption|]. intros E. apply H1. rewrite <- E. apply in_map. exact Hin.
Qed.

(* objects that differ in their version only *)
Definition ps_same_fo (o o' : ps_mobj) : Prop := ps_m_fields o = ps_m_fields o' /\ ps_m_orig o = ps_m_orig o'.

(* ModifyAttribute never reads the version: outcome, fields and original_attributes do not depend on it *)
Lemma ps_modify_version_indep fe k v updv now o o' :
  ps_same_fo o o' ->
  fst (ps_modify_attribute fe k v updv now o) = fst (ps_modify_attribute fe k v updv now o') /\
  ps_same_fo (snd (ps_modify_attribute fe k v updv now o)) (snd (ps_modify_attribute fe k v updv now o')).
Proof.
  destruct o as [f og ve], o' as [f' og' ve']. intros [Hf Ho]. cbn in Hf, Ho. subst f' og'.
  unfold ps_modify_attribute, ps_same_fo. cbn [ps_m_fields ps_m_orig ps_m_version].
  destruct (ps_split k) as [|fld rest]; [cbn; auto|].
  destruct (ps_filookup fe fld) as [fi|]; [|cbn; auto].
  destruct (ps_fi_nomod fi); [cbn; auto|].
  destruct (ps_fi_config fi), og as [d|]; cbn [ps_m_fields ps_m_orig ps_m_version ps_orig_dict];
    (destruct rest as [|r rest'];
     [ destruct (ps_field_accepts fi v); cbn; auto
     | repeat match goal with |- context [match ?x with _ => _ end] => destruct x eqn:? end; cbn; auto ]).
Qed.

Lemma ps_replay_lines_version_indep fe now : forall script o o',
  ps_same_fo o o' ->
  fst (ps_replay_lines fe script now o) = fst (ps_replay_lines fe script now o') /\
  ps_same_fo (snd (ps_replay_lines fe script now o)) (snd (ps_replay_lines fe script now o')).
Proof.
  induction script as [|kv script IH]; intros o o' Hs; [cbn; auto|].
  cbn [ps_replay_lines].
  destruct (ps_modify_version_indep fe (fst kv) (ps_writer_codec (snd kv)) true now o o' Hs) as [Hok Hs'].
  destruct (ps_modify_attribute fe (fst kv) (ps_writer_codec (snd kv)) true now o) as [ok r].
  destruct (ps_modify_attribute fe (fst kv) (ps_writer_codec (snd kv)) true now o') as [ok' r']. cbn in Hok, Hs'. subst ok'.
  destruct ok; [apply IH; exact Hs' | cbn; auto].
Qed.

(* the evaluation of one block on an object that differs from [o] in its version only *)
Lemma ps_replay_modattrs_version_indep fe script ver now o o' r :
  ps_same_fo o o' -> ps_replay_modattrs fe script ver now o = (true, r) ->
  exists r', ps_replay_modattrs fe script ver now o' = (true, r') /\ ps_same_fo r r' /\
             (script <> [] -> ps_m_version r' = ver) /\ (script = [] -> r' = o').
Proof.
  intros Hs Hr. unfold ps_replay_modattrs in *. destruct script as [|kv script].
  - exists o'. inversion Hr; subst. split; [reflexivity|]. split; [exact Hs|]. split; [intros H; contradiction | reflexivity].
  - destruct (ps_replay_lines_version_indep fe now (kv :: script) o o' Hs) as [Hok Hs'].
    destruct (ps_replay_lines fe (kv :: script) now o) as [ok r1]. destruct (ps_replay_lines fe (kv :: script) now o') as [ok' r1'].
    cbn in Hok, Hs'. subst ok'. destruct ok; [|discriminate]. inversion Hr; subst.
    eexists. split; [reflexivity|]. split; [exact Hs'|]. split; [reflexivity | discriminate].
Qed.

Section PopReload.
  Variable fe : ps_fenv.
  Variable now : Z.

  (* a dictionary that lists nothing dumps to no line *)
  Lemma ps_dump_modattrs_nil o ls : ps_dump_modattrs o = Some ls -> (ls = [] <-> ps_orig_dict o = []).
  Proof.
    unfold ps_dump_modattrs. destruct (ps_orig_dict o) as [|[k x] og]; cbn.
    - intros H. inversion H. tauto.
    - destruct (ps_dma_value o k); [|discriminate]. destruct (ps_dump_modattrs_keys o (map fst og)); [|discriminate].
      intros H. inversion H. split; discriminate.
  Qed.

  (* the evaluation of the blocks dumped from the objects [specs] on any population in which each of these objects is
     [init s]: if every single block evaluates on its object to something satisfying [Q] (and an object without block
     satisfies Q as it is), then so does the whole file on the population - nothing else is touched *)
  Section Gen.
    Variable init : ps_pspec -> ps_mobj.
    Variable Q : ps_pspec -> ps_mobj -> Prop.

    Lemma ps_pop_replay_gen : forall specs pop,
      NoDup (map ps_s_name specs) ->
      (forall s, In s specs -> ps_pop_find (ps_s_name s) pop = Some (init s) /\
         exists script ro, ps_dump_modattrs (ps_s_cur s) = Some script /\
           ps_replay_modattrs fe script (ps_m_version (ps_s_cur s)) now (init s) = (true, ro) /\ Q s ro /\ (script = [] -> ro = init s)) ->
      exists blocks r,
        ps_pop_dump (ps_pop_cur specs) = Some blocks /\ ps_pop_replay fe now blocks pop = (true, r) /\
        map ps_p_name r = map ps_p_name pop /\
        (forall n, ~ In n (map ps_s_name specs) -> ps_pop_find n r = ps_pop_find n pop) /\
        (forall s, In s specs -> exists ro, ps_pop_find (ps_s_name s) r = Some ro /\ Q s ro).
    Proof.
      induction specs as [|s specs IH]; intros pop Hnd Hs.
      - exists [], pop. cbn. repeat split; try reflexivity. intros s [].
      - cbn in Hnd. inversion Hnd as [|? ? Hnotin Hnd']; subst.
        destruct (Hs s (or_introl eq_refl)) as (Hfind & script & ro & Hdump & Hrep & HQ & Hnilro).
        destruct script as [|l0 script'].
        + (* nothing listed: no block; the object stays as it is *)
          destruct (IH pop Hnd') as (blocks & r & Hd & Hr & Hn & Hoth & Hall).
          { intros s' Hin. apply Hs. right. exact Hin. }
          exists blocks, r. cbn [ps_pop_cur map ps_pop_dump ps_p_obj ps_p_name]. fold (ps_pop_cur specs). rewrite Hdump, Hd.
          split; [reflexivity|]. split; [exact Hr|]. split; [exact Hn|]. split.
          * intros n Hnin. apply Hoth. intros H. apply Hnin. right. exact H.
          * intros s' [<-|Hin]; [|apply Hall; exact Hin].
            exists (init s). split; [rewrite (Hoth _ Hnotin); exact Hfind|]. rewrite <- (Hnilro eq_refl). exact HQ.
        + set (b := {| ps_b_name := ps_s_name s; ps_b_lines := l0 :: script'; ps_b_version := ps_m_version (ps_s_cur s) |}).
          set (pop1 := ps_pop_set (ps_s_name s) ro pop).
          destruct (IH pop1 Hnd') as (blocks & r & Hd & Hr & Hn & Hoth & Hall).
          { intros s' Hin. destruct (Hs s' (or_intror Hin)) as [Hf' Hrest]. split; [|exact Hrest]. unfold pop1.
            rewrite ps_pop_find_set_other; [exact Hf'|].
            intros E. apply Hnotin. rewrite E. apply in_map. exact Hin. }
          exists (b :: blocks), r. cbn [ps_pop_cur map ps_pop_dump ps_p_obj ps_p_name]. fold (ps_pop_cur specs). rewrite Hdump, Hd.
          split; [reflexivity|]. split.
          * cbn [ps_pop_replay]. unfold ps_block_replay. cbn [ps_b_name ps_b_lines ps_b_version b]. rewrite Hfind, Hrep. exact Hr.
          * split; [rewrite Hn; unfold pop1; apply ps_pop_set_names|]. split.
            -- intros n Hnin. rewrite Hoth by (intros H; apply Hnin; right; exact H). unfold pop1.
               apply ps_pop_find_set_other. intros E. apply Hnin. left. exact E.
            -- intros s' [<-|Hin]; [|apply Hall; exact Hin].
               exists ro. split; [rewrite (Hoth _ Hnotin); unfold pop1; apply (ps_pop_find_set_same _ _ _ _ Hfind) | exact HQ].
    Qed.
  End Gen.

  (* what the per-object theorem gives for one object *)
  Lemma ps_pspec_object s : ps_pspec_ok fe s ->
    exists script ro, ps_dump_modattrs (ps_s_cur s) = Some script /\
      ps_replay_modattrs fe script (ps_m_version (ps_s_cur s)) now (ps_s_o0 s) = (true, ro) /\ ps_pspec_concl s ro /\
      (script = [] -> ro = ps_s_o0 s).
  Proof.
    intros (H1 & H2 & H3 & H4 & H0 & Hinv & Hvals).
    destruct (ps_reload_roundtrip fe (ps_s_P s) (ps_s_o0 s) H1 H2 H3 H4 (ps_s_cur s) Hinv now Hvals (ps_m_version (ps_s_cur s)) H0)
      as (script & ro & Hdump & Hrep & C1 & C2 & C3 & C4 & C5).
    exists script, ro. split; [exact Hdump|]. split; [exact Hrep|]. split.
    - split; [exact C1|]. split; [exact C2|]. split; [exact C3|]. split; [exact C4|]. intros He. exact (proj2 (C5 He)).
    - intros ->. apply C5. apply (ps_dump_modattrs_nil _ _ Hdump). reflexivity.
  Qed.

  (* THE POPULATION THEOREM: DumpModifiedAttributes over the running population, the file evaluated on the population
     as configured: the dump and the evaluation succeed and EVERY object has its own values, its own
     original_attributes entries and its own version; the population has the same objects in the same order *)
  Theorem ps_pop_reload specs :
    NoDup (map ps_s_name specs) -> (forall s, In s specs -> ps_pspec_ok fe s) ->
    exists blocks r,
      ps_pop_dump (ps_pop_cur specs) = Some blocks /\ ps_pop_replay fe now blocks (ps_pop_base specs) = (true, r) /\
      map ps_p_name r = map ps_s_name specs /\
      (forall s, In s specs -> exists ro, ps_pop_find (ps_s_name s) r = Some ro /\ ps_pspec_concl s ro).
  Proof.
    intros Hnd Hok.
    destruct (ps_pop_replay_gen ps_s_o0 ps_pspec_concl specs (ps_pop_base specs) Hnd) as (blocks & r & Hd & Hr & Hn & _ & Hall).
    { intros s Hin. split; [apply ps_pop_base_find; assumption | apply ps_pspec_object; apply Hok; exact Hin]. }
    exists blocks, r. repeat split; try assumption. rewrite Hn. unfold ps_pop_base. rewrite map_map. reflexivity.
  Qed.

  (* ---- the whole stop/start cycle: state file (version) + modified-attributes.conf ---- *)
  Definition ps_pspec_concl_restart (s : ps_pspec) (r : ps_mobj) : Prop :=
    (forall p, In p (ps_s_P s) -> ps_get_attr p r = ps_get_attr p (ps_s_cur s)) /\
    (forall q, (forall p, In p (ps_s_P s) -> ps_incomp p q) -> ps_get_attr q r = ps_get_attr q (ps_s_cur s)) /\
    (forall k x, In (k, x) (ps_orig_dict r) <-> In (k, x) (ps_orig_dict (ps_s_cur s))) /\
    ps_m_version r = ps_m_version (ps_s_cur s) /\
    (ps_orig_dict (ps_s_cur s) = [] -> r = ps_set_version (ps_m_version (ps_s_cur s)) (ps_s_o0 s)).

  Lemma ps_state_restore_find specs : NoDup (map ps_s_name specs) ->
    forall s, In s specs ->
    ps_pop_find (ps_s_name s) (ps_state_restore (ps_pop_cur specs) (ps_pop_base specs)) = Some (ps_set_version (ps_m_version (ps_s_cur s)) (ps_s_o0 s)).
  Proof.
    intros Hnd.
    assert (forall s, In s specs -> ps_pop_find (ps_s_name s) (ps_pop_cur specs) = Some (ps_s_cur s)) as Hcur.
    { clear - Hnd. induction specs as [|s0 specs IH]; intros s Hin; [contradiction|]. cbn in Hnd |- *. inversion Hnd; subst.
      destruct Hin as [<-|Hin]; [rewrite ps_key_eqb_refl; reflexivity|].
      rewrite ps_key_eqb_neq; [apply IH; assumption|]. intros E. apply H1. rewrite <- E. apply in_map. exact Hin. }
    unfold ps_state_restore. generalize (ps_pop_cur specs) Hcur. clear Hcur. intros saved Hcur.
    induction specs as [|s0 specs IH]; intros s Hin; [contradiction|]. cbn in Hnd |- *. inversion Hnd; subst.
    destruct Hin as [<-|Hin].
    - rewrite (Hcur s0 (or_introl eq_refl)). cbn. rewrite ps_key_eqb_refl. reflexivity.
    - assert (ps_s_name s <> ps_s_name s0) as Hne by (intros E; apply H1; rewrite <- E; apply in_map; exact Hin).
      destruct (ps_pop_find (ps_s_name s0) saved); cbn; rewrite (ps_key_eqb_neq _ _ Hne);
        (apply IH; [exact H2 | intros s' Hs'; apply Hcur; right; exact Hs' | exact Hin]).
  Qed.

  Lemma ps_state_restore_names saved base : map ps_p_name (ps_state_restore saved base) = map ps_p_name base.
  Proof.
    unfold ps_state_restore. rewrite map_map. apply map_ext. intros b. destruct (ps_pop_find (ps_p_name b) saved); reflexivity.
  Qed.

  (* THE RESTART THEOREM: DumpProgramState of the running population (state file: every object's version;
     modified-attributes.conf), start-up on the population as configured (RestoreObjects, then evaluation of the file):
     nothing throws, and EVERY object - whether it lists modified attributes or not - has its own version, its own values
     on P and on the frame and its own original_attributes entries; an object that lists nothing is the configured
     object with its version *)
  Theorem ps_pop_restart_reload specs :
    NoDup (map ps_s_name specs) -> (forall s, In s specs -> ps_pspec_ok fe s) ->
    exists r,
      ps_pop_restart fe now (ps_pop_cur specs) (ps_pop_base specs) = Some (true, r) /\
      map ps_p_name r = map ps_s_name specs /\
      (forall s, In s specs -> exists ro, ps_pop_find (ps_s_name s) r = Some ro /\ ps_pspec_concl_restart s ro).
  Proof.
    intros Hnd Hok.
    destruct (ps_pop_replay_gen (fun s => ps_set_version (ps_m_version (ps_s_cur s)) (ps_s_o0 s)) ps_pspec_concl_restart specs
                (ps_state_restore (ps_pop_cur specs) (ps_pop_base specs)) Hnd) as (blocks & r & Hd & Hr & Hn & _ & Hall).
    { intros s Hin. split; [apply ps_state_restore_find; assumption|].
      destruct (ps_pspec_object s (Hok s Hin)) as (script & ro & Hdump & Hrep & (C1 & C2 & C3 & C4 & C5) & Hnil).
      destruct (ps_replay_modattrs_version_indep fe script (ps_m_version (ps_s_cur s)) now (ps_s_o0 s)
                  (ps_set_version (ps_m_version (ps_s_cur s)) (ps_s_o0 s)) ro (conj eq_refl eq_refl) Hrep) as (ro' & Hrep' & [Hf Ho] & Hv & Hn').
      exists script, ro'. split; [exact Hdump|]. split; [exact Hrep'|]. split; [|exact Hn'].
      assert (forall q, ps_get_attr q ro' = ps_get_attr q ro) as Hget by (intros q; apply ps_get_attr_same_fields; symmetry; exact Hf).
      assert (ps_orig_dict ro' = ps_orig_dict ro) as Hod by (unfold ps_orig_dict; rewrite Ho; reflexivity).
      split; [intros p Hp; rewrite Hget; apply C1; exact Hp|]. split; [intros q Hq; rewrite Hget; apply C2; exact Hq|].
      split; [intros k x; rewrite Hod; apply C3|].
      assert (script = [] <-> ps_orig_dict (ps_s_cur s) = []) as Hnl by (apply (ps_dump_modattrs_nil _ _ Hdump)).
      split.
      - destruct script as [|l0 sc]; [rewrite (Hn' eq_refl); reflexivity | apply Hv; discriminate].
      - intros He. apply Hn'. apply Hnl. exact He. }
    exists r. unfold ps_pop_restart. rewrite Hd. split; [rewrite Hr; reflexivity|]. split; [|exact Hall].
    rewrite Hn, ps_state_restore_names. unfold ps_pop_base. rewrite map_map. reflexivity.
  Qed.
End PopReload.

(* ---- histories on a population: each object sees exactly its own calls ---- *)
Definition ps_pop_proj (n : ps_key) (H : list ps_pop_op) : list ps_op :=
  flat_map (fun op => if ps_key_eqb n (ps_pop_op_name op)
                      then [match op with PsPMod _ p v t => PsOpMod p v t | PsPRes _ p t => PsOpRes p t end] else []) H.

Lemma ps_pop_run_proj fe n : forall H pop o,
  ps_pop_find n pop = Some o -> ps_pop_find n (ps_pop_run fe pop H) = Some (ps_run fe o (ps_pop_proj n H)).
Proof.
  induction H as [|op H IH]; intros pop o Hf; [exact Hf|].
  cbn [ps_pop_run fold_left ps_pop_proj flat_map]. fold (ps_pop_run fe (ps_pop_apply fe pop op) H). fold (ps_pop_proj n H).
  unfold ps_pop_apply at 1. destruct (ps_key_eqb n (ps_pop_op_name op)) eqn:E.
  - apply ps_key_eqb_eq in E. rewrite <- E, Hf. cbn [app]. unfold ps_run. cbn [fold_left]. fold (ps_run fe).
    apply IH. rewrite (ps_pop_find_set_same _ _ _ _ Hf). destruct op; reflexivity.
  - cbn [app]. apply IH. destruct (ps_pop_find (ps_pop_op_name op) pop); [|exact Hf].
    rewrite ps_pop_find_set_other; [exact Hf|]. intros E'. rewrite E', ps_key_eqb_refl in E. discriminate.
Qed.

Lemma ps_pop_apply_names fe pop op : map ps_p_name (ps_pop_apply fe pop op) = map ps_p_name pop.
Proof. unfold ps_pop_apply. destruct (ps_pop_find (ps_pop_op_name op) pop); [apply ps_pop_set_names | reflexivity]. Qed.

Lemma ps_pop_run_names fe : forall H pop, map ps_p_name (ps_pop_run fe pop H) = map ps_p_name pop.
Proof.
  induction H as [|op H IH]; intros pop; [reflexivity|]. cbn. fold (ps_pop_run fe (ps_pop_apply fe pop op) H).
  rewrite IH. apply ps_pop_apply_names.
Qed.

(* the configured population [cfg] : (name, P, o0) per object *)
Record ps_pcfg := { ps_c_name : ps_key; ps_c_P : list ps_key; ps_c_o0 : ps_mobj }.

Definition ps_pcfg_ok (fe : ps_fenv) (c : ps_pcfg) : Prop :=
  (forall p p', In p (ps_c_P c) -> In p' (ps_c_P c) -> p <> p' -> ps_incomp p p') /\
  (forall p, In p (ps_c_P c) -> ps_cfg_field fe p) /\
  (forall p, In p (ps_c_P c) -> forall fi, ps_filookup fe (ps_field_of p) = Some fi -> ps_fi_nomod fi = false) /\
  (forall p, In p (ps_c_P c) -> forall fi, ps_filookup fe (ps_field_of p) = Some fi ->
     ps_coerce fi (ps_get_attr p (ps_c_o0 c)) = ps_get_attr p (ps_c_o0 c)) /\
  ps_orig_dict (ps_c_o0 c) = [].

Definition ps_pop_cfg (cfg : list ps_pcfg) : ps_pop := map (fun c => {| ps_p_name := ps_c_name c; ps_p_obj := ps_c_o0 c |}) cfg.

Lemma ps_pop_cfg_find cfg : NoDup (map ps_c_name cfg) ->
  forall c, In c cfg -> ps_pop_find (ps_c_name c) (ps_pop_cfg cfg) = Some (ps_c_o0 c).
Proof.
  induction cfg as [|c0 cfg IH]; intros Hnd c Hin; [contradiction|]. cbn in Hnd |- *. inversion Hnd; subst.
  destruct Hin as [<-|Hin]; [rewrite ps_key_eqb_refl; reflexivity|].
  rewrite ps_key_eqb_neq; [apply IH; assumption|]. intros E. apply H1. rewrite <- E. apply in_map. exact Hin.
Qed.

(* a population whose names are those of [cfg], in that order, is the image of a list of specs *)
Lemma ps_pop_as_specs : forall cfg (pop : ps_pop),
  map ps_p_name pop = map ps_c_name cfg ->
  exists specs, ps_pop_cur specs = pop /\ ps_pop_base specs = ps_pop_cfg cfg /\ map ps_s_name specs = map ps_c_name cfg /\
    (forall s, In s specs -> exists c, In c cfg /\ ps_s_name s = ps_c_name c /\ ps_s_P s = ps_c_P c /\ ps_s_o0 s = ps_c_o0 c /\
                                        In {| ps_p_name := ps_c_name c; ps_p_obj := ps_s_cur s |} pop) /\
    (forall c, In c cfg -> exists s, In s specs /\ ps_s_name s = ps_c_name c /\ ps_s_P s = ps_c_P c /\ ps_s_o0 s = ps_c_o0 c).
Proof.
  induction cfg as [|c cfg IH]; intros pop Hn.
  - destruct pop; [|discriminate]. exists []. cbn. repeat split; try reflexivity; intros ? [].
  - destruct pop as [|po pop]; [discriminate|]. cbn in Hn. inversion Hn as [[Hn1 Hn2]].
    destruct (IH pop Hn2) as (specs & Hc & Hb & Hnm & Hall & Hall2).
    exists ({| ps_s_name := ps_c_name c; ps_s_P := ps_c_P c; ps_s_o0 := ps_c_o0 c; ps_s_cur := ps_p_obj po |} :: specs).
    unfold ps_pop_cur, ps_pop_base in *. cbn [map ps_s_name ps_s_cur ps_s_o0 ps_s_P ps_pop_cfg]. rewrite Hc, Hb, Hnm.
    split; [destruct po; cbn in *; subst; reflexivity|]. split; [reflexivity|]. split; [reflexivity|]. split.
    + intros s [<-|Hin].
      * exists c. cbn. split; [left; reflexivity|]. repeat split. left. destruct po; cbn in *; subst; reflexivity.
      * destruct (Hall s Hin) as (c' & H1 & H2 & H3 & H4 & H5). exists c'. split; [right; exact H1|]. repeat split; auto.
        right. exact H5.
    + intros c' [<-|Hin].
      * eexists. split; [left; reflexivity|]. cbn. auto.
      * destruct (Hall2 c' Hin) as (s & H1 & H2). exists s. split; [right; exact H1 | exact H2].
Qed.

Lemma ps_nodup_name_inj cfg : NoDup (map ps_c_name cfg) ->
  forall c c', In c cfg -> In c' cfg -> ps_c_name c = ps_c_name c' -> c = c'.
Proof.
  induction cfg as [|c0 cfg IH]; intros Hnd c c' H1 H2 E; [contradiction|].
  cbn in Hnd. apply NoDup_cons_iff in Hnd. destruct Hnd as [Hni Hnd].
  destruct H1 as [->|H1], H2 as [->|H2]; try reflexivity.
  - exfalso. apply Hni. rewrite E. apply in_map. exact H2.
  - exfalso. apply Hni. rewrite <- E. apply in_map. exact H1.
  - apply IH; assumption.
Qed.

(* POPULATION HISTORIES.  cfg: the population as configured (distinct names; per object a set P of pairwise incomparable
   paths of configuration attributes).  H: ANY interleaving of ModifyAttribute / RestoreAttribute calls on the objects,
   at any times, such that each object's own calls form an allowed history (ps_hist_ok: paths of its P, no modify meets
   a dictionary).  Then DumpModifiedAttributes + evaluation of the file on the configured population succeed and every
   object reads as it did before the restart - its own values on P and on the frame, its own original_attributes
   entries, its own version (whenever it lists anything; otherwise it is exactly the configured object). *)
(* every population reached by such histories is the image of specs that satisfy the per-object premises *)
Lemma ps_pop_history_specs fe cfg H :
  NoDup (map ps_c_name cfg) -> (forall c, In c cfg -> ps_pcfg_ok fe c) ->
  (forall c, In c cfg -> ps_hist_ok fe (ps_c_P c) (ps_c_o0 c) (ps_pop_proj (ps_c_name c) H)) ->
  (forall c, In c cfg -> forall k x, In (k, x) (ps_orig_dict (ps_run fe (ps_c_o0 c) (ps_pop_proj (ps_c_name c) H))) ->
     ps_listed_ok fe (ps_run fe (ps_c_o0 c) (ps_pop_proj (ps_c_name c) H)) k) ->
  exists specs,
    ps_pop_cur specs = ps_pop_run fe (ps_pop_cfg cfg) H /\ ps_pop_base specs = ps_pop_cfg cfg /\
    map ps_s_name specs = map ps_c_name cfg /\ (forall s, In s specs -> ps_pspec_ok fe s) /\
    (forall c, In c cfg -> exists s, In s specs /\ ps_s_name s = ps_c_name c /\ ps_s_P s = ps_c_P c /\ ps_s_o0 s = ps_c_o0 c /\
       ps_pop_find (ps_c_name c) (ps_pop_run fe (ps_pop_cfg cfg) H) = Some (ps_s_cur s)).
Proof.
  intros Hnd Hok Hh Hvals. set (running := ps_pop_run fe (ps_pop_cfg cfg) H).
  assert (map ps_p_name running = map ps_c_name cfg) as Hnames.
  { unfold running. rewrite ps_pop_run_names. unfold ps_pop_cfg. rewrite map_map. reflexivity. }
  destruct (ps_pop_as_specs cfg running Hnames) as (specs & Hc & Hb & Hnm & Hall & Hall2).
  assert (forall c, In c cfg -> ps_pop_find (ps_c_name c) running = Some (ps_run fe (ps_c_o0 c) (ps_pop_proj (ps_c_name c) H))) as Hrun.
  { intros c Hin. unfold running. apply ps_pop_run_proj. apply ps_pop_cfg_find; assumption. }
  assert (NoDup (map ps_p_name running)) as Hndr by (rewrite Hnames; exact Hnd).
  (* In (name, o) of a population with distinct names means find = Some o *)
  assert (forall pop, NoDup (map ps_p_name pop) -> forall po, In po pop -> ps_pop_find (ps_p_name po) pop = Some (ps_p_obj po)) as Hfin.
  { induction pop as [|p0 pop IHp]; intros Hndp po Hin; [contradiction|]. cbn in Hndp |- *. inversion Hndp; subst.
    destruct Hin as [<-|Hin]; [rewrite ps_key_eqb_refl; reflexivity|].
    rewrite ps_key_eqb_neq; [apply IHp; assumption|]. intros E. apply H2. rewrite <- E. apply in_map. exact Hin. }
  assert (forall s, In s specs -> exists c, In c cfg /\ ps_s_name s = ps_c_name c /\ ps_s_P s = ps_c_P c /\ ps_s_o0 s = ps_c_o0 c /\
            ps_s_cur s = ps_run fe (ps_c_o0 c) (ps_pop_proj (ps_c_name c) H)) as Hcur.
  { intros s Hin. destruct (Hall s Hin) as (c & H1 & H2 & H3 & H4 & H5). exists c. repeat split; auto.
    pose proof (Hfin running Hndr _ H5) as Hf. cbn in Hf. rewrite (Hrun c H1) in Hf. inversion Hf. reflexivity. }
  exists specs. split; [exact Hc|]. split; [exact Hb|]. split; [exact Hnm|]. split.
  - intros s Hin. destruct (Hcur s Hin) as (c & H1 & H2 & H3 & H4 & H5).
    destruct (Hok c H1) as (K1 & K2 & K3 & K4 & K5). unfold ps_pspec_ok. rewrite H3, H4, H5.
    split; [exact K1|]. split; [exact K2|]. split; [exact K3|]. split; [exact K4|]. split; [exact K5|]. split.
    + apply (ps_reload_run fe (ps_c_P c) (ps_c_o0 c) K1 K2 K4); [apply ps_reload_inv_init; exact K5 | apply Hh; exact H1].
    + apply Hvals. exact H1.
  - intros c Hin. destruct (Hall2 c Hin) as (s & Hs & E1 & E2 & E3).
    destruct (Hcur s Hs) as (c' & Hc' & F1 & F2 & F3 & F4).
    assert (c' = c) as -> by (apply (ps_nodup_name_inj cfg Hnd); [exact Hc' | exact Hin | rewrite <- F1; exact E1]).
    exists s. split; [exact Hs|]. split; [exact E1|]. split; [exact E2|]. split; [exact E3|]. rewrite F4. apply Hrun. exact Hin.
Qed.

Theorem ps_pop_history_reload fe now cfg H :
  NoDup (map ps_c_name cfg) -> (forall c, In c cfg -> ps_pcfg_ok fe c) ->
  (forall c, In c cfg -> ps_hist_ok fe (ps_c_P c) (ps_c_o0 c) (ps_pop_proj (ps_c_name c) H)) ->
  let running := ps_pop_run fe (ps_pop_cfg cfg) H in
  (forall c, In c cfg -> forall k x, In (k, x) (ps_orig_dict (ps_run fe (ps_c_o0 c) (ps_pop_proj (ps_c_name c) H))) ->
     ps_listed_ok fe (ps_run fe (ps_c_o0 c) (ps_pop_proj (ps_c_name c) H)) k) ->
  exists blocks r,
    ps_pop_dump running = Some blocks /\ ps_pop_replay fe now blocks (ps_pop_cfg cfg) = (true, r) /\
    map ps_p_name r = map ps_c_name cfg /\
    (forall c, In c cfg -> exists cur ro,
       ps_pop_find (ps_c_name c) running = Some cur /\ ps_pop_find (ps_c_name c) r = Some ro /\
       (forall p, In p (ps_c_P c) -> ps_get_attr p ro = ps_get_attr p cur) /\
       (forall q, (forall p, In p (ps_c_P c) -> ps_incomp p q) -> ps_get_attr q ro = ps_get_attr q cur) /\
       (forall k x, In (k, x) (ps_orig_dict ro) <-> In (k, x) (ps_orig_dict cur)) /\
       (ps_orig_dict cur <> [] -> ps_m_version ro = ps_m_version cur) /\
       (ps_orig_dict cur = [] -> ro = ps_c_o0 c)).
Proof.
  intros Hnd Hok Hh running Hvals.
  destruct (ps_pop_history_specs fe cfg H Hnd Hok Hh Hvals) as (specs & Hc & Hb & Hnm & Hsok & Hmap).
  destruct (ps_pop_reload fe now specs) as (blocks & r & Hd & Hr & Hn & Hconcl); [rewrite Hnm; exact Hnd | exact Hsok |].
  exists blocks, r. fold running in Hc. rewrite Hc, Hb in *. split; [exact Hd|]. split; [exact Hr|]. split; [rewrite Hn; exact Hnm|].
  intros c Hin. destruct (Hmap c Hin) as (s & Hs & E1 & E2 & E3 & Hfc).
  destruct (Hconcl s Hs) as (ro & Hfr & C1 & C2 & C3 & C4 & C5).
  exists (ps_s_cur s), ro. split; [exact Hfc|]. rewrite <- E1. split; [exact Hfr|].
  rewrite <- E2, <- E3. repeat split; try assumption; try apply C3.
Qed.

(* the same histories followed by the whole stop/start cycle (state file + modified-attributes.conf): every object has
   ITS OWN version back whether or not it lists modified attributes *)
Theorem ps_pop_history_restart fe now cfg H :
  NoDup (map ps_c_name cfg) -> (forall c, In c cfg -> ps_pcfg_ok fe c) ->
  (forall c, In c cfg -> ps_hist_ok fe (ps_c_P c) (ps_c_o0 c) (ps_pop_proj (ps_c_name c) H)) ->
  let running := ps_pop_run fe (ps_pop_cfg cfg) H in
  (forall c, In c cfg -> forall k x, In (k, x) (ps_orig_dict (ps_run fe (ps_c_o0 c) (ps_pop_proj (ps_c_name c) H))) ->
     ps_listed_ok fe (ps_run fe (ps_c_o0 c) (ps_pop_proj (ps_c_name c) H)) k) ->
  exists r,
    ps_pop_restart fe now running (ps_pop_cfg cfg) = Some (true, r) /\
    map ps_p_name r = map ps_c_name cfg /\
    (forall c, In c cfg -> exists cur ro,
       ps_pop_find (ps_c_name c) running = Some cur /\ ps_pop_find (ps_c_name c) r = Some ro /\
       (forall p, In p (ps_c_P c) -> ps_get_attr p ro = ps_get_attr p cur) /\
       (forall q, (forall p, In p (ps_c_P c) -> ps_incomp p q) -> ps_get_attr q ro = ps_get_attr q cur) /\
       (forall k x, In (k, x) (ps_orig_dict ro) <-> In (k, x) (ps_orig_dict cur)) /\
       ps_m_version ro = ps_m_version cur /\
       (ps_orig_dict cur = [] -> ro = ps_set_version (ps_m_version cur) (ps_c_o0 c))).
Proof.
  intros Hnd Hok Hh running Hvals.
  destruct (ps_pop_history_specs fe cfg H Hnd Hok Hh Hvals) as (specs & Hc & Hb & Hnm & Hsok & Hmap).
  destruct (ps_pop_restart_reload fe now specs) as (r & Hr & Hn & Hconcl); [rewrite Hnm; exact Hnd | exact Hsok |].
  exists r. fold running in Hc. rewrite Hc, Hb in *. split; [exact Hr|]. split; [rewrite Hn; exact Hnm|].
  intros c Hin. destruct (Hmap c Hin) as (s & Hs & E1 & E2 & E3 & Hfc).
  destruct (Hconcl s Hs) as (ro & Hfr & C1 & C2 & C3 & C4 & C5).
  exists (ps_s_cur s), ro. split; [exact Hfc|]. rewrite <- E1. split; [exact Hfr|].
  rewrite <- E2, <- E3. repeat split; try assumption; try apply C3.
Qed.

(* ---- non-vacuity: three objects, calls interleaved at different times; the blocks carry each object's own version and
   the reloaded objects have their own version back; the object that restored everything has no block ---- *)
Definition ps_v_cfg : list ps_pcfg :=
  [{| ps_c_name := [49]; ps_c_P := ps_q_P; ps_c_o0 := ps_q_o0 |};
   {| ps_c_name := [50]; ps_c_P := ps_q_P; ps_c_o0 := ps_q_o0 |};
   {| ps_c_name := [51]; ps_c_P := ps_q_P; ps_c_o0 := ps_q_o0 |}].
Definition ps_v_H : list ps_pop_op :=
  [PsPMod [49] ps_q_a (PsNum 6 0) 5%Z; PsPMod [50] ps_q_n (PsStr [121]) 7%Z; PsPMod [51] ps_q_bc (PsNum 1 0) 8%Z;
   PsPMod [49] ps_q_xyz (PsStr [104]) 9%Z; PsPRes [51] ps_q_bc 11%Z; PsPMod [50] ps_q_a (PsNum 1234567 7) 12%Z].

Example ps_pop_reload_nonvacuous :
  let running := ps_pop_run ps_q_fe (ps_pop_cfg ps_v_cfg) ps_v_H in
  (forall c, In c ps_v_cfg -> ps_hist_ok ps_q_fe (ps_c_P c) (ps_c_o0 c) (ps_pop_proj (ps_c_name c) ps_v_H)) /\
  match ps_pop_dump running with
  | Some blocks =>
    map (fun b => (ps_b_name b, length (ps_b_lines b), ps_b_version b)) blocks = [([49], 2%nat, 9%Z); ([50], 2%nat, 12%Z)] /\
    map (fun po => ps_m_version (ps_p_obj po)) (snd (ps_pop_replay ps_q_fe 99%Z blocks (ps_pop_cfg ps_v_cfg))) = [9%Z; 12%Z; 0%Z] /\
    fst (ps_pop_replay ps_q_fe 99%Z blocks (ps_pop_cfg ps_v_cfg)) = true
  | None => False
  end /\
  map (fun po => ps_m_version (ps_p_obj po)) running = [9%Z; 12%Z; 11%Z].
Proof.
  split; [|vm_compute; repeat split; reflexivity].
  intros c [<-|[<-|[<-|[]]]]; vm_compute; repeat split; auto 10.
Qed.
