(* C14 - histories with DUMP as an operation: the content of modified-attributes.conf is part of the state.  After any
   history of modify / restore / dump operations, the file holds the script dumped at the LAST dump, and replaying it on
   the configured object yields the attribute values the object had at that dump; if everything had been restored by
   then, the script is empty and the replay changes nothing. *)
From Icv Require Import Base.Tac Persist.PsValue Persist.PsModel Persist.PsValueProofs Persist.PsRestoreProofs
  Persist.PsFrameProofs Persist.PsSeqProofs Persist.PsSpineProofs Persist.PsReloadProofs.
From Coq Require Import NArith.
Local Open Scope N_scope.

Inductive ps_hop := PsHOp (op : ps_op) | PsHDump.

(* the object, and the script in modified-attributes.conf (None: no file yet) *)
Definition ps_hstate : Type := ps_mobj * option (list (ps_key * ps_value)).

Definition ps_hstep (fe : ps_fenv) (s : ps_hstate) (h : ps_hop) : ps_hstate :=
  match h with
  | PsHOp op => (snd (ps_apply fe (fst s) op), snd s)
  | PsHDump =>
    match ps_dump_modattrs (fst s) with
    | Some script => (fst s, Some script)          (* AtomicFile::Commit: the file is replaced, also by an empty script *)
    | None => s                                     (* exception: the temp file is discarded, the old file stays *)
    end
  end.

Definition ps_hrun (fe : ps_fenv) (s : ps_hstate) (H : list ps_hop) : ps_hstate := fold_left (ps_hstep fe) H s.

Definition ps_is_dump (h : ps_hop) : bool := match h with PsHDump => true | _ => false end.

Section History.
  Variable fe : ps_fenv.
  Variable P : list ps_key.
  Variable o0 : ps_mobj.
  Hypothesis HPinc : forall p p', In p P -> In p' P -> p <> p' -> ps_incomp p p'.
  Hypothesis HPcfg : forall p, In p P -> ps_cfg_field fe p.
  Hypothesis HPmod : forall p, In p P -> forall fi, ps_filookup fe (ps_field_of p) = Some fi -> ps_fi_nomod fi = false.
  Hypothesis HPtyp : forall p, In p P -> forall fi, ps_filookup fe (ps_field_of p) = Some fi ->
                                          ps_coerce fi (ps_get_attr p o0) = ps_get_attr p o0.

  (* visible hypotheses on a history: calls on paths of P, no modify meets a dictionary, and at every dump the listed
     values can be written (<= 6 fractional digits, top-level values of the field's type) *)
  Fixpoint ps_hhist_ok (o : ps_mobj) (H : list ps_hop) : Prop :=
    match H with
    | [] => True
    | PsHOp op :: t =>
      In (ps_op_path op) P /\
      (match op with PsOpMod p _ _ => ps_is_dict (ps_get_attr p o) = false | PsOpRes _ _ => True end) /\
      ps_hhist_ok (snd (ps_apply fe o op)) t
    | PsHDump :: t =>
      (forall k x, In (k, x) (ps_orig_dict o) -> ps_listed_ok fe o k) /\ ps_hhist_ok o t
    end.

  Definition ps_file_inv (pre : list ps_hop) (s : ps_hstate) : Prop :=
    s = ps_hrun fe (o0, None) pre /\
    ps_reload_inv P o0 (fst s) /\
    match snd s with
    | None => forallb (fun h => negb (ps_is_dump h)) pre = true
    | Some script =>
      exists H1 H2, pre = H1 ++ PsHDump :: H2 /\ forallb (fun h => negb (ps_is_dump h)) H2 = true /\
        let od := fst (ps_hrun fe (o0, None) H1) in
        ps_reload_inv P o0 od /\ (forall k x, In (k, x) (ps_orig_dict od) -> ps_listed_ok fe od k) /\
        ps_dump_modattrs od = Some script
    end.

  Lemma ps_hrun_app s a b : ps_hrun fe s (a ++ b) = ps_hrun fe (ps_hrun fe s a) b.
  Proof. unfold ps_hrun. apply fold_left_app. Qed.

  Lemma ps_dump_of_inv o : ps_reload_inv P o0 o ->
    ps_dump_modattrs o = Some (map (fun k => (k, ps_get_attr k o)) (map fst (ps_orig_dict o))).
  Proof.
    intros ((_ & Hsp) & _ & _). unfold ps_dump_modattrs. apply ps_dump_keys_spine.
    intros k Hin. apply in_map_iff in Hin. destruct Hin as ([k' x] & <- & Hin). exact (Hsp k' x Hin).
  Qed.

  Lemma ps_file_run : forall H pre s,
    ps_file_inv pre s -> ps_hhist_ok (fst s) H -> ps_file_inv (pre ++ H) (ps_hrun fe s H).
  Proof.
    induction H as [|h H IH]; intros pre s Hinv Hok; [rewrite app_nil_r; exact Hinv|].
    replace (pre ++ h :: H) with ((pre ++ [h]) ++ H) by (rewrite <- app_assoc; reflexivity).
    cbn [ps_hrun fold_left]. change (fold_left (ps_hstep fe) H (ps_hstep fe s h)) with (ps_hrun fe (ps_hstep fe s h) H).
    destruct Hinv as (Hs & Hrl & Hfile).
    assert (ps_hstep fe s h = ps_hrun fe (o0, None) (pre ++ [h])) as Hs' by (rewrite ps_hrun_app, <- Hs; reflexivity).
    destruct h as [op|].
    - destruct Hok as (Hp & Hnd & Hrest). apply IH; [|exact Hrest].
      split; [exact Hs'|]. split; [cbn; apply (ps_reload_step fe P o0 HPinc HPcfg HPtyp); assumption|].
      cbn [ps_hstep snd]. destruct (snd s) as [script|]; [|rewrite forallb_app, Hfile; reflexivity].
      destruct Hfile as (H1 & H2 & Hpre & Hnod & Hod). exists H1, (H2 ++ [PsHOp op]). split; [|split; [|exact Hod]].
      + rewrite Hpre, <- app_assoc. reflexivity.
      + rewrite forallb_app, Hnod. reflexivity.
    - destruct Hok as (Hlisted & Hrest).
      pose proof (ps_dump_of_inv (fst s) Hrl) as Hd.
      assert (ps_hstep fe s PsHDump = (fst s, Some (map (fun k => (k, ps_get_attr k (fst s))) (map fst (ps_orig_dict (fst s)))))) as Hstep
        by (cbn; rewrite Hd; reflexivity).
      rewrite Hstep in Hs' |- *. apply IH; [|exact Hrest].
      split; [exact Hs'|]. split; [exact Hrl|]. cbn [snd].
      exists pre, []. split; [reflexivity|]. split; [reflexivity|].
      rewrite <- Hs. split; [exact Hrl|]. split; [exact Hlisted | exact Hd].
  Qed.

  (* THE HISTORY THEOREM *)
  Theorem ps_history_reload H ver now :
    ps_orig_dict o0 = [] -> ps_hhist_ok o0 H ->
    match snd (ps_hrun fe (o0, None) H) with
    | None => forallb (fun h => negb (ps_is_dump h)) H = true                 (* no file: nothing was ever dumped *)
    | Some script =>
      exists H1 H2, H = H1 ++ PsHDump :: H2 /\ forallb (fun h => negb (ps_is_dump h)) H2 = true /\   (* the LAST dump *)
        let od := fst (ps_hrun fe (o0, None) H1) in
        ps_dump_modattrs od = Some script /\
        exists r, ps_replay_modattrs fe script ver now o0 = (true, r) /\
          (forall p, In p P -> ps_get_attr p r = ps_get_attr p od) /\
          (forall q, (forall p, In p P -> ps_incomp p q) -> ps_get_attr q r = ps_get_attr q od) /\
          (forall k x, In (k, x) (ps_orig_dict r) <-> In (k, x) (ps_orig_dict od)) /\
          (ps_orig_dict od = [] -> script = [] /\ r = o0)                     (* everything restored: replays to nothing *)
    end.
  Proof.
    intros H0 Hok.
    assert (ps_file_inv [] (o0, None)) as Hinv0
      by (split; [reflexivity|]; split; [apply ps_reload_inv_init; exact H0 | reflexivity]).
    pose proof (ps_file_run H [] (o0, None) Hinv0 Hok) as (Hs & Hrl & Hfile). cbn [app] in Hs, Hfile.
    destruct (snd (ps_hrun fe (o0, None) H)) as [script|] eqn:Efile.
    - destruct Hfile as (H1 & H2 & Hpre & Hnod & Hod & Hlisted & Hdump).
      exists H1, H2. split; [exact Hpre|]. split; [exact Hnod|]. cbv zeta. split; [exact Hdump|].
      destruct (ps_reload_roundtrip fe P o0 HPinc HPcfg HPmod HPtyp _ Hod now Hlisted ver H0)
        as (script' & r & Hd' & Hrep & HgP & HgQ & Horig & _ & Hempty).
      rewrite Hdump in Hd'. inversion Hd'; subst script'.
      exists r. repeat split; try assumption; try (apply Horig); apply Hempty; assumption.
    - exact Hfile.
  Qed.
End History.

(* non-vacuity: modify two nested paths and a top-level attribute, dump, restore everything, dump again:
   all hypotheses hold, the first script has three lines, the last one is empty *)
Definition ps_y_H : list ps_hop :=
  [PsHOp (PsOpMod ps_q_a (PsNum 123456 6) 1%Z); PsHOp (PsOpMod ps_q_bc (PsDict [([107], PsStr [118])]) 2%Z);
   PsHOp (PsOpMod ps_q_n (PsStr [121]) 3%Z); PsHDump;
   PsHOp (PsOpRes ps_q_bc 4%Z); PsHOp (PsOpRes ps_q_n 5%Z); PsHOp (PsOpRes ps_q_a 6%Z); PsHDump].

Example ps_history_reload_nonvacuous :
  ps_hhist_ok ps_q_fe ps_q_P ps_q_o0 ps_y_H /\
  snd (ps_hrun ps_q_fe (ps_q_o0, None) (firstn 4 ps_y_H))
    = Some [(ps_q_n, PsStr [121]); (ps_q_a, PsNum 123456 6); (ps_q_bc, PsDict [([107], PsStr [118])])] /\
  snd (ps_hrun ps_q_fe (ps_q_o0, None) ps_y_H) = Some [].
Proof.
  split; [|split; vm_compute; reflexivity].
  cbn [ps_y_H ps_hhist_ok ps_op_path]. repeat match goal with |- _ /\ _ => split end;
    try (vm_compute; auto 10; fail); try exact I.
  - intros k x Hin. vm_compute in Hin.
    destruct Hin as [Hin|[Hin|[Hin|[]]]]; inversion Hin; subst; clear Hin;
      (split; [vm_compute; reflexivity|]);
      intros Ht; try (vm_compute in Ht; discriminate).
    intros fi Hfi. vm_compute in Hfi. inversion Hfi; subst. split; reflexivity.
  - intros k x Hin. vm_compute in Hin. contradiction.
Qed.
