(* C14 - the atomic-write theorem: at every prefix of AtomicFile's system-call trace the final path holds the
   complete old or the complete new content, and the oracle used on observed traces accepts the model's trace. *)
From Icv Require Import Base.Tac Persist.PsValue Persist.PsModel.
From Coq Require Import NArith.
Local Open Scope N_scope.

Definition ps_keeps_final (c : ps_syscall) : Prop :=
  match c with PsRename _ | PsTruncFinal | PsWriteFinal _ | PsUnlinkFinal => False | _ => True end.

Lemma ps_step_keeps_final s c : ps_keeps_final c -> ps_fs_final (ps_fs_step s c) = ps_fs_final s.
Proof.
  destruct c; cbn; intros H; try contradiction; try reflexivity.
  destruct (ps_tget t (ps_fs_temps s)); reflexivity.
Qed.

Lemma ps_run_keeps_final tr : forall s, Forall ps_keeps_final tr -> ps_fs_final (ps_fs_run s tr) = ps_fs_final s.
Proof.
  induction tr as [|c tr IH]; intros s H; cbn; [reflexivity|].
  inversion H; subst. unfold ps_fs_run in IH. rewrite IH by assumption. apply ps_step_keeps_final. assumption.
Qed.

Lemma ps_run_app s a b : ps_fs_run s (a ++ b) = ps_fs_run (ps_fs_run s a) b.
Proof. unfold ps_fs_run. apply fold_left_app. Qed.

Lemma ps_tget_head t c ts : ps_tget t ((t, c) :: ts) = Some c.
Proof. cbn. rewrite N.eqb_refl. reflexivity. Qed.

Lemma ps_run_writes t chunks : forall s w,
  ps_tget t (ps_fs_temps s) = Some w ->
  ps_tget t (ps_fs_temps (ps_fs_run s (map (PsWriteTemp t) chunks))) = Some (w ++ concat chunks).
Proof.
  induction chunks as [|b chunks IH]; intros s w H; cbn.
  - rewrite app_nil_r. assumption.
  - rewrite H. unfold ps_fs_run in IH. rewrite (IH _ (w ++ b)).
    + rewrite app_assoc. reflexivity.
    + cbn. rewrite N.eqb_refl. reflexivity.
Qed.

Definition ps_body (stale : list N) (t : N) (chunks : list (list N)) : list ps_syscall :=
  map PsUnlinkTemp stale ++ [PsOpenTemp t; PsChmodTemp t] ++ map (PsWriteTemp t) chunks ++ [PsFsyncTemp t; PsCloseTemp t].

Lemma ps_persist_trace_split stale t chunks :
  ps_persist_trace stale t chunks = ps_body stale t chunks ++ [PsRename t].
Proof.
  unfold ps_persist_trace, ps_atomic_trace, ps_body. cbn. repeat rewrite <- app_assoc. cbn.
  f_equal. f_equal. f_equal. rewrite <- app_assoc. reflexivity.
Qed.

Lemma ps_body_keeps stale t chunks : Forall ps_keeps_final (ps_body stale t chunks).
Proof.
  unfold ps_body. repeat (apply Forall_app; split).
  - apply Forall_forall. intros c Hc. apply in_map_iff in Hc. destruct Hc as (x & <- & _). exact I.
  - repeat constructor.
  - apply Forall_forall. intros c Hc. apply in_map_iff in Hc. destruct Hc as (x & <- & _). exact I.
  - repeat constructor.
Qed.

Lemma ps_body_content s stale t chunks :
  ps_tget t (ps_fs_temps (ps_fs_run s (ps_body stale t chunks))) = Some (concat chunks).
Proof.
  unfold ps_body. rewrite ps_run_app. set (s1 := ps_fs_run s (map PsUnlinkTemp stale)).
  change ([PsOpenTemp t; PsChmodTemp t] ++ map (PsWriteTemp t) chunks ++ [PsFsyncTemp t; PsCloseTemp t])
    with ([PsOpenTemp t; PsChmodTemp t] ++ (map (PsWriteTemp t) chunks ++ [PsFsyncTemp t; PsCloseTemp t])).
  rewrite ps_run_app. rewrite ps_run_app.
  set (s2 := ps_fs_run s1 [PsOpenTemp t; PsChmodTemp t]).
  assert (ps_tget t (ps_fs_temps s2) = Some []) as H2 by (cbn; rewrite N.eqb_refl; reflexivity).
  pose proof (ps_run_writes t chunks s2 [] H2) as H3. cbn [app] in H3.
  cbn. exact H3.
Qed.

Lemma ps_full_run s stale t chunks :
  ps_fs_final (ps_fs_run s (ps_persist_trace stale t chunks)) = Some (concat chunks).
Proof.
  rewrite ps_persist_trace_split, ps_run_app. cbn. rewrite ps_body_content. reflexivity.
Qed.

Lemma ps_prefix_cases {A} (l1 l2 pre : list A) (x : A) :
  l1 ++ l2 = pre ++ [x] -> (l2 = [] /\ l1 = pre ++ [x]) \/ (exists l2', l1 ++ l2' = pre).
Proof.
  intros H. destruct l2 as [|y l2] using rev_ind.
  - left. rewrite app_nil_r in H. split; [reflexivity|assumption].
  - right. clear IHl2. rewrite app_assoc in H. apply app_inj_tail in H. destruct H as [H _]. exists l2. assumption.
Qed.

Theorem ps_atomic_prefix old temps stale t chunks n :
  let s := ps_fs_run {| ps_fs_final := old; ps_fs_temps := temps |} (firstn n (ps_persist_trace stale t chunks)) in
  (ps_fs_final s = old \/ ps_fs_final s = Some (concat chunks)) /\ (old <> None -> ps_fs_final s <> None) /\
  ps_fs_final (ps_fs_run {| ps_fs_final := old; ps_fs_temps := temps |} (ps_persist_trace stale t chunks)) = Some (concat chunks).
Proof.
  cbv zeta. set (s0 := {| ps_fs_final := old; ps_fs_temps := temps |}).
  pose proof (firstn_skipn n (ps_persist_trace stale t chunks)) as Hsplit.
  rewrite ps_persist_trace_split in Hsplit at 3.
  destruct (ps_prefix_cases _ _ _ _ Hsplit) as [[_ Hall] | [l2' Hpre]].
  - rewrite Hall, <- ps_persist_trace_split, ps_full_run. repeat split; [right; reflexivity | discriminate].
  - assert (Forall ps_keeps_final (firstn n (ps_persist_trace stale t chunks))) as Hk.
    { pose proof (ps_body_keeps stale t chunks) as Hb. rewrite <- Hpre in Hb. apply Forall_app in Hb. tauto. }
    rewrite (ps_run_keeps_final _ s0 Hk). cbn. repeat split; [left; reflexivity | tauto | apply ps_full_run].
Qed.

(* ---- the oracle for observed traces accepts the model's own trace ---- *)
Lemma ps_content_eqb_refl a : ps_content_eqb a a = true.
Proof.
  destruct a as [x|]; cbn; [|reflexivity]. induction x as [|c x IH]; cbn; [reflexivity|]. rewrite N.eqb_refl. assumption.
Qed.

Lemma ps_atomic_check_ok old new : forall tr s n,
  (forall k, let s' := ps_fs_run s (firstn k tr) in ps_fs_final s' = old \/ ps_fs_final s' = Some new) ->
  ps_atomic_check old new s tr n = None.
Proof.
  induction tr as [|c tr IH]; intros s n H.
  - cbn. destruct (H 0%nat) as [E|E]; cbn in E; rewrite E, ps_content_eqb_refl; [reflexivity | rewrite orb_true_r; reflexivity].
  - cbn [ps_atomic_check].
    destruct (H 0%nat) as [E|E]; cbn in E; rewrite E, ps_content_eqb_refl; cbn [negb orb];
      try rewrite orb_true_r; cbn [negb]; apply IH; intros k; exact (H (S k)).
Qed.

Lemma ps_written_atomic t chunks : ps_written t (ps_atomic_trace t chunks) = concat chunks.
Proof.
  unfold ps_written, ps_atomic_trace. cbn. rewrite map_app, concat_app. cbn. rewrite app_nil_r.
  induction chunks as [|b chunks IH]; cbn; [reflexivity|]. rewrite N.eqb_refl. f_equal. exact IH.
Qed.

Theorem ps_oracle_atomic_accepts old t chunks :
  ps_oracle_atomic old t (ps_atomic_trace t chunks) = None.
Proof.
  unfold ps_oracle_atomic. rewrite ps_written_atomic.
  change (ps_atomic_trace t chunks) with (ps_persist_trace [] t chunks).
  rewrite ps_atomic_check_ok.
  - rewrite ps_full_run, ps_content_eqb_refl. reflexivity.
  - intros k. pose proof (ps_atomic_prefix old [] [] t chunks k) as (H & _). exact H.
Qed.

(* a writer that truncates and rewrites the final path in place is rejected at the first prefix *)
Example ps_oracle_atomic_rejects_inplace :
  ps_oracle_atomic (Some [1]) 1 [PsTruncFinal; PsWriteFinal [2]] <> None.
Proof. vm_compute. discriminate. Qed.
