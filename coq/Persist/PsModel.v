(* C14 - persistence model (definitions only).
   (i)   Serialize / Deserialize of state attributes (lib/base/serializer.cpp:155-331), the state file as a
         sequence of {type,name,update} records (lib/base/configobject.cpp:461-588);
   (ii)  ConfigObject::ModifyAttribute / RestoreAttribute (lib/base/configobject.cpp:92-316), statement by
         statement; DumpModifiedAttributes (610-673) and its replay; ConfigWriter::EmitNumber on decimals;
   (iii) the system-call model of AtomicFile (lib/base/atomic-file.cpp) with crash = prefix of the trace. *)
From Icv Require Import Base.Tac Persist.PsValue Facts.Facts_c17.
From Coq Require Import NArith.
Local Open Scope N_scope.

(* ===================================================================== (i) serializer *)

Record ps_fdesc := { ps_fd_name : ps_key; ps_fd_attr : N; ps_fd_default : ps_value }.
Definition ps_tenv := list (ps_key * list ps_fdesc).

Definition ps_FAConfig : N := 2.
Definition ps_FAState : N := 4.

Fixpoint ps_tlookup (env : ps_tenv) (tn : ps_key) : option (list ps_fdesc) :=
  match env with
  | [] => None
  | (n, fs) :: t => if ps_key_eqb tn n then Some fs else ps_tlookup t tn
  end.

Fixpoint ps_flookup (fs : list ps_fdesc) (k : ps_key) : option ps_fdesc :=
  match fs with
  | [] => None
  | f :: t => if ps_key_eqb k (ps_fd_name f) then Some f else ps_flookup t k
  end.

Definition ps_fattr (env : ps_tenv) (tn k : ps_key) : N :=
  match ps_tlookup env tn with
  | Some fs => match ps_flookup fs k with Some f => ps_fd_attr f | None => 0 end
  | None => 0
  end.

(* SerializeObject's field filter: "attributeTypes != 0 && (field.Attributes & attributeTypes) == 0 -> skip",
   "field named type -> skip" *)
Definition ps_ser_keep (env : ps_tenv) (mask : N) (tn k : ps_key) : bool :=
  ((mask =? 0) || negb (N.land (ps_fattr env tn k) mask =? 0)) && negb (ps_key_eqb k ps_type_key).

(* SerializeInternal.  The dictionary built by SerializeObject lists the kept fields in field order followed
   by "type" (std::map would order them by key; DeserializeObject's per-key effects on distinct fields
   commute, nothing observable depends on that order). *)
Fixpoint ps_serialize (env : ps_tenv) (mask : N) (v : ps_value) {struct v} : ps_value :=
  match v with
  | PsArr l => PsArr (map (ps_serialize env mask) l)
  | PsDict d =>
    PsDict ((fix go (d : ps_dict) : ps_dict :=
               match d with [] => [] | (k, x) :: t => (k, ps_serialize env mask x) :: go t end) d)
  | PsObj tn fs =>
    PsDict ((fix go (d : ps_dict) : ps_dict :=
               match d with
               | [] => [(ps_type_key, PsStr tn)]
               | (k, x) :: t => if ps_ser_keep env mask tn k then (k, ps_serialize env mask x) :: go t else go t
               end) fs)
  | _ => v
  end.

(* SetField on an existing field (the field list of an object never grows) *)
Fixpoint ps_fset (k : ps_key) (v : ps_value) (fs : ps_dict) : ps_dict :=
  match fs with
  | [] => []
  | (k', v') :: t => if ps_key_eqb k k' then (k, v) :: t else (k', v') :: ps_fset k v t
  end.

Definition ps_instantiate (fs : list ps_fdesc) : ps_dict :=
  map (fun f => (ps_fd_name f, ps_fd_default f)) fs.

(* Type::GetByName(input->Get("type")): only a string names a type *)
Definition ps_type_of (env : ps_tenv) (d : ps_dict) : option (ps_key * list ps_fdesc) :=
  match ps_dget ps_type_key d with
  | PsStr tn => match ps_tlookup env tn with Some fs => Some (tn, fs) | None => None end
  | _ => None
  end.

(* DeserializeObject's loop body for one key (value already deserialized) *)
Definition ps_deser_field (fds : list ps_fdesc) (mask : N) (inst : ps_dict) (k : ps_key) (x : ps_value) : ps_dict :=
  match k with
  | [] => inst
  | _ => match ps_flookup fds k with
         | None => inst
         | Some f => if N.land (ps_fd_attr f) mask =? 0 then inst else ps_fset k x inst
         end
  end.

(* Deserialize(value, safe_mode = false, mask): a dictionary that has a key "type" is taken for a
   serialised object (serializer.cpp:327-330) *)
Fixpoint ps_deserialize (env : ps_tenv) (mask : N) (v : ps_value) {struct v} : ps_value :=
  match v with
  | PsArr l => PsArr (map (ps_deserialize env mask) l)
  | PsDict d =>
    if ps_dcontains ps_type_key d then
      match ps_type_of env d with
      | None => PsEmpty                                        (* "if (!type) return object;" with object = null *)
      | Some (tn, fds) =>
        PsObj tn ((fix go (d : ps_dict) (inst : ps_dict) : ps_dict :=
                     match d with
                     | [] => inst
                     | (k, x) :: t => go t (ps_deser_field fds mask inst k (ps_deserialize env mask x))
                     end) d (ps_instantiate fds))
      end
    else
      PsDict ((fix go (d : ps_dict) : ps_dict :=
                 match d with [] => [] | (k, x) :: t => (k, ps_deserialize env mask x) :: go t end) d)
  | _ => v
  end.

(* a configuration object of the population *)
Record ps_cobj := { ps_o_type : ps_key; ps_o_name : ps_key; ps_o_fields : ps_dict }.

Definition ps_name_key : ps_key := [110; 97; 109; 101].
Definition ps_update_key : ps_key := [117; 112; 100; 97; 116; 101].

(* one record of the state file: {"name":..,"type":..,"update": Serialize(object, mask)} *)
Definition ps_dump_object (env : ps_tenv) (mask : N) (o : ps_cobj) : ps_value :=
  PsDict [(ps_name_key, PsStr (ps_o_name o)); (ps_type_key, PsStr (ps_o_type o));
          (ps_update_key, ps_serialize env mask (PsObj (ps_o_type o) (ps_o_fields o)))].

Definition ps_dump_objects (env : ps_tenv) (mask : N) (objs : list ps_cobj) : list ps_value :=
  map (ps_dump_object env mask) objs.

(* Deserialize(object, update, false, mask) with an existing object (RestoreObject) *)
Definition ps_deser_into (env : ps_tenv) (mask : N) (o : ps_cobj) (update : ps_value) : ps_cobj :=
  match update with
  | PsDict d =>
    if ps_dcontains ps_type_key d then
      match ps_tlookup env (ps_o_type o) with
      | None => o
      | Some fds =>
        {| ps_o_type := ps_o_type o; ps_o_name := ps_o_name o;
           ps_o_fields := fold_left (fun inst kx => ps_deser_field fds mask inst (fst kx) (ps_deserialize env mask (snd kx)))
                                    d (ps_o_fields o) |}
      end
    else o
  | _ => o
  end.

Definition ps_same_id (ty nm : ps_key) (o : ps_cobj) : bool :=
  ps_key_eqb ty (ps_o_type o) && ps_key_eqb nm (ps_o_name o).

(* ConfigObject::RestoreObject: look the object up by (type, name); unknown objects are skipped *)
Fixpoint ps_restore_into (env : ps_tenv) (mask : N) (ty nm : ps_key) (update : ps_value) (pop : list ps_cobj) : list ps_cobj :=
  match pop with
  | [] => []
  | o :: t => if ps_same_id ty nm o then ps_deser_into env mask o update :: t
              else o :: ps_restore_into env mask ty nm update t
  end.

Definition ps_restore_record (env : ps_tenv) (mask : N) (pop : list ps_cobj) (rec : ps_value) : list ps_cobj :=
  match rec with
  | PsDict d =>
    match ps_dget ps_type_key d, ps_dget ps_name_key d with
    | PsStr ty, PsStr nm => ps_restore_into env mask ty nm (ps_dget ps_update_key d) pop
    | _, _ => pop
    end
  | _ => pop
  end.

Definition ps_restore_objects (env : ps_tenv) (mask : N) (file : list ps_value) (pop : list ps_cobj) : list ps_cobj :=
  fold_left (ps_restore_record env mask) file pop.

(* values on which the F-C14-b rule cannot strike: no dictionary anywhere has a key "type"; reflected
   objects are of a known type, carry exactly that type's fields, all of them persisted under [mask] *)
Fixpoint ps_clean (env : ps_tenv) (mask : N) (v : ps_value) {struct v} : bool :=
  match v with
  | PsArr l => forallb (ps_clean env mask) l
  | PsDict d =>
    negb (ps_dcontains ps_type_key d) &&
    (fix go (d : ps_dict) : bool := match d with [] => true | (_, x) :: t => ps_clean env mask x && go t end) d
  | PsObj tn fs =>
    match ps_tlookup env tn with
    | None => false
    | Some fds =>
      ps_deqb (map (fun kx => (fst kx, PsEmpty)) fs) (map (fun f => (ps_fd_name f, PsEmpty)) fds) &&
      forallb (fun f => ps_ser_keep env mask tn (ps_fd_name f) && negb (N.land (ps_fd_attr f) mask =? 0) &&
                        negb (ps_key_eqb (ps_fd_name f) [])) fds &&
      (fix go (d : ps_dict) : bool := match d with [] => true | (_, x) :: t => ps_clean env mask x && go t end) fs
    end
  | _ => true
  end.

(* ===================================================================== (ii) modify / restore *)

(* field kind: 0 = Value (anything), 1 = Dictionary::Ptr, 2 = double, 3 = String *)
Record ps_finfo := { ps_fi_config : bool; ps_fi_nomod : bool; ps_fi_kind : N }.
Definition ps_fenv := list (ps_key * ps_finfo).

Fixpoint ps_filookup (fe : ps_fenv) (k : ps_key) : option ps_finfo :=
  match fe with
  | [] => None
  | (n, fi) :: t => if ps_key_eqb k n then Some fi else ps_filookup t k
  end.

Record ps_mobj := { ps_m_fields : ps_dict; ps_m_orig : option ps_dict; ps_m_version : Z }.

(* the walk of ModifyAttribute (lines 126-147): intermediate keys must lead through dictionaries, missing
   ones are created; yields the old leaf value / the updated clone; None = "Value must be a dictionary." *)
Fixpoint ps_nest_old (ks : list ps_key) (l : ps_key) (cur : ps_value) : option ps_value :=
  match cur with
  | PsDict d =>
    match ks with
    | [] => Some (ps_dget l d)
    | k :: ks' => ps_nest_old ks' l (match ps_dget_opt k d with Some c => c | None => PsDict [] end)
    end
  | _ => None
  end.

Fixpoint ps_nest_set (ks : list ps_key) (l : ps_key) (v : ps_value) (cur : ps_value) : option ps_value :=
  match cur with
  | PsDict d =>
    match ks with
    | [] => Some (PsDict (ps_dset l v d))
    | k :: ks' =>
      match ps_nest_set ks' l v (match ps_dget_opt k d with Some c => c | None => PsDict [] end) with
      | Some c' => Some (PsDict (ps_dset k c' d))
      | None => None
      end
    end
  | _ => None
  end.

(* lines 151-172: what ModifyAttribute records in original_attributes for a nested path *)
Definition ps_record_nested (attr : ps_key) (oldv value : ps_value) (og : ps_dict) : ps_dict :=
  match oldv with
  | PsDict od =>
    let og1 := fold_left (fun o kv => let key := ps_dotcat attr (fst kv) in
                                      if ps_dcontains key o then o else ps_dset key (snd kv) o) od og in
    match value with
    | PsDict vd => fold_left (fun o kv => let key := ps_dotcat attr (fst kv) in
                                          if ps_dcontains key o then o else ps_dset key PsEmpty o) vd og1
    | _ => og1
    end
  | _ => if ps_dcontains attr og then og else ps_dset attr oldv og
  end.

Definition ps_orig_dict (o : ps_mobj) : ps_dict := match ps_m_orig o with Some d => d | None => [] end.

(* ValidateField / SetField of a Dictionary::Ptr-typed field reject anything but a dictionary or null *)
Definition ps_field_accepts (fi : ps_finfo) (v : ps_value) : bool :=
  negb (ps_fi_kind fi =? 1) || ps_is_dict v || ps_is_empty v.

(* SetField converts null for the typed fields: double <- 0, String <- "" (other conversions are not modelled:
   callers pass values of the field's type) *)
Definition ps_coerce (fi : ps_finfo) (v : ps_value) : ps_value :=
  match v with
  | PsEmpty => if ps_fi_kind fi =? 2 then PsNum 0 0 else if ps_fi_kind fi =? 3 then PsStr [] else PsEmpty
  | _ => v
  end.

Definition ps_modify_attribute (fe : ps_fenv) (attr : ps_key) (value : ps_value) (updv : bool) (now : Z)
           (o : ps_mobj) : bool * ps_mobj :=
  match ps_split attr with
  | [] => (false, o)
  | f :: rest =>
    match ps_filookup fe f with
    | None => (false, o)                                            (* GetFieldInfo(-1) throws *)
    | Some fi =>
      if ps_fi_nomod fi then (false, o) else
      let o1 := if ps_fi_config fi
                then match ps_m_orig o with
                     | None => {| ps_m_fields := ps_m_fields o; ps_m_orig := Some []; ps_m_version := ps_m_version o |}
                     | Some _ => o
                     end
                else o in
      let oldv := ps_dget f (ps_m_fields o1) in
      let finish (nv : ps_value) (og' : option ps_dict) :=
          if ps_field_accepts fi nv
          then (true, {| ps_m_fields := ps_dset f (ps_coerce fi nv) (ps_m_fields o1); ps_m_orig := og';
                         ps_m_version := if updv && ps_fi_config fi then now else ps_m_version o1 |})
          else (false, {| ps_m_fields := ps_m_fields o1; ps_m_orig := og'; ps_m_version := ps_m_version o1 |}) in
      match rest with
      | [] =>
        let og' := if ps_fi_config fi
                   then Some (if ps_dcontains attr (ps_orig_dict o1) then ps_orig_dict o1
                              else ps_dset attr oldv (ps_orig_dict o1))
                   else ps_m_orig o1 in
        finish value og'
      | _ :: _ =>
        let ks := removelast rest in
        let l := last rest [] in
        let start := if ps_is_empty oldv then PsDict [] else oldv in
        match ps_nest_old ks l start, ps_nest_set ks l value start with
        | Some ov, Some nv =>
          let og' := if ps_fi_config fi then Some (ps_record_nested attr ov value (ps_orig_dict o1))
                     else ps_m_orig o1 in
          finish nv og'
        | _, _ => (false, o1)
        end
      end
    end
  end.

(* RestoreAttribute, lines 236-249: strict walk (every intermediate key must exist), then [f] on the
   dictionary that holds the leaf, written back into the clone *)
Fixpoint ps_nest_update (ks : list ps_key) (f : ps_dict -> ps_dict) (cur : ps_value) : option ps_value :=
  match cur with
  | PsDict d =>
    match ks with
    | [] => Some (PsDict (f d))
    | k :: ks' =>
      match ps_dget_opt k d with
      | None => None
      | Some c => match ps_nest_update ks' f c with
                  | Some c' => Some (PsDict (ps_dset k c' d))
                  | None => None
                  end
      end
    end
  | _ => None
  end.

(* lines 279-296: descend along the remaining tokens of an original_attributes key, replacing whatever is
   not a dictionary by a fresh one, and set the last token *)
Fixpoint ps_force_set (ks : list ps_key) (l : ps_key) (v : ps_value) (d : ps_dict) : ps_dict :=
  match ks with
  | [] => ps_dset l v d
  | k :: ks' =>
    let sub := match ps_dget k d with PsDict s => s | _ => [] end in
    ps_dset k (PsDict (ps_force_set ks' l v sub)) d
  end.

Fixpoint ps_keys_eqb (a b : list ps_key) : bool :=
  match a, b with
  | [], [] => true
  | x :: a', y :: b' => ps_key_eqb x y && ps_keys_eqb a' b'
  | _, _ => false
  end.

(* lines 259-272: does the original_attributes key [k] lie at or below the restored path [tokens] *)
Definition ps_entry_matches (tokens : list ps_key) (k : ps_key) : bool :=
  let ot := ps_split k in
  negb (Nat.ltb (length ot) (length tokens)) && ps_keys_eqb tokens (firstn (length tokens) ot).

Definition ps_restore_entry (tokens : list ps_key) (l : ps_key) (cd : ps_dict) (kv : ps_key * ps_value) : ps_dict :=
  if ps_entry_matches tokens (fst kv) then
    match skipn (length tokens) (ps_split (fst kv)) with
    | [] => ps_dset l (snd kv) cd
    | r :: rest => ps_force_set (l :: removelast (r :: rest)) (last (r :: rest) []) (snd kv) cd
    end
  else cd.

Definition ps_restore_attribute (fe : ps_fenv) (attr : ps_key) (updv : bool) (now : Z) (o : ps_mobj) : bool * ps_mobj :=
  match ps_split attr with
  | [] => (false, o)
  | f :: rest =>
    match ps_filookup fe f with
    | None => (false, o)
    | Some fi =>
      let cur := ps_dget f (ps_m_fields o) in
      match ps_m_orig o with
      | None => (true, o)
      | Some og =>
        let oldv := ps_dget attr og in
        let ver := if updv then now else ps_m_version o in
        match rest with
        | [] =>
          (* fix 587182ba: a top-level attribute without an entry is left alone *)
          if negb (ps_dcontains attr og) then (true, o) else
          (true, {| ps_m_fields := ps_dset f (ps_coerce fi oldv) (ps_m_fields o); ps_m_orig := Some (ps_dremove attr og); ps_m_version := ver |})
        | _ :: _ =>
          if ps_is_empty cur then (false, o) else
          let tokens := f :: rest in
          let ks := removelast rest in
          let l := last rest [] in
          match ps_nest_update ks (fun cd => fold_left (ps_restore_entry tokens l) og cd) cur with
          | None => (false, o)
          | Some nv =>
            let og' := ps_dremove attr (filter (fun kv => negb (ps_entry_matches tokens (fst kv))) og) in
            (true, {| ps_m_fields := ps_dset f (ps_coerce fi nv) (ps_m_fields o); ps_m_orig := Some og'; ps_m_version := ver |})
          end
        end
      end
    end
  end.

(* Dictionary::Get along a dotted path: what the API shows for the attribute *)
Fixpoint ps_nest_get (ks : list ps_key) (v : ps_value) : ps_value :=
  match ks with
  | [] => v
  | k :: ks' => match v with PsDict d => ps_nest_get ks' (ps_dget k d) | _ => PsEmpty end
  end.

Definition ps_get_attr (attr : ps_key) (o : ps_mobj) : ps_value :=
  match ps_split attr with
  | [] => PsEmpty
  | f :: rest => ps_nest_get rest (ps_dget f (ps_m_fields o))
  end.

Definition ps_orig_mentions (attr : ps_key) (o : ps_mobj) : bool := ps_dcontains attr (ps_orig_dict o).

(* ---- DumpModifiedAttributes (configobject.cpp:610-673) and the replay by modified-attributes.conf ---- *)

(* the walk of lines 638-661: a missing intermediate key breaks out of the loop and the LAST reached value is
   used; None = "Value must be a dictionary." *)
Fixpoint ps_dma_walk (ks : list ps_key) (l : ps_key) (cur : ps_value) : option ps_value :=
  match ks with
  | [] => match cur with PsDict d => Some (ps_dget l d) | _ => None end
  | k :: ks' =>
    match cur with
    | PsDict d => match ps_dget_opt k d with
                  | None => Some (ps_dget l d)             (* break; then dict->Get(last) on what was reached *)
                  | Some c => ps_dma_walk ks' l c
                  end
    | _ => None
    end
  end.

Definition ps_dma_value (o : ps_mobj) (key : ps_key) : option ps_value :=
  match ps_split key with
  | [] => None
  | f :: rest =>
    let cur := ps_dget f (ps_m_fields o) in
    match rest with
    | [] => Some cur
    | _ :: _ => ps_dma_walk (removelast rest) (last rest []) cur
    end
  end.

Fixpoint ps_dump_modattrs_keys (o : ps_mobj) (keys : list ps_key) : option (list (ps_key * ps_value)) :=
  match keys with
  | [] => Some []
  | k :: t => match ps_dma_value o k, ps_dump_modattrs_keys o t with
              | Some v, Some r => Some ((k, v) :: r)
              | _, _ => None
              end
  end.

Definition ps_dump_modattrs (o : ps_mobj) : option (list (ps_key * ps_value)) :=
  ps_dump_modattrs_keys o (map fst (ps_orig_dict o)).

(* ConfigWriter::EmitNumber.  The form the source has now is read from the regenerated fact f_cw_number_roundtrip
   (tools/facts_c17.py; shared with C17):
   rt = false (as pinned): "fp << std::fixed << val", six decimals, on the decimal m*10^-k; rounds half away from zero
     on the decimal (the generators avoid ties);
   rt = true (fix 1e5729f): six decimals, more only while the text does not read back (strtod) as the same double -
     the text denotes the supplied number exactly, so the lexer returns it unchanged. *)
Definition ps_src_number_roundtrip : bool := match f_cw_number_roundtrip with Some b => b | None => false end.

Definition ps_emit_num (m : Z) (k : N) : Z * N :=
  if k <=? 6 then (m, k)
  else let p := Z.pow 10 (Z.of_N (k - 6)) in
       let q := Z.div (2 * Z.abs m + p) (2 * p) in
       ((if Z.ltb m 0 then Z.opp q else q), 6).

(* normalise a decimal: strip trailing zeros *)
Fixpoint ps_norm_num (fuel : nat) (m : Z) (k : N) : Z * N :=
  match fuel with
  | O => (m, k)
  | S n => if (k =? 0) then (m, k)
           else if Z.eqb (Z.modulo m 10) 0 then ps_norm_num n (Z.div m 10) (k - 1) else (m, k)
  end.

(* what the lexer reads back from the emitted text, for the numbers of a value (strings: see C17) *)
Fixpoint ps_writer_codec_m (rt : bool) (v : ps_value) {struct v} : ps_value :=
  match v with
  | PsNum m k => if rt then PsNum m k
                 else let '(m', k') := ps_emit_num m k in let '(m2, k2) := ps_norm_num 6 m' k' in PsNum m2 k2
  | PsArr l => PsArr (map (ps_writer_codec_m rt) l)
  | PsDict d =>
    PsDict ((fix go (d : ps_dict) : ps_dict :=
               match d with [] => [] | (k, x) :: t => (k, ps_writer_codec_m rt x) :: go t end) d)
  | _ => v
  end.
Definition ps_writer_codec : ps_value -> ps_value := ps_writer_codec_m ps_src_number_roundtrip.

(* replay: "obj.modify_attribute(attr, value)" per line, then "obj.version = ..."; an exception ends the script *)
Fixpoint ps_replay_lines (fe : ps_fenv) (script : list (ps_key * ps_value)) (now : Z) (o : ps_mobj) : bool * ps_mobj :=
  match script with
  | [] => (true, o)
  | kv :: t =>
    let '(ok, o') := ps_modify_attribute fe (fst kv) (ps_writer_codec (snd kv)) true now o in
    if ok then ps_replay_lines fe t now o' else (false, o')
  end.

Definition ps_replay_modattrs (fe : ps_fenv) (script : list (ps_key * ps_value)) (ver now : Z) (fresh : ps_mobj) : bool * ps_mobj :=
  match script with
  | [] => (true, fresh)                      (* no modified attribute: no block for this object *)
  | _ =>
    let '(ok, o) := ps_replay_lines fe script now fresh in
    if ok then (true, {| ps_m_fields := ps_m_fields o; ps_m_orig := ps_m_orig o; ps_m_version := ver |}) else (false, o)
  end.

(* ===================================================================== (iii) atomic file *)

Inductive ps_syscall :=
| PsOpenTemp (t : N)                   (* mkstemp(path.tmp.XXXXXX) *)
| PsChmodTemp (t : N)
| PsWriteTemp (t : N) (b : list N)
| PsFsyncTemp (t : N)
| PsCloseTemp (t : N)
| PsRename (t : N)                     (* rename(temp, final) *)
| PsUnlinkTemp (t : N)
(* what an implementation must NOT do; present so that the oracle can judge observed traces *)
| PsTruncFinal                         (* open(final, O_TRUNC) / creat *)
| PsWriteFinal (b : list N)
| PsUnlinkFinal.

Record ps_fs := { ps_fs_final : option (list N); ps_fs_temps : list (N * list N) }.

Fixpoint ps_tget (t : N) (ts : list (N * list N)) : option (list N) :=
  match ts with [] => None | (t', c) :: r => if t =? t' then Some c else ps_tget t r end.
Fixpoint ps_tdel (t : N) (ts : list (N * list N)) : list (N * list N) :=
  match ts with [] => [] | (t', c) :: r => if t =? t' then ps_tdel t r else (t', c) :: ps_tdel t r end.

Definition ps_fs_step (s : ps_fs) (c : ps_syscall) : ps_fs :=
  match c with
  | PsOpenTemp t => {| ps_fs_final := ps_fs_final s; ps_fs_temps := (t, []) :: ps_tdel t (ps_fs_temps s) |}
  | PsWriteTemp t b =>
    match ps_tget t (ps_fs_temps s) with
    | Some c0 => {| ps_fs_final := ps_fs_final s; ps_fs_temps := (t, c0 ++ b) :: ps_tdel t (ps_fs_temps s) |}
    | None => s
    end
  | PsRename t =>
    match ps_tget t (ps_fs_temps s) with
    | Some c0 => {| ps_fs_final := Some c0; ps_fs_temps := ps_tdel t (ps_fs_temps s) |}
    | None => s
    end
  | PsUnlinkTemp t => {| ps_fs_final := ps_fs_final s; ps_fs_temps := ps_tdel t (ps_fs_temps s) |}
  | PsTruncFinal => {| ps_fs_final := Some []; ps_fs_temps := ps_fs_temps s |}
  | PsWriteFinal b => {| ps_fs_final := Some (match ps_fs_final s with Some c0 => c0 ++ b | None => b end);
                         ps_fs_temps := ps_fs_temps s |}
  | PsUnlinkFinal => {| ps_fs_final := None; ps_fs_temps := ps_fs_temps s |}
  | _ => s
  end.

Definition ps_fs_run (s : ps_fs) (tr : list ps_syscall) : ps_fs := fold_left ps_fs_step tr s.

(* AtomicFile: constructor (mkstemp, chmod), stream writes, Commit (fsync, close, rename) *)
Definition ps_atomic_trace (t : N) (chunks : list (list N)) : list ps_syscall :=
  [PsOpenTemp t; PsChmodTemp t] ++ map (PsWriteTemp t) chunks ++ [PsFsyncTemp t; PsCloseTemp t; PsRename t].

(* DumpObjects / DumpModifiedAttributes first remove stale "<path>.tmp.*" files *)
Definition ps_persist_trace (stale : list N) (t : N) (chunks : list (list N)) : list ps_syscall :=
  map PsUnlinkTemp stale ++ ps_atomic_trace t chunks.

Definition ps_content_eqb (a b : option (list N)) : bool :=
  match a, b with
  | None, None => true
  | Some x, Some y => ps_key_eqb x y
  | _, _ => false
  end.

(* everything a temp file [t] received in [tr] *)
Definition ps_written (t : N) (tr : list ps_syscall) : list N :=
  concat (map (fun c => match c with PsWriteTemp t' b => if t =? t' then b else [] | _ => [] end) tr).

(* the crash property on an OBSERVED trace: after every prefix the final path holds the old or the new
   content, and exists if it existed before.  Returns the length of the first offending prefix. *)
Fixpoint ps_atomic_check (old : option (list N)) (new : list N) (s : ps_fs) (tr : list ps_syscall) (n : nat) : option nat :=
  let ok := (ps_content_eqb (ps_fs_final s) old || ps_content_eqb (ps_fs_final s) (Some new)) in
  if negb ok then Some n else
  match tr with
  | [] => None
  | c :: r => ps_atomic_check old new (ps_fs_step s c) r (S n)
  end.

Definition ps_oracle_atomic (old : option (list N)) (t : N) (tr : list ps_syscall) : option nat :=
  match ps_atomic_check old (ps_written t tr) {| ps_fs_final := old; ps_fs_temps := [] |} tr 0 with
  | Some n => Some n
  | None =>
    (* the complete trace must have installed the new content *)
    if ps_content_eqb (ps_fs_final (ps_fs_run {| ps_fs_final := old; ps_fs_temps := [] |} tr)) (Some (ps_written t tr))
    then None else Some (S (length tr))
  end.

(* ===================================================================== oracles for (i) and (ii) *)

(* state round trip on observed values: every user-supplied slot reads back identical *)
Definition ps_oracle_roundtrip (all_same : bool) (slots : list (ps_value * ps_value)) : bool :=
  all_same && forallb (fun ba => ps_veqb (fst ba) (snd ba)) slots.

(* modify p v immediately followed by restore p: observed value at p before/after, original_attributes after *)
Definition ps_oracle_restore (before after : ps_value) (orig_mentions_after : bool) : bool :=
  ps_veqb before after && negb orig_mentions_after.
