(* C14 - POPULATIONS of objects with per-object version (definitions only).
   modified-attributes.conf for several objects: ConfigObject::DumpModifiedAttributes (configobject.cpp:610-673) visits
   every object of every type and calls back once per original_attributes entry; PersistModAttrHelper /
   IcingaApplication::DumpModifiedAttributes (icingaapplication.cpp:129-192) open a block
       var obj = get_object(<type>, <name>)  if (obj) {  obj.modify_attribute(..) ...  obj.version = <version> }
   when the object changes and close the block of the PREVIOUS object with THAT object's version.  The start-up
   (daemoncommand.cpp:289, configitem.cpp:648-664) first restores the state file - which carries the state attribute
   version of every object (original_attributes is not a state attribute) - and then evaluates modified-attributes.conf;
   an exception inside a block ends the evaluation of the whole file.
   All objects of a population are of one type here (one field environment); names identify objects. *)
From Icv Require Import Base.Tac Persist.PsValue Persist.PsModel.
From Coq Require Import NArith.
Local Open Scope N_scope.

Record ps_pobj := { ps_p_name : ps_key; ps_p_obj : ps_mobj }.
Definition ps_pop := list ps_pobj.

Fixpoint ps_pop_find (n : ps_key) (pop : ps_pop) : option ps_mobj :=
  match pop with
  | [] => None
  | po :: t => if ps_key_eqb n (ps_p_name po) then Some (ps_p_obj po) else ps_pop_find n t
  end.

(* replace the object called [n] (first match, as the name index of a type does) *)
Fixpoint ps_pop_set (n : ps_key) (o : ps_mobj) (pop : ps_pop) : ps_pop :=
  match pop with
  | [] => []
  | po :: t => if ps_key_eqb n (ps_p_name po) then {| ps_p_name := ps_p_name po; ps_p_obj := o |} :: t
               else po :: ps_pop_set n o t
  end.

(* one block of modified-attributes.conf *)
Record ps_block := { ps_b_name : ps_key; ps_b_lines : list (ps_key * ps_value); ps_b_version : Z }.

(* the file: a block per object that lists at least one entry, closed with that object's OWN version; an exception
   for any object ("Value must be a dictionary.") leaves no new file at all *)
Fixpoint ps_pop_dump (pop : ps_pop) : option (list ps_block) :=
  match pop with
  | [] => Some []
  | po :: t =>
    match ps_dump_modattrs (ps_p_obj po), ps_pop_dump t with
    | Some [], Some r => Some r
    | Some ls, Some r => Some ({| ps_b_name := ps_p_name po; ps_b_lines := ls; ps_b_version := ps_m_version (ps_p_obj po) |} :: r)
    | _, _ => None
    end
  end.

(* "var obj = get_object(type, name); if (obj) { ... }" *)
Definition ps_block_replay (fe : ps_fenv) (now : Z) (b : ps_block) (pop : ps_pop) : bool * ps_pop :=
  match ps_pop_find (ps_b_name b) pop with
  | None => (true, pop)
  | Some o => let '(ok, o') := ps_replay_modattrs fe (ps_b_lines b) (ps_b_version b) now o in
              (ok, ps_pop_set (ps_b_name b) o' pop)
  end.

(* evaluation of the file: block after block, an exception ends it *)
Fixpoint ps_pop_replay (fe : ps_fenv) (now : Z) (blocks : list ps_block) (pop : ps_pop) : bool * ps_pop :=
  match blocks with
  | [] => (true, pop)
  | b :: t => let '(ok, pop') := ps_block_replay fe now b pop in
              if ok then ps_pop_replay fe now t pop' else (false, pop')
  end.

(* RestoreObjects, as far as this model's objects go: of the attributes of ps_mobj only [version] is a state attribute
   (configobject.ti: "[state, no_user_modify] double version"; original_attributes is NOT persisted in the state file -
   it is rebuilt by the modify_attribute calls of modified-attributes.conf).  The freshly configured object called like
   a saved one gets that object's version (C14_state_roundtrip: persisted fields come back unchanged). *)
Definition ps_set_version (z : Z) (o : ps_mobj) : ps_mobj :=
  {| ps_m_fields := ps_m_fields o; ps_m_orig := ps_m_orig o; ps_m_version := z |}.

Definition ps_state_restore (saved base : ps_pop) : ps_pop :=
  map (fun b => match ps_pop_find (ps_p_name b) saved with
                | Some s => {| ps_p_name := ps_p_name b; ps_p_obj := ps_set_version (ps_m_version s) (ps_p_obj b) |}
                | None => b
                end) base.

(* shutdown (DumpProgramState: state file + modified-attributes.conf) followed by start-up (configuration loaded ->
   [base], RestoreObjects, evaluation of modified-attributes.conf).  None: the dump threw. *)
Definition ps_pop_restart (fe : ps_fenv) (now : Z) (running base : ps_pop) : option (bool * ps_pop) :=
  match ps_pop_dump running with
  | None => None
  | Some blocks => Some (ps_pop_replay fe now blocks (ps_state_restore running base))
  end.

(* operations on a population: ModifyAttribute / RestoreAttribute of one object at a time [t] *)
Inductive ps_pop_op :=
| PsPMod (n : ps_key) (p : ps_key) (v : ps_value) (t : Z)
| PsPRes (n : ps_key) (p : ps_key) (t : Z).

Definition ps_pop_op_name (op : ps_pop_op) : ps_key := match op with PsPMod n _ _ _ => n | PsPRes n _ _ => n end.

Definition ps_pop_apply (fe : ps_fenv) (pop : ps_pop) (op : ps_pop_op) : ps_pop :=
  match ps_pop_find (ps_pop_op_name op) pop with
  | None => pop
  | Some o =>
    ps_pop_set (ps_pop_op_name op)
               (snd (match op with
                     | PsPMod _ p v t => ps_modify_attribute fe p v true t o
                     | PsPRes _ p t => ps_restore_attribute fe p true t o
                     end)) pop
  end.

Definition ps_pop_run (fe : ps_fenv) (pop : ps_pop) (H : list ps_pop_op) : ps_pop := fold_left (ps_pop_apply fe) H pop.
