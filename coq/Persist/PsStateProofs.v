(* C14 - the state file round trip at the level of reflected objects and whole populations:
   Deserialize (Serialize v) = v for every clean value INCLUDING nested reflected objects (CheckResult inside
   last_check_result), Deserialize(object, Serialize(object)) onto a fresh object of the same configuration gives back
   the object, and RestoreObjects (DumpObjects objs) fresh = objs for every population. *)
From Icv Require Import Base.Tac Persist.PsValue Persist.PsModel Persist.PsValueProofs Persist.PsRoundtripProofs.
From Coq Require Import NArith.
Local Open Scope N_scope.

Definition ps_ser_fields env mask tn : ps_dict -> ps_dict :=
  fix go (d : ps_dict) : ps_dict :=
    match d with
    | [] => [(ps_type_key, PsStr tn)]
    | (k, x) :: t => if ps_ser_keep env mask tn k then (k, ps_serialize env mask x) :: go t else go t
    end.

Definition ps_deser_fields env mask fds : ps_dict -> ps_dict -> ps_dict :=
  fix go (d : ps_dict) (inst : ps_dict) : ps_dict :=
    match d with
    | [] => inst
    | (k, x) :: t => go t (ps_deser_field fds mask inst k (ps_deserialize env mask x))
    end.

Lemma ps_serialize_obj env mask tn fs : ps_serialize env mask (PsObj tn fs) = PsDict (ps_ser_fields env mask tn fs).
Proof. reflexivity. Qed.

Lemma ps_deser_fields_fold env mask fds d : forall inst,
  fold_left (fun inst kx => ps_deser_field fds mask inst (fst kx) (ps_deserialize env mask (snd kx))) d inst
  = ps_deser_fields env mask fds d inst.
Proof. induction d as [|[k x] d IH]; intros inst; cbn; [reflexivity | apply IH]. Qed.

(* ---- pure list facts about SetField folds ---- *)
Definition ps_setkept (keepf : ps_key -> bool) (i : ps_dict) (kx : ps_key * ps_value) : ps_dict :=
  if keepf (fst kx) then ps_fset (fst kx) (snd kx) i else i.

Lemma ps_setkept_skip keepf k v0 : forall t it,
  ~ In k (map fst t) ->
  fold_left (ps_setkept keepf) t ((k, v0) :: it) = (k, v0) :: fold_left (ps_setkept keepf) t it.
Proof.
  induction t as [|[k' x'] t IH]; intros it Hn; cbn; [reflexivity|].
  assert (k' <> k) as Hne by (intros ->; apply Hn; left; reflexivity).
  assert (~ In k (map fst t)) as Hn' by (intros H; apply Hn; right; exact H).
  unfold ps_setkept at 2 4. cbn [fst snd]. destruct (keepf k'); [|apply IH; exact Hn'].
  cbn [ps_fset]. rewrite (ps_key_eqb_neq k' k Hne). apply IH. exact Hn'.
Qed.

Definition ps_agree (keepf : ps_key -> bool) (a b : ps_key * ps_value) : Prop :=
  fst a = fst b /\ (keepf (fst a) = false -> snd a = snd b).

Lemma ps_setkept_all keepf fs inst :
  Forall2 (ps_agree keepf) fs inst -> NoDup (map fst fs) -> fold_left (ps_setkept keepf) fs inst = fs.
Proof.
  induction 1 as [|[k x] [k' y] fs inst [Hk Hv] Hrest IH]; intros Hnd; [reflexivity|].
  cbn in Hk, Hv. subst k'. cbn [map fst] in Hnd. inversion Hnd; subst.
  cbn [fold_left]. unfold ps_setkept at 2. cbn [fst snd ps_fset]. rewrite ps_key_eqb_refl.
  destruct (keepf k) eqn:Ek.
  - rewrite ps_setkept_skip by assumption. f_equal. apply IH. assumption.
  - rewrite ps_setkept_skip by assumption. rewrite <- (Hv eq_refl). f_equal. apply IH. assumption.
Qed.

Lemma ps_agree_all_kept keepf : forall fs inst,
  map fst fs = map fst inst -> (forall k, In k (map fst fs) -> keepf k = true) -> Forall2 (ps_agree keepf) fs inst.
Proof.
  induction fs as [|[k x] fs IH]; intros [|[k' y] inst] Hm Hk; cbn in Hm; try discriminate; constructor.
  - inversion Hm; subst. split; [reflexivity|]. cbn. intros E. rewrite (Hk k' (or_introl eq_refl)) in E. discriminate.
  - inversion Hm. apply IH; [assumption|]. intros k0 Hin. apply Hk. right. exact Hin.
Qed.

(* ---- what DeserializeObject does with what SerializeObject wrote ---- *)
Definition ps_accepts fds mask (k : ps_key) : Prop :=
  forall inst y, ps_deser_field fds mask inst k y = ps_fset k y inst.

Lemma ps_accepts_of_lookup fds mask k f :
  ps_flookup fds k = Some f -> (N.land (ps_fd_attr f) mask =? 0) = false -> k <> [] -> ps_accepts fds mask k.
Proof.
  intros Hl Ha Hk inst y. unfold ps_deser_field. destruct k; [contradiction|]. rewrite Hl, Ha. reflexivity.
Qed.

Lemma ps_obj_fields_roundtrip env mask tn fds fs :
  (forall k x, In (k, x) fs -> ps_ser_keep env mask tn k = true ->
               ps_accepts fds mask k /\ ps_deserialize env mask (ps_serialize env mask x) = x) ->
  (forall inst y, ps_deser_field fds mask inst ps_type_key y = inst) ->
  forall inst,
  ps_deser_fields env mask fds (ps_ser_fields env mask tn fs) inst
  = fold_left (ps_setkept (ps_ser_keep env mask tn)) fs inst.
Proof.
  intros Hall Hty. induction fs as [|[k x] fs IH]; intros inst.
  - cbn. apply Hty.
  - cbn [ps_ser_fields fold_left]. unfold ps_setkept at 2. cbn [fst snd].
    destruct (ps_ser_keep env mask tn k) eqn:Ek.
    + cbn [ps_deser_fields]. destruct (Hall k x (or_introl eq_refl) Ek) as [Hacc Hrt].
      rewrite Hrt, Hacc. apply IH. intros k' x' Hin. apply Hall. right. exact Hin.
    + apply IH. intros k' x' Hin. apply Hall. right. exact Hin.
Qed.

Lemma ps_ser_fields_has_type env mask tn fs : ps_dcontains ps_type_key (ps_ser_fields env mask tn fs) = true.
Proof.
  unfold ps_dcontains. induction fs as [|[k x] fs IH]; [reflexivity|].
  cbn [ps_ser_fields]. destruct (ps_ser_keep env mask tn k); [|exact IH].
  cbn [ps_dget_opt]. destruct (ps_key_eqb ps_type_key k); [reflexivity | exact IH].
Qed.

Lemma ps_ser_fields_type env mask tn fs : ps_dget ps_type_key (ps_ser_fields env mask tn fs) = PsStr tn.
Proof.
  unfold ps_dget. induction fs as [|[k x] fs IH]; [reflexivity|].
  cbn [ps_ser_fields]. destruct (ps_ser_keep env mask tn k) eqn:Ek; [|exact IH].
  cbn [ps_dget_opt]. destruct (ps_key_eqb ps_type_key k) eqn:E; [|exact IH].
  apply ps_key_eqb_eq in E. subst k. unfold ps_ser_keep in Ek. rewrite ps_key_eqb_refl, andb_false_r in Ek. discriminate.
Qed.

Lemma ps_flookup_in fds k : In k (map ps_fd_name fds) ->
  exists f, ps_flookup fds k = Some f /\ In f fds /\ ps_fd_name f = k.
Proof.
  induction fds as [|f fds IH]; cbn; [intros []|]. intros H.
  destruct (ps_key_eqb k (ps_fd_name f)) eqn:E.
  - apply ps_key_eqb_eq in E. exists f. auto.
  - destruct H as [H|H]; [subst; rewrite ps_key_eqb_refl in E; discriminate|].
    destruct (IH H) as (f' & Hl & Hin & Hn). exists f'. auto.
Qed.

Lemma ps_flookup_none fds k : ~ In k (map ps_fd_name fds) -> ps_flookup fds k = None.
Proof.
  induction fds as [|f fds IH]; cbn; [reflexivity|]. intros H.
  destruct (ps_key_eqb k (ps_fd_name f)) eqn:E.
  - apply ps_key_eqb_eq in E. exfalso. apply H. left. symmetry. exact E.
  - apply IH. intros Hin. apply H. right. exact Hin.
Qed.

Lemma ps_keys_of_deqb (fs : ps_dict) (fds : list ps_fdesc) :
  ps_deqb (map (fun kx => (fst kx, PsEmpty)) fs) (map (fun f => (ps_fd_name f, PsEmpty)) fds) = true ->
  map fst fs = map ps_fd_name fds.
Proof.
  revert fds. induction fs as [|[k x] fs IH]; intros [|f fds]; cbn; intros H; try discriminate; [reflexivity|].
  apply andb_true_iff in H. destruct H as [H Ht]. apply andb_true_iff in H. destruct H as [Hk _].
  apply ps_key_eqb_eq in Hk. subst. f_equal. apply IH. exact Ht.
Qed.

(* every type of the environment has distinct field names *)
Definition ps_env_ok (env : ps_tenv) : Prop :=
  forall tn fds, ps_tlookup env tn = Some fds -> NoDup (map ps_fd_name fds).

Definition ps_clean_dict env mask : ps_dict -> bool :=
  fix go (d : ps_dict) : bool := match d with [] => true | (_, x) :: t => ps_clean env mask x && go t end.

Lemma ps_clean_dict_in env mask d : ps_clean_dict env mask d = true -> forall k x, In (k, x) d -> ps_clean env mask x = true.
Proof.
  induction d as [|[k0 x0] d IH]; cbn; intros H k x Hin; [contradiction|].
  apply andb_true_iff in H. destruct H as [H0 Hd]. destruct Hin as [Hin|Hin]; [inversion Hin; subst; exact H0 | exact (IH Hd k x Hin)].
Qed.

Lemma ps_list_roundtrip_clean env mask l :
  Forall (fun v => ps_clean env mask v = true -> ps_deserialize env mask (ps_serialize env mask v) = v) l ->
  forallb (ps_clean env mask) l = true ->
  map (ps_deserialize env mask) (map (ps_serialize env mask) l) = l.
Proof.
  induction 1 as [|x l Hx Hl IH]; intros Hp; [reflexivity|].
  cbn [forallb] in Hp. apply andb_true_iff in Hp. destruct Hp as [Hpx Hpl].
  cbn [map]. rewrite (Hx Hpx), (IH Hpl). reflexivity.
Qed.

Lemma ps_dict_roundtrip_clean env mask d :
  Forall (fun kv => ps_clean env mask (snd kv) = true -> ps_deserialize env mask (ps_serialize env mask (snd kv)) = snd kv) d ->
  ps_clean_dict env mask d = true ->
  ps_deser_dict env mask (ps_ser_dict env mask d) = d.
Proof.
  induction 1 as [|[k x] d Hx Hd IH]; intros Hp; [reflexivity|].
  cbn in Hp. apply andb_true_iff in Hp. destruct Hp as [Hpx Hpd].
  cbn. cbn in Hx. rewrite (Hx Hpx). f_equal. exact (IH Hpd).
Qed.

(* values: arrays, dictionaries without a "type" key, and reflected objects of known types, at any nesting *)
Theorem ps_clean_roundtrip env mask : ps_env_ok env -> forall v,
  ps_clean env mask v = true -> ps_deserialize env mask (ps_serialize env mask v) = v.
Proof.
  intros Henv. induction v using ps_value_ind'; intros Hp; try reflexivity.
  - cbn [ps_serialize ps_deserialize]. f_equal. apply ps_list_roundtrip_clean; assumption.
  - cbn in Hp. apply andb_true_iff in Hp. destruct Hp as [Hty Hall].
    change (ps_serialize env mask (PsDict d)) with (PsDict (ps_ser_dict env mask d)).
    cbn [ps_deserialize]. rewrite ps_ser_dict_get. apply negb_true_iff in Hty. rewrite Hty.
    f_equal. apply (ps_dict_roundtrip_clean env mask d H Hall).
  - (* reflected object *)
    cbn [ps_clean] in Hp. destruct (ps_tlookup env tn) as [fds|] eqn:Htl; [|discriminate].
    apply andb_true_iff in Hp. destruct Hp as [Hp Hvals]. apply andb_true_iff in Hp. destruct Hp as [Hkeys Hfds].
    change (ps_clean_dict env mask fs = true) in Hvals.
    pose proof (ps_keys_of_deqb fs fds Hkeys) as Hk.
    rewrite ps_serialize_obj. cbn [ps_deserialize]. rewrite ps_ser_fields_has_type.
    unfold ps_type_of. rewrite ps_ser_fields_type, Htl. f_equal.
    change (ps_deser_fields env mask fds (ps_ser_fields env mask tn fs) (ps_instantiate fds) = fs).
    assert (forall f, In f fds -> ps_ser_keep env mask tn (ps_fd_name f) = true /\
                                   (N.land (ps_fd_attr f) mask =? 0) = false /\ ps_fd_name f <> []) as Hf.
    { intros f Hin. rewrite forallb_forall in Hfds. specialize (Hfds f Hin).
      apply andb_true_iff in Hfds. destruct Hfds as [Ha Hc]. apply andb_true_iff in Ha. destruct Ha as [Ha Hb].
      repeat split; [exact Ha | apply negb_true_iff; exact Hb |].
      intros E. rewrite E in Hc. discriminate. }
    assert (forall k, In k (map fst fs) -> ps_ser_keep env mask tn k = true) as Hkept.
    { intros k Hin. rewrite Hk in Hin. apply in_map_iff in Hin. destruct Hin as (f & <- & Hin). apply (Hf f Hin). }
    rewrite ps_obj_fields_roundtrip.
    + apply ps_setkept_all.
      * apply ps_agree_all_kept; [|exact Hkept]. rewrite Hk. unfold ps_instantiate. rewrite map_map. reflexivity.
      * rewrite Hk. exact (Henv tn fds Htl).
    + intros k x Hin _. split.
      * assert (In k (map ps_fd_name fds)) as Hin' by (rewrite <- Hk; apply in_map_iff; exists (k, x); auto).
        destruct (ps_flookup_in fds k Hin') as (f & Hl & Hfin & Hn). destruct (Hf f Hfin) as (_ & Ha & Hne).
        apply (ps_accepts_of_lookup fds mask k f Hl Ha). rewrite <- Hn. exact Hne.
      * rewrite Forall_forall in H. apply (H (k, x) Hin). exact (ps_clean_dict_in env mask fs Hvals k x Hin).
    + intros inst y. unfold ps_deser_field. cbn [ps_type_key]. rewrite ps_flookup_none; [reflexivity|].
      intros Hin. apply in_map_iff in Hin. destruct Hin as (f & Hn & Hin). destruct (Hf f Hin) as (Hkeep & _).
      unfold ps_ser_keep in Hkeep. change [116; 121; 112; 101] with ps_type_key in Hn. rewrite Hn, ps_key_eqb_refl, andb_false_r in Hkeep. discriminate.
Qed.

(* ---- one configuration object restored onto a fresh object of the same configuration ---- *)
Definition ps_obj_ok env mask (o fresh : ps_cobj) : Prop :=
  ps_o_type fresh = ps_o_type o /\ ps_o_name fresh = ps_o_name o /\
  exists fds, ps_tlookup env (ps_o_type o) = Some fds /\
    NoDup (map fst (ps_o_fields o)) /\
    (* same fields; every field that is not persisted has the value the configuration gives it *)
    Forall2 (ps_agree (ps_ser_keep env mask (ps_o_type o))) (ps_o_fields o) (ps_o_fields fresh) /\
    (* persisted fields are fields of the type, and their values are clean *)
    (forall k x, In (k, x) (ps_o_fields o) -> ps_ser_keep env mask (ps_o_type o) k = true ->
                 k <> [] /\ (exists f, ps_flookup fds k = Some f) /\ ps_clean env mask x = true) /\
    (* no persisted field is called "type" *)
    (forall inst y, ps_deser_field fds mask inst ps_type_key y = inst).

Lemma ps_keep_accepts env mask tn fds k f :
  (mask =? 0) = false -> ps_tlookup env tn = Some fds -> ps_flookup fds k = Some f ->
  ps_ser_keep env mask tn k = true -> (N.land (ps_fd_attr f) mask =? 0) = false.
Proof.
  intros Hm Htl Hl Hk. unfold ps_ser_keep, ps_fattr in Hk. rewrite Htl, Hl, Hm in Hk. cbn in Hk.
  apply andb_true_iff in Hk. destruct Hk as [Hk _]. apply negb_true_iff in Hk. exact Hk.
Qed.

Theorem ps_object_roundtrip env mask o fresh :
  ps_env_ok env -> (mask =? 0) = false -> ps_obj_ok env mask o fresh ->
  ps_deser_into env mask fresh (ps_serialize env mask (PsObj (ps_o_type o) (ps_o_fields o))) = o.
Proof.
  intros Henv Hm (Hty & Hnm & fds & Htl & Hnd & Hag & Hkept & Htype).
  rewrite ps_serialize_obj. unfold ps_deser_into. rewrite ps_ser_fields_has_type, Hty, Htl.
  rewrite ps_deser_fields_fold, ps_obj_fields_roundtrip.
  - rewrite ps_setkept_all by assumption. rewrite Hnm. destruct o; reflexivity.
  - intros k x Hin Hk. destruct (Hkept k x Hin Hk) as (Hne & (f & Hl) & Hcl). split.
    + apply (ps_accepts_of_lookup fds mask k f Hl); [|exact Hne]. exact (ps_keep_accepts env mask _ fds k f Hm Htl Hl Hk).
    + apply ps_clean_roundtrip; assumption.
  - exact Htype.
Qed.

(* ---- the population: DumpObjects, fresh process, RestoreObjects ---- *)
Definition ps_id (o : ps_cobj) : ps_key * ps_key := (ps_o_type o, ps_o_name o).

Lemma ps_same_id_true ty nm o : ps_same_id ty nm o = true <-> ps_id o = (ty, nm).
Proof.
  unfold ps_same_id, ps_id. split.
  - intros H. apply andb_true_iff in H. destruct H as [H1 H2]. apply ps_key_eqb_eq in H1, H2. subst. reflexivity.
  - intros H. inversion H. rewrite !ps_key_eqb_refl. reflexivity.
Qed.

Lemma ps_restore_into_at env mask ty nm upd : forall pre f post,
  ~ In (ty, nm) (map ps_id pre) -> ps_id f = (ty, nm) ->
  ps_restore_into env mask ty nm upd (pre ++ f :: post) = pre ++ ps_deser_into env mask f upd :: post.
Proof.
  induction pre as [|p pre IH]; intros f post Hn Hid; cbn.
  - destruct (ps_same_id ty nm f) eqn:E; [reflexivity|].
    apply ps_same_id_true in Hid. rewrite Hid in E. discriminate.
  - destruct (ps_same_id ty nm p) eqn:E.
    + apply ps_same_id_true in E. exfalso. apply Hn. left. exact E.
    + f_equal. apply IH; [|exact Hid]. intros H. apply Hn. right. exact H.
Qed.

Lemma ps_restore_record_dump env mask o pop :
  ps_restore_record env mask pop (ps_dump_object env mask o)
  = ps_restore_into env mask (ps_o_type o) (ps_o_name o) (ps_serialize env mask (PsObj (ps_o_type o) (ps_o_fields o))) pop.
Proof. reflexivity. Qed.

Theorem ps_population_roundtrip env mask :
  ps_env_ok env -> (mask =? 0) = false ->
  forall objs fresh, Forall2 (ps_obj_ok env mask) objs fresh -> NoDup (map ps_id objs) ->
  ps_restore_objects env mask (ps_dump_objects env mask objs) fresh = objs.
Proof.
  intros Henv Hm objs fresh Hall Hnd.
  enough (forall done, (forall o, In o objs -> ~ In (ps_id o) (map ps_id done)) ->
          ps_restore_objects env mask (ps_dump_objects env mask objs) (done ++ fresh) = done ++ objs) as H
    by (apply (H []); intros o _ []).
  induction Hall as [|o f objs fresh Hok Hrest IH]; intros done Hdone.
  - reflexivity.
  - cbn [map] in Hnd. inversion Hnd; subst.
    unfold ps_restore_objects, ps_dump_objects. cbn [map fold_left]. rewrite ps_restore_record_dump.
    destruct Hok as (Hty & Hnm & Hrestok).
    rewrite ps_restore_into_at.
    + rewrite (ps_object_roundtrip env mask o f Henv Hm (conj Hty (conj Hnm Hrestok))).
      change (ps_restore_objects env mask (ps_dump_objects env mask objs) (done ++ o :: fresh) = done ++ o :: objs).
      replace (done ++ o :: fresh) with ((done ++ [o]) ++ fresh) by (rewrite <- app_assoc; reflexivity).
      replace (done ++ o :: objs) with ((done ++ [o]) ++ objs) by (rewrite <- app_assoc; reflexivity).
      apply IH; [assumption|].
      intros o' Hin. rewrite map_app, in_app_iff. intros [Hd|[Hd|[]]].
      * apply (Hdone o' (or_intror Hin)). exact Hd.
      * apply H1. rewrite Hd. apply in_map. exact Hin.
    + apply (Hdone o). left. reflexivity.
    + unfold ps_id. rewrite Hty, Hnm. reflexivity.
Qed.

(* non-vacuity: a host with a config field, state fields and a nested CheckResult holding arbitrary clean data *)
Definition ps_s_env : ps_tenv :=
  [([72], [{| ps_fd_name := [99]; ps_fd_attr := 2; ps_fd_default := PsEmpty |};
           {| ps_fd_name := [115]; ps_fd_attr := 4; ps_fd_default := PsNum 0 0 |};
           {| ps_fd_name := [108]; ps_fd_attr := 4; ps_fd_default := PsEmpty |}]);
   ([67], [{| ps_fd_name := [111]; ps_fd_attr := 4; ps_fd_default := PsStr [] |};
           {| ps_fd_name := [112]; ps_fd_attr := 4; ps_fd_default := PsEmpty |}])].
Definition ps_s_host (nm : ps_key) (c s l : ps_value) : ps_cobj :=
  {| ps_o_type := [72]; ps_o_name := nm; ps_o_fields := [([99], c); ([115], s); ([108], l)] |}.
Example ps_population_roundtrip_nonvacuous :
  let cr := PsObj [67] [([111], PsStr [120]); ([112], PsArr [PsDict [([97], PsNum 5 1)]; PsEmpty])] in
  let objs := [ps_s_host [1] (PsStr [99]) (PsNum 2 0) cr; ps_s_host [2] (PsStr [100]) (PsNum 1 0) PsEmpty] in
  let fresh := [ps_s_host [1] (PsStr [99]) (PsNum 0 0) PsEmpty; ps_s_host [2] (PsStr [100]) (PsNum 0 0) PsEmpty] in
  ps_restore_objects ps_s_env ps_FAState (ps_dump_objects ps_s_env ps_FAState objs) fresh = objs /\
  ps_clean ps_s_env ps_FAState cr = true.
Proof. vm_compute. split; reflexivity. Qed.

(* the same with the structural premise and the "clean values" premise (negated F-C14-b signature) kept apart *)
Definition ps_obj_shape env mask (o fresh : ps_cobj) : Prop :=
  ps_o_type fresh = ps_o_type o /\ ps_o_name fresh = ps_o_name o /\
  exists fds, ps_tlookup env (ps_o_type o) = Some fds /\
    NoDup (map fst (ps_o_fields o)) /\
    Forall2 (ps_agree (ps_ser_keep env mask (ps_o_type o))) (ps_o_fields o) (ps_o_fields fresh) /\
    (forall k x, In (k, x) (ps_o_fields o) -> ps_ser_keep env mask (ps_o_type o) k = true ->
                 k <> [] /\ (exists f, ps_flookup fds k = Some f)) /\
    (forall inst y, ps_deser_field fds mask inst ps_type_key y = inst).

Definition ps_persisted_clean env mask (o : ps_cobj) : Prop :=
  forall k x, In (k, x) (ps_o_fields o) -> ps_ser_keep env mask (ps_o_type o) k = true -> ps_clean env mask x = true.

Theorem ps_population_roundtrip_clean env mask objs fresh :
  ps_env_ok env -> (mask =? 0) = false ->
  Forall2 (ps_obj_shape env mask) objs fresh -> NoDup (map ps_id objs) ->
  (forall o, In o objs -> ps_persisted_clean env mask o) ->
  ps_restore_objects env mask (ps_dump_objects env mask objs) fresh = objs.
Proof.
  intros Henv Hm Hshape Hnd Hclean. apply ps_population_roundtrip; try assumption.
  clear Hnd. induction Hshape as [|o f objs fresh Hs Hrest IH]; constructor.
  - destruct Hs as (Hty & Hnm & fds & Htl & Hn & Hag & Hk & Ht).
    split; [exact Hty|]. split; [exact Hnm|]. exists fds. repeat split; try assumption.
    + apply (Hk k x H H0).
    + apply (Hk k x H H0).
    + apply (Hclean o (or_introl eq_refl) k x H H0).
  - apply IH. intros o' Hin. apply Hclean. right. exact Hin.
Qed.
