(* C14 - the spine of a recorded path: while a nested path is listed in original_attributes, every intermediate key of
   it exists and holds a dictionary.  Consequences: RestoreAttribute of a listed path always succeeds (so the sequence
   theorem needs no "the calls report success" hypothesis) and DumpModifiedAttributes' walk reads exactly the value
   Get shows. *)
From Icv Require Import Base.Tac Persist.PsValue Persist.PsModel Persist.PsValueProofs Persist.PsRestoreProofs
  Persist.PsFrameProofs Persist.PsSeqProofs.
From Coq Require Import NArith.
Local Open Scope N_scope.

Fixpoint ps_spine (ks : list ps_key) (v : ps_value) : Prop :=
  match v with
  | PsDict d =>
    match ks with
    | [] => True
    | k :: ks' => match ps_dget_opt k d with Some c => ps_spine ks' c | None => False end
    end
  | _ => False
  end.

Lemma ps_spine_dict ks v : ps_spine ks v -> exists d, v = PsDict d.
Proof. destruct v; destruct ks; cbn; try contradiction; intros _; eexists; reflexivity. Qed.

Lemma ps_nest_set_spine l v : forall ks cur nv, ps_nest_set ks l v cur = Some nv -> ps_spine ks nv.
Proof.
  induction ks as [|k ks IH]; intros cur nv H; destruct cur; cbn in H; try discriminate.
  - inversion H. exact I.
  - destruct (ps_nest_set ks l v _) as [c'|] eqn:E; [|discriminate]. inversion H; subst. cbn.
    rewrite ps_dget_opt_dset_same. apply (IH _ _ E).
Qed.

Lemma ps_nest_set_spine_frame l v lq : forall ks cur nv qs,
  ps_nest_set ks l v cur = Some nv -> ps_spine qs cur -> ps_tincomp (qs ++ [lq]) (ks ++ [l]) -> ps_spine qs nv.
Proof.
  induction ks as [|k ks IH]; intros cur nv qs H Hs Hi; destruct cur; cbn in H; try discriminate.
  - inversion H; subst. destruct qs as [|q0 qs]; [exact I|]. cbn in Hs |- *.
    destruct Hi as [_ Hi]. cbn in Hi. rewrite andb_true_r in Hi.
    rewrite ps_dget_opt_dset_other; [exact Hs|]. intros ->. rewrite ps_key_eqb_refl in Hi. discriminate.
  - destruct (ps_nest_set ks l v _) as [c'|] eqn:E; [|discriminate]. inversion H; subst.
    destruct qs as [|q0 qs]; [exact I|]. cbn in Hs |- *.
    destruct (ps_key_eqb q0 k) eqn:Eq.
    + apply ps_key_eqb_eq in Eq. subst q0. rewrite ps_dget_opt_dset_same.
      destruct (ps_dget_opt k d) as [c|]; [|contradiction].
      apply (IH _ _ _ E Hs). apply (ps_tincomp_cons k). exact Hi.
    + rewrite ps_dget_opt_dset_other; [exact Hs|]. intros ->. rewrite ps_key_eqb_refl in Eq. discriminate.
Qed.

Lemma ps_nest_update_spine_frame l F lq :
  (forall d q, q <> l -> ps_dget_opt q (F d) = ps_dget_opt q d) ->
  forall ks cur nv qs,
  ps_nest_update ks F cur = Some nv -> ps_spine qs cur -> ps_tincomp (qs ++ [lq]) (ks ++ [l]) -> ps_spine qs nv.
Proof.
  intros HF. induction ks as [|k ks IH]; intros cur nv qs H Hs Hi; destruct cur; cbn in H; try discriminate.
  - inversion H; subst. destruct qs as [|q0 qs]; [exact I|]. cbn in Hs |- *.
    destruct Hi as [_ Hi]. cbn in Hi. rewrite andb_true_r in Hi.
    rewrite HF; [exact Hs|]. intros ->. rewrite ps_key_eqb_refl in Hi. discriminate.
  - destruct (ps_dget_opt k d) as [c|] eqn:Ec; [|discriminate].
    destruct (ps_nest_update ks F c) as [c'|] eqn:E; [|discriminate]. inversion H; subst.
    destruct qs as [|q0 qs]; [exact I|]. cbn in Hs |- *.
    destruct (ps_key_eqb q0 k) eqn:Eq.
    + apply ps_key_eqb_eq in Eq. subst q0. rewrite ps_dget_opt_dset_same. rewrite Ec in Hs.
      apply (IH _ _ _ E Hs). apply (ps_tincomp_cons k). exact Hi.
    + rewrite ps_dget_opt_dset_other; [exact Hs|]. intros ->. rewrite ps_key_eqb_refl in Eq. discriminate.
Qed.

Lemma ps_spine_update ks F : forall cur, ps_spine ks cur -> exists nv, ps_nest_update ks F cur = Some nv.
Proof.
  induction ks as [|k ks IH]; intros cur Hs; destruct cur; cbn in Hs; try contradiction; cbn.
  - eexists. reflexivity.
  - destruct (ps_dget_opt k d) as [c|]; [|contradiction]. destruct (IH c Hs) as (c' & ->). eexists. reflexivity.
Qed.

Lemma ps_spine_dma_walk l : forall ks cur, ps_spine ks cur -> ps_dma_walk ks l cur = Some (ps_nest_get (ks ++ [l]) cur).
Proof.
  induction ks as [|k ks IH]; intros cur Hs; destruct cur; cbn in Hs; try contradiction; cbn.
  - reflexivity.
  - unfold ps_dget. destruct (ps_dget_opt k d) as [c|]; [|contradiction]. apply IH. exact Hs.
Qed.

Lemma ps_loop_other_opt attr l x : forall og cd q, ps_own_only attr x og -> q <> l ->
  ps_dget_opt q (fold_left (ps_restore_entry (ps_split attr) l) og cd) = ps_dget_opt q cd.
Proof.
  induction og as [|[k y] og IH]; intros cd q Hown Hq; [reflexivity|]. cbn [fold_left].
  rewrite IH; [|intros kx Hin; apply Hown; right; exact Hin | exact Hq].
  unfold ps_restore_entry. cbn [fst snd]. destruct (ps_entry_matches (ps_split attr) k) eqn:Em; [|reflexivity].
  destruct (Hown (k, y) (or_introl eq_refl) Em) as [Hk _]. cbn in Hk. subst k.
  rewrite skipn_all. apply ps_dget_opt_dset_other. exact Hq.
Qed.

(* ---- object level ---- *)
Definition ps_spine_attr (p : ps_key) (o : ps_mobj) : Prop :=
  match ps_split p with
  | f :: r :: rest' => ps_spine (removelast (r :: rest')) (ps_dget f (ps_m_fields o))
  | _ => True
  end.

Lemma ps_spine_attr_same_fields p o o' : ps_m_fields o' = ps_m_fields o -> ps_spine_attr p o -> ps_spine_attr p o'.
Proof. intros H. unfold ps_spine_attr. rewrite H. tauto. Qed.

(* the field [f] replaced by [nv]: spines of incomparable paths survive if they survive inside [f] *)
Lemma ps_spine_attr_frame p k f rest nv o o' :
  ps_split p = f :: rest -> ps_incomp p k ->
  ps_m_fields o' = ps_dset f nv (ps_m_fields o) ->
  (forall qs lq, ps_tincomp (qs ++ [lq]) rest -> ps_spine qs (ps_dget f (ps_m_fields o)) -> ps_spine qs nv) ->
  ps_spine_attr k o -> ps_spine_attr k o'.
Proof.
  intros Hsp Hi Hf Hnv. unfold ps_spine_attr. unfold ps_incomp in Hi. rewrite Hsp in Hi.
  destruct (ps_split k) as [|g [|r rest']]; try tauto. rewrite Hf.
  destruct (ps_key_eqb g f) eqn:E.
  - apply ps_key_eqb_eq in E. subst g. rewrite ps_dget_dset_same. apply (Hnv _ (last (r :: rest') [])).
    rewrite <- app_removelast_last by discriminate.
    apply ps_tincomp_sym. apply (ps_tincomp_cons f). exact Hi.
  - rewrite ps_dget_dset_other; [tauto|]. intros ->. rewrite ps_key_eqb_refl in E. discriminate.
Qed.

Theorem ps_modify_spine fe p v now o ok o' :
  ps_modify_attribute fe p v true now o = (ok, o') ->
  (forall k, ps_incomp p k -> ps_spine_attr k o -> ps_spine_attr k o') /\
  (ps_spine_attr p o' \/ (ps_orig_dict o' = ps_orig_dict o /\ ps_m_fields o' = ps_m_fields o)).
Proof.
  intros Hmod. unfold ps_modify_attribute in Hmod.
  assert (forall o1, ps_m_fields o1 = ps_m_fields o -> ps_orig_dict o1 = ps_orig_dict o ->
          (forall k, ps_incomp p k -> ps_spine_attr k o -> ps_spine_attr k o1) /\
          (ps_spine_attr p o1 \/ (ps_orig_dict o1 = ps_orig_dict o /\ ps_m_fields o1 = ps_m_fields o))) as Hsame.
  { intros o1 H1 H2. split; [intros k _; apply ps_spine_attr_same_fields; exact H1 | right; split; assumption]. }
  destruct (ps_split p) as [|f rest] eqn:Hsp.
  { inversion Hmod; subst. apply Hsame; reflexivity. }
  destruct (ps_filookup fe f) as [fi|]; [|inversion Hmod; subst; apply Hsame; reflexivity].
  destruct (ps_fi_nomod fi); [inversion Hmod; subst; apply Hsame; reflexivity|].
  remember (if ps_fi_config fi then match ps_m_orig o with
            | None => {| ps_m_fields := ps_m_fields o; ps_m_orig := Some []; ps_m_version := ps_m_version o |}
            | Some _ => o end else o) as o1 eqn:Hdef.
  assert (ps_m_fields o1 = ps_m_fields o) as Hf1 by (rewrite Hdef; destruct (ps_fi_config fi); [destruct (ps_m_orig o)|]; reflexivity).
  assert (ps_orig_dict o1 = ps_orig_dict o) as Ho1
    by (rewrite Hdef; unfold ps_orig_dict; destruct (ps_fi_config fi); [destruct (ps_m_orig o) eqn:E; cbn; rewrite ?E|]; reflexivity).
  clear Hdef.
  destruct rest as [|r rest'].
  - (* top-level: the path itself has no spine; other paths of the same field are comparable *)
    cbn in Hmod. split.
    + intros k Hi Hs. destruct (ps_field_accepts fi v); inversion Hmod; subst ok o'; clear Hmod.
      * apply (ps_spine_attr_frame p k f [] (ps_coerce fi v) o1); [exact Hsp | exact Hi | reflexivity | | apply (ps_spine_attr_same_fields k o o1 Hf1 Hs)].
        intros qs lq Ht. exfalso. apply (ps_tincomp_nil_l _ (ps_tincomp_sym _ _ Ht)).
      * apply (ps_spine_attr_same_fields k o); [exact Hf1 | exact Hs].
    + left. unfold ps_spine_attr. rewrite Hsp. exact I.
  - set (rest := r :: rest') in *.
    set (ks := removelast rest) in *. set (l := last rest []) in *.
    assert (rest = ks ++ [l]) as Hrest by (apply app_removelast_last; discriminate).
    set (oldf := ps_dget f (ps_m_fields o1)) in *.
    set (start := if ps_is_empty oldf then PsDict [] else oldf) in *.
    cbv zeta in Hmod.
    destruct (ps_nest_old ks l start) as [ov|]; [|inversion Hmod; subst; apply Hsame; assumption].
    destruct (ps_nest_set ks l v start) as [nv|] eqn:Hset; [|inversion Hmod; subst; apply Hsame; assumption].
    destruct (ps_nest_set_is_dict _ _ _ _ _ Hset) as (nd & ->).
    assert (ps_field_accepts fi (PsDict nd) = true) as Hacc by (unfold ps_field_accepts; cbn; rewrite orb_true_r; reflexivity).
    rewrite Hacc in Hmod. inversion Hmod; subst ok o'; clear Hmod. split.
    + intros k Hi Hs.
      apply (ps_spine_attr_frame p k f rest (PsDict nd) o1); [exact Hsp | exact Hi | reflexivity | | apply (ps_spine_attr_same_fields k o o1 Hf1 Hs)].
      intros qs lq Ht Hq. rewrite Hrest in Ht. apply (ps_nest_set_spine_frame l v lq ks start (PsDict nd) qs Hset); [|exact Ht].
      revert Hq. unfold start, oldf. destruct (ps_dget f (ps_m_fields o1)); cbn [ps_is_empty]; intros Hq; try exact Hq.
      destruct qs; cbn in Hq; contradiction.
    + left. unfold ps_spine_attr. rewrite Hsp. cbn [ps_m_fields]. rewrite ps_dget_dset_same. cbn [ps_coerce].
      fold rest. fold ks. apply (ps_nest_set_spine l v ks start _ Hset).
Qed.

Theorem ps_restore_spine fe p now o ok o' x :
  ps_restore_attribute fe p true now o = (ok, o') -> ps_own_only p x (ps_orig_dict o) ->
  forall k, ps_incomp p k -> ps_spine_attr k o -> ps_spine_attr k o'.
Proof.
  intros Hres Hown k Hi Hs. unfold ps_restore_attribute in Hres.
  destruct (ps_split p) as [|f rest] eqn:Hsp; [inversion Hres; subst; exact Hs|].
  destruct (ps_filookup fe f) as [fi|]; [|inversion Hres; subst; exact Hs].
  destruct (ps_m_orig o) as [og|] eqn:Horig; [|inversion Hres; subst; exact Hs].
  assert (ps_orig_dict o = og) as Hog by (unfold ps_orig_dict; rewrite Horig; reflexivity). rewrite Hog in Hown.
  destruct rest as [|r rest'].
  - destruct (negb (ps_dcontains p og)); inversion Hres; subst ok o'; [exact Hs|].
    apply (ps_spine_attr_frame p k f [] (ps_coerce fi (ps_dget p og)) o); [exact Hsp | exact Hi | reflexivity | | exact Hs].
    intros qs lq Ht. exfalso. apply (ps_tincomp_nil_l _ (ps_tincomp_sym _ _ Ht)).
  - set (rest := r :: rest') in *.
    set (ks := removelast rest) in *. set (l := last rest []) in *.
    assert (rest = ks ++ [l]) as Hrest by (apply app_removelast_last; discriminate).
    set (cur := ps_dget f (ps_m_fields o)) in *.
    destruct (ps_is_empty cur); [inversion Hres; subst; exact Hs|].
    set (F := fun cd => fold_left (ps_restore_entry (f :: rest) l) og cd) in *.
    destruct (ps_nest_update ks F cur) as [nv|] eqn:Hu; [|inversion Hres; subst; exact Hs].
    destruct (ps_nest_update_is_dict _ _ _ _ Hu) as (nd & ->).
    inversion Hres; subst ok o'; clear Hres.
    apply (ps_spine_attr_frame p k f rest (PsDict nd) o); [exact Hsp | exact Hi | reflexivity | | exact Hs].
    intros qs lq Ht Hq. rewrite Hrest in Ht.
    apply (ps_nest_update_spine_frame l F lq) with (ks := ks) (cur := cur); [|exact Hu | exact Hq | exact Ht].
    intros d q Hq'. unfold F. rewrite <- Hsp. apply (ps_loop_other_opt p l x); assumption.
Qed.

Lemma ps_split_nonempty s : ps_split s <> [].
Proof.
  unfold ps_split. generalize (@nil N). induction s as [|c s IH]; intros cur; cbn; [discriminate|].
  destruct (c =? ps_dot); [discriminate | apply IH].
Qed.

(* RestoreAttribute of a listed configuration attribute whose spine is intact reports success *)
Theorem ps_restore_succeeds fe p now o :
  ps_cfg_field fe p -> ps_dcontains p (ps_orig_dict o) = true -> ps_spine_attr p o ->
  fst (ps_restore_attribute fe p true now o) = true.
Proof.
  intros (fi & Hfi & _) Hc Hs. unfold ps_restore_attribute. unfold ps_field_of in Hfi. unfold ps_spine_attr in Hs.
  pose proof (ps_split_nonempty p) as Hne.
  destruct (ps_split p) as [|f rest]; [contradiction|].
  rewrite Hfi. destruct (ps_m_orig o) as [og|] eqn:Horig; [|reflexivity].
  destruct rest as [|r rest']; [destruct (negb _); reflexivity|].
  destruct (ps_spine_dict _ _ Hs) as (d & Hd). rewrite Hd. cbn [ps_is_empty].
  rewrite Hd in Hs.
  destruct (ps_spine_update (removelast (r :: rest'))
             (fun cd => fold_left (ps_restore_entry (f :: r :: rest') (last (r :: rest') [])) og cd) (PsDict d) Hs) as (nv & ->).
  reflexivity.
Qed.

(* ---- the sequence theorem without the "calls report success" hypothesis ---- *)
Section Sequence2.
  Variable fe : ps_fenv.
  Variable P : list ps_key.
  Variable o0 : ps_mobj.
  Hypothesis HPinc : forall p p', In p P -> In p' P -> p <> p' -> ps_incomp p p'.
  Hypothesis HPcfg : forall p, In p P -> ps_cfg_field fe p.
  Hypothesis HPtyp : forall p, In p P -> forall fi, ps_filookup fe (ps_field_of p) = Some fi ->
                                          ps_coerce fi (ps_get_attr p o0) = ps_get_attr p o0.

  Definition ps_spine_inv (o : ps_mobj) : Prop :=
    ps_seq_inv P o0 o /\ (forall k x, In (k, x) (ps_orig_dict o) -> ps_spine_attr k o).

  Lemma ps_spine_step o op :
    ps_spine_inv o -> In (ps_op_path op) P ->
    (match op with PsOpMod p _ _ => ps_is_dict (ps_get_attr p o) = false | PsOpRes _ _ => True end) ->
    ps_spine_inv (snd (ps_apply fe o op)).
  Proof.
    intros [Hinv Hsp] Hp Hnd. split; [apply (ps_seq_step fe P o0 HPinc HPcfg HPtyp); assumption|].
    pose proof Hinv as (I1 & _ & _). destruct op as [p v t | p t]; cbn in Hp |- *.
    - destruct (ps_modify_attribute fe p v true t o) as [ok o'] eqn:Hm. cbn.
      destruct (ps_modify_spec fe p v t o ok o' Hm (HPcfg p Hp) Hnd) as (_ & HC & _).
      destruct (ps_modify_spine fe p v t o ok o' Hm) as (HS1 & HS2).
      intros k x Hin. destruct (ps_key_eqb k p) eqn:E.
      + apply ps_key_eqb_eq in E. subst k. destruct HS2 as [HS2|[HS2 HS3]]; [exact HS2|].
        rewrite HS2 in Hin. apply (ps_spine_attr_same_fields p o o' HS3). exact (Hsp p x Hin).
      + assert (p <> k) as Hne by (intros ->; rewrite ps_key_eqb_refl in E; discriminate).
        assert (In (k, x) (ps_orig_dict o)) as Hin0.
        { destruct HC as [HC|[_ HC]]; [rewrite <- HC; exact Hin|]. rewrite HC in Hin.
          apply ps_in_dset in Hin. destruct Hin as [Hin|Hin]; [inversion Hin; subst; contradiction | exact Hin]. }
        apply (HS1 k); [|exact (Hsp k x Hin0)]. apply HPinc; [exact Hp | exact (proj1 (I1 k x Hin0)) | exact Hne].
    - destruct (ps_restore_attribute fe p true t o) as [ok o'] eqn:Hr. cbn.
      pose proof (ps_seq_own_only P o0 HPinc o p Hinv Hp) as Hown.
      destruct (ps_restore_spec fe p t o ok o' (ps_get_attr p o0) Hr Hown (HPtyp p Hp)) as (_ & HC & _ & HF).
      intros k x Hin. apply HC in Hin. destruct Hin as [Hin0 Hne].
      destruct ok; [|rewrite (HF eq_refl); exact (Hsp k x Hin0)].
      specialize (Hne eq_refl). cbn in Hne.
      apply (ps_restore_spine fe p t o true o' _ Hr Hown k); [|exact (Hsp k x Hin0)].
      apply HPinc; [exact Hp | exact (proj1 (I1 k x Hin0)) | intros E; apply Hne; symmetry; exact E].
  Qed.

  Lemma ps_spine_run h : forall o, ps_spine_inv o -> ps_hist_ok fe P o h -> ps_spine_inv (ps_run fe o h).
  Proof.
    induction h as [|op h IH]; intros o Hinv Hok; [exact Hinv|].
    destruct Hok as (Hp & Hnd & Hrest). cbn. apply IH; [|exact Hrest]. apply ps_spine_step; assumption.
  Qed.

  Lemma ps_restores_entries2 rs : forall o,
    ps_spine_inv o -> (forall r, In r rs -> In (fst r) P) ->
    forall kx, In kx (ps_orig_dict (ps_run fe o (ps_restores rs))) -> In kx (ps_orig_dict o) /\ ~ In (fst kx) (map fst rs).
  Proof.
    induction rs as [|[p t] rs IH]; intros o Hinv HP kx Hin; [cbn in Hin |- *; tauto|].
    cbn in Hin.
    assert (In p P) as Hp by (apply (HP (p, t)); left; reflexivity).
    pose proof (ps_spine_step o (PsOpRes p t) Hinv Hp I) as Hinv'. cbn in Hinv'.
    destruct (ps_restore_attribute fe p true t o) as [ok o'] eqn:Hr. cbn in Hin, Hinv'.
    destruct Hinv as [Hseq Hsp].
    destruct (ps_restore_spec fe p t o ok o' (ps_get_attr p o0) Hr (ps_seq_own_only P o0 HPinc o p Hseq Hp) (HPtyp p Hp))
      as (_ & HC & _ & HF).
    destruct (IH o' Hinv' (fun r Hr' => HP r (or_intror Hr')) kx Hin) as [Hin' Hnot].
    apply HC in Hin'. destruct Hin' as [Hin0 Hne]. split; [exact Hin0|].
    cbn. intros [E|E]; [|exact (Hnot E)].
    destruct ok; [apply (Hne eq_refl); symmetry; exact E|].
    (* a failing restore: then p was not listed *)
    destruct kx as [k x]. cbn in E. subst k.
    assert (ps_dcontains p (ps_orig_dict o) = true) as Hc.
    { destruct (ps_dcontains p (ps_orig_dict o)) eqn:Ec; [reflexivity|]. exfalso. exact (ps_dcontains_false_not_in p _ Ec x Hin0). }
    pose proof (ps_restore_succeeds fe p t o (HPcfg p Hp) Hc (Hsp p x Hin0)) as Hs. rewrite Hr in Hs. discriminate.
  Qed.

  Theorem ps_restore_sequence_total h rs :
    ps_orig_dict o0 = [] ->
    ps_hist_ok fe P o0 h ->
    let o := ps_run fe o0 h in
    (forall r, In r rs -> In (fst r) P) ->
    (forall k x, In (k, x) (ps_orig_dict o) -> In k (map fst rs)) ->
    let o' := ps_run fe o (ps_restores rs) in
    (forall p, In p P -> ps_get_attr p o' = ps_get_attr p o0) /\
    (forall q, (forall p, In p P -> ps_incomp p q) -> ps_get_attr q o' = ps_get_attr q o0) /\
    ps_orig_dict o' = [].
  Proof.
    intros H0 Hh o HrsP Hcover o'.
    assert (ps_spine_inv o0) as Hinv0.
    { split; [apply ps_seq_inv_init; exact H0|]. intros k x Hin. rewrite H0 in Hin. contradiction. }
    assert (ps_spine_inv o) as Hinv by (apply ps_spine_run; assumption).
    assert (ps_spine_inv o') as Hinv' by (apply ps_spine_run; [exact Hinv | apply ps_restores_hist_ok; exact HrsP]).
    assert (ps_orig_dict o' = []) as Hempty.
    { destruct (ps_orig_dict o') as [|[k x] og] eqn:E; [reflexivity|]. exfalso.
      destruct (ps_restores_entries2 rs o Hinv HrsP (k, x)) as [Hin Hnot]; [unfold o' in E; rewrite E; left; reflexivity|].
      apply Hnot. exact (Hcover k x Hin). }
    destruct Hinv' as [(_ & I2 & I3) _]. split; [|split; [exact I3 | exact Hempty]].
    intros p Hp. apply (I2 p Hp). intros x Hin. rewrite Hempty in Hin. contradiction.
  Qed.
End Sequence2.
