(* C14 - the state file as FRAMED records: the size limits of the write side (ConfigObject::DumpObjects: JsonEncode +
   NetString::WriteStringToStream, configobject.cpp:461-501) and of the read side (ConfigObject::RestoreObjects:
   NetString::ReadStringFromStream; RestoreObject: JsonDecode, configobject.cpp:503-588).  Definitions only.
   The limits are read from the regenerated source facts (Facts_c14, Facts_c20), never constants of the model:
     - the netstring reader throws on a length prefix of more than [digits] digits and, when a maxMessageLength is
       passed, on len + 1 > maxMessageLength; RestoreObjects lets that exception through: the daemon does not start;
     - RestoreObject runs inside a WorkQueue whose exceptions nobody reports: a record the JSON decoder rejects
       (nesting deeper than its limit) is silently skipped - the object keeps the state of a freshly configured one;
     - DumpObjects writes every object, whatever the length or nesting of its JSON text. *)
From Icv Require Import Base.Tac Persist.PsValue Persist.PsModel Facts.Facts_c14 Facts.Facts_c20.
From Coq Require Import NArith.
Local Open Scope N_scope.

(* nesting depth of the JSON text of a value: number of containers on the deepest path (a reflected object is written
   as a dictionary) *)
Fixpoint ps_json_depth (v : ps_value) {struct v} : N :=
  match v with
  | PsArr l => 1 + (fix go (l : list ps_value) : N := match l with [] => 0 | x :: t => N.max (ps_json_depth x) (go t) end) l
  | PsDict d => 1 + (fix go (d : ps_dict) : N := match d with [] => 0 | (_, x) :: t => N.max (ps_json_depth x) (go t) end) d
  | PsObj _ fs => 1 + (fix go (d : ps_dict) : N := match d with [] => 0 | (_, x) :: t => N.max (ps_json_depth x) (go t) end) fs
  | _ => 0
  end.

(* NetString::ReadStringFromStream(stream, &str, context, may_wait, maxMessageLength) on a record of [len] bytes *)
Definition ps_frame_accepts (digits : N) (maxlen : option N) (len : N) : bool :=
  (len <? 10 ^ digits) && match maxlen with None => true | Some m => len + 1 <=? m end.

(* JsonSax::start_object / start_array: "m_CurrentSubtree.size() >= limit -> throw" *)
Definition ps_depth_accepts (dlim : option N) (v : ps_value) : bool :=
  match dlim with None => true | Some n => ps_json_depth v <=? n end.

(* what DumpObjects is willing to write *)
Definition ps_frame_written (wmax : option N) (len : N) : bool :=
  match wmax with None => true | Some m => len <=? m end.

(* the file: the records in dump order, each with the byte length of its JSON text ([jlen]: the encoder's output
   length, an input of the model - C20 decides the JSON codec) *)
Definition ps_dump_file (jlen : ps_value -> N) (env : ps_tenv) (mask : N) (objs : list ps_cobj) : list (ps_value * N) :=
  map (fun o => let r := ps_dump_object env mask o in (r, jlen r)) objs.

(* RestoreObjects.  None: the reader threw, the daemon refuses to start *)
Fixpoint ps_restore_file (env : ps_tenv) (mask : N) (digits : N) (maxlen dlim : option N)
         (file : list (ps_value * N)) (pop : list ps_cobj) : option (list ps_cobj) :=
  match file with
  | [] => Some pop
  | (rec, len) :: t =>
    if ps_frame_accepts digits maxlen len
    then ps_restore_file env mask digits maxlen dlim t
                         (if ps_depth_accepts dlim rec then ps_restore_record env mask pop rec else pop)
    else None
  end.

(* ---- the limits the source has now ---- *)
Definition ps_opt_n (z : Z) : N := Z.to_N z.

Definition ps_src_len_digits : N := match f_ps_ns_len_digits with Some d => ps_opt_n d | None => 0 end.
Definition ps_src_restore_maxlen : option N :=
  match f_ps_restore_maxlen with Some (Some m) => Some (ps_opt_n m) | Some None => None | None => Some 0 end.
Definition ps_src_dump_maxlen : option N :=
  match f_ps_dump_maxlen with Some (Some m) => Some (ps_opt_n m) | Some None => None | None => None end.
(* nesting limit of the decoder RestoreObject uses *)
Definition ps_src_state_depth : option N :=
  match f_ps_restore_default_decoder with
  | Some true => match f_js_max_depth with Some n => Some (ps_opt_n n) | None => None end
  | Some false => None
  | None => Some 0
  end.

Definition ps_src_restore_file (env : ps_tenv) (mask : N) : list (ps_value * N) -> list ps_cobj -> option (list ps_cobj) :=
  ps_restore_file env mask ps_src_len_digits ps_src_restore_maxlen ps_src_state_depth.

(* for the correspondence run: is a record accepted whose value of interest [v] sits [outer] containers deep and whose
   JSON text is at least [len] bytes long *)
Definition ps_src_depth_fits (outer : N) (v : ps_value) : bool :=
  match ps_src_state_depth with None => true | Some n => outer + ps_json_depth v <=? n end.
Definition ps_src_frame_fits (len : N) : bool := ps_frame_accepts ps_src_len_digits ps_src_restore_maxlen len.

(* k-fold wrapping in arrays (witnesses, generators) *)
Fixpoint ps_wrap (k : nat) (v : ps_value) : ps_value := match k with O => v | S n => PsArr [ps_wrap n v] end.
