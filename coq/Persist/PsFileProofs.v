(* C14 - the state file with its size limits: round trip for every population whose records the read side accepts;
   the limits of the two sides as read from the source; the nesting-depth asymmetry (finding state-depth-limit). *)
From Icv Require Import Base.Tac Persist.PsValue Persist.PsModel Persist.PsValueProofs Persist.PsStateProofs Persist.PsFileModel
  Facts.Facts_c14 Facts.Facts_c20.
From Coq Require Import NArith.
Local Open Scope N_scope.

Lemma ps_restore_file_accepted env mask digits maxlen dlim : forall file pop,
  (forall r, In r file -> ps_frame_accepts digits maxlen (snd r) = true /\ ps_depth_accepts dlim (fst r) = true) ->
  ps_restore_file env mask digits maxlen dlim file pop = Some (ps_restore_objects env mask (map fst file) pop).
Proof.
  induction file as [|[rec len] file IH]; intros pop Hacc; [reflexivity|].
  destruct (Hacc (rec, len) (or_introl eq_refl)) as [Hf Hd]. cbn in Hf, Hd.
  cbn [ps_restore_file]. rewrite Hf, Hd. rewrite IH by (intros r Hin; apply Hacc; right; exact Hin). reflexivity.
Qed.

Lemma ps_dump_file_fst jlen env mask objs : map fst (ps_dump_file jlen env mask objs) = ps_dump_objects env mask objs.
Proof. unfold ps_dump_file, ps_dump_objects. rewrite map_map. reflexivity. Qed.

(* THE STATE FILE ROUND TRIP WITH THE SIZE PREMISES MADE EXPLICIT: for every population, every JSON length function,
   every limit configuration of the read side - if each record is one the reader accepts (length prefix short enough,
   length within maxMessageLength when there is one, nesting within the decoder's limit when there is one), then
   RestoreObjects succeeds and gives back the population.  Size enters nowhere else. *)
Theorem ps_file_roundtrip jlen env mask digits maxlen dlim objs fresh :
  ps_env_ok env -> (mask =? 0) = false ->
  Forall2 (ps_obj_shape env mask) objs fresh -> NoDup (map ps_id objs) ->
  (forall o, In o objs -> ps_persisted_clean env mask o) ->
  (forall o, In o objs -> ps_frame_accepts digits maxlen (jlen (ps_dump_object env mask o)) = true /\
                           ps_depth_accepts dlim (ps_dump_object env mask o) = true) ->
  ps_restore_file env mask digits maxlen dlim (ps_dump_file jlen env mask objs) fresh = Some objs.
Proof.
  intros Henv Hm Hshape Hnd Hclean Hacc.
  rewrite ps_restore_file_accepted.
  - rewrite ps_dump_file_fst. f_equal. apply ps_population_roundtrip_clean; assumption.
  - intros r Hin. unfold ps_dump_file in Hin. apply in_map_iff in Hin. destruct Hin as (o & <- & Hin). cbn. apply Hacc. exact Hin.
Qed.

(* a record the frame reader rejects: RestoreObjects throws, nothing is loaded (what a read-side-only length limit does) *)
Theorem ps_file_frame_rejected env mask digits maxlen dlim rec len file pop :
  ps_frame_accepts digits maxlen len = false ->
  ps_restore_file env mask digits maxlen dlim ((rec, len) :: file) pop = None.
Proof. intros H. cbn. rewrite H. reflexivity. Qed.

(* ---- the limits as the source has them ---- *)
(* the write side has no length limit, the read side none below the 10^digits of the length prefix: every record
   DumpObjects writes whose JSON text is shorter than 10^9 bytes is accepted by RestoreObjects' reader.  (Stops
   checking when either side gets a limit the other does not have.) *)
Theorem ps_src_frame_limits_agree : forall len,
  ps_frame_written ps_src_dump_maxlen len = true -> len < 10 ^ 9 -> ps_src_frame_fits len = true.
Proof.
  intros len _ Hlt. unfold ps_src_frame_fits, ps_frame_accepts.
  assert (ps_src_len_digits = 9) as -> by reflexivity.
  assert (ps_src_restore_maxlen = None) as -> by reflexivity.
  rewrite andb_true_r. apply N.ltb_lt. exact Hlt.
Qed.

Theorem ps_src_writer_unlimited : ps_src_dump_maxlen = None /\ f_ps_encode_depth_limited = Some false.
Proof. split; reflexivity. Qed.

(* ---- nesting: the write side has no limit, the decoder of the read side has one (finding state-depth-limit) ---- *)
Lemma ps_json_depth_wrap k v : ps_json_depth (ps_wrap k v) = N.of_nat k + ps_json_depth v.
Proof.
  induction k as [|k IH]; [reflexivity|]. cbn [ps_wrap ps_json_depth]. rewrite IH. rewrite N.max_0_r. lia.
Qed.

(* with a decoder limit of 128 (the pinned form of the source): a host whose check result carries a performance data
   element nested 125 arrays deep - the record {name,type,update:{..,l:{o,p:[...]}}} is 129 containers deep - is
   written by DumpObjects and silently skipped by RestoreObjects: the host comes back with the state of a freshly
   configured object, although every value is clean.  One level less comes back. *)
Definition ps_f_cr (k : nat) : ps_value := PsObj [67] [([111], PsStr [120]); ([112], PsArr [ps_wrap k (PsNum 1 0)])].
Definition ps_f_objs (k : nat) := [ps_s_host [1] (PsStr [99]) (PsNum 2 0) (ps_f_cr k)].
Definition ps_f_fresh := [ps_s_host [1] (PsStr [99]) (PsNum 0 0) PsEmpty].

Theorem ps_file_depth_refuted :
  ps_clean ps_s_env ps_FAState (ps_f_cr 125) = true /\
  ps_json_depth (ps_dump_object ps_s_env ps_FAState (ps_s_host [1] (PsStr [99]) (PsNum 2 0) (ps_f_cr 125))) = 129 /\
  ps_restore_file ps_s_env ps_FAState 9 None (Some 128) (ps_dump_file (fun _ => 1000) ps_s_env ps_FAState (ps_f_objs 125)) ps_f_fresh
    = Some ps_f_fresh /\
  ps_restore_file ps_s_env ps_FAState 9 None (Some 128) (ps_dump_file (fun _ => 1000) ps_s_env ps_FAState (ps_f_objs 124)) ps_f_fresh
    = Some (ps_f_objs 124) /\
  ps_restore_file ps_s_env ps_FAState 9 None None (ps_dump_file (fun _ => 1000) ps_s_env ps_FAState (ps_f_objs 125)) ps_f_fresh
    = Some (ps_f_objs 125).
Proof. vm_compute. repeat split; reflexivity. Qed.

(* non-vacuity of ps_file_roundtrip: two hosts, one with a nested check result, under the limits the source has *)
Example ps_file_roundtrip_nonvacuous :
  let cr := PsObj [67] [([111], PsStr [120]); ([112], PsArr [PsDict [([97], PsNum 5 1)]; PsEmpty])] in
  let objs := [ps_s_host [1] (PsStr [99]) (PsNum 2 0) cr; ps_s_host [2] (PsStr [100]) (PsNum 1 0) PsEmpty] in
  let fresh := [ps_s_host [1] (PsStr [99]) (PsNum 0 0) PsEmpty; ps_s_host [2] (PsStr [100]) (PsNum 0 0) PsEmpty] in
  ps_src_restore_file ps_s_env ps_FAState (ps_dump_file (fun _ => 2000000) ps_s_env ps_FAState objs) fresh = Some objs /\
  (forall o, In o objs -> ps_src_frame_fits 2000000 = true /\ ps_depth_accepts ps_src_state_depth (ps_dump_object ps_s_env ps_FAState o) = true).
Proof.
  vm_compute. split; [reflexivity|]. intros o [<-|[<-|[]]]; split; reflexivity.
Qed.
