(* C14 - modified-attributes.conf as TEXT (definitions only).
   IcingaApplication::DumpModifiedAttributes / PersistModAttrHelper (icingaapplication.cpp:129-192) write, per object
   that lists something,
       var obj = get_object("<Type>", "<name>")
       if (obj) {
       <TAB>obj.modify_attribute("<attr>", <value literal>)         one line per original_attributes entry
       <TAB>obj.version = <number>
       }
   through ConfigWriter (EmitFunctionCall -> EmitArrayItems(fp, 0, ..) -> EmitValue(fp, 0, ..)); the start-up compiles the
   WHOLE file with ConfigCompiler::CompileFile (configitem.cpp:650) - outside any try block: a syntax error anywhere means
   that nothing is evaluated and ActivateItems throws - and evaluates it.
   The writer, the lexer and the literal parser are C17's model (Cw/CwModel.v: cw_emit_value, cw_emit_string, cw_lex,
   cw_pvalue, tables regenerated from /repo); this file maps C14's values to C17's and back and defines the codec
       value  --ps_to_cw-->  cw_value  --cw_emit_value-->  bytes  --cw_parse_literal-->  cw_value  --ps_of_cw-->  value
   Numbers: C14's decimals m * 10^-k become the digit lists of the fixed notation with k fractional digits (the text
   EmitNumber prints for such a double: six decimals, more only while the text does not read back, see CwModel.v). *)
From Icv Require Import Base.Tac Persist.PsValue Persist.PsModel Persist.PsPopModel Cw.CwModel.
From Coq Require Import NArith.
Local Open Scope N_scope.

(* ---------------------------------------------------------------- decimal digits *)
Definition ps_dstep (a d : N) : N := 10 * a + d.
Definition ps_dval (l : list N) : N := fold_left ps_dstep l 0.

Fixpoint ps_digits_f (fuel : nat) (n : N) (acc : list N) : list N :=
  match fuel with
  | O => acc
  | S f => if n <? 10 then n :: acc else ps_digits_f f (n / 10) (n mod 10 :: acc)
  end.
(* most significant digit first; 0 is [0] *)
Definition ps_digits (n : N) : list N := ps_digits_f (S (N.to_nat (N.log2 n))) n [].

Definition ps_pad0 (len : nat) (l : list N) : list N := repeat 0 (len - length l) ++ l.

(* strip trailing zeros of a decimal  a * 10^-k *)
Fixpoint ps_nnorm (k : nat) (a : N) : N * nat :=
  match k with
  | O => (a, O)
  | S k' => if a mod 10 =? 0 then ps_nnorm k' (a / 10) else (a, k)
  end.

(* ---------------------------------------------------------------- C14 values <-> C17 values *)
Definition ps_num_to_cw (m : Z) (k : N) : cw_value :=
  let ds := ps_pad0 (S (N.to_nat k)) (ps_digits (Z.abs_N m)) in
  let n := (length ds - N.to_nat k)%nat in
  CwNum (Z.ltb m 0) (firstn n ds) (skipn n ds).

Fixpoint ps_to_cw (v : ps_value) : cw_value :=
  match v with
  | PsEmpty => CwNull
  | PsBool b => CwBool b
  | PsNum m k => ps_num_to_cw m k
  | PsStr s => CwStr s
  | PsArr l => CwArr ((fix go (l : list ps_value) : cw_vlist :=
                         match l with [] => VNil | x :: t => VCons (ps_to_cw x) (go t) end) l)
  | PsDict d => CwDict ((fix go (d : ps_dict) : cw_dlist :=
                           match d with [] => DNil | (k, x) :: t => DCons k (ps_to_cw x) (go t) end) d)
  | PsObj _ _ => CwNull               (* reflected objects are no configuration values; excluded by ps_txt_ok *)
  end.

Definition ps_num_of_cw (neg : bool) (ip fp : list N) : ps_value :=
  let '(a, k) := ps_nnorm (length fp) (ps_dval (ip ++ fp)) in
  PsNum (if neg then Z.opp (Z.of_N a) else Z.of_N a) (N.of_nat k).

(* the entries of a dictionary literal are inserted in text order; the text comes from an ordered map *)
Fixpoint ps_of_cw (v : cw_value) : ps_value :=
  match v with
  | CwNull => PsEmpty
  | CwBool b => PsBool b
  | CwNum neg ip fp => ps_num_of_cw neg ip fp
  | CwStr s => PsStr s
  | CwArr l => PsArr (ps_of_cw_items l)
  | CwDict d => PsDict (ps_of_cw_entries d)
  end
with ps_of_cw_items (l : cw_vlist) : list ps_value :=
  match l with VNil => [] | VCons v r => ps_of_cw v :: ps_of_cw_items r end
with ps_of_cw_entries (d : cw_dlist) : ps_dict :=
  match d with DNil => [] | DCons k v r => (k, ps_of_cw v) :: ps_of_cw_entries r end.

(* ---------------------------------------------------------------- the text and the codec *)
(* EmitValue(fp, 0, value) -> EmitScope(fp, 0, ..): the entries of a top-level dictionary and its closing brace are not
   indented, the entries of a dictionary nested in it by one tab, ... *)
Definition ps_text_of (v : ps_value) : cw_bytes := cw_emit_value cw_src_mode 0 (ps_to_cw v).

(* what the config compiler reads back from the literal; None = syntax error *)
Definition ps_text_codec (v : ps_value) : option ps_value :=
  match cw_parse_literal (ps_text_of v ++ [10]) with
  | Some c => Some (ps_of_cw c)
  | None => None
  end.

(* the attribute name is written with EmitString and read back by the lexer's STRING state *)
Definition ps_text_key (k : ps_key) : option ps_key := cw_lex_string (cw_emit_string k).

Definition ps_s_modline : cw_bytes :=      (* <TAB>obj.modify_attribute( *)
  [9; 111; 98; 106; 46; 109; 111; 100; 105; 102; 121; 95; 97; 116; 116; 114; 105; 98; 117; 116; 101; 40].
Definition ps_s_verline : cw_bytes :=      (* <TAB>obj.version =  *)
  [9; 111; 98; 106; 46; 118; 101; 114; 115; 105; 111; 110; 32; 61; 32].

Definition ps_line_text (kv : ps_key * ps_value) : cw_bytes :=
  ps_s_modline ++ cw_emit_string (fst kv) ++ [44; 32] ++ ps_text_of (snd kv) ++ [41; 10].

(* the body of a block: its modify_attribute lines, the version line, the closing brace *)
Definition ps_block_text (b : ps_block) : cw_bytes :=
  concat (map ps_line_text (ps_b_lines b)) ++ ps_s_verline ++ ps_text_of (PsNum (ps_b_version b) 0) ++ [10; 125; 10].

(* ---------------------------------------------------------------- compiling the file *)
Fixpoint ps_lines_parse (ls : list (ps_key * ps_value)) : option (list (ps_key * ps_value)) :=
  match ls with
  | [] => Some []
  | kv :: t =>
    match ps_text_key (fst kv), ps_text_codec (snd kv), ps_lines_parse t with
    | Some k, Some v, Some r => Some ((k, v) :: r)
    | _, _, _ => None
    end
  end.

Definition ps_block_parse (b : ps_block) : option ps_block :=
  match ps_text_key (ps_b_name b), ps_lines_parse (ps_b_lines b), ps_text_codec (PsNum (ps_b_version b) 0) with
  | Some n, Some ls, Some (PsNum m 0) => Some {| ps_b_name := n; ps_b_lines := ls; ps_b_version := m |}
  | _, _, _ => None
  end.

Fixpoint ps_file_parse (blocks : list ps_block) : option (list ps_block) :=
  match blocks with
  | [] => Some []
  | b :: t => match ps_block_parse b, ps_file_parse t with
              | Some b', Some r => Some (b' :: r)
              | _, _ => None
              end
  end.

(* start-up: CompileFile(ModAttrPath) - a syntax error ANYWHERE in the file: nothing is evaluated (and the activation
   throws) - then the evaluation block by block *)
Definition ps_pop_replay_text (fe : ps_fenv) (now : Z) (blocks : list ps_block) (pop : ps_pop) : bool * ps_pop :=
  match ps_file_parse blocks with
  | None => (false, pop)
  | Some bs => ps_pop_replay fe now bs pop
  end.

(* the whole stop/start cycle with the file as text *)
Definition ps_pop_restart_text (fe : ps_fenv) (now : Z) (running base : ps_pop) : option (bool * ps_pop) :=
  match ps_pop_dump running with
  | None => None
  | Some blocks => Some (ps_pop_replay_text fe now blocks (ps_state_restore running base))
  end.

(* ---------------------------------------------------------------- values the text carries faithfully *)
(* a decimal in lowest terms *)
Definition ps_num_ok (m : Z) (k : N) : Prop := k = 0 \/ Z.abs_N m mod 10 <> 0.

(* no reflected objects, decimals in lowest terms, and no dictionary key - at any depth - that the lexer reads as a
   keyword although the writer leaves it bare (cw_key_lexes: `debugger`, `in` as the tables stand; see
   C14_modattr_keyword_key_refuted) *)
Fixpoint ps_txt_ok (v : ps_value) : Prop :=
  match v with
  | PsNum m k => ps_num_ok m k
  | PsArr l => (fix go (l : list ps_value) : Prop := match l with [] => True | x :: t => ps_txt_ok x /\ go t end) l
  | PsDict d => (fix go (d : ps_dict) : Prop :=
                   match d with [] => True | (k, x) :: t => cw_key_lexes k = true /\ ps_txt_ok x /\ go t end) d
  | PsObj _ _ => False
  | _ => True
  end.

(* executable form, for the glue and for examples *)
Fixpoint ps_txt_okb (v : ps_value) : bool :=
  match v with
  | PsNum m k => (k =? 0) || negb (Z.abs_N m mod 10 =? 0)
  | PsArr l => forallb ps_txt_okb l
  | PsDict d => (fix go (d : ps_dict) : bool :=
                   match d with [] => true | (k, x) :: t => cw_key_lexes k && ps_txt_okb x && go t end) d
  | PsObj _ _ => false
  | _ => true
  end.
