(* C14 - source facts about ModifyAttribute's "already remembered" test and EmitIdentifier's bare-word test
   (tools/facts_c14.py -> Facts/Facts_c14.v, regenerated from /repo on every run). *)
From Icv Require Import Base.Tac Facts.Facts_c14.

(* never a test on the remembered VALUE; an unrecognised shape is tolerated (the correspondence run decides:
   families repeat-empty-original / modattr-random) *)
Definition ps_src_remember_ok : bool := match f_ps_remember_contains with Some false => false | _ => true end.
(* never a regex that matches the empty key; an unrecognised shape is tolerated (the correspondence run decides:
   every dma / restart family writes empty keys) *)
Definition ps_src_ident_nonempty_ok : bool := match f_ps_ident_regex_nonempty with Some false => false | _ => true end.

Lemma ps_src_facts : ps_src_remember_ok = true /\ ps_src_ident_nonempty_ok = true.
Proof. split; reflexivity. Qed.
