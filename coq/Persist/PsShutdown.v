(* C14 - the final dump at shutdown next to a periodic dump that is still running (definitions only).
   IcingaApplication::DumpProgramState() is called from two threads: the retention timer's callback (every 300 s) and
   OnShutdown() (which stops the timer WITHOUT waiting for a running callback, then dumps).  One call, at the
   granularity of its effects on the file system, for each of the two files F (state file, modified-attributes.conf):
       Glob F     Utility::Glob(F + ".tmp.*", &Utility::Remove)   removes EVERY temporary file of F, whoever created it
       Mk F       AtomicFile(F): mkstemp(F.tmp.XXXXXX)
       Collect F  serialise the objects / the modified attributes into the temporary file (a snapshot of the runtime data;
                  writing to a file that was unlinked meanwhile succeeds and is lost)
       Rename F   AtomicFile::Commit: rename(temp, F); fails (exception out of DumpProgramState) when the temp is gone
   The runtime data is abstracted to a version counter (one tick per state change / acknowledgement / attribute
   modification); a file holds the version its snapshot was taken at. *)
From Icv Require Import Base.Tac Facts.Facts_c14.
From Coq Require Import Arith Bool List NArith.
Import ListNotations.

Inductive psd_file := PsdState | PsdModattr.
Inductive psd_who := PsdTimer | PsdShut.
Inductive psd_kind := PsdGlob | PsdMk | PsdCollect | PsdRename.

Definition psd_program : list (psd_kind * psd_file) :=
  [(PsdGlob, PsdState); (PsdMk, PsdState); (PsdCollect, PsdState); (PsdRename, PsdState);
   (PsdGlob, PsdModattr); (PsdMk, PsdModattr); (PsdCollect, PsdModattr); (PsdRename, PsdModattr)].

(* one file: the version on disk (None = no file), the temp of the timer's dump, the temp of the shutdown dump
   (None = no such temp; Some None = created, nothing collected yet) *)
Record psd_ffs := { pdf_final : option nat; pdf_tt : option (option nat); pdf_ts : option (option nat) }.
(* one thread: steps of the program done, inside DumpProgramState?, did the last call throw? *)
Record psd_thr := { pdt_pc : nat; pdt_live : bool; pdt_threw : bool }.
Record psd_st := { pds_ver : nat; pds_s : psd_ffs; pds_m : psd_ffs; pds_timer : psd_thr; pds_shut : psd_thr }.

Definition psd_ffs_of (f : psd_file) (st : psd_st) : psd_ffs := match f with PsdState => pds_s st | PsdModattr => pds_m st end.
Definition psd_set_ffs (f : psd_file) (x : psd_ffs) (st : psd_st) : psd_st :=
  match f with
  | PsdState => {| pds_ver := pds_ver st; pds_s := x; pds_m := pds_m st; pds_timer := pds_timer st; pds_shut := pds_shut st |}
  | PsdModattr => {| pds_ver := pds_ver st; pds_s := pds_s st; pds_m := x; pds_timer := pds_timer st; pds_shut := pds_shut st |}
  end.
Definition psd_thr_of (w : psd_who) (st : psd_st) : psd_thr := match w with PsdTimer => pds_timer st | PsdShut => pds_shut st end.
Definition psd_set_thr (w : psd_who) (t : psd_thr) (st : psd_st) : psd_st :=
  match w with
  | PsdTimer => {| pds_ver := pds_ver st; pds_s := pds_s st; pds_m := pds_m st; pds_timer := t; pds_shut := pds_shut st |}
  | PsdShut => {| pds_ver := pds_ver st; pds_s := pds_s st; pds_m := pds_m st; pds_timer := pds_timer st; pds_shut := t |}
  end.
Definition psd_tmp (w : psd_who) (x : psd_ffs) : option (option nat) := match w with PsdTimer => pdf_tt x | PsdShut => pdf_ts x end.
Definition psd_set_tmp (w : psd_who) (c : option (option nat)) (x : psd_ffs) : psd_ffs :=
  match w with
  | PsdTimer => {| pdf_final := pdf_final x; pdf_tt := c; pdf_ts := pdf_ts x |}
  | PsdShut => {| pdf_final := pdf_final x; pdf_tt := pdf_tt x; pdf_ts := c |}
  end.
Definition psd_other (w : psd_who) : psd_who := match w with PsdTimer => PsdShut | PsdShut => PsdTimer end.

(* the thread [w] executes the next step of its call *)
Definition psd_exec (w : psd_who) (st : psd_st) : psd_st :=
  let t := psd_thr_of w st in
  if negb (pdt_live t) then st else
  match nth_error psd_program (pdt_pc t) with
  | None => psd_set_thr w {| pdt_pc := pdt_pc t; pdt_live := false; pdt_threw := pdt_threw t |} st
  | Some (k, f) =>
      let x := psd_ffs_of f st in
      let adv (s : psd_st) := psd_set_thr w {| pdt_pc := S (pdt_pc t); pdt_live := S (pdt_pc t) <? 8; pdt_threw := false |} s in
      match k with
      | PsdGlob => adv (psd_set_ffs f {| pdf_final := pdf_final x; pdf_tt := None; pdf_ts := None |} st)
      | PsdMk => adv (psd_set_ffs f (psd_set_tmp w (Some None) x) st)
      | PsdCollect =>
          match psd_tmp w x with
          | Some _ => adv (psd_set_ffs f (psd_set_tmp w (Some (Some (pds_ver st))) x) st)
          | None => adv st                               (* the bytes go to an unlinked file *)
          end
      | PsdRename =>
          match psd_tmp w x with
          | Some c =>
              let fin := match c with Some v => Some v | None => pdf_final x end in
              adv (psd_set_ffs f (psd_set_tmp w None {| pdf_final := fin; pdf_tt := pdf_tt x; pdf_ts := pdf_ts x |}) st)
          | None => psd_set_thr w {| pdt_pc := pdt_pc t; pdt_live := false; pdt_threw := true |} st    (* rename: ENOENT, exception *)
          end
      end
  end.

(* entering DumpProgramState.  [skip] = the design "if another dump is running, log and return" (refuted below);
   the source as it is: every call dumps (fact f_ps_dump_unconditional) *)
Definition psd_start (skip : bool) (w : psd_who) (st : psd_st) : psd_st :=
  if pdt_live (psd_thr_of w st) then st
  else if skip && pdt_live (psd_thr_of (psd_other w) st)
       then psd_set_thr w {| pdt_pc := 0; pdt_live := false; pdt_threw := false |} st
       else psd_set_thr w {| pdt_pc := 0; pdt_live := true; pdt_threw := false |} st.

Inductive psd_ev := PsdChange | PsdStart (w : psd_who) | PsdStep (w : psd_who).
Definition psd_ev_run (skip : bool) (st : psd_st) (e : psd_ev) : psd_st :=
  match e with
  | PsdChange => {| pds_ver := S (pds_ver st); pds_s := pds_s st; pds_m := pds_m st; pds_timer := pds_timer st; pds_shut := pds_shut st |}
  | PsdStart w => psd_start skip w st
  | PsdStep w => psd_exec w st
  end.
Definition psd_run (skip : bool) (evs : list psd_ev) (st : psd_st) : psd_st := fold_left (psd_ev_run skip) evs st.

Definition psd_src_skip : bool := match f_ps_dump_unconditional with Some false => true | _ => false end.
(* OnShutdown() calls DumpProgramState() as a top-level statement with no return / if in front (unrecognised shape: tolerated) *)
Definition psd_src_shutdown_dumps : bool := match f_ps_shutdown_dumps with Some false => false | _ => true end.

(* a previous complete dump (version 0) on disk, nobody dumping *)
Definition psd_idle : psd_thr := {| pdt_pc := 0; pdt_live := false; pdt_threw := false |}.
Definition psd_ffs0 : psd_ffs := {| pdf_final := Some 0; pdf_tt := None; pdf_ts := None |}.
Definition psd_st0 : psd_st := {| pds_ver := 0; pds_s := psd_ffs0; pds_m := psd_ffs0; pds_timer := psd_idle; pds_shut := psd_idle |}.

(* a file that does not hold the data as of [ve] *)
Definition psd_stale_file (ve : nat) (x : psd_ffs) : bool := match pdf_final x with Some v => v <? ve | None => true end.
Definition psd_stale (ve : nat) (st : psd_st) : bool := psd_stale_file ve (pds_s st) || psd_stale_file ve (pds_m st).

(* the two directed schedules of the tie, up to the moment the shutdown dump has returned.
   parked: the periodic dump has created its temp file and is held inside the serialisation (object lock); a change; OnShutdown's dump
           begins (clean-up, own temp file) and is held as well; both are released: the periodic dump's rename fails, OnShutdown's dump runs through.
   late:   a change; OnShutdown's dump has its temp file open when a periodic dump dispatched earlier begins with its clean-up. *)
Definition psd_sched_parked : list psd_ev :=
  [PsdStart PsdTimer; PsdStep PsdTimer; PsdStep PsdTimer; PsdChange; PsdStart PsdShut; PsdStep PsdShut; PsdStep PsdShut;
   PsdStep PsdTimer; PsdStep PsdTimer] ++ repeat (PsdStep PsdShut) 6.
Definition psd_sched_late : list psd_ev :=
  [PsdChange; PsdStart PsdShut; PsdStep PsdShut; PsdStep PsdShut; PsdStart PsdTimer; PsdStep PsdTimer; PsdStep PsdTimer;
   PsdStep PsdShut; PsdStep PsdShut] ++ repeat (PsdStep PsdShut) 4.
(* the same attempt when DumpProgramState is serialised by a blocking lock (fact f_ps_dump_serialised): the periodic dump
   waits in front of its clean-up until the final dump has returned *)
Definition psd_sched_late_serial : list psd_ev :=
  [PsdChange; PsdStart PsdShut] ++ repeat (PsdStep PsdShut) 8 ++ [PsdStart PsdTimer; PsdStep PsdTimer; PsdStep PsdTimer].
Definition psd_src_serial : bool := match f_ps_dump_serialised with Some true => true | _ => false end.
(* free: no periodic dump around *)
Definition psd_sched_free : list psd_ev := [PsdChange; PsdStart PsdShut] ++ repeat (PsdStep PsdShut) 8.
(* what the tie observes when the shutdown dump has returned: did it throw; do the files lack the change (version 1) *)
Definition psd_observe (skip : bool) (sched : list psd_ev) : bool * bool :=
  let st := psd_run skip sched psd_st0 in (pdt_threw (pds_shut st), psd_stale 1 st).

(* oracle over the implementation's observation: 0 ok; 40 OnShutdown's dump returned normally and the files on disk do not
   contain the changes made before shutdown; 41 OnShutdown's dump threw (nothing written) *)
Definition psd_orc (threw stale : bool) : N := if threw then 41%N else if stale then 40%N else 0%N.
