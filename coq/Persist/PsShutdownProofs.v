(* C14 - the final dump at shutdown: proofs *)
From Icv Require Import Base.Tac Facts.Facts_c14 Persist.PsShutdown.
From Coq Require Import Arith Bool List NArith Lia.
Import ListNotations.

Definition psd_gidx (f : psd_file) : nat := match f with PsdState => 0 | PsdModattr => 4 end.
Definition psd_fresh (ve : nat) (c : option (option nat)) : Prop := match c with Some (Some v) => ve <= v | _ => True end.

(* invariant of every state after OnShutdown's dump began at version ve, whatever the other thread does *)
Record psd_inv (ve : nat) (st : psd_st) : Prop := {
  pi_ver : ve <= pds_ver st;
  pi_live : pdt_threw (pds_shut st) = false -> pdt_live (pds_shut st) = (pdt_pc (pds_shut st) <? 8);
  pi_tt : forall f, psd_gidx f < pdt_pc (pds_shut st) -> psd_fresh ve (pdf_tt (psd_ffs_of f st));
  pi_ts : forall f, psd_fresh ve (pdf_ts (psd_ffs_of f st));
  pi_col : forall f, psd_gidx f + 2 < pdt_pc (pds_shut st) -> pdf_ts (psd_ffs_of f st) <> Some None;
  pi_fin : forall f, psd_gidx f + 3 < pdt_pc (pds_shut st) -> exists v, pdf_final (psd_ffs_of f st) = Some v /\ ve <= v
}.

Ltac psd_fin :=
  repeat match goal with
  | H : exists _, _ |- _ => destruct H
  | H : _ /\ _ |- _ => destruct H
  end;
  cbn in *; try lia; try congruence; try tauto; eauto.

Lemma psd_inv_change ve st : psd_inv ve st -> psd_inv ve (psd_ev_run false st PsdChange).
Proof.
  intros [A B C D E F]. constructor; cbn; auto.
Qed.

Lemma psd_inv_start_timer ve st : psd_inv ve st -> psd_inv ve (psd_start false PsdTimer st).
Proof.
  intros [A B C D E F]. unfold psd_start. cbn [andb psd_thr_of].
  destruct (pdt_live (pds_timer st)); constructor; cbn; auto; intros f; destruct f; cbn; auto.
Qed.

Ltac psd_gen := constructor; cbn; auto; let f := fresh "f" in intros f; destruct f; cbn; auto; intros; try congruence; try lia; auto.

Lemma psd_inv_step_timer ve st : psd_inv ve st -> psd_inv ve (psd_exec PsdTimer st).
Proof.
  intros [A B C D E F]. unfold psd_exec. cbn [psd_thr_of].
  destruct (pdt_live (pds_timer st)); cbn [negb]; [|constructor; auto].
  pose proof (C PsdState) as Cs. pose proof (C PsdModattr) as Cm. pose proof (D PsdState) as Ds. pose proof (D PsdModattr) as Dm.
  pose proof (E PsdState) as Es. pose proof (E PsdModattr) as Em. pose proof (F PsdState) as Fs. pose proof (F PsdModattr) as Fm.
  clear C D E F. cbn in Cs, Cm, Ds, Dm, Es, Em, Fs, Fm.
  destruct (pdt_pc (pds_timer st)) as [|[|[|[|[|[|[|[|n]]]]]]]]; cbn [nth_error psd_program].
  - psd_gen.
  - psd_gen.
  - cbn [psd_tmp psd_ffs_of]. destruct (pdf_tt (pds_s st)) eqn:Et; psd_gen; rewrite Et; exact I.
  - cbn [psd_tmp psd_ffs_of]. destruct (pdf_tt (pds_s st)) as [c|] eqn:Et.
    + psd_gen. destruct c as [v|]; [|apply Fs; assumption]. exists v. split; [reflexivity|]. apply Cs. lia.
    + psd_gen; rewrite Et; exact I.
  - psd_gen.
  - psd_gen.
  - cbn [psd_tmp psd_ffs_of]. destruct (pdf_tt (pds_m st)) eqn:Et; psd_gen; rewrite Et; exact I.
  - cbn [psd_tmp psd_ffs_of]. destruct (pdf_tt (pds_m st)) as [c|] eqn:Et.
    + psd_gen. destruct c as [v|]; [|apply Fm; assumption]. exists v. split; [reflexivity|]. apply Cm. lia.
    + psd_gen; rewrite Et; exact I.
  - destruct n; cbn [nth_error]; psd_gen.
Qed.

Ltac psd_close Cs Cm Es Em Fs Fm :=
  try (apply Cs; lia); try (apply Cm; lia); try (apply Es; lia); try (apply Em; lia); try (apply Fs; lia); try (apply Fm; lia).

Lemma psd_inv_step_shut ve st : psd_inv ve st -> psd_inv ve (psd_exec PsdShut st).
Proof.
  intros [A B C D E F]. unfold psd_exec. cbn [psd_thr_of].
  destruct (pdt_live (pds_shut st)) eqn:Hl; cbn [negb]; [|constructor; auto; rewrite Hl; auto].
  pose proof (C PsdState) as Cs. pose proof (C PsdModattr) as Cm. pose proof (D PsdState) as Ds. pose proof (D PsdModattr) as Dm.
  pose proof (E PsdState) as Es. pose proof (E PsdModattr) as Em. pose proof (F PsdState) as Fs. pose proof (F PsdModattr) as Fm.
  clear C D E F. cbn in Cs, Cm, Ds, Dm, Es, Em, Fs, Fm.
  destruct (pdt_pc (pds_shut st)) as [|[|[|[|[|[|[|[|n]]]]]]]] eqn:Hpc; cbn [nth_error psd_program].
  - psd_gen; psd_close Cs Cm Es Em Fs Fm.
  - psd_gen; psd_close Cs Cm Es Em Fs Fm.
  - cbn [psd_tmp psd_ffs_of]. destruct (pdf_ts (pds_s st)) eqn:Et; psd_gen; psd_close Cs Cm Es Em Fs Fm.
  - cbn [psd_tmp psd_ffs_of]. destruct (pdf_ts (pds_s st)) as [c|] eqn:Et; psd_gen; psd_close Cs Cm Es Em Fs Fm.
    destruct c as [v|]; [exists v; split; [reflexivity|exact Ds]|exfalso; apply Es; [lia|reflexivity]].
  - psd_gen; psd_close Cs Cm Es Em Fs Fm.
  - psd_gen; psd_close Cs Cm Es Em Fs Fm.
  - cbn [psd_tmp psd_ffs_of]. destruct (pdf_ts (pds_m st)) eqn:Et; psd_gen; psd_close Cs Cm Es Em Fs Fm.
  - cbn [psd_tmp psd_ffs_of]. destruct (pdf_ts (pds_m st)) as [c|] eqn:Et; psd_gen; psd_close Cs Cm Es Em Fs Fm.
    destruct c as [v|]; [exists v; split; [reflexivity|exact Dm]|exfalso; apply Em; [lia|reflexivity]].
  - destruct n; cbn [nth_error]; psd_gen.
Qed.

Lemma psd_inv_ev ve st e : e <> PsdStart PsdShut -> psd_inv ve st -> psd_inv ve (psd_ev_run false st e).
Proof.
  intros Hne Hi. destruct e as [|[|]|[|]]; cbn [psd_ev_run].
  - apply psd_inv_change; exact Hi.
  - apply psd_inv_start_timer; exact Hi.
  - congruence.
  - apply psd_inv_step_timer; exact Hi.
  - apply psd_inv_step_shut; exact Hi.
Qed.

Definition psd_no_start_shut (evs : list psd_ev) : Prop := ~ In (PsdStart PsdShut) evs.
Definition psd_no_shut (evs : list psd_ev) : Prop := ~ In (PsdStart PsdShut) evs /\ ~ In (PsdStep PsdShut) evs.

Lemma psd_inv_run ve evs : psd_no_start_shut evs -> forall st, psd_inv ve st -> psd_inv ve (psd_run false evs st).
Proof.
  unfold psd_run. induction evs as [|e evs IH]; intros Hn st Hi; [exact Hi|]. cbn [fold_left]. apply IH.
  - intros H. apply Hn. right. exact H.
  - apply psd_inv_ev; [|exact Hi]. intros ->. apply Hn. left. reflexivity.
Qed.

(* before OnShutdown: the shutdown thread is idle and owns no temporary file *)
Definition psd_shut_idle (st : psd_st) : Prop :=
  pdt_live (pds_shut st) = false /\ pdf_ts (pds_s st) = None /\ pdf_ts (pds_m st) = None.

Lemma psd_idle_ev skip st e : e <> PsdStart PsdShut -> e <> PsdStep PsdShut -> psd_shut_idle st -> psd_shut_idle (psd_ev_run skip st e).
Proof.
  intros H1 H2 (Hl & Hs & Hm). destruct e as [|[|]|[|]]; try congruence; cbn [psd_ev_run].
  - repeat split; assumption.
  - unfold psd_start. cbn [psd_thr_of psd_other]. destruct (pdt_live (pds_timer st)); [repeat split; assumption|].
    destruct (skip && pdt_live (pds_shut st)); repeat split; assumption.
  - unfold psd_exec. cbn [psd_thr_of]. destruct (pdt_live (pds_timer st)); cbn [negb]; [|repeat split; assumption].
    destruct (pdt_pc (pds_timer st)) as [|[|[|[|[|[|[|[|n]]]]]]]]; cbn [nth_error psd_program psd_tmp psd_ffs_of];
      try (destruct n; cbn [nth_error]);
      repeat match goal with |- context [match pdf_tt ?x with _ => _ end] => destruct (pdf_tt x) end;
      repeat split; cbn; assumption || reflexivity.
Qed.

Lemma psd_idle_run skip evs : psd_no_shut evs -> forall st, psd_shut_idle st -> psd_shut_idle (psd_run skip evs st).
Proof.
  unfold psd_run. induction evs as [|e evs IH]; intros [Hn1 Hn2] st Hi; [exact Hi|]. cbn [fold_left]. apply IH.
  - split; intros H; [apply Hn1|apply Hn2]; right; exact H.
  - apply psd_idle_ev; [intros ->; apply Hn1; left; reflexivity|intros ->; apply Hn2; left; reflexivity|exact Hi].
Qed.

Lemma psd_inv_entry st : psd_shut_idle st -> psd_inv (pds_ver st) (psd_start false PsdShut st).
Proof.
  intros (Hl & Hs & Hm). unfold psd_start. cbn [psd_thr_of andb]. rewrite Hl.
  constructor; cbn; auto; intros f; destruct f; cbn; intros; try lia; try (rewrite ?Hs, ?Hm; exact I).
Qed.

(* THE THEOREM: OnShutdown is entered after any history [pre] (changes, periodic dumps finished or in flight at any step);
   afterwards anything happens ([post]: the periodic dump goes on at any pace, further periodic dumps begin, changes).
   In EVERY state in which OnShutdown's dump has returned without an exception, each of the two files on disk holds a
   snapshot taken no earlier than the moment OnShutdown was entered. *)
Theorem psd_shutdown_fresh pre post st0 :
  psd_shut_idle st0 -> psd_no_shut pre -> psd_no_start_shut post ->
  let st1 := psd_run false pre st0 in
  let st2 := psd_run false (PsdStart PsdShut :: post) st1 in
  pdt_live (pds_shut st2) = false -> pdt_threw (pds_shut st2) = false ->
  forall f, exists v, pdf_final (psd_ffs_of f st2) = Some v /\ pds_ver st1 <= v.
Proof.
  intros Hi Hpre Hpost st1 st2 Hl Ht f.
  assert (Hinv : psd_inv (pds_ver st1) st2).
  { unfold st2, psd_run. cbn [fold_left]. apply (psd_inv_run (pds_ver st1) post Hpost). cbn [psd_ev_run].
    apply psd_inv_entry. apply psd_idle_run; assumption. }
  destruct Hinv as [A B C D E F]. apply F. specialize (B Ht). rewrite Hl in B. symmetry in B. apply Nat.ltb_ge in B.
  destruct f; unfold psd_gidx; lia.
Qed.

Corollary psd_shutdown_not_stale pre post st0 :
  psd_shut_idle st0 -> psd_no_shut pre -> psd_no_start_shut post ->
  let st1 := psd_run false pre st0 in
  let st2 := psd_run false (PsdStart PsdShut :: post) st1 in
  pdt_live (pds_shut st2) = false -> pdt_threw (pds_shut st2) = false ->
  psd_orc (pdt_threw (pds_shut st2)) (psd_stale (pds_ver st1) st2) = 0%N.
Proof.
  intros Hi Hpre Hpost st1 st2 Hl Ht. rewrite Ht.
  destruct (psd_shutdown_fresh pre post st0 Hi Hpre Hpost Hl Ht PsdState) as (v1 & E1 & L1).
  destruct (psd_shutdown_fresh pre post st0 Hi Hpre Hpost Hl Ht PsdModattr) as (v2 & E2 & L2).
  fold st1 st2 in E1, E2, L1, L2. cbn [psd_ffs_of] in E1, E2.
  unfold psd_orc, psd_stale, psd_stale_file. rewrite E1, E2.
  assert (H1 : (v1 <? pds_ver st1) = false) by (apply Nat.ltb_ge; exact L1).
  assert (H2 : (v2 <? pds_ver st1) = false) by (apply Nat.ltb_ge; exact L2).
  rewrite H1, H2. reflexivity.
Qed.

(* when the other thread makes no step meanwhile (e.g. it is held on an object lock inside its serialisation), the final
   dump runs through: it returns, without an exception *)
Theorem psd_shutdown_completes st :
  pdt_live (pds_shut st) = false ->
  let st' := psd_run false (PsdStart PsdShut :: repeat (PsdStep PsdShut) 8) st in
  pdt_live (pds_shut st') = false /\ pdt_threw (pds_shut st') = false /\ pdt_pc (pds_shut st') = 8.
Proof.
  intros Hl. destruct st as [ver [fs tts sts] [fm ttm stm] tim [pc lv th]]. cbn in Hl. subst lv.
  cbv zeta. unfold psd_run, psd_start. cbn. repeat split.
Qed.

(* the source as it is: every call dumps *)
Lemma psd_src_fact : psd_src_skip = false /\ psd_src_shutdown_dumps = true.
Proof. split; reflexivity. Qed.

(* REFUTED DESIGN "if another dump is running, return": the periodic dump is in flight (temp file created, snapshot
   taken at version 0), a change (version 1), OnShutdown's dump returns normally - and the files hold version 0 *)
Lemma psd_skip_refuted :
  let st := psd_run true [PsdStart PsdTimer; PsdStep PsdTimer; PsdStep PsdTimer; PsdStep PsdTimer; PsdChange; PsdStart PsdShut] psd_st0 in
  pdt_live (pds_shut st) = false /\ pdt_threw (pds_shut st) = false /\
  pdf_final (pds_s st) = Some 0 /\ pdf_final (pds_m st) = Some 0 /\ pds_ver st = 1 /\
  psd_orc (pdt_threw (pds_shut st)) (psd_stale 1 st) = 40%N.
Proof. vm_compute. repeat split. Qed.
Lemma psd_skip_parked : psd_observe true psd_sched_parked = (false, true) /\ psd_observe false psd_sched_parked = (false, false).
Proof. vm_compute. split; reflexivity. Qed.

(* FINDING (the source as it is): the clean-up of `<file>.tmp.*` removes the OTHER dump's temporary file.  A periodic dump
   that begins while OnShutdown's dump has its temp file open makes the final dump throw at rename; at that moment the
   state file still holds the previous dump (version 0 < 1). *)
Lemma psd_cleanup_race_refuted :
  let st := psd_run false psd_sched_late psd_st0 in
  pdt_threw (pds_shut st) = true /\ pdt_live (pds_shut st) = false /\ pds_ver st = 1 /\
  pdf_final (pds_s st) = Some 0 /\ pdf_final (pds_m st) = Some 0 /\ psd_observe false psd_sched_late = (true, true).
Proof. vm_compute. repeat split. Qed.
