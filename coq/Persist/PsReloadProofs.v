(* C14 - DumpModifiedAttributes + reload for NESTED dotted keys, and the history-level statement with dump as an
   operation: after any history of modify / restore / dump operations (paths pairwise incomparable, no modify meets a
   dictionary), replaying the LAST dumped modified-attributes script on the configured object yields the attribute values
   the object had at that dump; in particular, after everything was restored the script replays to nothing. *)
From Icv Require Import Base.Tac Persist.PsValue Persist.PsModel Persist.PsValueProofs Persist.PsRestoreProofs
  Persist.PsFrameProofs Persist.PsSeqProofs Persist.PsSpineProofs.
From Coq Require Import NArith.
Local Open Scope N_scope.

(* ---- walkability: ModifyAttribute's walk (missing intermediates are created) does not hit a non-dictionary ---- *)
Definition ps_start (v : ps_value) : ps_value := if ps_is_empty v then PsDict [] else v.

Definition ps_walkable_attr (p : ps_key) (o : ps_mobj) : Prop :=
  match ps_split p with
  | f :: r :: rest' => ps_nest_old (removelast (r :: rest')) (last (r :: rest') []) (ps_start (ps_dget f (ps_m_fields o))) <> None
  | _ => True
  end.

Lemma ps_nest_old_set l v : forall ks cur ov, ps_nest_old ks l cur = Some ov -> exists nv, ps_nest_set ks l v cur = Some nv.
Proof.
  induction ks as [|k ks IH]; intros cur ov H; destruct cur; cbn in H; try discriminate; cbn.
  - eexists. reflexivity.
  - destruct (IH _ _ H) as (c' & ->). eexists. reflexivity.
Qed.

Lemma ps_nest_set_walk_frame l' v lq : forall ks' cur nv ks,
  ps_nest_set ks' l' v cur = Some nv -> ps_nest_old ks lq cur <> None -> ps_tincomp (ks ++ [lq]) (ks' ++ [l']) ->
  ps_nest_old ks lq nv <> None.
Proof.
  induction ks' as [|k' ks' IH]; intros cur nv ks H Hw Hi; destruct cur; cbn in H; try discriminate.
  - inversion H; subst. destruct ks as [|k ks]; [cbn; discriminate|]. cbn in Hw |- *.
    destruct Hi as [_ Hi]. cbn in Hi. rewrite andb_true_r in Hi.
    rewrite ps_dget_opt_dset_other; [exact Hw|]. intros ->. rewrite ps_key_eqb_refl in Hi. discriminate.
  - destruct (ps_nest_set ks' l' v _) as [c'|] eqn:E; [|discriminate]. inversion H; subst.
    destruct ks as [|k ks]; [cbn; discriminate|]. cbn in Hw |- *.
    destruct (ps_key_eqb k k') eqn:Eq.
    + apply ps_key_eqb_eq in Eq. subst k. rewrite ps_dget_opt_dset_same.
      apply (IH _ _ _ E Hw). apply (ps_tincomp_cons k'). exact Hi.
    + rewrite ps_dget_opt_dset_other; [exact Hw|]. intros ->. rewrite ps_key_eqb_refl in Eq. discriminate.
Qed.

Lemma ps_walkable_same_fields p o o' : ps_m_fields o' = ps_m_fields o -> ps_walkable_attr p o -> ps_walkable_attr p o'.
Proof. intros H. unfold ps_walkable_attr. rewrite H. tauto. Qed.

Theorem ps_modify_walkable fe p v now o ok o' :
  ps_modify_attribute fe p v true now o = (ok, o') ->
  forall k, ps_incomp p k -> ps_walkable_attr k o -> ps_walkable_attr k o'.
Proof.
  intros Hmod k Hi Hw. unfold ps_modify_attribute in Hmod.
  destruct (ps_split p) as [|f rest] eqn:Hsp; [inversion Hmod; subst; exact Hw|].
  destruct (ps_filookup fe f) as [fi|]; [|inversion Hmod; subst; exact Hw].
  destruct (ps_fi_nomod fi); [inversion Hmod; subst; exact Hw|].
  remember (if ps_fi_config fi then match ps_m_orig o with
            | None => {| ps_m_fields := ps_m_fields o; ps_m_orig := Some []; ps_m_version := ps_m_version o |}
            | Some _ => o end else o) as o1 eqn:Hdef.
  assert (ps_m_fields o1 = ps_m_fields o) as Hf1 by (rewrite Hdef; destruct (ps_fi_config fi); [destruct (ps_m_orig o)|]; reflexivity).
  clear Hdef. apply (ps_walkable_same_fields k o o1 Hf1) in Hw.
  unfold ps_incomp in Hi. rewrite Hsp in Hi. unfold ps_walkable_attr in Hw |- *.
  destruct (ps_split k) as [|g [|rk restk]] eqn:Hk; try exact I.
  assert (forall nv, ps_key_eqb g f = false ->
          ps_nest_old (removelast (rk :: restk)) (last (rk :: restk) []) (ps_start (ps_dget g (ps_dset f nv (ps_m_fields o1)))) <> None) as Hother.
  { intros nv E. rewrite ps_dget_dset_other; [exact Hw|]. intros ->. rewrite ps_key_eqb_refl in E. discriminate. }
  destruct rest as [|r rest'].
  - cbn in Hmod. destruct (ps_field_accepts fi v); inversion Hmod; subst ok o'; clear Hmod; cbn [ps_m_fields]; [|exact Hw].
    destruct (ps_key_eqb g f) eqn:E; [|apply Hother; reflexivity].
    apply ps_key_eqb_eq in E. subst g. exfalso. destruct Hi as [Hi _]. cbn in Hi. rewrite ps_key_eqb_refl in Hi. discriminate.
  - set (rest := r :: rest') in *.
    set (ks := removelast rest) in *. set (l := last rest []) in *.
    assert (rest = ks ++ [l]) as Hrest by (apply app_removelast_last; discriminate).
    cbv zeta in Hmod. fold (ps_start (ps_dget f (ps_m_fields o1))) in Hmod.
    destruct (ps_nest_old ks l (ps_start (ps_dget f (ps_m_fields o1)))) as [ov|]; [|inversion Hmod; subst; exact Hw].
    destruct (ps_nest_set ks l v (ps_start (ps_dget f (ps_m_fields o1)))) as [nv|] eqn:Hset; [|inversion Hmod; subst; exact Hw].
    destruct (ps_nest_set_is_dict _ _ _ _ _ Hset) as (nd & ->).
    assert (ps_field_accepts fi (PsDict nd) = true) as Hacc by (unfold ps_field_accepts; cbn; rewrite orb_true_r; reflexivity).
    rewrite Hacc in Hmod. inversion Hmod; subst ok o'; clear Hmod. cbn [ps_m_fields ps_coerce].
    destruct (ps_key_eqb g f) eqn:E; [|apply Hother; reflexivity].
    apply ps_key_eqb_eq in E. subst g. rewrite ps_dget_dset_same. unfold ps_start at 1. cbn [ps_is_empty].
    apply (ps_nest_set_walk_frame l v _ ks _ (PsDict nd) _ Hset Hw).
    rewrite <- Hrest. rewrite <- app_removelast_last by discriminate.
    apply ps_tincomp_sym. apply (ps_tincomp_cons f). exact Hi.
Qed.

(* ---- and backwards: an update on an incomparable path cannot MAKE a path walkable ---- *)
Lemma ps_nest_set_walk_back l' v lq : forall ks' cur nv ks,
  ps_nest_set ks' l' v cur = Some nv -> ps_tincomp (ks ++ [lq]) (ks' ++ [l']) ->
  ps_nest_old ks lq nv <> None -> ps_nest_old ks lq cur <> None.
Proof.
  induction ks' as [|k' ks' IH]; intros cur nv ks H Hi Hw; destruct cur; cbn in H; try discriminate.
  - inversion H; subst. destruct ks as [|k ks]; [cbn; discriminate|]. cbn in Hw |- *.
    destruct Hi as [_ Hi]. cbn in Hi. rewrite andb_true_r in Hi.
    rewrite ps_dget_opt_dset_other in Hw; [exact Hw|]. intros ->. rewrite ps_key_eqb_refl in Hi. discriminate.
  - destruct (ps_nest_set ks' l' v _) as [c'|] eqn:E; [|discriminate]. inversion H; subst.
    destruct ks as [|k ks]; [cbn; discriminate|]. cbn in Hw |- *.
    destruct (ps_key_eqb k k') eqn:Eq.
    + apply ps_key_eqb_eq in Eq. subst k. rewrite ps_dget_opt_dset_same in Hw.
      apply (IH _ _ _ E); [apply (ps_tincomp_cons k'); exact Hi | exact Hw].
    + rewrite ps_dget_opt_dset_other in Hw; [exact Hw|]. intros ->. rewrite ps_key_eqb_refl in Eq. discriminate.
Qed.

Lemma ps_nest_update_walk_back l' F lq :
  (forall d q, q <> l' -> ps_dget_opt q (F d) = ps_dget_opt q d) ->
  forall ks' cur nv ks,
  ps_nest_update ks' F cur = Some nv -> ps_tincomp (ks ++ [lq]) (ks' ++ [l']) ->
  ps_nest_old ks lq nv <> None -> ps_nest_old ks lq cur <> None.
Proof.
  intros HF. induction ks' as [|k' ks' IH]; intros cur nv ks H Hi Hw; destruct cur; cbn in H; try discriminate.
  - inversion H; subst. destruct ks as [|k ks]; [cbn; discriminate|]. cbn in Hw |- *.
    destruct Hi as [_ Hi]. cbn in Hi. rewrite andb_true_r in Hi.
    rewrite HF in Hw; [exact Hw|]. intros ->. rewrite ps_key_eqb_refl in Hi. discriminate.
  - destruct (ps_dget_opt k' d) as [c|] eqn:Ec; [|discriminate].
    destruct (ps_nest_update ks' F c) as [c'|] eqn:E; [|discriminate]. inversion H; subst.
    destruct ks as [|k ks]; [cbn; discriminate|]. cbn in Hw |- *.
    destruct (ps_key_eqb k k') eqn:Eq.
    + apply ps_key_eqb_eq in Eq. subst k. rewrite ps_dget_opt_dset_same in Hw. rewrite Ec.
      apply (IH _ _ _ E); [apply (ps_tincomp_cons k'); exact Hi | exact Hw].
    + rewrite ps_dget_opt_dset_other in Hw; [exact Hw|]. intros ->. rewrite ps_key_eqb_refl in Eq. discriminate.
Qed.

Lemma ps_nest_update_walkable ks F lq : forall cur nv, ps_nest_update ks F cur = Some nv -> ps_nest_old ks lq cur <> None.
Proof.
  induction ks as [|k ks IH]; intros cur nv H; destruct cur; cbn in H; try discriminate; cbn.
  destruct (ps_dget_opt k d) as [c|]; [|discriminate]. destruct (ps_nest_update ks F c) as [c'|] eqn:E; [|discriminate].
  apply (IH _ _ E).
Qed.

Lemma ps_walkable_same_fields_iff p o o' : ps_m_fields o' = ps_m_fields o -> (ps_walkable_attr p o' <-> ps_walkable_attr p o).
Proof. intros H. unfold ps_walkable_attr. rewrite H. tauto. Qed.

(* ModifyAttribute on p: paths incomparable with p that are walkable afterwards were walkable before; and whenever it
   lists p (or succeeds), p was walkable *)
Theorem ps_modify_walkable_back fe p v now o ok o' :
  ps_modify_attribute fe p v true now o = (ok, o') ->
  (forall k, ps_incomp p k -> ps_walkable_attr k o' -> ps_walkable_attr k o) /\
  (ps_walkable_attr p o \/ (ps_orig_dict o' = ps_orig_dict o /\ ps_m_fields o' = ps_m_fields o)).
Proof.
  intros Hmod. unfold ps_modify_attribute in Hmod.
  assert (forall o1, ps_m_fields o1 = ps_m_fields o -> ps_orig_dict o1 = ps_orig_dict o ->
          (forall k, ps_incomp p k -> ps_walkable_attr k o1 -> ps_walkable_attr k o) /\
          (ps_walkable_attr p o \/ (ps_orig_dict o1 = ps_orig_dict o /\ ps_m_fields o1 = ps_m_fields o))) as Hsame.
  { intros o1 H1 H2. split; [intros k _; apply (proj1 (ps_walkable_same_fields_iff k o o1 H1)) | right; split; assumption]. }
  destruct (ps_split p) as [|f rest] eqn:Hsp; [inversion Hmod; subst; apply Hsame; reflexivity|].
  destruct (ps_filookup fe f) as [fi|]; [|inversion Hmod; subst; apply Hsame; reflexivity].
  destruct (ps_fi_nomod fi); [inversion Hmod; subst; apply Hsame; reflexivity|].
  remember (if ps_fi_config fi then match ps_m_orig o with
            | None => {| ps_m_fields := ps_m_fields o; ps_m_orig := Some []; ps_m_version := ps_m_version o |}
            | Some _ => o end else o) as o1 eqn:Hdef.
  assert (ps_m_fields o1 = ps_m_fields o) as Hf1 by (rewrite Hdef; destruct (ps_fi_config fi); [destruct (ps_m_orig o)|]; reflexivity).
  assert (ps_orig_dict o1 = ps_orig_dict o) as Ho1
    by (rewrite Hdef; unfold ps_orig_dict; destruct (ps_fi_config fi); [destruct (ps_m_orig o) eqn:E; cbn; rewrite ?E|]; reflexivity).
  clear Hdef.
  assert (forall k g rk restk nv, ps_split k = g :: rk :: restk -> ps_key_eqb g f = false ->
          ps_nest_old (removelast (rk :: restk)) (last (rk :: restk) []) (ps_start (ps_dget g (ps_dset f nv (ps_m_fields o1)))) <> None ->
          ps_walkable_attr k o) as Hother.
  { intros k g rk restk nv Hk E Hw. unfold ps_walkable_attr. rewrite Hk, <- Hf1.
    rewrite ps_dget_dset_other in Hw; [exact Hw|]. intros ->. rewrite ps_key_eqb_refl in E. discriminate. }
  destruct rest as [|r rest'].
  - cbn in Hmod. split; [|left; unfold ps_walkable_attr; rewrite Hsp; exact I].
    intros k Hi Hw. destruct (ps_field_accepts fi v); inversion Hmod; subst ok o'; clear Hmod;
      [|apply (proj1 (ps_walkable_same_fields_iff k o o1 Hf1)); exact Hw].
    unfold ps_incomp in Hi. rewrite Hsp in Hi. unfold ps_walkable_attr in Hw. cbn [ps_m_fields] in Hw.
    destruct (ps_split k) as [|g [|rk restk]] eqn:Hk; try (unfold ps_walkable_attr; rewrite Hk; exact I).
    destruct (ps_key_eqb g f) eqn:E; [|apply (Hother k g rk restk _ Hk E Hw)].
    apply ps_key_eqb_eq in E. subst g. exfalso. destruct Hi as [Hi _]. cbn in Hi. rewrite ps_key_eqb_refl in Hi. discriminate.
  - set (rest := r :: rest') in *.
    set (ks := removelast rest) in *. set (l := last rest []) in *.
    assert (rest = ks ++ [l]) as Hrest by (apply app_removelast_last; discriminate).
    cbv zeta in Hmod. fold (ps_start (ps_dget f (ps_m_fields o1))) in Hmod.
    destruct (ps_nest_old ks l (ps_start (ps_dget f (ps_m_fields o1)))) as [ov|] eqn:Hold; [|inversion Hmod; subst; apply Hsame; assumption].
    destruct (ps_nest_set ks l v (ps_start (ps_dget f (ps_m_fields o1)))) as [nv|] eqn:Hset; [|inversion Hmod; subst; apply Hsame; assumption].
    destruct (ps_nest_set_is_dict _ _ _ _ _ Hset) as (nd & ->).
    assert (ps_field_accepts fi (PsDict nd) = true) as Hacc by (unfold ps_field_accepts; cbn; rewrite orb_true_r; reflexivity).
    rewrite Hacc in Hmod. inversion Hmod; subst ok o'; clear Hmod. split.
    + intros k Hi Hw. unfold ps_incomp in Hi. rewrite Hsp in Hi. unfold ps_walkable_attr in Hw. cbn [ps_m_fields ps_coerce] in Hw.
      destruct (ps_split k) as [|g [|rk restk]] eqn:Hk; try (unfold ps_walkable_attr; rewrite Hk; exact I).
      destruct (ps_key_eqb g f) eqn:E; [|apply (Hother k g rk restk _ Hk E Hw)].
      apply ps_key_eqb_eq in E. subst g. rewrite ps_dget_dset_same in Hw. unfold ps_start at 1 in Hw. cbn [ps_is_empty] in Hw.
      unfold ps_walkable_attr. rewrite Hk, <- Hf1.
      apply (ps_nest_set_walk_back l v _ ks _ (PsDict nd) _ Hset); [|exact Hw].
      rewrite <- Hrest. rewrite <- app_removelast_last by discriminate.
      apply ps_tincomp_sym. apply (ps_tincomp_cons f). exact Hi.
    + left. unfold ps_walkable_attr. rewrite Hsp, <- Hf1.
      change (ps_nest_old ks l (ps_start (ps_dget f (ps_m_fields o1))) <> None). rewrite Hold. discriminate.
Qed.

Theorem ps_restore_walkable_back fe p now o ok o' x :
  ps_restore_attribute fe p true now o = (ok, o') -> ps_own_only p x (ps_orig_dict o) ->
  (forall k, ps_incomp p k -> ps_walkable_attr k o' -> ps_walkable_attr k o) /\
  (ps_walkable_attr p o' -> ps_walkable_attr p o).
Proof.
  intros Hres Hown. unfold ps_restore_attribute in Hres.
  destruct (ps_split p) as [|f rest] eqn:Hsp; [inversion Hres; subst; tauto|].
  destruct (ps_filookup fe f) as [fi|]; [|inversion Hres; subst; tauto].
  destruct (ps_m_orig o) as [og|] eqn:Horig; [|inversion Hres; subst; tauto].
  assert (ps_orig_dict o = og) as Hog by (unfold ps_orig_dict; rewrite Horig; reflexivity). rewrite Hog in Hown.
  assert (forall k g rk restk nv, ps_split k = g :: rk :: restk -> ps_key_eqb g f = false ->
          ps_nest_old (removelast (rk :: restk)) (last (rk :: restk) []) (ps_start (ps_dget g (ps_dset f nv (ps_m_fields o)))) <> None ->
          ps_walkable_attr k o) as Hother.
  { intros k g rk restk nv Hk E Hw. unfold ps_walkable_attr. rewrite Hk.
    rewrite ps_dget_dset_other in Hw; [exact Hw|]. intros ->. rewrite ps_key_eqb_refl in E. discriminate. }
  destruct rest as [|r rest'].
  - split; [|intros _; unfold ps_walkable_attr; rewrite Hsp; exact I].
    intros k Hi Hw. destruct (negb _); inversion Hres; subst ok o'; [exact Hw|].
    unfold ps_incomp in Hi. rewrite Hsp in Hi. unfold ps_walkable_attr in Hw. cbn [ps_m_fields] in Hw.
    destruct (ps_split k) as [|g [|rk restk]] eqn:Hk; try (unfold ps_walkable_attr; rewrite Hk; exact I).
    destruct (ps_key_eqb g f) eqn:E; [|apply (Hother k g rk restk _ Hk E Hw)].
    apply ps_key_eqb_eq in E. subst g. exfalso. destruct Hi as [Hi _]. cbn in Hi. rewrite ps_key_eqb_refl in Hi. discriminate.
  - set (rest := r :: rest') in *.
    set (ks := removelast rest) in *. set (l := last rest []) in *.
    assert (rest = ks ++ [l]) as Hrest by (apply app_removelast_last; discriminate).
    set (cur := ps_dget f (ps_m_fields o)) in *.
    destruct (ps_is_empty cur) eqn:Eempty; [inversion Hres; subst; tauto|].
    set (F := fun cd => fold_left (ps_restore_entry (f :: rest) l) og cd) in *.
    destruct (ps_nest_update ks F cur) as [nv|] eqn:Hu; [|inversion Hres; subst; tauto].
    destruct (ps_nest_update_is_dict _ _ _ _ Hu) as (nd & ->).
    inversion Hres; subst ok o'; clear Hres.
    assert (ps_start cur = cur) as Hstart by (unfold ps_start; rewrite Eempty; reflexivity).
    split.
    + intros k Hi Hw. unfold ps_incomp in Hi. rewrite Hsp in Hi. unfold ps_walkable_attr in Hw. cbn [ps_m_fields ps_coerce] in Hw.
      destruct (ps_split k) as [|g [|rk restk]] eqn:Hk; try (unfold ps_walkable_attr; rewrite Hk; exact I).
      destruct (ps_key_eqb g f) eqn:E; [|apply (Hother k g rk restk _ Hk E Hw)].
      apply ps_key_eqb_eq in E. subst g. rewrite ps_dget_dset_same in Hw. unfold ps_start at 1 in Hw. cbn [ps_is_empty] in Hw.
      unfold ps_walkable_attr. rewrite Hk. fold cur. rewrite Hstart.
      apply (ps_nest_update_walk_back l F) with (ks' := ks) (nv := PsDict nd); [|exact Hu | | exact Hw].
      * intros d q Hq. unfold F. rewrite <- Hsp. apply (ps_loop_other_opt p l x); assumption.
      * rewrite <- Hrest. rewrite <- app_removelast_last by discriminate.
        apply ps_tincomp_sym. apply (ps_tincomp_cons f). exact Hi.
    + intros _. unfold ps_walkable_attr. rewrite Hsp.
      change (ps_nest_old ks l (ps_start cur) <> None). rewrite Hstart.
      apply (ps_nest_update_walkable ks F l cur _ Hu).
Qed.

Definition ps_top_level (p : ps_key) : bool := match ps_split p with [_] => true | _ => false end.

(* a successful ModifyAttribute lists the path and installs the value *)
Theorem ps_modify_ok_spec fe p v now o o' fi :
  ps_modify_attribute fe p v true now o = (true, o') ->
  ps_filookup fe (ps_field_of p) = Some fi -> ps_fi_config fi = true ->
  ps_is_dict (ps_get_attr p o) = false ->
  ps_dcontains p (ps_orig_dict o') = true /\
  ps_get_attr p o' = (if ps_top_level p then ps_coerce fi v else v) /\ ps_m_version o' = now.
Proof.
  intros Hmod Hfi Hcfg Hnd.
  assert (ps_cfg_field fe p) as Hc by (exists fi; split; assumption).
  destruct (ps_modify_spec fe p v now o true o' Hmod Hc Hnd) as (_ & _ & HE). split; [exact HE|]. clear HE.
  unfold ps_modify_attribute in Hmod. unfold ps_field_of in Hfi. unfold ps_get_attr at 1. unfold ps_top_level.
  destruct (ps_split p) as [|f rest] eqn:Hsp; [discriminate|].
  rewrite Hfi, Hcfg in Hmod. destruct (ps_fi_nomod fi); [discriminate|].
  destruct rest as [|r rest'].
  - cbn in Hmod. destruct (ps_field_accepts fi v); inversion Hmod; subst o'; clear Hmod. cbn.
    split; [apply ps_dget_dset_same | reflexivity].
  - set (rest := r :: rest') in *.
    set (ks := removelast rest) in *. set (l := last rest []) in *.
    assert (rest = ks ++ [l]) as Hrest by (apply app_removelast_last; discriminate).
    cbv zeta in Hmod.
    match type of Hmod with context [ps_nest_old ks l ?s] => set (start := s) in * end.
    destruct (ps_nest_old ks l start) as [ov|]; [|discriminate].
    destruct (ps_nest_set ks l v start) as [nv|] eqn:Hset; [|discriminate].
    destruct (ps_nest_set_is_dict _ _ _ _ _ Hset) as (nd & ->).
    assert (ps_field_accepts fi (PsDict nd) = true) as Hacc by (unfold ps_field_accepts; cbn; rewrite orb_true_r; reflexivity).
    rewrite Hacc in Hmod. inversion Hmod; subst o'; clear Hmod. split; [|reflexivity].
    cbn [ps_m_fields ps_coerce]. rewrite ps_dget_dset_same. change (ps_nest_get rest (PsDict nd) = v).
    rewrite Hrest. apply (ps_nest_set_get l v ks start _ Hset).
Qed.

Theorem ps_modify_succeeds fe p v now o fi :
  ps_filookup fe (ps_field_of p) = Some fi -> ps_fi_nomod fi = false -> ps_fi_config fi = true ->
  (ps_top_level p = true -> ps_field_accepts fi v = true) -> ps_walkable_attr p o ->
  fst (ps_modify_attribute fe p v true now o) = true.
Proof.
  intros Hfi Hn Hc Hacc Hw. unfold ps_modify_attribute. unfold ps_field_of in Hfi. unfold ps_top_level in Hacc.
  unfold ps_walkable_attr in Hw. pose proof (ps_split_nonempty p) as Hne.
  destruct (ps_split p) as [|f rest]; [contradiction|]. rewrite Hfi, Hn, Hc.
  remember (match ps_m_orig o with
            | None => {| ps_m_fields := ps_m_fields o; ps_m_orig := Some []; ps_m_version := ps_m_version o |}
            | Some _ => o end) as o1 eqn:Hdef.
  assert (ps_m_fields o1 = ps_m_fields o) as Hf1 by (rewrite Hdef; destruct (ps_m_orig o); reflexivity).
  clear Hdef. destruct rest as [|r rest'].
  - cbn. rewrite (Hacc eq_refl). reflexivity.
  - cbv zeta. rewrite Hf1. fold (ps_start (ps_dget f (ps_m_fields o))).
    destruct (ps_nest_old (removelast (r :: rest')) (last (r :: rest') []) (ps_start (ps_dget f (ps_m_fields o)))) as [ov|] eqn:Hold;
      [|contradiction].
    destruct (ps_nest_old_set (last (r :: rest') []) v _ _ _ Hold) as (nv & Hset). rewrite Hset.
    destruct (ps_nest_set_is_dict _ _ _ _ _ Hset) as (nd & ->).
    assert (ps_field_accepts fi (PsDict nd) = true) as Ha by (unfold ps_field_accepts; cbn; rewrite orb_true_r; reflexivity).
    rewrite Ha. reflexivity.
Qed.

(* ---- original_attributes never lists a key twice ---- *)
Lemma ps_dcontains_false_keys k d : ps_dcontains k d = false -> ~ In k (map fst d).
Proof.
  unfold ps_dcontains. induction d as [|[k' v'] d IH]; cbn; [tauto|].
  destruct (ps_key_eqb k k') eqn:E; [discriminate|]. intros H [Hin|Hin]; [subst; rewrite ps_key_eqb_refl in E; discriminate | exact (IH H Hin)].
Qed.

Lemma ps_keys_dset k v d : forall k', In k' (map fst (ps_dset k v d)) -> k' = k \/ In k' (map fst d).
Proof.
  intros k' Hin. apply in_map_iff in Hin. destruct Hin as ([k0 x] & <- & Hin). apply ps_in_dset in Hin.
  destruct Hin as [Hin|Hin]; [inversion Hin; left; reflexivity | right; apply in_map_iff; exists (k0, x); auto].
Qed.

Lemma ps_nodup_dset k v d : ~ In k (map fst d) -> NoDup (map fst d) -> NoDup (map fst (ps_dset k v d)).
Proof.
  induction d as [|[k' v'] d IH]; cbn; intros Hn Hnd; [repeat constructor; tauto|].
  destruct (ps_key_eqb k k') eqn:E; [apply ps_key_eqb_eq in E; subst; exfalso; apply Hn; left; reflexivity|].
  destruct (ps_key_ltb k k'); cbn.
  - constructor; [exact Hn | exact Hnd].
  - inversion Hnd; subst. constructor.
    + intros Hin. apply ps_keys_dset in Hin. destruct Hin as [->|Hin]; [rewrite ps_key_eqb_refl in E; discriminate | contradiction].
    + apply IH; [intros Hin; apply Hn; right; exact Hin | assumption].
Qed.

Lemma ps_nodup_dremove k d : NoDup (map fst d) -> NoDup (map fst (ps_dremove k d)).
Proof.
  induction d as [|[k' v'] d IH]; cbn; intros Hnd; [constructor|]. inversion Hnd; subst.
  destruct (ps_key_eqb k k'); [apply IH; assumption|]. cbn. constructor; [|apply IH; assumption].
  intros Hin. apply H1. apply in_map_iff in Hin. destruct Hin as (kx & Hk & Hin). apply ps_in_dremove in Hin.
  apply in_map_iff. exists kx. tauto.
Qed.

Lemma ps_nodup_filter (g : ps_key * ps_value -> bool) d : NoDup (map fst d) -> NoDup (map fst (filter g d)).
Proof.
  induction d as [|kx d IH]; cbn; intros Hnd; [constructor|]. inversion Hnd; subst.
  destruct (g kx); [|apply IH; assumption]. cbn. constructor; [|apply IH; assumption].
  intros Hin. apply H1. apply in_map_iff in Hin. destruct Hin as (kx' & Hk & Hin). apply filter_In in Hin.
  apply in_map_iff. exists kx'. tauto.
Qed.

Theorem ps_restore_nodup fe p now o :
  NoDup (map fst (ps_orig_dict o)) -> NoDup (map fst (ps_orig_dict (snd (ps_restore_attribute fe p true now o)))).
Proof.
  intros Hnd. unfold ps_restore_attribute.
  destruct (ps_split p) as [|f rest]; [exact Hnd|].
  destruct (ps_filookup fe f); [|exact Hnd].
  destruct (ps_m_orig o) as [og|] eqn:Horig; [|exact Hnd].
  assert (ps_orig_dict o = og) as Hog by (unfold ps_orig_dict; rewrite Horig; reflexivity). rewrite Hog in Hnd.
  destruct rest as [|r rest'].
  - destruct (negb _); cbn; [rewrite Hog; exact Hnd|]. unfold ps_orig_dict. cbn. apply ps_nodup_dremove. exact Hnd.
  - destruct (ps_is_empty _); [cbn; rewrite Hog; exact Hnd|].
    destruct (ps_nest_update _ _ _); [|cbn; rewrite Hog; exact Hnd].
    cbn. unfold ps_orig_dict. cbn. apply ps_nodup_dremove. apply ps_nodup_filter. exact Hnd.
Qed.

Lemma ps_dcontains_dset_other k k' v d : ps_dcontains k' d = true -> ps_dcontains k' (ps_dset k v d) = true.
Proof.
  intros H. destruct (ps_key_eqb k' k) eqn:E.
  - apply ps_key_eqb_eq in E. subst. apply ps_dcontains_dset.
  - unfold ps_dcontains in *. rewrite ps_dget_opt_dset_other; [exact H|]. intros ->. rewrite ps_key_eqb_refl in E. discriminate.
Qed.

Definition ps_key_dec : forall a b : ps_key, {a = b} + {a <> b} := list_eq_dec N.eq_dec.

Section Reload.
  Variable fe : ps_fenv.
  Variable P : list ps_key.
  Variable o0 : ps_mobj.
  Hypothesis HPinc : forall p p', In p P -> In p' P -> p <> p' -> ps_incomp p p'.
  Hypothesis HPcfg : forall p, In p P -> ps_cfg_field fe p.
  Hypothesis HPmod : forall p, In p P -> forall fi, ps_filookup fe (ps_field_of p) = Some fi -> ps_fi_nomod fi = false.
  Hypothesis HPtyp : forall p, In p P -> forall fi, ps_filookup fe (ps_field_of p) = Some fi ->
                                          ps_coerce fi (ps_get_attr p o0) = ps_get_attr p o0.

  Definition ps_reload_inv (o : ps_mobj) : Prop :=
    ps_spine_inv P o0 o /\
    (forall k x, In (k, x) (ps_orig_dict o) -> ps_is_dict x = false) /\
    NoDup (map fst (ps_orig_dict o)) /\
    (* every listed path was walkable in the configuration, and what is walkable now was walkable in the configuration *)
    (forall k x, In (k, x) (ps_orig_dict o) -> ps_walkable_attr k o0) /\
    (forall p, In p P -> ps_walkable_attr p o -> ps_walkable_attr p o0).

  Lemma ps_reload_step o op :
    ps_reload_inv o -> In (ps_op_path op) P ->
    (match op with PsOpMod p _ _ => ps_is_dict (ps_get_attr p o) = false | PsOpRes _ _ => True end) ->
    ps_reload_inv (snd (ps_apply fe o op)).
  Proof.
    intros (Hsp & Hd & Hnd & Hw1 & Hw2) Hp Hc. split; [apply (ps_spine_step fe P o0 HPinc HPcfg HPtyp); assumption|].
    pose proof Hsp as ((I1 & _ & _) & _).
    destruct op as [p v t | p t]; cbn in Hp |- *.
    - destruct (ps_modify_attribute fe p v true t o) as [ok o'] eqn:Hm. cbn.
      destruct (ps_modify_spec fe p v t o ok o' Hm (HPcfg p Hp) Hc) as (_ & HC & _).
      destruct (ps_modify_walkable_back fe p v t o ok o' Hm) as (HB1 & HB2).
      assert (forall q, In q P -> ps_walkable_attr q o' -> ps_walkable_attr q o0) as Hw2'.
      { intros q Hq Hw. apply (Hw2 q Hq). destruct (ps_key_dec q p) as [->|Hne].
        - destruct HB2 as [HB2|[_ HB2]]; [exact HB2 | apply (proj1 (ps_walkable_same_fields_iff p o o' HB2)); exact Hw].
        - apply (HB1 q); [apply HPinc; [exact Hp | exact Hq | intros E; apply Hne; symmetry; exact E] | exact Hw]. }
      destruct HC as [HC|[HC1 HC2]]; [rewrite HC; repeat split; assumption|]. rewrite HC2. split; [|split; [|split]].
      + intros k x Hin. apply ps_in_dset in Hin. destruct Hin as [Hin|Hin]; [inversion Hin; subst; exact Hc | exact (Hd k x Hin)].
      + apply ps_nodup_dset; [apply ps_dcontains_false_keys; exact HC1 | exact Hnd].
      + intros k x Hin. apply ps_in_dset in Hin. destruct Hin as [Hin|Hin]; [|exact (Hw1 k x Hin)].
        inversion Hin; subst k x. apply (Hw2 p Hp).
        destruct HB2 as [HB2|[HB2 _]]; [exact HB2|]. exfalso.
        (* original_attributes did change: p is listed now and was not before *)
        rewrite HC2 in HB2. pose proof (ps_dcontains_dset p (ps_get_attr p o) (ps_orig_dict o)) as Hc'. rewrite HB2, HC1 in Hc'. discriminate.
      + exact Hw2'.
    - destruct (ps_restore_attribute fe p true t o) as [ok o'] eqn:Hr.
      pose proof (ps_restore_nodup fe p t o Hnd) as Hnd'. rewrite Hr in Hnd'. cbn in Hnd' |- *.
      destruct Hsp as [Hseq Hspine].
      pose proof (ps_seq_own_only P o0 HPinc o p Hseq Hp) as Hown.
      destruct (ps_restore_spec fe p t o ok o' (ps_get_attr p o0) Hr Hown (HPtyp p Hp)) as (_ & HC & _).
      destruct (ps_restore_walkable_back fe p t o ok o' _ Hr Hown) as (HB1 & HB2).
      split; [|split; [exact Hnd'|split]].
      + intros k x Hin. apply HC in Hin. exact (Hd k x (proj1 Hin)).
      + intros k x Hin. apply HC in Hin. exact (Hw1 k x (proj1 Hin)).
      + intros q Hq Hw. apply (Hw2 q Hq). destruct (ps_key_dec q p) as [->|Hne]; [exact (HB2 Hw)|].
        apply (HB1 q); [apply HPinc; [exact Hp | exact Hq | intros E; apply Hne; symmetry; exact E] | exact Hw].
  Qed.

  Lemma ps_reload_run h : forall o, ps_reload_inv o -> ps_hist_ok fe P o h -> ps_reload_inv (ps_run fe o h).
  Proof.
    induction h as [|op h IH]; intros o Hinv Hok; [exact Hinv|].
    destruct Hok as (Hp & Hnd & Hrest). cbn. apply IH; [|exact Hrest]. apply ps_reload_step; assumption.
  Qed.

  Lemma ps_reload_inv_init : ps_orig_dict o0 = [] -> ps_reload_inv o0.
  Proof.
    intros H0. split; [split; [apply ps_seq_inv_init; exact H0|]|split; [|split; [|split]]]; rewrite ?H0; try (intros k x []); [constructor|].
    intros p _ Hw. exact Hw.
  Qed.

  (* ---- the running object and what has to hold of the values it lists ---- *)
  Variable cur : ps_mobj.
  Hypothesis Hcur : ps_reload_inv cur.
  Variable now : Z.

  Definition ps_listed_ok (k : ps_key) : Prop :=
    ps_writer_codec (ps_get_attr k cur) = ps_get_attr k cur /\            (* survives the writer: <= 6 fractional digits *)
    (ps_top_level k = true -> forall fi, ps_filookup fe (ps_field_of k) = Some fi ->
       ps_field_accepts fi (ps_get_attr k cur) = true /\ ps_coerce fi (ps_get_attr k cur) = ps_get_attr k cur).
  Hypothesis Hvals : forall k x, In (k, x) (ps_orig_dict cur) -> ps_listed_ok k.

  Definition ps_rep_hist (keys : list ps_key) : list ps_op := map (fun k => PsOpMod k (ps_get_attr k cur) now) keys.

  Lemma ps_replay_as_run : forall keys o,
    ps_run_ok fe o (ps_rep_hist keys) = true ->
    (forall k, In k keys -> ps_writer_codec (ps_get_attr k cur) = ps_get_attr k cur) ->
    ps_replay_lines fe (map (fun k => (k, ps_get_attr k cur)) keys) now o = (true, ps_run fe o (ps_rep_hist keys)).
  Proof.
    induction keys as [|k keys IH]; intros o Hok Hc; [reflexivity|].
    cbn in Hok |- *. rewrite (Hc k (or_introl eq_refl)).
    destruct (ps_modify_attribute fe k (ps_get_attr k cur) true now o) as [ok o'] eqn:Hm. cbn in Hok |- *.
    apply andb_true_iff in Hok. destruct Hok as [-> Hok]. apply IH; [exact Hok|]. intros k' Hin. apply Hc. right. exact Hin.
  Qed.

  Definition ps_rep_inv (done : list ps_key) (r : ps_mobj) : Prop :=
    ps_reload_inv r /\
    (forall k, In k done -> In k P /\ ps_get_attr k r = ps_get_attr k cur /\ ps_dcontains k (ps_orig_dict r) = true) /\
    (forall k x, In (k, x) (ps_orig_dict r) -> In k done) /\
    (forall k x, In (k, x) (ps_orig_dict cur) -> ~ In k done -> ps_walkable_attr k r) /\
    (done <> [] -> ps_m_version r = now).

  Lemma ps_replay_run : forall todo done r,
    ps_rep_inv done r -> NoDup todo -> (forall k, In k todo -> ~ In k done) ->
    (forall k, In k todo -> exists x, In (k, x) (ps_orig_dict cur)) ->
    ps_run_ok fe r (ps_rep_hist todo) = true /\ ps_rep_inv (done ++ todo) (ps_run fe r (ps_rep_hist todo)).
  Proof.
    induction todo as [|k todo IH]; intros done r Hinv Hnd Hnot Hlisted.
    - rewrite app_nil_r. split; [reflexivity | exact Hinv].
    - destruct Hinv as (Hrl & Hvalsd & Hent & Hwalk & Hver).
      destruct (Hlisted k (or_introl eq_refl)) as (x & Hkx).
      destruct Hcur as ((Hcseq & _) & Hcd & _). destruct Hcseq as (Ic1 & _ & _).
      destruct (Ic1 k x Hkx) as [HkP Hx].
      destruct (Hvals k x Hkx) as (Hcodec & Htop).
      pose proof (Hnot k (or_introl eq_refl)) as Hkd.
      (* the value at k is still the configured one, hence no dictionary *)
      pose proof Hrl as ((Hrseq & _) & _ & _). pose proof Hrseq as (_ & Ir2 & _).
      assert (ps_get_attr k r = ps_get_attr k o0) as Hk0.
      { apply (Ir2 k HkP). intros y Hin. apply Hkd. exact (Hent k y Hin). }
      assert (ps_is_dict (ps_get_attr k r) = false) as Hndict by (rewrite Hk0, <- Hx; exact (Hcd k x Hkx)).
      destruct (HPcfg k HkP) as (fi & Hfi & Hcfg).
      pose proof (ps_modify_succeeds fe k (ps_get_attr k cur) now r fi Hfi (HPmod k HkP fi Hfi) Hcfg
                    (fun Ht => proj1 (Htop Ht fi Hfi)) (Hwalk k x Hkx Hkd)) as Hsucc.
      pose proof (ps_reload_step r (PsOpMod k (ps_get_attr k cur) now) Hrl HkP Hndict) as Hrl'. cbn in Hrl'.
      cbn [ps_rep_hist map ps_run_ok ps_run fold_left ps_apply].
      destruct (ps_modify_attribute fe k (ps_get_attr k cur) true now r) as [ok r'] eqn:Hm. cbn in Hsucc, Hrl' |- *. subst ok.
      destruct (ps_modify_spec fe k _ now r true r' Hm (HPcfg k HkP) Hndict) as (HA & HC & _).
      destruct (ps_modify_ok_spec fe k _ now r r' fi Hm Hfi Hcfg Hndict) as (Hlist & Hget & Hv).
      assert (ps_rep_inv (done ++ [k]) r') as Hinv'.
      { split; [exact Hrl'|]. split; [|split; [|split]].
        - intros k' Hin. apply in_app_iff in Hin. destruct Hin as [Hin|[<-|[]]].
          + destruct (Hvalsd k' Hin) as (Hk'P & Hg & Hc).
            assert (k <> k') as Hne by (intros ->; contradiction).
            split; [exact Hk'P|]. split; [rewrite (HA k' (HPinc k k' HkP Hk'P Hne)); exact Hg|].
            destruct HC as [HC|[_ HC]]; rewrite HC; [exact Hc | apply ps_dcontains_dset_other; exact Hc].
          + split; [exact HkP|]. split; [|exact Hlist]. rewrite Hget.
            destruct (ps_top_level k) eqn:Et; [exact (proj2 (Htop eq_refl fi Hfi)) | reflexivity].
        - intros k' y Hin. apply in_app_iff. destruct HC as [HC|[_ HC]]; rewrite HC in Hin.
          + left. exact (Hent k' y Hin).
          + apply ps_in_dset in Hin. destruct Hin as [Hin|Hin]; [inversion Hin; right; left; reflexivity | left; exact (Hent k' y Hin)].
        - intros k' y Hin Hnd'. assert (~ In k' done /\ k <> k') as [Hn1 Hn2].
          { split; [intros H; apply Hnd'; apply in_app_iff; left; exact H | intros ->; apply Hnd'; apply in_app_iff; right; left; reflexivity]. }
          apply (ps_modify_walkable fe k _ now r true r' Hm k'); [|exact (Hwalk k' y Hin Hn1)].
          apply HPinc; [exact HkP | exact (proj1 (Ic1 k' y Hin)) | exact Hn2].
        - intros _. exact Hv. }
      inversion Hnd; subst.
      destruct (IH (done ++ [k]) r' Hinv' H2) as [Hok Hfin].
      + intros k' Hin Hd. apply in_app_iff in Hd. destruct Hd as [Hd|[<-|[]]]; [exact (Hnot k' (or_intror Hin) Hd) | contradiction].
      + intros k' Hin. apply Hlisted. right. exact Hin.
      + split; [exact Hok|]. rewrite <- app_assoc in Hfin. exact Hfin.
  Qed.

  Lemma ps_dump_keys_spine : forall keys,
    (forall k, In k keys -> ps_spine_attr k cur) ->
    ps_dump_modattrs_keys cur keys = Some (map (fun k => (k, ps_get_attr k cur)) keys).
  Proof.
    induction keys as [|k keys IH]; intros Hs; [reflexivity|].
    cbn [ps_dump_modattrs_keys map]. rewrite IH by (intros k' Hin; apply Hs; right; exact Hin).
    assert (ps_dma_value cur k = Some (ps_get_attr k cur)) as ->; [|reflexivity].
    specialize (Hs k (or_introl eq_refl)). unfold ps_dma_value, ps_get_attr. unfold ps_spine_attr in Hs.
    pose proof (ps_split_nonempty k) as Hne.
    destruct (ps_split k) as [|f [|r rest']]; [contradiction | reflexivity|].
    rewrite (ps_spine_dma_walk (last (r :: rest') []) _ _ Hs). rewrite <- app_removelast_last by discriminate. reflexivity.
  Qed.

  (* DumpModifiedAttributes of the running object, the script replayed on the configured object *)
  Theorem ps_reload_roundtrip ver :
    ps_orig_dict o0 = [] ->
    exists script r,
      ps_dump_modattrs cur = Some script /\ ps_replay_modattrs fe script ver now o0 = (true, r) /\
      (forall p, In p P -> ps_get_attr p r = ps_get_attr p cur) /\
      (forall q, (forall p, In p P -> ps_incomp p q) -> ps_get_attr q r = ps_get_attr q cur) /\
      (forall k x, In (k, x) (ps_orig_dict r) <-> In (k, x) (ps_orig_dict cur)) /\
      (ps_orig_dict cur <> [] -> ps_m_version r = ver) /\
      (ps_orig_dict cur = [] -> script = [] /\ r = o0).
  Proof.
    intros H0. set (keys := map fst (ps_orig_dict cur)).
    pose proof Hcur as ((Hcseq & Hcsp) & Hcd & Hcnd & Hcw & _). pose proof Hcseq as (Ic1 & Ic2 & Ic3).
    assert (forall k, In k keys -> exists x, In (k, x) (ps_orig_dict cur)) as Hkeys.
    { intros k Hin. apply in_map_iff in Hin. destruct Hin as ([k' x] & <- & Hin). exists x. exact Hin. }
    exists (map (fun k => (k, ps_get_attr k cur)) keys).
    assert (ps_dump_modattrs cur = Some (map (fun k => (k, ps_get_attr k cur)) keys)) as Hdump.
    { unfold ps_dump_modattrs. fold keys. apply ps_dump_keys_spine. intros k Hin. destruct (Hkeys k Hin) as (x & Hx). exact (Hcsp k x Hx). }
    assert (ps_rep_inv [] o0) as Hinv0.
    { split; [apply ps_reload_inv_init; exact H0|]. split; [intros k []|]. split; [rewrite H0; intros k x []|].
      split; [|intros H; contradiction]. intros k x Hin _. exact (Hcw k x Hin). }
    destruct (ps_replay_run keys [] o0 Hinv0 Hcnd (fun k _ H => H) Hkeys) as [Hok Hfin]. cbn [app] in Hfin.
    set (r1 := ps_run fe o0 (ps_rep_hist keys)) in *.
    pose proof (ps_replay_as_run keys o0 Hok) as Hrep.
    assert (forall k, In k keys -> ps_writer_codec (ps_get_attr k cur) = ps_get_attr k cur) as Hcod.
    { intros k Hin. destruct (Hkeys k Hin) as (x & Hx). exact (proj1 (Hvals k x Hx)). }
    specialize (Hrep Hcod). fold r1 in Hrep.
    destruct Hfin as (Hr1 & Hr1v & Hr1e & _ & Hr1ver).
    pose proof Hr1 as ((Hr1seq & _) & _ & _). pose proof Hr1seq as (Jr1 & Jr2 & Jr3).
    assert (forall p, In p P -> ps_get_attr p r1 = ps_get_attr p cur) as HgP.
    { intros p Hp. destruct (in_dec ps_key_dec p keys) as [Hin|Hnin].
      - exact (proj1 (proj2 (Hr1v p Hin))).
      - rewrite (Jr2 p Hp); [|intros y Hy; apply Hnin; exact (Hr1e p y Hy)].
        symmetry. apply (Ic2 p Hp). intros y Hy. apply Hnin. apply in_map_iff. exists (p, y). auto. }
    assert (forall q, (forall p, In p P -> ps_incomp p q) -> ps_get_attr q r1 = ps_get_attr q cur) as HgQ
      by (intros q Hq; rewrite (Jr3 q Hq), (Ic3 q Hq); reflexivity).
    assert (forall k x, In (k, x) (ps_orig_dict r1) <-> In (k, x) (ps_orig_dict cur)) as Horig.
    { intros k x. split; intros Hin.
      - destruct (Hkeys k (Hr1e k x Hin)) as (x' & Hx'). rewrite (proj2 (Jr1 k x Hin)), <- (proj2 (Ic1 k x' Hx')). exact Hx'.
      - assert (In k keys) as Hk by (apply in_map_iff; exists (k, x); auto).
        destruct (ps_dcontains_in k _ (proj2 (proj2 (Hr1v k Hk)))) as (x' & Hx' & _).
        rewrite (proj2 (Ic1 k x Hin)), <- (proj2 (Jr1 k x' Hx')). exact Hx'. }
    unfold ps_replay_modattrs.
    destruct keys as [|k0 keys'] eqn:Ek.
    - exists o0. cbn. cbn in r1. subst r1. repeat split; try assumption; try reflexivity; try apply Horig.
      intros Hne. exfalso. apply Hne. unfold keys in Ek. destruct (ps_orig_dict cur); [reflexivity | discriminate].
    - eexists. split; [exact Hdump|]. cbn [map]. cbn [map] in Hrep. rewrite Hrep. split; [reflexivity|].
      split; [|split; [|split; [|split]]].
      + intros p Hp. rewrite <- (HgP p Hp). apply ps_get_attr_same_fields. reflexivity.
      + intros q Hq. rewrite <- (HgQ q Hq). apply ps_get_attr_same_fields. reflexivity.
      + intros k x. rewrite <- Horig. unfold ps_orig_dict. cbn. tauto.
      + intros _. reflexivity.
      + intros He. exfalso. unfold keys in Ek. rewrite He in Ek. discriminate.
  Qed.
End Reload.
