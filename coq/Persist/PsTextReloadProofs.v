(* C14 - the population reload theorem composed with the text chain: dump, WRITE (ConfigWriter), COMPILE (lexer + parser),
   evaluate.  Rests on PsPopProofs.ps_pop_reload (values) and PsTextProofs.ps_pop_reload_text (C17's round trip). *)
From Icv Require Import Base.Tac Persist.PsValue Persist.PsModel Persist.PsValueProofs Persist.PsReloadProofs
  Persist.PsPopModel Persist.PsPopProofs Persist.PsText Persist.PsTextProofs.
From Coq Require Import NArith.
Local Open Scope N_scope.

Theorem ps_pop_reload_through_text fe now specs :
  NoDup (map ps_s_name specs) -> (forall s, In s specs -> ps_pspec_ok fe s) ->
  (forall s, In s specs -> ps_obj_txt_ok (ps_s_cur s)) ->
  exists blocks r,
    ps_pop_dump (ps_pop_cur specs) = Some blocks /\ ps_file_parse blocks = Some blocks /\
    ps_pop_replay_text fe now blocks (ps_pop_base specs) = (true, r) /\
    map ps_p_name r = map ps_s_name specs /\
    (forall s, In s specs -> exists ro, ps_pop_find (ps_s_name s) r = Some ro /\ ps_pspec_concl s ro).
Proof.
  intros Hnd Hok Htxt. destruct (ps_pop_reload fe now specs Hnd Hok) as (blocks & r & Hd & Hr & Hn & Hc).
  assert (Hall : forall po, In po (ps_pop_cur specs) -> ps_obj_txt_ok (ps_p_obj po)).
  { intros po Hin. unfold ps_pop_cur in Hin. apply in_map_iff in Hin. destruct Hin as (s & <- & Hs). cbn. apply Htxt. exact Hs. }
  destruct (ps_pop_reload_text fe now _ blocks (ps_pop_base specs) Hall Hd) as [Hp He].
  exists blocks, r. split; [exact Hd|]. split; [exact Hp|]. split; [rewrite He; exact Hr|]. split; assumption.
Qed.
