(* C14 - Deserialize (Serialize v) = v for every value of the data model in which no dictionary has a key "type"
   (plain data: Empty, Boolean, Number, String, Array, Dictionary at any nesting), and the refutation for the
   excluded shape (F-C14-b). *)
From Icv Require Import Base.Tac Persist.PsValue Persist.PsModel Persist.PsValueProofs.
From Coq Require Import NArith.
Local Open Scope N_scope.

(* plain data without the F-C14-b shape *)
Fixpoint ps_plain (v : ps_value) {struct v} : bool :=
  match v with
  | PsArr l => forallb ps_plain l
  | PsDict d =>
    negb (ps_dcontains ps_type_key d) &&
    (fix go (d : ps_dict) : bool := match d with [] => true | (_, x) :: t => ps_plain x && go t end) d
  | PsObj _ _ => false
  | _ => true
  end.

Definition ps_ser_dict env mask : ps_dict -> ps_dict :=
  fix go (d : ps_dict) : ps_dict := match d with [] => [] | (k, x) :: t => (k, ps_serialize env mask x) :: go t end.
Definition ps_deser_dict env mask : ps_dict -> ps_dict :=
  fix go (d : ps_dict) : ps_dict := match d with [] => [] | (k, x) :: t => (k, ps_deserialize env mask x) :: go t end.
Definition ps_plain_dict : ps_dict -> bool :=
  fix go (d : ps_dict) : bool := match d with [] => true | (_, x) :: t => ps_plain x && go t end.

Lemma ps_ser_dict_get env mask k d :
  ps_dcontains k (ps_ser_dict env mask d) = ps_dcontains k d.
Proof.
  unfold ps_dcontains. induction d as [|[k' x] d IH]; cbn; [reflexivity|].
  destruct (ps_key_eqb k k'); [reflexivity | exact IH].
Qed.

Lemma ps_list_roundtrip env mask l :
  Forall (fun v => ps_plain v = true -> ps_deserialize env mask (ps_serialize env mask v) = v) l ->
  forallb ps_plain l = true ->
  map (ps_deserialize env mask) (map (ps_serialize env mask) l) = l.
Proof.
  induction 1 as [|x l Hx Hl IH]; intros Hp; [reflexivity|].
  cbn [forallb] in Hp. apply andb_true_iff in Hp. destruct Hp as [Hpx Hpl].
  cbn [map]. rewrite (Hx Hpx), (IH Hpl). reflexivity.
Qed.

Lemma ps_dict_roundtrip env mask d :
  Forall (fun kv => ps_plain (snd kv) = true -> ps_deserialize env mask (ps_serialize env mask (snd kv)) = snd kv) d ->
  ps_plain_dict d = true ->
  ps_deser_dict env mask (ps_ser_dict env mask d) = d.
Proof.
  induction 1 as [|[k x] d Hx Hd IH]; intros Hp; [reflexivity|].
  cbn in Hp. apply andb_true_iff in Hp. destruct Hp as [Hpx Hpd].
  cbn. cbn in Hx. rewrite (Hx Hpx). f_equal. exact (IH Hpd).
Qed.

Theorem ps_value_roundtrip env mask v :
  ps_plain v = true -> ps_deserialize env mask (ps_serialize env mask v) = v.
Proof.
  induction v using ps_value_ind'; intros Hp; try reflexivity.
  - (* array *) cbn [ps_serialize ps_deserialize]. f_equal. apply ps_list_roundtrip; assumption.
  - (* dictionary *)
    cbn in Hp. apply andb_true_iff in Hp. destruct Hp as [Hty Hall].
    change (ps_serialize env mask (PsDict d)) with (PsDict (ps_ser_dict env mask d)).
    cbn [ps_deserialize]. rewrite ps_ser_dict_get. apply negb_true_iff in Hty. rewrite Hty.
    f_equal. apply (ps_dict_roundtrip env mask d H Hall).
  - discriminate.
Qed.

(* ---- the state file: one record per object, restored onto a fresh object of the same type and name ---- *)

(* F-C14-b on the model: {"type":"nonexistent","k":"v"} comes back as null, {"type":"Host"} as an instantiated Host *)
Definition ps_w_env : ps_tenv := [([72; 111; 115; 116], [{| ps_fd_name := [120]; ps_fd_attr := 4; ps_fd_default := PsNum 0 0 |}])].
Lemma ps_type_key_refuted :
  let v1 := PsDict [([107], PsStr [118]); (ps_type_key, PsStr [110; 111; 110; 101])] in
  let v2 := PsArr [PsDict [(ps_type_key, PsStr [72; 111; 115; 116])]; PsStr [97]] in
  ps_deserialize ps_w_env ps_FAState (ps_serialize ps_w_env ps_FAState v1) = PsEmpty /\
  ps_deserialize ps_w_env ps_FAState (ps_serialize ps_w_env ps_FAState v2)
    = PsArr [PsObj [72; 111; 115; 116] [([120], PsNum 0 0)]; PsStr [97]].
Proof. vm_compute. split; reflexivity. Qed.

Example ps_value_roundtrip_nonvacuous :
  ps_plain (PsDict [([97], PsArr [PsNum 1234567 7; PsStr []; PsEmpty; PsDict []]); ([116; 121; 112; 101; 48], PsBool true)]) = true.
Proof. reflexivity. Qed.
