(* C14 - the SEQUENCE theorem for modify/restore: for every history of ModifyAttribute / RestoreAttribute calls on a
   set P of pairwise token-incomparable paths (the same path any number of times), restoring the modified paths in
   any order brings every path of P (and everything incomparable with P) back to its configured value and empties
   original_attributes.  Hypotheses = negated signatures of the recorded findings: no modify meets a dictionary at
   its path (restore-dict-original), the paths are pairwise incomparable (restore-overlap). *)
From Icv Require Import Base.Tac Persist.PsValue Persist.PsModel Persist.PsValueProofs Persist.PsRestoreProofs Persist.PsFrameProofs.
From Coq Require Import NArith.
Local Open Scope N_scope.

Inductive ps_op :=
| PsOpMod (p : ps_key) (v : ps_value) (t : Z)
| PsOpRes (p : ps_key) (t : Z).

Definition ps_op_path (op : ps_op) : ps_key := match op with PsOpMod p _ _ => p | PsOpRes p _ => p end.

Definition ps_apply (fe : ps_fenv) (o : ps_mobj) (op : ps_op) : bool * ps_mobj :=
  match op with
  | PsOpMod p v t => ps_modify_attribute fe p v true t o
  | PsOpRes p t => ps_restore_attribute fe p true t o
  end.

Definition ps_run (fe : ps_fenv) (o : ps_mobj) (h : list ps_op) : ps_mobj :=
  fold_left (fun o op => snd (ps_apply fe o op)) h o.

(* did every call of the history report success *)
Fixpoint ps_run_ok (fe : ps_fenv) (o : ps_mobj) (h : list ps_op) : bool :=
  match h with
  | [] => true
  | op :: t => fst (ps_apply fe o op) && ps_run_ok fe (snd (ps_apply fe o op)) t
  end.

(* the visible hypothesis on a history: every call is on a path of P, and no ModifyAttribute finds a dictionary at its path *)
Fixpoint ps_hist_ok (fe : ps_fenv) (P : list ps_key) (o : ps_mobj) (h : list ps_op) : Prop :=
  match h with
  | [] => True
  | op :: t =>
    In (ps_op_path op) P /\
    (match op with PsOpMod p _ _ => ps_is_dict (ps_get_attr p o) = false | PsOpRes _ _ => True end) /\
    ps_hist_ok fe P (snd (ps_apply fe o op)) t
  end.

Lemma ps_in_dset_other kx k v d : In kx d -> fst kx <> k -> In kx (ps_dset k v d).
Proof.
  induction d as [|[k' v'] d IH]; cbn; [tauto|]. intros Hin Hne.
  destruct (ps_key_eqb k k') eqn:E; [|destruct (ps_key_ltb k k')]; cbn.
  - apply ps_key_eqb_eq in E. subst k'. destruct Hin as [H|H]; [subst kx; cbn in Hne; contradiction | right; exact H].
  - right. exact Hin.
  - destruct Hin as [H|H]; [left; exact H | right; apply IH; assumption].
Qed.

Lemma ps_no_entry_dcontains p d : (forall x, ~ In (p, x) d) -> ps_dcontains p d = false.
Proof.
  intros H. destruct (ps_dcontains p d) eqn:E; [|reflexivity].
  destruct (ps_dcontains_in p d E) as (x & Hin & _). exfalso. exact (H x Hin).
Qed.

Section Sequence.
  Variable fe : ps_fenv.
  Variable P : list ps_key.
  Variable o0 : ps_mobj.                                          (* the object as configured *)
  Hypothesis HPinc : forall p p', In p P -> In p' P -> p <> p' -> ps_incomp p p'.
  Hypothesis HPcfg : forall p, In p P -> ps_cfg_field fe p.
  Hypothesis HPtyp : forall p, In p P -> forall fi, ps_filookup fe (ps_field_of p) = Some fi ->
                                          ps_coerce fi (ps_get_attr p o0) = ps_get_attr p o0.

  Definition ps_seq_inv (o : ps_mobj) : Prop :=
    (forall k x, In (k, x) (ps_orig_dict o) -> In k P /\ x = ps_get_attr k o0) /\
    (forall p, In p P -> (forall x, ~ In (p, x) (ps_orig_dict o)) -> ps_get_attr p o = ps_get_attr p o0) /\
    (forall q, (forall p, In p P -> ps_incomp p q) -> ps_get_attr q o = ps_get_attr q o0).

  Lemma ps_seq_own_only o p : ps_seq_inv o -> In p P -> ps_own_only p (ps_get_attr p o0) (ps_orig_dict o).
  Proof.
    intros (I1 & _ & _) Hp [k y] Hin Hm. cbn in Hm |- *.
    destruct (I1 k y Hin) as [Hk Hy]. destruct (ps_key_eqb k p) eqn:E.
    - apply ps_key_eqb_eq in E. subst k. split; [reflexivity | exact Hy].
    - exfalso. assert (p <> k) as Hne by (intros ->; rewrite ps_key_eqb_refl in E; discriminate).
      destruct (HPinc p k Hp Hk Hne) as [H1 _]. rewrite ps_entry_matches_eq, H1 in Hm. discriminate.
  Qed.

  Lemma ps_seq_step o op :
    ps_seq_inv o -> In (ps_op_path op) P ->
    (match op with PsOpMod p _ _ => ps_is_dict (ps_get_attr p o) = false | PsOpRes _ _ => True end) ->
    ps_seq_inv (snd (ps_apply fe o op)).
  Proof.
    intros Hinv Hp Hnd. pose proof Hinv as (I1 & I2 & I3). destruct op as [p v t | p t]; cbn in Hp |- *.
    - (* ModifyAttribute *)
      destruct (ps_modify_attribute fe p v true t o) as [ok o'] eqn:Hm. cbn.
      destruct (ps_modify_spec fe p v t o ok o' Hm (HPcfg p Hp) Hnd) as (HA & HC & HE).
      split; [|split].
      + intros k x Hin. destruct HC as [HC|[HC1 HC2]].
        * rewrite HC in Hin. exact (I1 k x Hin).
        * rewrite HC2 in Hin. apply ps_in_dset in Hin. destruct Hin as [Hin|Hin]; [|exact (I1 k x Hin)].
          inversion Hin; subst k x. split; [exact Hp|]. apply (I2 p Hp). apply ps_dcontains_false_not_in. exact HC1.
      + intros p' Hp' Hno. destruct (ps_key_eqb p' p) eqn:E.
        * apply ps_key_eqb_eq in E. subst p'.
          destruct ok; [rewrite (ps_no_entry_dcontains p _ Hno) in HE; discriminate|].
          rewrite (ps_get_attr_same_fields p o o' HE). apply (I2 p Hp).
          destruct HC as [HC|[_ HC2]]; [rewrite <- HC; exact Hno|].
          exfalso. apply (Hno (ps_get_attr p o)). rewrite HC2. apply ps_in_dset_self.
        * assert (p <> p') as Hne by (intros ->; rewrite ps_key_eqb_refl in E; discriminate).
          rewrite (HA p' (HPinc p p' Hp Hp' Hne)). apply (I2 p' Hp').
          intros x Hin. apply (Hno x). destruct HC as [HC|[_ HC2]]; [rewrite HC; exact Hin|].
          rewrite HC2. apply ps_in_dset_other; [exact Hin|]. cbn. intros ->. apply Hne. reflexivity.
      + intros q Hq. rewrite (HA q (Hq p Hp)). apply (I3 q Hq).
    - (* RestoreAttribute *)
      destruct (ps_restore_attribute fe p true t o) as [ok o'] eqn:Hr. cbn.
      destruct (ps_restore_spec fe p t o ok o' (ps_get_attr p o0) Hr (ps_seq_own_only o p Hinv Hp) (HPtyp p Hp))
        as (HA & HC & HE & HF).
      destruct ok; [|rewrite (HF eq_refl); exact Hinv].
      split; [|split].
      + intros k x Hin. apply HC in Hin. exact (I1 k x (proj1 Hin)).
      + intros p' Hp' Hno. destruct (ps_key_eqb p' p) eqn:E.
        * apply ps_key_eqb_eq in E. subst p'. rewrite (HE eq_refl).
          destruct (ps_dcontains p (ps_orig_dict o)) eqn:Ec; [reflexivity|].
          apply (I2 p Hp). apply ps_dcontains_false_not_in. exact Ec.
        * assert (p <> p') as Hne by (intros ->; rewrite ps_key_eqb_refl in E; discriminate).
          rewrite (HA p' (HPinc p p' Hp Hp' Hne)). apply (I2 p' Hp').
          intros x Hin. apply (Hno x). apply HC. split; [exact Hin|]. intros _. cbn. intros ->. apply Hne. reflexivity.
      + intros q Hq. rewrite (HA q (Hq p Hp)). apply (I3 q Hq).
  Qed.

  Lemma ps_seq_run h : forall o, ps_seq_inv o -> ps_hist_ok fe P o h -> ps_seq_inv (ps_run fe o h).
  Proof.
    induction h as [|op h IH]; intros o Hinv Hok; [exact Hinv|].
    destruct Hok as (Hp & Hnd & Hrest). cbn. apply IH; [|exact Hrest]. apply ps_seq_step; assumption.
  Qed.

  Lemma ps_seq_inv_init : ps_orig_dict o0 = [] -> ps_seq_inv o0.
  Proof. intros H. split; [|split]; try reflexivity. intros k x Hin. rewrite H in Hin. contradiction. Qed.

  (* the restore phase: paths of P, each with its call time *)
  Definition ps_restores (rs : list (ps_key * Z)) : list ps_op := map (fun r => PsOpRes (fst r) (snd r)) rs.

  Lemma ps_restores_hist_ok rs : forall o, (forall r, In r rs -> In (fst r) P) -> ps_hist_ok fe P o (ps_restores rs).
  Proof.
    induction rs as [|r rs IH]; intros o H; cbn; [exact I|]. split; [apply H; left; reflexivity|]. split; [exact I|].
    apply IH. intros r' Hin. apply H. right. exact Hin.
  Qed.

  Lemma ps_restores_entries rs : forall o,
    ps_seq_inv o -> (forall r, In r rs -> In (fst r) P) -> ps_run_ok fe o (ps_restores rs) = true ->
    forall kx, In kx (ps_orig_dict (ps_run fe o (ps_restores rs))) -> In kx (ps_orig_dict o) /\ ~ In (fst kx) (map fst rs).
  Proof.
    induction rs as [|[p t] rs IH]; intros o Hinv HP Hok kx Hin; [cbn in Hin |- *; tauto|].
    cbn in Hok, Hin. apply andb_true_iff in Hok. destruct Hok as [Hok1 Hok2].
    assert (In p P) as Hp by (apply (HP (p, t)); left; reflexivity).
    destruct (ps_restore_attribute fe p true t o) as [ok o'] eqn:Hr. cbn in Hok1, Hok2, Hin. subst ok.
    destruct (ps_restore_spec fe p t o true o' (ps_get_attr p o0) Hr (ps_seq_own_only o p Hinv Hp) (HPtyp p Hp))
      as (_ & HC & _ & _).
    assert (ps_seq_inv o') as Hinv'.
    { pose proof (ps_seq_step o (PsOpRes p t) Hinv Hp I) as H. cbn in H. rewrite Hr in H. exact H. }
    destruct (IH o' Hinv' (fun r Hr' => HP r (or_intror Hr')) Hok2 kx Hin) as [Hin' Hnot].
    apply HC in Hin'. destruct Hin' as [Hin0 Hne]. split; [exact Hin0|].
    cbn. intros [E|E]; [apply (Hne eq_refl); symmetry; exact E | exact (Hnot E)].
  Qed.

  (* THE SEQUENCE THEOREM *)
  Theorem ps_restore_sequence h rs :
    ps_orig_dict o0 = [] ->
    ps_hist_ok fe P o0 h ->
    let o := ps_run fe o0 h in
    (forall r, In r rs -> In (fst r) P) ->
    (forall k x, In (k, x) (ps_orig_dict o) -> In k (map fst rs)) ->          (* every modified path gets restored *)
    ps_run_ok fe o (ps_restores rs) = true ->                                 (* and the calls report success *)
    let o' := ps_run fe o (ps_restores rs) in
    (forall p, In p P -> ps_get_attr p o' = ps_get_attr p o0) /\
    (forall q, (forall p, In p P -> ps_incomp p q) -> ps_get_attr q o' = ps_get_attr q o0) /\
    ps_orig_dict o' = [].
  Proof.
    intros H0 Hh o HrsP Hcover Hok o'.
    assert (ps_seq_inv o) as Hinv by (apply ps_seq_run; [apply ps_seq_inv_init; exact H0 | exact Hh]).
    assert (ps_seq_inv o') as Hinv' by (apply ps_seq_run; [exact Hinv | apply ps_restores_hist_ok; exact HrsP]).
    assert (ps_orig_dict o' = []) as Hempty.
    { destruct (ps_orig_dict o') as [|[k x] og] eqn:E; [reflexivity|]. exfalso.
      destruct (ps_restores_entries rs o Hinv HrsP Hok (k, x)) as [Hin Hnot]; [unfold o' in E; rewrite E; left; reflexivity|].
      apply Hnot. exact (Hcover k x Hin). }
    destruct Hinv' as (_ & I2 & I3). split; [|split; [exact I3 | exact Hempty]].
    intros p Hp. apply (I2 p Hp). intros x Hin. rewrite Hempty in Hin. contradiction.
  Qed.
End Sequence.

(* non-vacuity: three pairwise incomparable paths, a history with repeated modifies, a failing modify, an interleaved
   restore, created intermediate dictionaries; then everything restored in another order *)
Definition ps_q_fe : ps_fenv :=
  [([118; 97; 114; 115], {| ps_fi_config := true; ps_fi_nomod := false; ps_fi_kind := 1 |});
   ([110], {| ps_fi_config := true; ps_fi_nomod := false; ps_fi_kind := 3 |})].
Definition ps_q_o0 : ps_mobj :=
  {| ps_m_fields := [([110], PsStr [120]); ([118; 97; 114; 115], PsDict [([97], PsNum 5 0); ([98], PsDict [([100], PsBool true)])])];
     ps_m_orig := None; ps_m_version := 0%Z |}.
Definition ps_q_a : ps_key := [118; 97; 114; 115; 46; 97].                 (* vars.a   *)
Definition ps_q_bc : ps_key := [118; 97; 114; 115; 46; 98; 46; 99].        (* vars.b.c (missing leaf) *)
Definition ps_q_xyz : ps_key := [118; 97; 114; 115; 46; 120; 46; 121].     (* vars.x.y (missing intermediate) *)
Definition ps_q_n : ps_key := [110].
Definition ps_q_P := [ps_q_a; ps_q_bc; ps_q_xyz; ps_q_n].
Definition ps_q_h : list ps_op :=
  [PsOpMod ps_q_a (PsNum 6 0) 1%Z; PsOpMod ps_q_bc (PsStr [104]) 2%Z; PsOpMod ps_q_a (PsArr [PsNum 7 0]) 3%Z;
   PsOpRes ps_q_a 4%Z; PsOpMod ps_q_xyz (PsNum 1 0) 5%Z; PsOpMod ps_q_n (PsStr [121]) 6%Z; PsOpMod ps_q_a (PsNum 8 0) 7%Z].
Definition ps_q_rs : list (ps_key * Z) := [(ps_q_n, 8%Z); (ps_q_xyz, 9%Z); (ps_q_a, 10%Z); (ps_q_bc, 11%Z)].

Example ps_restore_sequence_nonvacuous :
  ps_incomp ps_q_a ps_q_bc /\ ps_incomp ps_q_a ps_q_xyz /\ ps_incomp ps_q_a ps_q_n /\
  ps_incomp ps_q_bc ps_q_xyz /\ ps_incomp ps_q_bc ps_q_n /\ ps_incomp ps_q_xyz ps_q_n /\
  ps_hist_ok ps_q_fe ps_q_P ps_q_o0 ps_q_h /\
  ps_run_ok ps_q_fe (ps_run ps_q_fe ps_q_o0 ps_q_h) (ps_restores ps_q_rs) = true /\
  map fst (ps_orig_dict (ps_run ps_q_fe ps_q_o0 ps_q_h)) = [ps_q_n; ps_q_a; ps_q_bc; ps_q_xyz] /\
  ps_orig_dict (ps_run ps_q_fe (ps_run ps_q_fe ps_q_o0 ps_q_h) (ps_restores ps_q_rs)) = [] /\
  (* the restored object: values at the paths as configured, with the null leaves the code leaves behind *)
  ps_dget [118; 97; 114; 115] (ps_m_fields (ps_run ps_q_fe (ps_run ps_q_fe ps_q_o0 ps_q_h) (ps_restores ps_q_rs)))
    = PsDict [([97], PsNum 5 0); ([98], PsDict [([99], PsEmpty); ([100], PsBool true)]); ([120], PsDict [([121], PsEmpty)])].
Proof.
  repeat split; try (vm_compute; reflexivity); vm_compute; auto 10.
Qed.
