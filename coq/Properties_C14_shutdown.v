(* C14 - companion: "identical values after a stop/start cycle" includes the SHUTDOWN path.  The final
   DumpProgramState of OnShutdown next to a periodic dump of the retention timer that is still running.
   Each theorem is closed by [exact] of a lemma proved in Persist/PsShutdownProofs.v. *)
From Icv Require Import Base.Tac Facts.Facts_c14 Persist.PsShutdown Persist.PsShutdownProofs.
From Coq Require Import Arith Bool List NArith.
Import ListNotations.

(* For EVERY history before shutdown (changes; periodic dumps finished or in flight at any step), and EVERYTHING that
   happens after OnShutdown was entered (the periodic dump continues at any pace - any interleaving -, further periodic
   dumps begin, changes): in every state in which OnShutdown's dump has returned without an exception, the state file
   and modified-attributes.conf each hold a snapshot taken no earlier than the moment OnShutdown was entered, i.e. one
   that reflects every change made before shutdown.  Visible hypothesis = the negated signature of the finding
   shutdown-dump-cleanup-race: the final dump did not throw. *)
Theorem C14_shutdown_dump_fresh : forall pre post st0,
  psd_shut_idle st0 -> psd_no_shut pre -> psd_no_start_shut post ->
  let st1 := psd_run false pre st0 in
  let st2 := psd_run false (PsdStart PsdShut :: post) st1 in
  pdt_live (pds_shut st2) = false -> pdt_threw (pds_shut st2) = false ->
  forall f, exists v, pdf_final (psd_ffs_of f st2) = Some v /\ pds_ver st1 <= v.
Proof. exact psd_shutdown_fresh. Qed.
Print Assumptions C14_shutdown_dump_fresh.

(* the executable oracle of the tie accepts every such state of the model *)
Theorem C14_shutdown_oracle_accepts_model : forall pre post st0,
  psd_shut_idle st0 -> psd_no_shut pre -> psd_no_start_shut post ->
  let st1 := psd_run false pre st0 in
  let st2 := psd_run false (PsdStart PsdShut :: post) st1 in
  pdt_live (pds_shut st2) = false -> pdt_threw (pds_shut st2) = false ->
  psd_orc (pdt_threw (pds_shut st2)) (psd_stale (pds_ver st1) st2) = 0%N.
Proof. exact psd_shutdown_not_stale. Qed.
Print Assumptions C14_shutdown_oracle_accepts_model.

(* when the periodic dump makes no step during the final dump (held on an object lock inside its serialisation - the
   directed schedule of the tie), the final dump returns without an exception, whatever state the periodic dump is in *)
Theorem C14_shutdown_dump_completes : forall st,
  pdt_live (pds_shut st) = false ->
  let st' := psd_run false (PsdStart PsdShut :: repeat (PsdStep PsdShut) 8) st in
  pdt_live (pds_shut st') = false /\ pdt_threw (pds_shut st') = false /\ pdt_pc (pds_shut st') = 8.
Proof. exact psd_shutdown_completes. Qed.
Print Assumptions C14_shutdown_dump_completes.

(* refuted design: "a dump is already running - log and return", also for OnShutdown's call *)
Theorem C14_shutdown_skip_refuted :
  let st := psd_run true [PsdStart PsdTimer; PsdStep PsdTimer; PsdStep PsdTimer; PsdStep PsdTimer; PsdChange; PsdStart PsdShut] psd_st0 in
  pdt_live (pds_shut st) = false /\ pdt_threw (pds_shut st) = false /\
  pdf_final (pds_s st) = Some 0 /\ pdf_final (pds_m st) = Some 0 /\ pds_ver st = 1 /\
  psd_orc (pdt_threw (pds_shut st)) (psd_stale 1 st) = 40%N.
Proof. exact psd_skip_refuted. Qed.
Print Assumptions C14_shutdown_skip_refuted.

(* FINDING shutdown-dump-cleanup-race on the source as it is *)
Theorem C14_shutdown_cleanup_race_refuted :
  let st := psd_run false psd_sched_late psd_st0 in
  pdt_threw (pds_shut st) = true /\ pdt_live (pds_shut st) = false /\ pds_ver st = 1 /\
  pdf_final (pds_s st) = Some 0 /\ pdf_final (pds_m st) = Some 0 /\ psd_observe false psd_sched_late = (true, true).
Proof. exact psd_cleanup_race_refuted. Qed.
Print Assumptions C14_shutdown_cleanup_race_refuted.

(* regenerated: DumpProgramState dumps on every call (nothing in front of DumpObjects can return or skip), and OnShutdown
   calls it unconditionally *)
Theorem C14_source_fact_shutdown : psd_src_skip = false /\ psd_src_shutdown_dumps = true.
Proof. exact psd_src_fact. Qed.
Print Assumptions C14_source_fact_shutdown.

(* non-vacuity: the directed schedule "parked" satisfies the premises and ends with both files at version 1 *)
Example C14_shutdown_nonvacuous :
  psd_shut_idle psd_st0 /\ psd_observe false psd_sched_parked = (false, false) /\
  (let st := psd_run false psd_sched_parked psd_st0 in pdf_final (pds_s st) = Some 1 /\ pdf_final (pds_m st) = Some 1).
Proof. vm_compute. repeat split. Qed.
