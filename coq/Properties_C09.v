(* C09 - the property theorems, nothing else.  Each is closed by [exact] of a lemma proved in
   Macro/MxProofs.v or Macro/MxOracleProofs.v and followed by Print Assumptions. *)
From Icv Require Import Base.Tac Macro.MxDefs Macro.MxModel Macro.MxProofs Macro.MxOracle Macro.MxOracleProofs.
From Coq Require Import NArith Permutation Sorted.
Local Open Scope N_scope.

(* ---- array command lines: macro values land verbatim in exactly one argv element ---- *)

(* (i) a command-line element that is one macro with a string value IS that value, whatever bytes it has
   (non-recursive sources: any bytes; custom variables: '$' introduces nested macros by design) *)
Theorem C09_array_verbatim : forall env name v recur pre post,
  ~ In mx_ch_dollar name -> name <> [] ->
  mx_resolve_macro env name = (true, MxStr v, recur) -> (recur = true -> ~ In mx_ch_dollar v) ->
  Forall (fun l => ~ In mx_ch_dollar l) pre -> Forall (fun l => ~ In mx_ch_dollar l) post ->
  mx_resolve_arguments env (MxArr (List.map MxStr pre ++ mx_macro_str name :: List.map MxStr post)) None =
  MxCmdArr (pre ++ v :: post).
Proof. exact mx_array_element. Qed.
Print Assumptions C09_array_verbatim.

(* (ii) an argument definition `value = "$name$"` carries the macro's string value unchanged ... *)
Theorem C09_array_verbatim_argument : forall env a name v recur,
  ~ In mx_ch_dollar name -> name <> [] ->
  mx_resolve_macro env name = (true, MxStr v, recur) -> (recur = true -> ~ In mx_ch_dollar v) ->
  mx_as_isdict a = true -> mx_as_value a = mx_macro_str name -> mx_set_if_absent a ->
  mx_arg_step 0 env a =
  MxArgPush {| mx_ca_order := mx_as_order a; mx_ca_skip_key := mx_as_skip_key a; mx_ca_repeat_key := mx_as_repeat_key a;
               mx_ca_skip_value := false;
               mx_ca_key := match mx_as_key a with Some k => k | None => mx_as_name a end;
               mx_ca_sep := mx_as_sep a; mx_ca_value := MxStr v |}.
Proof. exact mx_arg_step_simple. Qed.
Print Assumptions C09_array_verbatim_argument.

(* (iii) ... the argv is the command words followed by the groups of the collected arguments in stable
   ascending `order` ... *)
Theorem C09_array_verbatim_order : forall env lits args cargs,
  Forall (fun l => ~ In mx_ch_dollar l) lits ->
  mx_collect 0 env args = inl cargs ->
  mx_resolve_arguments env (MxArr (List.map MxStr lits)) (Some args) = MxCmdArr (lits ++ flat_map mx_emit (mx_sort cargs)) /\
  Permutation (mx_sort cargs) cargs /\ StronglySorted mx_ord_le (mx_sort cargs) /\
  (forall o, filter (fun x => Z.eqb (mx_ca_order x) o) (mx_sort cargs) = filter (fun x => Z.eqb (mx_ca_order x) o) cargs).
Proof.
  intros env lits args cargs Hl Hc. split; [exact (mx_array_argv env lits args cargs Hl Hc)|].
  split; [apply mx_sort_perm|]. split; [apply mx_sort_sorted|]. intros o. apply mx_sort_stable.
Qed.
Print Assumptions C09_array_verbatim_order.

(* (iv) ... and each group is this function of key / separator / skip_key / repeat_key: a string value is
   one element (alone, or glued to key and separator), a flag is its key, an array repeats per value *)
Theorem C09_array_verbatim_groups : forall c,
  (forall v, mx_ca_value c = MxStr v -> mx_ca_skip_value c = false ->
     mx_emit c = mx_spec_words (mx_ca_key c) (mx_ca_sep c) (mx_ca_skip_key c) v) /\
  (mx_ca_value c = MxEmpty -> mx_ca_skip_value c = true ->
     mx_emit c = if mx_ca_skip_key c then [] else [mx_ca_key c]) /\
  (forall vs, mx_ca_value c = MxArr (List.map MxStr vs) -> mx_ca_skip_value c = false ->
     mx_emit c = match vs with
                 | [] => []
                 | v0 :: r => mx_spec_words (mx_ca_key c) (mx_ca_sep c) (mx_ca_skip_key c) v0 ++
                              flat_map (mx_spec_words (mx_ca_key c) (mx_ca_sep c) (mx_ca_skip_key c || negb (mx_ca_repeat_key c))) r
                 end).
Proof. intros c. split; [exact (mx_emit_string c)|]. split; [exact (mx_emit_flag c)|exact (mx_emit_array c)]. Qed.
Print Assumptions C09_array_verbatim_groups.

(* ---- string command lines: the escaped value is read back by sh as exactly the value ---- *)
Theorem C09_string_quoting : forall pre v post st,
  ~ In 0 v -> mx_sh_run mx_sh_init pre = Some st -> mx_sh_mode st = MxShU ->
  mx_sh_split (pre ++ mx_escape_shell_arg v ++ post) = mx_sh_split_from (mx_sh_glue st v) post.
Proof. exact mx_string_quoting. Qed.
Print Assumptions C09_string_quoting.

Theorem C09_string_quoting_words : forall pre v post st wq,
  ~ In 0 v ->
  mx_sh_run mx_sh_init pre = Some st -> mx_sh_mode st = MxShU -> mx_sh_cur st = None ->
  mx_sh_split (mx_ch_space :: post) = Some wq ->
  mx_sh_split pre = Some (rev (mx_sh_words st)) /\
  mx_sh_split (pre ++ mx_escape_shell_arg v ++ mx_ch_space :: post) = Some (rev (mx_sh_words st) ++ [v] ++ wq).
Proof. exact mx_string_quoting_words. Qed.
Print Assumptions C09_string_quoting_words.

(* the resolver puts exactly that escaped text at the macro's position of a string command line *)
Theorem C09_string_template : forall f level env pre name post v m,
  (level <= 15)%nat -> ~ In mx_ch_dollar pre -> ~ In mx_ch_dollar name -> ~ In mx_ch_dollar post -> pre ++ post <> [] ->
  mx_resolve1 (mx_irm f (S level) env false) env true name = MxOk (MxStr v) m ->
  mx_irm (S f) level env true (pre ++ mx_ch_dollar :: name ++ mx_ch_dollar :: post) = MxOk (MxStr (pre ++ v ++ post)) m.
Proof. intros. eapply mx_irm_template; eassumption. Qed.
Print Assumptions C09_string_template.

(* ---- `$$` : a literal dollar sign in every environment ---- *)
Theorem C09_dollar : forall f level env pre post,
  (level <= 15)%nat -> ~ In mx_ch_dollar pre -> ~ In mx_ch_dollar post ->
  mx_irm (S f) level env false (pre ++ mx_ch_dollar :: mx_ch_dollar :: post) = MxOk (MxStr (pre ++ mx_ch_dollar :: post)) false.
Proof. exact mx_dollar_string. Qed.
Print Assumptions C09_dollar.

(* for the record of the fixed finding (fix 4feca083): the OLD code, [mx_resolve1_pre_fix], handed the "$" of `$$`
   back to the recursive resolver when a custom variable was named "", and re-parsing "$" throws *)
Theorem C09_dollar_old_code_refuted : forall rec,
  mx_resolve1_pre_fix rec mx_dollar_witness_env false [] =
  match rec [mx_ch_dollar] with MxThrow e => MxThrow e | MxOk v m => MxOk v m end /\
  mx_irm 1 3 mx_dollar_witness_env false [mx_ch_dollar] = MxThrow MxErrUnclosed.
Proof. exact mx_dollar_pre_fix_refuted. Qed.
Print Assumptions C09_dollar_old_code_refuted.

(* ---- missing macros ---- *)
Theorem C09_missing_optional : forall env cmd pre a post name,
  ~ In mx_ch_dollar name -> name <> [] -> fst (fst (mx_resolve_macro env name)) = false ->
  mx_as_value a = mx_macro_str name -> mx_set_if_absent a -> mx_as_isdict a && mx_as_required a = false ->
  mx_resolve_arguments env cmd (Some (pre ++ a :: post)) = mx_resolve_arguments env cmd (Some (pre ++ post)).
Proof.
  intros env cmd pre a post name Hd Hn Hm Hv Hs Hr. apply mx_resolve_arguments_skip.
  rewrite (mx_arg_step_missing env a name Hd Hn Hm Hv Hs), Hr. reflexivity.
Qed.
Print Assumptions C09_missing_optional.

Theorem C09_missing_required : forall env cmd pre a post name plugin_exit,
  ~ In mx_ch_dollar name -> name <> [] -> fst (fst (mx_resolve_macro env name)) = false ->
  mx_as_value a = mx_macro_str name -> mx_set_if_absent a -> mx_as_isdict a = true -> mx_as_required a = true ->
  exists e, mx_resolve_arguments env cmd (Some (pre ++ a :: post)) = MxCmdThrow e /\
            mx_exec_state (MxCmdThrow e) plugin_exit = 3%Z /\ mx_plugin_argv (MxCmdThrow e) = MxArgvNone.
Proof.
  intros env cmd pre a post name pe Hd Hn Hm Hv Hs Hi Hr.
  pose proof (mx_arg_step_missing env a name Hd Hn Hm Hv Hs) as H. rewrite Hi, Hr in H. cbn in H.
  destruct (mx_collect_throw env pre a post _ H) as [e1 He1].
  destruct (mx_resolve_arguments_throw env cmd _ e1 He1) as [e He]. exists e. split; [exact He|apply mx_throw_unknown].
Qed.
Print Assumptions C09_missing_required.

(* ---- termination: the recursion counter bounds the nesting ---- *)
Theorem C09_terminates : forall env f1 f2 level esc s,
  (16 - level < f1)%nat -> (16 - level < f2)%nat ->
  mx_irm f1 level env esc s = mx_irm f2 level env esc s /\ mx_irm f1 level env esc s <> MxThrow MxErrFuel.
Proof. exact mx_terminates. Qed.
Print Assumptions C09_terminates.

(* ---- exit status, output ---- *)
Theorem C09_exit_map : forall st,
  (st = 0 -> mx_exit_to_state st = 0)%Z /\ (st = 1 -> mx_exit_to_state st = 1)%Z /\
  (st = 2 -> mx_exit_to_state st = 2)%Z /\ (st = 3 -> mx_exit_to_state st = 3)%Z /\
  (st <> 0 -> st <> 1 -> st <> 2 -> mx_exit_to_state st = 3)%Z.
Proof. exact mx_exit_map. Qed.
Print Assumptions C09_exit_map.

Theorem C09_output_split : forall text perf,
  (forall line, ~ In mx_ch_pipe line -> mx_parse_line (text, perf) line = (mx_nl text ++ line, perf)) /\
  (forall before after, ~ In mx_ch_pipe before ->
     mx_parse_line (text, perf) (before ++ mx_ch_pipe :: after) =
     if mx_mem mx_ch_eq after then (mx_nl text ++ before, mx_sp perf ++ after)
     else (mx_nl text ++ before ++ mx_ch_pipe :: after, perf)).
Proof. exact mx_output_line. Qed.
Print Assumptions C09_output_split.

(* perfdata "l1=v1 l2=v2 ..." with plain labels (no '=', blank, quote, ':'; not starting with white space) and
   blank-free values is split into exactly its items, each unchanged *)
Theorem C09_perfdata_items : forall pairs,
  Forall (fun p => mx_pd_plain_label (fst p) /\ ~ In mx_ch_space (snd p)) pairs ->
  mx_split_perfdata (mx_join [mx_ch_space] (List.map mx_pd_item pairs)) = List.map mx_pd_item pairs.
Proof. exact mx_split_perfdata_items. Qed.
Print Assumptions C09_perfdata_items.

(* more than 16 argument definitions: with pairwise distinct `order` every sorted permutation - the result of
   std::sort whatever algorithm it uses - is the model's sort, so C09_array_verbatim_order applies unchanged *)
Theorem C09_sort_unique : forall l l' : list mx_carg,
  NoDup (List.map mx_ca_order l) -> Permutation l' l -> StronglySorted mx_ord_le l' -> l' = mx_sort l.
Proof. exact mx_sort_unique. Qed.
Print Assumptions C09_sort_unique.

(* ---- timeout: once a call of DoEvents has seen the soft deadline passed, the result is UNKNOWN with the marker,
   whatever the plugin does afterwards and whatever exit code it produces ---- *)
Theorem C09_timeout_unknown : forall pre e rest p' ex out,
  mx_proc_steps mx_proc_init pre = Some p' -> mx_ev_past_soft e = true ->
  mx_proc_run p' (e :: rest) = Some (ex, out) ->
  ex = 128%Z /\ mx_infix mx_s_timeout out /\ mx_cr_state (mx_finish ex out) = 3%Z.
Proof. exact mx_timeout_unknown. Qed.
Print Assumptions C09_timeout_unknown.

(* ---- the oracle run over implementation traces never fires on what the model produces ---- *)
Theorem C09_oracle_accepts_model : forall env command arguments plugin_exit plugin_out,
  mx_oracle_resolve env command arguments (mx_resolve_arguments env command arguments) = None /\
  (mx_plugin_argv (mx_resolve_arguments env command arguments) <> MxArgvUnknown ->
   mx_oracle_exec env command arguments plugin_exit plugin_out (mx_observe_exec env command arguments plugin_exit plugin_out) = None).
Proof.
  intros. split; [apply mx_oracle_resolve_accepts|]. intros. apply mx_oracle_exec_accepts; assumption.
Qed.
Print Assumptions C09_oracle_accepts_model.

Theorem C09_oracle_accepts_timeout : forall evs s e m,
  mx_timeout_observe evs = Some (s, e, m) -> mx_oracle_timeout evs s e m = None.
Proof. exact mx_oracle_timeout_accepts. Qed.
Print Assumptions C09_oracle_accepts_timeout.

Theorem C09_oracle_accepts_pure : forall v st output,
  (~ In 0 v -> mx_oracle_escape v (mx_escape_shell_arg v) = None) /\
  mx_oracle_exit st (mx_exit_to_state st) = None /\
  mx_oracle_output output (fst (mx_parse_check_output output)) (snd (mx_parse_check_output output))
                   (mx_split_perfdata (snd (mx_parse_check_output output))) = None.
Proof.
  intros. split; [apply mx_oracle_escape_accepts|]. split; [apply mx_oracle_exit_accepts|apply mx_oracle_output_accepts].
Qed.
Print Assumptions C09_oracle_accepts_pure.

(* non-vacuity: host custom variable q = "it's; $$ `x`" referenced through a chain, argument -a with
   separator, argument -b whose macro is missing; and the shell reading of a hostile value *)
Example C09_nonvacuous :
  let host := {| mx_lv_name := [104;111;115;116]; mx_lv_short := true;
                 mx_lv_vars := Some [([113], MxStr [36;114;36]); ([114], MxStr [105;116;39;115;59;32;36;36;32;96;120;96])];
                 mx_lv_macros := []; mx_lv_fields := [] |} in
  let arg n v sep := {| mx_as_name := n; mx_as_isdict := true; mx_as_key := None; mx_as_value := mx_macro_str v;
                        mx_as_required := false; mx_as_skip_key := false; mx_as_repeat_key := true; mx_as_order := 0%Z;
                        mx_as_sep := sep; mx_as_set_if := MxEmpty |} in
  mx_resolve_arguments [host] (MxArr [MxStr [112]]) (Some [arg [45;97] [113] (Some [61]); arg [45;98] [122] None]) =
    MxCmdArr [[112]; [45;97;61;105;116;39;115;59;32;36;32;96;120;96]] /\
  mx_sh_split ([112;32] ++ mx_escape_shell_arg [105;116;39;115;59;32;36;32;96;120;96] ++ [32;45;122]) =
    Some [[112]; [105;116;39;115;59;32;36;32;96;120;96]; [45;122]].
Proof. vm_compute. split; reflexivity. Qed.
