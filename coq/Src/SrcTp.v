(* C08: TimePeriod::IsInside, translated from /repo (Facts_fn_tp.v), equals the model's tp_is_inside. *)
From Icv Require Import Base.Tac Src.XlPrelude Tp.TpModel Facts.Facts_fn_tp.
Local Open Scope Z_scope.

Definition xtp_empty (o : option Z) : bool := match o with Some _ => false | None => true end.
Definition xtp_val (o : option Z) : Z := match o with Some v => v | None => 0 end.

(* valid_begin / valid_end are Values: Empty or a number; the segments array exists *)
Lemma src_timeperiod_is_inside_eq : src_timeperiod_is_inside_recognised = true ->
  forall s t,
    src_timeperiod_is_inside t (xtp_empty (tp_vb s)) (xtp_val (tp_vb s)) (xtp_empty (tp_ve s)) (xtp_val (tp_ve s)) true (tp_segs s)
    = tp_is_inside s t.
Proof.
  intro Hrec; xl_rec Hrec.
  all: intros s t; unfold src_timeperiod_is_inside, tp_is_inside, tp_inside_segs.
  all: rewrite (xl_for_exists_ext (tp_in_seg t)) by (intros x _; unfold tp_in_seg; xl_crush).
  all: generalize (existsb (tp_in_seg t) (tp_segs s)); intro b.
  all: destruct (tp_vb s), (tp_ve s); cbn [xtp_empty xtp_val]; xl_crush.
Qed.
