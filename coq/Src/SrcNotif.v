(* C03: the notification filter functions translated from /repo (Facts_fn_notif.v, Facts_fn_ck.v) equal the
   functions of the notification model (Notif/NfModel.v). *)
From Icv Require Import Base.Tac Src.XlPrelude Notif.NfModel Facts.Facts_enums Facts.Facts_fn_enums Facts.Facts_fn_ck Facts.Facts_fn_notif.
Local Open Scope Z_scope.

Ltac xn_enums := unfold f_ServiceOK, f_ServiceWarning, f_ServiceCritical, f_ServiceUnknown, f_HostUp, f_HostDown,
  f_StateFilterOK, f_StateFilterWarning, f_StateFilterCritical, f_StateFilterUnknown, f_StateFilterUp, f_StateFilterDown,
  f_NotificationRecovery, f_NotificationProblem in *.

(* ServiceStateToFilter / HostStateToFilter on the states the API reports *)
Lemma src_service_state_to_filter_eq : src_service_state_to_filter_recognised = true ->
  forall raw, 0 <= raw <= 3 -> src_service_state_to_filter raw = nf_state_bit true raw.
Proof.
  intro Hrec; xl_rec Hrec.
  all: intros raw Hr; unfold src_service_state_to_filter, nf_state_bit; xn_enums; xl_crush.
Qed.

Lemma src_host_state_to_filter_eq : src_host_state_to_filter_recognised = true ->
  forall raw, src_host_state_to_filter (nf_api_state false raw) = nf_state_bit false raw.
Proof.
  intro Hrec; xl_rec Hrec.
  all: intros raw; unfold src_host_state_to_filter, nf_state_bit, nf_api_state; xn_enums; xl_crush.
Qed.

Lemma xn_u64_bit : forall ty, xl_u64 (nf_type_bit ty) = nf_type_bit ty.
Proof. intro ty; destruct ty; reflexivity. Qed.

Lemma xn_u64_state_bit : forall svc raw, xl_u64 (nf_state_bit svc raw) = nf_state_bit svc raw.
Proof. intros svc raw; unfold nf_state_bit; xl_split; reflexivity. Qed.

(* Notification::CheckNotificationUserFilters = nf_user_filters.  The user's period is "closed" when it exists and
   the instant is not inside it; GetState() of the checkable is the API state of the raw state. *)
Lemma src_notification_check_user_filters_eq : src_notification_check_user_filters_recognised = true ->
  forall c x ty force reminder u has_p inside,
    0 <= cx_raw x <= 3 -> nfu_per_closed u = has_p && negb inside ->
    src_notification_check_user_filters (nf_type_bit ty) force reminder has_p inside (nfu_types u) (nfc_svc c)
      (nf_api_state (nfc_svc c) (cx_raw x)) (nfu_states u)
    = nf_user_filters c x ty force u.
Proof.
  intro Hrec; xl_rec Hrec.
  all: intros c x ty force reminder u has_p inside Hr Hp.
  all: unfold src_notification_check_user_filters, nf_user_filters, nf_passes, nf_type_eqb; rewrite Hp.
  all: change f_NotificationRecovery with (nf_type_bit NfRecovery); rewrite xn_u64_bit.
  all: destruct (nfc_svc c) eqn:Hs.
  all: try (unfold nf_api_state at 1; rewrite (src_service_state_to_filter_eq eq_refl _ Hr)).
  all: try rewrite (src_host_state_to_filter_eq eq_refl).
  all: cbv zeta; rewrite ?xn_u64_state_bit.
  all: generalize (Z.land (nf_type_bit ty) (nfu_types u)) (Z.land (nf_state_bit true (cx_raw x)) (nfu_states u))
                  (Z.land (nf_state_bit false (cx_raw x)) (nfu_states u)); intros.
  all: xl_crush.
Qed.

(* Checkable::NotificationReasonApplies / NotificationReasonSuppressed = nf_reason_applies / nf_reason_suppressed,
   for every notification type (the types the C++ does not handle end in VERIFY(false) / `default: return false`) *)
Lemma src_checkable_notification_reason_applies_nf : src_checkable_notification_reason_applies_recognised = true ->
  forall x ty is_host cr_state,
    cx_cr_ok x = src_checkable_is_state_ok is_host cr_state ->
    src_checkable_notification_reason_applies (nf_type_bit ty) is_host (cx_has_cr x) cr_state (cx_flapping x)
    = nf_reason_applies x ty.
Proof.
  intro Hrec; xl_rec Hrec.
  all: intros x ty is_host cr_state Hok; unfold src_checkable_notification_reason_applies, nf_reason_applies.
  all: rewrite Hok; generalize (src_checkable_is_state_ok is_host cr_state) (cx_has_cr x) (cx_flapping x); intros b h fl.
  all: destruct ty, h, b, fl; reflexivity.
Qed.

Lemma src_checkable_notification_reason_suppressed_nf : src_checkable_notification_reason_suppressed_recognised = true ->
  forall x ty,
    src_checkable_notification_reason_suppressed (nf_type_bit ty) (cx_reachable x) (cx_downtime x) (cx_acked x)
    = nf_reason_suppressed x ty.
Proof.
  intro Hrec; xl_rec Hrec.
  all: intros x ty; unfold src_checkable_notification_reason_suppressed, nf_reason_suppressed.
  all: generalize (cx_reachable x) (cx_downtime x) (cx_acked x); intros r d a.
  all: destruct ty, r, d, a; reflexivity.
Qed.
