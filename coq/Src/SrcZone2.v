(* Round 2 of the translator tie, C13/C11: the head of JsonRpcConnection::MessageHandler ("ignore old messages" + construction of
   the message origin) and the zone selection of ApiListener::RelayMessageOne - regenerated from /repo into
   coq/Facts/Facts_fn_zone2.v - against Msg/MzModel.mz_from_zone, mz_handle_core (dropped / remote log position) and
   Msg/MzFwd.mz_relay_one.  Zone::Ptr = option nat over the model's zone tree (glue of round 1: xz_eqb, xz_parent, xz_global). *)
From Icv Require Import Base.Tac Src.XlPrelude Msg.MzModel Msg.MzFwd Facts.Facts_fn_zone Src.SrcZone Facts.Facts_fn_zone2.
Local Open Scope Z_scope.

Lemma xz_eqb_onat a b : xz_eqb a b = mz_onat_eqb a b.
Proof. destruct a, b; reflexivity. Qed.

(* ------------------------------------------------------------------ MessageHandler *)
Definition xz_ep_zone (s : mz_conn) : option nat := match mz_ep s with Some ez => ez | None => None end.

Lemma src_jsonrpc_message_origin_eq : src_jsonrpc_message_origin_recognised = true ->
  forall l s has_ts ts rlp0,
    src_jsonrpc_message_origin (mz_is_some (mz_ep s)) has_ts ts rlp0 (xz_ep_zone s) l (mz_cclaim s)
    = let old := mz_is_some (mz_ep s) && has_ts && (ts <? rlp0) in
      (old,
       if mz_is_some (mz_ep s) && has_ts && negb (ts <? rlp0) then ts else rlp0,
       if old then None else mz_from_zone l s).
Proof.
  intro Hrec; xl_rec Hrec.
  all: intros l s has_ts ts rlp0; unfold src_jsonrpc_message_origin, mz_from_zone, xz_ep_zone; rewrite ?xz_eqb_onat; cbv zeta.
  all: destruct (mz_ep s) as [ez|]; cbn [mz_is_some andb]; destruct has_ts; cbn [andb negb];
       try destruct (ts <? rlp0); cbn [negb]; try destruct (mz_onat_eqb ez (Some l)); reflexivity.
Qed.

(* in the vocabulary of mz_handle_core: MzTsOld = has ts and ts < position, MzTsNew = has ts and not *)
Lemma src_jsonrpc_message_origin_handle : src_jsonrpc_message_origin_recognised = true ->
  forall t c s m tsk row eff has_ts ts rlp0,
    mz_ts_is tsk MzTsOld = has_ts && (ts <? rlp0) -> mz_ts_is tsk MzTsNew = has_ts && negb (ts <? rlp0) ->
    let '(dropped, rlp, fz) := src_jsonrpc_message_origin (mz_is_some (mz_ep s)) has_ts ts rlp0 (xz_ep_zone s) (mz_local c) (mz_cclaim s) in
    mz_dropped (mz_handle_core t c s m tsk row eff) = dropped /\
    (mz_rlp (mz_handle_core t c s m tsk row eff) = true -> rlp = ts) /\
    (dropped = false -> mz_rlp (mz_handle_core t c s m tsk row eff) = false -> rlp = rlp0) /\
    (dropped = false -> fz = mz_from_zone (mz_local c) s).
Proof.
  intros H t c s m tsk row eff has_ts ts rlp0 Ho Hn. rewrite (src_jsonrpc_message_origin_eq H). cbv zeta.
  unfold mz_handle_core. rewrite Ho, Hn.
  destruct (mz_is_some (mz_ep s)), has_ts, (ts <? rlp0); cbn; repeat split; intros; congruence.
Qed.

(* several DISTINCT events relayed within one clock tick carry equal "ts": a message whose ts is not older than the sending
   endpoint's remote log position - in particular EQUAL to it - is not dropped, the position becomes (stays) ts, the origin is
   built as without ts; and the model handles it exactly like a message without ts as far as applying goes *)
Lemma src_jsonrpc_equal_ts_processed : src_jsonrpc_message_origin_recognised = true ->
  forall l s ts rlp0, (rlp0 <= ts)%Z ->
    src_jsonrpc_message_origin (mz_is_some (mz_ep s)) true ts rlp0 (xz_ep_zone s) l (mz_cclaim s)
    = (false, (if mz_is_some (mz_ep s) then ts else rlp0), mz_from_zone l s).
Proof.
  intros H l s ts rlp0 L. rewrite (src_jsonrpc_message_origin_eq H). cbv zeta.
  assert (E: (ts <? rlp0)%Z = false) by (apply Z.ltb_ge; exact L). rewrite E.
  destruct (mz_is_some (mz_ep s)); reflexivity.
Qed.

Lemma mz_not_older_processed : forall t c s m row eff,
  mz_dropped (mz_handle_core t c s m MzTsNew row eff) = false /\ @eq bool (mz_applied (mz_handle_core t c s m MzTsNew row eff)) (mz_applied (mz_handle_core t c s m MzTsNone row eff)).
Proof. intros. unfold mz_handle_core. destruct (mz_is_some (mz_ep s)); cbn; split; reflexivity. Qed.

(* ------------------------------------------------------------------ RelayMessageOne: candidate zones *)
Lemma xz_collect_children : forall (t : mz_tree) (l : nat) (body : list (option nat) -> option nat -> xl_ctl (list (option nat)) unit) (zs : list nat) acc,
  (forall a z, body a (Some z) = XlNext (if mz_onat_eqb (mz_par t z) (Some l) then a ++ [Some z] else a)) ->
  xl_for body (map Some zs) acc = inl (acc ++ map Some (filter (fun z => mz_onat_eqb (mz_par t z) (Some l)) zs)).
Proof.
  intros t l body zs; induction zs as [|z r IH]; intros acc H; cbn [map xl_for filter].
  - rewrite app_nil_r; reflexivity.
  - rewrite H. rewrite IH by exact H. destruct (mz_onat_eqb (mz_par t z) (Some l)); cbn [map]; [rewrite <- app_assoc|]; reflexivity.
Qed.

Lemma src_relay_target_zones_eq : src_relay_target_zones_recognised = true ->
  forall t l a,
    src_relay_target_zones t l a (map Some (seq 0 (length t)))
    = (match mz_relay_one t l a with [] => true | _ => false end, map Some (mz_relay_one t l a)).
Proof.
  intro Hrec; xl_rec Hrec.
  all: intros t l a; unfold src_relay_target_zones, mz_relay_one, mz_children; cbn [xz_global xz_parent]; rewrite ?xz_eqb_onat.
  all: rewrite (xz_collect_children t l) by (intros b z; cbn [xz_parent]; rewrite xz_eqb_onat; destruct (mz_onat_eqb (mz_par t z) (Some l)); reflexivity).
  all: destruct (mz_glob t a), (Nat.eqb a l) eqn:E0, (mz_par t l) as [pl|], (mz_par t a) as [pa|];
       cbn [xz_eqb mz_onat_eqb negb andb orb app map]; rewrite ?E0; cbn [negb andb orb];
       try rewrite (Nat.eqb_sym a pl); try destruct (Nat.eqb pl a); try destruct (Nat.eqb pa l); reflexivity.
Qed.
