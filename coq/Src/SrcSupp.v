(* Round 2 of the translator tie, C02: the send / suppress / stash part of Checkable::ProcessCheckResult and
   Checkable::FireSuppressedNotifications, regenerated from /repo into coq/Facts/Facts_fn_supp.v, against the model's
   result step (Ck/CkFull.do_result through the owner's decomposition Ck/CkSuppStep: c02_res_view / c02_send /
   c02_res_tail) and fire step (CkFull.do_fire through CkSuppFire.do_fire_spec).

   The C++ keeps the suppressed notification types in ONE int bit mask and the state before suppression as a
   ServiceState; the model keeps four booleans and an sstate.  The relation is the encoding xmask / sstate_num /
   ntype_num - stated in every lemma.  Where all inputs are finite (booleans, enumerations) the equivalence is decided
   by exhaustive computation (Src/XlEnum.v), which does not depend on the shape of the translated term. *)
From Icv Require Import Base.Tac Src.XlPrelude Src.XlEnum Ck.CkState Ck.CkStateProofs Ck.CkFull Ck.CkSuppProofs Ck.CkSuppStep Ck.CkSuppFire.
From Icv Require Import Facts.Facts_enums Facts.Facts_fn_enums Facts.Facts_fn_ck Src.SrcCk Facts.Facts_fn_supp.
Local Open Scope Z_scope.

(* ------------------------------------------------------------------ encodings *)
Definition xmask (p r fs fe : bool) : Z :=
  (if p then 32 else 0) + (if r then 64 else 0) + (if fs then 128 else 0) + (if fe then 256 else 0).

Lemma xmask_supp f : supp_mask f = xmask (f_sp_problem f) (f_sp_recovery f) (f_sp_fstart f) (f_sp_fend f).
Proof. reflexivity. Qed.

(* a model output as the notification request the C++ makes (0 = not a notification) *)
Definition xn_of_out (o : out) : xn_ev := XnRequest (match o with ONotify t => ntype_num t | _ => 0 end).

Definition xn_eqb (a b : xn_ev) : bool := match a, b with XnRequest x, XnRequest y => x =? y end.
Lemma xn_eqb_eq a b : xn_eqb a b = true -> a = b.
Proof. destruct a, b; cbn; intro H; apply Z.eqb_eq in H; congruence. Qed.

Definition xall_stype : list stype := [Soft; Hard].
Definition xall_sstate : list sstate := [SOK; SWarning; SCritical; SUnknown].
Definition xall_kind : list kind := [KHost; KService].

(* ------------------------------------------------------------------ (1) send_notification / suppress_notification *)
Lemma src_pcr_send_suppress_eq : src_pcr_send_suppress_recognised = true ->
  forall b i s' new_state nreach in_dt acked,
    src_pcr_send_suppress (xk_is_host (c_kind b)) nreach in_dt acked (i_hard_change i) (c_volatile b)
      (xst_num (i_old_type i)) (xst_num (s_type s')) (sstate_num (i_old_raw i)) (sstate_num new_state)
    = (in_dt, c02_send b i s' new_state, negb nreach || in_dt || acked).
Proof.
  intro Hrec; xl_rec Hrec.
  all: intros b i s' new_state nreach in_dt acked; unfold src_pcr_send_suppress, c02_send.
  all: rewrite !(src_checkable_is_state_ok_eq eq_refl).
  all: generalize (is_ok (c_kind b) new_state) (is_ok (c_kind b) (i_old_raw i)) (i_hard_change i) (c_volatile b); intros okn oko hc vol.
  all: destruct (i_old_type i), (s_type s'); cbn [stype_eqb xst_num]; unfold f_StateTypeSoft, f_StateTypeHard.
  all: destruct okn, oko, hc, vol, nreach, in_dt, acked; reflexivity.
Qed.

(* ------------------------------------------------------------------ (2) flapping start/end, immediate-vs-stash, stash block *)

(* the tail of c02_res_tail (the model's result step after the flapping update) on its atoms *)
Definition xc02_core (was_fl is_fl paused in_dt send suppress recovery p r fs fe : bool) (old_type : stype) (old_state sbs : sstate)
  : (bool * bool * bool * bool) * sstate * list out :=
  let '(sup_fs, sup_fe, o_fl) := c02_flap_dec was_fl is_fl paused in_dt in
  let pending_bits := p || r in
  let '(sup_p, sup_r, o_st) := c02_state_dec send is_fl paused (suppress || pending_bits) recovery in
  let any_sup := sup_fs || sup_fe || sup_p || sup_r in
  let after_fs0 := fs || sup_fs in
  let after_fe0 := fe || sup_fe in
  let conflict := after_fs0 && after_fe0 in
  let after_fs := if conflict then false else after_fs0 in
  let after_fe := if conflict then false else after_fe0 in
  let after_p := p || sup_p in
  let after_r := r || sup_r in
  let sbs' :=
    if any_sup && negb pending_bits && (sup_p || sup_r)
    then (if stype_eqb old_type Hard then old_state else SOK) else sbs in
  (if any_sup then (after_p, after_r, after_fs, after_fe) else (p, r, fs, fe), sbs', o_fl ++ o_st).

Definition xc02_core_of (c : fcfg) (r : cres) (v : c02_rv) :=
  let f5 := rv_f5 v in
  xc02_core (is_flapping c (f_flap f5)) (is_flapping c (update_flap c (r_state r) (f_flap f5))) (f_paused f5) (rv_indt v)
            (c02_send (fc_base c) (rv_i v) (rv_s v) (r_state r)) (negb (rv_nreach v) || rv_indt v || rv_acked v)
            (i_recovery (rv_i v)) (f_sp_problem f5) (f_sp_recovery f5) (f_sp_fstart f5) (f_sp_fend f5)
            (i_old_type (rv_i v)) (i_old_raw (rv_i v)) (f_sbs f5).

Lemma xc02_tail_core c now r v :
  c02_res_tail c now r v =
  let f5 := rv_f5 v in
  let '(bp, br, bfs, bfe, sbs', evs) := xc02_core_of c r v in
  (set_core f5 (f_st f5) (f_lsc f5) bp br bfs bfe sbs' (update_flap c (r_state r) (f_flap f5)) (now + fc_check_interval c),
   rv_o1 v ++ rv_o2 v ++ rv_o3 v ++ rv_o4 v ++ [ONewResult] ++ [OStateChange (i_event (rv_i v))] ++ evs).
Proof.
  unfold c02_res_tail, xc02_core_of, xc02_core.
  destruct (c02_flap_dec _ _ _ _) as [[sfs sfe] ofl].
  destruct (c02_state_dec _ _ _ _ _) as [[sp sr] ost].
  destruct (sfs || sfe || sp || sr) eqn:E; cbn [andb]; reflexivity.
Qed.

Definition xres3_eqb (a b : Z * Z * list xn_ev) : bool :=
  let '(m1, s1, e1) := a in let '(m2, s2, e2) := b in (m1 =? m2) && (s1 =? s2) && xl_list_eqb xn_eqb e1 e2.
Lemma xres3_eqb_eq a b : xres3_eqb a b = true -> a = b.
Proof.
  destruct a as [[m1 s1] e1], b as [[m2 s2] e2]; cbn. intro H.
  apply andb_true_iff in H; destruct H as [H H3]. apply andb_true_iff in H; destruct H as [H1 H2].
  apply Z.eqb_eq in H1, H2. apply (xl_list_eqb_eq _ xn_eqb_eq) in H3. congruence.
Qed.

Definition xc02_core_enc (x : (bool * bool * bool * bool) * sstate * list out) : Z * Z * list xn_ev :=
  let '(bp, br, bfs, bfe, sbs', evs) := x in (xmask bp br bfs bfe, sstate_num sbs', map xn_of_out evs).

(* all 2^11 * 2 * 4 * 4 combinations of the inputs *)
Notation xstash_chk :=
 (  forallb (fun was_fl => forallb (fun is_fl => forallb (fun paused => forallb (fun in_dt => forallb (fun send =>
  forallb (fun suppress => forallb (fun recovery => forallb (fun p => forallb (fun r => forallb (fun fs => forallb (fun fe =>
  forallb (fun old_type => forallb (fun old_state => forallb (fun sbs =>
    xres3_eqb (src_pcr_notify_stash was_fl is_fl paused in_dt send suppress recovery (xst_num old_type) (sstate_num old_state)
                                    (xmask p r fs fe) (sstate_num sbs))
              (xc02_core_enc (xc02_core was_fl is_fl paused in_dt send suppress recovery p r fs fe old_type old_state sbs)))
  xall_sstate) xall_sstate) xall_stype) xl_bools) xl_bools) xl_bools) xl_bools) xl_bools) xl_bools) xl_bools) xl_bools) xl_bools) xl_bools) xl_bools) (only parsing).

Lemma xstash_chk_ok : src_pcr_notify_stash_recognised = true -> xstash_chk = true.
Proof. intro Hrec; xl_rec Hrec. all: vm_compute; reflexivity. Qed.

Lemma src_pcr_notify_stash_eq : src_pcr_notify_stash_recognised = true ->
  forall was_fl is_fl paused in_dt send suppress recovery p r fs fe old_type old_state sbs,
    src_pcr_notify_stash was_fl is_fl paused in_dt send suppress recovery (xst_num old_type) (sstate_num old_state)
                         (xmask p r fs fe) (sstate_num sbs)
    = xc02_core_enc (xc02_core was_fl is_fl paused in_dt send suppress recovery p r fs fe old_type old_state sbs).
Proof.
  intros Hrec was_fl is_fl paused in_dt send suppress recovery p r fs fe old_type old_state sbs.
  pose proof (xstash_chk_ok Hrec) as H.
  xl_inst H was_fl. xl_inst H is_fl. xl_inst H paused. xl_inst H in_dt. xl_inst H send. xl_inst H suppress. xl_inst H recovery.
  xl_inst H p. xl_inst H r. xl_inst H fs. xl_inst H fe. xl_inst H old_type. xl_inst H old_state. xl_inst H sbs.
  apply xres3_eqb_eq; exact H.
Qed.

(* the model's result step, for a result that is not rejected as stale: the new suppression mask, the new state before
   suppression and the notifications requested after the state-change event are what the translated region computes
   from the values the model has at that point (c02_res_view) *)
Lemma src_pcr_result_stash : src_pcr_notify_stash_recognised = true -> src_pcr_send_suppress_recognised = true ->
  forall c now r f, rejected now (f_st f) r = false ->
    let v := c02_res_view c now r f in
    let f5 := rv_f5 v in
    let i := rv_i v in
    let '(_, send, suppress) :=
      src_pcr_send_suppress (xk_is_host (c_kind (fc_base c))) (rv_nreach v) (rv_indt v) (rv_acked v) (i_hard_change i)
        (c_volatile (fc_base c)) (xst_num (i_old_type i)) (xst_num (s_type (rv_s v))) (sstate_num (i_old_raw i)) (sstate_num (r_state r)) in
    exists evs,
      snd (do_result c now r f) = rv_o1 v ++ rv_o2 v ++ rv_o3 v ++ rv_o4 v ++ [ONewResult] ++ [OStateChange (i_event i)] ++ evs /\
      src_pcr_notify_stash (is_flapping c (f_flap f5)) (is_flapping c (update_flap c (r_state r) (f_flap f5))) (f_paused f5)
        (rv_indt v) send suppress (i_recovery i) (xst_num (i_old_type i)) (sstate_num (i_old_raw i)) (supp_mask f5) (sstate_num (f_sbs f5))
      = (supp_mask (fst (do_result c now r f)), sstate_num (f_sbs (fst (do_result c now r f))), map xn_of_out evs).
Proof.
  intros H1 H2 c now r f Hrej. cbv zeta.
  rewrite (src_pcr_send_suppress_eq H2).
  rewrite do_result_view, Hrej, xc02_tail_core. cbv zeta.
  rewrite xmask_supp, (src_pcr_notify_stash_eq H1). fold (xc02_core_of c r (c02_res_view c now r f)).
  destruct (xc02_core_of c r (c02_res_view c now r f)) as [[[[[bp br] bfs] bfe] sbs'] evs].
  exists evs. cbn [fst snd xc02_core_enc]. split; reflexivity.
Qed.

(* ------------------------------------------------------------------ (3) Checkable::FireSuppressedNotifications *)

(* do_fire on its atoms: the right-hand sides of CkSuppFire.c02_fire_spec *)
Definition xfire_core (paused p r fs fe has_cr reach indt ack likely precent fl : bool) (ty : stype) (k : kind) (cur sbs : sstate)
  : (bool * bool * bool * bool) * list out :=
  let reason := negb reach || indt || ack in
  let relc := negb reason && stype_eqb ty Hard && negb likely && negb precent in
  let rel := negb paused && (p || r) && relc in
  let t := if has_cr && is_ok k cur then NRecovery else NProblem in
  let flgo := negb indt && negb likely && negb precent in
  let go := negb paused && flgo in
  ((if rel then false else p, if rel then false else r,
    if paused then fs else fs && fl && negb flgo, if paused then fe else fe && negb fl && negb flgo),
   (if rel && negb (release_same_state k cur sbs) then [ONotify t] else [])
   ++ (if fs && fl && go then [ONotify NFlapStart] else []) ++ (if fe && negb fl && go then [ONotify NFlapEnd] else [])).

Definition xfire_core_of (c : fcfg) (now : Z) (f : full) :=
  xfire_core (f_paused f) (f_sp_problem f) (f_sp_recovery f) (f_sp_fstart f) (f_sp_fend f) (s_has_cr (f_st f))
             (notif_reachable f) (in_downtime now f) (c02_ack_live now f) (likely_checked_soon c now f)
             (parent_recovered_recently f) (is_flapping c (f_flap f)) (s_type (f_st f)) (c_kind (fc_base c))
             (s_raw (f_st f)) (f_sbs f).

Lemma xfire_model c now f :
  let f' := fst (do_fire c now f) in
  let o := snd (do_fire c now f) in
  (f_sp_problem f', f_sp_recovery f', f_sp_fstart f', f_sp_fend f', c02_state_outs o ++ c02_flap_outs o) = xfire_core_of c now f.
Proof.
  cbv zeta. destruct (do_fire_spec c now f) as [_ _ Hs Hf]. cbv zeta in Hs, Hf.
  destruct Hs as (S1 & S2 & S3). destruct Hf as (F1 & F2 & F3).
  rewrite S1, S2, S3, F1, F2, F3.
  unfold xfire_core_of, xfire_core, c02_release_cond, c02_reason, c02_flap_go, c02_fire_type, c02_pending.
  reflexivity.
Qed.

Definition xres2_eqb (a b : Z * list xn_ev) : bool :=
  let '(m1, e1) := a in let '(m2, e2) := b in (m1 =? m2) && xl_list_eqb xn_eqb e1 e2.
Lemma xres2_eqb_eq a b : xres2_eqb a b = true -> a = b.
Proof.
  destruct a as [m1 e1], b as [m2 e2]; cbn. intro H.
  apply andb_true_iff in H; destruct H as [H1 H3].
  apply Z.eqb_eq in H1. apply (xl_list_eqb_eq _ xn_eqb_eq) in H3. congruence.
Qed.

Definition xfire_core_enc (x : (bool * bool * bool * bool) * list out) : Z * list xn_ev :=
  let '(bp, br, bfs, bfe, evs) := x in (xmask bp br bfs bfe, map xn_of_out evs).

(* all 2^12 * 2 * 2 * 4 * 4 combinations; the object is active and notifications are enabled (the model has neither switch) *)
Notation xfire_chk :=
  (forallb (fun paused => forallb (fun p => forallb (fun r => forallb (fun fs => forallb (fun fe => forallb (fun has_cr =>
   forallb (fun reach => forallb (fun indt => forallb (fun ack => forallb (fun likely => forallb (fun precent => forallb (fun fl =>
   forallb (fun ty => forallb (fun k => forallb (fun cur => forallb (fun sbs =>
     xres2_eqb (src_checkable_fire_suppressed_notifications true paused true (xmask p r fs fe) (xk_is_host k) has_cr (sstate_num cur)
                  (xst_num ty) (sstate_num sbs) reach indt ack fl likely precent)
               (xfire_core_enc (xfire_core paused p r fs fe has_cr reach indt ack likely precent fl ty k cur sbs)))
   xall_sstate) xall_sstate) xall_kind) xall_stype) xl_bools) xl_bools) xl_bools) xl_bools) xl_bools) xl_bools) xl_bools) xl_bools)
   xl_bools) xl_bools) xl_bools) xl_bools) (only parsing).

Lemma xfire_chk_ok : src_checkable_fire_suppressed_notifications_recognised = true -> xfire_chk = true.
Proof. intro Hrec; xl_rec Hrec. all: vm_compute; reflexivity. Qed.

Lemma src_checkable_fire_suppressed_notifications_eq : src_checkable_fire_suppressed_notifications_recognised = true ->
  forall paused p r fs fe has_cr reach indt ack likely precent fl ty k cur sbs,
    src_checkable_fire_suppressed_notifications true paused true (xmask p r fs fe) (xk_is_host k) has_cr (sstate_num cur)
      (xst_num ty) (sstate_num sbs) reach indt ack fl likely precent
    = xfire_core_enc (xfire_core paused p r fs fe has_cr reach indt ack likely precent fl ty k cur sbs).
Proof.
  intros Hrec paused p r fs fe has_cr reach indt ack likely precent fl ty k cur sbs.
  pose proof (xfire_chk_ok Hrec) as H.
  xl_inst H paused. xl_inst H p. xl_inst H r. xl_inst H fs. xl_inst H fe. xl_inst H has_cr. xl_inst H reach. xl_inst H indt.
  xl_inst H ack. xl_inst H likely. xl_inst H precent. xl_inst H fl. xl_inst H ty. xl_inst H k. xl_inst H cur. xl_inst H sbs.
  apply xres2_eqb_eq; exact H.
Qed.

(* the model's fire step: the mask it leaves and the state / flapping notifications it requests are what the translated
   function computes from the attributes of the model state (acknowledgement with its lazy expiry: c02_ack_live;
   IsLikelyToBeCheckedSoon() = the translated function of round 1; the LazyInit lambda "a parent recovered recently" is
   an input) *)
Lemma src_fire_do_fire : src_checkable_fire_suppressed_notifications_recognised = true ->
  src_checkable_is_likely_to_be_checked_soon_recognised = true ->
  forall c now f,
    src_checkable_fire_suppressed_notifications true (f_paused f) true (supp_mask f) (xk_is_host (c_kind (fc_base c)))
      (s_has_cr (f_st f)) (sstate_num (s_raw (f_st f))) (xst_num (s_type (f_st f))) (sstate_num (f_sbs f))
      (notif_reachable f) (in_downtime now f) (c02_ack_live now f) (is_flapping c (f_flap f))
      (src_checkable_is_likely_to_be_checked_soon now (fc_active_checks c) (fc_check_interval c) (f_next_check f))
      (parent_recovered_recently f)
    = (supp_mask (fst (do_fire c now f)),
       map xn_of_out (c02_state_outs (snd (do_fire c now f)) ++ c02_flap_outs (snd (do_fire c now f)))).
Proof.
  intros H1 H2 c now f.
  rewrite (src_checkable_is_likely_to_be_checked_soon_eq H2), !xmask_supp, (src_checkable_fire_suppressed_notifications_eq H1).
  pose proof (xfire_model c now f) as M. cbv zeta in M. fold (xfire_core_of c now f). rewrite <- M. reflexivity.
Qed.
