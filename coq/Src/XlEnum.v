(* Exhaustive case analysis by computation, for equivalence proofs whose inputs range over FINITE types only
   (booleans and small enumerations; every domain is listed in the checker's statement): instead of 2^n goals,
   one closed boolean term `forallb (fun a => forallb (fun b => ... eqb lhs rhs) dom_b) dom_a` is evaluated by
   vm_compute, and instantiated (linearly) for the variables at hand.  The proofs that use it do not look at the
   shape of the translated term at all, so every rewrite of the C++ that keeps the function's meaning keeps them valid. *)
From Coq Require Import List ZArith Bool Lia.
Import ListNotations.
Local Open Scope Z_scope.

Definition xl_bools : list bool := [true; false].

Lemma xl_forallb_inst {A} (l : list A) (P : A -> bool) (x : A) : In x l -> forallb P l = true -> P x = true.
Proof. intros Hin H. rewrite forallb_forall in H. exact (H x Hin). Qed.

(* instantiate the outermost forallb of H with x (x : an enumerated type whose domain list is complete) *)
Ltac xl_inst H x :=
  let H' := fresh in
  match type of H with
  | forallb ?P ?l = true =>
      assert (H' : In x l) by (clear; destruct x; cbv; auto 10);
      apply (xl_forallb_inst l P x H') in H; cbv beta in H; clear H'
  end.

Fixpoint xl_list_eqb {A} (eqb : A -> A -> bool) (a b : list A) : bool :=
  match a, b with
  | [], [] => true
  | x :: a', y :: b' => eqb x y && xl_list_eqb eqb a' b'
  | _, _ => false
  end.

Lemma xl_list_eqb_eq {A} (eqb : A -> A -> bool) : (forall x y, eqb x y = true -> x = y) ->
  forall a b, xl_list_eqb eqb a b = true -> a = b.
Proof.
  intros He a; induction a as [|x a IH]; intros [|y b] H; try discriminate; [reflexivity|].
  cbn in H. apply andb_true_iff in H. destruct H as [H1 H2]. rewrite (He _ _ H1), (IH _ H2). reflexivity.
Qed.

Lemma xl_Zlist_eqb_eq : forall a b, xl_list_eqb Z.eqb a b = true -> a = b.
Proof. apply xl_list_eqb_eq. intros x y H; apply Z.eqb_eq; exact H. Qed.
