(* C13 (and C11, which routes by the same relation): Zone::IsChildOf - a pointer-chasing while loop, translated on
   explicit fuel - and Zone::CanAccessObject, translated from /repo (Facts_fn_zone.v), equal the model's mz_is_child_of /
   mz_can_access on well-formed zone trees (mz_wf: parents have smaller numbers, i.e. the parent relation is acyclic). *)
From Icv Require Import Base.Tac Src.XlPrelude Msg.MzModel Facts.Facts_fn_zone.
Local Open Scope nat_scope.

(* IsChildOf(zone) on a possibly null zone: a null zone is never found *)
Definition xz_ico (t : mz_tree) (fuel a : nat) (zo : option nat) : bool :=
  match zo with Some z => mz_ico t fuel a z | None => false end.

(* the loop as a function of the zone it currently looks at: generic in the body, which is compared pointwise *)
Lemma xz_walk : forall (t : mz_tree) (zo : option nat) (body : option nat -> xl_ctl (option nat) (option bool)),
  mz_wf t ->
  (forall a, body (Some a) = if xz_eqb (Some a) zo then XlReturn (Some true) else XlNext (xz_parent t (Some a))) ->
  forall n a, a <= n ->
    xl_while (S (S n)) xz_some body (Some a) = Some (if xz_ico t (S n) a zo then inr (Some true) else inl None).
Proof.
  intros t zo body Hwf Hb; induction n as [|n IH]; intros a Ha.
  - assert (a = 0) by lia; subst a. cbn [xl_while xz_some]. rewrite Hb.
    destruct zo as [z|]; cbn [xz_eqb xz_ico mz_ico].
    + destruct (Nat.eqb 0 z); [reflexivity|]. cbn [xz_parent].
      destruct (mz_par t 0) as [p|] eqn:E; [apply Hwf in E; lia|reflexivity].
    + cbn [xz_parent]. destruct (mz_par t 0) as [p|] eqn:E; [apply Hwf in E; lia|reflexivity].
  - rewrite xl_while_S. cbn [xz_some]. rewrite Hb.
    assert (K : forall p, mz_par t a = Some p -> p <= n) by (intros p E; apply Hwf in E; lia).
    destruct zo as [z|]; cbn [xz_eqb xz_ico mz_ico].
    + destruct (Nat.eqb a z); [reflexivity|]. cbn [xz_parent].
      destruct (mz_par t a) as [p|] eqn:E; [|reflexivity].
      rewrite (IH p (K p eq_refl)). reflexivity.
    + cbn [xz_parent]. destruct (mz_par t a) as [p|] eqn:E; [|reflexivity].
      rewrite (IH p (K p eq_refl)). reflexivity.
Qed.

Lemma src_zone_is_child_of_opt : src_zone_is_child_of_recognised = true ->
  forall t a zo, mz_wf t -> src_zone_is_child_of t (S (S a)) a zo = Some (xz_ico t (S a) a zo).
Proof.
  intro Hrec; xl_rec Hrec.
  all: intros t a zo Hwf; unfold src_zone_is_child_of; cbv zeta.
  all: rewrite (xz_walk t zo) with (n := a); [destruct (xz_ico t (S a) a zo); reflexivity|exact Hwf| |lia].
  all: intro b; generalize (xz_eqb (Some b) zo); xl_crush.
Qed.

Lemma src_zone_is_child_of_eq : src_zone_is_child_of_recognised = true ->
  forall t a z, mz_wf t ->
    src_zone_is_child_of t (S (S a)) a (Some z) = Some (mz_is_child_of t a z) /\
    src_zone_is_child_of t (S (S a)) a None = Some (mz_is_child_of_opt t a None).
Proof. intros H t a z Hwf; split; rewrite (src_zone_is_child_of_opt H t a _ Hwf); reflexivity. Qed.

(* Zone::CanAccessObject: the object's zone is the object itself for Zone objects, its zone attribute otherwise *)
Lemma src_zone_can_access_object_eq : src_zone_can_access_object_recognised = true -> src_zone_is_child_of_recognised = true ->
  forall t l z is_zone self oz, mz_wf t ->
    src_zone_can_access_object t l z is_zone self oz = mz_can_access t l z (if is_zone then self else oz).
Proof.
  intros Hrec Hrec2; xl_rec Hrec; xl_rec Hrec2.
  all: intros t l z is_zone self oz Hwf; unfold src_zone_can_access_object, mz_can_access, mz_objz; cbv zeta.
  all: assert (G : forall a, xz_is_child_of t (Some a) (Some z) = mz_is_child_of t a z)
         by (intro a; unfold xz_is_child_of; rewrite (proj1 (src_zone_is_child_of_eq eq_refl t a z Hwf)); reflexivity).
  all: destruct is_zone; [destruct self as [s|]|destruct oz as [o|]]; cbn [xz_some negb xz_global]; rewrite G; reflexivity.
Qed.
