(* Round 2 of the translator tie, C04: the decision of CheckerComponent::CheckThreadProc for the due checkable ("check" and
   "notifyNextCheck") - regenerated from /repo into coq/Facts/Facts_fn_sched.v - against Sched/SchModel.sch_wants.
   The model's three switches are: sch_reach = IsReachable(DependencyCheckExecution); sch_enable = enable_active_checks and the
   global switch of the object's kind; sch_period = no check period or inside it.
   NOT translated: Checkable::UpdateNextCheck (floating point fmod / division; the model computes in Q). *)
From Icv Require Import Base.Tac Src.XlPrelude Sched.SchModel Facts.Facts_fn_sched.
From Coq Require Import Bool.
Local Open Scope bool_scope.

Lemma src_checkthread_wants_check_eq : src_checkthread_wants_check_recognised = true ->
  forall (forced : bool) (k : sch_ck) (is_svc ac hc sc hp pi : bool),
    sch_enable k = ac && (if is_svc then sc else hc) -> sch_period k = negb hp || pi ->
    src_checkthread_wants_check forced (sch_reach k) true is_svc ac hc sc hp pi
    = (sch_wants forced k, negb forced && (negb (sch_reach k) || negb (sch_period k))).
Proof.
  intro Hrec; xl_rec Hrec.
  all: intros forced k is_svc ac hc sc hp pi He Hp; unfold src_checkthread_wants_check, sch_wants; rewrite He, Hp.
  all: destruct forced, (sch_reach k), is_svc, ac, hc, sc, hp, pi; reflexivity.
Qed.

(* ------------------------------------------------------------------ Checkable::UpdateNextCheck over exact rationals.
   ASSUMPTION (the model's, Sched/SchNext.v): C++ double arithmetic is read as exact arithmetic in Q - no rounding, fmod(x, y) =
   x - y * floor(x / y) for the non-negative arguments that occur, std::min on the rational order.  Under that reading the value
   handed to SetNextCheck is the model's sch_update_next_check for the interval sch_interval selects (equality in Q: ==). *)
From Coq Require Import QArith.
From Icv Require Import Sched.SchNext.

Lemma src_checkable_update_next_check_eq : src_checkable_update_next_check_recognised = true ->
  forall (soft has_cr : bool) (ci ri now : Q) (offset : Z),
    exists q, src_checkable_update_next_check soft has_cr ci ri now offset = [q] /\
              (q == sch_update_next_check now (sch_interval soft has_cr ci ri) offset)%Q.
Proof.
  intro Hrec; xl_rec Hrec.
  all: intros soft has_cr ci ri now offset; eexists; split; [unfold src_checkable_update_next_check; cbv zeta; cbn [app]; reflexivity|].
  all: unfold sch_update_next_check, sch_adj, sch_interval, sch_qlt_bool, inject_Z.
  all: repeat match goal with |- context [if ?c then _ else _] => destruct c eqn:? end; cbn [negb] in *; try discriminate; try congruence; try reflexivity; try ring.
Qed.
