(* Round 2 of the translator tie, C04: the decision of CheckerComponent::CheckThreadProc for the due checkable ("check" and
   "notifyNextCheck") - regenerated from /repo into coq/Facts/Facts_fn_sched.v - against Sched/SchModel.sch_wants.
   The model's three switches are: sch_reach = IsReachable(DependencyCheckExecution); sch_enable = enable_active_checks and the
   global switch of the object's kind; sch_period = no check period or inside it.
   NOT translated: Checkable::UpdateNextCheck (floating point fmod / division; the model computes in Q). *)
From Icv Require Import Base.Tac Src.XlPrelude Sched.SchModel Facts.Facts_fn_sched.
From Coq Require Import Bool.
Local Open Scope bool_scope.

Lemma src_checkthread_wants_check_eq : src_checkthread_wants_check_recognised = true ->
  forall (forced : bool) (k : sch_ck) (is_svc ac hc sc hp pi : bool),
    sch_enable k = ac && (if is_svc then sc else hc) -> sch_period k = negb hp || pi ->
    src_checkthread_wants_check forced (sch_reach k) true is_svc ac hc sc hp pi
    = (sch_wants forced k, negb forced && (negb (sch_reach k) || negb (sch_period k))).
Proof.
  intro Hrec; xl_rec Hrec.
  all: intros forced k is_svc ac hc sc hp pi He Hp; unfold src_checkthread_wants_check, sch_wants; rewrite He, Hp.
  all: destruct forced, (sch_reach k), is_svc, ac, hc, sc, hp, pi; reflexivity.
Qed.
