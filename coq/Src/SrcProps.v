(* Property-level statements over the TRANSLATED functions: the property theorems of C05/C06/C07/C09/C10 restated
   for what the translator reads from /repo today, obtained from the model theorems through the equivalence
   lemmas of SrcCk/SrcDep/SrcMacro/SrcAuth.  Properties_<ID>_src.v only `exact`s these. *)
From Icv Require Import Base.Tac Src.XlPrelude Facts.Facts_enums Facts.Facts_fn_enums.
From Icv Require Import Ck.CkState Ck.CkFull Ck.CkAck Ck.CkDtObs Facts.Facts_fn_ck Src.SrcCk.
From Icv Require Import Dep.DgModel Dep.DgReachProofs Facts.Facts_fn_notif Facts.Facts_fn_dep Src.SrcDep.
From Icv Require Import Macro.MxModel Macro.MxProofs Facts.Facts_fn_macro Src.SrcMacro.
From Icv Require Import Auth.AuModel Auth.AuProofs Facts.Facts_fn_auth Src.SrcAuth.
Local Open Scope Z_scope.

(* C05: the in-effect window, for Downtime::IsInEffect as it reads today *)
Lemma src_in_effect_window : src_downtime_is_in_effect_recognised = true -> forall now d,
  xdt src_downtime_is_in_effect now d = true <->
  (d_fixed d = true /\ d_start d <= now < d_end d) \/
  (d_fixed d = false /\ d_trigger d <> 0 /\ now < d_trigger d + d_duration d).
Proof. intros H now d; rewrite (src_downtime_is_in_effect_eq H); apply in_effect_char. Qed.

(* C05: depth = number of downtimes in effect; positive iff IsInDowntime *)
Lemma src_depth_char : src_checkable_get_downtime_depth_recognised = true -> src_checkable_is_in_downtime_recognised = true ->
  src_downtime_is_in_effect_recognised = true -> forall now f,
  src_checkable_get_downtime_depth now (f_dts f) = Z.of_nat (length (filter (xdt src_downtime_is_in_effect now) (f_dts f))) /\
  (0 < src_checkable_get_downtime_depth now (f_dts f) <-> src_checkable_is_in_downtime now (f_dts f) = true).
Proof.
  intros H1 H2 H3 now f.
  rewrite (src_checkable_get_downtime_depth_eq H1), (src_checkable_is_in_downtime_eq H2).
  rewrite (filter_ext _ _ (src_downtime_is_in_effect_eq H3 now)). apply depth_char.
Qed.

(* C06: what GetAcknowledgement returns is the acknowledgement every reader sees (expired => None), and it calls
   ClearAcknowledgement exactly when the acknowledgement has expired *)
Lemma src_ack_expiry : src_checkable_get_acknowledgement_recognised = true -> forall now f,
  src_checkable_get_acknowledgement now (ackt_num (f_ack f)) (f_ack_expiry f)
  = (ackt_num (cka_eff_ack now f), if cka_expired now f then [tt] else []).
Proof.
  intros H now f. destruct (src_checkable_get_acknowledgement_eq H now f) as [E G]. rewrite E, G.
  unfold cka_eff_ack. change (cka_expired now f) with (xack_expired now f). destruct (xack_expired now f); reflexivity.
Qed.

(* C07: Dependency::IsAvailable as it reads today is the five-way disjunction of the statement *)
Lemma src_available_spec : src_dependency_is_available_recognised = true -> forall g st po a d,
  xdg_state_ok (dg_is_svc g (dgd_parent d)) (dgs_state (st (dgd_parent d))) ->
  dgd_parent d <> dgd_child d ->
  (src_dependency_is_available (xdg_aspect a) (Nat.eqb (dgd_parent d) (dgd_child d))
      (dgs_checked (st (dgd_parent d))) (dgd_iss d)
      (if dgs_hard (st (dgd_parent d)) then f_StateTypeHard else f_StateTypeSoft)
      (dg_is_svc g (dgd_parent d)) (dgs_state (st (dgd_parent d))) (dgd_filter d)
      (xdg_has_period d) (xdg_inside po d) (dgd_dc d) (dgd_dn d) = true <->
     dgs_checked (st (dgd_parent d)) = false
  \/ dg_filter_match g (st (dgd_parent d)) d = true
  \/ (dgd_iss d = true /\ dgs_hard (st (dgd_parent d)) = false)
  \/ dg_period_closed po d = true
  \/ dg_not_disabled a d = true).
Proof. intros H g st po a d Hs Hne; rewrite (src_dependency_is_available_eq H g st po a d Hs); apply dg_available_spec; exact Hne. Qed.

(* C09: the exit map, for PluginUtility::ExitStatusToState as it reads today *)
Lemma src_exit_map : src_exit_status_to_state_recognised = true -> forall st,
  (st = 0 -> src_exit_status_to_state st = 0) /\ (st = 1 -> src_exit_status_to_state st = 1) /\
  (st = 2 -> src_exit_status_to_state st = 2) /\ (st = 3 -> src_exit_status_to_state st = 3) /\
  (st <> 0 -> st <> 1 -> st <> 2 -> src_exit_status_to_state st = 3).
Proof. intros H st; rewrite (src_exit_status_to_state_eq H); apply mx_exit_map. Qed.

(* C10: Utility::SDBM as it reads today stays in the unsigned long range and is the model's hash *)
Lemma src_sdbm_range : src_utility_sdbm_recognised = true -> forall sgn s len,
  Z.of_nat (length s) <= len -> Z.of_nat (length s) < xl_W64 ->
  src_utility_sdbm (map (au_char sgn) s) len = au_sdbm sgn s /\ 0 <= src_utility_sdbm (map (au_char sgn) s) len < au_W.
Proof. intros H sgn s len H1 H2; rewrite (src_utility_sdbm_eq H sgn s len H1 H2); split; [reflexivity|apply au_sdbm_range]. Qed.
