(* Round 2 of the translator tie, C08: the segment arithmetic of TimePeriod - one iteration of the merge loop of AddSegment
   (in-place edit of the segment = state variables), one iteration of the loop of RemoveSegment (what is appended to the new
   array) and PurgeSegments as a whole - regenerated from /repo into coq/Facts/Facts_fn_tp2.v - against Tp/TpModel.tp_add_merge,
   tp_remove_one (with the comparison variant the code has today: tp_fixed = true), tp_purge. *)
From Icv Require Import Base.Tac Src.XlPrelude Tp.TpModel Facts.Facts_fn_tp2.
Local Open Scope Z_scope.

(* AddSegment: one step of tp_add_merge *)
Lemma src_timeperiod_add_segment_iter_eq : src_timeperiod_add_segment_iter_recognised = true ->
  forall b e sb se r,
    tp_add_merge b e ((sb, se) :: r)
    = let '(ret, sb', se') := src_timeperiod_add_segment_iter b e sb se in
      if ret then Some ((sb', se') :: r)
      else match tp_add_merge b e r with Some r' => Some ((sb, se) :: r') | None => None end.
Proof.
  intro Hrec; xl_rec Hrec.
  all: intros b e sb se r; unfold src_timeperiod_add_segment_iter; cbn [tp_add_merge]; cbv zeta.
  all: xl_split; try reflexivity; try lia.
Qed.

(* RemoveSegment: the segments one iteration appends *)
Lemma src_timeperiod_remove_segment_iter_eq : src_timeperiod_remove_segment_iter_recognised = true ->
  forall b e sb se, snd (src_timeperiod_remove_segment_iter b e sb se) = tp_remove_one true b e (sb, se).
Proof.
  intro Hrec; xl_rec Hrec.
  all: intros b e sb se; unfold src_timeperiod_remove_segment_iter, tp_remove_one; cbv zeta.
  all: xl_split; cbn [snd app]; try reflexivity; try lia.
Qed.

(* PurgeSegments *)
Lemma xt_for_filter : forall {A R} (p : A -> bool) (body : list A -> A -> xl_ctl (list A) R) (l : list A) (acc : list A),
  (forall a x, In x l -> body a x = XlNext (if p x then a ++ [x] else a)) -> xl_for body l acc = inl (acc ++ filter p l).
Proof.
  intros A R p body l; induction l as [|x t IH]; intros acc H; cbn [xl_for filter].
  - rewrite app_nil_r; reflexivity.
  - rewrite (H acc x (or_introl eq_refl)). rewrite IH by (intros; apply H; right; assumption).
    destruct (p x); [rewrite <- app_assoc|]; reflexivity.
Qed.

Definition xt_none (o : option Z) : bool := match o with None => true | Some _ => false end.
Definition xt_val (o : option Z) : Z := match o with Some v => v | None => 0 end.
Definition xt_purges (e : Z) (s : tp_st) : bool := match tp_vb s with None => false | Some v => negb (e <? v) end.

Lemma src_timeperiod_purge_segments_eq : src_timeperiod_purge_segments_recognised = true ->
  forall e s,
    src_timeperiod_purge_segments e (xt_none (tp_vb s)) (xt_val (tp_vb s)) true (tp_segs s)
    = (if xt_purges e s then e else xt_val (tp_vb s),
       if xt_purges e s then tp_segs (tp_purge e s) else [],
       if xt_purges e s then [tt] else []) /\
    (xt_purges e s = false -> tp_purge e s = s) /\
    (xt_purges e s = true -> tp_vb (tp_purge e s) = Some e /\ tp_ve (tp_purge e s) = tp_ve s).
Proof.
  intro Hrec; xl_rec Hrec.
  all: intros e s; unfold src_timeperiod_purge_segments, tp_purge, xt_purges; cbv zeta.
  all: rewrite (xt_for_filter (fun sg => e <=? snd sg)) by (intros a x _; destruct (e <=? snd x); reflexivity).
  all: destruct (tp_vb s) as [v|]; cbn [xt_none xt_val orb negb app]; [destruct (e <? v)|]; cbn [negb tp_segs tp_vb tp_ve]; repeat split; discriminate.
Qed.
