(* Prelude of the source-to-Gallina translator (tools/cxx2coq.py).  Hand-written, small, part of the trusted base:
   the generated files coq/Facts/Facts_fn_*.v use ONLY these combinators besides the standard library.

   xl_for    : a C++ range-for loop  `for (T x : l) body`  whose body may `continue`, `break` or `return`
               and updates a tuple of accumulator variables (S); R is the function's return type.
   xl_while  : `while (c) body` on explicit fuel; None = fuel exhausted (the translation never invents a value).
   xl_u64    : wrap-around of `unsigned long` arithmetic (LP64).
   Tactics   : xl_crush - equivalence proofs by case analysis on the boolean atoms + lia, written so that
               they survive harmless rewrites of the C++ (reordering of independent tests, De Morgan,
               hoisted locals, >= vs !(<)) and fail on semantic changes. *)
From Coq Require Import List ZArith Bool Lia ZifyBool.
Import ListNotations.
Local Open Scope Z_scope.

Inductive xl_ctl (S R : Type) : Type :=
| XlNext (s : S)          (* end of the body, or `continue` *)
| XlBreak (s : S)         (* `break` *)
| XlReturn (r : R).       (* `return r` *)
Arguments XlNext {S R} s.
Arguments XlBreak {S R} s.
Arguments XlReturn {S R} r.

Fixpoint xl_for {A S R : Type} (body : S -> A -> xl_ctl S R) (l : list A) (s : S) : S + R :=
  match l with
  | [] => inl s
  | x :: t =>
      match body s x with
      | XlNext s' => xl_for body t s'
      | XlBreak s' => inl s'
      | XlReturn r => inr r
      end
  end.

Fixpoint xl_while {S R : Type} (fuel : nat) (cond : S -> bool) (body : S -> xl_ctl S R) (s : S) : option (S + R) :=
  match fuel with
  | O => None
  | Datatypes.S f =>
      if cond s then
        match body s with
        | XlNext s' => xl_while f cond body s'
        | XlBreak s' => Some (inl s')
        | XlReturn r => Some (inr r)
        end
      else Some (inl s)
  end.

Lemma xl_while_S : forall {S R} fuel (cond : S -> bool) (body : S -> xl_ctl S R) (s : S),
  xl_while (Datatypes.S fuel) cond body s =
  if cond s then match body s with
                 | XlNext s' => xl_while fuel cond body s'
                 | XlBreak s' => Some (inl s')
                 | XlReturn r => Some (inr r)
                 end
  else Some (inl s).
Proof. reflexivity. Qed.

Definition xl_W64 : Z := 18446744073709551616.
Definition xl_u64 (z : Z) : Z := z mod xl_W64.

(* ---- generic facts about xl_for, used by the equivalence proofs in coq/Src ---- *)

(* a loop that only searches: `for x : l { if (p x) return r; }` *)
Lemma xl_for_search : forall {A R} (p : A -> bool) (r : A -> R) (l : list A),
  xl_for (fun (_ : unit) x => if p x then XlReturn (r x) else XlNext tt) l tt =
  match find p l with Some x => inr (r x) | None => inl tt end.
Proof.
  intros A R p r l; induction l as [|x t IH]; simpl; [reflexivity|].
  destruct (p x); [reflexivity|exact IH].
Qed.

Lemma xl_for_exists : forall {A} (p : A -> bool) (l : list A),
  xl_for (fun (_ : unit) x => if p x then XlReturn true else XlNext tt) l tt =
  if existsb p l then inr true else inl tt.
Proof.
  intros A p l; induction l as [|x t IH]; simpl; [reflexivity|].
  destruct (p x); simpl; [reflexivity|exact IH].
Qed.

(* a loop that only accumulates *)
Lemma xl_for_fold : forall {A S R} (f : S -> A -> S) (l : list A) (s : S),
  xl_for (R:=R) (fun s x => XlNext (f s x)) l s = inl (fold_left f l s).
Proof. intros A S R f l; induction l as [|x t IH]; intro s; simpl; [reflexivity|apply IH]. Qed.

(* bodies that agree pointwise give the same loop *)
Lemma xl_for_ext : forall {A S R} (b1 b2 : S -> A -> xl_ctl S R) (l : list A) (s : S),
  (forall s x, In x l -> b1 s x = b2 s x) -> xl_for b1 l s = xl_for b2 l s.
Proof.
  intros A S R b1 b2 l; induction l as [|x t IH]; intros s H; simpl; [reflexivity|].
  rewrite (H s x (or_introl eq_refl)).
  destruct (b2 s x); try reflexivity. apply IH. intros; apply H; right; assumption.
Qed.

(* the two loop skeletons that occur most often, stated up to pointwise equality of the body, so that the
   proofs in coq/Src only have to compare ONE ITERATION with the model (by case analysis), not the text *)
Lemma xl_for_exists_ext : forall {A} (p : A -> bool) (body : unit -> A -> xl_ctl unit bool) (l : list A),
  (forall x, In x l -> body tt x = if p x then XlReturn true else XlNext tt) ->
  match xl_for body l tt with inr r => r | inl _ => false end = existsb p l.
Proof.
  intros A p body l H.
  rewrite (xl_for_ext body (fun _ x => if p x then XlReturn true else XlNext tt) l tt).
  - rewrite xl_for_exists; destruct (existsb p l); reflexivity.
  - intros [] x Hx; apply H; exact Hx.
Qed.

Lemma xl_for_forall_ext : forall {A} (p : A -> bool) (body : unit -> A -> xl_ctl unit bool) (l : list A),
  (forall x, In x l -> body tt x = if p x then XlNext tt else XlReturn false) ->
  match xl_for body l tt with inr r => r | inl _ => true end = forallb p l.
Proof.
  intros A p body l; induction l as [|x t IH]; intro H; [reflexivity|].
  cbn [xl_for forallb]. rewrite (H x (or_introl eq_refl)).
  destruct (p x); [apply IH; intros; apply H; right; assumption|reflexivity].
Qed.

Lemma xl_for_count_ext : forall {A} (p : A -> bool) (body : Z -> A -> xl_ctl Z Z) (l : list A) (acc : Z),
  (forall a x, In x l -> body a x = XlNext (if p x then a + 1 else a)) ->
  match xl_for body l acc with inr r => r | inl a => a end = acc + Z.of_nat (length (filter p l)).
Proof.
  intros A p body l; induction l as [|x t IH]; intros acc H; cbn [xl_for filter length]; [lia|].
  rewrite (H acc x (or_introl eq_refl)). rewrite IH by (intros; apply H; right; assumption).
  destruct (p x); cbn [length]; lia.
Qed.

(* ---- tactics ---- *)

(* case analysis on every `if` / boolean match scrutinee in goal and hypotheses *)
Ltac xl_split :=
  repeat match goal with
  | |- context [if ?c then _ else _] => destruct c eqn:?
  | H : context [if ?c then _ else _] |- _ => destruct c eqn:?
  end.

(* lia over Z and bool.  coq/Base/Tac.v replaces the zify post hook that ZifyBool installs (case split on the boolean
   atoms), so the split is done here explicitly when plain lia fails. *)
Ltac xl_lia := solve [lia | zify; ZifyBool.elim_bool_cstr; lia].

(* bring the boolean atoms into the context and decide by linear arithmetic over Z and bool *)
Ltac xl_crush :=
  intros; cbv zeta; xl_split; subst;
  try reflexivity; try congruence; try xl_lia;
  (* bare boolean variables that lia could not split on *)
  repeat match goal with
  | b : bool |- _ => destruct b; try reflexivity; try congruence; try xl_lia
  end.

(* unrecognised function: the premise `false = true` closes the goal, every later sentence must be `all:` *)
Ltac xl_rec H := try discriminate H; clear H.
