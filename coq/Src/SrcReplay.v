(* Round 2 of the translator tie, C12: the per-entry skip conditions of ApiListener::ReplayLog and the per-endpoint "is this log
   file still needed" test of ApiListener::ApiTimerHandler - regenerated from /repo into coq/Facts/Facts_fn_replay.v - against
   Replay/RlModel.rl_rstep (its two guards, rl_can_access) and rl_related / rl_ep_needs (rl_needed, rl_cleanup). *)
From Icv Require Import Base.Tac Src.XlPrelude Replay.RlBytes Replay.RlModel Facts.Facts_fn_replay.
Local Open Scope Z_scope.

Definition xr_some {A} (o : option A) : bool := match o with Some _ => true | None => false end.

(* rl_can_access through the three things the C++ looks at: is there a secobj, does the object exist, CanAccessObject *)
Lemma xr_can_access t tz sec :
  rl_can_access t tz sec =
  negb (xr_some sec) ||
  match sec with
  | Some (ty, nm) => match rl_find_obj (rl_t_objs t) ty nm with
                     | Some oz => if rl_zglobal t oz then true else rl_child_of (S (length (rl_t_zones t))) t oz tz
                     | None => false
                     end
  | None => false
  end.
Proof. destruct sec as [[ty nm]|]; reflexivity. Qed.

Lemma src_replaylog_entry_skipped_eq : src_replaylog_entry_skipped_recognised = true ->
  forall t tz s e,
    let found := match rl_e_sec e with Some (ty, nm) => xr_some (rl_find_obj (rl_t_objs t) ty nm) | None => false end in
    let ca := match rl_e_sec e with
              | Some (ty, nm) => match rl_find_obj (rl_t_objs t) ty nm with
                                 | Some oz => if rl_zglobal t oz then true else rl_child_of (S (length (rl_t_zones t))) t oz tz
                                 | None => false end
              | None => false end in
    src_replaylog_entry_skipped (rl_e_ts e) (rl_r_peer s) (xr_some (rl_e_sec e)) found ca
    = (rl_e_ts e <=? rl_r_peer s) || negb (rl_can_access t tz (rl_e_sec e)) /\
    (src_replaylog_entry_skipped (rl_e_ts e) (rl_r_peer s) (xr_some (rl_e_sec e)) found ca = true -> rl_rstep t tz 0 s e = s) .
Proof.
  intro Hrec; xl_rec Hrec.
  all: intros t tz s e; cbv zeta.
  all: assert (E : forall f, rl_rstep t tz f s e = if (rl_e_ts e <=? rl_r_peer s) || negb (rl_can_access t tz (rl_e_sec e)) then s else rl_rstep t tz f s e)
       by (intro f; unfold rl_rstep; destruct (rl_e_ts e <=? rl_r_peer s); [reflexivity|]; destruct (rl_can_access t tz (rl_e_sec e)); reflexivity).
  all: assert (G : src_replaylog_entry_skipped (rl_e_ts e) (rl_r_peer s) (xr_some (rl_e_sec e))
                     (match rl_e_sec e with Some (ty, nm) => xr_some (rl_find_obj (rl_t_objs t) ty nm) | None => false end)
                     (match rl_e_sec e with
                      | Some (ty, nm) => match rl_find_obj (rl_t_objs t) ty nm with
                                         | Some oz => if rl_zglobal t oz then true else rl_child_of (S (length (rl_t_zones t))) t oz tz
                                         | None => false end
                      | None => false end)
                   = (rl_e_ts e <=? rl_r_peer s) || negb (rl_can_access t tz (rl_e_sec e))).
  all: [> unfold src_replaylog_entry_skipped, rl_can_access; destruct (rl_e_sec e) as [[ty nm]|]; cbn [xr_some];
          [destruct (rl_find_obj (rl_t_objs t) ty nm) as [oz|]; cbn [xr_some negb];
             [destruct (if rl_zglobal t oz then true else rl_child_of (S (length (rl_t_zones t))) t oz tz)|] |];
          destruct (rl_e_ts e <=? rl_r_peer s); reflexivity | ].
  all: split; [exact G|]. all: intro Hs; rewrite E, <- G, Hs; reflexivity.
Qed.

(* the clean-up: a file is needed by a (non-local) endpoint iff the endpoint is related and still needs it *)
Lemma src_apitimer_file_needed_by_eq : src_apitimer_file_needed_by_recognised = true ->
  forall t now n e need0,
    src_apitimer_file_needed_by t false (rl_ep_zone e) (rl_t_local t) (rl_ep_dur e) (rl_ep_pos e) n now need0
    = (negb (rl_related t e) || ((0 <=? rl_ep_dur e) && (n <? now - rl_ep_dur e)) || (rl_ep_pos e <? n),
       need0 || (rl_related t e && rl_ep_needs now n e)).
Proof.
  intro Hrec; xl_rec Hrec.
  all: intros t now n e need0; unfold src_apitimer_file_needed_by, rl_related, rl_ep_needs; cbv zeta.
  all: generalize (rl_ep_zone e =? rl_t_local t) (rl_ep_zone e =? rl_zparent t (rl_t_local t)) (rl_zparent t (rl_ep_zone e) =? rl_t_local t)
                  ((0 <=? rl_ep_dur e) && (n <? now - rl_ep_dur e)) (rl_ep_pos e <? n); intros b1 b2 b3 b4 b5.
  all: destruct b1, b2, b3, b4, b5, need0; reflexivity.
Qed.
