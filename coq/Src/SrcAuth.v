(* C10: Utility::SDBM translated from /repo (Facts_fn_auth.v: a range-for loop with a counter, a break and
   unsigned long arithmetic) equals the model's au_sdbm (a fold with wrap-around modulo 2^64). *)
From Icv Require Import Base.Tac Src.XlPrelude Auth.AuModel Facts.Facts_fn_auth.
Local Open Scope Z_scope.

(* wrap-around arithmetic: every `mod 2^64` becomes a quotient/remainder equation, the rest is linear *)
Ltac xa_mod_norm := unfold xl_u64, xl_W64, au_W, au_sdbm_step; Z.div_mod_to_equations; lia.

(* a counted accumulation: as long as the counter stays below len the loop is a fold *)
Lemma xa_counted_fold : forall {A} (f : Z -> A -> Z) (len : Z) (body : Z * Z -> A -> xl_ctl (Z * Z) Z) (l : list A) (cur h : Z),
  (forall cur h x, 0 <= cur < len -> cur + 1 < xl_W64 -> body (cur, h) x = XlNext (cur + 1, f h x)) ->
  0 <= cur -> cur + Z.of_nat (length l) <= len -> cur + Z.of_nat (length l) < xl_W64 ->
  xl_for body l (cur, h) = inl (cur + Z.of_nat (length l), fold_left f l h).
Proof.
  intros A f len body l; induction l as [|x t IH]; intros cur h Hb H0 H1 H2; cbn [xl_for fold_left length] in *.
  - f_equal; f_equal; lia.
  - rewrite Nat2Z.inj_succ in *. rewrite Hb by lia. rewrite IH by (auto; lia). f_equal; f_equal; lia.
Qed.

Lemma xa_fold_map : forall sgn s h0,
  fold_left (fun h c => (c + (h * 64) mod au_W + (h * 65536) mod au_W - h) mod au_W) (map (au_char sgn) s) h0
  = fold_left (au_sdbm_step sgn) s h0.
Proof. intros sgn s; induction s as [|b t IH]; intro h0; cbn [map fold_left]; [reflexivity|apply IH]. Qed.

(* the whole string is hashed when len covers it (the callers pass the default, std::string::npos) *)
Lemma src_utility_sdbm_eq : src_utility_sdbm_recognised = true ->
  forall sgn s len, Z.of_nat (length s) <= len -> Z.of_nat (length s) < xl_W64 ->
    src_utility_sdbm (map (au_char sgn) s) len = au_sdbm sgn s.
Proof.
  intro Hrec; xl_rec Hrec.
  all: intros sgn s len Hl Hw; unfold src_utility_sdbm, au_sdbm; cbv zeta.
  all: change (xl_u64 0) with 0.
  all: rewrite (xa_counted_fold (fun h c => (c + (h * 64) mod au_W + (h * 65536) mod au_W - h) mod au_W) len)
         with (l := map (au_char sgn) s).
  all: first
    [ solve [rewrite ?map_length; lia]
    | solve [apply xa_fold_map]
    | solve [intros cur h x Hc Hc1; destruct (len <=? cur) eqn:E; [lia|];
             f_equal; f_equal; [unfold xl_u64; apply Z.mod_small; lia | xa_mod_norm]] ].
Qed.
