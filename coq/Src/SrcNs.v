(* Round 2 of the translator tie, C20: the bodies of the two header-scanning loops of NetString::ReadStringFromStream (classic
   `for` loops: translated per iteration, the loop counter is an input) - regenerated from /repo into coq/Facts/Facts_fn_ns.v -
   against one unfolding of Codec/NsModel.ns_find_colon and ns_len_loop.  An exception leaves the region with a negative code
   (-1 no length specifier, -2 missing colon, -4 more than 9 digits). *)
From Icv Require Import Base.Tac Src.XlPrelude Codec.NsModel Facts.Facts_fn_ns.
Local Open Scope Z_scope.

Lemma src_netstring_find_colon_iter_eq : src_netstring_find_colon_iter_recognised = true ->
  forall b t i hl0, 0 <= i ->
    ns_find_colon (b :: t) i
    = match src_netstring_find_colon_iter b i hl0 with
      | (true, h) => if h =? -1 then NsScanErr ns_e_nolen else if h =? -2 then NsScanErr ns_e_nocolon else NsScanAt h
      | (false, _) => ns_find_colon t (i + 1)
      end.
Proof.
  intro Hrec; xl_rec Hrec.
  all: intros b t i hl0 Hi; unfold src_netstring_find_colon_iter; cbn [ns_find_colon]; unfold ns_colon; cbv zeta.
  all: xl_split; try reflexivity; try lia.
Qed.

Lemma src_netstring_len_iter_eq : src_netstring_len_iter_recognised = true ->
  forall f buf h i len b,
    ns_get buf i = Some b -> (i <? h) = true -> ns_isdigit b = true -> 0 <= len < 1000000000000000000 ->
    ns_len_loop (S f) buf h i len
    = match src_netstring_len_iter b i len with
      | (true, _) => NsLenErr ns_e_toolong
      | (false, len') => ns_len_loop f buf h (i + 1) len'
      end.
Proof.
  intro Hrec; xl_rec Hrec.
  all: intros f buf h i len b Hg Hi Hd Hl; unfold src_netstring_len_iter; cbn [ns_len_loop]; rewrite Hi, Hg, Hd; cbv zeta.
  all: unfold ns_isdigit in Hd; destruct (9 <=? i); [reflexivity|].
  all: replace (xl_u64 (xl_u64 (len * 10) + (b - 48))) with (len * 10 + (b - 48)); [reflexivity|].
  all: unfold xl_u64, xl_W64; rewrite !Z.mod_small; lia.
Qed.
