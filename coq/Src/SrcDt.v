(* Round 2 of the translator tie, C05: the trigger decisions of Downtime::Start, the part of Downtime::RemoveDowntime that
   precedes the deletion (silent return, refusal by exception, recursion into the children, removal info) and one iteration of
   DowntimesStartTimerHandler / DowntimesOrphanedTimerHandler - regenerated from /repo into coq/Facts/Facts_fn_dt.v - against
   CkFull.do_dt_add / remove_dt / do_dt_start_timer (dt_can_be_triggered and the trigger instants they use).
   A call TriggerDowntime(t) is ONE LEVEL of the model's trigger_dt (round 1: src_downtime_trigger_downtime_eq); the recursion into
   chained downtimes stays an event (XeTriggerChild) - the model's fuel-bounded recursion is not re-derived here. *)
From Icv Require Import Base.Tac Src.XlPrelude Ck.CkState Ck.CkFull Facts.Facts_enums Facts.Facts_fn_enums Facts.Facts_fn_ck Src.SrcCk.
From Icv Require Import Facts.Facts_fn_dt.
Local Open Scope Z_scope.

(* one level of trigger_dt: the right-hand side of src_downtime_trigger_downtime_eq *)
Definition xs_level (now : Z) (d : dt) (t : Z) (ex : Z -> bool) : Z * list xdt_ev :=
  if dt_can_be_triggered now d
  then (if d_trigger d =? 0 then t else d_trigger d,
        XeArmCleanup :: map (fun c => XeTriggerChild c t) (filter ex (d_triggers d)) ++ [XeTriggered])
  else (d_trigger d, []).

Definition xs_with_trigger (d : dt) (t : Z) : dt :=
  {| d_id := d_id d; d_fixed := d_fixed d; d_start := d_start d; d_end := d_end d; d_duration := d_duration d; d_entry := d_entry d;
     d_trigger := t; d_triggers := d_triggers d; d_parent := d_parent d; d_owned := d_owned d |}.

(* ------------------------------------------------------------------ Downtime::Start *)
Lemma src_downtime_start_trigger_eq : src_downtime_start_trigger_recognised = true -> src_downtime_trigger_downtime_recognised = true ->
  src_downtime_can_be_triggered_recognised = true ->
  forall now d problem lsc ex,
    src_downtime_start_trigger now (d_fixed d) (d_start d) (d_end d) (d_trigger d) (d_duration d) (d_entry d) problem lsc (d_triggers d) ex
    = if d_fixed d
      then (if dt_can_be_triggered now d
            then (let t := Z.max (d_start d) (d_entry d) in (fst (xs_level now d t ex), [XsStarted; XsTrigger t (snd (xs_level now d t ex))]))
            else (d_trigger d, []))
      else (if problem
            then (let t := Z.max (Z.max (d_start d) (d_entry d)) lsc in (fst (xs_level now d t ex), [XsTrigger t (snd (xs_level now d t ex))]))
            else (d_trigger d, [])).
Proof.
  intro Hrec; xl_rec Hrec. all: intros H2 H3; revert H2; xl_rec H3. all: intro H2.
  all: intros now d problem lsc ex; unfold src_downtime_start_trigger, xs_trigger.
  all: pose proof (fun t => src_downtime_trigger_downtime_eq H2 now d t ex) as T; unfold xdt in T.
  all: pose proof (src_downtime_can_be_triggered_eq eq_refl now d) as C; unfold xdt in C.
  all: unfold xs_level.
  all: destruct (d_fixed d) eqn:Hf, problem, (dt_can_be_triggered now d) eqn:Hc.
  all: repeat first [ progress cbn [negb andb orb fst snd app] | progress cbv beta iota zeta | rewrite andb_false_r | rewrite andb_true_r
                    | rewrite C | rewrite T | rewrite Hc ].
  all: reflexivity.
Qed.

(* ------------------------------------------------------------------ Downtime::RemoveDowntime before the deletion *)
Definition xr_num (r : rreason) : Z := match r with RExpired => 0 | RByUser => 1 | RByOwner => 2 end.

Lemma xl_for_append_all : forall {A E R} (g : A -> E) (body : list E -> A -> xl_ctl (list E) R) (l : list A) (acc : list E),
  (forall a x, In x l -> body a x = XlNext (a ++ [g x])) -> xl_for body l acc = inl (acc ++ map g l).
Proof.
  intros A E R g body l; induction l as [|x t IH]; intros acc H; cbn [xl_for map].
  - rewrite app_nil_r; reflexivity.
  - rewrite (H acc x (or_introl eq_refl)). rewrite IH by (intros; apply H; right; assumption).
    rewrite <- app_assoc; reflexivity.
Qed.

Lemma src_downtime_remove_pre_eq : src_downtime_remove_pre_recognised = true ->
  forall found is_api owned ic r kids,
    src_downtime_remove_pre found is_api owned ic (xr_num r) kids
    = if negb found || negb is_api then (true, [])
      else if owned && match r with RByUser => true | _ => false end then (true, [XsThrow])
      else (false, (if ic then map XsRemoveChild kids else []) ++ (match r with RExpired => [] | _ => [XsRemovalInfo] end)).
Proof.
  intro Hrec; xl_rec Hrec.
  all: intros found is_api owned ic r kids; unfold src_downtime_remove_pre, fx_DowntimeRemovedByUser, fx_DowntimeExpired.
  all: rewrite (xl_for_append_all XsRemoveChild) by (intros; reflexivity).
  all: destruct found, is_api, owned, ic, r; cbn [negb orb andb xr_num Z.eqb Pos.eqb app]; rewrite ?app_nil_r; reflexivity.
Qed.

(* the model refuses (no removal, no event, "not completed") under exactly that condition, and recurses into exactly those children *)
Lemma xr_remove_dt_refuses fuel now paused id ch r ds d :
  find_dt id ds = Some d -> (d_owned d && match r with RByUser => true | _ => false end) = true ->
  remove_dt (S fuel) now paused id ch r ds = (ds, [], false).
Proof. intros Hf Ho. cbn [remove_dt]. rewrite Hf, Ho. reflexivity. Qed.

(* ------------------------------------------------------------------ one iteration of the two timer handlers *)
Lemma src_downtime_start_timer_iter_eq : src_downtime_start_timer_iter_recognised = true -> src_downtime_can_be_triggered_recognised = true ->
  forall now d active,
    src_downtime_start_timer_iter now (d_fixed d) (d_start d) (d_end d) (d_trigger d) (d_duration d) (d_entry d) active
    = if active && (dt_can_be_triggered now d && d_fixed d) then [XsStarted; XsTrigger (Z.max (d_start d) (d_entry d)) []] else [].
Proof.
  intro Hrec; xl_rec Hrec. all: intro Hrec; xl_rec Hrec.
  all: intros now d active; unfold src_downtime_start_timer_iter.
  all: pose proof (src_downtime_can_be_triggered_eq eq_refl now d) as C; unfold xdt in C; rewrite C.
  all: destruct active, (dt_can_be_triggered now d), (d_fixed d); reflexivity.
Qed.

Lemma src_downtime_orphaned_timer_iter_eq : src_downtime_orphaned_timer_iter_recognised = true ->
  forall name active valid,
    src_downtime_orphaned_timer_iter name active valid = if active && negb valid then [XsRemove name false (xr_num RByOwner)] else [].
Proof.
  intro Hrec; xl_rec Hrec.
  all: intros name active valid; unfold src_downtime_orphaned_timer_iter, fx_DowntimeRemovedByConfigOwner; destruct active, valid; reflexivity.
Qed.

(* ------------------------------------------------------------------ TriggerDowntime with its recursion into chained downtimes.
   The translation of round 1 is ONE call: it reads the attributes of one Downtime object, may write trigger_time, and reports, in
   program order, the clean-up timer, one XeTriggerChild per EXISTING chained downtime and OnDowntimeTriggered.  xs_run is the
   hand-written interpreter that closes the recursion over the model's downtime store: XeTriggerChild c t' runs the same translated
   function on the attributes of c (on fuel, like the model); the attribute write is upd_trigger; OnDowntimeTriggered is the
   model's pair of outputs (flexible-start notification unless paused, then the event).  Theorem: for a non-zero instant
   (timestamps are positive) xs_run IS trigger_dt. *)
From Icv Require Import Ck.CkDtProofs.

Definition xs_exists (ds : list dt) (c : Z) : bool := match find_dt c ds with Some _ => true | None => false end.

Fixpoint xs_run (fuel : nat) (now : Z) (paused : bool) (id t : Z) (ds : list dt) : list dt * list out :=
  match fuel with
  | O => (ds, [])
  | S fuel' =>
      match find_dt id ds with
      | None => (ds, [])
      | Some d =>
          let '(tr, evs) := src_downtime_trigger_downtime now (d_fixed d) (d_start d) (d_end d) (d_trigger d) (d_duration d) t
                              (d_triggers d) (xs_exists ds) in
          let ds1 := if tr =? d_trigger d then ds else upd_trigger id tr ds in
          fold_left (fun (acc : list dt * list out) ev =>
                       let '(dsa, oa) := acc in
                       match ev with
                       | XeArmCleanup => acc
                       | XeTriggerChild c t' => let '(dsb, ob) := xs_run fuel' now paused c t' dsa in (dsb, oa ++ ob)
                       | XeTriggered => (dsa, oa ++ (if negb (d_fixed d) && negb paused then [ONotify NDowntimeStart] else []) ++ [ODtTriggered id])
                       end) evs (ds1, [])
      end
  end.

Lemma xs_exists_ids ds c : xs_exists ds c = existsb (fun i => i =? c) (ids ds).
Proof.
  unfold xs_exists, find_dt, ids. induction ds as [|d r IH]; cbn [find map existsb]; [reflexivity|].
  destruct (d_id d =? c); [reflexivity|exact IH].
Qed.

Lemma xs_upd_ids id t ds : ids (upd_trigger id t ds) = ids ds.
Proof. unfold ids, upd_trigger. rewrite map_map. apply map_ext. intro d. destruct (d_id d =? id); reflexivity. Qed.

Lemma xs_trigger_ids fuel : forall now p id t ds, ids (fst (trigger_dt fuel now p id t ds)) = ids ds.
Proof.
  induction fuel as [|fuel IH]; intros now p id t ds; cbn [trigger_dt]; [reflexivity|].
  destruct (find_dt id ds) as [d|]; [|reflexivity].
  destruct (negb (dt_can_be_triggered now d)); [reflexivity|].
  match goal with |- context [fold_left ?f ?l ?a] => assert (H : ids (fst (fold_left f l a)) = ids ds) end.
  { apply fold_left_inv with (Q := fun acc => ids (fst acc) = ids ds).
    - cbn [fst]. destruct (d_trigger d =? 0); [apply xs_upd_ids|reflexivity].
    - intros [dsa oa] cid _ Ha. cbn [fst] in *. pose proof (IH now p cid t dsa) as Hi.
      destruct (trigger_dt fuel now p cid t dsa) as [dsb ob]. cbn [fst] in *. congruence. }
  match goal with |- context [fold_left ?f ?l ?a] => destruct (fold_left f l a) as [ds2 o2] end. exact H.
Qed.

Lemma xs_trigger_absent fuel now p c t ds : xs_exists ds c = false -> trigger_dt fuel now p c t ds = (ds, []).
Proof. unfold xs_exists. destruct fuel; cbn [trigger_dt]; [reflexivity|]. destruct (find_dt c ds); [discriminate|reflexivity]. Qed.

Theorem src_trigger_downtime_recursion : src_downtime_trigger_downtime_recognised = true ->
  forall fuel now paused id t ds, t <> 0 -> xs_run fuel now paused id t ds = trigger_dt fuel now paused id t ds.
Proof.
  intros Hrec fuel. induction fuel as [|fuel IH]; intros now paused id t ds Ht; cbn [xs_run trigger_dt]; [reflexivity|].
  destruct (find_dt id ds) as [d|] eqn:Hf; [|reflexivity].
  pose proof (src_downtime_trigger_downtime_eq Hrec now d t (xs_exists ds)) as E. unfold xdt in E. rewrite E. clear E.
  destruct (dt_can_be_triggered now d); cbn [negb]; [|rewrite Z.eqb_refl; reflexivity].
  (* the attribute write *)
  assert (E1 : (if (if d_trigger d =? 0 then t else d_trigger d) =? d_trigger d then ds
                else upd_trigger id (if d_trigger d =? 0 then t else d_trigger d) ds)
               = (if d_trigger d =? 0 then upd_trigger id t ds else ds)).
  { destruct (d_trigger d =? 0) eqn:E0; [|rewrite Z.eqb_refl; reflexivity].
    apply Z.eqb_eq in E0. rewrite E0. destruct (t =? 0) eqn:E2; [apply Z.eqb_eq in E2; contradiction|reflexivity]. }
  rewrite E1. clear E1. set (ds1 := if d_trigger d =? 0 then upd_trigger id t ds else ds).
  assert (Hids1 : ids ds1 = ids ds) by (unfold ds1; destruct (d_trigger d =? 0); [apply xs_upd_ids|reflexivity]).
  cbn [fold_left]. rewrite fold_left_app. cbn [fold_left].
  (* the loop over the chained downtimes *)
  assert (L : forall l dsa oa, ids dsa = ids ds ->
            fold_left (fun (acc : list dt * list out) ev =>
                         let '(dsa, oa) := acc in
                         match ev with
                         | XeArmCleanup => acc
                         | XeTriggerChild c t' => let '(dsb, ob) := xs_run fuel now paused c t' dsa in (dsb, oa ++ ob)
                         | XeTriggered => (dsa, oa ++ (if negb (d_fixed d) && negb paused then [ONotify NDowntimeStart] else []) ++ [ODtTriggered id])
                         end) (map (fun c => XeTriggerChild c t) (filter (xs_exists ds) l)) (dsa, oa)
            = fold_left (fun acc cid => let '(dsa, oa) := acc in
                                        let '(dsb, ob) := trigger_dt fuel now paused cid t dsa in (dsb, oa ++ ob)) l (dsa, oa)).
  { induction l as [|c r IHl]; intros dsa oa Hi; cbn [filter map fold_left]; [reflexivity|].
    destruct (xs_exists ds c) eqn:Ex; cbn [map fold_left].
    - rewrite (IH now paused c t dsa Ht). pose proof (xs_trigger_ids fuel now paused c t dsa) as Hk.
      destruct (trigger_dt fuel now paused c t dsa) as [dsb ob]. cbn [fst] in Hk. apply IHl. congruence.
    - assert (Ex' : xs_exists dsa c = false) by (rewrite xs_exists_ids, Hi, <- xs_exists_ids; exact Ex).
      rewrite (xs_trigger_absent fuel now paused c t dsa Ex'), app_nil_r. apply IHl; exact Hi. }
  rewrite (L (d_triggers d) ds1 [] Hids1).
  destruct (fold_left _ (d_triggers d) (ds1, [])) as [ds2 o2]. reflexivity.
Qed.
