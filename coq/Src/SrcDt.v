(* Round 2 of the translator tie, C05: the trigger decisions of Downtime::Start, the part of Downtime::RemoveDowntime that
   precedes the deletion (silent return, refusal by exception, recursion into the children, removal info) and one iteration of
   DowntimesStartTimerHandler / DowntimesOrphanedTimerHandler - regenerated from /repo into coq/Facts/Facts_fn_dt.v - against
   CkFull.do_dt_add / remove_dt / do_dt_start_timer (dt_can_be_triggered and the trigger instants they use).
   A call TriggerDowntime(t) is ONE LEVEL of the model's trigger_dt (round 1: src_downtime_trigger_downtime_eq); the recursion into
   chained downtimes stays an event (XeTriggerChild) - the model's fuel-bounded recursion is not re-derived here. *)
From Icv Require Import Base.Tac Src.XlPrelude Ck.CkState Ck.CkFull Facts.Facts_enums Facts.Facts_fn_enums Facts.Facts_fn_ck Src.SrcCk.
From Icv Require Import Facts.Facts_fn_dt.
Local Open Scope Z_scope.

(* one level of trigger_dt: the right-hand side of src_downtime_trigger_downtime_eq *)
Definition xs_level (now : Z) (d : dt) (t : Z) (ex : Z -> bool) : Z * list xdt_ev :=
  if dt_can_be_triggered now d
  then (if d_trigger d =? 0 then t else d_trigger d,
        XeArmCleanup :: map (fun c => XeTriggerChild c t) (filter ex (d_triggers d)) ++ [XeTriggered])
  else (d_trigger d, []).

Definition xs_with_trigger (d : dt) (t : Z) : dt :=
  {| d_id := d_id d; d_fixed := d_fixed d; d_start := d_start d; d_end := d_end d; d_duration := d_duration d; d_entry := d_entry d;
     d_trigger := t; d_triggers := d_triggers d; d_parent := d_parent d; d_owned := d_owned d |}.

(* ------------------------------------------------------------------ Downtime::Start *)
Lemma src_downtime_start_trigger_eq : src_downtime_start_trigger_recognised = true -> src_downtime_trigger_downtime_recognised = true ->
  src_downtime_can_be_triggered_recognised = true ->
  forall now d problem lsc ex,
    src_downtime_start_trigger now (d_fixed d) (d_start d) (d_end d) (d_trigger d) (d_duration d) (d_entry d) problem lsc (d_triggers d) ex
    = if d_fixed d
      then (if dt_can_be_triggered now d
            then (let t := Z.max (d_start d) (d_entry d) in (fst (xs_level now d t ex), [XsStarted; XsTrigger t (snd (xs_level now d t ex))]))
            else (d_trigger d, []))
      else (if problem
            then (let t := Z.max (Z.max (d_start d) (d_entry d)) lsc in (fst (xs_level now d t ex), [XsTrigger t (snd (xs_level now d t ex))]))
            else (d_trigger d, [])).
Proof.
  intro Hrec; xl_rec Hrec. all: intros H2 H3; revert H2; xl_rec H3. all: intro H2.
  all: intros now d problem lsc ex; unfold src_downtime_start_trigger, xs_trigger.
  all: pose proof (fun t => src_downtime_trigger_downtime_eq H2 now d t ex) as T; unfold xdt in T.
  all: pose proof (src_downtime_can_be_triggered_eq eq_refl now d) as C; unfold xdt in C.
  all: unfold xs_level.
  all: destruct (d_fixed d) eqn:Hf, problem, (dt_can_be_triggered now d) eqn:Hc.
  all: repeat first [ progress cbn [negb andb orb fst snd app] | progress cbv beta iota zeta | rewrite andb_false_r | rewrite andb_true_r
                    | rewrite C | rewrite T | rewrite Hc ].
  all: reflexivity.
Qed.

(* ------------------------------------------------------------------ Downtime::RemoveDowntime before the deletion *)
Definition xr_num (r : rreason) : Z := match r with RExpired => 0 | RByUser => 1 | RByOwner => 2 end.

Lemma xl_for_append_all : forall {A E R} (g : A -> E) (body : list E -> A -> xl_ctl (list E) R) (l : list A) (acc : list E),
  (forall a x, In x l -> body a x = XlNext (a ++ [g x])) -> xl_for body l acc = inl (acc ++ map g l).
Proof.
  intros A E R g body l; induction l as [|x t IH]; intros acc H; cbn [xl_for map].
  - rewrite app_nil_r; reflexivity.
  - rewrite (H acc x (or_introl eq_refl)). rewrite IH by (intros; apply H; right; assumption).
    rewrite <- app_assoc; reflexivity.
Qed.

Lemma src_downtime_remove_pre_eq : src_downtime_remove_pre_recognised = true ->
  forall found is_api owned ic r kids,
    src_downtime_remove_pre found is_api owned ic (xr_num r) kids
    = if negb found || negb is_api then (true, [])
      else if owned && match r with RByUser => true | _ => false end then (true, [XsThrow])
      else (false, (if ic then map XsRemoveChild kids else []) ++ (match r with RExpired => [] | _ => [XsRemovalInfo] end)).
Proof.
  intro Hrec; xl_rec Hrec.
  all: intros found is_api owned ic r kids; unfold src_downtime_remove_pre, fx_DowntimeRemovedByUser, fx_DowntimeExpired.
  all: rewrite (xl_for_append_all XsRemoveChild) by (intros; reflexivity).
  all: destruct found, is_api, owned, ic, r; cbn [negb orb andb xr_num Z.eqb Pos.eqb app]; rewrite ?app_nil_r; reflexivity.
Qed.

(* the model refuses (no removal, no event, "not completed") under exactly that condition, and recurses into exactly those children *)
Lemma xr_remove_dt_refuses fuel now paused id ch r ds d :
  find_dt id ds = Some d -> (d_owned d && match r with RByUser => true | _ => false end) = true ->
  remove_dt (S fuel) now paused id ch r ds = (ds, [], false).
Proof. intros Hf Ho. cbn [remove_dt]. rewrite Hf, Ho. reflexivity. Qed.

(* ------------------------------------------------------------------ one iteration of the two timer handlers *)
Lemma src_downtime_start_timer_iter_eq : src_downtime_start_timer_iter_recognised = true -> src_downtime_can_be_triggered_recognised = true ->
  forall now d active,
    src_downtime_start_timer_iter now (d_fixed d) (d_start d) (d_end d) (d_trigger d) (d_duration d) (d_entry d) active
    = if active && (dt_can_be_triggered now d && d_fixed d) then [XsStarted; XsTrigger (Z.max (d_start d) (d_entry d)) []] else [].
Proof.
  intro Hrec; xl_rec Hrec. all: intro Hrec; xl_rec Hrec.
  all: intros now d active; unfold src_downtime_start_timer_iter.
  all: pose proof (src_downtime_can_be_triggered_eq eq_refl now d) as C; unfold xdt in C; rewrite C.
  all: destruct active, (dt_can_be_triggered now d), (d_fixed d); reflexivity.
Qed.

Lemma src_downtime_orphaned_timer_iter_eq : src_downtime_orphaned_timer_iter_recognised = true ->
  forall name active valid,
    src_downtime_orphaned_timer_iter name active valid = if active && negb valid then [XsRemove name false (xr_num RByOwner)] else [].
Proof.
  intro Hrec; xl_rec Hrec.
  all: intros name active valid; unfold src_downtime_orphaned_timer_iter, fx_DowntimeRemovedByConfigOwner; destruct active, valid; reflexivity.
Qed.
