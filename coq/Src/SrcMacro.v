(* C09: PluginUtility::ExitStatusToState, translated from /repo (Facts_fn_macro.v), equals the model's exit map. *)
From Icv Require Import Base.Tac Src.XlPrelude Macro.MxModel Facts.Facts_enums Facts.Facts_fn_macro.
Local Open Scope Z_scope.

Lemma src_exit_status_to_state_eq : src_exit_status_to_state_recognised = true ->
  forall st, src_exit_status_to_state st = mx_exit_to_state st.
Proof.
  intro Hrec; xl_rec Hrec.
  all: intro st; unfold src_exit_status_to_state, mx_exit_to_state.
  all: unfold f_ServiceOK, f_ServiceWarning, f_ServiceCritical, f_ServiceUnknown; xl_crush.
Qed.
