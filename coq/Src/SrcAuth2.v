(* Round 2 of the translator tie, C10: ApiListener::UpdateObjectAuthority (collection of the connected endpoints of the local
   zone with the cold-start early return; the authority decision endpoints[SDBM(name) % size] == my_endpoint) and
   ConfigObject::SetAuthority - regenerated from /repo into coq/Facts/Facts_fn_auth2.v - against Auth/AuModel.au_select,
   au_auth_of / au_owner, au_set_authority.
   NOT translated: the std::sort call between the two regions (its comparator is a lambda): that the vector handed to the
   decision is au_sort of the collected endpoints remains a claim of the model, tied by the correspondence run. *)
From Icv Require Import Base.Tac Src.XlPrelude Auth.AuModel Facts.Facts_fn_auth Src.SrcAuth Facts.Facts_fn_auth2.
Local Open Scope Z_scope.

(* the loop skeleton: a filtered copy and a counter *)
Lemma xau_collect : forall {A R} (p : A -> bool) (body : list A * Z -> A -> xl_ctl (list A * Z) R) (l : list A) (acc : list A) (n : Z),
  (forall a k x, In x l -> body (a, k) x = XlNext (if p x then a ++ [x] else a, k + 1)) ->
  xl_for body l (acc, n) = inl (acc ++ filter p l, n + Z.of_nat (length l)).
Proof.
  intros A R p body l; induction l as [|x t IH]; intros acc n H; cbn [xl_for filter length].
  - rewrite app_nil_r, Z.add_0_r; reflexivity.
  - rewrite (H acc n x (or_introl eq_refl)). rewrite IH by (intros; apply H; right; assumption).
    rewrite Nat2Z.inj_succ. destruct (p x); [rewrite <- app_assoc|]; cbn [app]; f_equal; f_equal; lia.
Qed.

Definition xau_eps (members : list au_bytes) (me : au_bytes) (conn : au_bytes -> bool) : list au_bytes :=
  filter (fun e => negb (negb (au_beq e me) && negb (conn e))) members.

Lemma src_update_authority_endpoints_eq : src_update_authority_endpoints_recognised = true ->
  forall members me conn now start,
    src_update_authority_endpoints members me conn now start
    = ((1 <? Z.of_nat (length members)) && (Z.of_nat (length (xau_eps members me conn)) <=? 1) && ((start =? 0) || (now - start <? 30)),
       xau_eps members me conn).
Proof.
  intro Hrec; xl_rec Hrec.
  all: intros members me conn now start; unfold src_update_authority_endpoints; cbv zeta.
  all: rewrite (xau_collect (fun e => negb (negb (au_beq e me) && negb (conn e))))
         by (intros a k x _; generalize (au_beq x me) (conn x); intros b1 b2; destruct b1, b2; reflexivity).
  all: cbn [app]; fold (xau_eps members me conn); unfold xau_len; rewrite Z.add_0_l.
  all: destruct ((1 <? Z.of_nat (length members)) && (Z.of_nat (length (xau_eps members me conn)) <=? 1) && ((start =? 0) || (now - start <? 30)));
       reflexivity.
Qed.

(* = the model's selection for a node with a local zone, with the constants the C++ text has (window 30 s, strict <) *)
Lemma src_update_authority_select : src_update_authority_endpoints_recognised = true ->
  forall p members me conn now start, au_p_window p = 30 -> au_p_strict p = true ->
    au_select p (Some members) conn me now start
    = let '(cold, eps) := src_update_authority_endpoints members me conn now start in if cold then AuCold else AuBy (au_sort eps).
Proof.
  intros H p members me conn now start Hw Hs. rewrite (src_update_authority_endpoints_eq H).
  unfold au_select, au_in_window, xau_eps. rewrite Hw, Hs. reflexivity.
Qed.

(* the decision for one object *)
Lemma src_update_authority_decision_eq : src_update_authority_decision_recognised = true -> src_utility_sdbm_recognised = true ->
  forall p eps me name npos, Z.of_nat (length name) <= npos -> Z.of_nat (length name) < xl_W64 ->
    Some (src_update_authority_decision false eps me (map (au_char (au_p_signed p)) name) npos) = au_auth_of p AuAll me name /\
    Some (src_update_authority_decision true eps me (map (au_char (au_p_signed p)) name) npos) = au_auth_of p (AuBy eps) me name.
Proof.
  intro Hrec; xl_rec Hrec. all: intro H2.
  all: intros p eps me name npos Hl Hw; unfold src_update_authority_decision, au_auth_of, au_owner, xau_len; cbv beta zeta.
  all: rewrite (src_utility_sdbm_eq H2 _ _ _ Hl Hw); split; reflexivity.
Qed.

(* ConfigObject::SetAuthority *)
Lemma src_configobject_set_authority_eq : src_configobject_set_authority_recognised = true ->
  forall authority o,
    src_configobject_set_authority authority (au_o_paused o)
    = (au_o_paused (au_set_authority authority o),
       if authority && au_o_paused o then [XauResume] else if negb authority && negb (au_o_paused o) then [XauPause] else []) /\
    au_o_resumes (au_set_authority authority o) = au_o_resumes o + (if authority && au_o_paused o then 1 else 0) /\
    au_o_pauses (au_set_authority authority o) = au_o_pauses o + (if negb authority && negb (au_o_paused o) then 1 else 0).
Proof.
  intro Hrec; xl_rec Hrec.
  all: intros authority o; unfold src_configobject_set_authority, au_set_authority.
  all: destruct authority, (au_o_paused o) eqn:E; cbn [andb negb au_with_pause au_o_paused au_o_resumes au_o_pauses]; rewrite ?E; repeat split; lia.
Qed.
