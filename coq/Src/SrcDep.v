(* C07: Dependency::IsAvailable translated from /repo (Facts_fn_dep.v) equals the model's dg_available. *)
From Icv Require Import Base.Tac Src.XlPrelude Dep.DgModel Facts.Facts_enums Facts.Facts_fn_enums Facts.Facts_fn_notif Facts.Facts_fn_dep.
Local Open Scope Z_scope.

Definition xdg_aspect (a : dg_aspect) : Z :=
  match a with DgState => fx_DependencyState | DgChecks => fx_DependencyCheckExecution | DgNotif => fx_DependencyNotification end.
Definition xdg_has_period (d : dg_dep) : bool := match dgd_period d with Some _ => true | None => false end.
Definition xdg_inside (po : nat -> bool) (d : dg_dep) : bool := match dgd_period d with Some p => po p | None => true end.
(* the states GetState() can report: ServiceOK..ServiceUnknown, HostUp/HostDown *)
Definition xdg_state_ok (svc : bool) (s : Z) : Prop := if svc then 0 <= s <= 3 else 0 <= s <= 1.

Lemma src_state_to_filter_dg : src_service_state_to_filter_recognised = true -> src_host_state_to_filter_recognised = true ->
  forall svc s, xdg_state_ok svc s ->
    (if svc then src_service_state_to_filter s else src_host_state_to_filter s) = dg_state_filter svc s.
Proof.
  intros H1 H2; xl_rec H1; xl_rec H2.
  all: intros svc s Hs; unfold xdg_state_ok in Hs; unfold src_service_state_to_filter, src_host_state_to_filter, dg_state_filter.
  all: unfold f_ServiceOK, f_ServiceWarning, f_ServiceCritical, f_ServiceUnknown, f_HostUp, f_HostDown,
         f_StateFilterOK, f_StateFilterWarning, f_StateFilterCritical, f_StateFilterUnknown, f_StateFilterUp, f_StateFilterDown.
  all: destruct svc; xl_crush.
Qed.

Lemma src_dependency_is_available_eq : src_dependency_is_available_recognised = true ->
  forall g st po a d,
    xdg_state_ok (dg_is_svc g (dgd_parent d)) (dgs_state (st (dgd_parent d))) ->
    src_dependency_is_available (xdg_aspect a) (Nat.eqb (dgd_parent d) (dgd_child d))
      (dgs_checked (st (dgd_parent d))) (dgd_iss d)
      (if dgs_hard (st (dgd_parent d)) then f_StateTypeHard else f_StateTypeSoft)
      (dg_is_svc g (dgd_parent d)) (dgs_state (st (dgd_parent d))) (dgd_filter d)
      (xdg_has_period d) (xdg_inside po d) (dgd_dc d) (dgd_dn d)
    = dg_available g st po a d.
Proof.
  intro Hrec; xl_rec Hrec.
  all: intros g st po a d Hs.
  all: pose proof (src_state_to_filter_dg eq_refl eq_refl _ _ Hs) as Hf.
  all: unfold src_dependency_is_available, dg_available, dg_filter_match, dg_period_closed, dg_not_disabled,
         xdg_has_period, xdg_inside.
  all: cbv zeta; rewrite Hf.
  all: generalize (Z.land (dg_state_filter (dg_is_svc g (dgd_parent d)) (dgs_state (st (dgd_parent d)))) (dgd_filter d)); intro m.
  all: destruct (dgd_period d) as [p|]; destruct a; cbn [xdg_aspect];
       unfold fx_DependencyState, fx_DependencyCheckExecution, fx_DependencyNotification, f_StateTypeHard, f_StateTypeSoft.
  all: generalize (Nat.eqb (dgd_parent d) (dgd_child d)) (dgs_checked (st (dgd_parent d))) (dgd_iss d)
                  (dgs_hard (st (dgd_parent d))) (m =? 0) (dgd_dc d) (dgd_dn d); intros b1 b2 b3 b4 b5 b6 b7.
  all: try generalize (po p); intros.
  all: destruct b1, b2, b3, b4; cbn; try reflexivity; xl_crush.
Qed.
