(* Round 2 of the translator tie, C06: Checkable::IsAcknowledged / ClearAcknowledgement / AcknowledgeProblem, the
   "remove acknowledgements" block of ProcessCheckResult (GetAcknowledgement() read several times with its lazy expiry and
   ClearAcknowledgement("") in between: explicit state passing, glue xa_get_ack / xa_clear built from the TRANSLATED
   functions), the refusal conditions of ApiActions::AcknowledgeProblem and the cluster handler - regenerated from /repo into
   coq/Facts/Facts_fn_ack.v - against CkFull.get_ack / clear_ack / set_ack / ack_on_change / do_ack and CkAck.cka_cluster_set. *)
From Icv Require Import Base.Tac Src.XlPrelude Ck.CkState Ck.CkFull Ck.CkAck Facts.Facts_enums Facts.Facts_fn_enums Facts.Facts_fn_ck Src.SrcCk.
From Icv Require Import Facts.Facts_fn_ack.
Local Open Scope Z_scope.

Ltac xa_enums := unfold f_AcknowledgementNone, f_AcknowledgementNormal, f_AcknowledgementSticky, f_NotificationAcknowledgement,
  f_HostUp, f_ServiceOK in *.

(* a model output as the effect the C++ performs *)
Definition xa_of_out (o : out) : xa_ev :=
  match o with OAckCleared => XaCleared | OAckSet a => XaSet (ackt_num a) | ONotify t => XaNotify (ntype_num t) | _ => XaApply end.

(* ------------------------------------------------------------------ the model's acknowledgement functions on the two
   attributes they touch (model against model; independent of the C++) *)
Definition xm_get (now : Z) (a : ackt) (e : Z) : ackt * ackt * Z * list out :=
  if negb (ackt_eqb a AckNone) && negb (e =? 0) && (e <? now) then (AckNone, AckNone, 0, [OAckCleared]) else (a, a, e, []).
Definition xm_clear (a : ackt) (e : Z) : ackt * Z * list out :=
  (AckNone, 0, if negb (ackt_eqb a AckNone) then [OAckCleared] else []).

Lemma xm_get_ok now f :
  let '(a, f', o) := get_ack now f in (a, f_ack f', f_ack_expiry f', o) = xm_get now (f_ack f) (f_ack_expiry f).
Proof.
  unfold get_ack, xm_get, clear_ack. destruct (negb (ackt_eqb (f_ack f) AckNone)); cbn [andb];
    [destruct (negb (f_ack_expiry f =? 0) && (f_ack_expiry f <? now))|]; reflexivity.
Qed.

Lemma xm_clear_ok f : let '(f', o) := clear_ack f in (f_ack f', f_ack_expiry f', o) = xm_clear (f_ack f) (f_ack_expiry f).
Proof. reflexivity. Qed.

(* ProcessCheckResult's block: ack_on_change followed by the read that decides remove_acknowledgement_comments *)
Definition xm_ack_block (k : kind) (now : Z) (sc : bool) (ns : sstate) (a : ackt) (e : Z) : bool * ackt * Z * list out :=
  let '(a1, e1, o1) :=
    if sc then
      let '(v, a', e', oa) := xm_get now a e in
      if ackt_eqb v AckNormal then let '(a'', e'', ob) := xm_clear a' e' in (a'', e'', oa ++ ob)
      else let '(v2, a2, e2, oa2) := xm_get now a' e' in
           if ackt_eqb v2 AckSticky && is_ok k ns then let '(a3, e3, ob) := xm_clear a2 e2 in (a3, e3, oa ++ oa2 ++ ob)
           else (a2, e2, oa ++ oa2)
    else (a, e, []) in
  let '(v3, a4, e4, o2) := xm_get now a1 e1 in
  (ackt_eqb v3 AckNone, a4, e4, o1 ++ o2).

Ltac xm_step :=
  match goal with
  | |- context [get_ack ?n ?f] =>
      let H := fresh in pose proof (xm_get_ok n f) as H; destruct (get_ack n f) as [[? ?] ?];
      destruct (xm_get n (f_ack f) (f_ack_expiry f)) as [[[? ?] ?] ?]; inversion H; subst; clear H
  | |- context [clear_ack ?f] =>
      let H := fresh in pose proof (xm_clear_ok f) as H; destruct (clear_ack f) as [? ?];
      destruct (xm_clear (f_ack f) (f_ack_expiry f)) as [[? ?] ?]; inversion H; subst; clear H
  end.

Lemma xm_ack_block_ok k now sc ns f0 :
  let '(f1, o1) := ack_on_change k now sc ns f0 in
  let '(a3, f2, o2) := get_ack now f1 in
  (ackt_eqb a3 AckNone, f_ack f2, f_ack_expiry f2, o1 ++ o2) = xm_ack_block k now sc ns (f_ack f0) (f_ack_expiry f0).
Proof.
  unfold ack_on_change, xm_ack_block. destruct sc.
  - xm_step. destruct (ackt_eqb _ AckNormal).
    + xm_step. xm_step. reflexivity.
    + xm_step. destruct (ackt_eqb _ AckSticky && is_ok k ns).
      * xm_step. xm_step. rewrite <- !app_assoc. reflexivity.
      * xm_step. rewrite <- !app_assoc. reflexivity.
  - xm_step. reflexivity.
Qed.

(* ------------------------------------------------------------------ the translated functions *)

Lemma src_checkable_is_acknowledged_eq : src_checkable_is_acknowledged_recognised = true ->
  src_checkable_get_acknowledgement_recognised = true ->
  forall now f, src_checkable_is_acknowledged now (ackt_num (f_ack f)) (f_ack_expiry f) = negb (ackt_eqb (cka_eff_ack now f) AckNone).
Proof.
  intro Hrec; xl_rec Hrec. all: intro Hrec; xl_rec Hrec.
  all: intros now f; unfold src_checkable_is_acknowledged.
  all: destruct (src_checkable_get_acknowledgement_eq eq_refl now f) as [E G]; rewrite E; cbn [fst].
  all: unfold cka_eff_ack; change (cka_expired now f) with (xack_expired now f); rewrite G.
  all: destruct (xack_expired now f); cbn [fst]; xa_enums; unfold ackt_eqb; reflexivity.
Qed.

Lemma src_checkable_clear_acknowledgement_eq : src_checkable_clear_acknowledgement_recognised = true ->
  forall a e ct lc,
    src_checkable_clear_acknowledgement (ackt_num a) e ct lc
    = let '(a', e', o) := xm_clear a e in (ackt_num a', e', if negb (ackt_eqb a AckNone) then ct else lc, map xa_of_out o).
Proof.
  intro Hrec; xl_rec Hrec.
  all: intros a e ct lc; unfold src_checkable_clear_acknowledgement, xm_clear; xa_enums; destruct a; reflexivity.
Qed.

(* AcknowledgeProblem = set_ack + the two events of the model's acknowledgement steps (do_ack, cka_cluster_set) *)
Lemma src_checkable_acknowledge_problem_eq : src_checkable_acknowledge_problem_recognised = true ->
  forall f a expiry notify ct lc,
    src_checkable_acknowledge_problem (ackt_num a) notify expiry ct (f_paused f) (ackt_num (f_ack f)) (f_ack_expiry f) lc
    = (ackt_num (f_ack (set_ack f a expiry)), f_ack_expiry (set_ack f a expiry), ct,
       map xa_of_out ((if notify && negb (f_paused (set_ack f a expiry)) then [ONotify NAck] else []) ++ [OAckSet a])).
Proof.
  intro Hrec; xl_rec Hrec.
  all: intros f a expiry notify ct lc; unfold src_checkable_acknowledge_problem; xa_enums; cbn [set_ack f_ack f_ack_expiry f_paused].
  all: destruct notify, (f_paused f); reflexivity.
Qed.

(* the state-passing glue, built from the translated GetAcknowledgement and ClearAcknowledgement *)
Lemma xa_clear_eq : src_checkable_clear_acknowledgement_recognised = true ->
  forall a e evs, xa_clear (ackt_num a) e evs = let '(a', e', o) := xm_clear a e in (ackt_num a', e', evs ++ map xa_of_out o).
Proof.
  intro Hrec. intros a e evs; unfold xa_clear. rewrite (src_checkable_clear_acknowledgement_eq Hrec). reflexivity.
Qed.

Lemma xa_get_ack_eq : src_checkable_clear_acknowledgement_recognised = true -> src_checkable_get_acknowledgement_recognised = true ->
  forall now a e evs,
    xa_get_ack now (ackt_num a) e evs = let '(v, a', e', o) := xm_get now a e in (ackt_num v, ackt_num a', e', evs ++ map xa_of_out o).
Proof.
  intros H1 Hrec; revert H1; xl_rec Hrec. all: intro H1.
  all: intros now a e evs; unfold xa_get_ack; rewrite (xa_clear_eq H1).
  all: unfold src_checkable_get_acknowledgement, xm_get, xm_clear, ackt_eqb; xa_enums.
  all: destruct a; cbn [ackt_num Z.eqb negb andb]; xl_split; cbn [app map xa_of_out] in *; rewrite ?app_nil_r; try reflexivity; try discriminate; try lia.
Qed.

(* a second read in the same state returns the same value and changes nothing: what hoisting a repeated
   GetAcknowledgement() in one statement relies on (tools/cxx2coq.py, calls_st) *)
Lemma xa_get_ack_idem : src_checkable_clear_acknowledgement_recognised = true -> src_checkable_get_acknowledgement_recognised = true ->
  forall now a e evs,
    let '(v, r1, e1, ev1) := xa_get_ack now (ackt_num a) e evs in xa_get_ack now r1 e1 ev1 = (v, r1, e1, ev1).
Proof.
  intros H1 H2 now a e evs. rewrite (xa_get_ack_eq H1 H2). unfold xm_get.
  destruct (negb (ackt_eqb a AckNone) && negb (e =? 0) && (e <? now)) eqn:E.
  - change 0 with (ackt_num AckNone) at 1 2. rewrite (xa_get_ack_eq H1 H2). cbn. rewrite app_nil_r. reflexivity.
  - rewrite (xa_get_ack_eq H1 H2). unfold xm_get. rewrite E. rewrite app_nil_r. reflexivity.
Qed.

(* closed forms over arbitrary attribute values *)
Lemma xa_clear_Z : src_checkable_clear_acknowledgement_recognised = true ->
  forall raw e evs, xa_clear raw e evs = (0, 0, evs ++ (if negb (raw =? 0) then [XaCleared] else [])).
Proof.
  intro Hrec; xl_rec Hrec.
  all: intros raw e evs; unfold xa_clear, src_checkable_clear_acknowledgement; xa_enums; cbv zeta.
  all: destruct (negb (raw =? 0)); reflexivity.
Qed.

Lemma xa_get_ack_Z : src_checkable_clear_acknowledgement_recognised = true -> src_checkable_get_acknowledgement_recognised = true ->
  forall now raw e evs,
    xa_get_ack now raw e evs = if negb (raw =? 0) && negb (e =? 0) && (e <? now) then (0, 0, 0, evs ++ [XaCleared]) else (raw, raw, e, evs).
Proof.
  intros H1 Hrec; revert H1; xl_rec Hrec. all: intro H1.
  all: intros now raw e evs; unfold xa_get_ack; rewrite (xa_clear_Z H1).
  all: unfold src_checkable_get_acknowledgement; xa_enums; cbv zeta.
  all: xl_split; cbn [app] in *; try reflexivity; try discriminate; try lia.
Qed.

(* the block of ProcessCheckResult: run the translated statement sequence call by call *)
Lemma src_pcr_ack_clear_eq : src_pcr_ack_clear_recognised = true -> src_checkable_clear_acknowledgement_recognised = true ->
  src_checkable_get_acknowledgement_recognised = true ->
  forall k now sc ns cr_end lsc a e,
    src_pcr_ack_clear now (xk_is_host k) sc (sstate_num ns) cr_end lsc (ackt_num a) e
    = let '(rm, a', e', o) := xm_ack_block k now sc ns a e in (rm, if sc then cr_end else lsc, ackt_num a', e', map xa_of_out o).
Proof.
  intro Hrec; xl_rec Hrec. all: intros H1 H2.
  all: intros k now sc ns cr_end lsc a e; unfold src_pcr_ack_clear, xm_ack_block.
  all: rewrite (src_checkable_is_state_ok_eq eq_refl); generalize (is_ok k ns); intro okn.
  all: unfold xm_get, xm_clear, ackt_eqb; xa_enums.
  all: destruct a, sc, okn; cbn [ackt_num Z.eqb Pos.eqb negb andb orb].
  all: repeat first [ rewrite (xa_get_ack_Z H1 H2) | rewrite (xa_clear_Z H1) | progress cbv beta iota zeta
                    | progress cbn [ackt_num Z.eqb Pos.eqb negb andb orb app map xa_of_out]
                    | match goal with |- context [if ?c then _ else _] => destruct c eqn:? end ].
  all: try reflexivity; try lia.
Qed.

(* ... and against the model's functions themselves *)
Lemma src_pcr_ack_clear_model : src_pcr_ack_clear_recognised = true -> src_checkable_clear_acknowledgement_recognised = true ->
  src_checkable_get_acknowledgement_recognised = true ->
  forall k now sc ns cr_end lsc f0,
    let '(f1, o1) := ack_on_change k now sc ns f0 in
    let '(a3, f2, o2) := get_ack now f1 in
    src_pcr_ack_clear now (xk_is_host k) sc (sstate_num ns) cr_end lsc (ackt_num (f_ack f0)) (f_ack_expiry f0)
    = (ackt_eqb a3 AckNone, if sc then cr_end else lsc, ackt_num (f_ack f2), f_ack_expiry f2, map xa_of_out (o1 ++ o2)).
Proof.
  intros H1 H2 H3 k now sc ns cr_end lsc f0.
  pose proof (xm_ack_block_ok k now sc ns f0) as M.
  destruct (ack_on_change k now sc ns f0) as [f1 o1]. destruct (get_ack now f1) as [[a3 f2] o2].
  rewrite (src_pcr_ack_clear_eq H1 H2 H3), <- M. reflexivity.
Qed.

(* ------------------------------------------------------------------ refusal conditions of the API action *)
Definition xa_refused (o : list out) : bool := existsb (fun x => match x with ORefused _ => true | _ => false end) o.

Lemma xa_get_ack_out now f : xa_refused (snd (get_ack now f)) = false.
Proof. unfold get_ack, clear_ack. destruct (negb _ && _ && _); [destruct (negb _)|]; reflexivity. Qed.

Lemma xa_refused_app a b : xa_refused (a ++ b) = xa_refused a || xa_refused b.
Proof. apply existsb_app. Qed.

(* when the model's API step refuses (model against model) *)
Lemma xa_do_ack_api_refused c now f sticky notify persistent eg expiry :
  xa_refused (snd (do_ack c now ViaApi sticky notify persistent eg expiry f))
  = (eg && (expiry <=? now)) || entry_state_ok c f || negb (ackt_eqb (cka_eff_ack now f) AckNone).
Proof.
  unfold do_ack. destruct (eg && (expiry <=? now)); [reflexivity|]. destruct (entry_state_ok c f); [reflexivity|]. cbn [orb].
  pose proof (xa_get_ack_out now f) as Q.
  assert (E : fst (fst (get_ack now f)) = cka_eff_ack now f)
    by (unfold get_ack, cka_eff_ack, cka_expired; destruct (negb _ && _ && _); reflexivity).
  destruct (get_ack now f) as [[a f1] o1]; cbn [fst snd] in *. rewrite <- E.
  destruct (negb (ackt_eqb a AckNone)); cbn [snd]; rewrite !xa_refused_app, Q; [reflexivity|].
  destruct (notify && negb _); reflexivity.
Qed.

(* HTTP status of the region (409 or 0 = proceeds) and the expiry it passes on, against do_ack ViaApi *)
Lemma src_apiactions_acknowledge_problem_refusal_eq : src_apiactions_acknowledge_problem_refusal_recognised = true ->
  src_checkable_is_acknowledged_recognised = true -> src_checkable_get_acknowledgement_recognised = true ->
  forall c now f sticky notify persistent eg expiry ts0,
    src_apiactions_acknowledge_problem_refusal now eg expiry ts0 (negb (xk_is_host (c_kind (fc_base c))))
      (cka_api_state (c_kind (fc_base c)) (s_raw (f_st f))) (ackt_num (f_ack f)) (f_ack_expiry f)
    = (if xa_refused (snd (do_ack c now ViaApi sticky notify persistent eg expiry f)) then 409 else 0,
       if eg then expiry else 0).
Proof.
  intro Hrec; xl_rec Hrec. all: intros H2 H3.
  all: intros c now f sticky notify persistent eg expiry ts0; rewrite xa_do_ack_api_refused.
  all: unfold src_apiactions_acknowledge_problem_refusal, entry_state_ok, cka_api_state; xa_enums.
  all: rewrite (src_checkable_is_acknowledged_eq H2 H3); generalize (negb (ackt_eqb (cka_eff_ack now f) AckNone)); intro acked.
  all: destruct (c_kind (fc_base c)), (s_raw (f_st f)), eg, acked; cbn [xk_is_host negb host_up sstate_eqb sstate_num andb orb Z.eqb];
       cbv zeta; destruct (expiry <=? now); reflexivity.
Qed.

(* ------------------------------------------------------------------ the cluster handler *)
Lemma src_clusterevents_acknowledgement_set_handler_eq : src_clusterevents_acknowledgement_set_handler_recognised = true ->
  src_checkable_is_acknowledged_recognised = true -> src_checkable_get_acknowledgement_recognised = true ->
  forall now f ep ho sp ck fz ca,
    src_clusterevents_acknowledgement_set_handler now ep ho sp ck fz ca (ackt_num (f_ack f)) (f_ack_expiry f)
    = (0, if ep && ho && ck && (negb fz || ca) && ackt_eqb (cka_eff_ack now f) AckNone then [XaApply] else []).
Proof.
  intro Hrec; xl_rec Hrec. all: intros H2 H3.
  all: intros now f ep ho sp ck fz ca; unfold src_clusterevents_acknowledgement_set_handler.
  all: rewrite (src_checkable_is_acknowledged_eq H2 H3); generalize (ackt_eqb (cka_eff_ack now f) AckNone); intro nack.
  all: destruct ep, ho, ck, fz, ca, nack; reflexivity.
Qed.

(* the model's cluster step sets the acknowledgement exactly when the object is not acknowledged (after the lazy expiry) *)
Lemma xa_cluster_set_applies now sticky notify expiry f :
  existsb cka_is_set (snd (cka_cluster_set now sticky notify expiry f)) = ackt_eqb (cka_eff_ack now f) AckNone.
Proof.
  unfold cka_cluster_set.
  assert (E : fst (fst (get_ack now f)) = cka_eff_ack now f)
    by (unfold get_ack, cka_eff_ack, cka_expired; destruct (negb _ && _ && _); reflexivity).
  assert (Q : existsb cka_is_set (snd (get_ack now f)) = false)
    by (unfold get_ack, clear_ack; destruct (negb _ && _ && _); [destruct (negb _)|]; reflexivity).
  destruct (get_ack now f) as [[a f1] o1]; cbn [fst snd] in *. rewrite <- E.
  destruct (ackt_eqb a AckNone); cbn [negb snd]; rewrite ?existsb_app, Q; [|reflexivity].
  destruct (notify && negb _); cbn; destruct sticky; reflexivity.
Qed.
