(* Round 2 of the translator tie, C12 (C11): one iteration of the endpoint loop of ApiListener::RelayMessageOne - regenerated from
   /repo into coq/Facts/Facts_fn_relay.v - against one unfolding of Replay/RlModel.rl_relay_zone_eps, the loop the C12 model uses
   for a locally generated message (origin = null; the model's endpoint list excludes the local endpoint; this endpoint is the
   routing master or the target is).  XrlSend = SyncSendMessage (which enqueues only when the endpoint is not syncing: rl_ep_sync). *)
From Icv Require Import Base.Tac Src.XlPrelude Replay.RlBytes Replay.RlModel Facts.Facts_fn_relay.
From Coq Require Import Bool.
Local Open Scope bool_scope.

Definition xrl_has (x : xrl_ev) (l : list xrl_ev) : bool :=
  existsb (fun y => match x, y with XrlSkip, XrlSkip | XrlSend, XrlSend => true | _, _ => false end) l.

Lemma src_relay_endpoint_iter_eq : src_relay_endpoint_iter_recognised = true ->
  forall (is_local : bool) (e : rl_ep) (r : list rl_ep) (relayed ln ld : bool) (live skipped : list Z) (wm tm : bool),
    wm || tm = true ->
    rl_relay_zone_eps is_local (e :: r) relayed ln ld live skipped
    = let '(_, relayed', ln', ld', evs) :=
        src_relay_endpoint_iter false (rl_ep_conn e) is_local relayed ln ld false false false false false wm tm in
      rl_relay_zone_eps is_local r relayed' ln' ld'
        (live ++ (if xrl_has XrlSend evs && negb (rl_ep_sync e) then [rl_ep_id e] else []))
        (skipped ++ (if xrl_has XrlSkip evs then [rl_ep_id e] else [])).
Proof.
  intro Hrec; xl_rec Hrec.
  all: intros is_local e r relayed ln ld live skipped wm tm Hm; unfold src_relay_endpoint_iter; cbn [rl_relay_zone_eps].
  all: destruct (rl_ep_conn e), relayed, is_local, wm, tm, (rl_ep_sync e); try discriminate Hm;
       cbn [negb andb orb app xrl_has existsb]; rewrite ?app_nil_r; reflexivity.
Qed.

(* with an origin: the endpoint the message came from, every endpoint of the origin zone, and - on a non-master - every
   endpoint but the master are skipped (their log position is advanced), nothing else changes in the iteration *)
Lemma src_relay_endpoint_iter_origin : src_relay_endpoint_iter_recognised = true ->
  forall conn is_local relayed ln ld ho hc fe hz fz wm tm,
    let '(lft, relayed', ln', ld', evs) := src_relay_endpoint_iter false conn is_local relayed ln ld ho hc fe hz fz wm tm in
    xrl_has XrlSend evs = conn && negb (relayed && negb is_local) && negb (ho && hc && fe) && negb (ho && hz && fz) && (wm || tm) /\
    (xrl_has XrlSend evs = true -> relayed' = true) /\ (xrl_has XrlSend evs = false -> relayed' = relayed) /\
    xrl_has XrlSkip evs = conn && negb (xrl_has XrlSend evs).
Proof.
  intro Hrec; xl_rec Hrec.
  all: intros conn is_local relayed ln ld ho hc fe hz fz wm tm; unfold src_relay_endpoint_iter.
  all: destruct conn, is_local, relayed, ho, hc, fe, hz, fz, wm, tm; cbn; repeat split; intros; congruence.
Qed.

(* Round 2 of C12 (brief C12b): the model now has the origin.  One iteration of the translated loop body with
   has_origin = has_from_client = true, from_this_endpoint = (the endpoint is the origin's), has_from_zone = (origin->FromZone
   is set), from_this_zone = (the target zone is that zone) IS one unfolding of Replay/RlOrigin.rl_relay_zone_eps_o - in
   particular an endpoint that is not connected leaves the iteration before any test that puts it on skippedEndpoints. *)
From Icv Require Import Replay.RlHistory Replay.RlSize Replay.RlCompact Replay.RlOrigin.
Local Open Scope Z_scope.

Lemma src_relay_endpoint_iter_o_eq : src_relay_endpoint_iter_recognised = true ->
  forall (oid oz z : Z) (is_local : bool) (e : rl_ep) (r : list rl_ep) (relayed ln ld : bool) (live skipped : list Z) (wm tm : bool),
    (wm || tm = true)%bool ->
    let org := Some (oid, oz) in
    rl_relay_zone_eps_o org (rl_o_from_zone org z) is_local (e :: r) relayed ln ld live skipped
    = let '(_, relayed', ln', ld', evs) :=
        src_relay_endpoint_iter false (rl_ep_conn e) is_local relayed ln ld true true (rl_ep_id e =? oid) (0 <=? oz) (z =? oz) wm tm in
      rl_relay_zone_eps_o org (rl_o_from_zone org z) is_local r relayed' ln' ld'
        (live ++ (if xrl_has XrlSend evs && negb (rl_ep_sync e) then [rl_ep_id e] else []))
        (skipped ++ (if xrl_has XrlSkip evs then [rl_ep_id e] else [])).
Proof.
  intro Hrec; xl_rec Hrec.
  all: intros oid oz z is_local e r relayed ln ld live skipped wm tm Hm; cbv zeta; unfold src_relay_endpoint_iter;
       cbn [rl_relay_zone_eps_o rl_o_from_ep rl_o_from_zone].
  all: destruct (rl_ep_conn e), relayed, is_local, wm, tm, (rl_ep_sync e), (rl_ep_id e =? oid), (0 <=? oz), (z =? oz); try discriminate Hm;
       cbn [negb andb orb app xrl_has existsb]; rewrite ?app_nil_r; reflexivity.
Qed.

(* an endpoint that is not connected is never skipped and never sent to, whatever the origin *)
Lemma src_relay_endpoint_iter_away : src_relay_endpoint_iter_recognised = true ->
  forall is_local relayed ln ld ho hc fe hz fz wm tm,
    let '(_, relayed', _, _, evs) := src_relay_endpoint_iter false false is_local relayed ln ld ho hc fe hz fz wm tm in
    evs = [] /\ relayed' = relayed.
Proof.
  intro Hrec; xl_rec Hrec.
  all: intros is_local relayed ln ld ho hc fe hz fz wm tm; unfold src_relay_endpoint_iter.
  all: destruct is_local; cbn; split; reflexivity.
Qed.
