(* Round 2 of the translator tie, C09: MacroProcessor::AddArgumentHelper, the emission of an array-valued argument in
   ResolveArguments and Utility::EscapeShellArg (POSIX branch: _WIN32 not defined) - regenerated from /repo into
   coq/Facts/Facts_fn_macro2.v - against Macro/MxModel.mx_add_arg, mx_emit_arr, mx_escape_shell_arg.
   Strings are byte lists (mx_bytes = list N), `+` on them is list concatenation, literals are their bytes. *)
From Icv Require Import Base.Tac Src.XlPrelude Macro.MxDefs Macro.MxModel Facts.Facts_fn_macro2.
From Coq Require Import NArith.
Local Open Scope N_scope.

Definition xm_sep (sep_set : bool) (sep : mx_bytes) : option mx_bytes := if sep_set then Some sep else None.

Lemma src_macroprocessor_add_argument_helper_eq : src_macroprocessor_add_argument_helper_recognised = true ->
  forall key value add_key add_value sep_set sep,
    src_macroprocessor_add_argument_helper key value add_key add_value sep_set sep
    = mx_add_arg key value add_key add_value (xm_sep sep_set sep).
Proof.
  intro Hrec; xl_rec Hrec.
  all: intros key value add_key add_value sep_set sep; unfold src_macroprocessor_add_argument_helper, mx_add_arg, xm_sep.
  all: destruct add_key, add_value, sep_set; cbn [andb app]; rewrite <- ?app_assoc; reflexivity.
Qed.

(* a loop that appends a chunk per element, the first element being treated differently *)
Fixpoint xm_emit_from {A E} (step : bool -> A -> list E) (first : bool) (l : list A) : list E :=
  match l with [] => [] | x :: r => step first x ++ xm_emit_from step false r end.

Lemma xm_for_emit : forall {A E R} (step : bool -> A -> list E) (body : list E * bool -> A -> xl_ctl (list E * bool) R) (l : list A) acc first,
  (forall a f x, In x l -> body (a, f) x = XlNext (a ++ step f x, false)) ->
  exists f', xl_for body l (acc, first) = inl (acc ++ xm_emit_from step first l, f').
Proof.
  intros A E R step body l; induction l as [|x t IH]; intros acc first H; cbn [xl_for xm_emit_from].
  - exists first. rewrite app_nil_r; reflexivity.
  - rewrite (H acc first x (or_introl eq_refl)).
    destruct (IH (acc ++ step first x) false) as [f' E1]; [intros; apply H; right; assumption|].
    exists f'. rewrite E1, <- app_assoc. reflexivity.
Qed.

Definition xm_step (c : mx_carg) (f : bool) (v : mx_bytes) : list mx_bytes :=
  mx_add_arg (mx_ca_key c) v (if f then negb (mx_ca_skip_key c) else negb (mx_ca_skip_key c) && mx_ca_repeat_key c)
             (negb (mx_ca_skip_value c)) (mx_ca_sep c).

Lemma xm_emit_arr_from c : forall l f, xm_emit_from (xm_step c) f (map mx_to_string l) = mx_emit_arr c f l.
Proof. induction l as [|v r IH]; intro f; cbn [map xm_emit_from mx_emit_arr]; [reflexivity|]. rewrite IH. reflexivity. Qed.

Lemma src_resolve_arguments_emit_array_eq : src_resolve_arguments_emit_array_recognised = true ->
  src_macroprocessor_add_argument_helper_recognised = true ->
  forall c sep_set sep l, mx_ca_sep c = xm_sep sep_set sep ->
    src_resolve_arguments_emit_array (mx_ca_key c) (mx_ca_skip_key c) (mx_ca_repeat_key c) (mx_ca_skip_value c) sep_set sep (map mx_to_string l)
    = mx_emit_arr c true l.
Proof.
  intro Hrec; xl_rec Hrec. all: intro H2.
  all: intros c sep_set sep l Hs; unfold src_resolve_arguments_emit_array; cbv zeta.
  all: rewrite (xl_for_ext _ (fun (st : list mx_bytes * bool) v => XlNext (fst st ++ xm_step c (snd st) v, false)))
         by (intros [a f] x _; destruct f; cbv beta iota zeta; cbn [fst snd]; rewrite (src_macroprocessor_add_argument_helper_eq H2), <- Hs; reflexivity).
  all: destruct (xm_for_emit (R := list mx_bytes) (xm_step c) (fun (st : list mx_bytes * bool) v => XlNext (fst st ++ xm_step c (snd st) v, false))
                  (map mx_to_string l) [] true) as [f' E1]; [intros; reflexivity|].
  all: rewrite E1; cbn [app]; apply xm_emit_arr_from.
Qed.

(* Utility::EscapeShellArg *)
Lemma xm_for_flat : forall {A E R} (g : A -> list E) (body : list E -> A -> xl_ctl (list E) R) (l : list A) acc,
  (forall a x, In x l -> body a x = XlNext (a ++ g x)) -> xl_for body l acc = inl (acc ++ flat_map g l).
Proof.
  intros A E R g body l; induction l as [|x t IH]; intros acc H; cbn [xl_for flat_map].
  - rewrite app_nil_r; reflexivity.
  - rewrite (H acc x (or_introl eq_refl)). rewrite IH by (intros; apply H; right; assumption). rewrite <- app_assoc; reflexivity.
Qed.

Lemma xm_esc_flat s : flat_map (fun c => if c =? mx_ch_squote then [mx_ch_squote; mx_ch_bslash; mx_ch_squote; mx_ch_squote] else [c]) s = mx_esc_body s.
Proof.
  induction s as [|c t IH]; cbn [flat_map mx_esc_body]; [reflexivity|]. rewrite IH. destruct (c =? mx_ch_squote) eqn:E; [|reflexivity].
  apply N.eqb_eq in E; subst c. reflexivity.
Qed.

Lemma src_utility_escape_shell_arg_eq : src_utility_escape_shell_arg_recognised = true ->
  forall s, src_utility_escape_shell_arg s = mx_escape_shell_arg s.
Proof.
  intro Hrec; xl_rec Hrec.
  all: intros s; unfold src_utility_escape_shell_arg, mx_escape_shell_arg; cbv zeta.
  all: rewrite (xm_for_flat (fun c => if c =? mx_ch_squote then [mx_ch_squote; mx_ch_bslash; mx_ch_squote; mx_ch_squote] else [c]))
         by (intros a x _; cbv beta zeta; unfold mx_ch_squote, mx_ch_bslash;
             match goal with |- context [N.eqb ?y 39%N] => destruct (N.eqb y 39%N) eqn:E end;
             [apply N.eqb_eq in E; subst x; rewrite <- app_assoc; reflexivity|reflexivity]).
  all: rewrite xm_esc_flat; reflexivity.
Qed.
