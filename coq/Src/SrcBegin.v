(* Round 2 of the translator tie, C03: regions of Notification::BeginExecuteNotification and the reminder part of
   NotificationComponent::NotificationTimerHandler, regenerated from /repo into coq/Facts/Facts_fn_begin.v, against the
   notification model (Notif/NfModel.v): nf_pre / nf_begin (gate), the NfGo branch of nf_begin (bookkeeping),
   nf_user_sends (one iteration of the per-user loop), nf_tick_rem (reminder).
   A region that can be left early (region_exit) returns `left early?` first; the model-side closed forms (names xb_...) are
   proved equal to the projections of the model functions separately (model against model, independent of the C++). *)
From Icv Require Import Base.Tac Src.XlPrelude Notif.NfModel Facts.Facts_enums Facts.Facts_fn_enums Facts.Facts_fn_ck Facts.Facts_fn_notif Src.SrcNotif.
From Icv Require Import Facts.Facts_fn_begin.
Local Open Scope Z_scope.

Ltac xb_enums := unfold f_NotificationDowntimeStart, f_NotificationDowntimeEnd, f_NotificationDowntimeRemoved, f_NotificationCustom,
  f_NotificationAcknowledgement, f_NotificationProblem, f_NotificationRecovery, f_NotificationFlappingStart, f_NotificationFlappingEnd,
  f_StateTypeSoft, f_StateTypeHard, f_ServiceOK, f_HostUp in *.

(* ------------------------------------------------------------------ the bookkeeping block (NfGo branch of nf_begin) *)
Lemma src_begin_bookkeeping_eq : src_begin_bookkeeping_recognised = true ->
  forall c now ty s0,
    src_begin_bookkeeping (nf_type_bit ty) now (nfc_interval c) (nf_next s0) (nf_nomore s0) (nf_last s0) (nf_last_problem s0)
    = (let isp := nf_type_eqb ty NfProblem in
       (if isp && (0 <? nfc_interval c) then now + nfc_interval c else nf_next s0,
        if isp && (nfc_interval c <=? 0) then true else if negb (nf_type_eqb ty NfCustom) then false else nf_nomore s0,
        now, if isp then now else nf_last_problem s0, [XbNumber])).
Proof.
  intro Hrec; xl_rec Hrec.
  all: intros c now ty s0; unfold src_begin_bookkeeping, nf_type_eqb; xb_enums.
  all: destruct ty; cbn [nf_type_bit Z.eqb Pos.eqb negb andb app]; xl_crush.
Qed.

(* what the NfGo branch of nf_begin writes, as the lemma above states it *)
Lemma xb_begin_go c now x ty force reminder s :
  nf_pre c now x ty force = NfGo ->
  let s0 := if nf_type_eqb ty NfRecovery then nf_set_lns s [] else s in
  let s' := fst (nf_begin c now x ty force reminder s) in
  let isp := nf_type_eqb ty NfProblem in
  nf_next s' = (if isp && (0 <? nfc_interval c) then now + nfc_interval c else nf_next s0) /\
  nf_nomore s' = (if isp && (nfc_interval c <=? 0) then true else if negb (nf_type_eqb ty NfCustom) then false else nf_nomore s0) /\
  nf_last s' = now /\ nf_last_problem s' = (if isp then now else nf_last_problem s0) /\ nf_number s' = nf_number s0 + 1 /\
  ne_reached (snd (nf_begin c now x ty force reminder s)) = true.
Proof.
  intro Hg. cbv zeta. unfold nf_begin. rewrite Hg.
  destruct (nf_loop _ _ _ _ _ _ _ _) as [sent nl]. cbn [fst snd nf_next nf_nomore nf_last nf_last_problem nf_number nf_mk_exec ne_reached].
  repeat split.
Qed.

(* ------------------------------------------------------------------ one iteration of the per-user loop *)
Lemma src_begin_user_skipped_eq : src_begin_user_skipped_recognised = true -> src_notification_check_user_filters_recognised = true ->
  forall c x ty force reminder npu lns u has_p inside,
    0 <= cx_raw x <= 3 -> nfu_per_closed u = has_p && negb inside ->
    src_begin_user_skipped (nf_type_bit ty) force reminder (nfu_enable u) has_p inside (nfu_types u) (nfc_svc c)
      (nf_api_state (nfc_svc c) (cx_raw x)) (nfu_states u) (nf_mem (nfu_id u) npu) (cx_volatile x) (nf_lns_get (nfu_id u) lns)
    = negb (nf_user_sends c x ty force reminder npu lns u).
Proof.
  intro Hrec; xl_rec Hrec. all: intro Hrec; xl_rec Hrec.
  all: intros c x ty force reminder npu lns u has_p inside Hr Hp.
  all: unfold src_begin_user_skipped, nf_user_sends; cbv beta.
  all: rewrite (src_notification_check_user_filters_eq eq_refl c x ty force reminder u has_p inside Hr Hp).
  all: unfold nf_passes, nf_type_eqb; xb_enums.
  all: generalize (nf_user_filters c x ty force u) (nf_mem (nfu_id u) npu) (Z.land 32 (nfu_types u))
                  (nf_api_state (nfc_svc c) (cx_raw x)) (nf_lns_get (nfu_id u) lns) (nfu_enable u) (cx_volatile x) (nfc_svc c); intros.
  all: destruct ty; cbn [nf_type_bit Z.eqb Pos.eqb negb andb]; xl_crush.
Qed.

(* ------------------------------------------------------------------ the reminder part of the timer handler *)
Lemma xb_mask_problem sp : negb (Z.land (nf_supp_mask sp) 32 =? 0) = sp_problem sp.
Proof. destruct sp as [[] [] [] []]; reflexivity. Qed.

Lemma xb_set_next_same s : nf_set_next s (nf_next s) = s.
Proof. destruct s; reflexivity. Qed.

Lemma src_timer_reminder_skipped_eq : src_timer_reminder_skipped_recognised = true ->
  forall c now x s ck_supp,
    negb (Z.land ck_supp 32 =? 0) = cx_ck_supp_problem x ->
    let '(skipped, next) :=
      src_timer_reminder_skipped now now (nfc_interval c) (nf_nomore s) (nf_next s) (if cx_hard x then f_StateTypeHard else f_StateTypeSoft)
        (nfc_svc c) (nf_api_state (nfc_svc c) (cx_raw x)) ck_supp (nf_supp_mask (nf_sup s)) (cx_reachable x) (cx_downtime x)
        (cx_acked x) (cx_flapping x) in
    nf_tick_rem c now x s =
    if skipped then (nf_set_next s next, [])
    else let '(s2, e) := nf_begin c now x NfProblem false true (nf_set_next s next) in (s2, [NfEvExec e]).
Proof.
  intro Hrec; xl_rec Hrec.
  all: intros c now x s ck_supp Hck; unfold src_timer_reminder_skipped, nf_tick_rem; xb_enums.
  all: rewrite Hck, (xb_mask_problem (nf_sup s)).
  all: change (sp_problem (nf_sup (nf_set_next s (now + nfc_interval c)))) with (sp_problem (nf_sup s)).
  all: destruct (nf_begin c now x NfProblem false true (nf_set_next s (now + nfc_interval c))) as [s2 e] eqn:Eb.
  all: generalize (cx_ck_supp_problem x) (sp_problem (nf_sup s)) (cx_reachable x) (cx_downtime x) (cx_acked x) (cx_flapping x) (nf_nomore s); intros.
  all: assert (Hh : forall z, ((if cx_hard x then 1 else 0) =? z) = if cx_hard x then z =? 1 else z =? 0) by (intro z; destruct (cx_hard x); lia).
  all: unfold nf_api_state; destruct (nfc_svc c), (cx_hard x); cbn [negb andb orb Z.eqb Pos.eqb];
       xl_split; rewrite ?xb_set_next_same, ?Eb; try reflexivity; try lia.
Qed.

(* ------------------------------------------------------------------ the notification-level filters (gate) *)
Definition xb_some (o : option Z) : bool := match o with Some _ => true | None => false end.

Definition xb_gate_eqb (a b : nf_gate) : bool :=
  match a, b with
  | NfGo, NfGo | NfGPeriod, NfGPeriod | NfGBegin, NfGBegin | NfGEnd, NfGEnd | NfGType, NfGType | NfGState, NfGState => true
  | _, _ => false
  end.

(* what nf_begin does when the gate stops the call, on the attributes the region writes
   (left early?, suppressed_notifications, next_notification, no_more_notifications, notified_problem_users cleared?) *)
Definition xb_gate_res (c : nf_cfg) (now : Z) (x : nf_ctx) (ty : nf_type) (force reminder : bool) (s : nf_state)
  : bool * nf_supp * Z * bool * bool :=
  match nf_pre c now x ty force with
  | NfGo => (false, nf_sup s, nf_next s, nf_nomore s, false)
  | NfGPeriod => (true, if negb reminder && nf_supp_type ty then nf_supp_add (nf_sup s) ty else nf_sup s, nf_next s, nf_nomore s, false)
  | NfGBegin => (true, nf_sup s, cx_lhsc x + nf_opt_val (nfc_begin c) + 1, false, false)
  | NfGEnd | NfGState => (true, nf_sup s, nf_next s, nf_nomore s, false)
  | NfGType => (true, nf_sup s, nf_next s,
                if nf_type_eqb ty NfRecovery && (nfc_interval c <=? 0) then false else nf_nomore s, nf_type_eqb ty NfRecovery)
  end.

Lemma xb_gate_begin c now x ty force reminder s :
  let '(lft, sup, next, nomore, clr) := xb_gate_res c now x ty force reminder s in
  let s' := fst (nf_begin c now x ty force reminder s) in
  lft = negb (xb_gate_eqb (nf_pre c now x ty force) NfGo) /\
  (lft = true ->
     nf_sup s' = sup /\ nf_next s' = next /\ nf_nomore s' = nomore /\ nf_npu s' = (if clr then [] else nf_npu s) /\
     ne_reached (snd (nf_begin c now x ty force reminder s)) = false /\ ne_sent (snd (nf_begin c now x ty force reminder s)) = []).
Proof.
  unfold xb_gate_res, nf_begin.
  destruct (nf_pre c now x ty force); cbn [xb_gate_eqb negb fst snd]; (split; [reflexivity|]); try discriminate; intros _.
  all: destruct (nf_type_eqb ty NfRecovery); try (destruct (negb reminder && nf_supp_type ty));
       try (destruct (nfc_interval c <=? 0)); cbn [andb]; repeat split.
Qed.

Definition xb_gate_enc (r : bool * nf_supp * Z * bool * bool) : bool * Z * Z * bool * list xb_ev :=
  let '(lft, sup, next, nomore, clr) := r in (lft, nf_supp_mask sup, next, nomore, if clr then [XbClearNpu] else []).

Lemma src_begin_gate_eq : src_begin_gate_recognised = true -> src_service_state_to_filter_recognised = true ->
  src_host_state_to_filter_recognised = true ->
  forall c now x ty force reminder s has_p inside,
    0 <= cx_raw x <= 3 -> cx_per_closed x = has_p && negb inside ->
    src_begin_gate (nf_type_bit ty) force reminder has_p inside now true (xb_some (nfc_begin c)) (nf_opt_val (nfc_begin c))
      (xb_some (nfc_end c)) (nf_opt_val (nfc_end c)) (cx_lhsc x) (nfc_types c) (nfc_interval c) (nfc_svc c)
      (nf_api_state (nfc_svc c) (cx_raw x)) (nfc_states c) (nf_supp_mask (nf_sup s)) (nf_next s) (nf_nomore s)
    = xb_gate_enc (xb_gate_res c now x ty force reminder s).
Proof.
  intro Hrec; xl_rec Hrec. all: intro Hrec; xl_rec Hrec. all: intro Hrec; xl_rec Hrec.
  all: intros c now x ty force reminder s has_p inside Hr Hp.
  all: unfold src_begin_gate, xb_gate_enc, xb_gate_res, nf_pre; rewrite Hp.
  all: destruct force; [reflexivity|]; cbn [negb].
  all: destruct (has_p && negb inside).
  (* period closed: the stash computation, on every type and every mask *)
  all: [> destruct reminder, ty, (nf_sup s) as [[] [] [] []]; vm_compute; reflexivity | ].
  (* period open: times window, type filter, state filter *)
  all: unfold nf_passes, nf_type_eqb, nf_opt_active; rewrite xn_u64_bit.
  all: destruct (nfc_svc c) eqn:Hsvc; cbv beta iota zeta.
  all: change (nf_api_state true (cx_raw x)) with (cx_raw x).
  all: rewrite ?(src_service_state_to_filter_eq eq_refl _ Hr), ?(src_host_state_to_filter_eq eq_refl), ?xn_u64_state_bit.
  all: generalize (Z.land (nf_type_bit ty) (nfc_types c)) (Z.land (nf_state_bit true (cx_raw x)) (nfc_states c))
                  (Z.land (nf_state_bit false (cx_raw x)) (nfc_states c)); intros tl sl1 sl2.
  all: xb_enums.
  all: destruct (nfc_begin c) as [b|], (nfc_end c) as [e|]; cbn [xb_some nf_opt_val negb andb].
  all: destruct ty; cbn [nf_type_bit Z.eqb Pos.eqb negb andb app]; xl_crush.
Qed.

(* the gate region against nf_begin itself: it is left early exactly when nf_pre stops the call, and then the attributes it
   wrote are those of the state nf_begin returns (and no user is notified) *)
Lemma src_begin_gate_nf_begin : src_begin_gate_recognised = true -> src_service_state_to_filter_recognised = true ->
  src_host_state_to_filter_recognised = true ->
  forall c now x ty force reminder s has_p inside,
    0 <= cx_raw x <= 3 -> cx_per_closed x = has_p && negb inside ->
    let '(lft, supp, next, nomore, evs) :=
      src_begin_gate (nf_type_bit ty) force reminder has_p inside now true (xb_some (nfc_begin c)) (nf_opt_val (nfc_begin c))
        (xb_some (nfc_end c)) (nf_opt_val (nfc_end c)) (cx_lhsc x) (nfc_types c) (nfc_interval c) (nfc_svc c)
        (nf_api_state (nfc_svc c) (cx_raw x)) (nfc_states c) (nf_supp_mask (nf_sup s)) (nf_next s) (nf_nomore s) in
    let r := nf_begin c now x ty force reminder s in
    lft = negb (xb_gate_eqb (nf_pre c now x ty force) NfGo) /\
    (lft = true ->
       nf_supp_mask (nf_sup (fst r)) = supp /\ nf_next (fst r) = next /\ nf_nomore (fst r) = nomore /\
       nf_npu (fst r) = (match evs with [] => nf_npu s | _ => [] end) /\ ne_reached (snd r) = false /\ ne_sent (snd r) = []).
Proof.
  intros H1 H2 H3 c now x ty force reminder s has_p inside Hr Hp.
  rewrite (src_begin_gate_eq H1 H2 H3 c now x ty force reminder s has_p inside Hr Hp).
  pose proof (xb_gate_begin c now x ty force reminder s) as G.
  destruct (xb_gate_res c now x ty force reminder s) as [[[[l sp] nx] nm] clr]. cbn [xb_gate_enc].
  destruct G as [G1 G2]. split; [exact G1|]. intro Hl. destruct (G2 Hl) as (A & B & C & D & E & F).
  rewrite A, B, C, D, E, F. destruct clr; repeat split.
Qed.
