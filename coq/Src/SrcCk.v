(* Equivalence of the TRANSLATED C++ decision functions (coq/Facts/Facts_fn_ck.v, regenerated from /repo on every
   run by tools/facts_fn.py + tools/cxx2coq.py) with the hand-written model functions the C01/C02/C05/C06
   property theorems rest on (Ck/CkState.v, Ck/CkFull.v).

   Every lemma is guarded by `src_<fn>_recognised = true`: an unrecognised shape leaves the lemma trivially
   true (the function is then tied to the model by the correspondence run only); a recognised shape that no
   longer equals the model makes the proof - and with it this file and Properties_<ID>_src.v - fail.
   The proofs are by case analysis on the boolean atoms + lia (xl_crush), never by syntactic equality of the
   bodies, so harmless rewrites of the C++ keep them valid. *)
From Icv Require Import Base.Tac Src.XlPrelude Ck.CkState Ck.CkFull Facts.Facts_enums Facts.Facts_fn_enums Facts.Facts_fn_ck.
Local Open Scope Z_scope.

(* ------------------------------------------------------------------ C01: state predicates *)

Lemma src_host_calculate_state_eq : src_host_calculate_state_recognised = true ->
  forall s, src_host_calculate_state (sstate_num s) = if host_up s then f_HostUp else f_HostDown.
Proof. intro Hrec; xl_rec Hrec. all: intros s; destruct s; vm_compute; reflexivity. Qed.

Lemma src_host_is_state_ok_eq : src_host_is_state_ok_recognised = true ->
  forall s, src_host_is_state_ok (sstate_num s) = is_ok KHost s.
Proof. intro Hrec; xl_rec Hrec. all: intros s; destruct s; vm_compute; reflexivity. Qed.

Lemma src_service_is_state_ok_eq : src_service_is_state_ok_recognised = true ->
  forall s, src_service_is_state_ok (sstate_num s) = is_ok KService s.
Proof. intro Hrec; xl_rec Hrec. all: intros s; destruct s; vm_compute; reflexivity. Qed.

Definition xk_is_host (k : kind) : bool := match k with KHost => true | KService => false end.

Lemma src_checkable_is_state_ok_eq : src_checkable_is_state_ok_recognised = true ->
  forall k s, src_checkable_is_state_ok (xk_is_host k) (sstate_num s) = is_ok k s.
Proof. intro Hrec; xl_rec Hrec. all: intros k s; destruct k, s; vm_compute; reflexivity. Qed.

(* ------------------------------------------------------------------ C05: downtime predicates *)

(* the getters of a Downtime object, read off the model's record *)
Definition xdt {A} (f : Z -> bool -> Z -> Z -> Z -> Z -> A) (now : Z) (d : dt) : A :=
  f now (d_fixed d) (d_start d) (d_end d) (d_trigger d) (d_duration d).

Lemma src_downtime_is_in_effect_eq : src_downtime_is_in_effect_recognised = true ->
  forall now d, xdt src_downtime_is_in_effect now d = dt_in_effect now d.
Proof.
  intro Hrec; xl_rec Hrec.
  all: intros now d; unfold xdt, src_downtime_is_in_effect, dt_in_effect; xl_crush.
Qed.

Lemma src_downtime_is_triggered_eq : src_downtime_is_triggered_recognised = true ->
  forall now d, xdt src_downtime_is_triggered now d = dt_is_triggered now d.
Proof.
  intro Hrec; xl_rec Hrec.
  all: intros now d; unfold xdt, src_downtime_is_triggered, dt_is_triggered; xl_crush.
Qed.

Lemma src_downtime_is_expired_eq : src_downtime_is_expired_recognised = true ->
  forall now d, xdt src_downtime_is_expired now d = dt_is_expired now d.
Proof.
  intro Hrec; xl_rec Hrec.
  all: intros now d.
  all: pose proof (src_downtime_is_triggered_eq eq_refl now d) as Ht.
  all: pose proof (src_downtime_is_in_effect_eq eq_refl now d) as He.
  all: unfold xdt in *; unfold src_downtime_is_expired, dt_is_expired; rewrite Ht, He.
  all: generalize (dt_is_triggered now d) (dt_in_effect now d); xl_crush.
Qed.

Lemma src_downtime_can_be_triggered_eq : src_downtime_can_be_triggered_recognised = true ->
  forall now d, xdt src_downtime_can_be_triggered now d = dt_can_be_triggered now d.
Proof.
  intro Hrec; xl_rec Hrec.
  all: intros now d.
  all: pose proof (src_downtime_is_triggered_eq eq_refl now d) as Ht.
  all: pose proof (src_downtime_is_in_effect_eq eq_refl now d) as He.
  all: pose proof (src_downtime_is_expired_eq eq_refl now d) as Hx.
  all: unfold xdt in *; unfold src_downtime_can_be_triggered, dt_can_be_triggered; rewrite Ht, He, Hx.
  all: generalize (dt_is_triggered now d) (dt_in_effect now d) (dt_is_expired now d); xl_crush.
Qed.

(* Checkable::IsInDowntime / GetDowntimeDepth: loops over the downtimes; one iteration is compared with the model *)
Lemma src_checkable_is_in_downtime_eq : src_checkable_is_in_downtime_recognised = true ->
  forall now f, src_checkable_is_in_downtime now (f_dts f) = in_downtime now f.
Proof.
  intro Hrec; xl_rec Hrec.
  all: intros now f; unfold src_checkable_is_in_downtime, in_downtime.
  all: apply xl_for_exists_ext; intros d _.
  all: pose proof (src_downtime_is_in_effect_eq eq_refl now d) as He; unfold xdt in He; rewrite He.
  all: generalize (dt_in_effect now d); xl_crush.
Qed.

Lemma src_checkable_get_downtime_depth_eq : src_checkable_get_downtime_depth_recognised = true ->
  forall now f, src_checkable_get_downtime_depth now (f_dts f) = downtime_depth now f.
Proof.
  intro Hrec; xl_rec Hrec.
  all: intros now f; unfold src_checkable_get_downtime_depth, downtime_depth; cbv zeta.
  all: rewrite (xl_for_count_ext (dt_in_effect now)); [reflexivity|intros a d _].
  all: pose proof (src_downtime_is_in_effect_eq eq_refl now d) as He; unfold xdt in He; rewrite He.
  all: generalize (dt_in_effect now d); xl_crush.
Qed.

(* ------------------------------------------------------------------ C06: Checkable::GetAcknowledgement *)

(* the expiry test of the model's get_ack *)
Definition xack_expired (now : Z) (f : full) : bool :=
  negb (ackt_eqb (f_ack f) AckNone) && negb (f_ack_expiry f =? 0) && (f_ack_expiry f <? now).

(* value returned = the model's; ClearAcknowledgement("") is called (once) exactly when the model clears *)
Lemma src_checkable_get_acknowledgement_eq : src_checkable_get_acknowledgement_recognised = true ->
  forall now f,
    src_checkable_get_acknowledgement now (ackt_num (f_ack f)) (f_ack_expiry f)
    = (ackt_num (fst (fst (get_ack now f))), if xack_expired now f then [tt] else []) /\
    get_ack now f = if xack_expired now f then (AckNone, fst (clear_ack f), snd (clear_ack f)) else (f_ack f, f, []).
Proof.
  intro Hrec; xl_rec Hrec.
  all: intros now f; unfold src_checkable_get_acknowledgement, get_ack, xack_expired, ackt_eqb.
  all: change f_AcknowledgementNone with (ackt_num AckNone).
  all: destruct (f_ack f); cbn [ackt_num]; split; xl_crush.
Qed.

(* ------------------------------------------------------------------ C02: suppression-timer predicates *)

Lemma src_checkable_is_likely_to_be_checked_soon_eq : src_checkable_is_likely_to_be_checked_soon_recognised = true ->
  forall c now f,
    src_checkable_is_likely_to_be_checked_soon now (fc_active_checks c) (fc_check_interval c) (f_next_check f)
    = likely_checked_soon c now f.
Proof.
  intro Hrec; xl_rec Hrec.
  all: intros c now f; unfold src_checkable_is_likely_to_be_checked_soon, likely_checked_soon; xl_crush.
Qed.

(* Checkable::IsFlapping: the model's single switch stands for `enable_flapping && global enable_flapping` *)
Lemma src_checkable_is_flapping_eq : src_checkable_is_flapping_recognised = true ->
  forall c fl e g, fc_flap_enabled c = e && g ->
    src_checkable_is_flapping e g (fl_flapping fl) = is_flapping c fl.
Proof.
  intro Hrec; xl_rec Hrec.
  all: intros c fl e g H; unfold src_checkable_is_flapping, is_flapping; rewrite H; xl_crush.
Qed.

(* NotificationReasonApplies as FireSuppressedNotifications uses it (do_fire): Problem/Recovery follow the last
   check result, FlappingStart/End the flapping flag *)
Lemma src_checkable_notification_reason_applies_ck : src_checkable_notification_reason_applies_recognised = true ->
  forall k has_cr s fl,
    src_checkable_notification_reason_applies (ntype_num NProblem) (xk_is_host k) has_cr (sstate_num s) fl = has_cr && negb (is_ok k s) /\
    src_checkable_notification_reason_applies (ntype_num NRecovery) (xk_is_host k) has_cr (sstate_num s) fl = has_cr && is_ok k s /\
    src_checkable_notification_reason_applies (ntype_num NFlapStart) (xk_is_host k) has_cr (sstate_num s) fl = fl /\
    src_checkable_notification_reason_applies (ntype_num NFlapEnd) (xk_is_host k) has_cr (sstate_num s) fl = negb fl.
Proof.
  intro Hrec; xl_rec Hrec.
  all: intros k has_cr s fl; pose proof (src_checkable_is_state_ok_eq eq_refl k s) as Hok.
  all: unfold src_checkable_notification_reason_applies; cbn [ntype_num]; cbv zeta.
  all: rewrite Hok; generalize (is_ok k s); intro b.
  all: repeat split; destruct has_cr, b, fl; reflexivity.
Qed.

(* NotificationReasonSuppressed: the `supp` test of do_fire for state notifications, IsInDowntime for flapping ones *)
Lemma src_checkable_notification_reason_suppressed_ck : src_checkable_notification_reason_suppressed_recognised = true ->
  forall reach indt ack,
    src_checkable_notification_reason_suppressed (ntype_num NProblem) reach indt ack = negb reach || indt || ack /\
    src_checkable_notification_reason_suppressed (ntype_num NRecovery) reach indt ack = negb reach || indt || ack /\
    src_checkable_notification_reason_suppressed (ntype_num NFlapStart) reach indt ack = indt /\
    src_checkable_notification_reason_suppressed (ntype_num NFlapEnd) reach indt ack = indt.
Proof.
  intro Hrec; xl_rec Hrec.
  all: intros reach indt ack; repeat split; destruct reach, indt, ack; reflexivity.
Qed.

(* ------------------------------------------------------------------ C05 (stretch): Downtime::TriggerDowntime as a
   state-passing function: new trigger_time and the effects in program order.  One level of the model's trigger_dt:
   nothing happens unless dt_can_be_triggered; trigger_time is written only when it is 0; the clean-up timer is armed;
   every EXISTING downtime chained to this one is triggered with the same instant, in the order of `triggers';
   OnDowntimeTriggered comes last. *)
Lemma xl_for_append_ext : forall {A E R} (p : A -> bool) (g : A -> E) (body : list E -> A -> xl_ctl (list E) R) (l : list A) (acc : list E),
  (forall a x, In x l -> body a x = XlNext (if p x then a ++ [g x] else a)) ->
  xl_for body l acc = inl (acc ++ map g (filter p l)).
Proof.
  intros A E R p g body l; induction l as [|x t IH]; intros acc H; cbn [xl_for filter map].
  - rewrite app_nil_r; reflexivity.
  - rewrite (H acc x (or_introl eq_refl)). rewrite IH by (intros; apply H; right; assumption).
    destruct (p x); cbn [map]; [rewrite <- app_assoc|]; reflexivity.
Qed.

Lemma src_downtime_trigger_downtime_eq : src_downtime_trigger_downtime_recognised = true ->
  forall now d t (ex : Z -> bool),
    xdt src_downtime_trigger_downtime now d t (d_triggers d) ex
    = if dt_can_be_triggered now d
      then (if d_trigger d =? 0 then t else d_trigger d,
            XeArmCleanup :: map (fun c => XeTriggerChild c t) (filter ex (d_triggers d)) ++ [XeTriggered])
      else (d_trigger d, []).
Proof.
  intro Hrec; xl_rec Hrec.
  all: intros now d t ex; pose proof (src_downtime_can_be_triggered_eq eq_refl now d) as Hc.
  all: unfold xdt in *; unfold src_downtime_trigger_downtime; rewrite Hc; cbv zeta.
  all: destruct (dt_can_be_triggered now d); cbn [negb]; [|reflexivity].
  all: rewrite (xl_for_append_ext ex (fun c => XeTriggerChild c t)) by (intros a x _; generalize (ex x); xl_crush).
  all: cbn [app]; destruct (d_trigger d =? 0); reflexivity.
Qed.

(* ------------------------------------------------------------------ C01 (stretch): regions of Checkable::ProcessCheckResult
   translated as state-passing functions, against the model's step_accept:
   (1) lines "long attempt = 1; ... " up to "if (!reachable)": new state type, attempt counter and the recovery flag;
   (2) the stateChange computation; (3) the hardChange computation. *)
Definition xst_num (t : stype) : Z := match t with Soft => f_StateTypeSoft | Hard => f_StateTypeHard end.

Lemma src_pcr_state_type_attempt_eq : src_pcr_state_type_attempt_recognised = true ->
  forall c s r,
    src_pcr_state_type_attempt (xk_is_host (c_kind c)) (sstate_num (s_raw s)) (xst_num (s_type s)) (s_attempt s)
      (sstate_num (r_state r)) (c_max c) false (xst_num (s_type s))
    = (s_attempt (fst (step_accept c s r)), i_recovery (snd (step_accept c s r)), xst_num (s_type (fst (step_accept c s r)))).
Proof.
  intro Hrec; xl_rec Hrec.
  all: intros c s r; unfold src_pcr_state_type_attempt, step_accept.
  all: rewrite !(src_checkable_is_state_ok_eq eq_refl).
  all: generalize (is_ok (c_kind c) (r_state r)) (is_ok (c_kind c) (s_raw s)); intros okn oko.
  all: destruct (s_type s); cbn [stype_eqb xst_num]; unfold f_StateTypeSoft, f_StateTypeHard.
  all: destruct okn, oko; cbn; xl_crush.
Qed.

(* projections of step_accept that do not depend on the (type, attempt, recovery) triple *)
Lemma xsa_state_change : forall c s r,
  i_state_change (snd (step_accept c s r)) =
  match c_kind c with
  | KService => negb (sstate_eqb (s_raw s) (r_state r))
  | KHost => negb (Bool.eqb (host_up (s_raw s)) (host_up (r_state r)))
  end.
Proof.
  intros c s r; unfold step_accept.
  destruct (if is_ok (c_kind c) (r_state r) then _ else _) as [[ty att] rec]; reflexivity.
Qed.

Lemma xsa_hard_change : forall c s r,
  i_hard_change (snd (step_accept c s r)) =
  (stype_eqb (s_type (fst (step_accept c s r))) Hard && stype_eqb (s_type s) Soft)
  || (i_state_change (snd (step_accept c s r)) && stype_eqb (s_type s) Hard && stype_eqb (s_type (fst (step_accept c s r))) Hard).
Proof.
  intros c s r; unfold step_accept.
  destruct (if is_ok (c_kind c) (r_state r) then _ else _) as [[ty att] rec]; reflexivity.
Qed.

Lemma src_pcr_state_change_eq : src_pcr_state_change_recognised = true ->
  forall c s r,
    src_pcr_state_change (negb (xk_is_host (c_kind c))) (sstate_num (s_raw s)) (sstate_num (r_state r))
    = i_state_change (snd (step_accept c s r)).
Proof.
  intro Hrec; xl_rec Hrec.
  all: intros c s r; rewrite xsa_state_change; unfold src_pcr_state_change.
  all: destruct (c_kind c), (s_raw s), (r_state r); reflexivity.
Qed.

Lemma src_pcr_hard_change_eq : src_pcr_hard_change_recognised = true ->
  forall c s r,
    src_pcr_hard_change (i_state_change (snd (step_accept c s r))) (xst_num (s_type s)) (xst_num (s_type (fst (step_accept c s r))))
    = i_hard_change (snd (step_accept c s r)).
Proof.
  intro Hrec; xl_rec Hrec.
  all: intros c s r; rewrite xsa_hard_change; unfold src_pcr_hard_change.
  all: generalize (i_state_change (snd (step_accept c s r))) (s_type (fst (step_accept c s r))); intros sc ty.
  all: destruct (s_type s), ty, sc; reflexivity.
Qed.
