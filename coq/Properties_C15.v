(* C15 - the property theorems, nothing else.  Each is closed by [exact] of a lemma proved in Dsl/DslProofs.v.
   dsl_eval L g : L = per-loop iteration budget, g = remaining depth budget (300 - ScriptFrame::Depth). *)
From Coq Require Import ZArith List String Bool.
From Icv Require Import Dsl.DslDefs Dsl.DslOps Dsl.DslEval Dsl.DslProofs Dsl.DslMono Dsl.DslAcyclic Dsl.DslAcyclicEval Dsl.DslPrec Dsl.DslLoops.
From Icv Require Import Facts.Facts_c15.
Import ListNotations.
Local Open Scope string_scope.

(* evaluation is a function: the same program in the same environment yields the same result and store *)
Theorem C15_deterministic : forall L g fr st e r1 r2,
  dsl_eval L g fr st e = r1 -> dsl_eval L g fr st e = r2 -> r1 = r2.
Proof. exact dsl_deterministic. Qed.
Print Assumptions C15_deterministic.

(* fuel monotonicity: more loop budget never changes a result that is not "loop budget exhausted" - for ALL programs,
   frames, stores and depth budgets (lifted through every node, built-in and loop of dsl_eval in Dsl/DslMono.v) *)
Theorem C15_fuel_monotone : forall L1 L2 g fr st e, (L1 <= L2)%nat ->
  fst (dsl_eval L1 g fr st e) <> DrAbort DaFuel -> dsl_eval L2 g fr st e = dsl_eval L1 g fr st e.
Proof. exact dsl_fuel_monotone. Qed.
Print Assumptions C15_fuel_monotone.

(* loop-free evaluations never exhaust the loop budget.  With budget 0 every loop construct (while, for over an array,
   Array#map/filter/any/all, Array#reduce on a non-empty array) stops with DaFuel when it is ENTERED, so evaluation with L = 0
   detects loops; an evaluation that enters none yields the same result and store under every budget and never ends in
   DaFuel: fuel exhaustion is only the property's own exclusion (non-terminating / over-long loops). *)
Theorem C15_loops_need_budget :
  (forall ev fr st c b, dsl_while ev 0 fr st c b = (DrAbort DaFuel, st)) /\
  (forall ev fr st k l i b, dsl_for_arr ev 0 fr st k l i b = (DrAbort DaFuel, st)) /\
  (forall ev mode f l i st acc, dsl_iter ev mode f l 0 i st acc = (DrAbort DaFuel, st, acc, false)) /\
  (forall ev f l i acc st, dsl_reduce ev 0 f l i acc st = (DrAbort DaFuel, st)).
Proof. exact dsl_loops_need_budget. Qed.
Print Assumptions C15_loops_need_budget.

Theorem C15_loopfree_no_fuel : forall g fr st e,
  fst (dsl_eval 0 g fr st e) <> DrAbort DaFuel ->
  forall L, dsl_eval L g fr st e = dsl_eval 0 g fr st e /\ fst (dsl_eval L g fr st e) <> DrAbort DaFuel.
Proof. exact dsl_loopfree_no_fuel. Qed.
Print Assumptions C15_loopfree_no_fuel.

(* acyclic store => no DaCycle: for every program, frame, store and both budgets, an evaluation that ends in the abort
   DaCycle (the model's rendering of the recorded finding cyclic-traversal) ends with a store in which some container is
   reachable from itself; so if no container of the result store is reachable from itself, no structural traversal aborted *)
Theorem C15_cycle_abort_needs_cycle : forall L g fr st e,
  fst (dsl_eval L g fr st e) = DrAbort DaCycle -> exists v, dsl_cyclic (snd (dsl_eval L g fr st e)) v = true.
Proof. exact dsl_eval_cyc. Qed.
Print Assumptions C15_cycle_abort_needs_cycle.

Theorem C15_acyclic_no_cycle_abort : forall L g fr st e,
  (forall v, dsl_cyclic (snd (dsl_eval L g fr st e)) v = false) -> fst (dsl_eval L g fr st e) <> DrAbort DaCycle.
Proof. exact dsl_acyclic_no_cycle_abort. Qed.
Print Assumptions C15_acyclic_no_cycle_abort.

(* false && e, true || e, untaken branches: e is not evaluated, for every e including diverging/crashing ones *)
Theorem C15_short_circuit :
  (forall L g fr st a e va st1,
     dsl_eval L g fr st a = (DrVal va, st1) -> dsl_to_bool st1 va = false ->
     dsl_eval L (S g) fr st (DeAnd a e) = (DrVal va, st1)) /\
  (forall L g fr st a e va st1,
     dsl_eval L g fr st a = (DrVal va, st1) -> dsl_to_bool st1 va = true ->
     dsl_eval L (S g) fr st (DeOr a e) = (DrVal va, st1)) /\
  (forall L g fr st c t e e' cv st1,
     dsl_eval L g fr st c = (DrVal cv, st1) -> dsl_to_bool st1 cv = true ->
     dsl_eval L (S g) fr st (DeCond c t (Some e)) = dsl_eval L (S g) fr st (DeCond c t (Some e'))) /\
  (forall L g fr st c t t' f cv st1,
     dsl_eval L g fr st c = (DrVal cv, st1) -> dsl_to_bool st1 cv = false ->
     dsl_eval L (S g) fr st (DeCond c t f) = dsl_eval L (S g) fr st (DeCond c t' f)).
Proof. exact dsl_short_circuit. Qed.
Print Assumptions C15_short_circuit.

(* locals of a call live in a fresh dictionary; use() captures by value at definition time; later assignments to
   the local do not reach the function object *)
Theorem C15_scoping :
  (forall ev st l self args params closed body,
     dsl_sget st l = Some (DoFun params closed body) -> (List.length params <= List.length args)%nat ->
     dsl_call_user ev st l self args =
       dsl_fun_result (ev {| dfr_locals := List.length st; dfr_self := self |}
                          (st ++ [DoDict (dsl_bind_args params args (dsl_dmerge closed []))])%list body)) /\
  (forall L g fr st x v ps body,
     dsl_dget x (dsl_kv st (dfr_locals fr)) = Some v ->
     dsl_eval L (S (S g)) fr st (DeFunc ps [(x, DeVar x)] body) =
       (DrVal (DvFun (List.length st)), (st ++ [DoFun ps [(x, v)] body])%list)) /\
  (forall fr st k v l, l <> dfr_locals fr -> dsl_sget (dsl_set_local fr st k v) l = dsl_sget st l).
Proof. exact dsl_scoping. Qed.
Print Assumptions C15_scoping.

(* depth: with no budget left every expression is Err StackOverflow; g nested nodes around ANY expression exhaust a
   budget of g.  dsl_eval is defined by structural recursion on g, so no evaluation nests more than
   dsl_depth_limit + 1 = 301 frames; only loop iterations (budget L, abort DaFuel) are not bounded by g. *)
Theorem C15_depth :
  (forall L fr st e, dsl_eval L 0 fr st e = (DrErr DkStack, st)) /\
  (forall L g fr st e, dsl_eval L g fr st (dsl_nest_not g e) = (DrErr DkStack, st)) /\
  (forall L g fr st e, dsl_eval L g fr st (dsl_nest_arr g e) = (DrErr DkStack, st)) /\
  (forall L g fr st e, dsl_eval L g fr st (dsl_nest_add g e) = (DrErr DkStack, st)).
Proof. exact dsl_depth. Qed.
Print Assumptions C15_depth.

(* the operator table is total; ill-typed applications are script errors *)
Theorem C15_total_errors :
  (forall st op a b, exists p st', dsl_binop_eval st op a b = (p, st')) /\
  (forall st op a b, dsl_is_numop op = true -> dsl_numguard a b = false -> dsl_binop_eval st op a b = (PrErr DkType, st)) /\
  (forall st a b, dsl_is_empty b = true \/ dsl_is_num b = false -> dsl_binop_eval st DbDiv a b = (PrErr DkType, st)) /\
  (forall st a m e, (dsl_is_empty a || dsl_is_num a) = true -> m = 0%Z -> dsl_binop_eval st DbDiv a (DvNum m e) = (PrErr DkRange, st)) /\
  (forall ge a b, (dsl_is_str a && dsl_is_str b) = false ->
     ((dsl_is_num a || dsl_is_empty a) && (dsl_is_num b || dsl_is_empty b) && negb (dsl_is_empty a && dsl_is_empty b)) = false ->
     dsl_vle ge a b = CrErr).
Proof. exact dsl_total_errors. Qed.
Print Assumptions C15_total_errors.

Theorem C15_operator_laws :
  (forall st a b r, fst (dsl_binop_eval st DbEq a b) = PrVal (DvBool r) -> fst (dsl_binop_eval st DbNe a b) = PrVal (DvBool (negb r))) /\
  (forall st l, fst (dsl_binop_eval st DbEq (DvArr l) (DvArr l)) = PrVal (DvBool true)) /\
  (forall st l1 l2, fst (dsl_binop_eval st DbEq (DvDict l1) (DvDict l2)) = PrVal (DvBool (Nat.eqb l1 l2))) /\
  (forall st s1 s2, (String.length s1 + String.length s2 <= dsl_size_cap)%nat -> s1 <> "" ->
     dsl_binop_eval st DbAdd (DvStr s1) (DvStr s2) = (PrVal (DvStr (s1 ++ s2)), st)) /\
  (forall st, dsl_binop_eval st DbAdd DvEmpty DvEmpty = (PrErr DkType, st)).
Proof. exact dsl_laws. Qed.
Print Assumptions C15_operator_laws.

(* the remaining recorded finding that the model can express: the faithful model leaves the property exactly here (explicit abort) *)
Theorem C15_cyclic_traversal_refuted :
  fst (dsl_run 400 dsl_prog_cyclic) = DrAbort DaCycle /\ fst (dsl_run 400 dsl_prog_cyclic_tostring) = DrAbort DaCycle.
Proof. exact dsl_cyclic_refuted. Qed.
Print Assumptions C15_cyclic_traversal_refuted.

(* operator precedence: the grammar's %left/%right/%nonassoc declarations (config_parser.yy), the documented operator table
   (doc/17-language-reference.md) and the table of the generator's minimal-parenthesis printer - all regenerated into
   Facts_c15.v on every run - agree on every binary operator of the grammar: documented level = printer level, %nonassoc exactly
   on the printer's non-associative levels and %left elsewhere; for every pair of operators "binds tighter in the
   documentation" <-> "declared later in the grammar", equal level <-> same declaration line.  (That bison resolves all
   conflicts of these operators by the declarations alone is compared by the differential run, not proved.) *)
Theorem C15_precedence_tables_agree :
  (forall op, In op dsl_binops ->
     exists i a d, dsl_yacc op = Some (i, a) /\ dsl_doc_bin op = Some d /\ dsl_printer_lv op = Some d /\
                   (a = 2%Z <-> In d f_c15_printer_nonassoc) /\ (a = 0%Z \/ a = 2%Z)) /\
  (forall o1 o2, In o1 dsl_binops -> In o2 dsl_binops ->
     forall i1 a1 i2 a2 d1 d2, dsl_yacc o1 = Some (i1, a1) -> dsl_yacc o2 = Some (i2, a2) -> dsl_doc_bin o1 = Some d1 -> dsl_doc_bin o2 = Some d2 ->
     ((d1 < d2)%Z <-> (i2 < i1)%nat) /\ (d1 = d2 <-> i1 = i2)).
Proof. exact dsl_prec_tables_agree. Qed.
Print Assumptions C15_precedence_tables_agree.

(* ... including: 20 binary operators; the prefix operators (logical and bitwise negation, unary minus and plus, reference and
   dereference) bind tighter than every binary operator and looser than the postfix member access, call and index operators;
   the ternary operator binds looser than every binary operator and is right associative *)
Theorem C15_precedence_consistent : dsl_prec_consistent = true.
Proof. exact dsl_prec_consistent_true. Qed.
Print Assumptions C15_precedence_consistent.

(* the two findings of the widened language that the model could express, fixed in /repo (9625736: a `using` import that evaluates
   to null and is reached by a lookup is a script error; b5e2da1: intersection() writes every step into a fresh array): the model
   follows the fixed code, the former witnesses are ordinary programs now *)
Theorem C15_null_import_fixed :
  fst (dsl_run 400 dsl_prog_null_import) = DrErr DkType /\
  dsl_observe (dsl_run 400 dsl_prog_null_import_unreached) = ["4"; "{}"; "{""a"":4}"; "{}"].
Proof. exact dsl_null_import_fixed. Qed.
Print Assumptions C15_null_import_fixed.

Theorem C15_intersection_alias_fixed :
  dsl_observe (dsl_run 400 dsl_prog_isect_alias) = ["[-5]"; "{}"; "{}"; "{}"] /\
  dsl_observe (dsl_run 400 dsl_prog_isect_ok) = ["[2,3]"; "{}"; "{}"; "{}"].
Proof. exact dsl_isect_alias_fixed. Qed.
Print Assumptions C15_intersection_alias_fixed.

(* the three operators/methods fixed in /repo (9eeddcb array - null, 150ea79 %, 2c1ef52 Array#map/filter/any/all):
   the model follows the fixed code; the former crash witnesses are ordinary programs now *)
Theorem C15_fixed_operators :
  (forall st l, dsl_binop_eval st DbSub (DvArr l) DvEmpty = (PrVal (DvArr (List.length st)), (st ++ [DoArr (dsl_arr st l)])%list)) /\
  (forall st x, dsl_binop_eval st DbMod (DvNum x 0) (DvNum 1 1) = (PrErr DkRange, st) \/
                exists a, dsl_binop_eval st DbMod (DvNum x 0) (DvNum 1 1) = (PrAbort a, st)).
Proof. exact dsl_fixed_ops. Qed.
Print Assumptions C15_fixed_operators.

Theorem C15_fixed_witnesses :
  dsl_observe (dsl_run 400 dsl_prog_minus_null) = ["[1]"; "{}"; "{}"; "{}"] /\
  fst (dsl_run 400 dsl_prog_mod_fraction) = DrErr DkRange /\
  dsl_observe (dsl_run 400 dsl_prog_iter) = ["[null,null,null]"; "{}"; "{""a"":[1,1,1]}"; "{}"].
Proof. exact dsl_fixed_witnesses. Qed.
Print Assumptions C15_fixed_witnesses.

(* loops whose body changes what is being iterated (VMOps::For).  `for (k => v in c)` over a dictionary (isns = false) or a
   namespace (isns = true), for EVERY body, frame, store and budgets - i.e. whatever the body does to c (add, remove, replace,
   clear, rebind the variable, directly or through aliases and calls).  [run] is the loop function paired with the list of its body
   evaluations (key bound, value bound, store the body started in, outcome of the body); its first component is the evaluator's result:
   (1) the key list is taken from the store right after the collection expression was evaluated;
   (2) the keys visited are a prefix of that list, in its order: a key added during the loop is never visited, none is visited twice;
   (3) if every body evaluation goes on (no break / return / error), ALL keys of the list are visited: the number of iterations equals the
       number of keys at entry - except that a namespace member removed meanwhile ends the loop with a script error at its turn;
   (4) the value bound at an iteration is fetched from the container as it is at that iteration, after the key variable has been
       bound (dsl_for_chain): the value of the store the previous body left behind; for a dictionary a key that is gone yields null. *)
Theorem C15_for_dict_snapshot : forall L g fr st k v coll body l st1 (isns : bool),
  String.eqb v "" = false ->
  dsl_eval L g fr st coll = (DrVal (if isns then DvNs l else DvDict l), st1) ->
  let keys := map fst (dsl_kv st1 l) in
  let run := dsl_for_keys_run (dsl_eval L g) fr st1 k v l isns keys body in
  dsl_eval L (S g) fr st (DeFor k v coll body) = fst run /\
  (exists rest, keys = (map dsl_vi_key (snd run) ++ rest)%list) /\
  (Forall (fun vis => dsl_goes_on (dsl_vi_out vis) = true) (snd run) ->
     (map dsl_vi_key (snd run) = keys /\ List.length (snd run) = List.length (dsl_kv st1 l)) \/
     (isns = true /\ fst (fst run) = DrErr DkName)) /\
  dsl_for_chain (dsl_eval L g) fr k v l isns body st1 (snd run).
Proof. exact dsl_for_dict_snapshot. Qed.
Print Assumptions C15_for_dict_snapshot.

Theorem C15_for_dict_fetch_null : forall st l key,
  dsl_for_fetch false st l key = Some (match dsl_dget key (dsl_kv st l) with Some x => x | None => DvEmpty end).
Proof. exact dsl_for_fetch_dict. Qed.
Print Assumptions C15_for_dict_fetch_null.

(* `for (x in array)` is index based and snapshots nothing: round i (0, 1, 2, ...) runs iff i is below the length the array has at
   that moment and binds the element that is at index i at that moment (dsl_arr_chain); when the loop ends because the elements ran
   out, the number of rounds has reached the length the array has THEN (a body that keeps appending is a legal endless loop: loop
   budget), for every body *)
Theorem C15_for_array_live : forall L g fr st k coll body l st1,
  dsl_eval L g fr st coll = (DrVal (DvArr l), st1) ->
  let run := dsl_for_arr_run (dsl_eval L g) L fr st1 k l 0 body in
  dsl_eval L (S g) fr st (DeFor k "" coll body) = fst run /\
  dsl_arr_chain (dsl_eval L g) fr k l body st1 0 (snd run) /\
  (Forall (fun vis => dsl_goes_on (dsl_vi_out vis) = true) (snd run) -> fst (fst run) <> DrAbort DaFuel ->
     fst (fst run) = DrVal DvEmpty /\ (List.length (dsl_arr (snd (fst run)) l) <= List.length (snd run))%nat).
Proof. exact dsl_for_array_live. Qed.
Print Assumptions C15_for_array_live.

(* the callback-taking natives Array#map/filter/any/all/reduce (fix 2c1ef52) and while: the stop test reads the CURRENT length /
   re-evaluates the condition in the store the previous round left behind (the one-round equations are Dsl/DslLoops.v
   dsl_iter_round, dsl_reduce_round, dsl_while_round - the definitions unfolded once) *)
Theorem C15_callback_iteration_live :
  (forall ev mode f l L i st acc, (List.length (dsl_arr st l) <= i)%nat -> dsl_iter ev mode f l (S L) i st acc = (DrVal DvEmpty, st, acc, false)) /\
  (forall ev f l L i acc st, (List.length (dsl_arr st l) <= i)%nat -> dsl_reduce ev (S L) f l i acc st = (DrVal acc, st)) /\
  (forall ev f l L i acc st, (i < List.length (dsl_arr st l))%nat ->
     dsl_reduce ev (S L) f l i acc st =
     dsl_bind (dsl_callback ev st f [acc; nth i (dsl_arr st l) DvEmpty]) (fun r st1 => dsl_reduce ev L f l (S i) r st1)) /\
  (forall ev f l L i st acc, (i < List.length (dsl_arr st l))%nat ->
     dsl_iter ev DiMap f l (S L) i st acc =
     match dsl_callback ev st f [nth i (dsl_arr st l) DvEmpty] with
     | (DrVal r, st1) => dsl_iter ev DiMap f l L (S i) st1 (r :: acc)
     | (o, st1) => (o, st1, acc, false)
     end).
Proof. exact dsl_callback_iteration_live. Qed.
Print Assumptions C15_callback_iteration_live.

(* witnesses (also the non-vacuity of the loop theorems): the body adds keys after the current one / the loop walks `locals`,
   into which it binds its own variables / the body removes the current and a later key / the body appends to the array /
   a namespace member removed before its turn *)
Theorem C15_loop_witnesses :
  dsl_show_res (dsl_run 400 dsl_prog_for_adds) = "[1,2]" /\
  dsl_show_res (dsl_run 400 dsl_prog_for_locals) = "3" /\
  dsl_show_res (dsl_run 400 dsl_prog_for_removes) = "[[[""a"",1],[""b"",2],[""c"",null]],{}]" /\
  dsl_show_res (dsl_run 400 dsl_prog_for_arr_grows) = "[4,[1,2,1,2]]" /\
  fst (dsl_run 400 dsl_prog_for_ns_removed) = DrErr DkName.
Proof. exact dsl_loop_witnesses. Qed.
Print Assumptions C15_loop_witnesses.

(* the executable oracle run over implementation traces: accepts every model trace; for a program the model follows
   to the end (no abort: in particular none of the recorded crash classes, visible here as a hypothesis) it accepts
   ONLY the model's observation *)
Theorem C15_oracle_accepts_model : forall L prog, dsl_oracle L prog (dsl_observe (dsl_run L prog)) = true.
Proof. exact dsl_oracle_accepts_model. Qed.
Print Assumptions C15_oracle_accepts_model.

Theorem C15_oracle_sound : forall L prog obs,
  dsl_is_abort (dsl_run L prog) = false -> dsl_oracle L prog obs = true -> obs = dsl_observe (dsl_run L prog).
Proof. exact dsl_oracle_sound. Qed.
Print Assumptions C15_oracle_sound.

(* non-vacuity: a program with a closure, a loop and a method call that the model follows to the end *)
Example C15_nonvacuous :
  let prog := DeDict true
    [dsl_var "a" (DeArray [dsl_n 1; dsl_n 2]);
     dsl_var "f" (DeFunc ["x"] [("a", DeVar "a")] (DeDict true [dsl_method (DeVar "a") "add" [DeVar "x"]; DeReturn (dsl_method (DeVar "a") "len" [])]));
     DeFor "i" "" (DeArray [dsl_n 7]) (DeDict true [DeCall (DeVar "f") [DeVar "i"]]);
     DeAnd (DeLit (DvBool false)) (DeCall (DeVar "nosuchfunction") [])] in
  dsl_is_abort (dsl_run 400 prog) = false /\
  dsl_observe (dsl_run 400 prog) = ["false"; "{}"; "{""a"":[1,2,7],""f"":fn,""i"":7}"; "{}"].
Proof. vm_compute. split; reflexivity. Qed.

(* non-vacuity of the two new closure theorems: a loop-free program with closures, references, a namespace, typeof, union and
   Json that enters no loop (budget 0 suffices); a program whose result store is acyclic although it builds shared structure *)
Example C15_nonvacuous_loopfree :
  let prog := DeDict true
    [dsl_var "a" (dsl_n 3);
     dsl_var "p" (DeRef (DeVar "a"));
     DeSet DsAdd (DeDeref (DeVar "p")) (dsl_n 4);
     DeSet DsSet (DeIndex DeGlobals (dsl_s "Nx")) (DeNsDef (DeDict true [DeSet DsSet (DeVar "ka") (DeVar "len")]));
     DeArray [DeVar "a"; DeBin DbEq (DeCall (DeVar "typeof") [DeVar "a"]) (DeVar "Number");
              DeCall (DeVar "union") [DeArray [dsl_n 2; dsl_n 1]; DeArray [dsl_n 1]];
              dsl_method (DeVar "Json") "encode" [DeArray [DeVar "a"; dsl_s "x"]]]] in
  fst (dsl_run 0 prog) <> DrAbort DaFuel /\
  dsl_observe (dsl_run 0 prog) = ["[7,true,[1,2],""[7,\x22x\x22]""]"; "{}"; "{""a"":7,""p"":obj}"; "{""Nx"":ns}"].
Proof. vm_compute. split; [discriminate | reflexivity]. Qed.

Example C15_nonvacuous_acyclic :
  let prog := DeDict true
    [dsl_var "a" (DeArray [dsl_n 1]); dsl_var "b" (DeArray [DeVar "a"; DeVar "a"]);
     DeBin DbEq (DeVar "b") (DeArray [DeArray [dsl_n 1]; DeVar "a"])] in
  dsl_observe (dsl_run 400 prog) = ["true"; "{}"; "{""a"":[1],""b"":[[1],[1]]}"; "{}"] /\
  forallb (fun l => negb (dsl_cyclic (snd (dsl_run 400 prog)) (DvArr l)) && negb (dsl_cyclic (snd (dsl_run 400 prog)) (DvDict l))) (seq 0 12) = true.
Proof. vm_compute. split; reflexivity. Qed.
