(* C18, companion file - WHO is the user of a request and WHICH permission list decides it, over histories: ApiUser objects
   whose `permissions` attribute is assigned, restored, whose objects are deleted and (re-)created while the process runs,
   and keep-alive connections carrying different credentials over time - and nothing else.  Each theorem is closed by [exact]
   of a lemma proved in Perm/PmUsersProofs.v / Perm/PmUsersFacts.v and followed by Print Assumptions.  Model: Perm/PmUsers.v.
   The decision function of a request ([decide perms rq], e.g. pm_filter_targets with the handler's QueryDescription) is
   universally quantified: the theorems hold for every handler. *)
From Icv Require Import Base.Tac Perm.PmModel Perm.PmProofs Perm.PmObs Perm.PmUsers Perm.PmUsersProofs Perm.PmUsersFacts Facts.Facts_c18.
Local Open Scope Z_scope.

(* freshness.  For every configuration that reads the attribute on every call or drops its derived member in the setter
   (pmu_fresh), every initial world, every history [pre] of attribute / registry operations, permission-checked calls and
   connection requests: the answer to a permission-checked call for the user object [id] is [decide] applied to the list the
   object's `permissions` attribute holds NOW - [pmu_ops_only] replays the attribute operations of the history alone, so
   earlier requests (and how often, by whom, with which result) are no argument of the decision. *)
Theorem C18_uses_current_permissions : forall (R A : Type) (decide : list pm_entry -> R -> A) cfg,
  pmu_fresh cfg -> pmu_sticky cfg = false ->
  forall pre w k id rq, pmu_good cfg w ->
  pmu_run R A decide cfg (pre ++ [PmuEvDirect id rq]) w k =
  pmu_run R A decide cfg pre w k ++ [PmuAns (decide (pmu_perms_of (pmu_ops_only R pre (pmu_c w)) id) rq)].
Proof. exact pmu_uses_current_permissions. Qed.
Print Assumptions C18_uses_current_permissions.

(* "normalise once, never rebuild" is refuted: request, revoke, request again - the memoising configuration still grants,
   the current list does not, the tree's configuration refuses *)
Theorem C18_memo_without_invalidation_refuted :
  pmu_run pm_str bool pmu_x_decide {| pmu_memo := true; pmu_invalidate := false; pmu_sticky := false |} pmu_x_hist_memo
          (pmu_world0 pmu_x_core) (pmu_connect pmu_x_core None) = [PmuAns true; PmuAns true] /\
  pmu_x_decide (pmu_perms_of (pmu_ops_only pm_str pmu_x_hist_memo pmu_x_core) 0%nat) pmu_x_perm = false /\
  pmu_run pm_str bool pmu_x_decide {| pmu_memo := false; pmu_invalidate := false; pmu_sticky := false |} pmu_x_hist_memo
          (pmu_world0 pmu_x_core) (pmu_connect pmu_x_core None) = [PmuAns true; PmuAns false].
Proof. exact pmu_memo_without_invalidation_refuted. Qed.
Print Assumptions C18_memo_without_invalidation_refuted.

(* identity.  On a connection without a certificate user, after ANY history on which the connection is still open, the
   response to a request is determined by THAT request's Authorization header and the users registered now: 401 when
   GetByAuthHeader finds nobody, otherwise the decision on the current list of exactly the user it finds. *)
Theorem C18_identity_per_request : forall (R A : Type) (decide : list pm_entry -> R -> A) cfg,
  pmu_fresh cfg -> pmu_sticky cfg = false ->
  forall pre w k h rq close, pmu_good cfg w -> pmu_cuser k = None ->
  let c := pmu_ops_only R pre (pmu_c w) in
  pmu_open_after R A decide None pre (pmu_c w) (pmu_open k) = true ->
  pmu_run R A decide cfg (pre ++ [PmuEvReq h rq close]) w k =
  pmu_run R A decide cfg pre w k ++
    [match pmu_auth c h with None => Pmu401 | Some id => PmuAns (decide (pmu_perms_of c id) rq) end].
Proof. exact pmu_identity_per_request. Qed.
Print Assumptions C18_identity_per_request.

(* who GetByAuthHeader finds: `Basic`, user:password split at the first colon, a REGISTERED user of exactly that name, a
   non-empty password equal to the configured one - so 401 for no header, another scheme, no colon, an unknown or deleted
   user, an empty or wrong password *)
Theorem C18_authenticates_only_with_own_password : forall c h id, pmu_auth c h = Some id ->
  exists user pass r, h = PmuBasic (user ++ 58 :: pass) /\ pmu_find_name c user = Some id /\ pmu_get c id = Some r /\
    pass <> [] /\ pm_str_eqb pass (pmu_pass r) = true /\ ~ In 58 user.
Proof. exact pmu_auth_some. Qed.
Print Assumptions C18_authenticates_only_with_own_password.

(* the mixing rule: on a connection whose client certificate identified a user object (GetByClientCN at construction), every
   request is decided for THAT object on its current list, whatever Authorization header the request carries *)
Theorem C18_identity_certificate : forall (R A : Type) (decide : list pm_entry -> R -> A) cfg,
  pmu_fresh cfg -> pmu_sticky cfg = false ->
  forall pre w k u h rq close, pmu_good cfg w -> pmu_cuser k = Some u ->
  pmu_open_after R A decide (Some u) pre (pmu_c w) (pmu_open k) = true ->
  pmu_run R A decide cfg (pre ++ [PmuEvReq h rq close]) w k =
  pmu_run R A decide cfg pre w k ++ [PmuAns (decide (pmu_perms_of (pmu_ops_only R pre (pmu_c w)) u) rq)].
Proof. exact pmu_identity_certificate. Qed.
Print Assumptions C18_identity_certificate.

(* the code with its connection state and (possibly) a derived member = the reference semantics whose only state is the
   ApiUser objects, the certificate user and "still open" *)
Theorem C18_history_refines_stateless_reference : forall (R A : Type) (decide : list pm_entry -> R -> A) cfg,
  pmu_fresh cfg -> pmu_sticky cfg = false ->
  forall evs w k, pmu_good cfg w ->
  pmu_run R A decide cfg evs w k = pmu_ref R A decide (pmu_cuser k) evs (pmu_c w) (pmu_open k).
Proof. exact pmu_run_refines. Qed.
Print Assumptions C18_history_refines_stateless_reference.

(* "Basic credentials identify the peer of the connection" is refuted: a:p, then b:q, then a with a wrong password, then no
   header - the sticky configuration answers all four as a; the tree's configuration answers a, b, 401, closed *)
Theorem C18_sticky_identity_refuted :
  pmu_run pm_str bool pmu_x_decide {| pmu_memo := false; pmu_invalidate := false; pmu_sticky := true |} pmu_x_hist_sticky
          (pmu_world0 pmu_x_core) (pmu_connect pmu_x_core None) = [PmuAns true; PmuAns true; PmuAns true; PmuAns true] /\
  pmu_run pm_str bool pmu_x_decide {| pmu_memo := false; pmu_invalidate := false; pmu_sticky := false |} pmu_x_hist_sticky
          (pmu_world0 pmu_x_core) (pmu_connect pmu_x_core None) = [PmuAns true; PmuAns false; Pmu401; PmuClosed].
Proof. exact pmu_sticky_refuted. Qed.
Print Assumptions C18_sticky_identity_refuted.

(* the extracted oracle of the connection op accepts every answer of the reference semantics, for every per-request oracle
   [judge] that accepts the handler's own answers (for pm_oracle_q that is C18_oracle_accepts_model) *)
Theorem C18_oracle_identity_accepts_model : forall (R A : Type) (decide : list pm_entry -> R -> A)
  (O : Type) (judge : list pm_entry -> O -> bool) (obsf : A -> O),
  (forall perms rq, judge perms (obsf (decide perms rq)) = true) ->
  forall c cu h rq,
  pmu_oracle_req judge c cu h
    (match pmu_answer R A decide c cu h rq with PmuAns a => Some (obsf a) | _ => None end) = true.
Proof. exact pmu_oracle_req_accepts_model. Qed.
Print Assumptions C18_oracle_identity_accepts_model.

(* source facts: HasPermission reads user->GetPermissions() per call and ApiUser has no data member (pmu_memo = false);
   the user of a request is a local of the ProcessMessages loop and m_ApiUser is assigned in the constructor only
   (pmu_sticky = false).  Some false (recognisably the other shape) does not check; None = compared only. *)
Theorem C18_users_source_facts :
  pmu_memo_ok f_pm_perms_read_fresh pmu_cfg_tree /\ pmu_sticky_ok f_pm_auth_user_per_request pmu_cfg_tree /\
  pmu_fresh pmu_cfg_tree /\ pmu_sticky pmu_cfg_tree = false.
Proof. exact (conj (proj1 pmu_source_facts) (conj (proj2 pmu_source_facts) (conj (or_introl eq_refl) eq_refl))). Qed.
Print Assumptions C18_users_source_facts.

(* non-vacuity: a run of the tree's configuration - user a's call is granted, a's list is narrowed, the same call is refused,
   then user b's request on the connection is decided on b's list *)
Example C18_users_nonvacuous :
  pmu_run pm_str bool pmu_x_decide pmu_cfg_tree (pmu_x_hist_memo ++ [PmuEvReq (PmuBasic [98;58;113]) pmu_x_status false]) (pmu_world0 pmu_x_core)
          (pmu_connect pmu_x_core None) = [PmuAns true; PmuAns false; PmuAns true].
Proof. vm_compute. reflexivity. Qed.
