(* C19: the boolean premises of the theorems, evaluated over the facts table computed from the regenerated
   coq/Facts/Facts_c19.v.  Every lemma here is closed by computation against the CURRENT source facts: a source
   change that removes a guard, registers a non-pure function as side-effect-free, drops a callback test ...
   makes the corresponding lemma fail on the next run. *)
From Icv Require Import Base.Tac Sandbox.SbModel Sandbox.SbFacts Facts.Facts_c19.
From Coq Require Import NArith String.
Local Open Scope N_scope.

(* ---- the computed premises, discharged against the current source ---- *)
Lemma sb_cur_writers_guarded : sb_all_writers_guarded sb_cur_facts = true.
Proof. vm_compute. reflexivity. Qed.
Lemma sb_cur_safe_funcs_harmless : sb_safe_funcs_harmless sb_cur_facts = true.
Proof. vm_compute. reflexivity. Qed.
Lemma sb_cur_callbacks_guarded : sb_callbacks_guarded sb_cur_facts = true.
Proof. vm_compute. reflexivity. Qed.
Lemma sb_cur_containers_clean : sb_containers_clean sb_cur_facts = true.
Proof. vm_compute. reflexivity. Qed.
Lemma sb_cur_classes_covered : sb_classes_covered sb_cur_facts = true.
Proof. vm_compute. reflexivity. Qed.
Lemma sb_cur_call_guard : sbf_call_guard sb_cur_facts = true.
Proof. vm_compute. reflexivity. Qed.
Lemma sb_cur_getfield_checked : sbf_getfield_checked sb_cur_facts = true.
Proof. vm_compute. reflexivity. Qed.
Lemma sb_cur_ref_get_checked : sbf_ref_get_checked sb_cur_facts = true.
Proof. vm_compute. reflexivity. Qed.
Lemma sb_cur_frame_inherit : sbf_frame_inherit sb_cur_facts = true.
Proof. vm_compute. reflexivity. Qed.

(* the guard table is exactly the expected one: these and only these constructors refuse to run *)
Definition sb_expected_guarded : list sb_name :=
  [sb_n_Apply; sb_n_For; sb_n_ImportDefaultTemplates; sb_n_Import; sb_n_Include; sb_n_Library; sb_n_Object;
   sb_n_Set; sb_n_SetConst; sb_n_While].
Lemma sb_cur_guard_table :
  forallb (fun p => Bool.eqb (snd p) (sb_mem (fst p) sb_expected_guarded)) (sbf_exprs sb_cur_facts) = true.
Proof. vm_compute. reflexivity. Qed.

(* the frames the product creates for user supplied code: the filter frame and both event frames are
   sandboxed unconditionally, the console frames take the request parameter *)
Definition sb_frames_expected : bool :=
  forallb (fun p => let '(site, want) := p in
                    match find (fun q => String.eqb (fst q) site) f_sb_frames with
                    | Some q => String.eqb (snd q) want | None => false end)
    [("filterutility:2", "true"); ("eventqueue:1", "true"); ("eventqueue:2", "true");
     ("consolehandler:1", "sandboxed"); ("consolehandler:2", "sandboxed")]%string.
Lemma sb_cur_frames_sandboxed : sb_frames_expected = true.
Proof. vm_compute. reflexivity. Qed.

(* no function the harness cannot see is registered side-effect-free without the model knowing it *)
Lemma sb_pinned_setconst_unguarded : sb_lookupb sb_n_SetConst (sbf_exprs sb_pinned_facts) = false.
Proof. vm_compute. reflexivity. Qed.
