(* C19: the two recorded findings, exhibited on the model. *)
From Icv Require Import Base.Tac Sandbox.SbModel Sandbox.SbFacts Sandbox.SbProofs.
From Coq Require Import NArith String.
Local Open Scope N_scope.

Definition sb_n_F := Eval vm_compute in sb_enc "F".
Definition sb_n_TicketSalt := Eval vm_compute in sb_enc "TicketSalt".

(* the frame FilterUtility / EventQueue create: Self is a fresh namespace, no locals *)
Definition sb_filter_frame : sb_frame :=
  {| sbfr_sandboxed := true; sbfr_self := SbVObj sb_t_Namespace (SbLocal 0); sbfr_locals := None |}.
Definition sb_st0 (globals : sb_cell) : sb_st :=
  {| sbs_shared := [globals]; sbs_extern := []; sbs_local := [[]]; sbs_calls := []; sbs_reads := []; sbs_choices := [] |}.

(* F-C19-a: with the facts of the pinned tree (SetConstExpression::DoEvaluate without guard) the sandboxed
   program `const F = 5` changes the global namespace *)
Lemma sb_const_refuted :
  sb_protected (snd (sb_eval sb_pinned_facts 3 sb_filter_frame (SbSetConst sb_n_F (SbLiteral SbLNum)) (sb_st0 [])))
  <> sb_protected (sb_st0 []).
Proof. vm_compute. discriminate. Qed.

(* F-C19-c: a console handler that serialises the result with all fields hands back the password of an ApiUser
   the sandboxed expression merely returned (the expression itself read nothing) *)
Definition sb_t_ApiUser := Eval vm_compute in sb_enc "ApiUser".
Definition sb_n_password := Eval vm_compute in sb_enc "password".
Lemma sb_console_refuted :
  In (SbRdField sb_t_ApiUser sb_n_password)
     (sb_console_result sb_cur_facts true (SbVObj sb_t_ApiUser (SbShared 1))).
Proof. vm_compute. tauto. Qed.
Lemma sb_console_filtered F v : sb_console_result F false v = [].
Proof. destruct v; reflexivity. Qed.
