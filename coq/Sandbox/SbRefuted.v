(* C19: the two recorded findings, exhibited on the model. *)
From Icv Require Import Base.Tac Sandbox.SbModel Sandbox.SbFacts Sandbox.SbProofs.
From Coq Require Import NArith String.
Local Open Scope N_scope.

Definition sb_n_F := Eval vm_compute in sb_enc "F".
Definition sb_n_TicketSalt := Eval vm_compute in sb_enc "TicketSalt".

(* the frame FilterUtility / EventQueue create: Self is a fresh namespace, no locals *)
Definition sb_filter_frame : sb_frame :=
  {| sbfr_sandboxed := true; sbfr_top := true; sbfr_self := SbVObj sb_t_Namespace (SbLocal 0); sbfr_locals := None |}.
Definition sb_st0 (globals : sb_cell) : sb_st :=
  {| sbs_shared := [globals]; sbs_extern := []; sbs_local := [[]]; sbs_calls := []; sbs_reads := []; sbs_choices := [] |}.

(* F-C19-a: with the facts of the pinned tree (SetConstExpression::DoEvaluate without guard) the sandboxed
   program `const F = 5` changes the global namespace *)
Lemma sb_const_refuted :
  sb_protected (snd (sb_eval sb_pinned_facts 3 sb_filter_frame (SbSetConst sb_n_F (SbLiteral SbLNum)) (sb_st0 [])))
  <> sb_protected (sb_st0 []).
Proof. vm_compute. discriminate. Qed.

(* F-C19-c: a console handler that serialises the result with all fields hands back the password of an ApiUser
   the sandboxed expression merely returned (the expression itself read nothing) *)
Definition sb_t_ApiUser := Eval vm_compute in sb_enc "ApiUser".
Definition sb_n_password := Eval vm_compute in sb_enc "password".
Lemma sb_console_refuted :
  In (SbRdField sb_t_ApiUser sb_n_password)
     (sb_console_result sb_cur_facts true (SbVObj sb_t_ApiUser (SbShared 1))).
Proof. vm_compute. tauto. Qed.
Lemma sb_console_filtered F v : sb_console_result F false v = [].
Proof. destruct v; reflexivity. Qed.

(* seeded change "using": if VMOps::FindVarImport read through GetOwnField (fact [sbf_var_import_checked] = false), the
   sandboxed program `using <ApiUser object>; password` would fetch the password *)
Definition sb_facts_import_unchecked (F : sb_facts) : sb_facts :=
  {| sbf_exprs := sbf_exprs F; sbf_cond_guards := sbf_cond_guards F; sbf_funcs := sbf_funcs F; sbf_cbguards := sbf_cbguards F; sbf_hidden := sbf_hidden F;
     sbf_hidden_globals := sbf_hidden_globals F; sbf_call_guard := sbf_call_guard F;
     sbf_getfield_checked := sbf_getfield_checked F; sbf_ref_get_checked := sbf_ref_get_checked F;
     sbf_indexer_noinit := sbf_indexer_noinit F; sbf_frame_inherit := sbf_frame_inherit F;
     sbf_userfunc_unsafe := sbf_userfunc_unsafe F; sbf_var_import_checked := false; sbf_purity := sbf_purity F;
     sbf_ctor_global := sbf_ctor_global F |}.
Definition sb_n_u := Eval vm_compute in sb_enc "u".
Definition sb_using_prog : sb_expr := SbVariable sb_n_password [SbVariable sb_n_u []].
Definition sb_using_st : sb_st :=
  {| sbs_shared := [[(sb_n_u, SbVObj sb_t_ApiUser (SbShared 1))]; [(sb_n_password, SbVOpaque)]]; sbs_extern := [];
     sbs_local := [[]]; sbs_calls := []; sbs_reads := []; sbs_choices := [] |}.
Lemma sb_using_unchecked_leaks :
  sbs_reads (snd (sb_eval (sb_facts_import_unchecked sb_cur_facts) 4 sb_filter_frame sb_using_prog sb_using_st))
  = [SbRdField sb_t_ApiUser sb_n_password].
Proof. vm_compute. reflexivity. Qed.

(* seeded change "frame stack": with an unsandboxed frame above the user's frame ([sbfr_top] = false) the callback test of
   Array#map does not fire, and `[x].map(<unsafe native>)` invokes the unsafe function, which writes protected state *)
Definition sb_n_map := Eval vm_compute in sb_enc "map".
Definition sb_n_log := Eval vm_compute in sb_enc "System#log".
Definition sb_stack_prog : sb_expr :=
  SbFunctionCall (SbIndexer (SbArray [SbLiteral SbLNum]) (SbLiteral (SbLStr sb_n_map))) [SbVariable sb_n_log []].
Definition sb_stack_st : sb_st :=
  {| sbs_shared := [[(sb_n_log, SbVFun (SbNative sb_n_log))]]; sbs_extern := []; sbs_local := [[]]; sbs_calls := [];
     sbs_reads := []; sbs_choices := [] |}.
Definition sb_below_frame : sb_frame :=
  {| sbfr_sandboxed := true; sbfr_top := false; sbfr_self := SbVObj sb_t_Namespace (SbLocal 0); sbfr_locals := None |}.
Lemma sb_stack_unsandboxed_top_writes :
  sb_protected (snd (sb_eval sb_cur_facts 6 sb_below_frame sb_stack_prog sb_stack_st)) <> sb_protected sb_stack_st.
Proof. vm_compute. discriminate. Qed.

(* seeded change "intersection sorts its first argument in place": the mutation-capability analysis then no longer
   establishes System#intersection pure ([sbf_purity] = false for it); the model lets such a native write every shared
   cell reachable from its arguments, and the sandboxed program `intersection(SbArr, [ 1 ])` changes the global array *)
Definition sb_facts_purity (F : sb_facts) (n : sb_name) (b : bool) : sb_facts :=
  {| sbf_exprs := sbf_exprs F; sbf_cond_guards := sbf_cond_guards F; sbf_funcs := sbf_funcs F; sbf_cbguards := sbf_cbguards F; sbf_hidden := sbf_hidden F;
     sbf_hidden_globals := sbf_hidden_globals F; sbf_call_guard := sbf_call_guard F;
     sbf_getfield_checked := sbf_getfield_checked F; sbf_ref_get_checked := sbf_ref_get_checked F;
     sbf_indexer_noinit := sbf_indexer_noinit F; sbf_frame_inherit := sbf_frame_inherit F;
     sbf_userfunc_unsafe := sbf_userfunc_unsafe F; sbf_var_import_checked := sbf_var_import_checked F;
     sbf_purity := sb_set_assoc n b (sbf_purity F);
     sbf_ctor_global := sbf_ctor_global F |}.
Definition sb_facts_impure (F : sb_facts) (n : sb_name) : sb_facts := sb_facts_purity F n false.
Definition sb_n_intersection := Eval vm_compute in sb_enc "System#intersection".
Definition sb_n_isect := Eval vm_compute in sb_enc "intersection".
Definition sb_n_SbArr := Eval vm_compute in sb_enc "SbArr".
Definition sb_isect_prog : sb_expr :=
  SbFunctionCall (SbVariable sb_n_isect []) [SbVariable sb_n_SbArr []; SbArray [SbLiteral SbLNum]].
Definition sb_isect_st : sb_st :=
  {| sbs_shared := [[(sb_n_isect, SbVFun (SbNative sb_n_intersection)); (sb_n_SbArr, SbVObj sb_t_Array (SbShared 1))];
                    [(0, SbVStr 3); (1, SbVStr 1); (2, SbVStr 2)]];
     sbs_extern := []; sbs_local := [[]]; sbs_calls := []; sbs_reads := []; sbs_choices := [] |}.
Lemma sb_impure_native_writes_reachable :
  sb_reach sb_isect_st [SbVObj sb_t_Array (SbShared 1)] = [1%nat] /\
  nth 1 (sbs_shared (snd (sb_eval (sb_facts_impure sb_cur_facts sb_n_intersection) 6 sb_filter_frame sb_isect_prog sb_isect_st))) []
    <> nth 1 (sbs_shared sb_isect_st) [] /\
  sb_safe_funcs_harmless (sb_facts_impure sb_cur_facts sb_n_intersection) = false /\
  sb_protected (snd (sb_eval (sb_facts_purity sb_cur_facts sb_n_intersection true) 6 sb_filter_frame sb_isect_prog sb_isect_st))
    = sb_protected sb_isect_st.
Proof. vm_compute. repeat split; try reflexivity. discriminate. Qed.

(* finding "Application's destructor resets the process-global instance": VMOps::ConstructorCall has no sandbox test and
   Application::~Application() does `m_Instance = nullptr` unconditionally.  On facts that flag IcingaApplication
   ([sbf_ctor_global]) the sandboxed program `IcingaApplication()` - a filter any user with a query permission may send -
   changes the external (process-global) component; on facts that flag nothing it changes nothing.  The shared heap
   (values) is untouched either way: a value snapshot does not see the effect. *)
Definition sb_facts_ctor (F : sb_facts) (l : list sb_name) : sb_facts :=
  {| sbf_exprs := sbf_exprs F; sbf_cond_guards := sbf_cond_guards F; sbf_funcs := sbf_funcs F; sbf_cbguards := sbf_cbguards F; sbf_hidden := sbf_hidden F;
     sbf_hidden_globals := sbf_hidden_globals F; sbf_call_guard := sbf_call_guard F;
     sbf_getfield_checked := sbf_getfield_checked F; sbf_ref_get_checked := sbf_ref_get_checked F;
     sbf_indexer_noinit := sbf_indexer_noinit F; sbf_frame_inherit := sbf_frame_inherit F;
     sbf_userfunc_unsafe := sbf_userfunc_unsafe F; sbf_var_import_checked := sbf_var_import_checked F;
     sbf_purity := sbf_purity F; sbf_ctor_global := l |}.
Definition sb_t_IcingaApplication := Eval vm_compute in sb_enc "IcingaApplication".
Definition sb_ctor_prog : sb_expr := SbFunctionCall (SbVariable sb_t_IcingaApplication []) [].
Definition sb_ctor_st : sb_st := sb_st0 [(sb_t_IcingaApplication, SbVType sb_t_IcingaApplication)].
(* the types the recorded finding is about: a flagged type outside this list is a NEW defect, not the known one *)
Definition sb_known_ctor_global : list sb_name := [sb_t_IcingaApplication].
Lemma sb_ctor_refuted :
  let s' := snd (sb_eval (sb_facts_ctor sb_cur_facts [sb_t_IcingaApplication]) 4 sb_filter_frame sb_ctor_prog sb_ctor_st) in
  sbs_extern s' = [sb_t_IcingaApplication] /\ sbs_shared s' = sbs_shared sb_ctor_st /\
  sb_protected s' <> sb_protected sb_ctor_st /\
  (exists v, fst (sb_eval (sb_facts_ctor sb_cur_facts [sb_t_IcingaApplication]) 4 sb_filter_frame sb_ctor_prog sb_ctor_st) = SbROk v) /\
  sb_no_global_ctor (sb_facts_ctor sb_cur_facts [sb_t_IcingaApplication]) = false.
Proof. vm_compute. repeat split; try reflexivity; [discriminate|eexists; reflexivity]. Qed.
Lemma sb_ctor_fixed :
  sb_protected (snd (sb_eval (sb_facts_ctor sb_cur_facts []) 4 sb_filter_frame sb_ctor_prog sb_ctor_st)) = sb_protected sb_ctor_st /\
  sb_no_global_ctor (sb_facts_ctor sb_cur_facts []) = true.
Proof. vm_compute. split; reflexivity. Qed.
