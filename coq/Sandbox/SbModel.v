(* C19 - sandboxed evaluation: effect-level big-step semantics of the configuration language.

   One AST constructor per Expression subclass of lib/config/expression.hpp.  The store is split into a
   PROTECTED component (shared heap: cell 0 is the global namespace, further cells are namespaces reachable
   from it, config objects and containers reachable from those; plus [sbs_extern]: files, config item
   registry, apply rules) and a frame-LOCAL component (objects allocated during this evaluation).
   A reference says which component it points into ([SbShared]/[SbLocal]); values carry their dynamic type.

   What is NOT modelled: the values computed by operators and pure builtins (they are [SbVOpaque] or taken
   from the choice stream [sbs_choices], an explicit input, so every theorem quantifies over all of them).

   The guard bit per constructor, the side-effect-free bit per function, the callback guards of the
   higher-order builtins, the no_user_view table and the structural facts come from [sb_facts], which
   Sandbox/SbFacts.v fills from the regenerated coq/Facts/Facts_c19.v.  No proofs in this file. *)
From Icv Require Import Base.Tac.
From Coq Require Import NArith String Ascii.
Local Open Scope N_scope.

Definition sb_name := N.

(* names are the base-256 numbers of their ASCII spelling (keeps Coq's [string] out of the extraction) *)
Fixpoint sb_enc_aux (s : String.string) (acc : N) : N :=
  match s with String.EmptyString => acc | String.String c r => sb_enc_aux r (acc * 256 + Ascii.N_of_ascii c) end.
Definition sb_enc (s : String.string) : N := sb_enc_aux s 0.
Definition sb_nbytes (n : N) : N := (N.size n + 7) / 8.
(* "T#f" *)
Definition sb_join (t f : sb_name) : sb_name := N.shiftl (t * 256 + 35) (8 * sb_nbytes f) + f.

(* A sandbox guard that carries a FURTHER condition (`if (frame.Sandboxed && <cond>) throw`) is not a guard, unless the
   model understands the condition.  The one kind of condition it understands: a flag of the node that says "this
   SetExpression is a direct member of a dictionary literal" (the parser ran BindToScope(.., ScopeThis) over it). *)
Inductive sb_gcond := SbGcUnlessMember | SbGcIfMember.

Record sb_facts := {
  sbf_exprs : list (sb_name * bool);          (* class -> DoEvaluate begins with the UNCONDITIONAL sandbox guard `if (frame.Sandboxed) throw` *)
  sbf_cond_guards : list (sb_name * sb_gcond);(* class -> DoEvaluate begins with a sandbox guard with a further condition the model understands *)
  sbf_funcs : list (sb_name * bool);          (* registered function -> side-effect-free *)
  sbf_cbguards : list (sb_name * bool);       (* native invoking a Function argument -> tests it first *)
  sbf_hidden : list (sb_name * sb_name);      (* (type, field) no_user_view *)
  sbf_hidden_globals : list sb_name;
  sbf_call_guard : bool;                      (* FunctionCall: whitelist check in front of the call *)
  sbf_getfield_checked : bool;                (* GetField sites pass frame.Sandboxed and GetFieldByName checks FANoUserView *)
  sbf_ref_get_checked : bool;                 (* Reference::Get reads with sandboxed = true *)
  sbf_indexer_noinit : bool;                  (* IndexerExpression::GetReference never auto-creates in sandbox *)
  sbf_frame_inherit : bool;                   (* nested frames inherit Sandboxed *)
  sbf_userfunc_unsafe : bool;                 (* script-defined functions are not side-effect-free *)
  sbf_var_import_checked : bool;              (* FindVarImport (bare identifier via a `using` import) reads through the checking GetField *)
  sbf_purity : list (sb_name * bool);         (* registered function -> the mutation-capability analysis of its C++ body (tools/c19_purity.py)
                                                 located every definition and found no use that can modify pre-existing state *)
  sbf_ctor_global : list sb_name              (* non-abstract types with a constructor / destructor (own or inherited) whose body writes a static,
                                                 process-global datum unconditionally: VMOps::ConstructorCall has no sandbox test, so a sandboxed
                                                 expression can construct - and thereby destroy - a temporary of such a type *)
}.

(* ------------------------------------------------------------------ syntax *)
Inductive sb_binop := SbAdd | SbSubtract | SbMultiply | SbDivide | SbModulo | SbXor | SbBinaryAnd | SbBinaryOr
  | SbShiftLeft | SbShiftRight | SbEqual | SbNotEqual | SbLessThan | SbGreaterThan | SbLessThanOrEqual
  | SbGreaterThanOrEqual.
Inductive sb_scope := SbScopeLocal | SbScopeThis | SbScopeGlobal.
Inductive sb_lit := SbLEmpty | SbLBool (b : bool) | SbLNum | SbLStr (s : sb_name).

Inductive sb_expr :=
| SbLiteral (l : sb_lit)
| SbVariable (n : sb_name) (imports : list sb_expr)   (* imports: the `using` expressions in scope (+ the built-in ones) *)
| SbGetScope (sc : sb_scope)
| SbRef (e : sb_expr)
| SbDeref (e : sb_expr)
| SbNegate (e : sb_expr)
| SbLogicalNegate (e : sb_expr)
| SbBinary (op : sb_binop) (a b : sb_expr)
| SbIn (a b : sb_expr)
| SbNotIn (a b : sb_expr)
| SbLogicalAnd (a b : sb_expr)
| SbLogicalOr (a b : sb_expr)
| SbFunctionCall (f : sb_expr) (args : list sb_expr)
| SbArray (es : list sb_expr)
| SbDict (inline : bool) (es : list sb_expr)
| SbSet (member : bool) (combined : bool) (lhs rhs : sb_expr)
    (* member: the node is a direct member of a dictionary literal - BindToScope(.., ScopeThis) has visited it, see
       [sb_bind_scope]; combined: `+=`, `-=`, ... (the old value is read first) *)
| SbSetConst (n : sb_name) (e : sb_expr)
| SbConditional (c t : sb_expr) (f : option sb_expr)
| SbWhile (c body : sb_expr)
| SbReturn (e : sb_expr)
| SbBreak
| SbContinue
| SbIndexer (a b : sb_expr)
| SbThrow (e : sb_expr)
| SbImport (name tmpl : sb_expr)               (* tmpl: the expression of the imported template *)
| SbImportDefaultTemplates (tmpls : list sb_expr)
| SbFunction (params : list sb_name) (closed : list sb_expr) (body : sb_expr)
| SbApply (name : sb_expr)
| SbNamespace (body : sb_expr)
| SbObject (ty name : sb_expr)
| SbFor (kv : sb_name) (value body : sb_expr)
| SbLibrary (e : sb_expr)
| SbInclude (path content : sb_expr)           (* content: what the included files compile to *)
| SbBreakpoint
| SbTryExcept (t e : sb_expr)
| SbOwned (e : sb_expr).

(* class names as in expression.hpp *)
Definition sb_n_Literal := Eval vm_compute in sb_enc "LiteralExpression"%string.
Definition sb_n_Variable := Eval vm_compute in sb_enc "VariableExpression"%string.
Definition sb_n_GetScope := Eval vm_compute in sb_enc "GetScopeExpression"%string.
Definition sb_n_Ref := Eval vm_compute in sb_enc "RefExpression"%string.
Definition sb_n_Deref := Eval vm_compute in sb_enc "DerefExpression"%string.
Definition sb_n_Negate := Eval vm_compute in sb_enc "NegateExpression"%string.
Definition sb_n_LogicalNegate := Eval vm_compute in sb_enc "LogicalNegateExpression"%string.
Definition sb_n_In := Eval vm_compute in sb_enc "InExpression"%string.
Definition sb_n_NotIn := Eval vm_compute in sb_enc "NotInExpression"%string.
Definition sb_n_LogicalAnd := Eval vm_compute in sb_enc "LogicalAndExpression"%string.
Definition sb_n_LogicalOr := Eval vm_compute in sb_enc "LogicalOrExpression"%string.
Definition sb_n_FunctionCall := Eval vm_compute in sb_enc "FunctionCallExpression"%string.
Definition sb_n_Array := Eval vm_compute in sb_enc "ArrayExpression"%string.
Definition sb_n_Dict := Eval vm_compute in sb_enc "DictExpression"%string.
Definition sb_n_Set := Eval vm_compute in sb_enc "SetExpression"%string.
Definition sb_n_SetConst := Eval vm_compute in sb_enc "SetConstExpression"%string.
Definition sb_n_Conditional := Eval vm_compute in sb_enc "ConditionalExpression"%string.
Definition sb_n_While := Eval vm_compute in sb_enc "WhileExpression"%string.
Definition sb_n_Return := Eval vm_compute in sb_enc "ReturnExpression"%string.
Definition sb_n_Break := Eval vm_compute in sb_enc "BreakExpression"%string.
Definition sb_n_Continue := Eval vm_compute in sb_enc "ContinueExpression"%string.
Definition sb_n_Indexer := Eval vm_compute in sb_enc "IndexerExpression"%string.
Definition sb_n_Throw := Eval vm_compute in sb_enc "ThrowExpression"%string.
Definition sb_n_Import := Eval vm_compute in sb_enc "ImportExpression"%string.
Definition sb_n_ImportDefaultTemplates := Eval vm_compute in sb_enc "ImportDefaultTemplatesExpression"%string.
Definition sb_n_Function := Eval vm_compute in sb_enc "FunctionExpression"%string.
Definition sb_n_Apply := Eval vm_compute in sb_enc "ApplyExpression"%string.
Definition sb_n_Namespace := Eval vm_compute in sb_enc "NamespaceExpression"%string.
Definition sb_n_Object := Eval vm_compute in sb_enc "ObjectExpression"%string.
Definition sb_n_For := Eval vm_compute in sb_enc "ForExpression"%string.
Definition sb_n_Library := Eval vm_compute in sb_enc "LibraryExpression"%string.
Definition sb_n_Include := Eval vm_compute in sb_enc "IncludeExpression"%string.
Definition sb_n_Breakpoint := Eval vm_compute in sb_enc "BreakpointExpression"%string.
Definition sb_n_TryExcept := Eval vm_compute in sb_enc "TryExceptExpression"%string.
Definition sb_n_Owned := Eval vm_compute in sb_enc "OwnedExpression"%string.

Definition sb_n_Add := Eval vm_compute in sb_enc "AddExpression"%string.
Definition sb_n_Subtract := Eval vm_compute in sb_enc "SubtractExpression"%string.
Definition sb_n_Multiply := Eval vm_compute in sb_enc "MultiplyExpression"%string.
Definition sb_n_Divide := Eval vm_compute in sb_enc "DivideExpression"%string.
Definition sb_n_Modulo := Eval vm_compute in sb_enc "ModuloExpression"%string.
Definition sb_n_Xor := Eval vm_compute in sb_enc "XorExpression"%string.
Definition sb_n_BinaryAnd := Eval vm_compute in sb_enc "BinaryAndExpression"%string.
Definition sb_n_BinaryOr := Eval vm_compute in sb_enc "BinaryOrExpression"%string.
Definition sb_n_ShiftLeft := Eval vm_compute in sb_enc "ShiftLeftExpression"%string.
Definition sb_n_ShiftRight := Eval vm_compute in sb_enc "ShiftRightExpression"%string.
Definition sb_n_Equal := Eval vm_compute in sb_enc "EqualExpression"%string.
Definition sb_n_NotEqual := Eval vm_compute in sb_enc "NotEqualExpression"%string.
Definition sb_n_LessThan := Eval vm_compute in sb_enc "LessThanExpression"%string.
Definition sb_n_GreaterThan := Eval vm_compute in sb_enc "GreaterThanExpression"%string.
Definition sb_n_LessThanOrEqual := Eval vm_compute in sb_enc "LessThanOrEqualExpression"%string.
Definition sb_n_GreaterThanOrEqual := Eval vm_compute in sb_enc "GreaterThanOrEqualExpression"%string.
Definition sb_binop_name (op : sb_binop) : sb_name :=
  match op with
  | SbAdd => sb_n_Add
  | SbSubtract => sb_n_Subtract
  | SbMultiply => sb_n_Multiply
  | SbDivide => sb_n_Divide
  | SbModulo => sb_n_Modulo
  | SbXor => sb_n_Xor
  | SbBinaryAnd => sb_n_BinaryAnd
  | SbBinaryOr => sb_n_BinaryOr
  | SbShiftLeft => sb_n_ShiftLeft
  | SbShiftRight => sb_n_ShiftRight
  | SbEqual => sb_n_Equal
  | SbNotEqual => sb_n_NotEqual
  | SbLessThan => sb_n_LessThan
  | SbGreaterThan => sb_n_GreaterThan
  | SbLessThanOrEqual => sb_n_LessThanOrEqual
  | SbGreaterThanOrEqual => sb_n_GreaterThanOrEqual
  end.
Definition sb_all_binops : list sb_binop :=
  [SbAdd; SbSubtract; SbMultiply; SbDivide; SbModulo; SbXor; SbBinaryAnd; SbBinaryOr; SbShiftLeft; SbShiftRight;
   SbEqual; SbNotEqual; SbLessThan; SbGreaterThan; SbLessThanOrEqual; SbGreaterThanOrEqual].

Definition sb_class_name (e : sb_expr) : sb_name :=
  match e with
  | SbLiteral _ => sb_n_Literal | SbVariable _ _ => sb_n_Variable | SbGetScope _ => sb_n_GetScope
  | SbRef _ => sb_n_Ref | SbDeref _ => sb_n_Deref | SbNegate _ => sb_n_Negate
  | SbLogicalNegate _ => sb_n_LogicalNegate | SbBinary op _ _ => sb_binop_name op
  | SbIn _ _ => sb_n_In | SbNotIn _ _ => sb_n_NotIn | SbLogicalAnd _ _ => sb_n_LogicalAnd
  | SbLogicalOr _ _ => sb_n_LogicalOr | SbFunctionCall _ _ => sb_n_FunctionCall | SbArray _ => sb_n_Array
  | SbDict _ _ => sb_n_Dict | SbSet _ _ _ _ => sb_n_Set | SbSetConst _ _ => sb_n_SetConst
  | SbConditional _ _ _ => sb_n_Conditional | SbWhile _ _ => sb_n_While | SbReturn _ => sb_n_Return
  | SbBreak => sb_n_Break | SbContinue => sb_n_Continue | SbIndexer _ _ => sb_n_Indexer
  | SbThrow _ => sb_n_Throw | SbImport _ _ => sb_n_Import
  | SbImportDefaultTemplates _ => sb_n_ImportDefaultTemplates | SbFunction _ _ _ => sb_n_Function
  | SbApply _ => sb_n_Apply | SbNamespace _ => sb_n_Namespace | SbObject _ _ => sb_n_Object
  | SbFor _ _ _ => sb_n_For | SbLibrary _ => sb_n_Library | SbInclude _ _ => sb_n_Include
  | SbBreakpoint => sb_n_Breakpoint | SbTryExcept _ _ => sb_n_TryExcept | SbOwned _ => sb_n_Owned
  end.

(* every class name the model has a constructor for *)
Definition sb_known_classes : list sb_name :=
  [sb_n_Literal; sb_n_Variable; sb_n_GetScope; sb_n_Ref; sb_n_Deref; sb_n_Negate; sb_n_LogicalNegate; sb_n_In;
   sb_n_NotIn; sb_n_LogicalAnd; sb_n_LogicalOr; sb_n_FunctionCall; sb_n_Array; sb_n_Dict; sb_n_Set;
   sb_n_SetConst; sb_n_Conditional; sb_n_While; sb_n_Return; sb_n_Break; sb_n_Continue; sb_n_Indexer;
   sb_n_Throw; sb_n_Import; sb_n_ImportDefaultTemplates; sb_n_Function; sb_n_Apply; sb_n_Namespace;
   sb_n_Object; sb_n_For; sb_n_Library; sb_n_Include; sb_n_Breakpoint; sb_n_TryExcept; sb_n_Owned]
  ++ map sb_binop_name sb_all_binops.

(* the constructors whose semantics below writes outside the objects allocated by this evaluation: the protected
   component, or - For - frame.Locals, which the console handler shares between the requests of a session *)
Definition sb_writer_classes : list sb_name :=
  [sb_n_Set; sb_n_SetConst; sb_n_Apply; sb_n_Object; sb_n_Include; sb_n_For].

(* icinga::BindToScope (expression.cpp), as the parser applies it: a DictExpression hands it to its members, a SetExpression
   to its left-hand side, an IndexerExpression to its first operand; a string literal or a bare identifier at the ROOT of
   the left-hand side is rebased onto the scope (`x` -> `this.x`).  Any other root - `globals`, `locals`, `this`, a call,
   an array literal, a dereference - is left as it is.  [SbScopeThis] marks the SetExpression as a dictionary member. *)
Definition sb_scope_is_this (sc : sb_scope) : bool := match sc with SbScopeThis => true | _ => false end.
Fixpoint sb_bind_scope (sc : sb_scope) (e : sb_expr) : sb_expr :=
  match e with
  | SbDict inline es => SbDict inline (map (sb_bind_scope sc) es)
  | SbSet m c lhs rhs => SbSet (m || sb_scope_is_this sc) c (sb_bind_scope sc lhs) rhs
  | SbIndexer a b => SbIndexer (sb_bind_scope sc a) b
  | SbLiteral (SbLStr s) => SbIndexer (SbGetScope sc) (SbLiteral (SbLStr s))
  | SbVariable n _ => SbIndexer (SbGetScope sc) (SbLiteral (SbLStr n))
  | _ => e
  end.
(* config_parser.yy, rterm_dict: `{ <statements> }` used as a value *)
Definition sb_parse_dict (members : list sb_expr) : sb_expr := sb_bind_scope SbScopeThis (SbDict false members).
(* `var <lhs> = <rhs>`: BindToScope(lhs, ScopeLocal) *)
Definition sb_parse_var (combined : bool) (lhs rhs : sb_expr) : sb_expr :=
  SbSet false combined (sb_bind_scope SbScopeLocal lhs) rhs.
(* the root of a left-hand side: what GetReference finally resolves *)
Fixpoint sb_lhs_root (e : sb_expr) : sb_expr :=
  match e with SbIndexer a _ => sb_lhs_root a | _ => e end.

(* ------------------------------------------------------------------ values, store *)
Inductive sb_oref := SbShared (i : nat) | SbLocal (i : nat).
Inductive sb_fun := SbNative (n : sb_name) | SbUser (params : list sb_name) (body : sb_expr).
Inductive sb_val :=
| SbVEmpty
| SbVBool (b : bool)
| SbVOpaque                                   (* a number or string whose content the model does not track *)
| SbVStr (s : sb_name)
| SbVObj (ty : sb_name) (o : sb_oref)         (* array, dictionary, namespace, config object, ... *)
| SbVFun (f : sb_fun)
| SbVRef (ty : sb_name) (o : sb_oref) (idx : sb_name)
| SbVType (t : sb_name).

Inductive sb_err := SbESandbox | SbEUser (v : sb_val) | SbEOther.
Inductive sb_code := SbCReturn | SbCBreak | SbCContinue.
Inductive sb_r (A : Type) := SbROk (a : A) | SbRCtl (c : sb_code) (v : sb_val) | SbRErr (e : sb_err) | SbRFuel.
Arguments SbROk {A} a. Arguments SbRCtl {A} c v. Arguments SbRErr {A} e. Arguments SbRFuel {A}.

Inductive sb_read := SbRdField (ty f : sb_name) | SbRdGlobal (g : sb_name).
Record sb_choice := { sbc_b : bool; sbc_v : sb_val }.
Definition sb_cell := list (sb_name * sb_val).

Record sb_st := {
  sbs_shared : list sb_cell;                  (* PROTECTED heap; cell 0 = global namespace *)
  sbs_extern : list sb_name;                  (* PROTECTED: files, config items, apply rules (as a log of writes) *)
  sbs_local : list sb_cell;                   (* frame-local heap *)
  sbs_calls : list (sb_name * bool);          (* functions invoked, with their side-effect-free bit; newest first *)
  sbs_reads : list sb_read;                   (* hidden values fetched; newest first *)
  sbs_choices : list sb_choice                (* input: what opaque computations yield *)
}.

(* [sbfr_top]: the Sandboxed flag of the frame that is on TOP of the thread's frame stack while code runs in this frame
   (ScriptFrame::InitializeFrame: a new frame inherits from the stack top, not from the frame it is evaluated in).  For a
   frame that is itself the top the two flags coincide; a frame pushed above the user's frame makes them differ. *)
Record sb_frame := { sbfr_sandboxed : bool; sbfr_top : bool; sbfr_self : sb_val; sbfr_locals : option sb_val }.

Definition sb_M (A : Type) := sb_st -> sb_r A * sb_st.
Definition sb_ret {A} (a : A) : sb_M A := fun s => (SbROk a, s).
Definition sb_fail {A} (e : sb_err) : sb_M A := fun s => (SbRErr e, s).
Definition sb_ctl {A} (c : sb_code) (v : sb_val) : sb_M A := fun s => (SbRCtl c v, s).
Definition sb_nofuel {A} : sb_M A := fun s => (SbRFuel, s).
(* CHECK_RESULT: anything but ResultOK is handed to the caller *)
Definition sb_bind {A B} (m : sb_M A) (k : A -> sb_M B) : sb_M B :=
  fun s => match m s with
           | (SbROk a, s') => k a s'
           | (SbRCtl c v, s') => (SbRCtl c v, s')
           | (SbRErr e, s') => (SbRErr e, s')
           | (SbRFuel, s') => (SbRFuel, s')
           end.
Notation "x <- m ;; k" := (sb_bind m (fun x => k)) (at level 61, m at next level, right associativity).
Notation "m ;;; k" := (sb_bind m (fun _ => k)) (at level 61, right associativity).

(* try { m } except { h }: only exceptions are caught *)
Definition sb_catch {A} (m : sb_M A) (h : sb_M A) : sb_M A :=
  fun s => match m s with (SbRErr _, s') => h s' | r => r end.

Fixpoint sb_assoc {V} (k : sb_name) (l : list (sb_name * V)) : option V :=
  match l with [] => None | (k', v) :: r => if k =? k' then Some v else sb_assoc k r end.
Definition sb_lookupb (k : sb_name) (l : list (sb_name * bool)) : bool :=
  match sb_assoc k l with Some b => b | None => false end.
Definition sb_mem (k : sb_name) (l : list sb_name) : bool := existsb (N.eqb k) l.

Definition sb_set_assoc {V} (k : sb_name) (v : V) (l : list (sb_name * V)) : list (sb_name * V) :=
  (k, v) :: filter (fun p => negb (fst p =? k)) l.
Fixpoint sb_update {A} (i : nat) (f : A -> A) (l : list A) : list A :=
  match l, i with
  | [], _ => []
  | x :: r, O => f x :: r
  | x :: r, S j => x :: sb_update j f r
  end.

Definition sb_cell_of (s : sb_st) (o : sb_oref) : sb_cell :=
  match o with SbShared i => nth i (sbs_shared s) [] | SbLocal i => nth i (sbs_local s) [] end.

Definition sb_log_call (n : sb_name) (safe : bool) : sb_M unit :=
  fun s => (SbROk tt, {| sbs_shared := sbs_shared s; sbs_extern := sbs_extern s; sbs_local := sbs_local s;
                         sbs_calls := (n, safe) :: sbs_calls s; sbs_reads := sbs_reads s; sbs_choices := sbs_choices s |}).
Definition sb_log_read (r : sb_read) : sb_M unit :=
  fun s => (SbROk tt, {| sbs_shared := sbs_shared s; sbs_extern := sbs_extern s; sbs_local := sbs_local s;
                         sbs_calls := sbs_calls s; sbs_reads := r :: sbs_reads s; sbs_choices := sbs_choices s |}).
Definition sb_choose : sb_M sb_choice :=
  fun s => match sbs_choices s with
           | [] => (SbROk {| sbc_b := false; sbc_v := SbVEmpty |}, s)
           | c :: r => (SbROk c, {| sbs_shared := sbs_shared s; sbs_extern := sbs_extern s; sbs_local := sbs_local s;
                                    sbs_calls := sbs_calls s; sbs_reads := sbs_reads s; sbs_choices := r |})
           end.
Definition sb_alloc (ty : sb_name) (c : sb_cell) : sb_M sb_val :=
  fun s => (SbROk (SbVObj ty (SbLocal (List.length (sbs_local s)))),
            {| sbs_shared := sbs_shared s; sbs_extern := sbs_extern s; sbs_local := sbs_local s ++ [c];
               sbs_calls := sbs_calls s; sbs_reads := sbs_reads s; sbs_choices := sbs_choices s |}).
Definition sb_fields (v : sb_val) : sb_M sb_cell :=
  fun s => (SbROk (match v with SbVObj _ o => sb_cell_of s o | _ => [] end), s).
(* the two writes of the protected component, and the write of the local one *)
Definition sb_setfield (v : sb_val) (f : sb_name) (x : sb_val) : sb_M unit :=
  fun s => match v with
           | SbVObj _ (SbLocal i) =>
               (SbROk tt, {| sbs_shared := sbs_shared s; sbs_extern := sbs_extern s;
                             sbs_local := sb_update i (sb_set_assoc f x) (sbs_local s);
                             sbs_calls := sbs_calls s; sbs_reads := sbs_reads s; sbs_choices := sbs_choices s |})
           | SbVObj _ (SbShared i) =>
               (SbROk tt, {| sbs_shared := sb_update i (sb_set_assoc f x) (sbs_shared s); sbs_extern := sbs_extern s;
                             sbs_local := sbs_local s;
                             sbs_calls := sbs_calls s; sbs_reads := sbs_reads s; sbs_choices := sbs_choices s |})
           | _ => (SbRErr SbEOther, s)
           end.
Definition sb_extern_write (what : sb_name) : sb_M unit :=
  fun s => (SbROk tt, {| sbs_shared := sbs_shared s; sbs_extern := what :: sbs_extern s; sbs_local := sbs_local s;
                         sbs_calls := sbs_calls s; sbs_reads := sbs_reads s; sbs_choices := sbs_choices s |}).

(* ------------------------------------------------------------------ types, prototypes, hidden fields *)
Definition sb_t_Array := Eval vm_compute in sb_enc "Array"%string.
Definition sb_t_Dictionary := Eval vm_compute in sb_enc "Dictionary"%string.
Definition sb_t_Namespace := Eval vm_compute in sb_enc "Namespace"%string.
Definition sb_t_Function := Eval vm_compute in sb_enc "Function"%string.
Definition sb_t_Reference := Eval vm_compute in sb_enc "Reference"%string.
Definition sb_t_Type := Eval vm_compute in sb_enc "Type"%string.
Definition sb_t_String := Eval vm_compute in sb_enc "String"%string.
Definition sb_t_Number := Eval vm_compute in sb_enc "Number"%string.
Definition sb_t_Boolean := Eval vm_compute in sb_enc "Boolean"%string.
Definition sb_t_DateTime := Eval vm_compute in sb_enc "DateTime"%string.
Definition sb_t_Object := Eval vm_compute in sb_enc "Object"%string.
Definition sb_t_ConfigObject := Eval vm_compute in sb_enc "ConfigObject"%string.
Definition sb_t_Checkable := Eval vm_compute in sb_enc "Checkable"%string.
Definition sb_t_Host := Eval vm_compute in sb_enc "Host"%string.
Definition sb_t_Service := Eval vm_compute in sb_enc "Service"%string.
Definition sb_primitive_types : list sb_name :=
  [sb_t_Array; sb_t_Dictionary; sb_t_Namespace; sb_t_Function; sb_t_Reference; sb_t_Type; sb_t_String;
   sb_t_Number; sb_t_Boolean; sb_t_DateTime; sb_t_Object].
(* prototype chain: Type::GetBaseType *)
Definition sb_chain (ty : sb_name) : list sb_name :=
  if sb_mem ty sb_primitive_types then [ty; sb_t_Object]
  else if (ty =? sb_t_Host) || (ty =? sb_t_Service) then [ty; sb_t_Checkable; sb_t_ConfigObject; sb_t_Object]
  else [ty; sb_t_ConfigObject; sb_t_Object].

Definition sb_is_hidden (F : sb_facts) (ty f : sb_name) : bool :=
  existsb (fun p => (fst p =? ty) && (snd p =? f)) (sbf_hidden F).
Definition sb_type_clean (F : sb_facts) (ty : sb_name) : bool :=
  negb (existsb (fun p => fst p =? ty) (sbf_hidden F)).

Definition sb_fun_safe (F : sb_facts) (f : sb_fun) : bool :=
  match f with
  | SbNative n => sb_lookupb n (sbf_funcs F)
  | SbUser _ _ => negb (sbf_userfunc_unsafe F)
  end.

Fixpoint sb_proto (F : sb_facts) (chain : list sb_name) (f : sb_name) : sb_val :=
  match chain with
  | [] => SbVEmpty
  | t :: r => match sb_assoc (sb_join t f) (sbf_funcs F) with
              | Some _ => SbVFun (SbNative (sb_join t f))
              | None => sb_proto F r f
              end
  end.

Definition sb_globals_val : sb_val := SbVObj sb_t_Namespace (SbShared 0).
Definition sb_is_globals (o : sb_oref) : bool := match o with SbShared O => true | _ => false end.

(* Object::GetOwnField / GetField(fid): the read itself, no sandbox test.  Fetching a no_user_view field or a
   global that /v1/variables hides is recorded. *)
Definition sb_raw_read (F : sb_facts) (ty : sb_name) (o : sb_oref) (f : sb_name) : sb_M (option sb_val) :=
  fun s => match sb_assoc f (sb_cell_of s o) with
           | None => (SbROk None, s)
           | Some x =>
               if sb_is_hidden F ty f then (x' <- sb_log_read (SbRdField ty f) ;; sb_ret (Some x)) s
               else if sb_is_globals o && sb_mem f (sbf_hidden_globals F)
                    then (x' <- sb_log_read (SbRdGlobal f) ;; sb_ret (Some x)) s
               else (SbROk (Some x), s)
           end.

(* VMOps::GetField(context, field, sandboxed) -> Object::GetFieldByName *)
Definition sb_getfield (F : sb_facts) (sandboxed : bool) (v : sb_val) (f : sb_name) : sb_M sb_val :=
  match v with
  | SbVEmpty => sb_ret SbVEmpty
  | SbVObj ty o =>
      if sb_is_hidden F ty f && sandboxed && sbf_getfield_checked F then sb_fail SbESandbox
      else r <- sb_raw_read F ty o f ;;
           match r with Some x => sb_ret x | None => sb_ret (sb_proto F (sb_chain ty) f) end
  | SbVBool _ => sb_ret (sb_proto F (sb_chain sb_t_Boolean) f)
  | SbVOpaque => sb_ret (match sb_proto F (sb_chain sb_t_String) f with
                         | SbVEmpty => sb_proto F (sb_chain sb_t_Number) f | x => x end)
  | SbVStr _ => sb_ret (sb_proto F (sb_chain sb_t_String) f)
  | SbVFun _ => sb_ret (sb_proto F (sb_chain sb_t_Function) f)
  | SbVRef _ _ _ => sb_ret (sb_proto F (sb_chain sb_t_Reference) f)
  | SbVType _ => sb_ret (sb_proto F (sb_chain sb_t_Type) f)
  end.

Definition sb_lit_val (l : sb_lit) : sb_val :=
  match l with SbLEmpty => SbVEmpty | SbLBool b => SbVBool b | SbLNum => SbVOpaque | SbLStr s => SbVStr s end.
Definition sb_idx_of (v : sb_val) : sb_name := match v with SbVStr s => s | _ => 0 end.

(* Value::ToBool; the truth of an opaque value is an input *)
Definition sb_truth (v : sb_val) : sb_M bool :=
  match v with
  | SbVEmpty => sb_ret false
  | SbVBool b => sb_ret b
  | SbVOpaque | SbVStr _ => c <- sb_choose ;; sb_ret (sbc_b c)
  | _ => sb_ret true
  end.

(* ------------------------------------------------------------------ builtins
   What a native does to the store is decided by the FACTS: [sbf_purity] (regenerated mutation-capability analysis of its
   C++ body) and [sbf_cbguards] (its body invokes a Function argument).  A native that is not established pure may write
   every shared cell REACHABLE from its receiver and its arguments (and the external component). *)
Inductive sb_class := SbPure | SbMutating | SbRevealing | SbHigher.

(* EXPECTED tables (hand-written, reviewed): not used by the semantics, only compared with the facts
   ([sb_purity_as_expected]): a function newly registered side-effect-free has to be reviewed and entered here *)
Definition sb_higher_names : list sb_name := Eval vm_compute in
  map sb_enc ["Array#sort"; "Array#map"; "Array#reduce"; "Array#filter"; "Array#any"; "Array#all"]%string.

(* everything that is known to only compute a value from its arguments and from API-visible state *)
Definition sb_pure_names : list sb_name := Eval vm_compute in
  map sb_enc [
   "Array#len"; "Array#contains"; "Array#shallow_clone"; "Array#join"; "Array#reverse"; "Array#unique"; "Array#get";
   "Dictionary#len"; "Dictionary#contains"; "Dictionary#shallow_clone"; "Dictionary#keys"; "Dictionary#values";
   "Dictionary#get"; "Namespace#contains"; "Namespace#keys"; "Namespace#values"; "Namespace#get";
   "Boolean#to_string"; "Number#to_string"; "Object#to_string"; "Object#clone"; "Reference#get";
   "String#len"; "String#to_string"; "String#substr"; "String#upper"; "String#lower"; "String#split"; "String#find";
   "String#contains"; "String#replace"; "String#reverse"; "String#trim"; "DateTime#format";
   "Json#encode"; "Json#decode";
   "Math#abs"; "Math#acos"; "Math#asin"; "Math#atan"; "Math#atan2"; "Math#ceil"; "Math#cos"; "Math#exp"; "Math#floor";
   "Math#log"; "Math#max"; "Math#min"; "Math#pow"; "Math#random"; "Math#round"; "Math#sin"; "Math#sqrt"; "Math#tan";
   "Math#isnan"; "Math#isinf"; "Math#sign";
   "System#regex"; "System#match"; "System#cidr_match"; "System#len"; "System#union"; "System#intersection";
   "System#typeof"; "System#keys"; "System#random"; "System#get_template"; "System#get_templates";
   "System#get_object"; "System#get_objects"; "System#string"; "System#number"; "System#bool"; "System#get_time";
   "System#basename"; "System#dirname"; "System#getenv"; "System#msi_get_component_path"; "System#track_parents";
   "System#escape_shell_cmd"; "System#escape_shell_arg"; "System#escape_create_process_arg";
   "System#range"; "System#ptr"; "System#path_exists"; "System#parse_performance_data";
   "Icinga#get_host"; "Icinga#get_service"; "Icinga#get_services"; "Icinga#get_user"; "Icinga#get_check_command";
   "Icinga#get_event_command"; "Icinga#get_notification_command"; "Icinga#get_host_group";
   "Icinga#get_service_group"; "Icinga#get_user_group"; "Icinga#get_time_period"]%string.

Definition sb_n_ref_get := Eval vm_compute in sb_enc "Reference#get"%string.

(* the analysis established: no use in the body can modify pre-existing state *)
Definition sb_native_pure (F : sb_facts) (n : sb_name) : bool := sb_lookupb n (sbf_purity F).
(* the body invokes a Function argument (sort/map/reduce/filter/any/all today) *)
Definition sb_native_higher (F : sb_facts) (n : sb_name) : bool :=
  match sb_assoc n (sbf_cbguards F) with Some _ => true | None => false end.

(* not established pure (Array#add, Dictionary#set, Internal#..., log, exit, glob, modify_attribute, unknown names, and
   ANY native whose body the analysis flags): may write whatever it can reach *)
Definition sb_class_of (F : sb_facts) (n : sb_name) : sb_class :=
  if negb (sb_native_pure F n) then SbMutating
  else if sb_native_higher F n then SbHigher
  else SbPure.

(* ---- reachability of shared cells through values: a reference to a shared cell reaches that cell and whatever its
   fields reach; a reference to a local cell reaches what the fields of that local cell reach.  [k] bounds the length of
   the reference chain; [sb_reach] uses the number of cells, which no simple chain exceeds. *)
Fixpoint sb_reach_val (k : nat) (s : sb_st) (v : sb_val) : list nat :=
  match k with
  | O => []
  | S k' =>
      match v with
      | SbVObj _ (SbShared i) | SbVRef _ (SbShared i) _ =>
          i :: flat_map (fun p => sb_reach_val k' s (snd p)) (nth i (sbs_shared s) [])
      | SbVObj _ (SbLocal i) | SbVRef _ (SbLocal i) _ =>
          flat_map (fun p => sb_reach_val k' s (snd p)) (nth i (sbs_local s) [])
      | _ => []
      end
  end.
Definition sb_reach (s : sb_st) (vs : list sb_val) : list nat :=
  flat_map (sb_reach_val (S (List.length (sbs_shared s) + List.length (sbs_local s))) s) vs.

(* worst case of a native that is not established pure: every reachable shared cell is written *)
Definition sb_clobber (vs : list sb_val) : sb_M unit :=
  fun s => (SbROk tt,
            {| sbs_shared := fold_left (fun sh i => sb_update i (sb_set_assoc 0 SbVOpaque) sh) (sb_reach s vs) (sbs_shared s);
               sbs_extern := sbs_extern s; sbs_local := sbs_local s; sbs_calls := sbs_calls s; sbs_reads := sbs_reads s;
               sbs_choices := sbs_choices s |}).

Definition sb_inherit (F : sb_facts) (fr : sb_frame) : bool := sbf_frame_inherit F && sbfr_top fr.

(* ------------------------------------------------------------------ the evaluator *)
Section SbStep.
  Variable F : sb_facts.
  Variable ev : sb_frame -> sb_expr -> sb_M sb_val.                           (* evaluation with less fuel *)
  Variable inv : sb_frame -> sb_fun -> sb_val -> list sb_val -> sb_M sb_val. (* invocation with less fuel *)

  Fixpoint sb_evals (fr : sb_frame) (es : list sb_expr) : sb_M (list sb_val) :=
    match es with
    | [] => sb_ret []
    | e :: r => v <- ev fr e ;; vs <- sb_evals fr r ;; sb_ret (v :: vs)
    end.
  (* statement list: value of the last one *)
  Fixpoint sb_seq (fr : sb_frame) (es : list sb_expr) (last : sb_val) : sb_M sb_val :=
    match es with
    | [] => sb_ret last
    | e :: r => v <- ev fr e ;; sb_seq fr r v
    end.

  (* CHECK_RESULT_LOOP *)
  Definition sb_loop_body (m : sb_M sb_val) : sb_M bool :=   (* true = leave the loop *)
    fun s => match m s with
             | (SbROk _, s') => (SbROk false, s')
             | (SbRCtl SbCBreak _, s') => (SbROk true, s')
             | (SbRCtl SbCContinue _, s') => (SbROk false, s')
             | (SbRCtl SbCReturn v, s') => (SbRCtl SbCReturn v, s')
             | (SbRErr e, s') => (SbRErr e, s')
             | (SbRFuel, s') => (SbRFuel, s')
             end.
  Fixpoint sb_while (k : nat) (fr : sb_frame) (c body : sb_expr) : sb_M sb_val :=
    match k with
    | O => sb_nofuel
    | S k' => cv <- ev fr c ;; t <- sb_truth cv ;;
              if t then (stop <- sb_loop_body (ev fr body) ;; if stop then sb_ret SbVEmpty else sb_while k' fr c body)
              else sb_ret SbVEmpty
    end.
  Fixpoint sb_foreach (fr : sb_frame) (kv : sb_name) (items : sb_cell) (body : sb_expr) : sb_M sb_val :=
    match items with
    | [] => sb_ret SbVEmpty
    | (_, x) :: r =>
        match sbfr_locals fr with
        | Some l => sb_setfield l kv x ;;;
                    (stop <- sb_loop_body (ev fr body) ;; if stop then sb_ret SbVEmpty else sb_foreach fr kv r body)
        | None => sb_fail SbEOther
        end
    end.

  (* VMOps::FindVarImport(Ref): the first import whose value has an own field of that name *)
  Fixpoint sb_find_import (fr : sb_frame) (n : sb_name) (imports : list sb_expr) : sb_M (option sb_val) :=
    match imports with
    | [] => sb_ret None
    | i :: r =>
        v <- ev fr i ;;
        match v with
        | SbVObj _ _ => c <- sb_fields v ;;
                        match sb_assoc n c with Some _ => sb_ret (Some v) | None => sb_find_import fr n r end
        | _ => sb_fail SbEOther
        end
    end.

  (* VariableExpression::DoEvaluate: locals, own field of Self (GetOwnField - no sandbox test), imports, globals *)
  Definition sb_var_read (fr : sb_frame) (n : sb_name) (imports : list sb_expr) : sb_M sb_val :=
    lv <- match sbfr_locals fr with Some (SbVObj ty o) => sb_raw_read F ty o n | _ => sb_ret None end ;;
    match lv with
    | Some x => sb_ret x
    | None =>
        sv <- match sbfr_self fr with SbVObj ty o => sb_raw_read F ty o n | _ => sb_ret None end ;;
        match sv with
        | Some x => sb_ret x
        | None =>
            iv <- sb_find_import fr n imports ;;
            match iv with
            | Some (SbVObj ty o) =>
                if sbf_var_import_checked F then sb_getfield F (sbfr_sandboxed fr) (SbVObj ty o) n
                else r <- sb_raw_read F ty o n ;; sb_ret (match r with Some x => x | None => SbVEmpty end)
            | Some _ => sb_fail SbEOther
            | None => gv <- sb_raw_read F sb_t_Namespace (SbShared 0) n ;;
                      match gv with Some x => sb_ret x | None => sb_fail SbEOther end
            end
        end
    end.

  (* Expression::GetReference *)
  Fixpoint sb_getref (fr : sb_frame) (init : bool) (e : sb_expr) : sb_M (option (sb_val * sb_name)) :=
    match e with
    | SbVariable n imports =>
        lc <- match sbfr_locals fr with Some l => sb_fields l | None => sb_ret [] end ;;
        match sb_assoc n lc, sbfr_locals fr with
        | Some _, Some l => sb_ret (Some (l, n))
        | _, _ =>
            sc <- sb_fields (sbfr_self fr) ;;
            match sb_assoc n sc with
            | Some _ => sb_ret (Some (sbfr_self fr, n))
            | None =>
                iv <- sb_find_import fr n imports ;;
                match iv with
                | Some v => sb_ret (Some (v, n))
                | None => gc <- sb_fields sb_globals_val ;;
                          match sb_assoc n gc with
                          | Some _ => sb_ret (Some (sb_globals_val, n))
                          | None => sb_ret (Some (sbfr_self fr, n))
                          end
                end
            end
        end
    | SbIndexer a b =>
        let init' := if sbfr_sandboxed fr && sbf_indexer_noinit F then false else init in
        r <- sb_getref fr init' a ;;
        parent <- match r with
                  | Some (vp, vi) =>
                      (if init' then
                         old <- sb_getfield F (sbfr_sandboxed fr) vp vi ;;
                         match old with
                         | SbVEmpty => d <- sb_alloc sb_t_Dictionary [] ;; sb_setfield vp vi d
                         | _ => sb_ret tt
                         end
                       else sb_ret tt) ;;;
                      sb_getfield F (sbfr_sandboxed fr) vp vi
                  | None => ev fr a
                  end ;;
        i <- ev fr b ;;
        sb_ret (Some (parent, sb_idx_of i))
    | SbDeref a =>
        v <- ev fr a ;;
        match v with SbVRef ty o i => sb_ret (Some (SbVObj ty o, i)) | _ => sb_fail SbEOther end
    | _ => sb_ret None
    end.

  (* the further condition of a conditional guard, evaluated on the node *)
  Definition sb_cond_fires (e : sb_expr) : bool :=
    match e with
    | SbSet member _ _ _ =>
        match sb_assoc sb_n_Set (sbf_cond_guards F) with
        | Some SbGcUnlessMember => negb member
        | Some SbGcIfMember => member
        | None => false
        end
    | _ => false
    end.
  Definition sb_guarded (e : sb_expr) : bool := sb_lookupb (sb_class_name e) (sbf_exprs F) || sb_cond_fires e.

  Definition sb_sub_frame (fr : sb_frame) (self : sb_val) (locals : option sb_val) : sb_frame :=
    {| sbfr_sandboxed := sb_inherit F fr; sbfr_top := sb_inherit F fr; sbfr_self := self; sbfr_locals := locals |}.

  (* <X>Expression::DoEvaluate *)
  Definition sb_step (n : nat) (fr : sb_frame) (e : sb_expr) : sb_M sb_val :=
    if sbfr_sandboxed fr && sb_guarded e then sb_fail SbESandbox else
    match e with
    | SbLiteral l => sb_ret (sb_lit_val l)
    | SbVariable x imports => sb_var_read fr x imports
    | SbGetScope SbScopeLocal => sb_ret (match sbfr_locals fr with Some l => l | None => SbVEmpty end)
    | SbGetScope SbScopeThis => sb_ret (sbfr_self fr)
    | SbGetScope SbScopeGlobal => sb_ret sb_globals_val
    | SbRef a =>
        r <- sb_getref fr false a ;;
        match r with Some (SbVObj ty o, i) => sb_ret (SbVRef ty o i) | _ => sb_fail SbEOther end
    | SbDeref a =>
        v <- ev fr a ;;
        match v with
        | SbVRef ty o i => sb_getfield F (sbf_ref_get_checked F) (SbVObj ty o) i
        | _ => sb_fail SbEOther
        end
    | SbNegate a => ev fr a ;;; sb_ret SbVOpaque
    | SbLogicalNegate a => v <- ev fr a ;; t <- sb_truth v ;; sb_ret (SbVBool (negb t))
    | SbBinary _ a b => ev fr a ;;; ev fr b ;;; sb_ret SbVOpaque
    | SbIn a b | SbNotIn a b =>
        vb <- ev fr b ;;
        match vb with
        | SbVEmpty => sb_ret (SbVBool (match e with SbIn _ _ => false | _ => true end))
        | SbVObj _ _ => ev fr a ;;; sb_ret SbVOpaque
        | _ => sb_fail SbEOther
        end
    | SbLogicalAnd a b => va <- ev fr a ;; t <- sb_truth va ;; if t then ev fr b else sb_ret va
    | SbLogicalOr a b => va <- ev fr a ;; t <- sb_truth va ;; if t then sb_ret va else ev fr b
    | SbFunctionCall f args =>
        r <- sb_getref fr false f ;;
        sf <- match r with
              | Some (self, i) => vf <- sb_getfield F (sbfr_sandboxed fr) self i ;; sb_ret (self, vf)
              | None => vf <- ev fr f ;; sb_ret (SbVEmpty, vf)
              end ;;
        match snd sf with
        | SbVType t =>                                      (* VMOps::ConstructorCall *)
            vs <- sb_evals fr args ;;
            if sb_mem t [sb_t_String; sb_t_Number; sb_t_Boolean] then sb_ret SbVOpaque
            else
              (* type->Instantiate(args): the constructor runs now, the destructor when the temporary dies (at the latest when
                 the evaluation's result is dropped); a body that writes a process-global datum = a write to the external
                 component, logged under the type's name *)
              (* DefaultObjectFactory<T>: `DefaultObjectFactoryCheckArgs(args)` refuses arguments before `new T()`; only a type
                 declared `vararg_constructor` (DateTime - fact f_sb_vararg_types) hands them to its constructor *)
              (if negb (t =? sb_t_DateTime) && negb (Nat.eqb (List.length vs) 0) then sb_fail SbEOther else sb_ret tt) ;;;
              (if sb_mem t (sbf_ctor_global F) then sb_extern_write t else sb_ret tt) ;;;
              sb_alloc t (combine (map N.of_nat (seq 0 (List.length vs))) vs)
        | SbVFun g =>
            if sbfr_sandboxed fr && sbf_call_guard F && negb (sb_fun_safe F g) then sb_fail SbESandbox
            else vs <- sb_evals fr args ;; inv fr g (fst sf) vs
        | _ => sb_fail SbEOther
        end
    | SbArray es => vs <- sb_evals fr es ;; sb_alloc sb_t_Array (combine (map N.of_nat (seq 0 (List.length vs))) vs)
    | SbDict true es => sb_seq fr es SbVEmpty
    | SbDict false es =>
        d <- sb_alloc sb_t_Dictionary [] ;;
        sb_seq {| sbfr_sandboxed := sbfr_sandboxed fr; sbfr_top := sbfr_top fr; sbfr_self := d;
                  sbfr_locals := sbfr_locals fr |} es SbVEmpty ;;;
        sb_ret d
    | SbSet _ combined lhs rhs =>
        r <- sb_getref fr true lhs ;;
        match r with
        | None => sb_fail SbEOther
        | Some (p, i) =>
            v <- ev fr rhs ;;
            v' <- (if combined then sb_getfield F (sbfr_sandboxed fr) p i ;;; sb_ret SbVOpaque else sb_ret v) ;;
            sb_setfield p i v' ;;; sb_ret SbVEmpty
        end
    | SbSetConst x a => v <- ev fr a ;; sb_setfield sb_globals_val x v ;;; sb_ret SbVEmpty
    | SbConditional c t f =>
        vc <- ev fr c ;; b <- sb_truth vc ;;
        if b then ev fr t else match f with Some f' => ev fr f' | None => sb_ret SbVEmpty end
    | SbWhile c body => sb_while n fr c body
    | SbReturn a => v <- ev fr a ;; sb_ctl SbCReturn v
    | SbBreak => sb_ctl SbCBreak SbVEmpty
    | SbContinue => sb_ctl SbCContinue SbVEmpty
    | SbIndexer a b => va <- ev fr a ;; vb <- ev fr b ;; sb_getfield F (sbfr_sandboxed fr) va (sb_idx_of vb)
    | SbThrow a => v <- ev fr a ;; sb_fail (SbEUser v)
    | SbImport name tmpl =>
        ev fr name ;;; ev fr tmpl ;;; sb_ret SbVEmpty
    | SbImportDefaultTemplates tmpls => sb_seq fr tmpls SbVEmpty ;;; sb_ret SbVEmpty
    | SbFunction params closed body => sb_evals fr closed ;;; sb_ret (SbVFun (SbUser params body))
    | SbApply name => ev fr name ;;; sb_extern_write sb_n_Apply ;;; sb_ret SbVEmpty
    | SbNamespace body =>
        ns <- sb_alloc sb_t_Namespace [] ;; l <- sb_alloc sb_t_Dictionary [] ;;
        ev (sb_sub_frame fr ns (Some l)) body ;;; sb_ret ns
    | SbObject ty name => ev fr ty ;;; ev fr name ;;; sb_extern_write sb_n_Object ;;; sb_ret SbVEmpty
    | SbFor kv value body => v <- ev fr value ;; items <- sb_fields v ;; sb_foreach fr kv items body
    | SbLibrary a => ev fr a ;;; sb_ret SbVEmpty
    | SbInclude path content => ev fr path ;;; sb_extern_write sb_n_Include ;;; ev fr content
    | SbBreakpoint => sb_ret SbVEmpty
    | SbTryExcept t h => sb_catch (ev fr t ;;; sb_ret SbVEmpty) (ev fr h ;;; sb_ret SbVEmpty)
    | SbOwned a => ev fr a
    end.

  (* Function::Invoke / InvokeThis *)
  Fixpoint sb_each (fr : sb_frame) (g : sb_fun) (items : sb_cell) : sb_M unit :=
    match items with
    | [] => sb_ret tt
    | (_, x) :: r => inv fr g SbVEmpty [x] ;;; sb_each fr g r
    end.

  Definition sb_invoke (fr : sb_frame) (f : sb_fun) (self : sb_val) (args : list sb_val) : sb_M sb_val :=
    match f with
    | SbNative nm =>
        sb_log_call nm (sb_fun_safe F f) ;;;
        match sb_class_of F nm with
        | SbPure =>
            (* Reference#get is Reference::Get: m_Parent->GetFieldByName(m_Index, true, ..) - the same checked read as `*ref` *)
            match self with
            | SbVRef ty o idx =>
                if nm =? sb_n_ref_get then sb_getfield F (sbf_ref_get_checked F) (SbVObj ty o) idx
                else c <- sb_choose ;; if sbc_b c then sb_fail SbEOther else sb_ret (sbc_v c)
            | _ => c <- sb_choose ;; if sbc_b c then sb_fail SbEOther else sb_ret (sbc_v c)
            end
        | SbRevealing => sb_log_read (SbRdField 0 0) ;;; c <- sb_choose ;; sb_ret (sbc_v c)
        | SbMutating =>
            sb_clobber (self :: args) ;;;
            match self with
            | SbVObj _ _ => sb_setfield self 0 (hd SbVEmpty args)
            | _ => sb_extern_write nm
            end ;;; sb_ret SbVEmpty
        | SbHigher =>
            match args with
            | SbVFun g :: _ =>
                if sb_inherit F fr && sb_lookupb nm (sbf_cbguards F) && negb (sb_fun_safe F g) then sb_fail SbESandbox
                else items <- sb_fields self ;; sb_each fr g items ;;; c <- sb_choose ;; sb_ret (sbc_v c)
            | [] => c <- sb_choose ;; sb_ret (sbc_v c)
            | _ => sb_fail SbEOther
            end
        end
    | SbUser params body =>
        sb_log_call 0 (sb_fun_safe F f) ;;;
        l <- sb_alloc sb_t_Dictionary (combine params args) ;;
        (fun s => match ev (sb_sub_frame fr sb_globals_val (Some l)) body s with
                  | (SbRCtl SbCReturn v, s') => (SbROk v, s')
                  | r => r
                  end)
    end.
End SbStep.

Inductive sb_req :=
| SbRqEval (fr : sb_frame) (e : sb_expr)
| SbRqInvoke (fr : sb_frame) (f : sb_fun) (self : sb_val) (args : list sb_val).

Fixpoint sb_run (F : sb_facts) (fuel : nat) (rq : sb_req) {struct fuel} : sb_M sb_val :=
  match fuel with
  | O => sb_nofuel
  | S n =>
      let ev := fun fr e => sb_run F n (SbRqEval fr e) in
      let inv := fun fr f self args => sb_run F n (SbRqInvoke fr f self args) in
      match rq with
      | SbRqEval fr e => sb_step F ev inv n fr e
      | SbRqInvoke fr f self args => sb_invoke F ev inv fr f self args
      end
  end.

Definition sb_eval (F : sb_facts) (fuel : nat) (fr : sb_frame) (e : sb_expr) : sb_M sb_val :=
  sb_run F fuel (SbRqEval fr e).

(* ConsoleHandler::ExecuteScriptHelper: Serialize(exprResult, 0[, sandboxed]) - outside the evaluator.  With
   [all_fields] every field of a returned config object is read, the no_user_view ones included. *)
Definition sb_console_result (F : sb_facts) (all_fields : bool) (v : sb_val) : list sb_read :=
  match v with
  | SbVObj ty _ =>
      if all_fields then map (fun p => SbRdField (fst p) (snd p)) (filter (fun p => fst p =? ty) (sbf_hidden F))
      else []
  | _ => []
  end.

(* the protected component *)
Definition sb_protected (s : sb_st) : list sb_cell * list sb_name := (sbs_shared s, sbs_extern s).

(* ------------------------------------------------------------------ computed premises over the facts *)
Definition sb_all_writers_guarded (F : sb_facts) : bool :=
  forallb (fun c => sb_lookupb c (sbf_exprs F)) sb_writer_classes.
(* every function registered side-effect-free is established pure by the mutation-capability analysis of its C++ body *)
Definition sb_safe_funcs_harmless (F : sb_facts) : bool :=
  forallb (fun p => negb (snd p) || sb_native_pure F (fst p)) (sbf_funcs F).
(* every side-effect-free native whose body invokes a Function argument tests `Sandboxed && !IsSideEffectFree()` first *)
Definition sb_callbacks_guarded (F : sb_facts) : bool :=
  forallb (fun p => snd p || negb (sb_lookupb (fst p) (sbf_funcs F))) (sbf_cbguards F).
(* the facts agree with the reviewed EXPECTED tables: every function registered side-effect-free is listed pure or
   higher-order there (a new one has to be reviewed), the higher-order ones are exactly the listed ones, and no listed
   function that is registered side-effect-free is flagged by the analysis *)
Definition sb_purity_as_expected (F : sb_facts) : bool :=
  forallb (fun p => negb (snd p) || sb_mem (fst p) sb_pure_names || sb_mem (fst p) sb_higher_names) (sbf_funcs F) &&
  forallb (fun p => negb (snd p) || Bool.eqb (sb_native_higher F (fst p)) (sb_mem (fst p) sb_higher_names)) (sbf_funcs F) &&
  forallb (fun n => negb (sb_lookupb n (sbf_funcs F)) || sb_native_pure F n) (sb_pure_names ++ sb_higher_names).
(* sanity of the mutation-capability analysis: it locates and FLAGS every builtin known to mutate its receiver;
   [raw] = (name, (every definition located, no problem found)) *)
Definition sb_analysis_sees_mutators (raw : list (sb_name * (bool * bool))) (names : list sb_name) : bool :=
  forallb (fun n => match sb_assoc n raw with Some (true, false) => true | _ => false end) names.
(* ... and locates every function registered side-effect-free *)
Definition sb_safe_bodies_located (F : sb_facts) (raw : list (sb_name * (bool * bool))) : bool :=
  forallb (fun p => negb (snd p) || match sb_assoc (fst p) raw with Some (true, _) => true | _ => false end) (sbf_funcs F).
Definition sb_container_mutators : list sb_name := Eval vm_compute in
  map sb_enc ["Array#add"; "Array#set"; "Array#remove"; "Array#clear"; "Array#freeze"; "Dictionary#set";
              "Dictionary#remove"; "Dictionary#clear"; "Dictionary#freeze"; "Namespace#set"; "Namespace#remove";
              "Reference#set"; "ConfigObject#modify_attribute"; "ConfigObject#restore_attribute";
              "Checkable#process_check_result"]%string.

(* read paths: the only accessor without the no_user_view test that the interpreter may use is GetOwnField on frame.Self
   in VariableExpression::DoEvaluate (modelled: [sb_raw_read] on Self, harmless because Self is a container) *)
Definition sb_n_VarDoEvaluate := Eval vm_compute in sb_enc "VariableExpression::DoEvaluate"%string.
Definition sb_n_GetOwnField := Eval vm_compute in sb_enc "GetOwnField"%string.
Definition sb_raw_reads_expected (raw : list (sb_name * sb_name)) : bool :=
  forallb (fun p => (fst p =? sb_n_VarDoEvaluate) && (snd p =? sb_n_GetOwnField)) raw.

(* the types frames use as Self have no hidden fields *)
Definition sb_containers_clean (F : sb_facts) : bool :=
  sb_type_clean F sb_t_Namespace && sb_type_clean F sb_t_Dictionary.
(* every Expression subclass of the source has a constructor in the model *)
Definition sb_classes_covered (F : sb_facts) : bool :=
  forallb (fun p => sb_mem (fst p) sb_known_classes) (sbf_exprs F) &&
  forallb (fun c => match sb_assoc c (sbf_exprs F) with Some _ => true | None => false end) sb_known_classes.
(* what the property names explicitly: passwords and the ticket salt must be no_user_view *)
Definition sb_must_hide : list (sb_name * sb_name) := Eval vm_compute in
  map (fun p => (sb_enc (fst p), sb_enc (snd p)))
      [("ApiUser", "password"); ("ApiUser", "password_hash"); ("ApiListener", "ticket_salt")]%string.
Definition sb_secrets_hidden (F : sb_facts) : bool :=
  forallb (fun p => sb_is_hidden F (fst p) (snd p)) sb_must_hide.
(* negated signature of the finding "a destructor resets a process-global singleton": no script-constructible type has a
   constructor / destructor that writes process-global state unconditionally *)
Definition sb_no_global_ctor (F : sb_facts) : bool := match sbf_ctor_global F with [] => true | _ => false end.
Definition sb_no_hidden_global (F : sb_facts) (s : sb_st) : bool :=
  forallb (fun g => match sb_assoc g (nth 0 (sbs_shared s) []) with Some _ => false | None => true end)
          (sbf_hidden_globals F).
Definition sb_frame_ok (F : sb_facts) (fr : sb_frame) : bool :=
  match sbfr_self fr with SbVObj ty _ => sb_type_clean F ty | _ => true end &&
  match sbfr_locals fr with Some (SbVObj ty _) => sb_type_clean F ty | _ => true end.
