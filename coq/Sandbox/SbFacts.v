(* C19: the facts table of the model, computed from the regenerated coq/Facts/Facts_c19.v, and the
   facts of the pinned tree.  Definitions only (this file is what the extraction needs, so the model driver
   can still be built - and search for a failing input - when a premise in SbFactsProofs.v no longer holds). *)
From Icv Require Import Base.Tac Sandbox.SbModel Facts.Facts_c19.
From Coq Require Import NArith String.
Local Open Scope N_scope.

Definition sb_cur_facts : sb_facts := Eval vm_compute in
  {| sbf_exprs := map (fun p => (sb_enc (fst p), snd p)) f_sb_exprs;
     sbf_funcs := map (fun p => (sb_enc (fst p), snd (snd p))) f_sb_funcs;
     sbf_cbguards := map (fun p => (sb_enc (fst p), snd p)) f_sb_cbguards;
     sbf_hidden := map (fun p => (sb_enc (fst p), sb_enc (snd p))) f_sb_hidden;
     sbf_hidden_globals := map sb_enc f_sb_hidden_globals;
     sbf_call_guard := f_sb_call_guard && f_sb_call_guard_before_args;
     sbf_getfield_checked := f_sb_getfield_sandboxed && f_sb_vmops_getfield_forwards && f_sb_getfieldbyname_checks;
     sbf_ref_get_checked := f_sb_reference_get_sandboxed;
     sbf_indexer_noinit := f_sb_indexer_ref_noinit && f_sb_ref_callers_noinit;
     sbf_frame_inherit := f_sb_frame_inherit;
     sbf_userfunc_unsafe := f_sb_userfunc_unsafe && f_sb_function_default_unsafe |}.

Definition sb_cur_body_scan : list (sb_name * (bool * bool)) := Eval vm_compute in
  map (fun p => (sb_enc (fst p), snd p)) f_sb_body_scan.
Definition sb_cur_console_returns_hidden : bool := Eval vm_compute in f_sb_console_returns_hidden.

(* the libraries linked into the harness: what the live enumeration can see *)
Definition sb_cur_func_libs : list (sb_name * sb_name) := Eval vm_compute in
  map (fun p => (sb_enc (fst p), sb_enc (fst (snd p)))) f_sb_funcs.

(* the facts as they were in the pinned tree (before the fix of F-C19-a): SetConst without guard *)
Definition sb_pinned_facts : sb_facts :=
  {| sbf_exprs := map (fun p => if fst p =? sb_n_SetConst then (fst p, false) else p) (sbf_exprs sb_cur_facts);
     sbf_funcs := sbf_funcs sb_cur_facts; sbf_cbguards := sbf_cbguards sb_cur_facts;
     sbf_hidden := sbf_hidden sb_cur_facts; sbf_hidden_globals := sbf_hidden_globals sb_cur_facts;
     sbf_call_guard := sbf_call_guard sb_cur_facts; sbf_getfield_checked := sbf_getfield_checked sb_cur_facts;
     sbf_ref_get_checked := sbf_ref_get_checked sb_cur_facts; sbf_indexer_noinit := sbf_indexer_noinit sb_cur_facts;
     sbf_frame_inherit := sbf_frame_inherit sb_cur_facts; sbf_userfunc_unsafe := sbf_userfunc_unsafe sb_cur_facts |}.

(* the guard table is exactly the expected one: these and only these constructors refuse to run *)
Definition sb_expected_guarded : list sb_name :=
  [sb_n_Apply; sb_n_For; sb_n_ImportDefaultTemplates; sb_n_Import; sb_n_Include; sb_n_Library; sb_n_Object;
   sb_n_Set; sb_n_SetConst; sb_n_While].

(* the frames the product creates for user supplied code: the filter frame and both event frames are
   sandboxed unconditionally, the console frames take the request parameter *)
Definition sb_frames_expected : bool :=
  forallb (fun p => let '(site, want) := p in
                    match find (fun q => String.eqb (fst q) site) f_sb_frames with
                    | Some q => String.eqb (snd q) want | None => false end)
    [("filterutility:2", "true"); ("eventqueue:1", "true"); ("eventqueue:2", "true");
     ("consolehandler:1", "sandboxed"); ("consolehandler:2", "sandboxed")]%string.
