(* C19: the facts table of the model, computed from the regenerated coq/Facts/Facts_c19.v, and the
   facts of the pinned tree.  Definitions only (this file is what the extraction needs, so the model driver
   can still be built - and search for a failing input - when a premise in SbFactsProofs.v no longer holds). *)
From Icv Require Import Base.Tac Sandbox.SbModel Facts.Facts_c19.
From Coq Require Import NArith String.
Local Open Scope N_scope.

(* conditional guards the model understands; one whose condition it does not understand is left out = no guard at all *)
Definition sb_gcond_of (k : string) : option sb_gcond :=
  if String.eqb k "unless-dict-member" then Some SbGcUnlessMember
  else if String.eqb k "if-dict-member" then Some SbGcIfMember else None.
Fixpoint sb_cond_guards_of (l : list (string * (string * string))) : list (sb_name * sb_gcond) :=
  match l with
  | [] => []
  | (c, (_, k)) :: r => match sb_gcond_of k with Some g => (sb_enc c, g) :: sb_cond_guards_of r | None => sb_cond_guards_of r end
  end.

Definition sb_cur_facts : sb_facts := Eval vm_compute in
  {| sbf_exprs := map (fun p => (sb_enc (fst p), snd p)) f_sb_exprs;
     sbf_cond_guards := sb_cond_guards_of f_sb_guard_conds;
     sbf_funcs := map (fun p => (sb_enc (fst p), snd (snd p))) f_sb_funcs;
     sbf_cbguards := map (fun p => (sb_enc (fst p), snd p)) f_sb_cbguards;
     sbf_hidden := map (fun p => (sb_enc (fst p), sb_enc (snd p))) f_sb_hidden;
     sbf_hidden_globals := map sb_enc f_sb_hidden_globals;
     sbf_call_guard := f_sb_call_guard && f_sb_call_guard_before_args;
     sbf_getfield_checked := f_sb_getfield_sandboxed && f_sb_vmops_getfield_forwards && f_sb_getfieldbyname_checks;
     sbf_ref_get_checked := f_sb_reference_get_sandboxed;
     sbf_indexer_noinit := f_sb_indexer_ref_noinit && f_sb_ref_callers_noinit;
     sbf_frame_inherit := f_sb_frame_inherit;
     sbf_userfunc_unsafe := f_sb_userfunc_unsafe && f_sb_function_default_unsafe;
     sbf_var_import_checked := f_sb_var_import_checked;
     sbf_purity := map (fun p => (sb_enc (fst p), fst (snd p) && fst (snd (snd p)))) f_sb_purity;
     sbf_ctor_global := map sb_enc f_sb_ctor_global |}.

(* every class whose guard carries a further condition, understood or not *)
Definition sb_cur_guard_conds : list sb_name := Eval vm_compute in map (fun p => sb_enc (fst p)) f_sb_guard_conds.
(* the parser facts the model's [sb_bind_scope] / [sb_parse_dict] transcribe *)
Definition sb_cur_bind_scope_facts : bool := Eval vm_compute in f_sb_bind_to_scope_shape && f_sb_dict_members_bound.

(* the model treats the Sandboxed flag of a frame as immutable while code runs in it: the only places under lib/ that assign a
   member named Sandboxed (or take a handle on one) are the frame set-up sites - ScriptFrame::InitializeFrame (the inherit
   line, exactly one site in lib/base/scriptframe.cpp) and the API/CLI entry points; nothing in the interpreter (lib/config)
   or in any native *)
Definition sb_sandboxed_write_files : list string :=
  ["lib/base/scriptframe.cpp"; "lib/cli/consolecommand.cpp"; "lib/remote/consolehandler.cpp"; "lib/remote/eventqueue.cpp";
   "lib/remote/filterutility.cpp"]%string.
Definition sb_cur_sandboxed_flag_stable : bool := Eval vm_compute in
  forallb (fun p => existsb (String.eqb (fst p)) sb_sandboxed_write_files &&
                    (negb (String.eqb (fst p) "lib/base/scriptframe.cpp") || Z.eqb (snd p) 1)) f_sb_sandboxed_writes.

Definition sb_cur_raw_reads : list (sb_name * sb_name) := Eval vm_compute in
  map (fun p => (sb_enc (fst p), sb_enc (snd p))) f_sb_raw_reads.

Definition sb_cur_purity_raw : list (sb_name * (bool * bool)) := Eval vm_compute in
  map (fun p => (sb_enc (fst p), (fst (snd p), fst (snd (snd p))))) f_sb_purity.
Definition sb_cur_console_returns_hidden : bool := Eval vm_compute in f_sb_console_returns_hidden.

(* constructor calls: the model's transcription of DefaultObjectFactory (arguments refused unless the type is the one vararg type) *)
Definition sb_cur_ctor_shape : bool := Eval vm_compute in
  f_sb_default_factory_checks_args &&
  match f_sb_vararg_types with [t] => String.eqb t "DateTime" | _ => false end.

(* the analysis' own sanity: its self-test passed (mutating idioms rejected, the pure idioms of the tree accepted), and
   the READ methods of the container classes it relies on are declared const in their headers (all overloads) *)
Definition sb_cur_purity_selftest : bool := Eval vm_compute in f_sb_purity_selftest.
Definition sb_cur_read_methods : list (sb_name * (bool * bool)) := Eval vm_compute in
  map (fun p => (sb_enc (fst p), snd p)) f_sb_read_methods.
(* read methods whose body hands `const_cast<..>(this)` to a reader (ConfigWriter::Emit*, GetPrototypeField) or has an
   out-parameter overload: accepted by name, everything else must have a clean body *)
Definition sb_trusted_read_methods : list sb_name := Eval vm_compute in
  map sb_enc ["Array::ToString"; "Dictionary::ToString"; "Dictionary::Get"; "Namespace::Get"; "Dictionary::GetFieldByName";
              "Namespace::GetFieldByName"; "Object::GetFieldByName"]%string.
Definition sb_read_methods_ok (rm : list (sb_name * (bool * bool))) : bool :=
  Nat.leb 20 (List.length rm) &&
  forallb (fun p => fst (snd p) && (snd (snd p) || sb_mem (fst p) sb_trusted_read_methods)) rm.

(* reflective reads reachable from side-effect-free natives: all through GetFieldByName(.., true, ..), the accessor that
   tests no_user_view with `sandboxed` hard-wired; Reference#get is among them (it is the one that really gets there) *)
Definition sb_cur_native_reflect : list (sb_name * sb_name) := Eval vm_compute in
  map (fun p => (sb_enc (fst p), sb_enc (snd (snd p)))) f_sb_native_reflect.
Definition sb_n_gfbn_true := Eval vm_compute in sb_enc "GetFieldByName:true".
Definition sb_native_reads_checked (l : list (sb_name * sb_name)) : bool :=
  forallb (fun p => snd p =? sb_n_gfbn_true) l && existsb (fun p => fst p =? sb_n_ref_get) l.

(* the libraries linked into the harness: what the live enumeration can see *)
Definition sb_cur_func_libs : list (sb_name * sb_name) := Eval vm_compute in
  map (fun p => (sb_enc (fst p), sb_enc (fst (snd p)))) f_sb_funcs.

(* the facts as they were in the pinned tree (before the fix of F-C19-a): SetConst without guard *)
Definition sb_pinned_facts : sb_facts :=
  {| sbf_exprs := map (fun p => if fst p =? sb_n_SetConst then (fst p, false) else p) (sbf_exprs sb_cur_facts);
     sbf_cond_guards := sbf_cond_guards sb_cur_facts;
     sbf_funcs := sbf_funcs sb_cur_facts; sbf_cbguards := sbf_cbguards sb_cur_facts;
     sbf_hidden := sbf_hidden sb_cur_facts; sbf_hidden_globals := sbf_hidden_globals sb_cur_facts;
     sbf_call_guard := sbf_call_guard sb_cur_facts; sbf_getfield_checked := sbf_getfield_checked sb_cur_facts;
     sbf_ref_get_checked := sbf_ref_get_checked sb_cur_facts; sbf_indexer_noinit := sbf_indexer_noinit sb_cur_facts;
     sbf_frame_inherit := sbf_frame_inherit sb_cur_facts; sbf_userfunc_unsafe := sbf_userfunc_unsafe sb_cur_facts;
     sbf_var_import_checked := sbf_var_import_checked sb_cur_facts; sbf_purity := sbf_purity sb_cur_facts;
     sbf_ctor_global := sbf_ctor_global sb_cur_facts |}.

(* the guard table is exactly the expected one: these and only these constructors refuse to run *)
Definition sb_expected_guarded : list sb_name :=
  [sb_n_Apply; sb_n_For; sb_n_ImportDefaultTemplates; sb_n_Import; sb_n_Include; sb_n_Library; sb_n_Object;
   sb_n_Set; sb_n_SetConst; sb_n_While].

(* Frame STACK discipline at the places where the product evaluates user supplied code.  A frame constructed later
   lies above on the thread's frame stack, and callee frames (Function::Invoke, NamespaceExpression) inherit Sandboxed
   from the stack TOP.  Per site: the LAST frame the function constructs is the user's sandboxed one, and the helpers it
   calls while that frame is alive (FilteredAddTarget, FilterUtility::EvaluateFilter) construct none - so no unsandboxed
   frame is above the user's frame while user code runs. *)
Definition sb_decls_of (fn : string) : list (string * string) :=
  map snd (filter (fun p => String.eqb (fst p) fn) f_sb_frame_decls).
Definition sb_last_is (fn want : string) : bool :=
  match rev (sb_decls_of fn) with (_, a) :: _ => String.eqb a want | [] => false end.
Definition sb_no_decl (fn : string) : bool := match sb_decls_of fn with [] => true | _ => false end.
(* ---- the frame STACK with ScriptFrame::InitializeFrame's inheritance rule, for an ARBITRARY outer stack ----
   A frame is created by a constructor (Sandboxed = the flag the constructor is handed, false if it takes none), then
   InitializeFrame: if the thread's stack is not empty, Sandboxed := Sandboxed of the frame on TOP (this OVERWRITES what
   the constructor was handed); then the frame is pushed.  Only an assignment `frame.Sandboxed = ..` made AFTER construction
   is independent of what lies on the stack.  [stack]: Sandboxed flags, top first. *)
Definition sb_new_frame_flag (inherit ctor_arg : bool) (assigned : option bool) (stack : list bool) : bool :=
  match assigned with
  | Some b => b
  | None => if inherit then match stack with top :: _ => top | [] => ctor_arg end else ctor_arg
  end.
(* the frames a function declares, in source order, pushed over [stack] (earlier ones are still alive) *)
Fixpoint sb_push_decls (inherit : bool) (decls : list (bool * option bool)) (stack : list bool) : list bool :=
  match decls with
  | [] => stack
  | d :: r => sb_push_decls inherit r (sb_new_frame_flag inherit (fst d) (snd d) stack :: stack)
  end.
(* "true", or the request parameter `sandboxed` of a SANDBOXED console request *)
Definition sb_flag_text (t : string) : bool := (String.eqb t "true" || String.eqb t "sandboxed")%string.
Definition sb_site_of (fn : string) : list (bool * option bool) :=
  map (fun p => (f_sb_frame_ctor_third_is_flag && sb_flag_text (fst (snd (snd p))),
                 if String.eqb (snd (snd (snd p))) "unset" then None else Some (sb_flag_text (snd (snd (snd p))))))
      (filter (fun p => String.eqb (fst p) fn) f_sb_frame_decls3).
Definition sb_cur_site_filter : list (bool * option bool) := Eval vm_compute in sb_site_of "FilterUtility::GetFilterTargets".
Definition sb_cur_site_event : list (bool * option bool) := Eval vm_compute in sb_site_of "EventQueue::ProcessEvent".
Definition sb_cur_site_inbox : list (bool * option bool) := Eval vm_compute in sb_site_of "EventsFilter::Push".
Definition sb_cur_site_console : list (bool * option bool) := Eval vm_compute in sb_site_of "ConsoleHandler::ExecuteScriptHelper".
(* InitializeFrame copies the flag from the stack top, and every constructor goes through it *)
Definition sb_cur_inherit : bool := Eval vm_compute in
  f_sb_frame_inherit && Z.eqb (fst f_sb_frame_ctor_counts) (snd f_sb_frame_ctor_counts).
(* the helpers called while the user's frame is alive construct no frame of their own *)
Definition sb_cur_helpers_clean : bool := Eval vm_compute in
  (sb_no_decl "FilteredAddTarget" && sb_no_decl "FilterUtility::EvaluateFilter")%string.
(* Sandboxed of the user's frame (the LAST one the site declares) when the entry point is called below [outer] *)
Definition sb_user_frame_flag (site : list (bool * option bool)) (outer : list bool) : bool :=
  match site with
  | [] => false
  | _ => match sb_push_decls sb_cur_inherit site outer with f :: _ => f | [] => false end
  end.
(* ... and of the frame on top of the stack while the user's code runs *)
Definition sb_user_frame_top (site : list (bool * option bool)) (outer : list bool) : bool :=
  sb_user_frame_flag site outer && sb_cur_helpers_clean.
Definition sb_cur_filter_flag := sb_user_frame_flag sb_cur_site_filter.
Definition sb_cur_event_flag := sb_user_frame_flag sb_cur_site_event.
Definition sb_cur_inbox_flag := sb_user_frame_flag sb_cur_site_inbox.
Definition sb_cur_console_flag := sb_user_frame_flag sb_cur_site_console.
Definition sb_cur_filter_top := sb_user_frame_top sb_cur_site_filter.
Definition sb_cur_event_top := sb_user_frame_top sb_cur_site_event.
Definition sb_cur_inbox_top := sb_user_frame_top sb_cur_site_inbox.
Definition sb_cur_console_top := sb_user_frame_top sb_cur_site_console.
(* every frame created for a user-supplied filter / console line is sandboxed, and so is the stack top, below [outer] *)
Definition sb_frames_expected (outer : list bool) : bool :=
  sb_cur_filter_flag outer && sb_cur_event_flag outer && sb_cur_inbox_flag outer && sb_cur_console_flag outer &&
  sb_cur_filter_top outer && sb_cur_event_top outer && sb_cur_inbox_top outer && sb_cur_console_top outer.
