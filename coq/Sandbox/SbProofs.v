(* C19: sandboxed evaluation leaves the protected component alone, invokes side-effect-free functions only
   and fetches no hidden value - for every program, every fuel, every choice stream, every store, proved
   from boolean premises COMPUTED over the facts table (Sandbox/SbFacts.v discharges them by evaluation
   against the regenerated source facts). *)
From Icv Require Import Base.Tac Sandbox.SbModel.
From Coq Require Import NArith.
Local Open Scope N_scope.

Definition sb_premises (F : sb_facts) : bool :=
  sbf_var_import_checked F &&
  (sb_all_writers_guarded F && sb_safe_funcs_harmless F && sb_callbacks_guarded F && sb_containers_clean F &&
  sbf_call_guard F && sbf_getfield_checked F && sbf_ref_get_checked F && sbf_frame_inherit F).

Lemma sb_assoc_in {V} k (l : list (sb_name * V)) v : sb_assoc k l = Some v -> In (k, v) l.
Proof.
  induction l as [|[k' v'] r IH]; simpl; [discriminate|].
  destruct (k =? k') eqn:E.
  - intros H; inv H. apply N.eqb_eq in E. subst. left; reflexivity.
  - intros H. right. apply IH. exact H.
Qed.

Lemma sb_mem_in k l : sb_mem k l = true -> In k l.
Proof.
  unfold sb_mem. intros H. apply existsb_exists in H. destruct H as [x [Hin Hx]].
  apply N.eqb_eq in Hx. subst. exact Hin.
Qed.

Section SbSafety.
  Variable F : sb_facts.

  Definition sb_global_defined (s : sb_st) (g : sb_name) : bool :=
    match sb_assoc g (nth 0 (sbs_shared s) []) with Some _ => true | None => false end.
  Definition sb_rd_ok (s : sb_st) (r : sb_read) : Prop :=
    match r with
    | SbRdGlobal g => sb_mem g (sbf_hidden_globals F) = true /\ sb_global_defined s g = true
    | SbRdField _ _ => False
    end.

  (* what a sandboxed step may do to the state *)
  Definition sb_le (s s' : sb_st) : Prop :=
    sbs_shared s' = sbs_shared s /\
    (* the external component grows only by the logged effects of constructing a type of [sbf_ctor_global] *)
    (exists w, sbs_extern s' = w ++ sbs_extern s /\ Forall (fun x => sb_mem x (sbf_ctor_global F) = true) w) /\
    (exists c, sbs_calls s' = c ++ sbs_calls s /\ Forall (fun x => snd x = true) c) /\
    (exists r, sbs_reads s' = r ++ sbs_reads s /\ Forall (sb_rd_ok s) r).

  Lemma sb_le_refl s : sb_le s s.
  Proof. repeat split; try (exists []; split; [reflexivity|constructor]). Qed.

  Lemma sb_rd_ok_shared s s' r : sbs_shared s' = sbs_shared s -> sb_rd_ok s' r -> sb_rd_ok s r.
  Proof. intros E. destruct r; simpl; [tauto|]. unfold sb_global_defined. rewrite E. tauto. Qed.

  Lemma sb_le_trans s1 s2 s3 : sb_le s1 s2 -> sb_le s2 s3 -> sb_le s1 s3.
  Proof.
    intros (A1 & (w1 & B1 & E1) & (c1 & C1 & D1) & (r1 & R1 & Q1)) (A2 & (w2 & B2 & E2) & (c2 & C2 & D2) & (r2 & R2 & Q2)).
    split; [congruence|]. split; [|split].
    - exists (w2 ++ w1). rewrite B2, B1, app_assoc. split; [reflexivity|]. apply Forall_app; split; assumption.
    - exists (c2 ++ c1). rewrite C2, C1, app_assoc. split; [reflexivity|]. apply Forall_app; split; assumption.
    - exists (r2 ++ r1). rewrite R2, R1, app_assoc. split; [reflexivity|]. apply Forall_app; split; [|assumption].
      eapply Forall_impl; [|exact Q2]. intros a. apply sb_rd_ok_shared. exact A1.
  Qed.

  Definition sb_safe {A} (m : sb_M A) : Prop := forall s, sb_le s (snd (m s)).

  Lemma sb_safe_ret {A} (a : A) : sb_safe (sb_ret a).
  Proof. intros s. apply sb_le_refl. Qed.
  Lemma sb_safe_fail {A} e : sb_safe (@sb_fail A e).
  Proof. intros s. apply sb_le_refl. Qed.
  Lemma sb_safe_ctl {A} c v : sb_safe (@sb_ctl A c v).
  Proof. intros s. apply sb_le_refl. Qed.
  Lemma sb_safe_nofuel {A} : sb_safe (@sb_nofuel A).
  Proof. intros s. apply sb_le_refl. Qed.

  Lemma sb_safe_bind {A B} (m : sb_M A) (k : A -> sb_M B) :
    sb_safe m -> (forall a, sb_safe (k a)) -> sb_safe (sb_bind m k).
  Proof.
    intros Hm Hk s. unfold sb_bind. specialize (Hm s). destruct (m s) as [r s'] eqn:E. simpl in Hm.
    destruct r; simpl; try exact Hm. eapply sb_le_trans; [exact Hm|apply Hk].
  Qed.

  Lemma sb_safe_catch {A} (m h : sb_M A) : sb_safe m -> sb_safe h -> sb_safe (sb_catch m h).
  Proof.
    intros Hm Hh s. unfold sb_catch. specialize (Hm s). destruct (m s) as [r s'] eqn:E. simpl in Hm.
    destruct r; simpl; try exact Hm. eapply sb_le_trans; [exact Hm|apply Hh].
  Qed.

  Lemma sb_safe_choose : sb_safe sb_choose.
  Proof. intros s. unfold sb_choose. destruct (sbs_choices s); simpl; apply sb_le_refl || (repeat split; simpl; try (exists []; split; [reflexivity|constructor])). Qed.

  Lemma sb_safe_alloc ty c : sb_safe (sb_alloc ty c).
  Proof. intros s. repeat split; simpl; try (exists []; split; [reflexivity|constructor]). Qed.

  Lemma sb_safe_bind_alloc {B} ty c (k : sb_val -> sb_M B) :
    (forall o, sb_safe (k (SbVObj ty o))) -> sb_safe (sb_bind (sb_alloc ty c) k).
  Proof.
    intros Hk s. unfold sb_bind, sb_alloc. eapply sb_le_trans; [|apply Hk].
    repeat split; simpl; try (exists []; split; [reflexivity|constructor]).
  Qed.

  (* constructing a type whose constructor / destructor writes process-global state: the one extern write a sandboxed step may do *)
  Lemma sb_safe_ctor_effect t : sb_mem t (sbf_ctor_global F) = true -> sb_safe (sb_extern_write t).
  Proof.
    intros Ht s. repeat split; simpl; try (exists []; split; [reflexivity|constructor]).
    exists [t]. split; [reflexivity|]. constructor; [exact Ht|constructor].
  Qed.

  Lemma sb_safe_fields v : sb_safe (sb_fields v).
  Proof. intros s. apply sb_le_refl. Qed.

  Lemma sb_safe_log_call n : sb_safe (sb_log_call n true).
  Proof.
    intros s. repeat split; simpl; try (exists []; split; [reflexivity|constructor]).
    exists [(n, true)]. split; [reflexivity|]. constructor; [reflexivity|constructor].
  Qed.

  Lemma sb_safe_truth v : sb_safe (sb_truth v).
  Proof.
    destruct v; simpl; try apply sb_safe_ret;
      (apply sb_safe_bind; [apply sb_safe_choose|intros; apply sb_safe_ret]).
  Qed.

  Lemma sb_clean_not_hidden ty f : sb_type_clean F ty = true -> sb_is_hidden F ty f = false.
  Proof.
    unfold sb_type_clean, sb_is_hidden. intros H. apply negb_true_iff in H.
    destruct (existsb (fun p => (fst p =? ty) && (snd p =? f)) (sbf_hidden F)) eqn:E; [|reflexivity].
    apply existsb_exists in E. destruct E as [x [Hin Hx]]. apply andb_true_iff in Hx. destruct Hx as [Hx _].
    assert (existsb (fun p => fst p =? ty) (sbf_hidden F) = true) as C
      by (apply existsb_exists; exists x; split; assumption).
    congruence.
  Qed.

  Lemma sb_safe_raw_read ty o f : sb_is_hidden F ty f = false -> sb_safe (sb_raw_read F ty o f).
  Proof.
    intros Hh s. unfold sb_raw_read. destruct (sb_assoc f (sb_cell_of s o)) eqn:E; [|apply sb_le_refl].
    rewrite Hh. destruct (sb_is_globals o && sb_mem f (sbf_hidden_globals F)) eqn:G; [|apply sb_le_refl].
    apply andb_true_iff in G. destruct G as [G1 G2].
    unfold sb_bind, sb_log_read, sb_ret. simpl.
    repeat split; simpl; try (exists []; split; [reflexivity|constructor]).
    exists [SbRdGlobal f]. split; [reflexivity|]. constructor; [|constructor].
    simpl. split; [exact G2|]. unfold sb_global_defined.
    destruct o as [[|i]|i]; simpl in G1; try discriminate. simpl in E. rewrite E. reflexivity.
  Qed.

  Lemma sb_safe_getfield v f : sbf_getfield_checked F = true -> sb_safe (sb_getfield F true v f).
  Proof.
    intros Hc. destruct v; simpl; try apply sb_safe_ret. rewrite Hc.
    destruct (sb_is_hidden F ty f) eqn:Hh; simpl; [apply sb_safe_fail|].
    apply sb_safe_bind; [apply sb_safe_raw_read; exact Hh|]. intros [x|]; apply sb_safe_ret.
  Qed.

  (* ---- the interpreter, relative to safe sub-evaluators ---- *)
  Hypothesis Hprem : sb_premises F = true.

  Lemma sb_prem_split :
    sb_all_writers_guarded F = true /\ sb_safe_funcs_harmless F = true /\ sb_callbacks_guarded F = true /\
    sb_containers_clean F = true /\ sbf_call_guard F = true /\ sbf_getfield_checked F = true /\
    sbf_ref_get_checked F = true /\ sbf_frame_inherit F = true.
  Proof.
    pose proof Hprem as H. unfold sb_premises in H. apply andb_true_iff in H. destruct H as [_ H].
    do 7 (apply andb_true_iff in H; destruct H as [H ?]). repeat split; assumption.
  Qed.

  Lemma sb_prem_import : sbf_var_import_checked F = true.
  Proof. pose proof Hprem as H. unfold sb_premises in H. apply andb_true_iff in H. tauto. Qed.

  Lemma sb_ns_clean : sb_type_clean F sb_t_Namespace = true.
  Proof. destruct sb_prem_split as (_ & _ & _ & H & _). apply andb_true_iff in H. tauto. Qed.
  Lemma sb_dict_clean : sb_type_clean F sb_t_Dictionary = true.
  Proof. destruct sb_prem_split as (_ & _ & _ & H & _). apply andb_true_iff in H. tauto. Qed.

  (* the frame is sandboxed, no unsandboxed frame lies above it on the frame stack, Self/Locals are containers *)
  Definition sb_fr_good (fr : sb_frame) : Prop :=
    sbfr_sandboxed fr = true /\ sbfr_top fr = true /\ sb_frame_ok F fr = true.

  Section SbRel.
    Variable ev : sb_frame -> sb_expr -> sb_M sb_val.
    Variable inv : sb_frame -> sb_fun -> sb_val -> list sb_val -> sb_M sb_val.
    Hypothesis Hev : forall fr e, sb_fr_good fr -> sb_safe (ev fr e).
    Hypothesis Hinv : forall fr g self args,
      sbfr_top fr = true -> sb_fun_safe F g = true -> sb_safe (inv fr g self args).

    Lemma sb_safe_evals fr es : sb_fr_good fr -> sb_safe (sb_evals ev fr es).
    Proof.
      intros G. induction es; simpl; [apply sb_safe_ret|].
      apply sb_safe_bind; [apply Hev; exact G|intros]. apply sb_safe_bind; [exact IHes|intros; apply sb_safe_ret].
    Qed.
    Lemma sb_safe_seq fr es v : sb_fr_good fr -> sb_safe (sb_seq ev fr es v).
    Proof.
      intros G. revert v. induction es; simpl; intros; [apply sb_safe_ret|].
      apply sb_safe_bind; [apply Hev; exact G|intros; apply IHes].
    Qed.
    Lemma sb_safe_loop_body m : sb_safe m -> sb_safe (sb_loop_body m).
    Proof.
      intros Hm s. unfold sb_loop_body. specialize (Hm s). destruct (m s) as [r s']. simpl in Hm.
      destruct r as [a|c v|e|]; try destruct c; simpl; exact Hm.
    Qed.
    Lemma sb_safe_while k fr c body : sb_fr_good fr -> sb_safe (sb_while ev k fr c body).
    Proof.
      intros G. induction k; simpl; [apply sb_safe_nofuel|].
      apply sb_safe_bind; [apply Hev; exact G|intros]. apply sb_safe_bind; [apply sb_safe_truth|intros t].
      destruct t; [|apply sb_safe_ret].
      apply sb_safe_bind; [apply sb_safe_loop_body; apply Hev; exact G|intros stop].
      destruct stop; [apply sb_safe_ret|exact IHk].
    Qed.

    Lemma sb_safe_find_import fr n imports : sb_fr_good fr -> sb_safe (sb_find_import ev fr n imports).
    Proof.
      intros G. induction imports; simpl; [apply sb_safe_ret|].
      apply sb_safe_bind; [apply Hev; exact G|intros v]. destruct v; try apply sb_safe_fail.
      apply sb_safe_bind; [apply sb_safe_fields|intros c]. destruct (sb_assoc n c); [apply sb_safe_ret|exact IHimports].
    Qed.

    Lemma sb_safe_var_read fr n imports : sb_fr_good fr -> sb_safe (sb_var_read F ev fr n imports).
    Proof.
      intros G0. pose proof G0 as (Gs0 & _ & G). unfold sb_frame_ok in G. apply andb_true_iff in G. destruct G as [G1 G2].
      unfold sb_var_read. apply sb_safe_bind.
      - destruct (sbfr_locals fr) as [[]|]; try apply sb_safe_ret.
        apply sb_safe_raw_read. apply sb_clean_not_hidden. exact G2.
      - intros [x|]; [apply sb_safe_ret|]. apply sb_safe_bind.
        + destruct (sbfr_self fr); try apply sb_safe_ret.
          apply sb_safe_raw_read. apply sb_clean_not_hidden. exact G1.
        + intros [x|]; [apply sb_safe_ret|]. apply sb_safe_bind; [apply sb_safe_find_import; exact G0|].
          intros [iv|].
          * destruct iv; try apply sb_safe_fail. rewrite sb_prem_import, Gs0.
            apply sb_safe_getfield. destruct sb_prem_split as (_ & _ & _ & _ & _ & Hgf & _). exact Hgf.
          * apply sb_safe_bind.
            -- apply sb_safe_raw_read. apply sb_clean_not_hidden. apply sb_ns_clean.
            -- intros [x|]; [apply sb_safe_ret|apply sb_safe_fail].
    Qed.

    Lemma sb_safe_getref fr e : sb_fr_good fr -> sb_safe (sb_getref F ev fr false e).
    Proof.
      intros G. pose proof G as (Gs & _ & _).
      destruct sb_prem_split as (_ & _ & _ & _ & _ & Hgf & _).
      induction e; simpl; try apply sb_safe_ret.
      - (* Variable *)
        apply sb_safe_bind; [destruct (sbfr_locals fr); [apply sb_safe_fields|apply sb_safe_ret]|intros lc].
        destruct (sb_assoc n lc); destruct (sbfr_locals fr); try apply sb_safe_ret;
          (apply sb_safe_bind; [apply sb_safe_fields|intros sc]; destruct (sb_assoc n sc); [apply sb_safe_ret|];
           apply sb_safe_bind; [apply sb_safe_find_import; exact G|intros iv]; destruct iv; [apply sb_safe_ret|];
           apply sb_safe_bind; [apply sb_safe_fields|intros gc]; destruct (sb_assoc n gc); apply sb_safe_ret).
      - (* Deref *)
        apply sb_safe_bind; [apply Hev; exact G|intros v]. destruct v; try apply sb_safe_fail. apply sb_safe_ret.
      - (* Indexer *)
        assert ((if sbfr_sandboxed fr && sbf_indexer_noinit F then false else false) = false) as E
          by (destruct (sbfr_sandboxed fr && sbf_indexer_noinit F); reflexivity).
        rewrite E. apply sb_safe_bind; [exact IHe1|intros r].
        apply sb_safe_bind.
        + destruct r as [[vp vi]|]; [|apply Hev; exact G].
          apply sb_safe_bind; [apply sb_safe_ret|intros _]. rewrite Gs. apply sb_safe_getfield. exact Hgf.
        + intros parent. apply sb_safe_bind; [apply Hev; exact G|intros; apply sb_safe_ret].
    Qed.

    Lemma sb_guard_of_writer e :
      In (sb_class_name e) sb_writer_classes -> sb_guarded F e = true.
    Proof.
      intros Hin. destruct sb_prem_split as (Hw & _). unfold sb_all_writers_guarded in Hw.
      rewrite forallb_forall in Hw. unfold sb_guarded. rewrite (Hw _ Hin). reflexivity.
    Qed.

    Lemma sb_sub_frame_good fr self locals :
      sbfr_top fr = true ->
      match self with SbVObj ty _ => sb_type_clean F ty = true | _ => True end ->
      match locals with Some (SbVObj ty _) => sb_type_clean F ty = true | _ => True end ->
      sb_fr_good (sb_sub_frame F fr self locals).
    Proof.
      intros Gs H1 H2. destruct sb_prem_split as (_ & _ & _ & _ & _ & _ & _ & Hi).
      assert (sb_inherit F fr = true) as E by (unfold sb_inherit; rewrite Hi, Gs; reflexivity).
      split; [|split]; simpl; try exact E.
      - unfold sb_frame_ok. simpl. apply andb_true_iff. split.
        + destruct self; try reflexivity. exact H1.
        + destruct locals as [[]|]; try reflexivity. exact H2.
    Qed.

    Lemma sb_step_safe n fr e : sb_fr_good fr -> sb_safe (sb_step F ev inv n fr e).
    Proof.
      intros G. pose proof G as (Gs & Gt & Gok).
      destruct sb_prem_split as (_ & _ & _ & _ & Hcg & Hgf & Hrg & Hi).
      unfold sb_step. rewrite Gs. simpl andb.
      destruct (sb_guarded F e) eqn:Hg; [apply sb_safe_fail|].
      assert (forall e', sb_safe (ev fr e')) as Hev' by (intros; apply Hev; exact G).
      destruct e;
        try (rewrite sb_guard_of_writer in Hg; [discriminate|simpl; tauto]).
      - apply sb_safe_ret.
      - apply sb_safe_var_read; exact G.
      - destruct sc; apply sb_safe_ret.
      - (* Ref *)
        apply sb_safe_bind; [apply sb_safe_getref; exact G|intros r].
        destruct r as [[[] i]|]; try apply sb_safe_fail. apply sb_safe_ret.
      - (* Deref *)
        apply sb_safe_bind; [apply Hev'|intros v]. destruct v; try apply sb_safe_fail.
        rewrite Hrg. apply sb_safe_getfield. exact Hgf.
      - apply sb_safe_bind; [apply Hev'|intros; apply sb_safe_ret].
      - apply sb_safe_bind; [apply Hev'|intros]. apply sb_safe_bind; [apply sb_safe_truth|intros; apply sb_safe_ret].
      - apply sb_safe_bind; [apply Hev'|intros]. apply sb_safe_bind; [apply Hev'|intros; apply sb_safe_ret].
      - (* In *)
        apply sb_safe_bind; [apply Hev'|intros vb]. destruct vb; try apply sb_safe_fail; try apply sb_safe_ret.
        apply sb_safe_bind; [apply Hev'|intros; apply sb_safe_ret].
      - apply sb_safe_bind; [apply Hev'|intros vb]. destruct vb; try apply sb_safe_fail; try apply sb_safe_ret.
        apply sb_safe_bind; [apply Hev'|intros; apply sb_safe_ret].
      - apply sb_safe_bind; [apply Hev'|intros]. apply sb_safe_bind; [apply sb_safe_truth|intros t].
        destruct t; [apply Hev'|apply sb_safe_ret].
      - apply sb_safe_bind; [apply Hev'|intros]. apply sb_safe_bind; [apply sb_safe_truth|intros t].
        destruct t; [apply sb_safe_ret|apply Hev'].
      - (* FunctionCall *)
        apply sb_safe_bind; [apply sb_safe_getref; exact G|intros r].
        apply sb_safe_bind.
        + destruct r as [[self i]|].
          * apply sb_safe_bind; [apply sb_safe_getfield; exact Hgf|intros; apply sb_safe_ret].
          * apply sb_safe_bind; [apply Hev'|intros; apply sb_safe_ret].
        + intros [self vf]. simpl. destruct vf; try apply sb_safe_fail.
          * rewrite Hcg. simpl. destruct (sb_fun_safe F f) eqn:Hs; simpl; [|apply sb_safe_fail].
            apply sb_safe_bind; [apply sb_safe_evals; exact G|intros vs]. apply Hinv; assumption.
          * apply sb_safe_bind; [apply sb_safe_evals; exact G|intros vs].
            match goal with |- sb_safe (if ?c then _ else _) => destruct c end; [apply sb_safe_ret|].
            apply sb_safe_bind; [match goal with |- sb_safe (if ?c then _ else _) => destruct c end; [apply sb_safe_fail|apply sb_safe_ret]|intros _].
            apply sb_safe_bind; [|intros; apply sb_safe_alloc].
            destruct (sb_mem t (sbf_ctor_global F)) eqn:Hct; [apply sb_safe_ctor_effect; exact Hct|apply sb_safe_ret].
      - apply sb_safe_bind; [apply sb_safe_evals; exact G|intros; apply sb_safe_alloc].
      - (* Dict *)
        destruct inline; [apply sb_safe_seq; exact G|].
        apply sb_safe_bind_alloc. intros o. apply sb_safe_bind; [|intros; apply sb_safe_ret].
        apply sb_safe_seq. split; [reflexivity|]. split; [exact Gt|]. unfold sb_frame_ok in *. simpl.
        apply andb_true_iff in Gok. destruct Gok as [_ G2]. rewrite G2, sb_dict_clean. reflexivity.
      - (* Conditional *)
        apply sb_safe_bind; [apply Hev'|intros]. apply sb_safe_bind; [apply sb_safe_truth|intros t].
        destruct t; [apply Hev'|]. destruct f; [apply Hev'|apply sb_safe_ret].
      - apply sb_safe_while; exact G.
      - apply sb_safe_bind; [apply Hev'|intros; apply sb_safe_ctl].
      - apply sb_safe_ctl.
      - apply sb_safe_ctl.
      - (* Indexer *)
        apply sb_safe_bind; [apply Hev'|intros]. apply sb_safe_bind; [apply Hev'|intros].
        apply sb_safe_getfield. exact Hgf.
      - apply sb_safe_bind; [apply Hev'|intros; apply sb_safe_fail].
      - (* Import *)
        apply sb_safe_bind; [apply Hev'|intros]. apply sb_safe_bind; [apply Hev'|intros; apply sb_safe_ret].
      - apply sb_safe_bind; [apply sb_safe_seq; exact G|intros; apply sb_safe_ret].
      - apply sb_safe_bind; [apply sb_safe_evals; exact G|intros; apply sb_safe_ret].
      - (* Namespace *)
        apply sb_safe_bind_alloc. intros o. apply sb_safe_bind_alloc. intros o2.
        apply sb_safe_bind; [|intros; apply sb_safe_ret]. apply Hev.
        apply sb_sub_frame_good; [exact Gt|apply sb_ns_clean|apply sb_dict_clean].
      - apply sb_safe_bind; [apply Hev'|intros; apply sb_safe_ret].
      - apply sb_safe_ret.
      - (* TryExcept *)
        apply sb_safe_catch; (apply sb_safe_bind; [apply Hev'|intros; apply sb_safe_ret]).
      - apply Hev'.
    Qed.

    Lemma sb_safe_each fr g items :
      sbfr_top fr = true -> sb_fun_safe F g = true -> sb_safe (sb_each inv fr g items).
    Proof.
      intros Gs Hs. induction items as [|[k x] r IH]; simpl; [apply sb_safe_ret|].
      apply sb_safe_bind; [apply Hinv; assumption|intros; exact IH].
    Qed.

    Lemma sb_invoke_safe fr f self args :
      sbfr_top fr = true -> sb_fun_safe F f = true -> sb_safe (sb_invoke F ev inv fr f self args).
    Proof.
      intros Gs Hs. destruct sb_prem_split as (_ & Hh & Hcb & _ & _ & Hgf & Hrg & Hi).
      destruct f as [nm|params body]; unfold sb_invoke.
      - rewrite Hs. apply sb_safe_bind; [apply sb_safe_log_call|intros _].
        assert (sb_native_pure F nm = true) as Hp.
        { simpl in Hs. unfold sb_lookupb in Hs. destruct (sb_assoc nm (sbf_funcs F)) as [b|] eqn:E; [|discriminate].
          subst b. apply sb_assoc_in in E. unfold sb_safe_funcs_harmless in Hh. rewrite forallb_forall in Hh.
          specialize (Hh _ E). simpl in Hh. exact Hh. }
        unfold sb_class_of. rewrite Hp. simpl negb. cbv iota.
        destruct (sb_native_higher F nm) eqn:Hcl.
        + assert (sb_lookupb nm (sbf_cbguards F) = true) as Hg.
          { unfold sb_native_higher in Hcl. unfold sb_lookupb.
            destruct (sb_assoc nm (sbf_cbguards F)) as [b|] eqn:E; [|discriminate].
            apply sb_assoc_in in E. unfold sb_callbacks_guarded in Hcb. rewrite forallb_forall in Hcb.
            specialize (Hcb _ E). simpl in Hcb. simpl in Hs. rewrite Hs in Hcb. simpl in Hcb.
            rewrite orb_false_r in Hcb. exact Hcb. }
          destruct args as [|[] rest]; try apply sb_safe_fail.
          * apply sb_safe_bind; [apply sb_safe_choose|intros; apply sb_safe_ret].
          * unfold sb_inherit. rewrite Hi, Gs, Hg. simpl.
            destruct (sb_fun_safe F f) eqn:Hf; simpl; [|apply sb_safe_fail].
            apply sb_safe_bind; [apply sb_safe_fields|intros items].
            apply sb_safe_bind; [apply sb_safe_each; assumption|intros _].
            apply sb_safe_bind; [apply sb_safe_choose|intros; apply sb_safe_ret].
        + assert (sb_safe (c <- sb_choose ;; if sbc_b c then @sb_fail sb_val SbEOther else sb_ret (sbc_v c))) as Hch.
          { apply sb_safe_bind; [apply sb_safe_choose|intros c]. destruct (sbc_b c); [apply sb_safe_fail|apply sb_safe_ret]. }
          destruct self; try exact Hch. destruct (nm =? sb_n_ref_get); [|exact Hch].
          rewrite Hrg. apply sb_safe_getfield. exact Hgf.
      - rewrite Hs. apply sb_safe_bind; [apply sb_safe_log_call|intros _].
        apply sb_safe_bind_alloc. intros o s.
        assert (sb_safe (ev (sb_sub_frame F fr sb_globals_val (Some (SbVObj sb_t_Dictionary o))) body)) as Hb.
        { apply Hev. apply sb_sub_frame_good; [exact Gs|apply sb_ns_clean|apply sb_dict_clean]. }
        specialize (Hb s). destruct (ev _ body s) as [r s']. simpl in Hb.
        destruct r as [a|c v|e|]; try destruct c; simpl; exact Hb.
    Qed.
  End SbRel.

  Definition sb_rq_ok (rq : sb_req) : Prop :=
    match rq with
    | SbRqEval fr _ => sb_fr_good fr
    | SbRqInvoke fr f _ _ => sbfr_top fr = true /\ sb_fun_safe F f = true
    end.

  Lemma sb_run_safe fuel : forall rq, sb_rq_ok rq -> sb_safe (sb_run F fuel rq).
  Proof.
    induction fuel; intros rq Hok; simpl; [apply sb_safe_nofuel|].
    destruct rq; simpl in Hok.
    - apply sb_step_safe; [intros; apply IHfuel; assumption| |exact Hok].
      intros; apply IHfuel; split; assumption.
    - destruct Hok. apply sb_invoke_safe; try assumption.
      + intros; apply IHfuel; assumption.
      + intros; apply IHfuel; split; assumption.
  Qed.
End SbSafety.

(* ------------------------------------------------------------------ the three theorems *)
(* without any hypothesis on the constructible types: the shared heap is untouched, and the external component grows only by
   the logged effects of constructing a type whose constructor / destructor writes process-global state *)
Lemma sb_writes_only_ctor_effects F fuel fr e s :
  sb_premises F = true -> sbfr_sandboxed fr = true -> sbfr_top fr = true -> sb_frame_ok F fr = true ->
  sbs_shared (snd (sb_eval F fuel fr e s)) = sbs_shared s /\
  exists w, sbs_extern (snd (sb_eval F fuel fr e s)) = w ++ sbs_extern s /\
            Forall (fun x => sb_mem x (sbf_ctor_global F) = true) w.
Proof.
  intros Hp Hs Ht Hok. pose proof (sb_run_safe F Hp fuel (SbRqEval fr e) (conj Hs (conj Ht Hok)) s) as (A & B & _).
  split; [exact A|exact B].
Qed.

Lemma sb_no_ctor_effects F (w : list sb_name) :
  sb_no_global_ctor F = true -> Forall (fun x => sb_mem x (sbf_ctor_global F) = true) w -> w = [].
Proof.
  unfold sb_no_global_ctor. destruct (sbf_ctor_global F); [|discriminate]. intros _ H.
  destruct w as [|x w]; [reflexivity|]. inv H. discriminate.
Qed.

Lemma sb_no_write F fuel fr e s :
  sb_premises F = true -> sb_no_global_ctor F = true ->
  sbfr_sandboxed fr = true -> sbfr_top fr = true -> sb_frame_ok F fr = true ->
  sb_protected (snd (sb_eval F fuel fr e s)) = sb_protected s.
Proof.
  intros Hp Hc Hs Ht Hok. destruct (sb_writes_only_ctor_effects F fuel fr e s Hp Hs Ht Hok) as (A & w & B & W).
  rewrite (sb_no_ctor_effects F w Hc W) in B. unfold sb_protected. rewrite A, B. reflexivity.
Qed.

Lemma sb_calls_safe F fuel fr e s :
  sb_premises F = true -> sbfr_sandboxed fr = true -> sbfr_top fr = true -> sb_frame_ok F fr = true ->
  exists c, sbs_calls (snd (sb_eval F fuel fr e s)) = c ++ sbs_calls s /\ Forall (fun x => snd x = true) c.
Proof.
  intros Hp Hs Ht Hok. pose proof (sb_run_safe F Hp fuel (SbRqEval fr e) (conj Hs (conj Ht Hok)) s) as (_ & _ & C & _).
  exact C.
Qed.

Lemma sb_no_read_hidden F fuel fr e s :
  sb_premises F = true -> sbfr_sandboxed fr = true -> sbfr_top fr = true -> sb_frame_ok F fr = true ->
  sb_no_hidden_global F s = true ->
  sbs_reads (snd (sb_eval F fuel fr e s)) = sbs_reads s.
Proof.
  intros Hp Hs Ht Hok Hng. pose proof (sb_run_safe F Hp fuel (SbRqEval fr e) (conj Hs (conj Ht Hok)) s) as (_ & _ & _ & (r & R & Q)).
  unfold sb_eval. rewrite R. destruct r as [|x r]; [reflexivity|]. exfalso.
  inv Q. destruct x; simpl in H1; [contradiction|]. destruct H1 as [M D].
  unfold sb_no_hidden_global in Hng. rewrite forallb_forall in Hng. specialize (Hng g (sb_mem_in _ _ M)).
  unfold sb_global_defined in D. destruct (sb_assoc g (nth 0 (sbs_shared s) [])); discriminate.
Qed.

(* ------------------------------------------------------------------ natives *)
(* registered side-effect-free => established pure by the analysis of the C++ body (premise [sb_safe_funcs_harmless]) *)
Lemma sb_safe_native_is_pure F nm :
  sb_premises F = true -> sb_fun_safe F (SbNative nm) = true -> sb_native_pure F nm = true.
Proof.
  intros Hp Hs. destruct (sb_prem_split F Hp) as (_ & Hh & _).
  simpl in Hs. unfold sb_lookupb in Hs. destruct (sb_assoc nm (sbf_funcs F)) as [b|] eqn:E; [|discriminate].
  subst b. apply sb_assoc_in in E. unfold sb_safe_funcs_harmless in Hh. rewrite forallb_forall in Hh.
  specialize (Hh _ E). simpl in Hh. exact Hh.
Qed.

(* a native established pure that takes no callback returns a value or raises an error; the shared heap - in particular
   every cell reachable from its receiver and its arguments -, the external component, the local heap and the log of
   hidden reads are what they were *)
Lemma sb_pure_native F fuel fr nm self args s :
  sb_native_pure F nm = true -> sb_native_higher F nm = false -> (nm =? sb_n_ref_get) = false ->
  let r := sb_run F (S fuel) (SbRqInvoke fr (SbNative nm) self args) s in
  ((exists v, fst r = SbROk v) \/ fst r = SbRErr SbEOther) /\
  (forall i, In i (sb_reach s (self :: args)) -> nth i (sbs_shared (snd r)) [] = nth i (sbs_shared s) []) /\
  sbs_shared (snd r) = sbs_shared s /\ sbs_extern (snd r) = sbs_extern s /\ sbs_local (snd r) = sbs_local s /\
  sbs_reads (snd r) = sbs_reads s.
Proof.
  intros Hp Hh Hn. cbn [sb_run sb_invoke]. unfold sb_class_of. rewrite Hp, Hh. cbn [negb].
  assert (forall (m : sb_M sb_val),
            m = (c <- sb_choose ;; if sbc_b c then sb_fail SbEOther else sb_ret (sbc_v c)) ->
            let r := (sb_log_call nm (sb_fun_safe F (SbNative nm)) ;;; m) s in
            ((exists v, fst r = SbROk v) \/ fst r = SbRErr SbEOther) /\
            (forall i, In i (sb_reach s (self :: args)) -> nth i (sbs_shared (snd r)) [] = nth i (sbs_shared s) []) /\
            sbs_shared (snd r) = sbs_shared s /\ sbs_extern (snd r) = sbs_extern s /\ sbs_local (snd r) = sbs_local s /\
            sbs_reads (snd r) = sbs_reads s) as H.
  { intros m ->. unfold sb_bind, sb_log_call, sb_choose, sb_fail, sb_ret. cbn.
    destruct (sbs_choices s) as [|c r]; cbn.
    - repeat split; try reflexivity. left. eexists. reflexivity.
    - destruct (sbc_b c); cbn; repeat split; try reflexivity; [right; reflexivity|left; eexists; reflexivity]. }
  destruct self; try (apply H; reflexivity). rewrite Hn. apply H; reflexivity.
Qed.

(* Reference#get (Reference::Get) on a reference to a no_user_view field of an object is refused and fetches nothing -
   given the facts "Reference::Get reads with sandboxed = true" and "GetFieldByName tests FANoUserView" *)
Lemma sb_reference_get_refused F fuel fr ty o idx args s :
  sb_class_of F sb_n_ref_get = SbPure -> sbf_ref_get_checked F = true -> sbf_getfield_checked F = true ->
  sb_is_hidden F ty idx = true ->
  let r := sb_run F (S fuel) (SbRqInvoke fr (SbNative sb_n_ref_get) (SbVRef ty o idx) args) s in
  fst r = SbRErr SbESandbox /\ sbs_reads (snd r) = sbs_reads s /\ sb_protected (snd r) = sb_protected s.
Proof.
  intros Hc Hr Hg Hh. cbn [sb_run sb_invoke]. rewrite Hc. rewrite N.eqb_refl.
  unfold sb_getfield. rewrite Hh, Hr, Hg. cbn. repeat split; reflexivity.
Qed.

(* every native registered side-effect-free, the callback-taking ones included (their callbacks are tested): invoked
   below a sandboxed stack top it leaves every cell reachable from receiver and arguments, and the whole protected
   component, unchanged *)
Lemma sb_safe_native_preserves F fuel fr nm self args s :
  sb_premises F = true -> sb_no_global_ctor F = true -> sbfr_top fr = true -> sb_fun_safe F (SbNative nm) = true ->
  let s' := snd (sb_run F fuel (SbRqInvoke fr (SbNative nm) self args) s) in
  (forall i, In i (sb_reach s (self :: args)) -> nth i (sbs_shared s') [] = nth i (sbs_shared s) []) /\
  sb_protected s' = sb_protected s.
Proof.
  intros Hp Hc Ht Hs. pose proof (sb_run_safe F Hp fuel (SbRqInvoke fr (SbNative nm) self args) (conj Ht Hs) s) as (A & (w & B & W) & _).
  rewrite (sb_no_ctor_effects F w Hc W) in B.
  cbv zeta. split; [intros i _; rewrite A; reflexivity|]. unfold sb_protected. rewrite A, B. reflexivity.
Qed.

(* without the hypothesis on hidden globals: the only hidden values fetched are globals /v1/variables hides *)
Lemma sb_reads_only_hidden_globals F fuel fr e s :
  sb_premises F = true -> sbfr_sandboxed fr = true -> sbfr_top fr = true -> sb_frame_ok F fr = true ->
  exists r, sbs_reads (snd (sb_eval F fuel fr e s)) = r ++ sbs_reads s /\
            Forall (fun x => exists g, x = SbRdGlobal g /\ sb_mem g (sbf_hidden_globals F) = true) r.
Proof.
  intros Hp Hs Ht Hok. pose proof (sb_run_safe F Hp fuel (SbRqEval fr e) (conj Hs (conj Ht Hok)) s) as (_ & _ & _ & (r & R & Q)).
  exists r. split; [exact R|]. eapply Forall_impl; [|exact Q]. intros x Hx. destruct x; simpl in Hx; [contradiction|].
  exists g. tauto.
Qed.
