(* C19: what the correspondence run observes per sandboxed evaluation, and the executable oracle that is
   run over the IMPLEMENTATION's traces. *)
From Icv Require Import Base.Tac Sandbox.SbModel.
From Coq Require Import NArith.
Local Open Scope N_scope.

Record sb_obs := {
  sbo_bad : bool;            (* CRASH / HANG / missing line *)
  sbo_changed : bool;        (* the deep snapshot of the protected state differs before/after *)
  sbo_hidden : bool;         (* a hidden value came back (returned value, error text, or truth of a comparison with it) *)
  sbo_unsafe_call : bool     (* the call whitelist let a function through whose live side_effect_free flag is false *)
}.

(* None = the observation is what C19 allows; Some k = which clause is violated *)
Definition sb_oracle (o : sb_obs) : option N :=
  if sbo_bad o then Some 4
  else if sbo_changed o then Some 1
  else if sbo_hidden o then Some 2
  else if sbo_unsafe_call o then Some 3
  else None.

(* the verdict the model predicts for a probe: 1 = the marker sub-expression was reached ("allowed"),
   2 = refused by the sandbox, 3 = anything else *)
Definition sb_verdict_of (r : sb_r sb_val) : N :=
  match r with
  | SbRErr (SbEUser _) => 1
  | SbRErr SbESandbox => 2
  | _ => 3
  end.
