(* The oracle accepts every observation that is consistent with a sandboxed run of the model (under the
   computed premises and the negated signatures of F-C19-b and of the constructor/destructor finding): it can only fire where the implementation
   leaves what the theorems establish. *)
From Icv Require Import Base.Tac Sandbox.SbModel Sandbox.SbProofs Sandbox.SbObs.
From Coq Require Import NArith.

Definition sb_obs_of_model (F : sb_facts) (s s' : sb_st) (o : sb_obs) : Prop :=
  sbo_bad o = false /\
  (sbo_changed o = true -> sb_protected s' <> sb_protected s) /\
  (sbo_hidden o = true -> sbs_reads s' <> sbs_reads s) /\
  (sbo_unsafe_call o = true ->
     exists c, sbs_calls s' = c ++ sbs_calls s /\ Exists (fun x => snd x = false) c).

Lemma sb_oracle_accepts_model F fuel fr e s o :
  sb_premises F = true -> sbfr_sandboxed fr = true -> sbfr_top fr = true -> sb_frame_ok F fr = true ->
  sb_no_hidden_global F s = true -> sb_no_global_ctor F = true ->
  sb_obs_of_model F s (snd (sb_eval F fuel fr e s)) o ->
  sb_oracle o = None.
Proof.
  intros Hp Hs Ht Hok Hg Hnc (Hb & Hc & Hh & Hu). unfold sb_oracle. rewrite Hb.
  destruct (sbo_changed o) eqn:Ec.
  { exfalso. apply Hc; [reflexivity|]. apply sb_no_write; assumption. }
  destruct (sbo_hidden o) eqn:Eh.
  { exfalso. apply Hh; [reflexivity|]. apply sb_no_read_hidden; assumption. }
  destruct (sbo_unsafe_call o) eqn:Eu; [|reflexivity].
  exfalso. destruct (Hu eq_refl) as (c & C & X).
  destruct (sb_calls_safe F fuel fr e s Hp Hs Ht Hok) as (c' & C' & A).
  rewrite C in C'. apply app_inv_tail in C'. subst c'.
  apply Exists_exists in X. destruct X as (x & Hin & Hx). rewrite Forall_forall in A.
  specialize (A x Hin). congruence.
Qed.
