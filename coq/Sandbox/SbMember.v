(* C19: assignments as MEMBERS of a dictionary literal, with every shape of left-hand side.

   The parser hands every `{ ... }` used as a value to BindToScope(.., ScopeThis) ([sb_parse_dict]): a left-hand side whose
   ROOT is a bare identifier or a string literal is rebased onto the dictionary being built, every other root (globals,
   locals, this, a call result, a dereference, an array literal) is left as it is.  So "it is only a member of a new
   dictionary" says nothing about WHERE the assignment writes - that is decided by the root of its left-hand side.
   The lemmas below state that split for all left-hand sides; the witnesses show what a guard that exempts dictionary
   members (`if (frame.Sandboxed && !<member flag>)`) lets through, evaluated by the model on such facts. *)
From Icv Require Import Base.Tac Sandbox.SbModel Sandbox.SbFacts Sandbox.SbProofs Sandbox.SbRefuted.
From Coq Require Import NArith String.
Local Open Scope N_scope.

(* a root BindToScope rebases *)
Definition sb_root_rebased (e : sb_expr) : bool :=
  match sb_lhs_root e with SbVariable _ _ | SbLiteral (SbLStr _) => true | _ => false end.
(* a root BindToScope does not touch (Dict / Set are containers of statements, not left-hand sides) *)
Definition sb_root_untouched (e : sb_expr) : bool :=
  match sb_lhs_root e with
  | SbVariable _ _ | SbLiteral (SbLStr _) | SbDict _ _ | SbSet _ _ _ _ | SbIndexer _ _ => false
  | _ => true
  end.

Lemma sb_bind_scope_rebases sc lhs :
  sb_root_rebased lhs = true -> sb_lhs_root (sb_bind_scope sc lhs) = SbGetScope sc.
Proof.
  unfold sb_root_rebased. induction lhs; simpl; try discriminate; try reflexivity.
  - destruct l; simpl; try discriminate. reflexivity.
  - exact IHlhs1.
Qed.

Lemma sb_bind_scope_untouched sc lhs :
  sb_root_untouched lhs = true -> sb_bind_scope sc lhs = lhs.
Proof.
  unfold sb_root_untouched. induction lhs; simpl; try discriminate; try reflexivity.
  - destruct l; simpl; try discriminate; reflexivity.
  - intros H. rewrite IHlhs1; [reflexivity|exact H].
Qed.

(* what the parser builds for `{ lhs op rhs }`: the member flag is set whatever the left-hand side is *)
Lemma sb_parse_dict_member c lhs rhs :
  sb_parse_dict [SbSet false c lhs rhs] = SbDict false [SbSet true c (sb_bind_scope SbScopeThis lhs) rhs].
Proof. reflexivity. Qed.

(* ---- facts with a guard of SetExpression that fires only for assignments that are NOT dictionary members ---- *)
Definition sb_facts_set_guard (F : sb_facts) (uncond : bool) (cond : list (sb_name * sb_gcond)) : sb_facts :=
  {| sbf_exprs := map (fun p => if fst p =? sb_n_Set then (fst p, uncond) else p) (sbf_exprs F);
     sbf_cond_guards := cond;
     sbf_funcs := sbf_funcs F; sbf_cbguards := sbf_cbguards F; sbf_hidden := sbf_hidden F;
     sbf_hidden_globals := sbf_hidden_globals F; sbf_call_guard := sbf_call_guard F;
     sbf_getfield_checked := sbf_getfield_checked F; sbf_ref_get_checked := sbf_ref_get_checked F;
     sbf_indexer_noinit := sbf_indexer_noinit F; sbf_frame_inherit := sbf_frame_inherit F;
     sbf_userfunc_unsafe := sbf_userfunc_unsafe F; sbf_var_import_checked := sbf_var_import_checked F;
     sbf_purity := sbf_purity F;
     sbf_ctor_global := sbf_ctor_global F |}.
Definition sb_facts_member_exempt : sb_facts := sb_facts_set_guard sb_cur_facts false [(sb_n_Set, SbGcUnlessMember)].

Definition sb_n_X := Eval vm_compute in sb_enc "X".
Definition sb_n_x := Eval vm_compute in sb_enc "x".
Definition sb_n_a := Eval vm_compute in sb_enc "a".
Definition sb_n_h := Eval vm_compute in sb_enc "h".
Definition sb_n_vars := Eval vm_compute in sb_enc "vars".
Definition sb_n_added := Eval vm_compute in sb_enc "added".
Definition sb_n_display_name := Eval vm_compute in sb_enc "display_name".
Definition sb_n_get_object := Eval vm_compute in sb_enc "get_object".
Definition sb_n_get_objects := Eval vm_compute in sb_enc "get_objects".
Definition sb_n_Sget_object := Eval vm_compute in sb_enc "System#get_object".
Definition sb_n_Sget_objects := Eval vm_compute in sb_enc "System#get_objects".
Definition sb_lit (n : sb_name) : sb_expr := SbLiteral (SbLStr n).
Definition sb_num : sb_expr := SbLiteral SbLNum.
Definition sb_glob (n : sb_name) : sb_expr := SbIndexer (SbGetScope SbScopeGlobal) (sb_lit n).

(* shared heap: 0 globals (X, get_object, get_objects), 1 the Host object (display_name, vars -> 2), 2 its vars;
   local heap: 0 the frame's Self, 1 the array get_objects() hands back (element 0 = the Host);
   choices: what the two (pure) natives return *)
Definition sb_member_st (choices : list sb_choice) : sb_st :=
  {| sbs_shared := [[(sb_n_X, SbVBool false); (sb_n_get_object, SbVFun (SbNative sb_n_Sget_object));
                     (sb_n_get_objects, SbVFun (SbNative sb_n_Sget_objects))];
                    [(sb_n_display_name, SbVOpaque); (sb_n_vars, SbVObj sb_t_Dictionary (SbShared 2))];
                    [(sb_n_x, SbVOpaque)]];
     sbs_extern := []; sbs_local := [[]; [(0, SbVObj sb_t_Host (SbShared 1))]]; sbs_calls := []; sbs_reads := [];
     sbs_choices := choices |}.
Definition sb_ch (v : sb_val) : sb_choice := {| sbc_b := false; sbc_v := v |}.

(* `{ globals.X = 42 }`, `{ globals.X += 1 }` *)
Definition sb_member_prog_global (combined : bool) : sb_expr := sb_parse_dict [SbSet false combined (sb_glob sb_n_X) sb_num].
(* `{ get_object(Host, "h").display_name = "x" }` *)
Definition sb_member_prog_call : sb_expr :=
  sb_parse_dict [SbSet false false
    (SbIndexer (SbFunctionCall (SbVariable sb_n_get_object []) [sb_lit sb_n_h]) (sb_lit sb_n_display_name)) (sb_lit sb_n_x)].
(* `{ a = { get_objects(Host)[0].vars.added = true } }` *)
Definition sb_member_prog_nested : sb_expr :=
  sb_parse_dict [SbSet false false (SbVariable sb_n_a [])
    (sb_parse_dict [SbSet false false
       (SbIndexer (SbIndexer (SbIndexer (SbFunctionCall (SbVariable sb_n_get_objects []) []) sb_num) (sb_lit sb_n_vars))
                  (sb_lit sb_n_added)) (SbLiteral (SbLBool true))])].
(* `{ x = 1 }`, `{ "x" = 1 }`, `{ this.x = 1 }`: rebased onto / aimed at the new dictionary *)
Definition sb_member_prog_local (lhs : sb_expr) : sb_expr := sb_parse_dict [SbSet false false lhs sb_num].

Definition sb_run_member (F : sb_facts) (e : sb_expr) (choices : list sb_choice) :=
  sb_eval F 12 sb_filter_frame e (sb_member_st choices).

Definition sb_member_local_ok (lhs : sb_expr) : Prop :=
  (exists v, fst (sb_run_member sb_facts_member_exempt (sb_member_prog_local lhs) []) = SbROk v) /\
  sb_protected (snd (sb_run_member sb_facts_member_exempt (sb_member_prog_local lhs) [])) = sb_protected (sb_member_st []).

Lemma sb_member_exempt_writes :
  (* the guard that exempts dictionary members lets these four write globals / the live Host / its custom variables *)
  sb_protected (snd (sb_run_member sb_facts_member_exempt (sb_member_prog_global false) [])) <> sb_protected (sb_member_st []) /\
  sb_protected (snd (sb_run_member sb_facts_member_exempt (sb_member_prog_global true) [])) <> sb_protected (sb_member_st []) /\
  (let ch := [sb_ch (SbVObj sb_t_Host (SbShared 1))] in
   nth 1 (sbs_shared (snd (sb_run_member sb_facts_member_exempt sb_member_prog_call ch))) [] <> nth 1 (sbs_shared (sb_member_st ch)) []) /\
  (let ch := [sb_ch (SbVObj sb_t_Array (SbLocal 1))] in
   nth 2 (sbs_shared (snd (sb_run_member sb_facts_member_exempt sb_member_prog_nested ch))) [] <> nth 2 (sbs_shared (sb_member_st ch)) []) /\
  (* ... while members whose left-hand side is rebased onto (or aimed at) the new dictionary evaluate and change nothing ... *)
  sb_member_local_ok (SbVariable sb_n_x []) /\ sb_member_local_ok (sb_lit sb_n_x) /\
  sb_member_local_ok (SbIndexer (SbGetScope SbScopeThis) (sb_lit sb_n_x)) /\
  (* ... the same assignment as a plain statement is still refused ... *)
  fst (sb_run_member sb_facts_member_exempt (SbSet false false (sb_glob sb_n_X) sb_num) []) = SbRErr SbESandbox /\
  (* ... and such facts do not pass the premises of the theorems *)
  sb_all_writers_guarded sb_facts_member_exempt = false /\ sb_premises sb_facts_member_exempt = false.
Proof.
  unfold sb_member_local_ok. vm_compute.
  repeat match goal with |- _ /\ _ => split end; try discriminate; try reflexivity; try (eexists; reflexivity).
Qed.

(* the state after a refused dictionary-literal member: only the (local) dictionary has been allocated *)
Definition sb_member_refused_st : sb_st := snd (sb_alloc sb_t_Dictionary [] (sb_member_st [])).
