(* Extraction of the executable models and oracles.  ExtrOcamlBasic only: bool, option, list,
   prod, unit, sumbool map to OCaml's; Z/N/positive/nat stay the extracted inductives. *)
From Coq Require Extraction ExtrOcamlBasic.
From Icv Require Import Ck.CkState Ck.CkStateProofs Ck.CkObs.
Extraction Language OCaml.
Extraction "model.ml" CkState.step CkState.pending CkObs.observe CkObs.oracle_c01 CkObs.api_state CkObs.stype_num.
