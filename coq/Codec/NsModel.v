(* C20 - netstring framing.  Executable transcription of lib/base/netstring.cpp (no proofs here).

   Bytes are [Z] values; every theorem that needs it carries the side condition 0 <= b < 256
   (the framing code never needs it: it only compares against ':' ',' and the digits).

   ns_write          = NetString::WriteStringToStream(std::ostream&, ...)      netstring.cpp:331-334
   ns_parse          = the body of the StreamReadContext variant after the fill netstring.cpp:41-100
   ns_ctx_read       = that variant including Eof/MustRead handling            netstring.cpp:26-101
   ns_read_stream    = the AsioTlsStream variants (sync and coroutine: same text) netstring.cpp:129-277 *)
From Icv Require Import Base.Tac.
Local Open Scope Z_scope.

(* ---------------------------------------------------------------- bytes and decimal *)
Definition ns_colon : Z := 58.
Definition ns_comma : Z := 44.
Definition ns_zero : Z := 48.

(* isdigit() in the C locale *)
Definition ns_isdigit (b : Z) : bool := (48 <=? b) && (b <=? 57).

(* operator<<(size_t): decimal without leading zeros.  Fuel = bit length, always sufficient. *)
Fixpoint ns_dec_aux (fuel : nat) (n : Z) (acc : list Z) : list Z :=
  match fuel with
  | O => acc
  | S f => let acc' := (48 + n mod 10) :: acc in
           if n <? 10 then acc' else ns_dec_aux f (n / 10) acc'
  end.
Definition ns_dec (n : Z) : list Z := ns_dec_aux (S (Z.to_nat (Z.log2 n))) n [].

Definition ns_len (l : list Z) : Z := Z.of_nat (length l).

(* stream << str.GetLength() << ":" << str << "," *)
Definition ns_write (p : list Z) : list Z := ns_dec (ns_len p) ++ ns_colon :: p ++ [ns_comma].

(* ---------------------------------------------------------------- buffered variant *)
(* error classes (only "an exception was thrown" is observed; the classes are for the theorems) *)
Definition ns_e_nolen : Z := 1.      (* "no length specifier" *)
Definition ns_e_nocolon : Z := 2.    (* "missing :" *)
Definition ns_e_lead0 : Z := 3.      (* "leading zero" *)
Definition ns_e_toolong : Z := 4.    (* "Length specifier must not exceed 9 characters" *)
Definition ns_e_max : Z := 5.        (* "Max data length exceeded" *)
Definition ns_e_nocomma : Z := 6.    (* "missing ," *)

Inductive ns_res :=
| NsNeed                                   (* StatusNeedData, MustRead := true *)
| NsItem (p rest : list Z)                 (* StatusNewItem, *str = p, buffer after DropData = rest *)
| NsErr (e : Z)                            (* std::invalid_argument *)
| NsOob.                                   (* a read outside [0, Size): proved unreachable *)

(* context.Buffer[i], guarded *)
Definition ns_get (buf : list Z) (i : Z) : option Z :=
  if i <? 0 then None else nth_error buf (Z.to_nat i).

Inductive ns_scan := NsScanNone | NsScanAt (h : Z) | NsScanErr (e : Z).

(* lines 43-54: for (i = 0; i < Size; i++) { if (Buffer[i]==':') {...break} else if (i > 16) throw }
   [l] is the not yet visited part of the buffer, [i] its index *)
Fixpoint ns_find_colon (l : list Z) (i : Z) : ns_scan :=
  match l with
  | [] => NsScanNone
  | b :: t =>
      if b =? ns_colon then (if i =? 0 then NsScanErr ns_e_nolen else NsScanAt i)
      else if 16 <? i then NsScanErr ns_e_nocolon
      else ns_find_colon t (i + 1)
  end.

Inductive ns_lenres := NsLenOk (len : Z) | NsLenErr (e : Z) | NsLenOob.

(* lines 67-74: for (i = 0; i < header_length && isdigit(Buffer[i]); i++) { if (i >= 9) throw; len = len*10 + d } *)
Fixpoint ns_len_loop (fuel : nat) (buf : list Z) (h i len : Z) : ns_lenres :=
  match fuel with
  | O => NsLenOk len
  | S f =>
      if i <? h then
        match ns_get buf i with
        | None => NsLenOob
        | Some b =>
            if ns_isdigit b then
              if 9 <=? i then NsLenErr ns_e_toolong
              else ns_len_loop f buf h (i + 1) (len * 10 + (b - 48))
            else NsLenOk len
        end
      else NsLenOk len
  end.

Definition ns_parse (max : Z) (buf : list Z) : ns_res :=
  let size := ns_len buf in
  match ns_find_colon buf 0 with
  | NsScanErr e => NsErr e
  | NsScanNone => NsNeed                                    (* header_length == 0 *)
  | NsScanAt h =>
      match ns_get buf 0, ns_get buf 1 with
      | Some b0, Some b1 =>
          if (b0 =? ns_zero) && ns_isdigit b1 then NsErr ns_e_lead0
          else
            match ns_len_loop (Z.to_nat h) buf h 0 0 with
            | NsLenErr e => NsErr e
            | NsLenOob => NsOob
            | NsLenOk len =>
                let data_length := len + 1 in
                if (0 <=? max) && (max <? data_length) then NsErr ns_e_max
                else if size <? h + 1 + data_length then NsNeed
                else
                  match ns_get buf (h + 1 + len) with     (* data[len] *)
                  | None => NsOob
                  | Some c =>
                      if c =? ns_comma
                      then NsItem (firstn (Z.to_nat len) (skipn (Z.to_nat (h + 1)) buf))
                                  (skipn (Z.to_nat (h + 1 + len + 1)) buf)
                      else NsErr ns_e_nocomma
                  end
            end
      | _, _ => NsOob
      end
  end.

(* the StreamReadContext and one call of ReadStringFromStream.  What FillFromStream would deliver
   is an input: Some bytes (appended to the buffer; may be empty) or None (count = 0 and stream at EOF) *)
Record ns_ctx := { ns_buf : list Z; ns_must : bool; ns_eof : bool }.
Definition ns_ctx_init : ns_ctx := {| ns_buf := []; ns_must := true; ns_eof := false |}.

Inductive ns_status := NsStNew (p : list Z) | NsStNeed | NsStEof | NsStErr (e : Z) | NsStOob.

Definition ns_ctx_read (max : Z) (c : ns_ctx) (fill : option (list Z)) : ns_status * ns_ctx :=
  if ns_eof c then (NsStEof, c)
  else
    let filled :=
      if ns_must c then
        match fill with
        | None => None
        | Some d => Some {| ns_buf := ns_buf c ++ d; ns_must := false; ns_eof := false |}
        end
      else Some c in
    match filled with
    | None => (NsStEof, {| ns_buf := ns_buf c; ns_must := ns_must c; ns_eof := true |})
    | Some c1 =>
        match ns_parse max (ns_buf c1) with
        | NsNeed => (NsStNeed, {| ns_buf := ns_buf c1; ns_must := true; ns_eof := false |})
        | NsItem p rest => (NsStNew p, {| ns_buf := rest; ns_must := ns_must c1; ns_eof := false |})
        | NsErr e => (NsStErr e, c1)
        | NsOob => (NsStOob, c1)
        end
    end.

(* the consumer loop every caller runs: after new bytes arrived, read until NeedData / error *)
Record ns_pumped := { ns_items : list (list Z); ns_ctx_after : ns_ctx; ns_error : option Z }.

Fixpoint ns_pump_loop (fuel : nat) (max : Z) (c : ns_ctx) (fill : list Z) : ns_pumped :=
  match fuel with
  | O => {| ns_items := []; ns_ctx_after := c; ns_error := None |}
  | S f =>
      match ns_ctx_read max c (Some fill) with
      | (NsStNew p, c') =>
          let r := ns_pump_loop f max c' [] in
          {| ns_items := p :: ns_items r; ns_ctx_after := ns_ctx_after r; ns_error := ns_error r |}
      | (NsStNeed, c') => {| ns_items := []; ns_ctx_after := c'; ns_error := None |}
      | (NsStEof, c') => {| ns_items := []; ns_ctx_after := c'; ns_error := None |}
      | (NsStErr e, c') => {| ns_items := []; ns_ctx_after := c'; ns_error := Some e |}
      | (NsStOob, c') => {| ns_items := []; ns_ctx_after := c'; ns_error := Some 0 |}
      end
  end.

(* a chunk arrives: the first read of the pump fills (MustRead is set whenever the previous pump ended with
   NeedData), the following ones find MustRead = false or nothing new *)
Definition ns_feed (max : Z) (c : ns_ctx) (chunk : list Z) : ns_pumped :=
  ns_pump_loop (S (length (ns_buf c) + length chunk)) max c chunk.

(* feeding a list of chunks; the reader stops at the first error (the exception ends the connection / the load) *)
Fixpoint ns_feed_all (max : Z) (c : ns_ctx) (chunks : list (list Z)) : list (list Z) * ns_ctx * option Z :=
  match chunks with
  | [] => ([], c, None)
  | ch :: more =>
      let r := ns_feed max c ch in
      match ns_error r with
      | Some e => (ns_items r, ns_ctx_after r, Some e)
      | None =>
          let '(fs, c', e) := ns_feed_all max (ns_ctx_after r) more in
          (ns_items r ++ fs, c', e)
      end
  end.

(* ---------------------------------------------------------------- stream (TLS) variant *)
Inductive ns_sres :=
| NsSOk (p rest : list Z)                  (* returned payload, unread remainder of the stream *)
| NsSErr (e : Z) (rest : list Z)           (* std::invalid_argument; unread remainder; nothing allocated *)
| NsSShort.                                (* asio::read hit the end of the available bytes (blocks / EOF error) *)

(* lines 137-168 / 216-247: one byte per iteration *)
Fixpoint ns_shdr (input : list Z) (read_bytes len : Z) (leading_zero : bool) : ns_sres + (Z * list Z) :=
  match input with
  | [] => inl NsSShort
  | b :: rest =>
      if ns_isdigit b then
        if read_bytes =? 9 then inl (NsSErr ns_e_toolong rest)
        else if leading_zero then inl (NsSErr ns_e_lead0 rest)
        else ns_shdr rest (read_bytes + 1) (len * 10 + (b - 48))
                     (if (read_bytes =? 0) && (b =? ns_zero) then true else leading_zero)
      else if b =? ns_colon then
        if read_bytes =? 0 then inl (NsSErr ns_e_nolen rest) else inr (len, rest)
      else inl (NsSErr ns_e_nocolon rest)
  end.

Definition ns_read_stream (max : Z) (input : list Z) : ns_sres :=
  match ns_shdr input 0 0 false with
  | inl r => r
  | inr (len, rest) =>
      if (0 <=? max) && (max <? len) then NsSErr ns_e_max rest          (* before payload.Append(len, 0) *)
      else if ns_len rest <? len then NsSShort                            (* asio::read(payloadBuf) *)
      else
        let p := firstn (Z.to_nat len) rest in
        match skipn (Z.to_nat len) rest with
        | [] => NsSShort                                                  (* asio::read(trailerBuf) *)
        | t :: rest' => if t =? ns_comma then NsSOk p rest' else NsSErr ns_e_nocomma rest'
        end
  end.

(* bytes the stream variant requests for the payload buffer (payload.Append(len, 0)): 0 unless the limit check passed *)
Definition ns_stream_alloc (max : Z) (input : list Z) : Z :=
  match ns_shdr input 0 0 false with
  | inl _ => 0
  | inr (len, _) => if (0 <=? max) && (max <? len) then 0 else len
  end.

(* ---------------------------------------------------------------- declarative frame format (for C20_ns_strict) *)
(* zero, or a non-zero digit followed by digits; at most 9 digits *)
Definition ns_canon_digits (ds : list Z) : bool :=
  forallb ns_isdigit ds && (1 <=? ns_len ds) && (ns_len ds <=? 9) &&
  match ds with
  | d :: _ :: _ => negb (d =? ns_zero)
  | _ => true
  end.

Definition ns_val (ds : list Z) : Z := fold_left (fun a d => a * 10 + (d - 48)) ds 0.

(* ---------------------------------------------------------------- the callers' loop up to the END OF THE STREAM *)
(* every production caller of the buffered variant (ConfigObject::RestoreObjects, ApiListener::ReplayLog, the object
   and variable list readers of the CLI) runs
       for (;;) { srs = ReadStringFromStream(sfp, &message, src);
                  if (srs == StatusEof) break;  if (srs != StatusNewItem) continue;  handle(message); }
   [fills] is what the successive FillFromStream calls deliver while the stream has not ended (a chunk may be empty:
   count = 0 on a stream that is not at EOF); when the list is used up FillFromStream reports the end (None).
   A fill is consumed exactly by the calls that find MustRead set.  The loop is cut after [fuel] calls; the result is
   the status returned by every call, in order, and the context after the last one. *)
Fixpoint ns_loop (fuel : nat) (max : Z) (c : ns_ctx) (fills : list (list Z)) : list ns_status * ns_ctx :=
  match fuel with
  | O => ([], c)
  | S f =>
      let fill := match fills with [] => None | d :: _ => Some d end in
      let fills' := if negb (ns_eof c) && ns_must c then tl fills else fills in
      let '(st, c') := ns_ctx_read max c fill in
      match st with
      | NsStNew _ | NsStNeed => let '(tr, c'') := ns_loop f max c' fills' in (st :: tr, c'')
      | _ => ([st], c')                                   (* StatusEof: break; exception: leaves the loop *)
      end
  end.

Inductive ns_end := NsEndEof | NsEndErr (e : Z) | NsEndFuel.      (* NsEndFuel: no terminal status within the fuel *)

Fixpoint ns_trace_items (tr : list ns_status) : list (list Z) :=
  match tr with
  | [] => []
  | NsStNew p :: t => p :: ns_trace_items t
  | _ :: t => ns_trace_items t
  end.

Fixpoint ns_trace_end (tr : list ns_status) : ns_end :=
  match tr with
  | [] => NsEndFuel
  | NsStEof :: _ => NsEndEof
  | NsStErr e :: _ => NsEndErr e
  | NsStOob :: _ => NsEndErr 0
  | _ :: t => ns_trace_end t
  end.

(* the bound on the number of calls the theorems establish (C20_ns_eof_terminates) *)
Definition ns_loop_bound (c : ns_ctx) (fills : list (list Z)) : nat :=
  S (length (ns_buf c) + length (concat fills) + length fills + (if ns_must c then 0 else 1)).

(* what a caller sees of a whole stream: frames handed over, how the loop ended, bytes left in the buffer at the end *)
Definition ns_read_all (max : Z) (fills : list (list Z)) : list (list Z) * ns_end * Z :=
  let '(tr, c) := ns_loop (ns_loop_bound ns_ctx_init fills) max ns_ctx_init fills in
  (ns_trace_items tr, ns_trace_end tr, ns_len (ns_buf c)).
