(* C20 - netstring, the stream (TLS) variant: accepts exactly what the writer writes; limit before payload. *)
From Icv Require Import Base.Tac Codec.NsModel Codec.NsDecimal Codec.NsProofs.
Local Open Scope Z_scope.

(* the header loop never returns "ok", and its errors are the four header errors *)
Lemma ns_shdr_inl input : forall rb len lz r,
  ns_shdr input rb len lz = inl r ->
  r = NsSShort \/ exists e rest, r = NsSErr e rest /\ 1 <= e <= 4.
Proof.
  induction input as [|b tl IH]; intros rb len lz r H; cbn [ns_shdr] in H.
  - inv H. auto.
  - destruct (ns_isdigit b).
    + destruct (rb =? 9); [inv H; right; eexists _, _; split; [reflexivity|cbv; split; discriminate]|].
      destruct lz; [inv H; right; eexists _, _; split; [reflexivity|cbv; split; discriminate]|].
      eapply IH; exact H.
    + destruct (b =? ns_colon).
      * destruct (rb =? 0); [inv H; right; eexists _, _; split; [reflexivity|cbv; split; discriminate]|discriminate].
      * inv H; right; eexists _, _; split; [reflexivity|cbv; split; discriminate].
Qed.

(* after the first digit (no leading zero pending): digits up to nine in total, then the colon *)
Lemma ns_shdr_tail input : forall rb len n rest, 1 <= rb <= 9 ->
  ns_shdr input rb len false = inr (n, rest) <->
  exists ds, forallb ns_isdigit ds = true /\ rb + ns_len ds <= 9 /\ input = ds ++ ns_colon :: rest /\
             n = fold_left ns_dstep ds len.
Proof.
  induction input as [|b tl IH]; intros rb len n rest Hrb; cbn [ns_shdr].
  - split; [discriminate|]. intros (ds & _ & _ & E & _). destruct ds; discriminate.
  - destruct (ns_isdigit b) eqn:Eb.
    + assert (b <> ns_colon) as Hbc by (apply ns_isdigit_iff in Eb; unfold ns_colon; lia).
      destruct (rb =? 9) eqn:E9.
      * split; [discriminate|]. intros (ds & Hd & Hl & E & _).
        destruct ds as [|d t]; cbn [app] in E; inv E; [congruence|]. rewrite ns_len_cons in Hl.
        pose proof (ns_len_nonneg t). lia.
      * assert ((rb =? 0) && (b =? ns_zero) = false) as -> by lia.
        rewrite IH by lia. split.
        -- intros (ds & Hd & Hl & -> & ->). exists (b :: ds). cbn [forallb fold_left app]. rewrite Eb, Hd.
           rewrite ns_len_cons. split; [reflexivity|]. split; [lia|]. split; reflexivity.
        -- intros (ds & Hd & Hl & E & ->).
           destruct ds as [|d t]; cbn [app] in E; inv E; [congruence|].
           cbn [forallb] in Hd. apply andb_true_iff in Hd as [_ Ht]. rewrite ns_len_cons in Hl.
           exists t. split; [assumption|]. split; [lia|]. split; reflexivity.
    + destruct (b =? ns_colon) eqn:Ec.
      * assert (rb =? 0 = false) as -> by lia. apply Z.eqb_eq in Ec. subst b. split.
        -- intros H. inv H. exists []. split; [reflexivity|]. split; [change (ns_len (@nil Z)) with 0; lia|]. split; reflexivity.
        -- intros (ds & Hd & Hl & E & ->).
           destruct ds as [|d t]; cbn [app] in E; inv E; [reflexivity|].
           cbn [forallb] in Hd. rewrite Eb in Hd. discriminate.
      * split; [discriminate|]. intros (ds & Hd & Hl & E & _).
        destruct ds as [|d t]; cbn [app] in E; inv E; [rewrite Z.eqb_refl in Ec; discriminate|].
        cbn [forallb] in Hd. rewrite Eb in Hd. discriminate.
Qed.

(* after a leading '0' only the colon is accepted *)
Lemma ns_shdr_zero tl n rest :
  ns_shdr tl 1 0 true = inr (n, rest) <-> tl = ns_colon :: rest /\ n = 0.
Proof.
  destruct tl as [|b t]; cbn [ns_shdr]; [split; [discriminate|intros [H _]; discriminate]|].
  destruct (ns_isdigit b) eqn:Eb.
  - cbn. split; [discriminate|]. intros [H _]. inv H. discriminate.
  - destruct (b =? ns_colon) eqn:Ec.
    + cbn. apply Z.eqb_eq in Ec. subst. split; [intros H; inv H; auto|intros [H ->]; inv H; reflexivity].
    + split; [discriminate|]. intros [H _]. inv H. rewrite Z.eqb_refl in Ec. discriminate.
Qed.

(* the header loop accepts exactly the canonical decimals below 10^9 followed by ':' *)
Lemma ns_shdr_spec input n rest :
  ns_shdr input 0 0 false = inr (n, rest) <-> (0 <= n < 10 ^ 9 /\ input = ns_dec n ++ ns_colon :: rest).
Proof.
  destruct input as [|b tl]; cbn [ns_shdr].
  { split; [discriminate|]. intros [_ E]. destruct (ns_dec n); discriminate. }
  destruct (ns_isdigit b) eqn:Eb.
  - apply ns_isdigit_iff in Eb as Hb. cbn [Z.eqb andb]. rewrite Z.mul_0_l, Z.add_0_l, Z.add_0_l.
    destruct (b =? ns_zero) eqn:E0.
    + apply Z.eqb_eq in E0. subst b. rewrite ns_shdr_zero. split.
      * intros [-> ->]. split; [lia|]. reflexivity.
      * intros [Hn E]. destruct (Z.eq_dec n 0) as [->|Hne].
        -- rewrite ns_dec_zero in E. inv E. auto.
        -- destruct (ns_dec_shape n ltac:(lia)) as (d & ds & Ed & Hd & _). rewrite Ed in E. inv E.
           unfold ns_zero in *. lia.
    + rewrite ns_shdr_tail by lia. unfold ns_zero in *. split.
      * intros (ds & Hd & Hl & -> & ->).
        pose proof (ns_fold_bound ds (b - 48) 1 ltac:(lia) ltac:(lia) Hd) as Hbd.
        assert (10 ^ (1 + ns_len ds) <= 10 ^ 9) by (apply Z.pow_le_mono_r; lia).
        split; [lia|]. rewrite ns_dec_unique by (assumption || lia). reflexivity.
      * intros [Hn E]. destruct (Z.eq_dec n 0) as [->|Hne].
        -- rewrite ns_dec_zero in E. inv E. lia.
        -- destruct (ns_dec_shape n ltac:(lia)) as (d & ds & Ed & Hd & Hds & Hv & Hk). rewrite Ed in E. inv E.
           exists ds. specialize (Hk 9%nat ltac:(lia)). split; [assumption|]. split; [lia|]. split; [reflexivity|]. auto.
  - destruct (b =? ns_colon) eqn:Ec.
    + cbn [Z.eqb]. split; [discriminate|]. intros [Hn E]. exfalso.
      destruct (ns_dec_props n Hn) as (_ & _ & _ & d & t & Ed & Hd & _). rewrite Ed in E. inv E.
      apply Z.eqb_eq in Ec. unfold ns_colon in *. lia.
    + split; [discriminate|]. intros [Hn E]. exfalso.
      destruct (ns_dec_props n Hn) as (_ & _ & _ & d & t & Ed & Hd & _). rewrite Ed in E. inv E.
      assert (ns_isdigit d = true) by (apply ns_isdigit_iff; lia). congruence.
Qed.

(* ---------------------------------------------------------------- C20_ns_strict *)
Theorem ns_stream_strict max input p rest :
  ns_read_stream max input = NsSOk p rest <->
  (input = ns_write p ++ rest /\ ns_len p < 10 ^ 9 /\ (max < 0 \/ ns_len p <= max)).
Proof.
  unfold ns_read_stream. split.
  - destruct (ns_shdr input 0 0 false) as [r|[len rest0]] eqn:Eh.
    + intros ->. apply ns_shdr_inl in Eh as [H|(e & r & H & _)]; discriminate.
    + apply ns_shdr_spec in Eh as [Hn ->].
      destruct ((0 <=? max) && (max <? len)) eqn:Em; [discriminate|].
      destruct (ns_len rest0 <? len) eqn:El; [discriminate|].
      destruct (skipn (Z.to_nat len) rest0) as [|t rest'] eqn:Es; [discriminate|].
      destruct (t =? ns_comma) eqn:Et; [|discriminate]. intros H. inv H.
      apply Z.eqb_eq in Et. subst t.
      assert (ns_len (firstn (Z.to_nat len) rest0) = len) as Hlen.
      { unfold ns_len in *. rewrite firstn_length. lia. }
      split; [|split; lia].
      unfold ns_write. rewrite Hlen. rewrite <- app_assoc. cbn [app]. rewrite <- app_assoc. cbn [app].
      rewrite <- Es. rewrite firstn_skipn. reflexivity.
  - intros (-> & H9 & Hmax). pose proof (ns_len_nonneg p).
    unfold ns_write. rewrite <- app_assoc. cbn [app]. rewrite <- app_assoc. cbn [app].
    assert (ns_shdr (ns_dec (ns_len p) ++ ns_colon :: p ++ ns_comma :: rest) 0 0 false
            = inr (ns_len p, p ++ ns_comma :: rest)) as ->.
    { apply ns_shdr_spec. split; [lia|reflexivity]. }
    assert ((0 <=? max) && (max <? ns_len p) = false) as -> by lia.
    rewrite ns_len_app, ns_len_cons. pose proof (ns_len_nonneg rest).
    destruct (ns_len p + (1 + ns_len rest) <? ns_len p) eqn:E; [lia|].
    unfold ns_len. rewrite Nat2Z.id. rewrite ns_skipn_app_exact, ns_firstn_app_exact.
    rewrite Z.eqb_refl. reflexivity.
Qed.

(* the reader is total: ok, error, or "needs more bytes than the stream holds"; this is the trichotomy *)
Theorem ns_stream_total max input :
  (exists p rest, ns_read_stream max input = NsSOk p rest) \/
  (exists e rest, ns_read_stream max input = NsSErr e rest /\ 1 <= e <= 6) \/
  ns_read_stream max input = NsSShort.
Proof.
  unfold ns_read_stream.
  destruct (ns_shdr input 0 0 false) as [r|[len rest0]] eqn:Eh.
  - apply ns_shdr_inl in Eh as [->|(e & r' & -> & He)]; [auto|]. right. left. exists e, r'. split; [reflexivity|lia].
  - destruct ((0 <=? max) && (max <? len)); [right; left; eexists _, _; split; [reflexivity|cbv; split; discriminate]|].
    destruct (ns_len rest0 <? len); [auto|].
    destruct (skipn (Z.to_nat len) rest0) as [|t rest']; [auto|].
    destruct (t =? ns_comma); [left; eauto|right; left; eexists _, _; split; [reflexivity|cbv; split; discriminate]].
Qed.

(* ---------------------------------------------------------------- C20_ns_limit *)
(* a frame whose declared length exceeds the limit is rejected right after the colon, whatever follows:
   nothing of the payload is read and nothing is allocated *)
Theorem ns_stream_limit_rejects max n tail :
  0 <= max < n -> n < 10 ^ 9 ->
  ns_read_stream max (ns_dec n ++ ns_colon :: tail) = NsSErr ns_e_max tail /\
  ns_stream_alloc max (ns_dec n ++ ns_colon :: tail) = 0 /\
  ns_len (ns_dec n) + 1 <= 10.
Proof.
  intros Hmax H9. unfold ns_read_stream, ns_stream_alloc.
  assert (ns_shdr (ns_dec n ++ ns_colon :: tail) 0 0 false = inr (n, tail)) as ->.
  { apply ns_shdr_spec. split; [lia|reflexivity]. }
  assert ((0 <=? max) && (max <? n) = true) as -> by lia.
  destruct (ns_dec_props n ltac:(lia)) as (_ & Hl & _). repeat split; lia.
Qed.

(* conversely the limit error is only ever raised for such a header, having consumed at most 10 bytes *)
Theorem ns_stream_limit_only max input rest :
  ns_read_stream max input = NsSErr ns_e_max rest ->
  exists n, 0 <= max < n /\ n < 10 ^ 9 /\ input = ns_dec n ++ ns_colon :: rest /\ ns_len (ns_dec n) + 1 <= 10.
Proof.
  unfold ns_read_stream.
  destruct (ns_shdr input 0 0 false) as [r|[len rest0]] eqn:Eh.
  - intros ->. apply ns_shdr_inl in Eh as [H|(e & r & H & He)]; [discriminate|]. inv H. unfold ns_e_max in He. lia.
  - apply ns_shdr_spec in Eh as [Hn ->].
    destruct ((0 <=? max) && (max <? len)) eqn:Em.
    + intros H. inv H. exists len. destruct (ns_dec_props len Hn) as (_ & Hl & _). repeat split; lia.
    + destruct (ns_len rest0 <? len); [discriminate|].
      destruct (skipn (Z.to_nat len) rest0) as [|t rest']; [discriminate|].
      destruct (t =? ns_comma); [discriminate|]. intros H. inv H.
Qed.

(* the payload buffer requested never exceeds the limit *)
Theorem ns_stream_alloc_bounded max input : 0 <= max -> 0 <= ns_stream_alloc max input <= max.
Proof.
  intros Hmax. unfold ns_stream_alloc.
  destruct (ns_shdr input 0 0 false) as [r|[len rest0]] eqn:Eh; [lia|].
  apply ns_shdr_spec in Eh as [Hn _].
  destruct ((0 <=? max) && (max <? len)) eqn:Em; lia.
Qed.

(* round trip for the stream variant *)
Corollary ns_roundtrip_stream max p rest :
  ns_len p < 10 ^ 9 -> (max < 0 \/ ns_len p <= max) ->
  ns_read_stream max (ns_write p ++ rest) = NsSOk p rest.
Proof. intros H9 Hm. apply ns_stream_strict. auto. Qed.
