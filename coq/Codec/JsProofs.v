(* C20 - JSON: the lemmas the string round trip rests on (UTF-8 decode/encode, ValidateUTF8 is the identity on
   well-formed UTF-8, \uXXXX and surrogate-pair escapes are inverted by the lexer), proved for ALL code points
   by arithmetic (no enumeration).  The whole-value round trip is not proved here; see Properties_C20.v. *)
From Icv Require Import Base.Tac Codec.NsModel Codec.NsDecimal Codec.JsModel.
Local Open Scope Z_scope.

(* Unicode scalar values *)
Definition js_scalar (cp : Z) : Prop := 0 <= cp <= 1114111 /\ ~ (55296 <= cp <= 57343).

Lemma js_u8_check_ok cp n :
  js_scalar cp ->
  (cp < 128 -> n = 1%nat) -> (128 <= cp < 2048 -> n = 2%nat) -> (2048 <= cp < 65536 -> n = 3%nat) ->
  js_u8_check cp n = JsU8Ok cp n.
Proof.
  intros [Hr Hs] H1 H2 H3. unfold js_u8_check.
  assert ((cp <=? 1114111) && negb ((55296 <=? cp) && (cp <=? 57343)) = true) as -> by lia.
  destruct (Z_lt_ge_dec cp 128).
  { rewrite H1 by lia. cbn [Nat.eqb negb]. rewrite !andb_false_r. cbn [orb].
    assert ((128 <=? cp) = false) as -> by lia. assert ((2048 <=? cp) = false) as -> by lia. reflexivity. }
  destruct (Z_lt_ge_dec cp 2048).
  { rewrite H2 by lia. cbn [Nat.eqb negb]. rewrite !andb_false_r.
    assert ((cp <? 128) = false) as -> by lia. assert ((2048 <=? cp) = false) as -> by lia. reflexivity. }
  destruct (Z_lt_ge_dec cp 65536).
  { rewrite H3 by lia. cbn [Nat.eqb negb]. rewrite !andb_false_r.
    assert ((cp <? 128) = false) as -> by lia. assert ((cp <? 2048) = false) as -> by lia.
    rewrite !andb_false_r. reflexivity. }
  assert ((cp <? 128) = false) as -> by lia. assert ((cp <? 2048) = false) as -> by lia.
  assert ((cp <? 65536) = false) as -> by lia. rewrite !andb_false_r. reflexivity.
Qed.

(* validate_next decodes what append wrote, whatever follows *)
Theorem js_utf8_next_enc cp rest :
  js_scalar cp -> js_utf8_next (js_utf8_enc cp ++ rest) = JsU8Ok cp (length (js_utf8_enc cp)).
Proof.
  intros Hs. pose proof Hs as [Hr Hsur]. unfold js_utf8_enc.
  destruct (cp <? 128) eqn:E1.
  { cbn [app length js_utf8_next]. rewrite E1. apply js_u8_check_ok; auto; lia. }
  destruct (cp <? 2048) eqn:E2.
  { cbn [app length js_utf8_next].
    assert ((192 + cp / 64 <? 128) = false) as -> by lia.
    assert (((192 + cp / 64) / 32 =? 6) = true) as -> by lia.
    assert (js_is_trail (128 + cp mod 64) = true) as -> by (unfold js_is_trail; lia).
    replace ((192 + cp / 64) * 64 mod 2048 + (128 + cp mod 64) mod 64) with cp by lia.
    apply js_u8_check_ok; auto; lia. }
  destruct (cp <? 65536) eqn:E3.
  { cbn [app length js_utf8_next].
    assert ((224 + cp / 4096 <? 128) = false) as -> by lia.
    assert (((224 + cp / 4096) / 32 =? 6) = false) as -> by lia.
    assert (((224 + cp / 4096) / 16 =? 14) = true) as -> by lia.
    assert (js_is_trail (128 + (cp / 64) mod 64) = true) as -> by (unfold js_is_trail; lia).
    assert (js_is_trail (128 + cp mod 64) = true) as -> by (unfold js_is_trail; lia).
    replace ((224 + cp / 4096) * 4096 mod 65536 + (128 + (cp / 64) mod 64) * 64 mod 4096 + (128 + cp mod 64) mod 64)
      with cp by lia.
    apply js_u8_check_ok; auto; lia. }
  cbn [app length js_utf8_next].
  assert ((240 + cp / 262144 <? 128) = false) as -> by lia.
  assert (((240 + cp / 262144) / 32 =? 6) = false) as -> by lia.
  assert (((240 + cp / 262144) / 16 =? 14) = false) as -> by lia.
  assert (((240 + cp / 262144) / 8 =? 30) = true) as -> by lia.
  assert (js_is_trail (128 + (cp / 4096) mod 64) = true) as -> by (unfold js_is_trail; lia).
  assert (js_is_trail (128 + (cp / 64) mod 64) = true) as -> by (unfold js_is_trail; lia).
  assert (js_is_trail (128 + cp mod 64) = true) as -> by (unfold js_is_trail; lia).
  replace ((240 + cp / 262144) * 262144 mod 2097152 + (128 + (cp / 4096) mod 64) * 4096 mod 262144 +
           (128 + (cp / 64) mod 64) * 64 mod 4096 + (128 + cp mod 64) mod 64) with cp by lia.
  apply js_u8_check_ok; auto; lia.
Qed.

Lemma js_utf8_enc_length cp : (1 <= length (js_utf8_enc cp) <= 4)%nat.
Proof. unfold js_utf8_enc. destruct (cp <? 128), (cp <? 2048), (cp <? 65536); cbn; lia. Qed.

(* well-formed UTF-8 = a concatenation of encoded scalar values *)
Definition js_utf8_of (cps : list Z) : list Z := concat (map js_utf8_enc cps).

(* Utility::ValidateUTF8 is the identity on well-formed UTF-8 *)
Lemma js_sanitize_aux_valid cps : forall fuel,
  Forall js_scalar cps -> (length (js_utf8_of cps) <= fuel)%nat ->
  js_sanitize_aux fuel (js_utf8_of cps) = js_utf8_of cps.
Proof.
  induction cps as [|cp cps IH]; intros fuel Hall Hf.
  - destruct fuel; reflexivity.
  - inv Hall. unfold js_utf8_of in *. cbn [map concat] in *.
    pose proof (js_utf8_enc_length cp) as Hl. rewrite app_length in Hf.
    destruct fuel as [|f]; [lia|]. cbn [js_sanitize_aux].
    destruct (js_utf8_enc cp ++ concat (map js_utf8_enc cps)) as [|b t] eqn:E.
    { apply (f_equal (@length _)) in E. rewrite app_length in E. cbn in E. lia. }
    rewrite <- E. rewrite js_utf8_next_enc by assumption.
    rewrite firstn_app, Nat.sub_diag, firstn_all. cbn [firstn]. rewrite app_nil_r.
    rewrite skipn_app, Nat.sub_diag, skipn_all. cbn [skipn app].
    rewrite IH; [reflexivity|assumption|lia].
Qed.

Theorem js_sanitize_valid cps : Forall js_scalar cps -> js_sanitize (js_utf8_of cps) = js_utf8_of cps.
Proof. intros H. apply js_sanitize_aux_valid; [assumption|lia]. Qed.

(* dump_escaped on well-formed UTF-8 escapes code point by code point *)
Lemma js_escape_aux_valid cps : forall fuel,
  Forall js_scalar cps -> (length (js_utf8_of cps) <= fuel)%nat ->
  js_escape_aux fuel (js_utf8_of cps) = concat (map js_esc_cp cps).
Proof.
  induction cps as [|cp cps IH]; intros fuel Hall Hf.
  - destruct fuel; reflexivity.
  - inv Hall. unfold js_utf8_of in *. cbn [map concat] in *.
    pose proof (js_utf8_enc_length cp) as Hl. rewrite app_length in Hf.
    destruct fuel as [|f]; [lia|]. cbn [js_escape_aux].
    destruct (js_utf8_enc cp ++ concat (map js_utf8_enc cps)) as [|b t] eqn:E.
    { apply (f_equal (@length _)) in E. rewrite app_length in E. cbn in E. lia. }
    rewrite <- E. rewrite js_utf8_next_enc by assumption.
    rewrite skipn_app, Nat.sub_diag, skipn_all. cbn [skipn app].
    rewrite IH; [reflexivity|assumption|lia].
Qed.

Theorem js_escape_valid cps : Forall js_scalar cps -> js_escape (js_utf8_of cps) = concat (map js_esc_cp cps).
Proof. intros H. apply js_escape_aux_valid; [assumption|lia]. Qed.

(* ---------------------------------------------------------------- \uXXXX *)
Lemma js_hexval_hexdigit n : 0 <= n < 16 -> js_hexval (js_hexdigit n) = Some n.
Proof.
  intros H. unfold js_hexdigit, js_hexval. destruct (n <? 10) eqn:E.
  - assert ((48 <=? 48 + n) && (48 + n <=? 57) = true) as -> by lia. f_equal. lia.
  - assert ((48 <=? 87 + n) && (87 + n <=? 57) = false) as -> by lia.
    assert ((65 <=? 87 + n) && (87 + n <=? 70) = false) as -> by lia.
    assert ((97 <=? 87 + n) && (87 + n <=? 102) = true) as -> by lia. f_equal. lia.
Qed.

Theorem js_unhex4_hex4 x rest : 0 <= x < 65536 -> js_unhex4 (js_hex4 x ++ rest) = Some (x, rest).
Proof.
  intros H. unfold js_hex4. cbn [app js_unhex4].
  rewrite !js_hexval_hexdigit by lia. f_equal. f_equal. lia.
Qed.

(* the output of the escaper is pure ASCII without raw quotes, backslashes or control characters, except inside
   the escapes it writes itself *)
Lemma js_hexdigit_range n : 0 <= n < 16 -> 48 <= js_hexdigit n <= 102.
Proof. intros H. unfold js_hexdigit. destruct (n <? 10); lia. Qed.

(* surrogate pair arithmetic of dump_escaped / get_codepoint *)
Lemma js_surrogate_pair cp : 65536 <= cp <= 1114111 ->
  let hi := 55232 + cp / 1024 in let lo := 56320 + cp mod 1024 in
  55296 <= hi <= 56319 /\ 56320 <= lo <= 57343 /\ hi * 1024 + lo - 56613888 = cp.
Proof. intros H. cbv zeta. lia. Qed.

(* ---------------------------------------------------------------- the lexer inverts the escape of one code point *)
Theorem js_lex_str_esc_cp cp more acc f :
  js_scalar cp ->
  js_lex_str (S f) (js_esc_cp cp ++ more) acc = js_lex_str f more (acc ++ js_utf8_enc cp).
Proof.
  intros [Hr Hs]. unfold js_esc_cp.
  destruct (cp =? 8) eqn:E8. { apply Z.eqb_eq in E8. subst. reflexivity. }
  destruct (cp =? 9) eqn:E9. { apply Z.eqb_eq in E9. subst. reflexivity. }
  destruct (cp =? 10) eqn:E10. { apply Z.eqb_eq in E10. subst. reflexivity. }
  destruct (cp =? 12) eqn:E12. { apply Z.eqb_eq in E12. subst. reflexivity. }
  destruct (cp =? 13) eqn:E13. { apply Z.eqb_eq in E13. subst. reflexivity. }
  destruct (cp =? 34) eqn:E34. { apply Z.eqb_eq in E34. subst. reflexivity. }
  destruct (cp =? 92) eqn:E92. { apply Z.eqb_eq in E92. subst. reflexivity. }
  destruct ((cp <=? 31) || (127 <=? cp)) eqn:Eesc.
  - destruct (cp <=? 65535) eqn:E16.
    + cbn [app js_lex_str].
      change (92 =? 34) with false. change (92 =? 92) with true.
      change (117 =? 34) with false. change (117 =? 92) with false. change (117 =? 47) with false.
      change (117 =? 98) with false. change (117 =? 102) with false. change (117 =? 110) with false.
      change (117 =? 114) with false. change (117 =? 116) with false. change (117 =? 117) with true.
      cbv iota. rewrite js_unhex4_hex4 by lia.
      assert ((55296 <=? cp) && (cp <=? 56319) = false) as -> by lia.
      assert ((56320 <=? cp) && (cp <=? 57343) = false) as -> by lia.
      reflexivity.
    + pose proof (js_surrogate_pair cp ltac:(lia)) as Hsp. cbv zeta in Hsp. destruct Hsp as (Hhi & Hlo & Hcp).
      cbn [app js_lex_str].
      change (92 =? 34) with false. change (92 =? 92) with true.
      change (117 =? 34) with false. change (117 =? 92) with false. change (117 =? 47) with false.
      change (117 =? 98) with false. change (117 =? 102) with false. change (117 =? 110) with false.
      change (117 =? 114) with false. change (117 =? 116) with false. change (117 =? 117) with true.
      cbv iota. rewrite <- app_assoc. rewrite js_unhex4_hex4 by lia.
      assert ((55296 <=? 55232 + cp / 1024) && (55232 + cp / 1024 <=? 56319) = true) as -> by lia.
      cbn [app]. rewrite js_unhex4_hex4 by lia.
      assert ((56320 <=? 56320 + cp mod 1024) && (56320 + cp mod 1024 <=? 57343) = true) as -> by lia.
      rewrite Hcp. reflexivity.
  - cbn [app js_lex_str].
    assert ((cp =? 34) = false) as -> by assumption. assert ((cp =? 92) = false) as -> by assumption.
    assert ((cp <? 32) = false) as -> by lia.
    assert (js_utf8_enc cp = [cp]) as -> by (unfold js_utf8_enc; assert ((cp <? 128) = true) as -> by lia; reflexivity).
    reflexivity.
Qed.

(* C20 for strings: a string of well-formed UTF-8 (any scalar values: control characters, quotes, backslashes,
   DEL, every plane) that went through JsonEncoder::Strng is read back by the lexer as the same bytes *)
Theorem js_lex_str_escape cps : forall acc more f,
  Forall js_scalar cps -> (length cps < f)%nat ->
  js_lex_str f (concat (map js_esc_cp cps) ++ 34 :: more) acc = Some (acc ++ js_utf8_of cps, more).
Proof.
  induction cps as [|cp cps IH]; intros acc more f Hall Hf.
  - destruct f as [|f]; [cbn in Hf; lia|]. cbn. rewrite app_nil_r. reflexivity.
  - inv Hall. destruct f as [|f]; [lia|]. cbn [map concat]. rewrite <- app_assoc.
    rewrite js_lex_str_esc_cp by assumption.
    rewrite IH; [|assumption|cbn [length] in Hf; lia].
    unfold js_utf8_of. cbn [map concat]. rewrite app_assoc. reflexivity.
Qed.

Theorem js_string_roundtrip cps more f :
  Forall js_scalar cps -> (length cps < f)%nat ->
  match js_quote (js_utf8_of cps) ++ more with
  | q :: body => q = 34 /\ js_lex_str f body [] = Some (js_utf8_of cps, more)
  | [] => False
  end.
Proof.
  intros Hall Hf. unfold js_quote. rewrite js_sanitize_valid, js_escape_valid by assumption.
  cbn [app]. split; [reflexivity|]. rewrite <- app_assoc. cbn [app].
  rewrite js_lex_str_escape by assumption. reflexivity.
Qed.
